/-
  C05 — every ext4 image the library produces is clean for e2fsck.
  e2fsck itself is outside Lean: it is the property's own observation point and the engine's oracle.
  Proved here, for all inputs, about the logic that decides whether pass 5 (group summary) and the layout can
  be right at all:

  * the accounting machine (Model/Ext4/Alloc.lean): `AccInv` — every group's free counters equal the number of
    clear bits of its bitmaps and the superblock counters equal the sums — is preserved by allocateExtents for
    every answer of the allocation policy, by deallocateExtents, by allocateInode, and by every REFUSED call
    (`accounting_inv`); Remove's accounting as found breaks it on a concrete state (`cex_ext4_remove_accounting`),
    the repaired arithmetic restores it on that state.
  * the mkfs layout arithmetic (Model/Ext4/Mkfs.lean) for every accepted parameter set: counts are consistent
    (inodes per group a multiple of 8, inode count = groups × inodes per group, the groups exactly cover the
    blocks), and — when the metadata fits behind the flex owner (`Fits`, decidable, checked by the driver for
    every generated parameter set) — the per-group metadata regions are pairwise disjoint, lie behind the
    superblock / GDT copy and inside the owner's block group (`mkfs_regions_disjoint`, `mkfs_layout_inside`).

  PARTIAL: journal, resize inode, extent-tree blocks, directory link counts and checksums are not modelled;
  `removeInode` with the repaired arithmetic is proved to restore the invariant only on the witness state
  (general theorem `removeInode_fixed_inv` not proved).
-/
import DiskfsModel.Proofs.Ext4Alloc
import DiskfsModel.Proofs.Ext4Mkfs
namespace Diskfs.Ext4.C05
open Diskfs.Ext4 Diskfs.Ext4.Alloc Diskfs.Ext4.Mkfs

/-! ### accounting -/

/-- accounting_inv: every operation of the machine — carried out or refused — keeps counters = bitmaps -/
theorem accounting_inv (s : Acc) (op : Op) (h : AccInv s) : AccInv (step s op).state := by
  cases op with
  | alloc n c => exact allocExtents_inv s n c h
  | dealloc rs => exact deallocExtents_inv s rs h
  | newInode d => exact allocInode_inv s d h

/-- a refused allocation leaves the state untouched -/
theorem alloc_refused_unchanged (s : Acc) (n : Nat) (c : Option (List Run)) (s' : Acc)
    (h : allocExtents s n c = .refused s') : s' = s := by
  unfold allocExtents at h
  split at h
  · cases h; rfl
  · split at h
    · cases h; rfl
    · split at h
      · cases h
      · cases h; rfl

/-- histories: the invariant survives every sequence of operations -/
theorem accounting_inv_history (ops : List Op) (s : Acc) (h : AccInv s) :
    AccInv (ops.foldl (fun s op => (step s op).state) s) := by
  induction ops generalizing s with
  | nil => exact h
  | cons op ops ih => exact ih _ (accounting_inv s op h)

/-- the witness state: one group of 8 blocks (1 KiB geometry: firstDataBlock = 1) and 8 inodes; inode 3 owns
    blocks 4 and 5 -/
def wGeo : Geom := ⟨1, 8, 8⟩
def wState : Acc :=
  ⟨[{ bbm := [true, true, true, true, true, false, false, false],
      ibm := [true, true, true, false, false, false, false, false],
      freeBlocks := 3, freeInodes := 5, usedDirs := 1 }], 3, 5⟩

/-- Remove as found: wrong inode bit, wrong block bit, counters incremented twice — counters ≠ bitmaps -/
theorem cex_ext4_remove_accounting :
    AccInv wState ∧ blocksMarked wGeo wState [4, 5] = true ∧
    ¬ AccInv (removeInode false wGeo wState 3 [4, 5] 4 false) ∧
    AccInv (removeInode true wGeo wState 3 [4, 5] 4 false) := by
  refine ⟨by decide, by decide, by decide, by decide⟩

/-! ### mkfs layout -/

/-- mkfs_counts_consistent -/
theorem mkfs_counts_consistent (p : Params) (l : Layout) (h : mkLayout p = .ok l) :
    l.ipg % 8 = 0 ∧ l.inodeCount = l.ipg * l.groups ∧ 0 < l.groups ∧ 0 < l.bpg ∧
    (l.groups - 1) * l.bpg < l.numBlocks ∧ l.numBlocks ≤ l.groups * l.bpg ∧ 0 < l.flexSize := by
  unfold mkLayout at h
  split at h
  · cases h
  rename_i h1
  split at h
  · cases h
  rename_i h2
  split at h
  · cases h
  rename_i h3
  split at h
  · cases h
  rename_i h4
  split at h
  · cases h
  rename_i hg
  split at h
  · cases h
  injection h with h
  subst h
  have hbs : 1024 ≤ chooseBs p := by
    unfold chooseBs
    split
    · split <;> omega
    · have : ¬ (p.spb > 128 ∨ p.spb < 2) := fun hh => h1 ⟨by assumption, hh⟩
      omega
  have hbpg : 0 < chooseBpg p := by
    unfold chooseBpg maxBPG
    split
    · omega
    · omega
  have hc := ceilDiv_spec (numBlocksOf p) (chooseBpg p) hbpg (Nat.pos_of_ne_zero hg)
  refine ⟨?_, rfl, Nat.pos_of_ne_zero hg, hbpg, hc.1, hc.2, ?_⟩
  · simp only [layoutOf, ipgOf]; omega
  · simp only [layoutOf, flexSizeOf]
    split
    · exact Nat.two_pow_pos _
    · omega

/-- mkfs_regions_disjoint (flex_bg): the metadata slots (block bitmap, inode bitmap, inode table) of two
    different groups never overlap -/
theorem mkfs_regions_disjoint (l : Layout) (hf : 0 < l.flexSize) (hfit : Fits l true)
    (g1 g2 : Nat) (h1 : g1 < l.groups) (h2 : g2 < l.groups) (hne : g1 ≠ g2) :
    metaBase l true g1 + perGroupMeta l ≤ metaBase l true g2 ∨
    metaBase l true g2 + perGroupMeta l ≤ metaBase l true g1 := by
  by_cases ho : flexOwner l g1 = flexOwner l g2
  · rcases Nat.lt_or_gt_of_ne hne with h | h
    · left; exact flex_slots_ordered l g1 g2 ho h
    · right; exact flex_slots_ordered l g2 g1 ho.symm h
  · have i1 := flex_slot_inside l hf hfit g1 h1
    have i2 := flex_slot_inside l hf hfit g2 h2
    have b1 := blocksInGroup_le l (flexOwner l g1)
    have b2 := blocksInGroup_le l (flexOwner l g2)
    rcases Nat.lt_or_gt_of_ne ho with h | h
    · left; have := groupStart_mono l _ _ h; omega
    · right; have := groupStart_mono l _ _ h; omega

/-- mkfs_layout_inside (flex_bg): every group's metadata lies behind the superblock / GDT copy of its flex
    owner and inside that owner's block group -/
theorem mkfs_layout_inside (l : Layout) (hf : 0 < l.flexSize) (hfit : Fits l true) (g : Nat) (hg : g < l.groups) :
    groupStart l (flexOwner l g) + metaBlocks l (flexOwner l g) ≤ metaBase l true g ∧
    metaBase l true g + perGroupMeta l ≤ groupStart l (flexOwner l g) + blocksInGroup l (flexOwner l g) :=
  flex_slot_inside l hf hfit g hg

/-- without flex_bg the same two facts hold group by group -/
theorem mkfs_layout_inside_noflex (l : Layout) (hfit : Fits l false) (g : Nat) (hg : g < l.groups) :
    groupStart l g + metaBlocks l g ≤ metaBase l false g ∧
    metaBase l false g + perGroupMeta l ≤ groupStart l g + blocksInGroup l g := by
  have := hfit g hg
  simp only [Bool.false_eq_true, if_false] at this
  unfold metaBase
  simp only [Bool.false_eq_true, if_false]
  omega

/-! non-vacuity: the default 16 MiB volume -/
def p16 : Params := ⟨16 * 1024 * 1024, 0, 0, 0, 0, 0, true, true, true⟩
example : groupsOf p16 = 2 ∧ ipgOf p16 = 1024 ∧ chooseBs p16 = 1024 ∧ flexSizeOf p16 = 8 := by decide
example : Fits ⟨1024, 16384, 8192, 2, 1024, 2048, 1, 256, 64, 1, 256, 8, true⟩ true := by decide

end Diskfs.Ext4.C05
