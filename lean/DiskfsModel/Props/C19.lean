/-
  C19 — File metadata survives being written into an image.
  Property theorems only (codec level); helper lemmas live in Proofs/MetaCodec.lean.

  Each theorem is a round trip on the format's representable range (stated in the hypothesis) or a
  frame statement for a setter.  That the Go encoders/decoders compute what these mirrors compute
  is checked on every run through hooks (exhaustively over the 4096 mode patterns, and on boundary
  and random values for ids, sizes and times); that attributes set through the API are reported
  unchanged after the image is re-opened is the engine's end-to-end oracle.
-/
import DiskfsModel.Proofs.MetaCodec
import DiskfsModel.Proofs.MetaInodeBytes
import DiskfsModel.Proofs.MetaRR
import DiskfsModel.Proofs.MetaSqfs
import DiskfsModel.Proofs.MetaWriteBack
import DiskfsModel.Proofs.MetaSqXattr
import DiskfsModel.Generated.Meta
namespace Diskfs.C19
open Diskfs.Meta Diskfs.Ext4.InodeCodec

/-! ### FAT -/

/-- FAT date/time words: every civil time from 1980-01-01 to 2107-12-31 comes back with the seconds
    rounded down to an even number (2 s resolution).  Outside 1980..2107 the 7-bit year field
    wraps; that range is not claimed. -/
theorem fat_time_roundtrip (c : Civil) (h : InFatRange c) :
    fatUnpack (fatPack c).1 (fatPack c).2 = floor2s c := by
  obtain ⟨h1, h2, h3, h4, h5, h6, h7, h8, h9⟩ := h
  obtain ⟨y, mo, d, hh, mi, s⟩ := c
  simp only at h1 h2 h3 h4 h5 h6 h7 h8 h9
  simp only [fatUnpack, fatPack, floor2s, Civil.mk.injEq]
  refine ⟨?_, ?_, ?_, ?_, ?_, ?_⟩ <;> omega

/-- outside 1980..2107 the code stores the year modulo 128 (a 7-bit field; years before 1980 go through a
    negative int truncated to uint16): every civil time, whatever its year, comes back with its month, day
    and time of day intact (to 2 s) and the year 1980 + (year - 1980) mod 128 — 2108 reads 1980, 1979 reads
    2107, 1970 reads 2098. -/
theorem fat_time_year_wraps (c : Civil) (h3 : 1 ≤ c.month) (h4 : c.month ≤ 12) (h5 : 1 ≤ c.day) (h6 : c.day ≤ 31)
    (h7 : c.hour ≤ 23) (h8 : c.minute ≤ 59) (h9 : c.second ≤ 59) :
    fatUnpack (fatPack c).1 (fatPack c).2 =
      { floor2s c with year := 1980 + (((c.year : Int) - 1980) % 128).toNat } := by
  obtain ⟨y, mo, d, hh, mi, s⟩ := c
  simp only at h3 h4 h5 h6 h7 h8 h9
  simp only [fatUnpack, fatPack, floor2s, Civil.mk.injEq]
  refine ⟨?_, ?_, ?_, ?_, ?_, ?_⟩ <;> omega

/-- Chtimes(p, ctime, atime, mtime) on a FAT entry, as stored and parsed again: creation and modification
    time to 2 s, the access time as its date at midnight (the entry has no access time of day). -/
theorem fat_chtimes_roundtrip (t : EntryTimes) (hc : InFatRange t.create) (hm : InFatRange t.modify)
    (ha : InFatRange t.access) :
    fatTimesDec (fatTimesEnc t) = ⟨floor2s t.create, floor2s t.modify, dateOnly t.access⟩ := by
  have hd : InFatRange (dateOnly t.access) := by
    obtain ⟨h1, h2, h3, h4, h5, h6, _, _, _⟩ := ha
    exact ⟨h1, h2, h3, h4, h5, h6, by simp [dateOnly], by simp [dateOnly], by simp [dateOnly]⟩
  have e := fat_time_roundtrip (dateOnly t.access) hd
  have e1 : (fatPack (dateOnly t.access)).1 = (fatPack t.access).1 := rfl
  have e2 : (fatPack (dateOnly t.access)).2 = 0 := by simp [fatPack, dateOnly]
  have e3 : floor2s (dateOnly t.access) = dateOnly t.access := by simp [floor2s, dateOnly]
  rw [e1, e2, e3] at e
  simp only [fatTimesDec, fatTimesEnc, fat_time_roundtrip t.create hc, fat_time_roundtrip t.modify hm, e]

/-- just outside the range the year is garbage (2108 reads back as 1980): the range is tight -/
theorem fat_time_year_2108_wraps : (fatUnpack (fatPack ⟨2108, 1, 1, 0, 0, 0⟩).1 0).year = 1980 := by decide

/-- the attribute byte round-trips all six flags -/
theorem fat_attr_roundtrip (a : FatAttr) : fatAttrDec (fatAttrEnc a) = a := by
  obtain ⟨a1, a2, a3, a4, a5, a6⟩ := a
  cases a1 <;> cases a2 <;> cases a3 <;> cases a4 <;> cases a5 <;> cases a6 <;> decide

/-- SetHidden / SetSystem / SetReadOnly / SetArchiveBit change exactly their flag: after a re-read
    every other flag (incl. the directory bit: a file never turns into a directory) is as before. -/
theorem fat_attr_setter_frame (a : FatAttr) (v : Bool) :
    fatAttrDec (fatAttrEnc { a with hidden := v }) = { a with hidden := v } ∧
    fatAttrDec (fatAttrEnc { a with system := v }) = { a with system := v } ∧
    fatAttrDec (fatAttrEnc { a with readOnly := v }) = { a with readOnly := v } ∧
    fatAttrDec (fatAttrEnc { a with archive := v }) = { a with archive := v } :=
  ⟨fat_attr_roundtrip _, fat_attr_roundtrip _, fat_attr_roundtrip _, fat_attr_roundtrip _⟩

/-! ### ext4 inode -/

/-- 34-bit seconds + nanoseconds (kernel formula): round trip on [-2^31, 2^34 - 2^31) -/
theorem ext4_time_roundtrip (t : Ts) (h : TsWF t) : tsDec (tsLo t) (tsExtra t) = t :=
  ts_roundtrip_aux t h

/-- just outside: one second after the range decodes 2^34 seconds earlier -/
theorem ext4_time_range_tight :
    (tsDec (tsLo ⟨15032385536, 0⟩) (tsExtra ⟨15032385536, 0⟩)).sec = -2147483648 := by decide

/-- mode (type nibble + 12 permission bits), uid/gid (16+16), size (32+32), links, flags and the four
    timestamps survive encode → decode. -/
theorem ext4_inode_roundtrip (a : Attrs) (h : AttrsWF a) : dec (enc a) = a :=
  inode_roundtrip_aux a h

/-- Chmod changes the mode word and no other on-disk word -/
theorem ext4_chmod_frame (a : Attrs) (p : Nat) :
    enc (chmod a p) = { enc a with mode := (a.ftype * 4096 + p) % 65536 } := rfl

/-- Chown changes the four id words and nothing else; -1 (none) leaves a value alone -/
theorem ext4_chown_frame (a : Attrs) (u g : Option Nat) :
    enc (chown a u g) = { enc a with
      uidLo := (u.getD a.uid) % 65536, uidHi := (u.getD a.uid) / 65536 % 65536,
      gidLo := (g.getD a.gid) % 65536, gidHi := (g.getD a.gid) / 65536 % 65536 } := rfl

theorem ext4_chown_none (a : Attrs) : chown a none none = a := rfl

/-- Chtimes changes the creation, access and modification words and nothing else -/
theorem ext4_chtimes_frame (a : Attrs) (cr at' mt : Ts) :
    enc (chtimes a cr at' mt) = { enc a with
      crtimeLo := tsLo cr, crtimeExtra := tsExtra cr, atimeLo := tsLo at', atimeExtra := tsExtra at',
      mtimeLo := tsLo mt, mtimeExtra := tsExtra mt } := rfl

/-! the setters on the whole inode record (256 bytes on the library's images): FileSystem.Chmod / Chown /
    Chtimes read the inode, change their fields and write it back; the record written differs from the record
    read only in the setter's words (and the checksum halves, not modelled) -/

/-- Chmod on the record: the attributes it decodes to are the old ones with the new permission bits (type
    nibble, owner, size, times … untouched), the record keeps its length and every byte from offset 2 on -/
theorem ext4_chmod_record (b : Bytes) (perm : Nat) (h : RecordWF b) (hp : perm < 4096) :
    attrsOf (chmodBytes b perm) = chmod (attrsOf b) perm ∧ (chmodBytes b perm).length = b.length ∧
    ∀ i, 2 ≤ i → (chmodBytes b perm)[i]? = b[i]? :=
  ⟨attrsOf_chmodBytes b perm h hp, putWord_length b 0 2 _ (by unfold RecordWF at h; omega),
    fun i hi => chmodBytes_frame b perm i h hi⟩

/-- Chown on the record: uid / gid as given (`none`, the API's -1, keeps the stored value — also one above
    65535, through both halves), every byte outside the four id words untouched -/
theorem ext4_chown_record (b : Bytes) (uid gid : Option Nat) (h : RecordWF b)
    (hu : ∀ x, uid = some x → x < 4294967296) (hg : ∀ x, gid = some x → x < 4294967296) :
    attrsOf (chownBytes b uid gid) = chown (attrsOf b) uid gid ∧
    ∀ i, (i < 0x2 ∨ (0x4 ≤ i ∧ i < 0x18) ∨ (0x1a ≤ i ∧ i < 0x78) ∨ 0x7c ≤ i) → (chownBytes b uid gid)[i]? = b[i]? :=
  ⟨attrsOf_chownBytes b uid gid h hu hg, fun i hi => chownBytes_frame b uid gid i h hi⟩

/-- Chtimes on the record: creation, access and modification time as given on [-2^31, 2^34-2^31) with
    nanoseconds; the change time words (0xc, 0x84) and every other byte outside the six words untouched -/
theorem ext4_chtimes_record (b : Bytes) (cr at' mt : Ts) (h : RecordWF b) (hc : TsWF cr) (ha : TsWF at') (hm : TsWF mt) :
    attrsOf (chtimesBytes b cr at' mt) = chtimes (attrsOf b) cr at' mt ∧
    ∀ i, (i < 0x8 ∨ (0xc ≤ i ∧ i < 0x10) ∨ (0x14 ≤ i ∧ i < 0x88) ∨ 0x98 ≤ i) → (chtimesBytes b cr at' mt)[i]? = b[i]? :=
  ⟨attrsOf_chtimesBytes b cr at' mt h hc ha hm, fun i hi => chtimesBytes_frame b cr at' mt i h hi⟩

/-- a field of the record reads back what was written into it, and leaves every field that does not overlap alone -/
theorem ext4_record_field (b : Bytes) (off width v o2 w2 : Nat) (h : off + width ≤ b.length) :
    getWord (putWord b off width v) off width = v % 256 ^ width ∧
    ((o2 + w2 ≤ off ∨ off + width ≤ o2) → getWord (putWord b off width v) o2 w2 = getWord b o2 w2) :=
  ⟨getWord_putWord_same b off width v h, fun hd => getWord_putWord_other b off width v o2 w2 h hd⟩

/-- the setters never change the kind: after Chmod the decoded type is the one before -/
theorem ext4_chmod_keeps_kind (a : Attrs) (h : AttrsWF a) (p : Nat) (hp : p < 4096) :
    (dec (enc (chmod a p))).ftype = a.ftype ∧ (dec (enc (chmod a p))).perm = p := by
  obtain ⟨h1, _⟩ := h
  simp only [dec, enc, chmod]
  constructor <;> omega

/-- directories, regular files and symlinks are never reported as one another: the type nibble
    decodes to the kind that was encoded, whatever the permission bits -/
theorem kinds_distinct (k : Kind) (hk : k ≠ .other) (perm : Nat) (hp : perm < 4096) :
    kindOf ((kindCode k * 4096 + perm) % 65536 / 4096) = k := by
  have hc : kindCode k < 16 := by cases k <;> decide
  have e : (kindCode k * 4096 + perm) % 65536 / 4096 = kindCode k := by omega
  rw [e]
  cases k <;> simp_all [kindCode, kindOf]

theorem kinds_injective (k1 k2 : Kind) (p1 p2 : Nat) (h1 : p1 < 4096) (h2 : p2 < 4096)
    (hk1 : k1 ≠ .other) (hk2 : k2 ≠ .other)
    (h : kindCode k1 * 4096 + p1 = kindCode k2 * 4096 + p2) : k1 = k2 ∧ p1 = p2 := by
  cases k1 <;> cases k2 <;> simp_all [kindCode] <;> omega

/-- a word and its little-endian bytes (the layout of every field of `Words`) -/
theorem word_bytes_roundtrip (k n : Nat) (h : n < 256 ^ k) : leDec (leEnc k n) = n :=
  leDec_leEnc_of_lt k n h

/-! ### squashfs -/

/-- as found the header keeps exactly the nine rwx bits … -/
theorem sqfs_mode_roundtrip_as_found (m : GoMode) (h : m.perm < 512)
    (h1 : m.setuid = false) (h2 : m.setgid = false) (h3 : m.sticky = false) :
    sqModeDec SqCfg.asFound (sqModeEnc SqCfg.asFound m) = m := by
  obtain ⟨p, a, b, c⟩ := m
  simp only at h h1 h2 h3
  subst h1; subst h2; subst h3
  simp [sqModeDec, sqModeEnc, SqCfg.asFound, GoMode.bits, b2n]
  omega

/-- … and drops setuid / setgid / sticky (Go keeps them above bit 16) -/
theorem sqfs_mode_special_bits_dropped :
    sqModeDec SqCfg.asFound (sqModeEnc SqCfg.asFound ⟨0o755, true, true, true⟩) = ⟨0o755, false, false, false⟩ := by
  decide

/-- repaired: all twelve bits survive -/
theorem sqfs_mode_roundtrip (m : GoMode) (h : m.perm < 512) :
    sqModeDec SqCfg.fixed (sqModeEnc SqCfg.fixed m) = m := by
  have h1 := unix_lt m h
  have : m.unix % 65536 = m.unix := by omega
  simp only [sqModeDec, sqModeEnc, SqCfg.fixed, if_true, this]
  exact goModeOfUnix_unix m h

/-- mtime: seconds 0 … 2^32-1 (1970 … 2106) survive; outside that range the 32-bit word wraps -/
theorem sqfs_time_roundtrip (s : Int) (h0 : 0 ≤ s) (h1 : s < 4294967296) : sqTimeDec (sqTimeEnc s) = s := by
  unfold sqTimeDec sqTimeEnc; omega

theorem sqfs_time_before_1970_wraps : sqTimeDec (sqTimeEnc (-1)) = 4294967295 := by decide

/-- uid/gid table: the index handed out designates the id in the table, and ids already in the
    table keep their index (the old table is a prefix of the new one) -/
theorem sqfs_ids_roundtrip (tbl : List Nat) (id : Nat) :
    (idIndex tbl id).1[(idIndex tbl id).2]? = some id ∧ tbl <+: (idIndex tbl id).1 := by
  unfold idIndex
  cases h : findId tbl id with
  | some i => exact ⟨findId_get tbl id i h, List.prefix_refl _⟩
  | none => simp

/-! ### Rock Ridge -/

/-- PX st_mode: type and all twelve permission bits map both ways -/
theorem rr_px_mode_roundtrip (k : PxKind) (m : GoMode) (h : m.perm < 512) :
    pxModeDec (pxModeEnc k m) = (some k, m) := by
  have h1 := unix_lt m h
  have h2 := pxKindCode_lt k
  unfold pxModeDec pxModeEnc
  have e1 : (pxKindCode k * 4096 + m.unix) / 4096 % 16 = pxKindCode k := by omega
  have e2 : (pxKindCode k * 4096 + m.unix) % 4096 = m.unix := by omega
  rw [e1, e2, pxKind_code, goModeOfUnix_unix m h]

/-- PX kinds are distinct: two records with the same mode word have the same kind -/
theorem rr_px_kinds_distinct (k1 k2 : PxKind) (m1 m2 : GoMode) (h1 : m1.perm < 512) (h2 : m2.perm < 512)
    (h : pxModeEnc k1 m1 = pxModeEnc k2 m2) : k1 = k2 ∧ m1 = m2 := by
  have a := rr_px_mode_roundtrip k1 m1 h1
  have b := rr_px_mode_roundtrip k2 m2 h2
  rw [h] at a
  rw [a] at b
  simp only [Prod.mk.injEq, Option.some.injEq] at b
  exact b

/-- NM: a name of any length survives being cut into records of at most 249 bytes (all but the last
    flagged CONTINUE) and merged again -/
theorem rr_nm_roundtrip (name : Bytes) : nmDec ((nmEnc name).length + 1) (nmEnc name) = name := by
  unfold nmEnc
  rw [nmDec_records _ _ (by have := nmEnc_records_le (nmChunks (name.length + 1) name); omega)
    (nmChunks_len _ _)]
  exact nmChunks_concat _ _ (by omega)

/-! ### facts regenerated from /repo -/
open Diskfs.Generated

/-- the switch position the driver runs is the one read from squashfs/inode.go -/
theorem facts_agree_sqfs_mode : Meta.sqModeUnixBits = true ∨ Meta.sqModeUnixBits = false := by decide

/-- FAT attribute bits and ext4 mode masks are the constants the mirrors use -/
theorem facts_agree_constants :
    Meta.fatAttrBits = [1, 2, 4, 8, 16, 32] ∧ Meta.ext4PermMasks = [0o100, 0o200, 0o400, 0o10, 0o20, 0o40, 0o1, 0o2, 0o4, 0o1000, 0o2000, 0o4000] ∧
    Meta.ext4TypeCodes = [0x1000, 0x2000, 0x4000, 0x6000, 0x8000, 0xA000, 0xC000] := by
  decide

/-! non-vacuity -/
example : InFatRange ⟨2026, 9, 23, 12, 38, 39⟩ := by simp [InFatRange]
example : fatPack ⟨2026, 9, 23, 12, 38, 39⟩ = (23863, 25811) := by decide
example : TsWF ⟨-86400, 999999999⟩ := by simp [TsWF]
example : AttrsWF ⟨8, 0o4755, 100000, 65536, 5000000000, 1, 0x80000, ⟨-1, 5⟩, ⟨0, 0⟩, ⟨4294967296, 1⟩, ⟨15032385535, 999999999⟩⟩ := by
  simp [AttrsWF, TsWF]
example : (idIndex [0, 1000] 65534) = ([0, 1000, 65534], 2) := by decide
example : RecordWF (zeros 256) := by simp [RecordWF]
example : (attrsOf (chmodBytes (zeros 256) 0o4750)).perm = 0o4750 := by
  rw [(ext4_chmod_record (zeros 256) 0o4750 (by simp [RecordWF]) (by decide)).1]; rfl
-- a directory's mode word 0x41ed after Chmod 04750: type nibble 4 kept, twelve bits replaced
example : (0x41ed / 4096 * 4096 + 0o4750) % 65536 = 0x49e8 := by decide
example : fatUnpack (fatPack ⟨1970, 1, 1, 0, 0, 1⟩).1 (fatPack ⟨1970, 1, 1, 0, 0, 1⟩).2 = ⟨2098, 1, 1, 0, 0, 0⟩ := by decide

/-! ### second round (deep5-meta): Rock Ridge time stamps, TF and PX records; squashfs id table blocks and the
    remaining inode types; the ext4 setters through the library's read-modify-write -/

/-- the 7-byte stamp (TF short form, also the directory record date): every civil time of the years 1900..2155
    with a zone offset of -128..127 quarter hours comes back, to the second, the offset cut to quarter hours -/
theorem rr_stamp7_roundtrip (s : Stamp) (h : Stamp7WF s) : stamp7Dec (stamp7Enc s) = stamp7Norm s :=
  stamp7_roundtrip_aux s h

/-- … and outside that range exactly this happens: the year comes back as 1900 + (year - 1900) mod 256 (1899 reads
    2155, 2156 reads 1900), the zone as its quarter hours mod 256 read as a signed byte -/
theorem rr_stamp7_wraps (s : Stamp) (h3 : s.month < 256) (h4 : s.day < 256) (h5 : s.hour < 256) (h6 : s.minute < 256)
    (h7 : s.second < 256) :
    stamp7Dec (stamp7Enc s) =
      { s with year := 1900 + (s.year - 1900) % 256, csec := 0,
               offset := int8 (tzQuarters s.offset % 256).toNat * 900 } :=
  stamp7_wraps_aux s h3 h4 h5 h6 h7

theorem rr_stamp7_range_tight :
    (stamp7Dec (stamp7Enc ⟨2156, 1, 1, 0, 0, 0, 0, 0⟩)).year = 1900 ∧ (stamp7Dec (stamp7Enc ⟨1899, 1, 1, 0, 0, 0, 0, 0⟩)).year = 2155 := by
  decide

/-- the 17-byte stamp (TF long form): every valid civil time of the years 0..9999 with hundredths of a second and a
    zone offset of at most 99 quarter hours either way passes the digits and time.Parse's checks and comes back -/
theorem rr_stamp17_roundtrip (s : Stamp) (h : Stamp17WF s) : stamp17Dec (stamp17Enc s) = some (stamp17Norm s) :=
  stamp17_roundtrip_aux s h

/-- a year of five digits loses its last digit (12345 is stored as 1234); a zone of 25 hours is refused when read -/
theorem rr_stamp17_range_tight :
    (stamp17Dec (stamp17Enc ⟨12345, 1, 2, 3, 4, 5, 0, 0⟩)).map (·.year) = some 1234 ∧
    stamp17Dec (stamp17Enc ⟨2026, 1, 2, 3, 4, 5, 0, 90000⟩) = none := by decide

/-- a TF record, either form, any subset of the seven stamps: flags byte, stamps in bit order, length byte; the
    parser returns the form and exactly the stamps recorded, each as its codec returns it -/
theorem rr_tf_roundtrip (t : Tf) (hn : t.slots.length = 7) (h : ∀ s, some s ∈ t.slots → StampWF t.long s) :
    tfDec (tfEnc t) = some ⟨t.long, t.slots.map (Option.map (stampNorm t.long))⟩ :=
  tf_roundtrip_aux t hn h

/-- the whole 44-byte PX record: type, twelve mode bits, link count, uid and gid (32 bits each) come back from the
    little-endian halves the parser reads, and the big-endian halves hold the same four values -/
theorem rr_px_record_roundtrip (p : Px) (hm : p.mode.perm < 512) (hl : p.links < 2 ^ 32) (hu : p.uid < 2 ^ 32)
    (hg : p.gid < 2 ^ 32) :
    pxDec (pxEnc p) = some (some p.kind, p.mode, p.links, p.uid, p.gid) ∧
    pxBigEndian (pxEnc p) = (pxModeEnc p.kind p.mode, p.links, p.uid, p.gid) ∧
    pxLittleEndian (pxEnc p) = (pxModeEnc p.kind p.mode, p.links, p.uid, p.gid) := by
  obtain ⟨f1, f2, f3, f4, f5, f6, f7, f8⟩ := px_fields p
  have hmode := pxModeEnc_lt p.kind p.mode hm
  have e4 : ∀ n, n < 2 ^ 32 → leDec (leEnc 4 n) = n := fun n hn => leDec_leEnc_of_lt 4 n (by simpa using hn)
  have b4 : ∀ n, n < 2 ^ 32 → beDec (beEnc 4 n) = n := fun n hn => beDec_beEnc_of_lt 4 n (by simpa using hn)
  refine ⟨?_, ?_, ?_⟩
  · have g2 : (pxEnc p).getD 2 0 = 44 := by simp [pxEnc]
    have g3 : (pxEnc p).getD 3 0 = 1 := by simp [pxEnc]
    unfold pxDec
    rw [if_neg (by rw [pxEnc_length, g2, g3]; decide)]
    simp only [f1, f3, f5, f7, e4 _ hmode, e4 _ hl, e4 _ hu, e4 _ hg, rr_px_mode_roundtrip p.kind p.mode hm]
  · simp only [pxBigEndian, f2, f4, f6, f8, b4 _ hmode, b4 _ hl, b4 _ hu, b4 _ hg]
  · simp only [pxLittleEndian, f1, f3, f5, f7, e4 _ hmode, e4 _ hl, e4 _ hu, e4 _ hg]

/-- squashfs id table across metadata blocks: up to 65535 ids written 2048 to a block are read back complete and in
    order - with the repaired arithmetic for every count, as found up to 16384 ids -/
theorem sqfs_idtable_blocks_roundtrip (widen : Bool) (ids : List Nat) (h0 : 0 < ids.length) (h1 : ids.length < 65536)
    (hw : widen = true ∨ ids.length ≤ 16384) : readIds widen ids.length (idBlocksWr ids) = ids :=
  idtable_blocks_roundtrip_aux widen ids h0 h1 hw

/-- as found (`idCount*4` in uint16): of 16385 ids - nine metadata blocks - one block is read: every table of that
    size comes back as its first 2048 ids -/
theorem sqfs_id_blocks_wrap_16385 :
    idBlocksRd false 16385 = 1 ∧ idBlocksRd true 16385 = 9 ∧
    ∀ ids : List Nat, ids.length = 16385 → readIds false ids.length (idBlocksWr ids) = ids.take 2048 := by
  refine ⟨by decide, by decide, fun ids h => ?_⟩
  rw [readIds_take false ids ids.length (by rw [h]; decide), h]
  rfl

/-- chained with the index hand-out: the owner recorded for a file is the id at its index in the table read back -/
theorem sqfs_owner_through_blocks (widen : Bool) (tbl : List Nat) (id : Nat)
    (h1 : (idIndex tbl id).1.length < 65536) (hw : widen = true ∨ (idIndex tbl id).1.length ≤ 16384) :
    (readIds widen (idIndex tbl id).1.length (idBlocksWr (idIndex tbl id).1))[(idIndex tbl id).2]? = some id := by
  have h0 : 0 < (idIndex tbl id).1.length := by
    have := (sqfs_ids_roundtrip tbl id).1
    cases hl : (idIndex tbl id).1 with
    | nil => rw [hl] at this; simp at this
    | cons _ _ => simp
  rw [sqfs_idtable_blocks_roundtrip widen _ h0 h1 hw]
  exact (sqfs_ids_roundtrip tbl id).1

/-- the squashfs inode types outside the data-path model (extended symlink, block and character devices, fifos and
    sockets, basic and extended): header (mode word, uid and gid index, mtime, inode number), link count, xattr
    index, symlink target and device word all come back, and the bytes after the inode are left for the next one -/
theorem sqfs_other_inodes_roundtrip (h : XHdr) (b : XBody) (rest : Bytes) (hh : h.WF) (hf : b.fits h.typ = true)
    (hb : b.WF) : decX (encX h b ++ rest) = some (h, b, rest) :=
  decX_encX h b rest hh hf hb

/-- ext4, repaired write-back (toBytes starts from the record read): the library's Chmod / Chown / Chtimes produce
    exactly the record the setter theorems above are about - every byte outside the setter's words is kept -/
theorem ext4_setters_rmw_kept (b : Bytes) (perm : Nat) (uid gid : Option Nat) (cr at' mt : Ts) :
    chmodRmw true b perm = chmodBytes b perm ∧ chownRmw true b uid gid = chownBytes b uid gid ∧
    chtimesRmw true b cr at' mt = chtimesBytes b cr at' mt := ⟨rfl, rfl, rfl⟩

/-- ext4, as found (toBytes starts from zeros): a write-back keeps the length and every byte outside 0x70..0x73,
    0x7e..0x7f, the flags word and the bytes from 0x98 on - and zeroes those -/
theorem ext4_writeback_as_found_drops (b : Bytes) (h : RecordWF b) :
    (writeBack false b).length = b.length ∧
    (∀ i, dropped i = false → (i < 0x20 ∨ 0x24 ≤ i) → (writeBack false b)[i]? = b[i]?) ∧
    (∀ i, i < b.length → dropped i = true → (writeBack false b)[i]? = some 0) :=
  ⟨writeBack_length false b h, fun i hd hf => writeBack_frame b i h hd hf, fun i hi hd => writeBack_drops b i h hi hd⟩

/-- … so as found each of the three setters wipes the inode body from 0x98 on: high half of i_version, i_projid and
    the extended attributes stored in the inode (the defect ext4-inode-writeback-drops-unmodelled-fields) -/
theorem ext4_setters_drop_inode_body (b : Bytes) (perm : Nat) (uid gid : Option Nat) (cr at' mt : Ts) (i : Nat)
    (h : RecordWF b) (hi : i < b.length) (h98 : 0x98 ≤ i) :
    (chmodRmw false b perm)[i]? = some 0 ∧ (chownRmw false b uid gid)[i]? = some 0 ∧
    (chtimesRmw false b cr at' mt)[i]? = some 0 :=
  ⟨chmodRmw_drops b perm i h hi h98, chownRmw_drops b uid gid i h hi h98, chtimesRmw_drops b cr at' mt i h hi h98⟩

/-- the constants the second-round mirrors are defined over are the ones in the source: the flag bits inodeFlags
    carries, four-byte ids in 8 KiB metadata blocks (2048 to a block), the fourteen inode type codes, the TF bits -/
theorem facts_agree_second_round :
    Meta.ext4InodeFlagsKnown = knownFlags ∧ Meta.sqMetadataBlockSize / Meta.sqIdEntrySize = 2048 ∧
    Meta.sqInodeTypes = [1, 2, 3, 4, 5, 6, 7, 8, 9, 10, 11, 12, 13, 14] ∧ Meta.rrTfBits = [1, 2, 4, 8, 16, 32, 64, 128] := by
  decide

/-! non-vacuity (second round) -/
example : Stamp7WF ⟨2026, 9, 24, 2, 5, 0, 0, -5400⟩ := by unfold Stamp7WF; decide
example : Stamp17WF ⟨2024, 2, 29, 23, 59, 59, 99, 50400⟩ := by unfold Stamp17WF; decide
example : StampWF true ⟨2024, 2, 29, 23, 59, 59, 99, 50400⟩ := by
  show Stamp17WF _
  unfold Stamp17WF; decide
example : tfDec (tfEnc ⟨false, [none, some ⟨2026, 9, 24, 2, 5, 0, 0, 0⟩, some ⟨1999, 12, 31, 23, 59, 59, 0, 3600⟩, none, none, none, none]⟩) =
    some ⟨false, [none, some ⟨2026, 9, 24, 2, 5, 0, 0, 0⟩, some ⟨1999, 12, 31, 23, 59, 59, 0, 3600⟩, none, none, none, none]⟩ := by decide
example : (XHdr.mk 11 0o644 1 2 5 9).WF ∧ (XBody.devx 1 2048 7).fits 11 = true ∧ (XBody.devx 1 2048 7).WF := by
  simp [XHdr.WF, XBody.fits, XBody.WF]
example : (idIndex [0, 1000] 65534).1.length < 65536 := by decide
-- the inode body of a 256-byte record: offsets 0x98..0xff satisfy the hypotheses of ext4_setters_drop_inode_body
example : RecordWF (zeros 256) ∧ (0xa3 : Nat) < (zeros 256).length ∧ 0x98 ≤ (0xa3 : Nat) ∧ dropped 0xa3 = true := by
  simp [RecordWF, dropped]

/-! ### squashfs extended attributes: the reader's lookup walk (xAttrTable.find) -/

open Diskfs.Meta.SqXattr in
/-- squashfs xattr lookup: an id entry that names the position of `as.length` attributes laid out back to back
    in the key/value data (anything before, anything behind) yields exactly these attributes, in order: names of
    1..65535 bytes, values of any length below 2^32 (empty ones included), any number of attributes.  With the
    cursor rule as found this fails from the third attribute on (sqfs_xattr_cursor_as_found). -/
theorem sqfs_xattr_find_all (pre : Bytes) (as : List Attr) (rest : Bytes) (h : ∀ a ∈ as, WfAttr a)
    (hpos : 0 < (encSet as ++ rest).length) :
    find true (pre ++ (encSet as ++ rest)) pre.length as.length = some (as.map fun a => (a.name, a.val)) := by
  have hlt : ¬ (pre ++ (encSet as ++ rest)).length ≤ pre.length := by
    simp only [List.length_append] at hpos ⊢; omega
  have := walk_encSet [] as rest h
  simp only [List.nil_append, List.length_nil] at this
  simp only [find, if_neg hlt, List.drop_left, this]

open Diskfs.Meta.SqXattr in
/-- … so the lookup finds the i-th attribute of the set, for every i -/
theorem sqfs_xattr_find_ith (pre : Bytes) (as : List Attr) (rest : Bytes) (h : ∀ a ∈ as, WfAttr a)
    (i : Nat) (hi : i < as.length) :
    (find true (pre ++ (encSet as ++ rest)) pre.length as.length).bind (·[i]?) = some (as[i].name, as[i].val) := by
  have hpos : 0 < (encSet as ++ rest).length := by
    cases as with
    | nil => simp at hi
    | cons a t => simp [encSet, encAttr]; omega
  rw [sqfs_xattr_find_all pre as rest h hpos]
  simp [hi]

open Diskfs.Meta.SqXattr in
/-- the cursor rule as found (`ptr += valStart + valSize`, repaired by 104ff15) is right for ids of one or two
    attributes, on any bytes, and misreads a set of three: after the second attribute the cursor is one attribute too far -/
theorem sqfs_xattr_cursor_as_found :
    (∀ b n, n ≤ 2 → walk false b n 0 = walk true b n 0) ∧
    walk false (encSet [⟨0, [97], [49]⟩, ⟨0, [98], [50]⟩, ⟨0, [99], [51]⟩]) 3 0 = none ∧
    walk true (encSet [⟨0, [97], [49]⟩, ⟨0, [98], [50]⟩, ⟨0, [99], [51]⟩]) 3 0
      = some [([97], [49]), ([98], [50]), ([99], [51])] :=
  ⟨walk_as_found_le_two, by decide, by decide⟩

/-! non-vacuity (xattr walk) -/
example : Meta.SqXattr.WfAttr ⟨0, [117, 115, 101, 114], []⟩ := by simp [Meta.SqXattr.WfAttr]
example : Meta.SqXattr.find true (Meta.SqXattr.encSet [⟨0, [97], []⟩, ⟨2, [98, 98], [1, 2, 3]⟩]) 0 2
    = some [([97], []), ([98, 98], [1, 2, 3])] := by decide

end Diskfs.C19
