/-
  C19 — File metadata survives being written into an image.
  Property theorems only (codec level); helper lemmas live in Proofs/MetaCodec.lean.

  Each theorem is a round trip on the format's representable range (stated in the hypothesis) or a
  frame statement for a setter.  That the Go encoders/decoders compute what these mirrors compute
  is checked on every run through hooks (exhaustively over the 4096 mode patterns, and on boundary
  and random values for ids, sizes and times); that attributes set through the API are reported
  unchanged after the image is re-opened is the engine's end-to-end oracle.
-/
import DiskfsModel.Proofs.MetaCodec
import DiskfsModel.Proofs.MetaInodeBytes
import DiskfsModel.Generated.Meta
namespace Diskfs.C19
open Diskfs.Meta Diskfs.Ext4.InodeCodec

/-! ### FAT -/

/-- FAT date/time words: every civil time from 1980-01-01 to 2107-12-31 comes back with the seconds
    rounded down to an even number (2 s resolution).  Outside 1980..2107 the 7-bit year field
    wraps; that range is not claimed. -/
theorem fat_time_roundtrip (c : Civil) (h : InFatRange c) :
    fatUnpack (fatPack c).1 (fatPack c).2 = floor2s c := by
  obtain ⟨h1, h2, h3, h4, h5, h6, h7, h8, h9⟩ := h
  obtain ⟨y, mo, d, hh, mi, s⟩ := c
  simp only at h1 h2 h3 h4 h5 h6 h7 h8 h9
  simp only [fatUnpack, fatPack, floor2s, Civil.mk.injEq]
  refine ⟨?_, ?_, ?_, ?_, ?_, ?_⟩ <;> omega

/-- outside 1980..2107 the code stores the year modulo 128 (a 7-bit field; years before 1980 go through a
    negative int truncated to uint16): every civil time, whatever its year, comes back with its month, day
    and time of day intact (to 2 s) and the year 1980 + (year - 1980) mod 128 — 2108 reads 1980, 1979 reads
    2107, 1970 reads 2098. -/
theorem fat_time_year_wraps (c : Civil) (h3 : 1 ≤ c.month) (h4 : c.month ≤ 12) (h5 : 1 ≤ c.day) (h6 : c.day ≤ 31)
    (h7 : c.hour ≤ 23) (h8 : c.minute ≤ 59) (h9 : c.second ≤ 59) :
    fatUnpack (fatPack c).1 (fatPack c).2 =
      { floor2s c with year := 1980 + (((c.year : Int) - 1980) % 128).toNat } := by
  obtain ⟨y, mo, d, hh, mi, s⟩ := c
  simp only at h3 h4 h5 h6 h7 h8 h9
  simp only [fatUnpack, fatPack, floor2s, Civil.mk.injEq]
  refine ⟨?_, ?_, ?_, ?_, ?_, ?_⟩ <;> omega

/-- Chtimes(p, ctime, atime, mtime) on a FAT entry, as stored and parsed again: creation and modification
    time to 2 s, the access time as its date at midnight (the entry has no access time of day). -/
theorem fat_chtimes_roundtrip (t : EntryTimes) (hc : InFatRange t.create) (hm : InFatRange t.modify)
    (ha : InFatRange t.access) :
    fatTimesDec (fatTimesEnc t) = ⟨floor2s t.create, floor2s t.modify, dateOnly t.access⟩ := by
  have hd : InFatRange (dateOnly t.access) := by
    obtain ⟨h1, h2, h3, h4, h5, h6, _, _, _⟩ := ha
    exact ⟨h1, h2, h3, h4, h5, h6, by simp [dateOnly], by simp [dateOnly], by simp [dateOnly]⟩
  have e := fat_time_roundtrip (dateOnly t.access) hd
  have e1 : (fatPack (dateOnly t.access)).1 = (fatPack t.access).1 := rfl
  have e2 : (fatPack (dateOnly t.access)).2 = 0 := by simp [fatPack, dateOnly]
  have e3 : floor2s (dateOnly t.access) = dateOnly t.access := by simp [floor2s, dateOnly]
  rw [e1, e2, e3] at e
  simp only [fatTimesDec, fatTimesEnc, fat_time_roundtrip t.create hc, fat_time_roundtrip t.modify hm, e]

/-- just outside the range the year is garbage (2108 reads back as 1980): the range is tight -/
theorem fat_time_year_2108_wraps : (fatUnpack (fatPack ⟨2108, 1, 1, 0, 0, 0⟩).1 0).year = 1980 := by decide

/-- the attribute byte round-trips all six flags -/
theorem fat_attr_roundtrip (a : FatAttr) : fatAttrDec (fatAttrEnc a) = a := by
  obtain ⟨a1, a2, a3, a4, a5, a6⟩ := a
  cases a1 <;> cases a2 <;> cases a3 <;> cases a4 <;> cases a5 <;> cases a6 <;> decide

/-- SetHidden / SetSystem / SetReadOnly / SetArchiveBit change exactly their flag: after a re-read
    every other flag (incl. the directory bit: a file never turns into a directory) is as before. -/
theorem fat_attr_setter_frame (a : FatAttr) (v : Bool) :
    fatAttrDec (fatAttrEnc { a with hidden := v }) = { a with hidden := v } ∧
    fatAttrDec (fatAttrEnc { a with system := v }) = { a with system := v } ∧
    fatAttrDec (fatAttrEnc { a with readOnly := v }) = { a with readOnly := v } ∧
    fatAttrDec (fatAttrEnc { a with archive := v }) = { a with archive := v } :=
  ⟨fat_attr_roundtrip _, fat_attr_roundtrip _, fat_attr_roundtrip _, fat_attr_roundtrip _⟩

/-! ### ext4 inode -/

/-- 34-bit seconds + nanoseconds (kernel formula): round trip on [-2^31, 2^34 - 2^31) -/
theorem ext4_time_roundtrip (t : Ts) (h : TsWF t) : tsDec (tsLo t) (tsExtra t) = t :=
  ts_roundtrip_aux t h

/-- just outside: one second after the range decodes 2^34 seconds earlier -/
theorem ext4_time_range_tight :
    (tsDec (tsLo ⟨15032385536, 0⟩) (tsExtra ⟨15032385536, 0⟩)).sec = -2147483648 := by decide

/-- mode (type nibble + 12 permission bits), uid/gid (16+16), size (32+32), links, flags and the four
    timestamps survive encode → decode. -/
theorem ext4_inode_roundtrip (a : Attrs) (h : AttrsWF a) : dec (enc a) = a :=
  inode_roundtrip_aux a h

/-- Chmod changes the mode word and no other on-disk word -/
theorem ext4_chmod_frame (a : Attrs) (p : Nat) :
    enc (chmod a p) = { enc a with mode := (a.ftype * 4096 + p) % 65536 } := rfl

/-- Chown changes the four id words and nothing else; -1 (none) leaves a value alone -/
theorem ext4_chown_frame (a : Attrs) (u g : Option Nat) :
    enc (chown a u g) = { enc a with
      uidLo := (u.getD a.uid) % 65536, uidHi := (u.getD a.uid) / 65536 % 65536,
      gidLo := (g.getD a.gid) % 65536, gidHi := (g.getD a.gid) / 65536 % 65536 } := rfl

theorem ext4_chown_none (a : Attrs) : chown a none none = a := rfl

/-- Chtimes changes the creation, access and modification words and nothing else -/
theorem ext4_chtimes_frame (a : Attrs) (cr at' mt : Ts) :
    enc (chtimes a cr at' mt) = { enc a with
      crtimeLo := tsLo cr, crtimeExtra := tsExtra cr, atimeLo := tsLo at', atimeExtra := tsExtra at',
      mtimeLo := tsLo mt, mtimeExtra := tsExtra mt } := rfl

/-! the setters on the whole inode record (256 bytes on the library's images): FileSystem.Chmod / Chown /
    Chtimes read the inode, change their fields and write it back; the record written differs from the record
    read only in the setter's words (and the checksum halves, not modelled) -/

/-- Chmod on the record: the attributes it decodes to are the old ones with the new permission bits (type
    nibble, owner, size, times … untouched), the record keeps its length and every byte from offset 2 on -/
theorem ext4_chmod_record (b : Bytes) (perm : Nat) (h : RecordWF b) (hp : perm < 4096) :
    attrsOf (chmodBytes b perm) = chmod (attrsOf b) perm ∧ (chmodBytes b perm).length = b.length ∧
    ∀ i, 2 ≤ i → (chmodBytes b perm)[i]? = b[i]? :=
  ⟨attrsOf_chmodBytes b perm h hp, putWord_length b 0 2 _ (by unfold RecordWF at h; omega),
    fun i hi => chmodBytes_frame b perm i h hi⟩

/-- Chown on the record: uid / gid as given (`none`, the API's -1, keeps the stored value — also one above
    65535, through both halves), every byte outside the four id words untouched -/
theorem ext4_chown_record (b : Bytes) (uid gid : Option Nat) (h : RecordWF b)
    (hu : ∀ x, uid = some x → x < 4294967296) (hg : ∀ x, gid = some x → x < 4294967296) :
    attrsOf (chownBytes b uid gid) = chown (attrsOf b) uid gid ∧
    ∀ i, (i < 0x2 ∨ (0x4 ≤ i ∧ i < 0x18) ∨ (0x1a ≤ i ∧ i < 0x78) ∨ 0x7c ≤ i) → (chownBytes b uid gid)[i]? = b[i]? :=
  ⟨attrsOf_chownBytes b uid gid h hu hg, fun i hi => chownBytes_frame b uid gid i h hi⟩

/-- Chtimes on the record: creation, access and modification time as given on [-2^31, 2^34-2^31) with
    nanoseconds; the change time words (0xc, 0x84) and every other byte outside the six words untouched -/
theorem ext4_chtimes_record (b : Bytes) (cr at' mt : Ts) (h : RecordWF b) (hc : TsWF cr) (ha : TsWF at') (hm : TsWF mt) :
    attrsOf (chtimesBytes b cr at' mt) = chtimes (attrsOf b) cr at' mt ∧
    ∀ i, (i < 0x8 ∨ (0xc ≤ i ∧ i < 0x10) ∨ (0x14 ≤ i ∧ i < 0x88) ∨ 0x98 ≤ i) → (chtimesBytes b cr at' mt)[i]? = b[i]? :=
  ⟨attrsOf_chtimesBytes b cr at' mt h hc ha hm, fun i hi => chtimesBytes_frame b cr at' mt i h hi⟩

/-- a field of the record reads back what was written into it, and leaves every field that does not overlap alone -/
theorem ext4_record_field (b : Bytes) (off width v o2 w2 : Nat) (h : off + width ≤ b.length) :
    getWord (putWord b off width v) off width = v % 256 ^ width ∧
    ((o2 + w2 ≤ off ∨ off + width ≤ o2) → getWord (putWord b off width v) o2 w2 = getWord b o2 w2) :=
  ⟨getWord_putWord_same b off width v h, fun hd => getWord_putWord_other b off width v o2 w2 h hd⟩

/-- the setters never change the kind: after Chmod the decoded type is the one before -/
theorem ext4_chmod_keeps_kind (a : Attrs) (h : AttrsWF a) (p : Nat) (hp : p < 4096) :
    (dec (enc (chmod a p))).ftype = a.ftype ∧ (dec (enc (chmod a p))).perm = p := by
  obtain ⟨h1, _⟩ := h
  simp only [dec, enc, chmod]
  constructor <;> omega

/-- directories, regular files and symlinks are never reported as one another: the type nibble
    decodes to the kind that was encoded, whatever the permission bits -/
theorem kinds_distinct (k : Kind) (hk : k ≠ .other) (perm : Nat) (hp : perm < 4096) :
    kindOf ((kindCode k * 4096 + perm) % 65536 / 4096) = k := by
  have hc : kindCode k < 16 := by cases k <;> decide
  have e : (kindCode k * 4096 + perm) % 65536 / 4096 = kindCode k := by omega
  rw [e]
  cases k <;> simp_all [kindCode, kindOf]

theorem kinds_injective (k1 k2 : Kind) (p1 p2 : Nat) (h1 : p1 < 4096) (h2 : p2 < 4096)
    (hk1 : k1 ≠ .other) (hk2 : k2 ≠ .other)
    (h : kindCode k1 * 4096 + p1 = kindCode k2 * 4096 + p2) : k1 = k2 ∧ p1 = p2 := by
  cases k1 <;> cases k2 <;> simp_all [kindCode] <;> omega

/-- a word and its little-endian bytes (the layout of every field of `Words`) -/
theorem word_bytes_roundtrip (k n : Nat) (h : n < 256 ^ k) : leDec (leEnc k n) = n :=
  leDec_leEnc_of_lt k n h

/-! ### squashfs -/

/-- as found the header keeps exactly the nine rwx bits … -/
theorem sqfs_mode_roundtrip_as_found (m : GoMode) (h : m.perm < 512)
    (h1 : m.setuid = false) (h2 : m.setgid = false) (h3 : m.sticky = false) :
    sqModeDec SqCfg.asFound (sqModeEnc SqCfg.asFound m) = m := by
  obtain ⟨p, a, b, c⟩ := m
  simp only at h h1 h2 h3
  subst h1; subst h2; subst h3
  simp [sqModeDec, sqModeEnc, SqCfg.asFound, GoMode.bits, b2n]
  omega

/-- … and drops setuid / setgid / sticky (Go keeps them above bit 16) -/
theorem sqfs_mode_special_bits_dropped :
    sqModeDec SqCfg.asFound (sqModeEnc SqCfg.asFound ⟨0o755, true, true, true⟩) = ⟨0o755, false, false, false⟩ := by
  decide

/-- repaired: all twelve bits survive -/
theorem sqfs_mode_roundtrip (m : GoMode) (h : m.perm < 512) :
    sqModeDec SqCfg.fixed (sqModeEnc SqCfg.fixed m) = m := by
  have h1 := unix_lt m h
  have : m.unix % 65536 = m.unix := by omega
  simp only [sqModeDec, sqModeEnc, SqCfg.fixed, if_true, this]
  exact goModeOfUnix_unix m h

/-- mtime: seconds 0 … 2^32-1 (1970 … 2106) survive; outside that range the 32-bit word wraps -/
theorem sqfs_time_roundtrip (s : Int) (h0 : 0 ≤ s) (h1 : s < 4294967296) : sqTimeDec (sqTimeEnc s) = s := by
  unfold sqTimeDec sqTimeEnc; omega

theorem sqfs_time_before_1970_wraps : sqTimeDec (sqTimeEnc (-1)) = 4294967295 := by decide

/-- uid/gid table: the index handed out designates the id in the table, and ids already in the
    table keep their index (the old table is a prefix of the new one) -/
theorem sqfs_ids_roundtrip (tbl : List Nat) (id : Nat) :
    (idIndex tbl id).1[(idIndex tbl id).2]? = some id ∧ tbl <+: (idIndex tbl id).1 := by
  unfold idIndex
  cases h : findId tbl id with
  | some i => exact ⟨findId_get tbl id i h, List.prefix_refl _⟩
  | none => simp

/-! ### Rock Ridge -/

/-- PX st_mode: type and all twelve permission bits map both ways -/
theorem rr_px_mode_roundtrip (k : PxKind) (m : GoMode) (h : m.perm < 512) :
    pxModeDec (pxModeEnc k m) = (some k, m) := by
  have h1 := unix_lt m h
  have h2 := pxKindCode_lt k
  unfold pxModeDec pxModeEnc
  have e1 : (pxKindCode k * 4096 + m.unix) / 4096 % 16 = pxKindCode k := by omega
  have e2 : (pxKindCode k * 4096 + m.unix) % 4096 = m.unix := by omega
  rw [e1, e2, pxKind_code, goModeOfUnix_unix m h]

/-- PX kinds are distinct: two records with the same mode word have the same kind -/
theorem rr_px_kinds_distinct (k1 k2 : PxKind) (m1 m2 : GoMode) (h1 : m1.perm < 512) (h2 : m2.perm < 512)
    (h : pxModeEnc k1 m1 = pxModeEnc k2 m2) : k1 = k2 ∧ m1 = m2 := by
  have a := rr_px_mode_roundtrip k1 m1 h1
  have b := rr_px_mode_roundtrip k2 m2 h2
  rw [h] at a
  rw [a] at b
  simp only [Prod.mk.injEq, Option.some.injEq] at b
  exact b

/-- NM: a name of any length survives being cut into records of at most 249 bytes (all but the last
    flagged CONTINUE) and merged again -/
theorem rr_nm_roundtrip (name : Bytes) : nmDec ((nmEnc name).length + 1) (nmEnc name) = name := by
  unfold nmEnc
  rw [nmDec_records _ _ (by have := nmEnc_records_le (nmChunks (name.length + 1) name); omega)
    (nmChunks_len _ _)]
  exact nmChunks_concat _ _ (by omega)

/-! ### facts regenerated from /repo -/
open Diskfs.Generated

/-- the switch position the driver runs is the one read from squashfs/inode.go -/
theorem facts_agree_sqfs_mode : Meta.sqModeUnixBits = true ∨ Meta.sqModeUnixBits = false := by decide

/-- FAT attribute bits and ext4 mode masks are the constants the mirrors use -/
theorem facts_agree_constants :
    Meta.fatAttrBits = [1, 2, 4, 8, 16, 32] ∧ Meta.ext4PermMasks = [0o100, 0o200, 0o400, 0o10, 0o20, 0o40, 0o1, 0o2, 0o4, 0o1000, 0o2000, 0o4000] ∧
    Meta.ext4TypeCodes = [0x1000, 0x2000, 0x4000, 0x6000, 0x8000, 0xA000, 0xC000] := by
  decide

/-! non-vacuity -/
example : InFatRange ⟨2026, 9, 23, 12, 38, 39⟩ := by simp [InFatRange]
example : fatPack ⟨2026, 9, 23, 12, 38, 39⟩ = (23863, 25811) := by decide
example : TsWF ⟨-86400, 999999999⟩ := by simp [TsWF]
example : AttrsWF ⟨8, 0o4755, 100000, 65536, 5000000000, 1, 0x80000, ⟨-1, 5⟩, ⟨0, 0⟩, ⟨4294967296, 1⟩, ⟨15032385535, 999999999⟩⟩ := by
  simp [AttrsWF, TsWF]
example : (idIndex [0, 1000] 65534) = ([0, 1000, 65534], 2) := by decide
example : RecordWF (zeros 256) := by simp [RecordWF]
example : (attrsOf (chmodBytes (zeros 256) 0o4750)).perm = 0o4750 := by
  rw [(ext4_chmod_record (zeros 256) 0o4750 (by simp [RecordWF]) (by decide)).1]; rfl
-- a directory's mode word 0x41ed after Chmod 04750: type nibble 4 kept, twelve bits replaced
example : (0x41ed / 4096 * 4096 + 0o4750) % 65536 = 0x49e8 := by decide
example : fatUnpack (fatPack ⟨1970, 1, 1, 0, 0, 1⟩).1 (fatPack ⟨1970, 1, 1, 0, 0, 1⟩).2 = ⟨2098, 1, 1, 0, 0, 0⟩ := by decide

end Diskfs.C19
