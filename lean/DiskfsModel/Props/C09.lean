/-
  C09 — Repartitioning a GPT disk is atomic across power loss.
  Record level (Proofs/GptCrash.lean): the disk as the five regions Table.Write touches over an
  abstract sector type; ALL subsets of the in-flight write's sectors.  Flat level: the model's write
  list has the extracted program order, its five regions are pairwise disjoint whenever the disk
  holds both copies, and a torn array write is sector-wise a mixture of old and new.
  Hypotheses, explicit: sector-atomic writes (built into `Crash` / `tornPieces`), `NoCrcCollision`.
-/
import DiskfsModel.Proofs.GptCrash
import DiskfsModel.Proofs.GptWhole
import DiskfsModel.Proofs.GptCrashFlat
import DiskfsModel.Generated.GptCrash
namespace Diskfs.GptCrash.C09

/-- crash atomicity, GPT over GPT, every subset of in-flight sectors: the read succeeds and yields
    exactly the old or exactly the new partition list -/
theorem gpt_crash_atomic {S P : Type} {n : Nat} (R : Reader S P n) (pmFirst : Bool) (old new : Disk S n)
    (hOld : OldOk R old) (hNew : NewOk R new) (hColl : NoCrcCollision R old new)
    (d : Disk S n) (hd : Crash pmFirst old new d) :
    (read R d).parts? = some (R.parts old.pa) ∨ (read R d).parts? = some (R.parts new.pa) :=
  crash_atomic R pmFirst old new hOld hNew hColl d hd

/-- in particular the read never fails -/
theorem gpt_crash_never_error {S P : Type} {n : Nat} (R : Reader S P n) (pmFirst : Bool) (old new : Disk S n)
    (hOld : OldOk R old) (hNew : NewOk R new) (hColl : NoCrcCollision R old new)
    (d : Disk S n) (hd : Crash pmFirst old new d) : read R d ≠ .err := by
  intro h
  have := crash_atomic R pmFirst old new hOld hNew hColl d hd
  rw [h] at this
  simp [Out.parts?] at this

/-- a completed Write reads back as the new table from the primary copy -/
theorem complete_reads_primary {S P : Type} {n : Nat} (R : Reader S P n) (new : Disk S n) (hNew : NewOk R new) :
    read R new = .ok (R.parts new.pa) false :=
  GptCrash.complete_reads_primary R new hNew

/-- first-ever write on a disk without a valid GPT: error (as before) or exactly the new table -/
theorem blank_old {S P : Type} {n : Nat} (R : Reader S P n) (pmFirst : Bool) (old new : Disk S n)
    (hP : R.hdrP old.ph = none) (hB : R.hdrB old.bh = none) (hNew : NewOk R new)
    (d : Disk S n) (hd : Crash pmFirst old new d) :
    read R d = .err ∨ (read R d).parts? = some (R.parts new.pa) :=
  GptCrash.blank_old R pmFirst old new hP hB hNew d hd

/-- first-ever write seen through partition.Read (GPT, then the MBR view of sector 0), repaired order
    (protective MBR last): every crash state reads exactly as the old disk did (no table / the old MBR
    table) or as exactly the new GPT -/
theorem first_write_atomic {S P M : Type} {n : Nat} (R : Reader S P n) (mbrView : S → Option M) (old new : Disk S n)
    (hP : R.hdrP old.ph = none) (hB : R.hdrB old.bh = none) (hNew : NewOk R new)
    (d : Disk S n) (hd : Crash false old new d) :
    partRead R mbrView d = partRead R mbrView old ∨ partRead R mbrView d = .gpt (R.parts new.pa) :=
  GptCrash.first_write_atomic R mbrView old new hP hB hNew d hd

/-- as found (protective MBR first) that fails: right after the first synced write a blank disk reads
    through partition.Read as an MBR table — neither old nor new -/
theorem first_write_window_pmbr_first :
    ∃ (R : Reader Nat Nat 1) (mbrView : Nat → Option Nat) (old new d : Disk Nat 1),
      R.hdrP old.ph = none ∧ R.hdrB old.bh = none ∧ NewOk R new ∧ Crash true old new d ∧
      partRead R mbrView d ≠ partRead R mbrView old ∧ partRead R mbrView d ≠ .gpt (R.parts new.pa) :=
  GptCrash.first_write_window_pmbr_first

/-- sanity: with both arrays written before either header there is a crash point that reads as an error -/
theorem order_matters :
    ∃ (R : Reader Nat Nat 1) (old new : Disk Nat 1),
      OldOk R old ∧ NewOk R new ∧ NoCrcCollision R old new ∧
      read R { old with pa := new.pa, ba := new.ba } = .err :=
  GptCrash.order_matters

/-! ### tie to the code: order of the synced writes, and what is in flight -/

/-- the two orders `Crash` encodes: protective MBR first (`pmFirst = true`) or last -/
def modelWriteOrder (pmFirst : Bool) : List String :=
  (if pmFirst then ["protective MBR"] else []) ++
  ["secondary partition array", "secondary GPT header", "primary partition array", "primary GPT header"] ++
  (if pmFirst then [] else ["protective MBR"])

/-- regenerated from partition/gpt/table.go: the `what` labels of the writeAtWithSync calls in
    Table.Write in source order, the sync inside writeAtWithSync after the WriteAt, no other WriteAt in
    Write, and the backup fallback only on *primaryContentError -/
theorem facts_agree_write_order :
    (Generated.GptCrash.writeLabels = modelWriteOrder true ∨ Generated.GptCrash.writeLabels = modelWriteOrder false) ∧
    Generated.GptCrash.syncAfterWrite = true ∧
    Generated.GptCrash.otherWriteAtCalls = 0 ∧
    Generated.GptCrash.fallbackOnContentErrorOnly = true := by
  decide

open Diskfs.Gpt in
/-- the model's write list has exactly that order and those offsets (any table Write accepts): backup
    array, backup header, primary array, primary header at LBA 1, both arrays carrying the same bytes,
    and the 66 protective-MBR bytes at 446 first (as found) or last (repaired) -/
theorem write_list_shape (c : Cfg) (crc : Bytes → Nat) (t0 : Table) (size : Nat) (ws : List Wr) (t : Table)
    (h : write c crc t0 size = .ok (ws, t)) (hp : (if t0.initialized then t0 else initTable t0 size).pmbr = true) :
    ∃ pm ba bh pa ph, (ws = if c.pmbrLast then [ba, bh, pa, ph, ⟨446, pm⟩] else [⟨446, pm⟩, ba, bh, pa, ph]) ∧
      pm.length = 66 ∧ ph.off = t.lss ∧ ba.data = pa.data := by
  unfold write at h
  generalize (if t0.initialized = true then t0 else initTable t0 size) = tt at h hp
  simp only at h
  split at h
  · simp at h
  · split at h
    · simp at h
    · simp at h
    · rename_i arr ps harr
      split at h
      · simp at h
      · simp only [hp, if_true, Res.ok.injEq, Prod.mk.injEq] at h
        obtain ⟨h1, h2⟩ := h
        subst h1 h2
        refine ⟨pmbrEnc c tt, ⟨(toI64 ((tt.lss : Int) * toI64 ((arraySector tt false : Nat) : Int))).toNat, arr⟩,
          ⟨(toI64 (toI64 ((tt.secondaryHeader : Nat) : Int) * (tt.lss : Int))).toNat, hdrEnc crc tt false arr⟩,
          ⟨(toI64 ((tt.lss : Int) * toI64 ((arraySector tt true : Nat) : Int))).toNat, arr⟩,
          ⟨((tt.lss : Int)).toNat, hdrEnc crc tt true arr⟩, ?_, ?_, ?_, rfl⟩
        · cases c.pmbrLast <;> simp
        · simp [pmbrEnc]
        · simp

open Diskfs.Gpt in
/-- the five regions `Write` touches — protective-MBR bytes [446,512), primary header [lss,2·lss),
    primary array [2·lss, 2·lss+16384), backup array [(last−p)·lss, last·lss), backup header
    [last·lss, (last+1)·lss) — are laid out in this order without overlap and inside the disk, as soon
    as the disk has 2·p+3 sectors (p = 16384/lss sectors per array): this is where the minimum disk
    size enters, and what lets the flat device be viewed as the record of the five regions -/
theorem regions_disjoint (t0 : Table) (size : Nat) (hf : Fresh t0) (hl : t0.lss = 512 ∨ t0.lss = 4096)
    (hsz : size < two63) (hmin : (2 * (16384 / t0.lss) + 3) * t0.lss ≤ size) :
    let t := initTable t0 size
    let lss := t0.lss
    512 ≤ lss ∧ 2 * lss + 16384 ≤ arraySector t false * lss ∧
    arraySector t false * lss + 16384 = t.secondaryHeader * lss ∧
    t.secondaryHeader * lss + lss ≤ size ∧ arraySector t true * lss = 2 * lss := by
  simp only
  unfold arraySector partSectors initTable
  simp only [hf.ac, hf.es, hf.ph, hf.sh, hf.fd, hf.ld, if_true]
  rcases hl with h | h
  all_goals
    simp only [h, ite_self, Bool.false_eq_true, if_false, show (4096 : Nat) ≠ 0 by decide] at hmin ⊢
    simp only [u64, u64sub, two64, two63] at *
    refine ⟨by omega, ?_, ?_, ?_, ?_⟩ <;> first | omega | trivial

open Diskfs.Gpt in
/-- a torn write is, sector by sector, the new data where `keep` holds and the old content elsewhere
    (this is the `mix` of the record level): bytes of a kept sector -/
theorem torn_sector_kept (lss : Nat) (hl : 0 < lss) (w : Wr) (keep : Nat → Bool) (i : Nat)
    (hi : i < (w.data.length + lss - 1) / lss) (hk : keep i = true) :
    (⟨w.off + i * lss, (w.data.drop (i * lss)).take lss⟩ : Wr) ∈ tornPieces lss w keep := by
  unfold tornPieces
  simp only [List.mem_filterMap, List.mem_range]
  exact ⟨i, hi, by simp [hk]⟩

open Diskfs.Gpt in
/-- …and no piece is written for a sector that was not kept: every piece is a kept sector of `w` -/
theorem torn_pieces_only_kept (lss : Nat) (w : Wr) (keep : Nat → Bool) (p : Wr) (hp : p ∈ tornPieces lss w keep) :
    ∃ i, keep i = true ∧ p.off = w.off + i * lss ∧ p.data = (w.data.drop (i * lss)).take lss := by
  unfold tornPieces at hp
  simp only [List.mem_filterMap, List.mem_range] at hp
  obtain ⟨i, _, hi⟩ := hp
  by_cases hk : keep i = true
  · simp [hk] at hi
    exact ⟨i, hk, by rw [← hi], by rw [← hi]⟩
  · simp [hk] at hi

/-! ### refinement: the flat byte-level model (LBA arithmetic, `Gpt.read` over a device function)
    refines the record level, so crash atomicity is a theorem about the flat model -/

open Diskfs.Gpt in
/-- REGIONS: as soon as the disk has 2·p+3 sectors, the five regions `Write` touches lie in this order
    without overlap — sector 0 ⊇ [446,512), primary header [lss,2·lss), primary array [2·lss,2·lss+16384),
    backup array [oBA, oBA+16384), backup header [oBH, oBH+lss) (`Layout`: this is where the minimum disk
    size enters) — and every single flat write changes exactly its own field of the record view -/
theorem flat_write_one_field (size lss : Nat) (hl : lss = 512 ∨ lss = 4096) (hmin : (2 * (16384 / lss) + 3) * lss ≤ size)
    (D : Dev) (a b pm : Bytes) (ha : a.length = 16384) (hb : b.length = lss) (hpm : pm.length = 66) :
    Layout size lss ∧
    toDisk (applyWr D ⟨oBA size lss, a⟩) size lss = { toDisk D size lss with ba := sectors lss a } ∧
    toDisk (applyWr D ⟨oBH size lss, b⟩) size lss = { toDisk D size lss with bh := b } ∧
    toDisk (applyWr D ⟨2 * lss, a⟩) size lss = { toDisk D size lss with pa := sectors lss a } ∧
    toDisk (applyWr D ⟨lss, b⟩) size lss = { toDisk D size lss with ph := b } ∧
    toDisk (applyWr D ⟨446, pm⟩) size lss = { toDisk D size lss with mbr := readAt (applyWr D ⟨446, pm⟩) 0 lss } :=
  have L := layout_of size lss hl hmin
  ⟨L, toDisk_write_ba L D a ha, toDisk_write_bh L D b hb, toDisk_write_pa L D a ha, toDisk_write_ph L D b hb,
    toDisk_write_pm L D pm hpm⟩

open Diskfs.Gpt in
/-- SECTOR SUBSET IS MIX: the in-flight array write with ANY subset `keep` of its sectors applied to the
    flat device is, at record level, `mix keep new old` of that array and leaves the other four regions alone -/
theorem sector_subset_is_mix (size lss : Nat) (hl : lss = 512 ∨ lss = 4096) (hmin : (2 * (16384 / lss) + 3) * lss ≤ size)
    (D : Dev) (a : Bytes) (ha : a.length = 16384) (keep : Nat → Bool) :
    toDisk (applyWrs D (tornPieces lss ⟨2 * lss, a⟩ keep)) size lss =
      { toDisk D size lss with pa := mix (fun i => keep i.val) (sectors lss a) (toDisk D size lss).pa } ∧
    toDisk (applyWrs D (tornPieces lss ⟨oBA size lss, a⟩ keep)) size lss =
      { toDisk D size lss with ba := mix (fun i => keep i.val) (sectors lss a) (toDisk D size lss).ba } :=
  have L := layout_of size lss hl hmin
  ⟨toDisk_torn_pa L D a ha keep, toDisk_torn_ba L D a ha keep⟩

open Diskfs.Gpt in
/-- a write that fits one sector (both headers, the 66 protective-MBR bytes) is atomic under sector tearing -/
theorem single_sector_write_atomic (lss : Nat) (w : Wr) (keep : Nat → Bool) (h1 : 0 < w.data.length) (h2 : w.data.length ≤ lss) :
    tornPieces lss w keep = if keep 0 then [w] else [] :=
  torn_single lss w keep h1 h2

open Diskfs.Gpt in
/-- READER REFINEMENT: `Gpt.read` on the flat device — LBA arithmetic, readGPTHeader, loadEntries with its
    bounds and CRC checks, fallback to the backup at the last LBA on a content error only — equals the
    record-level reader instantiated with the real decoders (`flatReader`: readHeader, crc of the joined
    array, decodeArr) on the record view of the device, for every device whose header sectors, if they
    validate, describe the geometry this library writes -/
theorem flat_read_refines (c : Cfg) (crc : Bytes → Nat) (d : Dev) (size lss : Nat) (hl : lss = 512 ∨ lss = 4096)
    (hmin : (2 * (16384 / lss) + 3) * lss ≤ size) (hsz : size < two63)
    (hP : PStd crc d lss) (hB : BStd crc d size lss) :
    outOf (Gpt.read c crc d size lss).1 = GptCrash.read (flatReader crc size lss) (toDisk d size lss) :=
  read_refines c crc d size lss hl hmin hsz hP hB

open Diskfs.Gpt in
/-- CRASH STATES REFINE: for what the repaired `Write` emits for a fresh table over ANY device `d0`, every
    flat crash state (k writes in full, the next with any sector subset) is a record-level `Crash` state;
    the completed device is `NewOk` for the real decoders and itself satisfies the premises the theorem
    below puts on an old device (so they hold for every table this library wrote) -/
theorem flat_crash_states_refine (c : Cfg) (hpl : c.pmbrLast = true) (crc : Bytes → Nat) (hcrc : ∀ b, crc b < two32)
    (d0 : Dev) (t0 : Table) (size : Nat) (ws : List Wr) (t : Table)
    (hf : Fresh t0) (hl : t0.lss = 512 ∨ t0.lss = 4096) (hg : t0.guid.length = 16) (hsz : size < two63)
    (hmin : (2 * (16384 / t0.lss) + 3) * t0.lss ≤ size) (hpm : t0.pmbr = true)
    (hw : write c crc t0 size = .ok (ws, t)) (k : Nat) (keep : Nat → Bool) :
    NewOk (flatReader crc size t0.lss) (toDisk (applyWrs d0 ws) size t0.lss) ∧
    PStd crc (applyWrs d0 ws) t0.lss ∧ BStd crc (applyWrs d0 ws) size t0.lss ∧
    OldOkFlat crc (applyWrs d0 ws) t0.lss ∧
    Crash false (toDisk d0 size t0.lss) (toDisk (applyWrs d0 ws) size t0.lss)
      (toDisk (crashDev d0 t0.lss ws k keep) size t0.lss) :=
  write_crash_setup c hpl crc hcrc d0 t0 size ws t hf hl hg hsz hmin hpm hw k keep

open Diskfs.Gpt in
/-- C09 ON THE FLAT MODEL (GPT over GPT).  `d0`: any device with a valid primary GPT of this library's
    geometry (`OldOkFlat`) whose last sector, if it validates as a backup header, describes this library's
    geometry (`BStd`) — both hold for every device this library's Write produced (`flat_crash_states_refine`).
    `ws`: the repaired Write (protective MBR last) of a fresh table with a protective MBR on a disk of at
    least 2·p+3 sectors.  Then for EVERY prefix length `k` and EVERY sector subset `keep` of the write in
    flight, `Gpt.read` of the crash device succeeds and returns exactly the partition list read from `d0`
    or exactly the one read after the completed write — which is read from the primary copy.
    Explicit premises: sector atomicity (in `crashDev`), `NoCrcCollisionFlat` on the two arrays. -/
theorem gpt_crash_atomic_flat (c : Cfg) (hpl : c.pmbrLast = true) (crc : Bytes → Nat) (hcrc : ∀ b, crc b < two32)
    (d0 : Dev) (t0 : Table) (size : Nat) (ws : List Wr) (t : Table)
    (hf : Fresh t0) (hl : t0.lss = 512 ∨ t0.lss = 4096) (hg : t0.guid.length = 16) (hsz : size < two63)
    (hmin : (2 * (16384 / t0.lss) + 3) * t0.lss ≤ size) (hpm : t0.pmbr = true)
    (hw : write c crc t0 size = .ok (ws, t))
    (hOld : OldOkFlat crc d0 t0.lss) (hOldB : BStd crc d0 size t0.lss)
    (hColl : NoCrcCollisionFlat crc t0.lss (readAt d0 (2 * t0.lss) 16384) (readAt (applyWrs d0 ws) (2 * t0.lss) 16384))
    (k : Nat) (keep : Nat → Bool) :
    ∃ po pn, outOf (Gpt.read c crc d0 size t0.lss).1 = .ok po false ∧
      outOf (Gpt.read c crc (applyWrs d0 ws) size t0.lss).1 = .ok pn false ∧
      ((outOf (Gpt.read c crc (crashDev d0 t0.lss ws k keep) size t0.lss).1).parts? = some po ∨
       (outOf (Gpt.read c crc (crashDev d0 t0.lss ws k keep) size t0.lss).1).parts? = some pn) :=
  crash_atomic_flat c hpl crc hcrc d0 t0 size ws t hf hl hg hsz hmin hpm hw hOld hOldB hColl k keep

open Diskfs.Gpt in
/-- first-ever write on the flat model (old = no table: neither LBA 1 nor the last LBA of `d0` passes
    readGPTHeader — blank, MBR-partitioned, garbage): every crash state reads as an error, as `d0` did,
    or as exactly the partition list of the completed write -/
theorem blank_old_flat (c : Cfg) (hpl : c.pmbrLast = true) (crc : Bytes → Nat) (hcrc : ∀ b, crc b < two32)
    (d0 : Dev) (t0 : Table) (size : Nat) (ws : List Wr) (t : Table)
    (hf : Fresh t0) (hl : t0.lss = 512 ∨ t0.lss = 4096) (hg : t0.guid.length = 16) (hsz : size < two63)
    (hmin : (2 * (16384 / t0.lss) + 3) * t0.lss ≤ size) (hpm : t0.pmbr = true)
    (hw : write c crc t0 size = .ok (ws, t))
    (hNoP : ∀ h, readHeader crc (readAt d0 t0.lss t0.lss) ≠ .ok h)
    (hNoB : ∀ h, readHeader crc (readAt d0 (oBH size t0.lss) t0.lss) ≠ .ok h)
    (k : Nat) (keep : Nat → Bool) :
    ∃ pn, outOf (Gpt.read c crc d0 size t0.lss).1 = .err ∧
      outOf (Gpt.read c crc (applyWrs d0 ws) size t0.lss).1 = .ok pn false ∧
      (outOf (Gpt.read c crc (crashDev d0 t0.lss ws k keep) size t0.lss).1 = .err ∨
       (outOf (Gpt.read c crc (crashDev d0 t0.lss ws k keep) size t0.lss).1).parts? = some pn) :=
  GptCrash.blank_old_flat c hpl crc hcrc d0 t0 size ws t hf hl hg hsz hmin hpm hw hNoP hNoB k keep

open Diskfs.Gpt in
/-- partition.Read on the flat device (gpt.Read, then mbr.Read of sector 0 if that fails) equals the
    record-level `partRead` instantiated with the real decoders (`flatReader`, `mbrViewFlat` = mbr.Read on
    the sector-0 content); repaired reader (entry-array bound check ⇒ gpt.Read is panic-free) -/
theorem flat_partread_refines (c : Cfg) (hab : c.arrayBounded = true) (crc : Bytes → Nat) (d : Dev) (size lss : Nat)
    (hl : lss = 512 ∨ lss = 4096) (hmin : (2 * (16384 / lss) + 3) * lss ≤ size) (hsz : size < two63)
    (hP : PStd crc d lss) (hB : BStd crc d size lss) :
    outP (PartTable.read c crc d size lss).1 =
      partRead (flatReader crc size lss) mbrViewFlat (toDisk d size lss) :=
  partread_refines c hab crc d size lss hl hmin hsz hP hB

open Diskfs.Gpt in
/-- first-ever write seen through partition.Read ON THE FLAT MODEL (repaired order, protective MBR last):
    on a device without a valid GPT header at LBA 1 or at the last LBA — blank, MBR-partitioned, garbage —
    every crash state of the repaired Write reads through partition.Read exactly as `d0` did (no table, or
    the old MBR table, decoded by the real mbr.Read) or as exactly the new GPT's partition list -/
theorem first_write_atomic_flat (c : Cfg) (hpl : c.pmbrLast = true) (hab : c.arrayBounded = true)
    (crc : Bytes → Nat) (hcrc : ∀ b, crc b < two32)
    (d0 : Dev) (t0 : Table) (size : Nat) (ws : List Wr) (t : Table)
    (hf : Fresh t0) (hl : t0.lss = 512 ∨ t0.lss = 4096) (hg : t0.guid.length = 16) (hsz : size < two63)
    (hmin : (2 * (16384 / t0.lss) + 3) * t0.lss ≤ size) (hpm : t0.pmbr = true)
    (hw : write c crc t0 size = .ok (ws, t))
    (hNoP : ∀ h, readHeader crc (readAt d0 t0.lss t0.lss) ≠ .ok h)
    (hNoB : ∀ h, readHeader crc (readAt d0 (oBH size t0.lss) t0.lss) ≠ .ok h)
    (k : Nat) (keep : Nat → Bool) :
    ∃ pn, outP (PartTable.read c crc (applyWrs d0 ws) size t0.lss).1 = .gpt pn ∧
      (outP (PartTable.read c crc (crashDev d0 t0.lss ws k keep) size t0.lss).1 =
          outP (PartTable.read c crc d0 size t0.lss).1 ∨
       outP (PartTable.read c crc (crashDev d0 t0.lss ws k keep) size t0.lss).1 = .gpt pn) :=
  GptCrash.first_write_atomic_flat c hpl hab crc hcrc d0 t0 size ws t hf hl hg hsz hmin hpm hw hNoP hNoB k keep

-- non-vacuity of the flat theorems: the repaired Write accepts a concrete fresh table with a protective MBR
-- on a disk of the minimum size; a blank device satisfies the premises of `blank_old_flat`; and
-- `flat_crash_states_refine` shows OldOkFlat / BStd hold for every device this Write produced
set_option maxRecDepth 100000 in
example : (Diskfs.Gpt.write Diskfs.Gpt.Cfg.fixed (fun _ => 0)
    { parts := [{ index := 2, start := 34, end_ := 34, size := 0, typ := List.replicate 16 7, guid := List.replicate 16 9,
                  attrs := 0, name := [0x61] }], lss := 512, guid := List.replicate 16 3, pmbr := true }
    (67 * 512)).isOk = true ∧ Diskfs.Gpt.Cfg.fixed.pmbrLast = true := by decide
set_option maxRecDepth 100000 in
example : ∀ h, Diskfs.Gpt.readHeader (fun _ => 0) (readAt (fun _ => 0) 512 512) ≠ .ok h := by
  intro h hh
  have : (Diskfs.Gpt.readHeader (fun _ => 0) (readAt (fun _ => 0) 512 512)).isOk = false := by decide
  rw [hh] at this
  simp [Diskfs.Gpt.Res.isOk] at this

/-- non-vacuity of the hypotheses: a concrete reader / old / new triple satisfying OldOk, NewOk, NoCrcCollision -/
example : ∃ (R : Reader Nat Nat 1) (old new : Disk Nat 1), OldOk R old ∧ NewOk R new ∧ NoCrcCollision R old new := by
  obtain ⟨R, o, n, h1, h2, h3, _⟩ := GptCrash.order_matters
  exact ⟨R, o, n, h1, h2, h3⟩

end Diskfs.GptCrash.C09
