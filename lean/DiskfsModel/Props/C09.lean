/-
  C09 — Repartitioning a GPT disk is atomic across power loss.
  Record level (Proofs/GptCrash.lean): the disk as the five regions Table.Write touches over an
  abstract sector type; ALL subsets of the in-flight write's sectors.  Flat level: the model's write
  list has the extracted program order, its five regions are pairwise disjoint whenever the disk
  holds both copies, and a torn array write is sector-wise a mixture of old and new.
  Hypotheses, explicit: sector-atomic writes (built into `Crash` / `tornPieces`), `NoCrcCollision`.
-/
import DiskfsModel.Proofs.GptCrash
import DiskfsModel.Proofs.GptWhole
import DiskfsModel.Generated.GptCrash
namespace Diskfs.GptCrash.C09

/-- crash atomicity, GPT over GPT, every subset of in-flight sectors: the read succeeds and yields
    exactly the old or exactly the new partition list -/
theorem gpt_crash_atomic {S P : Type} {n : Nat} (R : Reader S P n) (pmFirst : Bool) (old new : Disk S n)
    (hOld : OldOk R old) (hNew : NewOk R new) (hColl : NoCrcCollision R old new)
    (d : Disk S n) (hd : Crash pmFirst old new d) :
    (read R d).parts? = some (R.parts old.pa) ∨ (read R d).parts? = some (R.parts new.pa) :=
  crash_atomic R pmFirst old new hOld hNew hColl d hd

/-- in particular the read never fails -/
theorem gpt_crash_never_error {S P : Type} {n : Nat} (R : Reader S P n) (pmFirst : Bool) (old new : Disk S n)
    (hOld : OldOk R old) (hNew : NewOk R new) (hColl : NoCrcCollision R old new)
    (d : Disk S n) (hd : Crash pmFirst old new d) : read R d ≠ .err := by
  intro h
  have := crash_atomic R pmFirst old new hOld hNew hColl d hd
  rw [h] at this
  simp [Out.parts?] at this

/-- a completed Write reads back as the new table from the primary copy -/
theorem complete_reads_primary {S P : Type} {n : Nat} (R : Reader S P n) (new : Disk S n) (hNew : NewOk R new) :
    read R new = .ok (R.parts new.pa) false :=
  GptCrash.complete_reads_primary R new hNew

/-- first-ever write on a disk without a valid GPT: error (as before) or exactly the new table -/
theorem blank_old {S P : Type} {n : Nat} (R : Reader S P n) (pmFirst : Bool) (old new : Disk S n)
    (hP : R.hdrP old.ph = none) (hB : R.hdrB old.bh = none) (hNew : NewOk R new)
    (d : Disk S n) (hd : Crash pmFirst old new d) :
    read R d = .err ∨ (read R d).parts? = some (R.parts new.pa) :=
  GptCrash.blank_old R pmFirst old new hP hB hNew d hd

/-- first-ever write seen through partition.Read (GPT, then the MBR view of sector 0), repaired order
    (protective MBR last): every crash state reads exactly as the old disk did (no table / the old MBR
    table) or as exactly the new GPT -/
theorem first_write_atomic {S P M : Type} {n : Nat} (R : Reader S P n) (mbrView : S → Option M) (old new : Disk S n)
    (hP : R.hdrP old.ph = none) (hB : R.hdrB old.bh = none) (hNew : NewOk R new)
    (d : Disk S n) (hd : Crash false old new d) :
    partRead R mbrView d = partRead R mbrView old ∨ partRead R mbrView d = .gpt (R.parts new.pa) :=
  GptCrash.first_write_atomic R mbrView old new hP hB hNew d hd

/-- as found (protective MBR first) that fails: right after the first synced write a blank disk reads
    through partition.Read as an MBR table — neither old nor new -/
theorem first_write_window_pmbr_first :
    ∃ (R : Reader Nat Nat 1) (mbrView : Nat → Option Nat) (old new d : Disk Nat 1),
      R.hdrP old.ph = none ∧ R.hdrB old.bh = none ∧ NewOk R new ∧ Crash true old new d ∧
      partRead R mbrView d ≠ partRead R mbrView old ∧ partRead R mbrView d ≠ .gpt (R.parts new.pa) :=
  GptCrash.first_write_window_pmbr_first

/-- sanity: with both arrays written before either header there is a crash point that reads as an error -/
theorem order_matters :
    ∃ (R : Reader Nat Nat 1) (old new : Disk Nat 1),
      OldOk R old ∧ NewOk R new ∧ NoCrcCollision R old new ∧
      read R { old with pa := new.pa, ba := new.ba } = .err :=
  GptCrash.order_matters

/-! ### tie to the code: order of the synced writes, and what is in flight -/

/-- the two orders `Crash` encodes: protective MBR first (`pmFirst = true`) or last -/
def modelWriteOrder (pmFirst : Bool) : List String :=
  (if pmFirst then ["protective MBR"] else []) ++
  ["secondary partition array", "secondary GPT header", "primary partition array", "primary GPT header"] ++
  (if pmFirst then [] else ["protective MBR"])

/-- regenerated from partition/gpt/table.go: the `what` labels of the writeAtWithSync calls in
    Table.Write in source order, the sync inside writeAtWithSync after the WriteAt, no other WriteAt in
    Write, and the backup fallback only on *primaryContentError -/
theorem facts_agree_write_order :
    (Generated.GptCrash.writeLabels = modelWriteOrder true ∨ Generated.GptCrash.writeLabels = modelWriteOrder false) ∧
    Generated.GptCrash.syncAfterWrite = true ∧
    Generated.GptCrash.otherWriteAtCalls = 0 ∧
    Generated.GptCrash.fallbackOnContentErrorOnly = true := by
  decide

open Diskfs.Gpt in
/-- the model's write list has exactly that order and those offsets (any table Write accepts): backup
    array, backup header, primary array, primary header at LBA 1, both arrays carrying the same bytes,
    and the 66 protective-MBR bytes at 446 first (as found) or last (repaired) -/
theorem write_list_shape (c : Cfg) (crc : Bytes → Nat) (t0 : Table) (size : Nat) (ws : List Wr) (t : Table)
    (h : write c crc t0 size = .ok (ws, t)) (hp : (if t0.initialized then t0 else initTable t0 size).pmbr = true) :
    ∃ pm ba bh pa ph, (ws = if c.pmbrLast then [ba, bh, pa, ph, ⟨446, pm⟩] else [⟨446, pm⟩, ba, bh, pa, ph]) ∧
      pm.length = 66 ∧ ph.off = t.lss ∧ ba.data = pa.data := by
  unfold write at h
  generalize (if t0.initialized = true then t0 else initTable t0 size) = tt at h hp
  simp only at h
  split at h
  · simp at h
  · split at h
    · simp at h
    · simp at h
    · rename_i arr ps harr
      split at h
      · simp at h
      · simp only [hp, if_true, Res.ok.injEq, Prod.mk.injEq] at h
        obtain ⟨h1, h2⟩ := h
        subst h1 h2
        refine ⟨pmbrEnc c tt, ⟨(toI64 ((tt.lss : Int) * toI64 ((arraySector tt false : Nat) : Int))).toNat, arr⟩,
          ⟨(toI64 (toI64 ((tt.secondaryHeader : Nat) : Int) * (tt.lss : Int))).toNat, hdrEnc crc tt false arr⟩,
          ⟨(toI64 ((tt.lss : Int) * toI64 ((arraySector tt true : Nat) : Int))).toNat, arr⟩,
          ⟨((tt.lss : Int)).toNat, hdrEnc crc tt true arr⟩, ?_, ?_, ?_, rfl⟩
        · cases c.pmbrLast <;> simp
        · simp [pmbrEnc]
        · simp

open Diskfs.Gpt in
/-- the five regions `Write` touches — protective-MBR bytes [446,512), primary header [lss,2·lss),
    primary array [2·lss, 2·lss+16384), backup array [(last−p)·lss, last·lss), backup header
    [last·lss, (last+1)·lss) — are laid out in this order without overlap and inside the disk, as soon
    as the disk has 2·p+3 sectors (p = 16384/lss sectors per array): this is where the minimum disk
    size enters, and what lets the flat device be viewed as the record of the five regions -/
theorem regions_disjoint (t0 : Table) (size : Nat) (hf : Fresh t0) (hl : t0.lss = 512 ∨ t0.lss = 4096)
    (hsz : size < two63) (hmin : (2 * (16384 / t0.lss) + 3) * t0.lss ≤ size) :
    let t := initTable t0 size
    let lss := t0.lss
    512 ≤ lss ∧ 2 * lss + 16384 ≤ arraySector t false * lss ∧
    arraySector t false * lss + 16384 = t.secondaryHeader * lss ∧
    t.secondaryHeader * lss + lss ≤ size ∧ arraySector t true * lss = 2 * lss := by
  simp only
  unfold arraySector partSectors initTable
  simp only [hf.ac, hf.es, hf.ph, hf.sh, hf.fd, hf.ld, if_true]
  rcases hl with h | h
  all_goals
    simp only [h, ite_self, Bool.false_eq_true, if_false, show (4096 : Nat) ≠ 0 by decide] at hmin ⊢
    simp only [u64, u64sub, two64, two63] at *
    refine ⟨by omega, ?_, ?_, ?_, ?_⟩ <;> first | omega | trivial

open Diskfs.Gpt in
/-- a torn write is, sector by sector, the new data where `keep` holds and the old content elsewhere
    (this is the `mix` of the record level): bytes of a kept sector -/
theorem torn_sector_kept (lss : Nat) (hl : 0 < lss) (w : Wr) (keep : Nat → Bool) (i : Nat)
    (hi : i < (w.data.length + lss - 1) / lss) (hk : keep i = true) :
    (⟨w.off + i * lss, (w.data.drop (i * lss)).take lss⟩ : Wr) ∈ tornPieces lss w keep := by
  unfold tornPieces
  simp only [List.mem_filterMap, List.mem_range]
  exact ⟨i, hi, by simp [hk]⟩

open Diskfs.Gpt in
/-- …and no piece is written for a sector that was not kept: every piece is a kept sector of `w` -/
theorem torn_pieces_only_kept (lss : Nat) (w : Wr) (keep : Nat → Bool) (p : Wr) (hp : p ∈ tornPieces lss w keep) :
    ∃ i, keep i = true ∧ p.off = w.off + i * lss ∧ p.data = (w.data.drop (i * lss)).take lss := by
  unfold tornPieces at hp
  simp only [List.mem_filterMap, List.mem_range] at hp
  obtain ⟨i, _, hi⟩ := hp
  by_cases hk : keep i = true
  · simp [hk] at hi
    exact ⟨i, hk, by rw [← hi], by rw [← hi]⟩
  · simp [hk] at hi

/-- non-vacuity of the hypotheses: a concrete reader / old / new triple satisfying OldOk, NewOk, NoCrcCollision -/
example : ∃ (R : Reader Nat Nat 1) (old new : Disk Nat 1), OldOk R old ∧ NewOk R new ∧ NoCrcCollision R old new := by
  obtain ⟨R, o, n, h1, h2, h3, _⟩ := GptCrash.order_matters
  exact ⟨R, o, n, h1, h2, h3⟩

end Diskfs.GptCrash.C09
