/-
  C09 — Repartitioning a GPT disk is atomic across power loss.
  Record level (Proofs/GptCrash.lean): the disk as the five regions Table.Write touches over an
  abstract sector type; ALL subsets of the in-flight write's sectors.  Flat level: the model's write
  list has the extracted program order, its five regions are pairwise disjoint whenever the disk
  holds both copies, and a torn array write is sector-wise a mixture of old and new.
  Hypotheses, explicit: sector-atomic writes (built into `Crash` / `tornPieces`), `NoCrcCollision`.
-/
import DiskfsModel.Proofs.GptCrash
import DiskfsModel.Proofs.GptWhole
import DiskfsModel.Proofs.GptCrashFlat
import DiskfsModel.Proofs.GptGeomCrash
import DiskfsModel.Proofs.GptGeomFast
import DiskfsModel.Proofs.GptCrashDegraded
import DiskfsModel.Generated.GptCrash
namespace Diskfs.GptCrash.C09

/-- crash atomicity, GPT over GPT, every subset of in-flight sectors: the read succeeds and yields
    exactly the old or exactly the new partition list -/
theorem gpt_crash_atomic {S P : Type} {n : Nat} (R : Reader S P n) (pmFirst : Bool) (old new : Disk S n)
    (hOld : OldOk R old) (hNew : NewOk R new) (hColl : NoCrcCollision R old new)
    (d : Disk S n) (hd : Crash pmFirst old new d) :
    (read R d).parts? = some (R.parts old.pa) ∨ (read R d).parts? = some (R.parts new.pa) :=
  crash_atomic R pmFirst old new hOld hNew hColl d hd

/-- in particular the read never fails -/
theorem gpt_crash_never_error {S P : Type} {n : Nat} (R : Reader S P n) (pmFirst : Bool) (old new : Disk S n)
    (hOld : OldOk R old) (hNew : NewOk R new) (hColl : NoCrcCollision R old new)
    (d : Disk S n) (hd : Crash pmFirst old new d) : read R d ≠ .err := by
  intro h
  have := crash_atomic R pmFirst old new hOld hNew hColl d hd
  rw [h] at this
  simp [Out.parts?] at this

/-- a completed Write reads back as the new table from the primary copy -/
theorem complete_reads_primary {S P : Type} {n : Nat} (R : Reader S P n) (new : Disk S n) (hNew : NewOk R new) :
    read R new = .ok (R.parts new.pa) false :=
  GptCrash.complete_reads_primary R new hNew

/-- first-ever write on a disk without a valid GPT: error (as before) or exactly the new table -/
theorem blank_old {S P : Type} {n : Nat} (R : Reader S P n) (pmFirst : Bool) (old new : Disk S n)
    (hP : R.hdrP old.ph = none) (hB : R.hdrB old.bh = none) (hNew : NewOk R new)
    (d : Disk S n) (hd : Crash pmFirst old new d) :
    read R d = .err ∨ (read R d).parts? = some (R.parts new.pa) :=
  GptCrash.blank_old R pmFirst old new hP hB hNew d hd

/-- first-ever write seen through partition.Read (GPT, then the MBR view of sector 0), repaired order
    (protective MBR last): every crash state reads exactly as the old disk did (no table / the old MBR
    table) or as exactly the new GPT -/
theorem first_write_atomic {S P M : Type} {n : Nat} (R : Reader S P n) (mbrView : S → Option M) (old new : Disk S n)
    (hP : R.hdrP old.ph = none) (hB : R.hdrB old.bh = none) (hNew : NewOk R new)
    (d : Disk S n) (hd : Crash false old new d) :
    partRead R mbrView d = partRead R mbrView old ∨ partRead R mbrView d = .gpt (R.parts new.pa) :=
  GptCrash.first_write_atomic R mbrView old new hP hB hNew d hd

/-- as found (protective MBR first) that fails: right after the first synced write a blank disk reads
    through partition.Read as an MBR table — neither old nor new -/
theorem first_write_window_pmbr_first :
    ∃ (R : Reader Nat Nat 1) (mbrView : Nat → Option Nat) (old new d : Disk Nat 1),
      R.hdrP old.ph = none ∧ R.hdrB old.bh = none ∧ NewOk R new ∧ Crash true old new d ∧
      partRead R mbrView d ≠ partRead R mbrView old ∧ partRead R mbrView d ≠ .gpt (R.parts new.pa) :=
  GptCrash.first_write_window_pmbr_first

/-- sanity: with both arrays written before either header there is a crash point that reads as an error -/
theorem order_matters :
    ∃ (R : Reader Nat Nat 1) (old new : Disk Nat 1),
      OldOk R old ∧ NewOk R new ∧ NoCrcCollision R old new ∧
      read R { old with pa := new.pa, ba := new.ba } = .err :=
  GptCrash.order_matters

/-! ### tie to the code: order of the synced writes, and what is in flight -/

/-- the two orders `Crash` encodes: protective MBR first (`pmFirst = true`) or last -/
def modelWriteOrder (pmFirst : Bool) : List String :=
  (if pmFirst then ["protective MBR"] else []) ++
  ["secondary partition array", "secondary GPT header", "primary partition array", "primary GPT header"] ++
  (if pmFirst then [] else ["protective MBR"])

/-- regenerated from partition/gpt/table.go: the `what` labels of the writeAtWithSync calls in
    Table.Write in source order, the sync inside writeAtWithSync after the WriteAt, no other WriteAt in
    Write, and the backup fallback only on *primaryContentError -/
theorem facts_agree_write_order :
    (Generated.GptCrash.writeLabels = modelWriteOrder true ∨ Generated.GptCrash.writeLabels = modelWriteOrder false) ∧
    Generated.GptCrash.syncAfterWrite = true ∧
    Generated.GptCrash.otherWriteAtCalls = 0 ∧
    Generated.GptCrash.fallbackOnContentErrorOnly = true := by
  decide

open Diskfs.Gpt in
/-- the model's write list has exactly that order and those offsets (any table Write accepts): backup
    array, backup header, primary array, primary header at LBA 1, both arrays carrying the same bytes,
    and the 66 protective-MBR bytes at 446 first (as found) or last (repaired) -/
theorem write_list_shape (c : Cfg) (crc : Bytes → Nat) (t0 : Table) (size : Nat) (ws : List Wr) (t : Table)
    (h : write c crc t0 size = .ok (ws, t)) (hp : (if t0.initialized then t0 else initTable t0 size).pmbr = true) :
    ∃ pm ba bh pa ph, (ws = if c.pmbrLast then [ba, bh, pa, ph, ⟨446, pm⟩] else [⟨446, pm⟩, ba, bh, pa, ph]) ∧
      pm.length = 66 ∧ ph.off = t.lss ∧ ba.data = pa.data := by
  unfold write at h
  generalize (if t0.initialized = true then t0 else initTable t0 size) = tt at h hp
  simp only at h
  split at h
  · simp at h
  · split at h
    · simp at h
    · simp at h
    · rename_i arr ps harr
      split at h
      · simp at h
      · simp only [hp, if_true, Res.ok.injEq, Prod.mk.injEq] at h
        obtain ⟨h1, h2⟩ := h
        subst h1 h2
        refine ⟨pmbrEnc c tt, ⟨(toI64 ((tt.lss : Int) * toI64 ((arraySector tt false : Nat) : Int))).toNat, arr⟩,
          ⟨(toI64 (toI64 ((tt.secondaryHeader : Nat) : Int) * (tt.lss : Int))).toNat, hdrEnc crc tt false arr⟩,
          ⟨(toI64 ((tt.lss : Int) * toI64 ((arraySector tt true : Nat) : Int))).toNat, arr⟩,
          ⟨((tt.lss : Int)).toNat, hdrEnc crc tt true arr⟩, ?_, ?_, ?_, rfl⟩
        · cases c.pmbrLast <;> simp
        · simp [pmbrEnc]
        · simp

open Diskfs.Gpt in
/-- the five regions `Write` touches — protective-MBR bytes [446,512), primary header [lss,2·lss),
    primary array [2·lss, 2·lss+16384), backup array [(last−p)·lss, last·lss), backup header
    [last·lss, (last+1)·lss) — are laid out in this order without overlap and inside the disk, as soon
    as the disk has 2·p+3 sectors (p = 16384/lss sectors per array): this is where the minimum disk
    size enters, and what lets the flat device be viewed as the record of the five regions -/
theorem regions_disjoint (t0 : Table) (size : Nat) (hf : Fresh t0) (hl : t0.lss = 512 ∨ t0.lss = 4096)
    (hsz : size < two63) (hmin : (2 * (16384 / t0.lss) + 3) * t0.lss ≤ size) :
    let t := initTable t0 size
    let lss := t0.lss
    512 ≤ lss ∧ 2 * lss + 16384 ≤ arraySector t false * lss ∧
    arraySector t false * lss + 16384 = t.secondaryHeader * lss ∧
    t.secondaryHeader * lss + lss ≤ size ∧ arraySector t true * lss = 2 * lss := by
  simp only
  unfold arraySector partSectors initTable
  simp only [hf.ac, hf.es, hf.ph, hf.sh, hf.fd, hf.ld, if_true]
  rcases hl with h | h
  all_goals
    simp only [h, ite_self, Bool.false_eq_true, if_false, show (4096 : Nat) ≠ 0 by decide] at hmin ⊢
    simp only [u64, u64sub, two64, two63] at *
    refine ⟨by omega, ?_, ?_, ?_, ?_⟩ <;> first | omega | trivial

open Diskfs.Gpt in
/-- a torn write is, sector by sector, the new data where `keep` holds and the old content elsewhere
    (this is the `mix` of the record level): bytes of a kept sector -/
theorem torn_sector_kept (lss : Nat) (hl : 0 < lss) (w : Wr) (keep : Nat → Bool) (i : Nat)
    (hi : i < (w.data.length + lss - 1) / lss) (hk : keep i = true) :
    (⟨w.off + i * lss, (w.data.drop (i * lss)).take lss⟩ : Wr) ∈ tornPieces lss w keep := by
  unfold tornPieces
  simp only [List.mem_filterMap, List.mem_range]
  exact ⟨i, hi, by simp [hk]⟩

open Diskfs.Gpt in
/-- …and no piece is written for a sector that was not kept: every piece is a kept sector of `w` -/
theorem torn_pieces_only_kept (lss : Nat) (w : Wr) (keep : Nat → Bool) (p : Wr) (hp : p ∈ tornPieces lss w keep) :
    ∃ i, keep i = true ∧ p.off = w.off + i * lss ∧ p.data = (w.data.drop (i * lss)).take lss := by
  unfold tornPieces at hp
  simp only [List.mem_filterMap, List.mem_range] at hp
  obtain ⟨i, _, hi⟩ := hp
  by_cases hk : keep i = true
  · simp [hk] at hi
    exact ⟨i, hk, by rw [← hi], by rw [← hi]⟩
  · simp [hk] at hi

/-! ### refinement: the flat byte-level model (LBA arithmetic, `Gpt.read` over a device function)
    refines the record level, so crash atomicity is a theorem about the flat model -/

open Diskfs.Gpt in
/-- REGIONS: as soon as the disk has 2·p+3 sectors, the five regions `Write` touches lie in this order
    without overlap — sector 0 ⊇ [446,512), primary header [lss,2·lss), primary array [2·lss,2·lss+16384),
    backup array [oBA, oBA+16384), backup header [oBH, oBH+lss) (`Layout`: this is where the minimum disk
    size enters) — and every single flat write changes exactly its own field of the record view -/
theorem flat_write_one_field (size lss : Nat) (hl : lss = 512 ∨ lss = 4096) (hmin : (2 * (16384 / lss) + 3) * lss ≤ size)
    (D : Dev) (a b pm : Bytes) (ha : a.length = 16384) (hb : b.length = lss) (hpm : pm.length = 66) :
    Layout size lss ∧
    toDisk (applyWr D ⟨oBA size lss, a⟩) size lss = { toDisk D size lss with ba := sectors lss a } ∧
    toDisk (applyWr D ⟨oBH size lss, b⟩) size lss = { toDisk D size lss with bh := b } ∧
    toDisk (applyWr D ⟨2 * lss, a⟩) size lss = { toDisk D size lss with pa := sectors lss a } ∧
    toDisk (applyWr D ⟨lss, b⟩) size lss = { toDisk D size lss with ph := b } ∧
    toDisk (applyWr D ⟨446, pm⟩) size lss = { toDisk D size lss with mbr := readAt (applyWr D ⟨446, pm⟩) 0 lss } :=
  have L := layout_of size lss hl hmin
  ⟨L, toDisk_write_ba L D a ha, toDisk_write_bh L D b hb, toDisk_write_pa L D a ha, toDisk_write_ph L D b hb,
    toDisk_write_pm L D pm hpm⟩

open Diskfs.Gpt in
/-- SECTOR SUBSET IS MIX: the in-flight array write with ANY subset `keep` of its sectors applied to the
    flat device is, at record level, `mix keep new old` of that array and leaves the other four regions alone -/
theorem sector_subset_is_mix (size lss : Nat) (hl : lss = 512 ∨ lss = 4096) (hmin : (2 * (16384 / lss) + 3) * lss ≤ size)
    (D : Dev) (a : Bytes) (ha : a.length = 16384) (keep : Nat → Bool) :
    toDisk (applyWrs D (tornPieces lss ⟨2 * lss, a⟩ keep)) size lss =
      { toDisk D size lss with pa := mix (fun i => keep i.val) (sectors lss a) (toDisk D size lss).pa } ∧
    toDisk (applyWrs D (tornPieces lss ⟨oBA size lss, a⟩ keep)) size lss =
      { toDisk D size lss with ba := mix (fun i => keep i.val) (sectors lss a) (toDisk D size lss).ba } :=
  have L := layout_of size lss hl hmin
  ⟨toDisk_torn_pa L D a ha keep, toDisk_torn_ba L D a ha keep⟩

open Diskfs.Gpt in
/-- a write that fits one sector (both headers, the 66 protective-MBR bytes) is atomic under sector tearing -/
theorem single_sector_write_atomic (lss : Nat) (w : Wr) (keep : Nat → Bool) (h1 : 0 < w.data.length) (h2 : w.data.length ≤ lss) :
    tornPieces lss w keep = if keep 0 then [w] else [] :=
  torn_single lss w keep h1 h2

open Diskfs.Gpt in
/-- READER REFINEMENT: `Gpt.read` on the flat device — LBA arithmetic, readGPTHeader, loadEntries with its
    bounds and CRC checks, fallback to the backup at the last LBA on a content error only — equals the
    record-level reader instantiated with the real decoders (`flatReader`: readHeader, crc of the joined
    array, decodeArr) on the record view of the device, for every device whose header sectors, if they
    validate, describe the geometry this library writes -/
theorem flat_read_refines (c : Cfg) (crc : Bytes → Nat) (d : Dev) (size lss : Nat) (hl : lss = 512 ∨ lss = 4096)
    (hmin : (2 * (16384 / lss) + 3) * lss ≤ size) (hsz : size < two63)
    (hP : PStd crc d lss) (hB : BStd crc d size lss) :
    outOf (Gpt.read c crc d size lss).1 = GptCrash.read (flatReader crc size lss) (toDisk d size lss) :=
  read_refines c crc d size lss hl hmin hsz hP hB

open Diskfs.Gpt in
/-- CRASH STATES REFINE: for what the repaired `Write` emits for a fresh table over ANY device `d0`, every
    flat crash state (k writes in full, the next with any sector subset) is a record-level `Crash` state;
    the completed device is `NewOk` for the real decoders and itself satisfies the premises the theorem
    below puts on an old device (so they hold for every table this library wrote) -/
theorem flat_crash_states_refine (c : Cfg) (hpl : c.pmbrLast = true) (crc : Bytes → Nat) (hcrc : ∀ b, crc b < two32)
    (d0 : Dev) (t0 : Table) (size : Nat) (ws : List Wr) (t : Table)
    (hf : Fresh t0) (hl : t0.lss = 512 ∨ t0.lss = 4096) (hg : t0.guid.length = 16) (hsz : size < two63)
    (hmin : (2 * (16384 / t0.lss) + 3) * t0.lss ≤ size) (hpm : t0.pmbr = true)
    (hw : write c crc t0 size = .ok (ws, t)) (k : Nat) (keep : Nat → Bool) :
    NewOk (flatReader crc size t0.lss) (toDisk (applyWrs d0 ws) size t0.lss) ∧
    PStd crc (applyWrs d0 ws) t0.lss ∧ BStd crc (applyWrs d0 ws) size t0.lss ∧
    OldOkFlat crc (applyWrs d0 ws) t0.lss ∧
    Crash false (toDisk d0 size t0.lss) (toDisk (applyWrs d0 ws) size t0.lss)
      (toDisk (crashDev d0 t0.lss ws k keep) size t0.lss) :=
  write_crash_setup c hpl crc hcrc d0 t0 size ws t hf hl hg hsz hmin hpm hw k keep

open Diskfs.Gpt in
/-- C09 ON THE FLAT MODEL (GPT over GPT).  `d0`: any device with a valid primary GPT of this library's
    geometry (`OldOkFlat`) whose last sector, if it validates as a backup header, describes this library's
    geometry (`BStd`) — both hold for every device this library's Write produced (`flat_crash_states_refine`).
    `ws`: the repaired Write (protective MBR last) of a fresh table with a protective MBR on a disk of at
    least 2·p+3 sectors.  Then for EVERY prefix length `k` and EVERY sector subset `keep` of the write in
    flight, `Gpt.read` of the crash device succeeds and returns exactly the partition list read from `d0`
    or exactly the one read after the completed write — which is read from the primary copy.
    Explicit premises: sector atomicity (in `crashDev`), `NoCrcCollisionFlat` on the two arrays. -/
theorem gpt_crash_atomic_flat (c : Cfg) (hpl : c.pmbrLast = true) (crc : Bytes → Nat) (hcrc : ∀ b, crc b < two32)
    (d0 : Dev) (t0 : Table) (size : Nat) (ws : List Wr) (t : Table)
    (hf : Fresh t0) (hl : t0.lss = 512 ∨ t0.lss = 4096) (hg : t0.guid.length = 16) (hsz : size < two63)
    (hmin : (2 * (16384 / t0.lss) + 3) * t0.lss ≤ size) (hpm : t0.pmbr = true)
    (hw : write c crc t0 size = .ok (ws, t))
    (hOld : OldOkFlat crc d0 t0.lss) (hOldB : BStd crc d0 size t0.lss)
    (hColl : NoCrcCollisionFlat crc t0.lss (readAt d0 (2 * t0.lss) 16384) (readAt (applyWrs d0 ws) (2 * t0.lss) 16384))
    (k : Nat) (keep : Nat → Bool) :
    ∃ po pn, outOf (Gpt.read c crc d0 size t0.lss).1 = .ok po false ∧
      outOf (Gpt.read c crc (applyWrs d0 ws) size t0.lss).1 = .ok pn false ∧
      ((outOf (Gpt.read c crc (crashDev d0 t0.lss ws k keep) size t0.lss).1).parts? = some po ∨
       (outOf (Gpt.read c crc (crashDev d0 t0.lss ws k keep) size t0.lss).1).parts? = some pn) :=
  crash_atomic_flat c hpl crc hcrc d0 t0 size ws t hf hl hg hsz hmin hpm hw hOld hOldB hColl k keep

open Diskfs.Gpt in
/-- first-ever write on the flat model (old = no table: neither LBA 1 nor the last LBA of `d0` passes
    readGPTHeader — blank, MBR-partitioned, garbage): every crash state reads as an error, as `d0` did,
    or as exactly the partition list of the completed write -/
theorem blank_old_flat (c : Cfg) (hpl : c.pmbrLast = true) (crc : Bytes → Nat) (hcrc : ∀ b, crc b < two32)
    (d0 : Dev) (t0 : Table) (size : Nat) (ws : List Wr) (t : Table)
    (hf : Fresh t0) (hl : t0.lss = 512 ∨ t0.lss = 4096) (hg : t0.guid.length = 16) (hsz : size < two63)
    (hmin : (2 * (16384 / t0.lss) + 3) * t0.lss ≤ size) (hpm : t0.pmbr = true)
    (hw : write c crc t0 size = .ok (ws, t))
    (hNoP : ∀ h, readHeader crc (readAt d0 t0.lss t0.lss) ≠ .ok h)
    (hNoB : ∀ h, readHeader crc (readAt d0 (oBH size t0.lss) t0.lss) ≠ .ok h)
    (k : Nat) (keep : Nat → Bool) :
    ∃ pn, outOf (Gpt.read c crc d0 size t0.lss).1 = .err ∧
      outOf (Gpt.read c crc (applyWrs d0 ws) size t0.lss).1 = .ok pn false ∧
      (outOf (Gpt.read c crc (crashDev d0 t0.lss ws k keep) size t0.lss).1 = .err ∨
       (outOf (Gpt.read c crc (crashDev d0 t0.lss ws k keep) size t0.lss).1).parts? = some pn) :=
  GptCrash.blank_old_flat c hpl crc hcrc d0 t0 size ws t hf hl hg hsz hmin hpm hw hNoP hNoB k keep

open Diskfs.Gpt in
/-- partition.Read on the flat device (gpt.Read, then mbr.Read of sector 0 if that fails) equals the
    record-level `partRead` instantiated with the real decoders (`flatReader`, `mbrViewFlat` = mbr.Read on
    the sector-0 content); repaired reader (entry-array bound check ⇒ gpt.Read is panic-free) -/
theorem flat_partread_refines (c : Cfg) (hab : c.arrayBounded = true) (crc : Bytes → Nat) (d : Dev) (size lss : Nat)
    (hl : lss = 512 ∨ lss = 4096) (hmin : (2 * (16384 / lss) + 3) * lss ≤ size) (hsz : size < two63)
    (hP : PStd crc d lss) (hB : BStd crc d size lss) :
    outP (PartTable.read c crc d size lss).1 =
      partRead (flatReader crc size lss) mbrViewFlat (toDisk d size lss) :=
  partread_refines c hab crc d size lss hl hmin hsz hP hB

open Diskfs.Gpt in
/-- first-ever write seen through partition.Read ON THE FLAT MODEL (repaired order, protective MBR last):
    on a device without a valid GPT header at LBA 1 or at the last LBA — blank, MBR-partitioned, garbage —
    every crash state of the repaired Write reads through partition.Read exactly as `d0` did (no table, or
    the old MBR table, decoded by the real mbr.Read) or as exactly the new GPT's partition list -/
theorem first_write_atomic_flat (c : Cfg) (hpl : c.pmbrLast = true) (hab : c.arrayBounded = true)
    (crc : Bytes → Nat) (hcrc : ∀ b, crc b < two32)
    (d0 : Dev) (t0 : Table) (size : Nat) (ws : List Wr) (t : Table)
    (hf : Fresh t0) (hl : t0.lss = 512 ∨ t0.lss = 4096) (hg : t0.guid.length = 16) (hsz : size < two63)
    (hmin : (2 * (16384 / t0.lss) + 3) * t0.lss ≤ size) (hpm : t0.pmbr = true)
    (hw : write c crc t0 size = .ok (ws, t))
    (hNoP : ∀ h, readHeader crc (readAt d0 t0.lss t0.lss) ≠ .ok h)
    (hNoB : ∀ h, readHeader crc (readAt d0 (oBH size t0.lss) t0.lss) ≠ .ok h)
    (k : Nat) (keep : Nat → Bool) :
    ∃ pn, outP (PartTable.read c crc (applyWrs d0 ws) size t0.lss).1 = .gpt pn ∧
      (outP (PartTable.read c crc (crashDev d0 t0.lss ws k keep) size t0.lss).1 =
          outP (PartTable.read c crc d0 size t0.lss).1 ∨
       outP (PartTable.read c crc (crashDev d0 t0.lss ws k keep) size t0.lss).1 = .gpt pn) :=
  GptCrash.first_write_atomic_flat c hpl hab crc hcrc d0 t0 size ws t hf hl hg hsz hmin hpm hw hNoP hNoB k keep

-- non-vacuity of the flat theorems: the repaired Write accepts a concrete fresh table with a protective MBR
-- on a disk of the minimum size; a blank device satisfies the premises of `blank_old_flat`; and
-- `flat_crash_states_refine` shows OldOkFlat / BStd hold for every device this Write produced
set_option maxRecDepth 100000 in
example : (Diskfs.Gpt.write Diskfs.Gpt.Cfg.fixed (fun _ => 0)
    { parts := [{ index := 2, start := 34, end_ := 34, size := 0, typ := List.replicate 16 7, guid := List.replicate 16 9,
                  attrs := 0, name := [0x61] }], lss := 512, guid := List.replicate 16 3, pmbr := true }
    (67 * 512)).isOk = true ∧ Diskfs.Gpt.Cfg.fixed.pmbrLast = true := by decide
set_option maxRecDepth 100000 in
example : ∀ h, Diskfs.Gpt.readHeader (fun _ => 0) (readAt (fun _ => 0) 512 512) ≠ .ok h := by
  intro h hh
  have : (Diskfs.Gpt.readHeader (fun _ => 0) (readAt (fun _ => 0) 512 512)).isOk = false := by decide
  rw [hh] at this
  simp [Diskfs.Gpt.Res.isOk] at this

/-- non-vacuity of the hypotheses: a concrete reader / old / new triple satisfying OldOk, NewOk, NoCrcCollision -/
example : ∃ (R : Reader Nat Nat 1) (old new : Disk Nat 1), OldOk R old ∧ NewOk R new ∧ NoCrcCollision R old new := by
  obtain ⟨R, o, n, h1, h2, h3, _⟩ := GptCrash.order_matters
  exact ⟨R, o, n, h1, h2, h3⟩

/-! ### ANY WELL-FORMED GEOMETRY (Model/GptGeom.lean, Proofs/GptGeom*.lean): tables gpt.Read returned from a
    foreign disk and that were then edited — other entry counts (4, 30, 32, 64, 256, …), arrays that do not end
    on a sector boundary, aligned first usable LBA, any sector size ≥ 512 — and fresh tables on any sector
    size ≥ 512.  `writeUp` is table.go Write as it is now (array sectors rounded UP, b8755c1); an initialised
    table keeps the geometry its header carried and Write ignores its size argument. -/

open Diskfs.Gpt in
/-- BRIDGE: on the domain of the theorems above (fresh table, 512/4096-byte sectors) the model the driver
    executes, `writeUp`, IS `write` -/
theorem write_up_is_write_fresh (c : Cfg) (crc : Bytes → Nat) (t0 : Table) (size : Nat) (hf : Fresh t0)
    (hl : t0.lss = 512 ∨ t0.lss = 4096) : writeUp c crc t0 size = write c crc t0 size :=
  writeUp_eq_write c crc t0 size hf hl

open Diskfs.Gpt in
/-- REGIONS, any geometry satisfying `GeomWF`: p = ⌈n·128 / lss⌉ ≥ 1 sectors hold the array (its bytes reach
    into the last of them); primary array at 2·lss, backup array at (AlternateLBA − p)·lss, backup header at
    AlternateLBA·lss = the device's last LBA: in this order, without overlap, inside the device -/
theorem regions_disjoint_geom (t : Table) (size : Nat) (hg : GeomWF t size) :
    1 ≤ partSectorsUp t ∧ arrBytes t ≤ partSectorsUp t * t.lss ∧ partSectorsUp t * t.lss < arrBytes t + t.lss ∧
    offPA t = 2 * t.lss ∧ 2 * t.lss + partSectorsUp t * t.lss ≤ offBA t ∧
    offBA t + partSectorsUp t * t.lss = offBH t ∧ offBH t + t.lss ≤ size ∧
    partSectorsUp t ≤ t.secondaryHeader ∧ t.secondaryHeader < two63 :=
  geom_layout t size hg

open Diskfs.Gpt in
/-- WRITE LIST, EXACTLY, any geometry: backup array, backup header, primary array at 2·lss, primary header at
    lss, the protective-MBR bytes first (as found) or last (repaired); both arrays the same n·128 bytes -/
theorem write_list_shape_geom (c : Cfg) (crc : Bytes → Nat) (t : Table) (size : Nat) (ws : List Wr) (t' : Table)
    (hg : GeomWF t size) (hw : writeUp c crc t size = .ok (ws, t')) :
    ∃ arr ps, arrEnc c t = .ok (arr, ps) ∧ arr.length = arrBytes t ∧ t' = { t with parts := ps } ∧
      ws = (if c.pmbrLast then coreUp crc t arr ++ pmWrs c t else pmWrs c t ++ coreUp crc t arr) :=
  writeUp_geom_exact c crc t size ws t' hg hw

open Diskfs.Gpt in
/-- a fresh table on ANY sector size ≥ 512 (1024, 2048, 8192, …) becomes a table of well-formed geometry, and
    Write of the fresh table is Write of that table -/
theorem fresh_is_geom (c : Cfg) (crc : Bytes → Nat) (t0 : Table) (size : Nat) (hf : Fresh t0) (hl : 512 ≤ t0.lss)
    (hg : t0.guid.length = 16) (hsz : size < two63)
    (hmin : (2 * ((16384 + t0.lss - 1) / t0.lss) + 3) * t0.lss ≤ size) :
    GeomWF (initTableUp t0 size) size ∧ writeUp c crc t0 size = writeUp c crc (initTableUp t0 size) size :=
  ⟨(initTableUp_geom t0 size hf hl hg hsz hmin).1, writeUp_fresh c crc t0 size hf⟩

open Diskfs.Gpt in
/-- ONE FLAT WRITE = ONE FIELD, any geometry: each of the five writes changes exactly its own field of the
    record view `toDiskG` (sectors of the array: the last one short when the array does not end on a
    sector boundary) -/
theorem flat_write_one_field_geom (g : Geo) (size : Nat) (G : g.OK size)
    (D : Dev) (a b pm : Bytes) (ha : a.length = g.ab) (hb : b.length = g.lss) (hpm : pm.length = 66) :
    toDiskG (applyWr D ⟨g.aB * g.lss, a⟩) g = { toDiskG D g with ba := sectorsG g.lss g.ab g.p a } ∧
    toDiskG (applyWr D ⟨g.hB * g.lss, b⟩) g = { toDiskG D g with bh := b } ∧
    toDiskG (applyWr D ⟨g.aP * g.lss, a⟩) g = { toDiskG D g with pa := sectorsG g.lss g.ab g.p a } ∧
    toDiskG (applyWr D ⟨g.lss, b⟩) g = { toDiskG D g with ph := b } ∧
    toDiskG (applyWr D ⟨446, pm⟩) g = { toDiskG D g with mbr := readAt (applyWr D ⟨446, pm⟩) 0 g.lss } :=
  have L := lay_of G
  ⟨toDiskG_write_ba L D a ha, toDiskG_write_bh L D b hb, toDiskG_write_pa L D a ha, toDiskG_write_ph L D b hb,
    toDiskG_write_pm L D pm hpm⟩

open Diskfs.Gpt in
/-- SECTOR SUBSET IS MIX, any array length: an in-flight array write with ANY subset of its sectors applied —
    the piece for the last sector is shorter when n·128 is not a multiple of the sector size — is
    `mix keep new old` of that array at record level and leaves the other four regions alone -/
theorem sector_subset_is_mix_geom (g : Geo) (size : Nat) (G : g.OK size) (D : Dev) (a : Bytes) (ha : a.length = g.ab)
    (keep : Nat → Bool) :
    toDiskG (applyWrs D (tornPieces g.lss ⟨g.aP * g.lss, a⟩ keep)) g =
      { toDiskG D g with pa := mix (fun i => keep i.val) (sectorsG g.lss g.ab g.p a) (toDiskG D g).pa } ∧
    toDiskG (applyWrs D (tornPieces g.lss ⟨g.aB * g.lss, a⟩ keep)) g =
      { toDiskG D g with ba := mix (fun i => keep i.val) (sectorsG g.lss g.ab g.p a) (toDiskG D g).ba } :=
  have L := lay_of G
  ⟨toDiskG_torn_pa L D a ha keep, toDiskG_torn_ba L D a ha keep⟩

open Diskfs.Gpt in
/-- BYTEWISE form of the fault model for a write of ANY length: after a torn write byte `j` is new exactly
    when it lies in the write's range and its sector of the write was kept -/
theorem torn_write_bytewise (d : Dev) (lss : Nat) (hl : 0 < lss) (w : Wr) (keep : Nat → Bool) (j : Nat) :
    applyWrs d (tornPieces lss w keep) j =
      if w.off ≤ j ∧ j < w.off + w.data.length ∧ keep ((j - w.off) / lss) = true then w.data.getD (j - w.off) 0
      else d j :=
  torn_byte d lss hl w keep j

open Diskfs.Gpt in
/-- READER REFINEMENT, any geometry: `Gpt.read` on the flat device equals the record-level reader
    instantiated with the real decoders for geometry `g` (`flatReaderG`) on the record view `toDiskG` -/
theorem flat_read_refines_geom (c : Cfg) (crc : Bytes → Nat) (d : Dev) (size : Nat) (g : Geo) (G : g.OK size)
    (hP : PStdG crc d g) (hB : BStdG crc d g) :
    outOf (Gpt.read c crc d size g.lss).1 = GptCrash.read (flatReaderG crc g) (toDiskG d g) :=
  read_refinesG c crc d size g G hP hB

open Diskfs.Gpt in
/-- CRASH STATES REFINE, any geometry: what the repaired Write emits for an initialised table of well-formed
    geometry over ANY device; the completed device itself satisfies the premises put on an old device -/
theorem flat_crash_states_refine_geom (c : Cfg) (hpl : c.pmbrLast = true) (crc : Bytes → Nat) (hcrc : ∀ b, crc b < two32)
    (d0 : Dev) (t : Table) (size : Nat) (ws : List Wr) (t' : Table)
    (hg : GeomWF t size) (hpm : t.pmbr = true) (hw : writeUp c crc t size = .ok (ws, t')) (k : Nat) (keep : Nat → Bool) :
    NewOk (flatReaderG crc (geoOf t)) (toDiskG (applyWrs d0 ws) (geoOf t)) ∧
    PStdG crc (applyWrs d0 ws) (geoOf t) ∧ BStdG crc (applyWrs d0 ws) (geoOf t) ∧
    OldOkFlatG crc (applyWrs d0 ws) (geoOf t) ∧
    Crash false (toDiskG d0 (geoOf t)) (toDiskG (applyWrs d0 ws) (geoOf t))
      (toDiskG (crashDev d0 t.lss ws k keep) (geoOf t)) :=
  write_crash_setupG c hpl crc hcrc d0 t size ws t' hg hpm hw k keep

open Diskfs.Gpt in
/-- C09 ON THE FLAT MODEL FOR ANY WELL-FORMED GEOMETRY (GPT over GPT).  `t`: an initialised table — what
    gpt.Read returned, edited — with `GeomWF t size`; `d0`: any device with a valid primary GPT of that geometry
    (`OldOkFlatG`) whose last sector, if it validates as a backup header, describes it (`BStdG`) — both hold
    for every device Write produced for such a table (`flat_crash_states_refine_geom`).  For EVERY prefix
    length `k` and EVERY sector subset `keep` of the write in flight `Gpt.read` of the crash device succeeds
    and returns exactly the partition list read from `d0` or exactly the one read after the completed write,
    which is read from the primary copy.  Explicit premises: sector atomicity, `NoCrcCollisionG`. -/
theorem gpt_crash_atomic_geom (c : Cfg) (hpl : c.pmbrLast = true) (crc : Bytes → Nat) (hcrc : ∀ b, crc b < two32)
    (d0 : Dev) (t : Table) (size : Nat) (ws : List Wr) (t' : Table)
    (hg : GeomWF t size) (hpm : t.pmbr = true) (hw : writeUp c crc t size = .ok (ws, t'))
    (hOld : OldOkFlatG crc d0 (geoOf t)) (hOldB : BStdG crc d0 (geoOf t))
    (hColl : NoCrcCollisionG crc t.lss (readAt d0 (2 * t.lss) (arrBytes t)) (readAt (applyWrs d0 ws) (2 * t.lss) (arrBytes t)))
    (k : Nat) (keep : Nat → Bool) :
    ∃ po pn, outOf (Gpt.read c crc d0 size t.lss).1 = .ok po false ∧
      outOf (Gpt.read c crc (applyWrs d0 ws) size t.lss).1 = .ok pn false ∧
      ((outOf (Gpt.read c crc (crashDev d0 t.lss ws k keep) size t.lss).1).parts? = some po ∨
       (outOf (Gpt.read c crc (crashDev d0 t.lss ws k keep) size t.lss).1).parts? = some pn) :=
  crash_atomic_flatG c hpl crc hcrc d0 t size ws t' hg hpm hw hOld hOldB hColl k keep

open Diskfs.Gpt in
/-- …in particular for a FRESH table on any sector size ≥ 512 (the theorem `gpt_crash_atomic_flat` above is
    the 512/4096 case) -/
theorem gpt_crash_atomic_fresh_any_sector_size (c : Cfg) (hpl : c.pmbrLast = true) (crc : Bytes → Nat)
    (hcrc : ∀ b, crc b < two32) (d0 : Dev) (t0 : Table) (size : Nat) (ws : List Wr) (t' : Table)
    (hf : Fresh t0) (hl : 512 ≤ t0.lss) (hgd : t0.guid.length = 16) (hsz : size < two63)
    (hmin : (2 * ((16384 + t0.lss - 1) / t0.lss) + 3) * t0.lss ≤ size) (hpm : t0.pmbr = true)
    (hw : writeUp c crc t0 size = .ok (ws, t'))
    (hOld : OldOkFlatG crc d0 (geoOf (initTableUp t0 size))) (hOldB : BStdG crc d0 (geoOf (initTableUp t0 size)))
    (hColl : NoCrcCollisionG crc t0.lss (readAt d0 (2 * t0.lss) 16384) (readAt (applyWrs d0 ws) (2 * t0.lss) 16384))
    (k : Nat) (keep : Nat → Bool) :
    ∃ po pn, outOf (Gpt.read c crc d0 size t0.lss).1 = .ok po false ∧
      outOf (Gpt.read c crc (applyWrs d0 ws) size t0.lss).1 = .ok pn false ∧
      ((outOf (Gpt.read c crc (crashDev d0 t0.lss ws k keep) size t0.lss).1).parts? = some po ∨
       (outOf (Gpt.read c crc (crashDev d0 t0.lss ws k keep) size t0.lss).1).parts? = some pn) := by
  obtain ⟨hg, _, _, hpm', hl', hac⟩ := initTableUp_geom t0 size hf hl hgd hsz hmin
  rw [writeUp_fresh c crc t0 size hf] at hw
  have hab : arrBytes (initTableUp t0 size) = 16384 := by unfold arrBytes; rw [hac]
  have := crash_atomic_flatG c hpl crc hcrc d0 (initTableUp t0 size) size ws t' hg (by rw [hpm']; exact hpm) hw hOld hOldB
    (by rw [hl', hab]; exact hColl) k keep
  rw [hl'] at this
  exact this

open Diskfs.Gpt in
/-- first-ever write, any geometry: old = no table; every crash state reads as an error (as before) or as
    exactly the partition list of the completed write -/
theorem blank_old_geom (c : Cfg) (hpl : c.pmbrLast = true) (crc : Bytes → Nat) (hcrc : ∀ b, crc b < two32)
    (d0 : Dev) (t : Table) (size : Nat) (ws : List Wr) (t' : Table)
    (hg : GeomWF t size) (hpm : t.pmbr = true) (hw : writeUp c crc t size = .ok (ws, t'))
    (hNoP : ∀ h, readHeader crc (readAt d0 t.lss t.lss) ≠ .ok h)
    (hNoB : ∀ h, readHeader crc (readAt d0 (offBH t) t.lss) ≠ .ok h)
    (k : Nat) (keep : Nat → Bool) :
    ∃ pn, outOf (Gpt.read c crc d0 size t.lss).1 = .err ∧
      outOf (Gpt.read c crc (applyWrs d0 ws) size t.lss).1 = .ok pn false ∧
      (outOf (Gpt.read c crc (crashDev d0 t.lss ws k keep) size t.lss).1 = .err ∨
       (outOf (Gpt.read c crc (crashDev d0 t.lss ws k keep) size t.lss).1).parts? = some pn) :=
  blank_old_flatG c hpl crc hcrc d0 t size ws t' hg hpm hw hNoP hNoB k keep

open Diskfs.Gpt in
/-- first-ever write seen through partition.Read, any geometry (repaired order and repaired reader) -/
theorem first_write_atomic_geom (c : Cfg) (hpl : c.pmbrLast = true) (hab : c.arrayBounded = true)
    (crc : Bytes → Nat) (hcrc : ∀ b, crc b < two32)
    (d0 : Dev) (t : Table) (size : Nat) (ws : List Wr) (t' : Table)
    (hg : GeomWF t size) (hpm : t.pmbr = true) (hw : writeUp c crc t size = .ok (ws, t'))
    (hNoP : ∀ h, readHeader crc (readAt d0 t.lss t.lss) ≠ .ok h)
    (hNoB : ∀ h, readHeader crc (readAt d0 (offBH t) t.lss) ≠ .ok h)
    (k : Nat) (keep : Nat → Bool) :
    ∃ pn, outP (PartTable.read c crc (applyWrs d0 ws) size t.lss).1 = .gpt pn ∧
      (outP (PartTable.read c crc (crashDev d0 t.lss ws k keep) size t.lss).1 =
          outP (PartTable.read c crc d0 size t.lss).1 ∨
       outP (PartTable.read c crc (crashDev d0 t.lss ws k keep) size t.lss).1 = .gpt pn) :=
  first_write_atomic_flatG c hpl hab crc hcrc d0 t size ws t' hg hpm hw hNoP hNoB k keep

open Diskfs.Gpt in
/-- the model driver classifies every crash state through `flatReaderGF` (sectors concatenated: linear time) — on the
    record view of ANY flat device it reads exactly what the reader of the theorems above, `flatReaderG`, reads -/
theorem record_reader_fast_eq (g : Geo) (size : Nat) (G : g.OK size) (crc : Bytes → Nat) (d : Dev) :
    GptCrash.read (flatReaderGF crc g) (toDiskG d g) = GptCrash.read (flatReaderG crc g) (toDiskG d g) ∧
    partRead (flatReaderGF crc g) mbrViewFlat (toDiskG d g) = partRead (flatReaderG crc g) mbrViewFlat (toDiskG d g) :=
  ⟨read_fast_eq G crc d, partRead_fast_eq G crc mbrViewFlat d⟩

/-! ### what goes wrong WITHOUT `GeomWF`, and on a disk that reads only from its backup copy -/

/-- a table as gpt.Read returns it for a valid foreign GPT with 30 entries on a disk of 100 sectors of 512 bytes
    (array of 3840 bytes = 7.5 sectors) -/
def cexT30 : Diskfs.Gpt.Table :=
  { parts := [], lss := 512, guid := List.replicate 16 3, pmbr := true, initialized := true, arrCount := 30,
    entSize := 128, firstLBA := 2, primaryHeader := 1, secondaryHeader := 99, firstData := 34, lastData := 90 }

set_option maxRecDepth 100000 in
/-- AS FOUND (before b8755c1; `Gpt.write`, array sectors rounded DOWN): for the 30-entry table the backup array
    (3840 bytes from LBA 99 − 7 = 92) runs into the backup header's sector (LBA 99) — finding
    gpt-backup-array-overlaps-header —; with the sectors rounded UP (`writeUp`, the code as it is now) the
    table has well-formed geometry and the backup array ends before the header -/
theorem floor_rounding_overlaps_backup_header :
    (match Diskfs.Gpt.write Diskfs.Gpt.Cfg.fixed (fun _ => 0) cexT30 51200 with
     | .ok (ba :: bh :: _, _) => decide (ba.off = 92 * 512 ∧ bh.off = 99 * 512 ∧ ba.off + ba.data.length > bh.off)
     | _ => false) = true ∧
    (match Diskfs.Gpt.writeUp Diskfs.Gpt.Cfg.fixed (fun _ => 0) cexT30 51200 with
     | .ok (ba :: bh :: _, _) => decide (ba.off = 91 * 512 ∧ bh.off = 99 * 512 ∧ ba.off + ba.data.length ≤ bh.off)
     | _ => false) = true ∧
    Diskfs.Gpt.GeomWF cexT30 51200 := by decide

/-- the table gpt.Read returns on a disk that has GROWN from 50 to 100 sectors since it was partitioned
    (AlternateLBA still 49) -/
def cexGrown : Diskfs.Gpt.Table :=
  { parts := [], lss := 4096, guid := List.replicate 16 3, pmbr := true, initialized := true, arrCount := 128,
    entSize := 128, firstLBA := 2, primaryHeader := 1, secondaryHeader := 49, firstData := 6, lastData := 44 }

set_option maxRecDepth 100000 in
/-- GROWN DISK (finding gpt-rewrite-grown-disk-no-fallback): Write keeps the header's geometry and ignores
    its size argument — the new backup header goes to the OLD AlternateLBA (49), not to the device's last
    LBA (99) where gpt.Read's fallback looks; `GeomWF` fails in exactly its `sh` clause, and after
    Table.Repair(size) (`repairUp`) the geometry is well formed again -/
theorem grown_disk_backup_not_at_last_lba :
    (match Diskfs.Gpt.writeUp Diskfs.Gpt.Cfg.fixed (fun _ => 0) cexGrown (100 * 4096) with
     | .ok (_ :: bh :: _, _) => decide (bh.off = 49 * 4096 ∧ bh.off ≠ (100 * 4096 / 4096 - 1) * 4096)
     | _ => false) = true ∧
    ¬ Diskfs.Gpt.GeomWF cexGrown (100 * 4096) ∧
    Diskfs.Gpt.GeomWF (Diskfs.Gpt.repairUp cexGrown (100 * 4096)) (100 * 4096) := by decide

/-- …and at record level: when the backup copy Write produces is not where the reader looks, the state
    "primary array in flight" reads as an error — neither old nor new -/
theorem grown_rewrite_not_atomic :
    ∃ (R : Reader Nat Nat 1) (old d : Disk Nat 1) (newPa : Fin 1 → Nat),
      OldOk R old ∧ R.hdrB old.bh = none ∧ d = { old with pa := mix (fun _ => true) newPa old.pa } ∧
      read R old = .ok (R.parts old.pa) false ∧ read R d = .err :=
  GptCrash.grown_rewrite_not_atomic

/-- DEGRADED PRIMARY, positive part: the old disk reads only from its backup copy (`OldDegraded`: what an
    interrupted Write leaves; gpt.Read sets RecoveredFromBackup) and THE SAME table is written again — the
    retry Read's documentation asks for; same array, same backup header bytes.  Every crash state of the
    repaired Write reads as exactly that table (old = new). -/
theorem retry_same_table_atomic {S P : Type} {n : Nat} (R : Reader S P n) (old new : Disk S n)
    (hOld : OldDegraded R old) (hNew : NewOk R new) (hba : new.ba = old.ba) (hbh : new.bh = old.bh)
    (hStale : ∀ c, R.hdrP old.ph = some c → ∀ keep : Fin n → Bool,
      R.crc (mix keep new.pa old.pa) = c → R.parts (mix keep new.pa old.pa) = R.parts new.pa)
    (d : Disk S n) (hd : Crash false old new d) :
    (read R d).parts? = some (R.parts old.ba) ∧ read R old = .ok (R.parts old.ba) true :=
  ⟨GptCrash.retry_same_table_atomic R old new hOld hNew hba hbh hStale d hd, degraded_reads_backup R old hOld⟩

/-- DEGRADED PRIMARY, negative part (finding gpt-rewrite-over-degraded-primary): a DIFFERENT table written
    over such a disk — Write destroys the only valid copy first: a crash in the first two synced writes
    leaves a disk that does not read -/
theorem degraded_other_table_not_atomic :
    ∃ (R : Reader Nat Nat 1) (old new d : Disk Nat 1),
      OldDegraded R old ∧ NewOk R new ∧ Crash false old new d ∧ read R d = .err :=
  GptCrash.degraded_other_table_not_atomic

/-- …and worse than an error (same finding): while the primary array is in flight the STALE primary header — of the
    table that was on the disk before the interrupted write — can become valid again, when the sectors of the new array
    that have reached the disk equal that table's, and the disk reads from the primary as that third table: neither the
    old table (from the backup) nor the new one.  No CRC collision is involved: the arrays are equal. -/
theorem degraded_other_table_resurrects_stale_primary :
    ∃ (R : Reader Nat Nat 2) (old new d : Disk Nat 2) (pa : Nat),
      OldDegraded R old ∧ NewOk R new ∧ Crash false old new d ∧ read R d = .ok pa false ∧
      pa ≠ R.parts old.ba ∧ pa ≠ R.parts new.pa :=
  GptCrash.degraded_other_table_resurrects_stale_primary

/-- for the record (NOT what the code does): the order primary array → primary header → backup array → backup
    header is atomic over a disk that reads only from its backup, for any new table -/
theorem primary_first_atomic_over_degraded {S P : Type} {n : Nat} (R : Reader S P n) (old new : Disk S n)
    (hOld : OldDegraded R old) (hNew : NewOk R new)
    (hStale : ∀ c, R.hdrP old.ph = some c → ∀ keep : Fin n → Bool,
      R.crc (mix keep new.pa old.pa) = c → R.parts (mix keep new.pa old.pa) = R.parts new.pa ∨
        R.parts (mix keep new.pa old.pa) = R.parts old.ba)
    (d : Disk S n) (hd : CrashPF old new d) :
    (read R d).parts? = some (R.parts old.ba) ∨ (read R d).parts? = some (R.parts new.pa) :=
  GptCrash.primary_first_atomic_over_degraded R old new hOld hNew hStale d hd

-- non-vacuity: `GeomWF cexT30` and the accepted Write are in `floor_rounding_overlaps_backup_header`; a device
-- Write produced satisfies OldOkFlatG / BStdG (`flat_crash_states_refine_geom`); a degraded old disk, a new
-- one with the same backup side and a crash state between them:
example : ∃ (R : Reader Nat Nat 1) (old new : Disk Nat 1), OldDegraded R old ∧ NewOk R new ∧ new.ba = old.ba ∧
    new.bh = old.bh ∧ Crash false old new new :=
  ⟨⟨fun s => if s = 0 then none else some s, fun s => if s = 0 then none else some s, fun a => a 0, fun a => a 0⟩,
    ⟨0, 0, fun _ => 7, fun _ => 1, 1⟩, ⟨0, 1, fun _ => 1, fun _ => 1, 1⟩, ⟨rfl, Or.inl rfl⟩, ⟨rfl, rfl, rfl⟩, rfl, rfl,
    complete_is_crash_state false _ _⟩

end Diskfs.GptCrash.C09
