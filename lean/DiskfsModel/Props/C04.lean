/-
  C04 — ext4 behaves like a plain tree of files, directories and symlinks.
  Property theorems of the logic cores that carry it (helper lemmas live in Proofs/Ext4*.lean):

  * util/bitmap (Model/Ext4/Bitmap.lean): set/clear/isSet act on exactly one bit; FirstFree returns
    the least clear bit at or after `start`; FreeList's runs partition the clear bits.
  * File.Read / File.Write over the flat extent list (Model/Ext4/FileIO.lean): with the repaired skip test the
    read loop returns exactly drop/take of the mapped byte string and never panics, for every contiguous extent
    list, block size, file size, offset and length (`readE_spec`), and zeros for holes in any sorted list
    (`readE_sparse_spec`); the repaired write loop splices the buffer into the mapped byte string and touches no
    other device byte (`writeE_spec`), the whole File.Write zero-fills a gap beyond EOF (`writeZ_spec`), and
    Read after Write returns what was written (`write_then_read`, `writeZ_then_read`); with the code as found
    (`<` skip test; loop exit on a single WriteAt) concrete inputs panic or fail (findings ext4-extent-skip-lt,
    ext4-write-trailing-empty-writes).
  * allocation (Model/Ext4/Alloc.lean, AllocSlow.lean): the whole policy of allocateExtents — fast path and slow
    path, for every order of the unstable sort — only hands out blocks that were free, inside one group, pairwise
    disjoint, exactly as many as asked for, and gives up only when too few are free (`alloc_spec`).
  * Directory.toBytes / parseDirEntriesLinear (Model/Ext4/DirPack.lean): every block's rec_len chain
    tiles the block, and parse (pack es) = es for names up to 247 bytes; for 248…255-byte names the
    decoder's uint8 arithmetic wraps (finding ext4-long-name-panic).

  * the extent tree (Model/Ext4/ExtTree.lean, mirror of extent.go): extendExtentTree - append to a leaf, the root
    leaf moving into a block, leaf splits under the root and under an index node in a block, the root's children
    moving into two index nodes - keeps blocks() = old extents ++ added and the file blocks strictly increasing
    (`exttree_extend_appends`), keeps the fan-out bounds and the uniform depth (`exttree_extend_shape`); a node
    encodes to at most one block and parses back to itself (`exttree_node_fits_block`, `exttree_parse_encode_*`);
    as found, a leaf split under a FULL on-disk index node and a split whose halves exceed a block panic in
    toBytes (finding ext4-extent-node-overfull-panic, `cex_ext4_index_full_panic`, `cex_ext4_split_overfull_panic`).

    Along a whole history of calls (Proofs/Ext4ExtInv.lean, the code as it is now): on a tree that has the invariant
    `TreeInv` (root in the inode, every other node non-empty in a block of its own, fan-out of a block, keys = first
    file blocks, uniform depth, sorted) and an allocator that hands out free blocks, a call answers ok, `nospace`
    (only when the allocator failed) or one of the two refusals of fix f6794f8 - never a panic, `block number not
    found` or a write over another node -, keeps the invariant, and the tree's node blocks afterwards are the old
    ones plus exactly the `metaBlocks` blocks it took from the allocator, pairwise distinct
    (`exttree_extend_total`, `exttree_history_inv`).

  PARTIAL (stated in the manifest): the extent-tree mirror abstracts the device as nesting;
  writeDirectory's relocation, path walking, inode encoding and the htree directory format are not mirrored; the
  end-to-end clause of the property is checked by the engine's reference-tree oracle on sampled histories only.
-/
import DiskfsModel.Proofs.Ext4Bitmap
import DiskfsModel.Proofs.Ext4FileIO
import DiskfsModel.Proofs.Ext4FileWrite
import DiskfsModel.Proofs.Ext4FileSparse
import DiskfsModel.Proofs.Ext4DirPack
import DiskfsModel.Proofs.Ext4DirRewrite
import DiskfsModel.Proofs.Ext4DirCsum
import DiskfsModel.Proofs.Ext4Alloc
import DiskfsModel.Proofs.Ext4AllocSlow
import DiskfsModel.Proofs.Ext4ExtTree
import DiskfsModel.Proofs.Ext4ExtCodec
import DiskfsModel.Proofs.Ext4ExtShape
import DiskfsModel.Proofs.Ext4ExtInv
import DiskfsModel.Proofs.Ext4ExtInvDec
import DiskfsModel.Proofs.Ext4ExtAlloc
import DiskfsModel.Proofs.Ext4PathWalk
namespace Diskfs.Ext4.C04
open Diskfs.Ext4

/-! ### util/bitmap -/

theorem bitmap_set_get (bm : Bytes) (i : Nat) (h : i < 8 * bm.length) :
    ∃ bm', Bitmap.set bm i = .ok bm' ∧ bm'.length = bm.length ∧ Bitmap.bit bm' i = true ∧
      ∀ j, j ≠ i → Bitmap.bit bm' j = Bitmap.bit bm j :=
  Bitmap.bitmap_set_get bm i h

theorem bitmap_clear_get (bm : Bytes) (i : Nat) (h : i < 8 * bm.length) :
    ∃ bm', Bitmap.clear bm i = .ok bm' ∧ bm'.length = bm.length ∧ Bitmap.bit bm' i = false ∧
      ∀ j, j ≠ i → Bitmap.bit bm' j = Bitmap.bit bm j :=
  Bitmap.bitmap_clear_get bm i h

theorem bitmap_isSet_spec (bm : Bytes) (i : Nat) (h : i < 8 * bm.length) :
    Bitmap.isSet bm i = .ok (Bitmap.bit bm i) :=
  Bitmap.isSet_spec bm i h

/-- FirstFree: the least clear bit at or after `start`, or -1 when there is none -/
theorem bitmap_firstFree_spec (bm : Bytes) (start : Nat) :
    (Bitmap.firstFree bm start = -1 ∧ ∀ i, start ≤ i → i < 8 * bm.length → Bitmap.bit bm i = true) ∨
    (∃ n : Nat, Bitmap.firstFree bm start = n ∧ start ≤ n ∧ n < 8 * bm.length ∧ Bitmap.bit bm n = false ∧
      ∀ i, start ≤ i → i < n → Bitmap.bit bm i = true) :=
  Bitmap.firstFree_spec bm start

/-- FreeList: every run is clear and inside the bitmap, every clear bit lies in exactly one run, runs are
    sorted, separated and maximal — the runs partition the clear bits. -/
theorem bitmap_freeList_spec (bm : Bytes) :
    (∀ r ∈ Bitmap.freeList bm, 0 < r.2 ∧ r.1 + r.2 ≤ 8 * bm.length ∧
        ∀ i, r.1 ≤ i → i < r.1 + r.2 → Bitmap.bit bm i = false) ∧
    (∀ i, i < 8 * bm.length → Bitmap.bit bm i = false → ∃ r ∈ Bitmap.freeList bm, r.1 ≤ i ∧ i < r.1 + r.2) ∧
    (∀ i, ∀ r1 ∈ Bitmap.freeList bm, ∀ r2 ∈ Bitmap.freeList bm,
        r1.1 ≤ i → i < r1.1 + r1.2 → r2.1 ≤ i → i < r2.1 + r2.2 → r1 = r2) ∧
    (Bitmap.freeList bm).Pairwise (fun a b => a.1 + a.2 < b.1) ∧
    (∀ r ∈ Bitmap.freeList bm, (0 < r.1 → Bitmap.bit bm (r.1 - 1) = true) ∧
        (r.1 + r.2 < 8 * bm.length → Bitmap.bit bm (r.1 + r.2) = true)) :=
  Bitmap.freeList_spec bm

/-- the free counter an allocator derives from FreeList equals the number of clear bits -/
theorem bitmap_freeList_sum (bm : Bytes) :
    ((Bitmap.freeList bm).map (·.2)).sum = Bitmap.countFree bm (8 * bm.length) :=
  Bitmap.freeList_sum bm

/-! ### File.Read over the flat extent list -/

/-- readE_spec: with the repaired skip test, Read returns exactly the requested window of the byte string
    the extent list denotes (clipped to the file size), advances the offset by that much and reports EOF
    exactly at the end — for every device content, block size, contiguous extent list, size, offset, length. -/
theorem readE_spec (dev : Dev) (bs : Nat) (es : List Extent) (size off n : Nat)
    (hbs : 0 < bs) (hc : ExtentsCover bs es size) :
    ∃ r, readE false dev bs es size off n = .ok r ∧
      r.data = ((((fileBytes dev bs es).take size).drop off).take n) ∧
      r.off = off + r.data.length ∧
      (r.eof = true ↔ size ≤ off + r.data.length) := by
  obtain ⟨hcontig, hsize⟩ := hc
  have hFlen := fileBytes_length dev bs es
  unfold readE
  by_cases hge : off ≥ size
  · simp only [hge, if_true]
    refine ⟨_, rfl, ?_, by simp, by simp; omega⟩
    simp only
    rw [List.drop_of_length_le (by simp; omega)]
    simp
  · simp only [hge, if_false]
    generalize hw : (if off + n > size then size - off else n) = want
    have hwant : want = min n (size - off) := by
      rw [← hw]; split <;> omega
    obtain ⟨r, hr, hdata, hroff⟩ := readLoop_spec dev bs off want hbs es 0 off [] [] hcontig
      (by simp) (Nat.le_refl _) (Or.inl ⟨rfl, rfl⟩) (by simp) (by simp; omega)
    rw [hr]
    have hd : r.data = ((((fileBytes dev bs es).take size).drop off).take n) := by
      rw [hdata]
      simp only [List.nil_append, List.length_nil, Nat.sub_zero, Nat.zero_mul]
      rw [List.drop_take, List.take_take, hwant]
    have hlen : r.data.length = want := by
      rw [hdata]; simp; omega
    refine ⟨_, rfl, hd, ?_, ?_⟩
    · simp only [hroff, hlen]; simp
    · simp only [hroff, hlen]; simp

/-- readE_no_panic: reading a file whose extent list the library itself built never panics -/
theorem readE_no_panic (dev : Dev) (bs : Nat) (es : List Extent) (size off n : Nat)
    (hbs : 0 < bs) (hc : ExtentsCover bs es size) :
    readE false dev bs es size off n ≠ .panic := by
  obtain ⟨r, hr, _⟩ := readE_spec dev bs es size off n hbs hc
  rw [hr]; exact fun h => by cases h

/-- readE_sparse_spec: File.Read over an extent list WITH holes (fix ea015d2; images made by other tools have
    them): for every device content, block size, sorted extent list, file size, offset and length the bytes
    returned are the window of the denoted byte string — the extents' blocks, ZEROS for every hole between
    extents and behind the last extent up to the file size — the offset advances by it, EOF is reported exactly
    at the end, and there is no panic. `readE_spec` is the special case of a list without holes. -/
theorem readE_sparse_spec (dev : Dev) (bs : Nat) (es : List Extent) (size off n : Nat)
    (hbs : 0 < bs) (hs : Sorted 0 es) :
    ∃ r, readE false dev bs es size off n = .ok r ∧
      r.data = win (fileBytesS dev bs 0 es) off (min n (size - off)) ∧
      r.off = off + r.data.length ∧
      (r.eof = true ↔ size ≤ off + r.data.length) := by
  unfold readE
  by_cases hge : off ≥ size
  · simp only [hge, if_true]
    have : min n (size - off) = 0 := by omega
    exact ⟨_, rfl, by rw [this, win_zero], by simp, by simp; omega⟩
  · simp only [hge, if_false]
    generalize hw : (if off + n > size then size - off else n) = want
    have hwant : want = min n (size - off) := by rw [← hw]; split <;> omega
    obtain ⟨r, hr, hdata, hroff⟩ := readLoop_sparse dev bs off want hbs es 0 off [] [] hs (by simp) (Nat.le_refl _)
      (Or.inl ⟨rfl, rfl⟩) (by simp)
    rw [hr]
    have hd : r.data = win (fileBytesS dev bs 0 es) off (min n (size - off)) := by
      rw [hdata, ← hwant]; simp
    have hlen : r.data.length = want := by rw [hd, win_length, hwant]
    refine ⟨_, rfl, hd, ?_, ?_⟩
    · simp only [hroff, hlen]; simp
    · simp only [hroff, hlen]; simp

/-- the code as found: a 3000-byte file in two extents (blocks 0–1 and block 2), Read at offset 2500 panics -/
theorem cex_ext4_extent_skip_read :
    ExtentsCover 1024 [⟨0, 10, 2⟩, ⟨2, 20, 1⟩] 3000 ∧
    readE true (fun _ => 0) 1024 [⟨0, 10, 2⟩, ⟨2, 20, 1⟩] 3000 2500 10 = .panic ∧
    skipTrigger [⟨0, 10, 2⟩, ⟨2, 20, 1⟩] 1024 2500 = true := by
  refine ⟨⟨⟨rfl, by decide, rfl, by decide, trivial⟩, by decide⟩, by decide, by decide⟩

/-- the skip test as found: the third 1500-byte append to that file (offset 3000, block 2) panics in Write -/
theorem cex_ext4_extent_skip_write :
    writeE true false 1024 [⟨0, 10, 2⟩, ⟨2, 20, 1⟩] 3000 2600 [1, 2, 3] = .panic ∧
    writeE false false 1024 [⟨0, 10, 2⟩, ⟨2, 20, 1⟩] 3000 2600 [1, 2, 3] =
      .ok ⟨[(20 * 1024 + 552, [1, 2, 3])], 3, 2603, 3000⟩ := by
  refine ⟨by decide, by decide⟩

/-! ### File.Write over the flat extent list -/

/-- File.Write asks for more blocks exactly when the size after the write does not fit into the blocks the
    extent list already has (then the allocator, not this core, decides) -/
theorem writeE_needAlloc_iff (lt cum : Bool) (bs : Nat) (es : List Extent) (size off : Nat) (b : Bytes) (hbs : 0 < bs) :
    writeE lt cum bs es size off b = .needAlloc ↔ blockCount es * bs < max size (off + b.length) := by
  rw [writeE_eq]
  have hceil := ceil_le_iff (max size (off + b.length)) bs (blockCount es) hbs
  generalize max size (off + b.length) / bs + (if max size (off + b.length) % bs > 0 then 1 else 0) = cl at *
  by_cases hN : cl > blockCount es
  · simp only [hN, if_true, true_iff]; omega
  · simp only [hN, if_false]
    constructor
    · intro hh; split at hh <;> cases hh
    · intro hh; omega

/-- writeE_spec: with the repaired loop, for every device content, block size, contiguous and disk-disjoint extent
    list, file size, offset and buffer that fit into the allocated blocks, File.Write succeeds, reports the whole
    buffer written, advances the offset by it, sets the size to max(size, off+len), issues no write at a negative
    offset, and afterwards the byte string the extent list denotes is the old one with the buffer spliced in at
    `off` — while every device byte outside the file's extents is unchanged (frame). Nothing is zero-filled:
    bytes between the old end of file and `off` keep what the blocks held (finding ext4-hole-stale-bytes). -/
theorem writeE_spec (dev : Dev) (bs : Nat) (es : List Extent) (size off : Nat) (b : Bytes)
    (hbs : 0 < bs) (hc : Contig 0 es) (hd : DiskDisjoint es)
    (hsz : size ≤ blockCount es * bs) (hfit : off + b.length ≤ blockCount es * bs) :
    ∃ r, writeE false true bs es size off b = .ok r ∧
      r.written = b.length ∧ r.off = off + b.length ∧ r.size = max size (off + b.length) ∧
      (∀ w ∈ r.ws, 0 ≤ w.1) ∧
      fileBytes (applyWrs dev (toWrs r.ws)) bs es = splice (fileBytes dev bs es) off b ∧
      ∀ i, Outside bs es i → applyWrs dev (toWrs r.ws) i = dev i :=
  writeE_ok dev bs es size off b hbs hc hd hsz hfit

/-- write_then_read: after that Write, File.Read at any offset and length returns the window of the spliced byte
    string (clipped to the new size); in particular reading `len(b)` bytes at `off` returns exactly `b`. -/
theorem write_then_read (dev : Dev) (bs : Nat) (es : List Extent) (size off : Nat) (b : Bytes)
    (hbs : 0 < bs) (hc : Contig 0 es) (hd : DiskDisjoint es)
    (hsz : size ≤ blockCount es * bs) (hfit : off + b.length ≤ blockCount es * bs) :
    ∃ w, writeE false true bs es size off b = .ok w ∧
      (∀ off' n, ∃ r, readE false (applyWrs dev (toWrs w.ws)) bs es w.size off' n = .ok r ∧
        r.data = ((((splice (fileBytes dev bs es) off b).take w.size).drop off').take n)) ∧
      (∃ r, readE false (applyWrs dev (toWrs w.ws)) bs es w.size off b.length = .ok r ∧ r.data = b) := by
  obtain ⟨w, hw, _, _, hsize, _, hF, _⟩ := writeE_spec dev bs es size off b hbs hc hd hsz hfit
  have hcov : ExtentsCover bs es w.size := ⟨hc, by rw [hsize]; omega⟩
  have hFl := fileBytes_length dev bs es
  refine ⟨w, hw, ?_, ?_⟩
  · intro off' n
    obtain ⟨r, hr, hdata, _⟩ := readE_spec (applyWrs dev (toWrs w.ws)) bs es w.size off' n hbs hcov
    exact ⟨r, hr, by rw [hdata, hF]⟩
  · obtain ⟨r, hr, hdata, _⟩ := readE_spec (applyWrs dev (toWrs w.ws)) bs es w.size off b.length hbs hcov
    refine ⟨r, hr, ?_⟩
    rw [hdata, hF]
    exact splice_window _ off b w.size (by rw [hFl]; exact hfit) (by rw [hsize]; omega)

/-- writeZ_spec: the repaired File.Write as a whole (gap zero fill + the loop). For every device content, block
    size, contiguous and disk-disjoint extent list, size, offset and buffer that fit into the allocated blocks
    it succeeds, and the byte string the extent list denotes afterwards is the old one with ZEROS from the old
    end of file up to `off` (nothing when `off ≤ size`) and the buffer at `off`; every device byte outside the
    file's extents is unchanged. -/
theorem writeZ_spec (dev : Dev) (bs : Nat) (es : List Extent) (size off : Nat) (b : Bytes)
    (hbs : 0 < bs) (hc : Contig 0 es) (hd : DiskDisjoint es)
    (hsz : size ≤ blockCount es * bs) (hfit : off + b.length ≤ blockCount es * bs) :
    ∃ r, writeZ true false true bs es size off b = .ok r ∧
      r.written = b.length ∧ r.off = off + b.length ∧ r.size = max size (off + b.length) ∧
      (∀ w ∈ r.ws, 0 ≤ w.1) ∧
      fileBytes (applyWrs dev (toWrs r.ws)) bs es =
        splice (splice (fileBytes dev bs es) size (zeros (off - size))) off b ∧
      ∀ i, Outside bs es i → applyWrs dev (toWrs r.ws) i = dev i := by
  by_cases hgap : off > size
  · obtain ⟨ws0, hz, hnn0, hdev0⟩ := zeroFill_spec bs es off hbs hc hd (by omega) (off - size) size []
      (by omega) (Nat.le_refl _)
    obtain ⟨hF0, hfr0⟩ := hdev0 dev
    obtain ⟨r, hr, hw, ho, hs, hnn, hF, hfr⟩ :=
      writeE_ok (applyWrs dev (toWrs ws0)) bs es off off b hbs hc hd (by omega) hfit
    simp only [writeZ, hgap, decide_true, Bool.and_self, if_true, hz, List.nil_append, hr]
    refine ⟨_, rfl, hw, ho, by rw [hs]; omega, ?_, ?_, ?_⟩
    · intro w hw'
      rcases List.mem_append.1 hw' with h | h
      · exact hnn0 w h
      · exact hnn w h
    · simp only
      rw [applyWrs_toWrs_append, hF, hF0]
    · intro i hi
      simp only
      rw [applyWrs_toWrs_append, hfr i hi, hfr0 i hi]
  · obtain ⟨r, hr, hw, ho, hs, hnn, hF, hfr⟩ := writeE_ok dev bs es size off b hbs hc hd hsz hfit
    have hz : off - size = 0 := by omega
    simp only [writeZ, hgap, decide_false, Bool.and_false, Bool.false_eq_true, if_false, hz]
    exact ⟨r, hr, hw, ho, hs, hnn, by rw [hF]; simp [zeros, splice_nil], hfr⟩

/-- write_then_read for the repaired File.Write: whatever the blocks held, a Read of the gap returns zeros and a
    Read at `off` returns the buffer (both are windows of the spliced byte string, which every Read returns). -/
theorem writeZ_then_read (dev : Dev) (bs : Nat) (es : List Extent) (size off : Nat) (b : Bytes)
    (hbs : 0 < bs) (hc : Contig 0 es) (hd : DiskDisjoint es)
    (hsz : size ≤ blockCount es * bs) (hfit : off + b.length ≤ blockCount es * bs) :
    ∃ w, writeZ true false true bs es size off b = .ok w ∧
      (∀ off' n, ∃ r, readE false (applyWrs dev (toWrs w.ws)) bs es w.size off' n = .ok r ∧
        r.data = ((((splice (splice (fileBytes dev bs es) size (zeros (off - size))) off b).take w.size).drop off').take n)) ∧
      (∃ r, readE false (applyWrs dev (toWrs w.ws)) bs es w.size off b.length = .ok r ∧ r.data = b) ∧
      (∃ r, readE false (applyWrs dev (toWrs w.ws)) bs es w.size size (off - size) = .ok r ∧
        r.data = zeros (off - size)) := by
  obtain ⟨w, hw, _, _, hsize, _, hF, _⟩ := writeZ_spec dev bs es size off b hbs hc hd hsz hfit
  have hcov : ExtentsCover bs es w.size := ⟨hc, by rw [hsize]; omega⟩
  have hFl := fileBytes_length dev bs es
  have hZl : (splice (fileBytes dev bs es) size (zeros (off - size))).length = (fileBytes dev bs es).length :=
    splice_length _ _ _ (by rw [zeros_length, hFl]; omega)
  refine ⟨w, hw, ?_, ?_, ?_⟩
  · intro off' n
    obtain ⟨r, hr, hdata, _⟩ := readE_spec (applyWrs dev (toWrs w.ws)) bs es w.size off' n hbs hcov
    exact ⟨r, hr, by rw [hdata, hF]⟩
  · obtain ⟨r, hr, hdata, _⟩ := readE_spec (applyWrs dev (toWrs w.ws)) bs es w.size off b.length hbs hcov
    refine ⟨r, hr, ?_⟩
    rw [hdata, hF]
    exact splice_window _ off b w.size (by rw [hZl, hFl]; exact hfit) (by rw [hsize]; omega)
  · obtain ⟨r, hr, hdata, _⟩ := readE_spec (applyWrs dev (toWrs w.ws)) bs es w.size size (off - size) hbs hcov
    refine ⟨r, hr, ?_⟩
    rw [hdata, hF]
    by_cases hgap : off > size
    · rw [splice_window_before _ off b w.size size (off - size) (by rw [hZl, hFl]; omega) (by rw [hsize]; omega) (by omega)]
      have := splice_window (fileBytes dev bs es) size (zeros (off - size)) off
        (by rw [zeros_length, hFl]; omega) (by rw [zeros_length]; omega)
      rw [zeros_length] at this
      exact this
    · have hz : off - size = 0 := by omega
      simp [hz, zeros]

/-- the write loop as found: a 4-byte write that crosses from the first into the second extent of a three-extent
    file goes on to the third extent with an empty write at a negative device offset and fails, although every
    byte had been written (finding ext4-write-trailing-empty-writes); the repaired loop stops in time. -/
theorem cex_ext4_write_trailing :
    Contig 0 [⟨0, 5, 1⟩, ⟨1, 7, 2⟩, ⟨3, 1, 1⟩] ∧ DiskDisjoint [⟨0, 5, 1⟩, ⟨1, 7, 2⟩, ⟨3, 1, 1⟩] ∧
    trailTrigger [⟨0, 5, 1⟩, ⟨1, 7, 2⟩, ⟨3, 1, 1⟩] 4 2 4 = true ∧
    writeE false false 4 [⟨0, 5, 1⟩, ⟨1, 7, 2⟩, ⟨3, 1, 1⟩] 16 2 [1, 2, 3, 4] =
      .err ⟨[(22, [1, 2]), (28, [3, 4])], 4, 6, 16⟩ ∧
    writeE false true 4 [⟨0, 5, 1⟩, ⟨1, 7, 2⟩, ⟨3, 1, 1⟩] 16 2 [1, 2, 3, 4] =
      .ok ⟨[(22, [1, 2]), (28, [3, 4])], 4, 6, 16⟩ := by
  refine ⟨⟨rfl, by decide, rfl, by decide, rfl, by decide, trivial⟩, by simp [DiskDisjoint], by decide, by decide, by decide⟩

/-! ### allocation -/

/-- alloc_disjoint: the extent the first-fit fast path picks consists of blocks that were free, lies inside one
    group's bitmap and has exactly the requested length — so it is disjoint from every extent already marked. -/
theorem alloc_disjoint (groups : List Alloc.Bits) (n g pos : Nat) (hn : 0 < n)
    (h : Alloc.fastPick groups n = some (g, pos)) :
    ∃ bm, groups[g]? = some bm ∧ pos + n ≤ bm.length ∧ ∀ i, pos ≤ i → i < pos + n → bm[i]? = some false :=
  Alloc.fastPick_spec groups n g pos hn h

/-- alloc_spec: the whole block-allocation policy of allocateExtents — the fast path and, when no single run is
    large enough, the slow path over the groups' free lists cut into pieces and sorted by size — for EVERY order
    the (unstable) sort may leave the pieces in, every state of the block bitmaps and every request `n > 0`:
    every extent handed out lies inside one group's bitmap and consists of bits that were clear, no two extents
    share a block, together they have exactly `n` blocks (so they are accepted by the accounting machine:
    `runsOK`); and the policy gives up only when fewer than `n` blocks are free in all groups together, or when
    more than 65535 blocks are asked for in one call (the code's own limit). -/
theorem alloc_spec (order : Nat → List (Nat × Nat) → List (Nat × Nat))
    (horder : ∀ g l, (order g l).Perm l) (s : Alloc.Acc) (n : Nat) (hn : 0 < n) :
    (∀ rs, Alloc.allocPolicy order (s.groups.map (·.bbm)) n = some rs →
      (∀ r ∈ rs, ∃ g, s.groups[r.1]? = some g ∧ 0 < r.2.2 ∧ r.2.1 + r.2.2 ≤ g.bbm.length ∧
        ∀ i, r.2.1 ≤ i → i < r.2.1 + r.2.2 → g.bbm[i]? = some false) ∧
      rs.Pairwise (fun a c => a.1 ≠ c.1 ∨ a.2.1 + a.2.2 ≤ c.2.1 ∨ c.2.1 + c.2.2 ≤ a.2.1) ∧
      (rs.map (·.2.2)).sum = n ∧ Alloc.runsOK s rs = true) ∧
    (Alloc.allocPolicy order (s.groups.map (·.bbm)) n = none →
      Alloc.maxUint16 < n ∨ Alloc.totalFree (s.groups.map (·.bbm)) < n) := by
  obtain ⟨h1, h2⟩ := Alloc.allocPolicy_spec order horder s n hn
  refine ⟨fun rs h => ?_, h2⟩
  obtain ⟨g1, g2, g3, g4⟩ := h1 rs h
  refine ⟨fun r hr => ?_, g2, g3, g4⟩
  obtain ⟨g, hg, hpos, hbits⟩ := g1 r hr
  refine ⟨g, hg, hpos, ?_, hbits⟩
  -- the last bit of the extent exists
  have := hbits (r.2.1 + r.2.2 - 1) (by simp only at hpos ⊢; omega) (by simp only at hpos ⊢; omega)
  have hlt := (List.getElem?_eq_some_iff.1 this).1
  simp only at hpos hlt ⊢
  omega

/-- the order the correspondence runs the model with is one of them -/
theorem alloc_hintOrder_perm (hint : Nat → List Nat) (g : Nat) (l : List (Nat × Nat)) :
    (Alloc.hintOrder hint g l).Perm l := Alloc.hintOrder_perm hint g l

/-! ### directory blocks -/

theorem dirpack_parse (bs : Nat) (csum : Bool) (tail : Bytes → Bytes) (es : List DirPack.Entry)
    (hbs : DirPack.BsOK bs) (ht : DirPack.TailOK csum tail) (hes : es ≠ [])
    (hok : ∀ e ∈ es, DirPack.EntryParseOK e) :
    DirPack.parse bs csum tail (DirPack.pack bs csum tail es) = some es :=
  DirPack.dirpack_parse bs csum tail es hbs ht hes hok

/-- every block Directory.toBytes emits is tiled by its rec_len chain (and ends in the checksum tail) -/
theorem dirpack_blocks_tile (bs : Nat) (csum : Bool) (tail : Bytes → Bytes) (es : List DirPack.Entry)
    (hbs : DirPack.BsOK bs) (ht : DirPack.TailOK csum tail) (hes : es ≠ [])
    (hok : ∀ e ∈ es, DirPack.EntryOK e) :
    ∀ k, k < (DirPack.pack bs csum tail es).length / bs →
      ∃ rs, DirPack.recLens bs csum (((DirPack.pack bs csum tail es).drop (k * bs)).take bs) = some rs ∧
        rs.sum = DirPack.blockLimit bs csum ∧
        (∀ r ∈ rs, 12 ≤ r) ∧
        (bs % 4 = 0 → ∀ r ∈ rs, r % 4 = 0) ∧
        (csum = true →
          (((DirPack.pack bs csum tail es).drop (k * bs)).take bs).drop (bs - 12)
            = tail ((((DirPack.pack bs csum tail es).drop (k * bs)).take bs).take (bs - 12))) :=
  DirPack.pack_blocks_tile bs csum tail es hbs ht hes hok

theorem dirpack_length (bs : Nat) (csum : Bool) (tail : Bytes → Bytes) (es : List DirPack.Entry)
    (hbs : DirPack.BsOK bs) (ht : DirPack.TailOK csum tail) (hes : es ≠ [])
    (hok : ∀ e ∈ es, DirPack.EntryOK e) :
    (DirPack.pack bs csum tail es).length % bs = 0 :=
  DirPack.pack_length bs csum tail es hbs ht hes hok

/-- remove_dir_rewrite: Remove's write-back of the parent directory (repaired: blocks the re-packed entries no
    longer reach become empty directory blocks). For every block size, checksum setting, old directory contents
    of n blocks and every non-empty list of remaining entries that fits: the directory keeps its length, consists
    of what Directory.toBytes packs followed by empty blocks, and parseDirEntriesLinear reads back exactly the
    remaining entries followed by unused (inode 0) ones — so the entries a listing shows are the remaining ones. -/
theorem remove_dir_rewrite (bs : Nat) (csum : Bool) (tail : Bytes → Bytes) (old : Bytes) (n : Nat)
    (es : List DirPack.Entry) (hbs : DirPack.BsOK bs) (ht : DirPack.TailOK csum tail) (hes : es ≠ [])
    (hok : ∀ e ∈ es, DirPack.EntryParseOK e) (hino : ∀ e ∈ es, e.inode ≠ 0)
    (hold : old.length = n * bs) (hfit : (DirPack.pack bs csum tail es).length ≤ old.length) :
    (DirPack.rewriteDir true bs csum tail old es).length = old.length ∧
    ∃ k, DirPack.parse bs csum tail (DirPack.rewriteDir true bs csum tail old es) =
          some (es ++ List.replicate k DirPack.emp) ∧
      (es ++ List.replicate k DirPack.emp).filter (fun e => e.inode != 0) = es := by
  obtain ⟨k, _, hlen, hparse⟩ := DirPack.rewriteDir_spec bs csum tail old n es hbs ht hes hok hold hfit
  refine ⟨hlen, k, hparse, ?_⟩
  rw [List.filter_append]
  have h1 : es.filter (fun e => e.inode != 0) = es :=
    List.filter_eq_self.2 (fun e he => by simp [hino e he])
  have h2 : (List.replicate k DirPack.emp).filter (fun e => e.inode != 0) = [] :=
    List.filter_eq_nil_iff.2 (fun e he => by rw [(List.mem_replicate.1 he).2]; simp [DirPack.emp])
  rw [h1, h2, List.append_nil]

/-- remove_dir_rewrite_csum: the same for the bytes the library really writes when metadata_csum is on - the tail
    function is the real one, `dirTail seed ino gen` = inode 0 / rec_len 12 / type 0xDE / crc32c over the filesystem's
    checksum seed, the DIRECTORY's inode number, its generation and the block body (the correspondence compares
    these tails unmasked with the image, with seed / inode / generation decoded from the image by the engine): for
    every seed, inode number, generation, old content and list of remaining entries that fits, the write-back is what
    Directory.toBytes packs followed by k empty blocks, each of them one unused entry over `bs - 12` bytes and the
    checksum tail of exactly these bytes under the directory's own (inode, generation); it keeps the directory's
    length and parses back to the remaining entries followed by unused ones. -/
theorem remove_dir_rewrite_csum (bs seed ino gen : Nat) (old : Bytes) (n : Nat) (es : List DirPack.Entry)
    (hbs : DirPack.BsOK bs) (hes : es ≠ []) (hok : ∀ e ∈ es, DirPack.EntryParseOK e)
    (hold : old.length = n * bs) (hfit : (DirPack.pack bs true (DirPack.dirTail seed ino gen) es).length ≤ old.length) :
    ∃ k, DirPack.rewriteDir true bs true (DirPack.dirTail seed ino gen) old es =
        DirPack.pack bs true (DirPack.dirTail seed ino gen) es ++
          (List.replicate k (DirPack.encEntry DirPack.emp ((bs - 12) % 65536) ++
            DirPack.dirTail seed ino gen (DirPack.encEntry DirPack.emp ((bs - 12) % 65536)))).flatten ∧
      (DirPack.rewriteDir true bs true (DirPack.dirTail seed ino gen) old es).length = old.length ∧
      DirPack.parse bs true (DirPack.dirTail seed ino gen) (DirPack.rewriteDir true bs true (DirPack.dirTail seed ino gen) old es) =
        some (es ++ List.replicate k DirPack.emp) := by
  obtain ⟨k, h1, h2, h3⟩ := DirPack.rewriteDir_spec bs true (DirPack.dirTail seed ino gen) old n es hbs
    (DirPack.dirTail_ok true seed ino gen) hes hok hold hfit
  refine ⟨k, ?_, h2, h3⟩
  rw [h1, DirPack.emptyBlocks, DirPack.emptyBlock_csum]

/-- the real tail function is one the directory theorems cover -/
theorem dir_tail_ok (csum : Bool) (seed ino gen : Nat) : DirPack.TailOK csum (DirPack.dirTail seed ino gen) :=
  DirPack.dirTail_ok csum seed ino gen

/-- the write-back as found (32-byte blocks for brevity): a directory of two blocks [a b] [c]; after Remove of b
    the remaining entries fit one block, the second block keeps its old entry and c is listed twice (finding
    ext4-remove-stale-dir-block); with the padding the listing is [a c] and an unused entry -/
theorem cex_ext4_remove_stale_dir_block :
    let a : DirPack.Entry := ⟨12, [97, 97], 1⟩
    let b : DirPack.Entry := ⟨13, [98, 98], 1⟩
    let c : DirPack.Entry := ⟨14, [99, 99], 1⟩
    let old := DirPack.pack 32 false DirPack.exTail [a, b] ++ DirPack.pack 32 false DirPack.exTail [c]
    old.length = 64 ∧
    DirPack.parse 32 false DirPack.exTail (DirPack.rewriteDir false 32 false DirPack.exTail old [a, c]) = some [a, c, c] ∧
    DirPack.parse 32 false DirPack.exTail (DirPack.rewriteDir true 32 false DirPack.exTail old [a, c]) =
      some [a, c, DirPack.emp] := by
  decide

/-- the code as found: a 248-byte name is packed but cannot be parsed back (uint8 wrap of `8+nameLength`) -/
theorem cex_ext4_long_name :
    DirPack.EntryOK ⟨7, List.replicate 248 65, 1⟩ ∧
    DirPack.parse 1024 false DirPack.exTail
      (DirPack.pack 1024 false DirPack.exTail [⟨7, List.replicate 248 65, 1⟩]) = none :=
  DirPack.cex_dirent_namelen_wrap

/-! non-vacuity -/
/-- a fragmented group (free runs of 2, 1 and 3 blocks) and a request for 5 blocks: no run is large enough, the
    slow path walks the pieces (here in FreeList order, one of the orders covered) -/
example : Alloc.allocPolicy (fun _ l => l) [[true, false, false, true, false, true, false, false, false]] 5 =
    some [(0, 1, 2), (0, 4, 1), (0, 6, 2)] := by decide
example : Alloc.allocPolicy (fun _ l => l) [[true, false, false, true, false, true, false, false, false]] 7 = none := by
  decide
example : ExtentsCover 1024 [⟨0, 10, 2⟩, ⟨2, 20, 1⟩] 3000 :=
  ⟨⟨rfl, by decide, rfl, by decide, trivial⟩, by decide⟩
example : Contig 0 [⟨0, 10, 2⟩, ⟨2, 20, 1⟩] ∧ DiskDisjoint [⟨0, 10, 2⟩, ⟨2, 20, 1⟩] ∧
    3000 ≤ blockCount [⟨0, 10, 2⟩, ⟨2, 20, 1⟩] * 1024 ∧ 2600 + 3 ≤ blockCount [⟨0, 10, 2⟩, ⟨2, 20, 1⟩] * 1024 :=
  ⟨⟨rfl, by decide, rfl, by decide, trivial⟩, by simp [DiskDisjoint], by decide, by decide⟩
/-- a 2-block hole between two extents and one block behind the last one read as zeros -/
example : Sorted 0 [⟨0, 3, 1⟩, ⟨3, 7, 1⟩] ∧
    (readE false (fun i => UInt8.ofNat i) 2 [⟨0, 3, 1⟩, ⟨3, 7, 1⟩] 10 1 20) =
      .ok ⟨[7, 0, 0, 0, 0, 14, 15, 0, 0], [(7, 1), (14, 2)], 10, true⟩ := by
  refine ⟨⟨Nat.le_refl _, by decide, by decide, by decide, trivial⟩, by decide⟩
example : (readE false (fun i => UInt8.ofNat i) 4 [⟨0, 3, 1⟩, ⟨1, 7, 1⟩] 7 2 10) =
    .ok ⟨[14, 15, 28, 29, 30], [(14, 2), (28, 3)], 7, true⟩ := by decide

/-! ### the extent tree: extendExtentTree, blocks(), the node codec (Model/Ext4/ExtTree.lean) -/

/-- extendExtentTree only appends: for EVERY tree whose nodes are non-empty and whose pointer keys are the first
    file blocks of the nodes they point to (`wf`: what the library builds), every block size, allocator and list of
    added extents that lie behind the file's extents, whatever restructuring the call does (append to a leaf, move
    the root leaf into a block, leaf split under the root or under an index node in a block, the root's children
    moved into two index nodes and the tree one level deeper): when it succeeds, blocks() of the new tree is
    blocks() of the old one followed by the added extents - nothing lost, duplicated or reordered - and the file
    blocks stay strictly increasing. Both for the code as found and with the repair of
    ext4-extent-node-overfull-panic (`fx`). -/
theorem exttree_extend_appends {σ : Type} (fx : Bool) (A : ExtTree.Allocator σ) (s : σ) (bs : Nat) (t : ExtTree.Node)
    (added : List Extent) (t' : ExtTree.Node) (m : Nat) (s' : σ) (hw : ExtTree.wf t)
    (h : ExtTree.extend fx A s bs (some t) added = .ok (t', m, s'))
    (hs : ExtTree.SortedFB (ExtTree.flatten t ++ added)) :
    ExtTree.flatten t' = ExtTree.flatten t ++ added ∧ ExtTree.SortedFB (ExtTree.flatten t') :=
  ExtTree.extend_flatten_wf fx A s bs t added t' m s' hw h hs

/-- a depth-2 tree at a (toy) block size of 36 bytes - two entries per block node -: the index node in block 50 is
    full and so is its last leaf -/
def fullIndexTree : ExtTree.Node :=
  .index 4 0 2 [(0, .index 2 50 1 [(0, .leaf 2 51 [⟨0, 100, 1⟩, ⟨1, 101, 1⟩]), (2, .leaf 2 52 [⟨2, 102, 1⟩, ⟨3, 103, 1⟩])])]

/-- extendExtentTree keeps the shape of the tree (`okRoot`): the root in the inode has at most max entries, every
    node below it carries the fan-out of a block as max, `(blockSize - 12) / 12`, and at most that many entries, and
    every child of an index node is exactly one level below it (all leaves at the same depth) - for every tree of
    that shape, block size, allocator answer and added extents, when the call succeeds -/
theorem exttree_extend_shape {σ : Type} (fx : Bool) (A : ExtTree.Allocator σ) (s : σ) (bs : Nat) (t : ExtTree.Node)
    (added : List Extent) (t' : ExtTree.Node) (m : Nat) (s' : σ) (hr : ExtTree.okRoot bs t)
    (h : ExtTree.extend fx A s bs (some t) added = .ok (t', m, s')) : ExtTree.okRoot bs t' :=
  ExtTree.extend_shape fx A s bs t added t' m s' hr h

/-- non-vacuity of `okRoot` / `wf`: the depth-2 trees of the examples below have the shape -/
example : ExtTree.okRoot 36 fullIndexTree ∧ ExtTree.wf fullIndexTree := by
  simp [fullIndexTree, ExtTree.okRoot, ExtTree.okNode, ExtTree.okNode.okKids, ExtTree.nonRootMax, ExtTree.Node.depth,
    ExtTree.wf, ExtTree.wf.wfKids, ExtTree.Node.firstKey]

/-- createRootExtentTree: the first extents of a file become a leaf in the inode, no block is taken -/
theorem exttree_create_root {σ : Type} (fx : Bool) (A : ExtTree.Allocator σ) (s : σ) (bs : Nat) (added : List Extent)
    (t' : ExtTree.Node) (m : Nat) (s' : σ) (h : ExtTree.extend fx A s bs none added = .ok (t', m, s')) :
    ExtTree.flatten t' = added ∧ m = 0 :=
  ExtTree.extend_none_flatten fx A s bs added t' m s' h

/-- toBytes: a node is 12 + 12*max bytes, and with the fan-out the library gives a node that lives in a block
    (`(blockSize - 12) / 12`) that is at most one block -/
theorem exttree_node_fits_block (bs : Nat) (hbs : 12 ≤ bs) (es : List Extent) (depth : Nat) (ps : List (Nat × Nat)) :
    (∀ b, ExtTree.encLeaf (ExtTree.nonRootMax bs) es = some b → b.length ≤ bs) ∧
    (∀ b, ExtTree.encIndex (ExtTree.nonRootMax bs) depth ps = some b → b.length ≤ bs) :=
  ⟨fun b h => (ExtTree.encLeaf_length _ _ b h) ▸ ExtTree.nonRootMax_fits bs hbs,
   fun b h => (ExtTree.encIndex_length _ _ _ b h) ▸ ExtTree.nonRootMax_fits bs hbs⟩

/-- parseExtents (toBytes leaf) = leaf, for every leaf with at most max entries whose fields fit their on-disk
    widths (file block 32 bit, start block 48 bit, length 16 bit) -/
theorem exttree_parse_encode_leaf (max : Nat) (es : List Extent) (h1 : es.length ≤ max) (h2 : 1 ≤ max) (h3 : max < 65536)
    (hes : ∀ e ∈ es, ExtTree.ExtentOK e) :
    ∃ b, ExtTree.encLeaf max es = some b ∧ b.length = 12 + 12 * max ∧ ExtTree.parseNode b = .ok (.leaf max es) :=
  ExtTree.parse_encLeaf max es h1 h2 h3 hes

/-- parseExtents (toBytes index node) = the node's header and pointers -/
theorem exttree_parse_encode_index (max depth : Nat) (ps : List (Nat × Nat)) (h1 : ps.length ≤ max) (h2 : 1 ≤ max)
    (h3 : max < 65536) (hd : 1 ≤ depth) (hd' : depth < 65536) (hps : ∀ p ∈ ps, ExtTree.PtrOK p) :
    ∃ b, ExtTree.encIndex max depth ps = some b ∧ b.length = 12 + 12 * max ∧ ExtTree.parseNode b = .ok (.index max depth ps) :=
  ExtTree.parse_encIndex max depth ps h1 h2 h3 hd hd' hps

/-- finding ext4-extent-node-overfull-panic, trigger (a): the code as found panics when a leaf splits under a full
    index node that lives in a block (the tree and the added extent satisfy the hypotheses of
    `exttree_extend_appends`); the repaired code refuses the call -/
theorem cex_ext4_index_full_panic :
    ExtTree.wf fullIndexTree ∧
    (ExtTree.extend false ExtTree.bump 200 36 (some fullIndexTree) [⟨4, 104, 1⟩]).isPanic = true ∧
    (ExtTree.extend true ExtTree.bump 200 36 (some fullIndexTree) [⟨4, 104, 1⟩]).errOf = some .unsupported := by
  refine ⟨?_, by decide, by decide⟩
  simp [fullIndexTree, ExtTree.wf, ExtTree.wf.wfKids, ExtTree.Node.firstKey]

/-- trigger (b): seven extents for the two halves of a split leaf that hold two each -/
theorem cex_ext4_split_overfull_panic :
    (ExtTree.extend false ExtTree.bump 200 36 (some (.leaf 4 0 [⟨0, 100, 1⟩, ⟨1, 101, 1⟩, ⟨2, 102, 1⟩, ⟨3, 103, 1⟩]))
      [⟨4, 104, 1⟩, ⟨5, 105, 1⟩, ⟨6, 106, 1⟩]).isPanic = true ∧
    (ExtTree.extend true ExtTree.bump 200 36 (some (.leaf 4 0 [⟨0, 100, 1⟩, ⟨1, 101, 1⟩, ⟨2, 102, 1⟩, ⟨3, 103, 1⟩]))
      [⟨4, 104, 1⟩, ⟨5, 105, 1⟩, ⟨6, 106, 1⟩]).errOf = some .unsupported := by
  decide

/-- non-vacuity of `exttree_extend_appends`: a leaf split under an index node in a block that has room (block size
    48: three entries per node) succeeds and the extent list grows at the end -/
example :
    ((ExtTree.extend false ExtTree.bump 200 48
        (some (.index 4 0 2 [(0, .index 3 50 1 [(0, .leaf 3 51 [⟨0, 100, 1⟩, ⟨1, 101, 1⟩, ⟨2, 102, 1⟩])])]))
        [⟨3, 103, 1⟩]).toOption.map fun r => (ExtTree.flatten r.1, ExtTree.treeBlocks r.1, r.2.1)) =
      some ([⟨0, 100, 1⟩, ⟨1, 101, 1⟩, ⟨2, 102, 1⟩, ⟨3, 103, 1⟩], [50, 51, 200], 1) := by
  decide

/-- non-vacuity: the fifth leaf under the root in the inode moves the root's children into two index nodes -/
example :
    ((ExtTree.extend false ExtTree.bump 200 48
        (some (.index 4 0 1 [(0, .leaf 3 51 [⟨0, 100, 1⟩]), (1, .leaf 3 52 [⟨1, 101, 1⟩]), (2, .leaf 3 53 [⟨2, 102, 1⟩]),
          (3, .leaf 3 54 [⟨3, 103, 1⟩, ⟨4, 104, 1⟩, ⟨5, 105, 1⟩])]))
        [⟨6, 106, 1⟩]).toOption.map fun r => (ExtTree.flatten r.1, r.1.depth, ExtTree.treeBlocks r.1, r.2.1)) =
      some ([⟨0, 100, 1⟩, ⟨1, 101, 1⟩, ⟨2, 102, 1⟩, ⟨3, 103, 1⟩, ⟨4, 104, 1⟩, ⟨5, 105, 1⟩, ⟨6, 106, 1⟩], 2,
        [201, 51, 52, 202, 53, 54, 200], 3) := by
  decide

example : ExtTree.ExtentOK ⟨5, 1000000, 32768⟩ ∧ ExtTree.PtrOK (7, 123456789) := by
  unfold ExtTree.ExtentOK ExtTree.PtrOK; decide

/-! ### the extent tree along a history of extendExtentTree calls (Proofs/Ext4ExtInv.lean) -/

/-- exttree_extend_total: ONE call of extendExtentTree (the code as it is now) on a tree that has the invariant
    `StateInv` - the root in the inode with at most 4 entries; every node below it non-empty, with the fan-out of a
    block, in a block whose number is not 0, all node blocks pairwise distinct and none of them free; pointer keys =
    first file blocks; uniform depth; file blocks strictly increasing - with ANY allocator that hands out blocks
    that were free (`AllocOK`), any block size of 48 bytes or more, and any non-empty list of added extents behind
    the file's extents. The call answers
      * ok - and then the new tree has the invariant again (so the next call meets the same hypotheses), denotes the
        old extents followed by the added ones, and its node blocks are the old node blocks plus `taken`: exactly
        `metaBlocks` blocks, pairwise distinct, free before the call and not free after it, while no other block
        changed its state (no node is written over another node or over a block somebody else owns);
      * `nospace` - only when some allocateExtents call failed;
      * `unsupported` - only in the two refusals of fix f6794f8 (`refusesTop`: the last leaf is full and either its
        parent index node lives in a block and is full, or the extents do not fit two leaves);
    and NEVER panics, reports `block number not found`, or takes a lookup by key / block number to another node
    than the one it descended into (`weird`). -/
theorem exttree_extend_total {σ : Type} (A : ExtTree.Allocator σ) (free : σ → Nat → Bool) (hA : ExtTree.AllocOK A free)
    (bs : Nat) (h3 : 3 ≤ ExtTree.nonRootMax bs) (s : σ) (t : ExtTree.Node) (a0 : Extent) (rest : List Extent)
    (hI : ExtTree.StateInv free bs s t) (hs : ExtTree.SortedFB (ExtTree.flatten t ++ a0 :: rest)) :
    match ExtTree.extend true A s bs (some t) (a0 :: rest) with
    | .ok (t', m, s') =>
      ExtTree.StateInv free bs s' t' ∧ ExtTree.flatten t' = ExtTree.flatten t ++ a0 :: rest ∧
        ∃ taken, taken.length = m ∧ ExtTree.Took free s s' taken ∧
          (ExtTree.treeBlocks t').Perm (ExtTree.treeBlocks t ++ taken)
    | .err .nospace => ∃ s0 n, A.take s0 n = none
    | .err .unsupported => ExtTree.refusesTop bs (rest.length + 1) t
    | _ => False :=
  ExtTree.extend_good A free hA bs h3 s t a0 rest hI hs

/-- exttree_history_inv: the invariant theorem over a whole history. A file starts with no tree (or any tree that
    has the invariant) and extendExtentTree is called once per allocation with a non-empty list of extents, all of
    them in increasing file-block order behind what the file has. For EVERY such list of calls, allocator with the
    laws `AllocOK` and block size: the history never panics / loses a node / writes over another node; it stops only
    at a call the allocator could not serve or at a refusal; and when all calls succeed the final tree has the
    invariant, denotes exactly the extents of all calls in order, and the sum of the metaBlocks the calls reported
    (what File.Write adds to i_blocks) is the number of blocks taken from the allocator over the whole history -
    which are exactly the node blocks the final tree has more than the first one, pairwise distinct. -/
theorem exttree_history_inv {σ : Type} (A : ExtTree.Allocator σ) (free : σ → Nat → Bool) (hA : ExtTree.AllocOK A free)
    (bs : Nat) (h3 : 3 ≤ ExtTree.nonRootMax bs) (calls : List (List Extent)) (hne : ∀ c ∈ calls, c ≠ [])
    (s : σ) (t : Option ExtTree.Node) (hI : ExtTree.OInv free bs s t)
    (hs : ExtTree.SortedFB (ExtTree.oflat t ++ calls.flatten)) :
    match ExtTree.runExtends A bs s t calls with
    | .ok (s', t', M) =>
      ExtTree.OInv free bs s' t' ∧ ExtTree.oflat t' = ExtTree.oflat t ++ calls.flatten ∧
        ∃ taken, taken.length = M ∧ ExtTree.Took free s s' taken ∧
          (ExtTree.oblocks t').Perm (ExtTree.oblocks t ++ taken)
    | .err .nospace => ∃ s0 n, A.take s0 n = none
    | .err .unsupported => True
    | _ => False :=
  ExtTree.runExtends_good A free hA bs h3 calls hne s t hI hs

/-- exttree_inv_decided: the checker the driver runs on every tree the correspondence reads from the device (op
    `ext4tree.inv`: the real trees after every compared extendExtentTree step and deeptree round, and damaged copies)
    decides exactly the invariant `TreeInv` of the two theorems above -/
theorem exttree_inv_decided (bs : Nat) (t : ExtTree.Node) : ExtTree.treeInvB bs t = true ↔ ExtTree.TreeInv bs t :=
  ExtTree.treeInvB_iff bs t

/-- exttree_bmalloc_ok: the allocator the correspondence runs the tree mirror with - allocateExtents' fast path over
    the block bitmaps, refused when the superblock counts too few free blocks (`bmAlloc`, compared with the real
    allocateExtents answers on every step of the extent-tree sequences and deeptree histories) - has the laws
    `AllocOK` for every first data block and group size, with `free` = `the block lies in a group and its bit is
    clear`: so `exttree_extend_total` / `exttree_history_inv` hold for histories driven by it -/
theorem exttree_bmalloc_ok (fdb bpg : Nat) : ExtTree.AllocOK (ExtTree.bmAlloc fdb bpg) (ExtTree.bmFree fdb bpg) :=
  ExtTree.bmAlloc_ok fdb bpg

/-- non-vacuity: the bump allocator of the examples satisfies `AllocOK`; the depth-2 tree of the example above has
    the invariant with it; and a history of nine one-extent calls from no tree at all (block size 48: three entries
    per block node) runs through the root leaf, its split into two leaves in blocks, leaf splits under the root - four node
    blocks taken, four reported -/
example : ExtTree.AllocOK ExtTree.bump (fun s x => decide (s ≤ x)) := ExtTree.bump_ok
example : ExtTree.StateInv (fun s x => decide (s ≤ x)) 48 200
    (.index 4 0 2 [(0, .index 3 50 1 [(0, .leaf 3 51 [⟨0, 100, 1⟩, ⟨1, 101, 1⟩, ⟨2, 102, 1⟩])])]) := by
  refine ⟨⟨?_, ?_, ?_⟩, by decide, ?_⟩
  · simp [ExtTree.goodRoot, ExtTree.good, ExtTree.good.goodKids, ExtTree.nonRootMax, ExtTree.Node.depth, ExtTree.Node.firstKey]
  · simp [ExtTree.flatten, ExtTree.flattenKids, ExtTree.SortedFB]
  · simp [ExtTree.treeBlocks, ExtTree.treeBlocksKids, ExtTree.Node.disk]
  · simp [ExtTree.treeBlocks, ExtTree.treeBlocksKids, ExtTree.Node.disk]
example : ExtTree.OInv (fun s x => decide (s ≤ x)) 48 200 none := by simp [ExtTree.OInv]
example :
    ((ExtTree.runExtends ExtTree.bump 48 200 none
        ((List.range 9).map fun i => [⟨i, 100 + i, 1⟩])).toOption.map fun r =>
          (r.1, (ExtTree.oflat r.2.1).map (·.fileBlock), ExtTree.oblocks r.2.1, r.2.2)) =
      some (204, [0, 1, 2, 3, 4, 5, 6, 7, 8], [200, 201, 202, 203], 4) := by
  decide

/-! ### path walking (Model/Ext4/PathWalk.lean: readDirWithMkdir without creation, getEntryAndParent, splitPath) -/

/-- pathwalk_reaches_spec: for every directory structure on disk that represents a tree - the entries of every
    directory are ".", ".." and its children - and every list of components none of which is "." or "..", the
    component-by-component walk of the library (first entry with the name, stop at anything that is not a directory:
    symlinks are not followed) ends in a directory exactly when the plain tree lookup does, and then in that very
    directory with its on-disk entries; in every other case it reports an error -/
theorem pathwalk_reaches_spec (dirs : PathWalk.Dirs) (cs : List Bytes) (p ino : Nat) (kids : List (Bytes × PathWalk.Tree))
    (i : Nat) (hrep : PathWalk.Represents dirs p (.dir ino kids)) (hv : ∀ c ∈ cs, PathWalk.validComp c) :
    (PathWalk.walk dirs ino (PathWalk.dots ino p ++ PathWalk.entriesOf kids) cs i).isDir? =
      PathWalk.reached (PathWalk.walkSpec p (.dir ino kids) cs) ∧
    (PathWalk.walkSpec p (.dir ino kids) cs).map (·.2) = PathWalk.specLookup (.dir ino kids) cs :=
  ⟨PathWalk.walk_spec dirs cs p ino kids i hrep hv, PathWalk.walkSpec_specLookup cs p (.dir ino kids)⟩

/-- pathwalk_lookup_spec: getEntryAndParent against the plain tree, from the root (inode 2): it returns the entry
    (name, inode number, type) of exactly the child the tree has under `base` in the directory the parent
    components lead to; `absent` (entry nil) exactly when that directory has no such child; and the error exactly
    when the tree lookup of the parent components does not end in a directory (a component is missing, or is a file
    or a symlink) -/
theorem pathwalk_lookup_spec (dirs : PathWalk.Dirs) (kids : List (Bytes × PathWalk.Tree)) (parent : List Bytes) (base : Bytes)
    (hrep : PathWalk.Represents dirs 2 (.dir 2 kids)) (hv : ∀ c ∈ parent, PathWalk.validComp c)
    (hb : PathWalk.validComp base) :
    PathWalk.lookup dirs parent base =
      match PathWalk.specLookup (.dir 2 kids) parent with
      | some (.dir _ ks) =>
        (match ks.find? (fun k => k.1 == base) with
          | some k => .entry (PathWalk.entryOf k)
          | none => .absent)
      | _ => .noParent :=
  PathWalk.lookup_spec dirs kids parent base hrep hv hb

/-- non-vacuity: a root with a directory `a` (inode 12) holding a file `f` (13) and a symlink `l` (14): the table of
    directories represents the tree; "a/f" is found, "a/x" is absent, "a/l/f" has no parent (links are not followed);
    and splitPath drops empty parts -/
def pwDirs : PathWalk.Dirs := fun i =>
  if i = 2 then some [⟨[46], 2, 2⟩, ⟨[46, 46], 2, 2⟩, ⟨[97], 12, 2⟩]
  else if i = 12 then some [⟨[46], 12, 2⟩, ⟨[46, 46], 2, 2⟩, ⟨[102], 13, 1⟩, ⟨[108], 14, 7⟩]
  else none
example : PathWalk.Represents pwDirs 2 (.dir 2 [([97], .dir 12 [([102], .file 13), ([108], .link 14)])]) := by
  simp [PathWalk.Represents, PathWalk.Represents.repKids, pwDirs, PathWalk.dots, PathWalk.entriesOf, PathWalk.entryOf,
    PathWalk.Tree.ino, PathWalk.Tree.ftype]
example : PathWalk.lookup pwDirs [[97]] [102] = .entry ⟨[102], 13, 1⟩ ∧ PathWalk.lookup pwDirs [[97]] [120] = .absent ∧
    PathWalk.lookup pwDirs [[97], [108]] [102] = .noParent ∧
    PathWalk.splitPath [97, 47, 47, 102] = [[97], [102]] := by decide

end Diskfs.Ext4.C04
