/-
  CopyFileSystem against a destination whose calls may fail or take only part of a slice
  (sync/copy.go: the `if err != nil { return … }` after Mkdir / OpenFile / Write / Symlink, the
  ignored error of Chtimes, `n != len(data)` → io.ErrShortWrite on the whole-file path, and the
  `for written < n` retry loop with `w == 0` → io.ErrShortWrite on the streaming path).

  A `Plan` gives the outcome of the i-th destination call, in issue order.  `copyDirF` threads the
  call counter through the same recursion as `copyDir` (Model/Sync.lean) and returns
    * `log`  — the calls issued, with their outcomes (what a recording filesystem sees),
    * `eff`  — their effect on a tree-like destination: calls that did not fail, a `Write` carrying
               only the bytes that were taken,
    * `ok`   — CopyFileSystem returned nil,
    * `next` — the counter.
  A `Write` that reports more bytes than it was given violates io.Writer and is not modelled
  (`short w` with `w ≥ len` counts as the whole slice).  Core Lean only.
-/
import DiskfsModel.Model.Sync
namespace Diskfs.Sync

/-- what a destination call returns -/
inductive Outcome where
  | ok                 -- nil error; a Write takes the whole slice
  | fail               -- a non-nil error
  | short (n : Nat)    -- Write only: n bytes taken, nil error.  On other calls: like `ok`
deriving Repr, DecidableEq

abbrev Plan := Nat → Outcome

structure FRun where
  log : List (DstOp × Outcome)
  eff : List DstOp
  ok : Bool
  next : Nat
deriving Repr

def FRun.done (i : Nat) : FRun := ⟨[], [], true, i⟩

/-- `a; if err != nil { return err }; b` -/
def FRun.seq (a : FRun) (b : Nat → FRun) : FRun :=
  if a.ok then
    let r := b a.next
    ⟨a.log ++ r.log, a.eff ++ r.eff, r.ok, r.next⟩
  else a

/-- a call whose error is returned (Mkdir, OpenFile, Symlink) -/
def callF (plan : Plan) (op : DstOp) (i : Nat) : FRun :=
  match plan i with
  | .fail => ⟨[(op, .fail)], [], false, i + 1⟩
  | o => ⟨[(op, o)], [op], true, i + 1⟩

/-- Chtimes: "best effort", its error is dropped -/
def chtimesF (plan : Plan) (p : Path) (i : Nat) : FRun := ⟨[(.chtimes p, plan i)], [.chtimes p], true, i + 1⟩

/-- whole-file path: one Write of everything; `n != len(data)` is io.ErrShortWrite -/
def wholeWriteF (plan : Plan) (p : Path) (data : Bytes) (i : Nat) : FRun :=
  match plan i with
  | .ok => ⟨[(.write p data, .ok)], [.write p data], true, i + 1⟩
  | .fail => ⟨[(.write p data, .fail)], [], false, i + 1⟩
  | .short n =>
    if data.length ≤ n then ⟨[(.write p data, .short n)], [.write p data], true, i + 1⟩
    else ⟨[(.write p data, .short n)], [.write p (data.take n)], false, i + 1⟩

/-- streaming path, one buffer: `for written < n { w, werr := out.Write(buf[written:n]) … }` -/
def writeChunkF (plan : Plan) (p : Path) : Nat → Bytes → Nat → FRun
  | 0, _, i => ⟨[], [], false, i⟩
  | fuel + 1, rem, i =>
    if rem.isEmpty then FRun.done i
    else
      match plan i with
      | .fail => ⟨[(.write p rem, .fail)], [], false, i + 1⟩
      | .ok => ⟨[(.write p rem, .ok)], [.write p rem], true, i + 1⟩
      | .short w =>
        if w = 0 then ⟨[(.write p rem, .short 0)], [], false, i + 1⟩
        else
          let r := writeChunkF plan p fuel (rem.drop w) (i + 1)
          ⟨(.write p rem, .short w) :: r.log, .write p (rem.take w) :: r.eff, r.ok, r.next⟩

/-- streaming path: the buffers the source reader delivers, one after the other -/
def streamF (plan : Plan) (p : Path) : List Bytes → Nat → FRun
  | [], i => FRun.done i
  | ch :: rest, i => (writeChunkF plan p (ch.length + 1) ch i).seq (streamF plan p rest)

/-- copyOneFile -/
def fileRunF (c : Cfg) (src : ReaderBehaviour) (plan : Plan) (p : Path) (data : Bytes) (i : Nat) : FRun :=
  (callF plan (.openTrunc p) i).seq fun j =>
    (if data.length ≤ c.maxAll then wholeWriteF plan p data j
     else streamF plan p (readChunks src c.chunk (data.length + 1) data 0) j).seq fun k =>
      chtimesF plan p k

/-- copyDir with the call counter threaded through -/
def copyDirF (c : Cfg) (src : ReaderBehaviour) (readlink : Bool) (plan : Plan) (pre : Path) : Forest → Nat → FRun
  | .nil, i => FRun.done i
  | .file n d r, i =>
    if c.excluded.contains n then copyDirF c src readlink plan pre r i
    else (fileRunF c src plan (pre ++ [n]) d i).seq (copyDirF c src readlink plan pre r)
  | .dir n s r, i =>
    if c.excluded.contains n then copyDirF c src readlink plan pre r i
    else
      ((callF plan (.mkdir (pre ++ [n])) i).seq (copyDirF c src readlink plan (pre ++ [n]) s)).seq
        (copyDirF c src readlink plan pre r)
  | .link n t r, i =>
    if c.excluded.contains n then copyDirF c src readlink plan pre r i
    else if readlink then (callF plan (.symlink (pre ++ [n]) t) i).seq (copyDirF c src readlink plan pre r)
    else ⟨[], [], false, i⟩
  | .other _ r, i => copyDirF c src readlink plan pre r i

def copyRunF (c : Cfg) (src : ReaderBehaviour) (readlink : Bool) (plan : Plan) (t : Forest) : FRun :=
  copyDirF c src readlink plan [] t 0

/-- the outcome made CopyFileSystem stop with an error: any failing call except Chtimes, and a Write
    that took nothing of a non-empty slice (io.ErrShortWrite on either path) -/
def fatal : DstOp × Outcome → Bool
  | (.chtimes _, _) => false
  | (_, .fail) => true
  | (.write _ d, .short 0) => !d.isEmpty
  | _ => false

/-- the plan the engine uses: call `k` has outcome `o`, every other call succeeds -/
def planAt (k : Nat) (o : Outcome) : Plan := fun i => if i = k then o else .ok

/-- every Write takes at most `caps[j mod |caps|]` bytes (at least one), j counting all calls -/
def planCaps (caps : List Nat) : Plan := fun i =>
  if caps.isEmpty then .ok else .short (max 1 (caps.getD (i % caps.length) 1))

/-- sizes-only version of the streaming path (the driver never materialises the > 64 MiB file):
    sizes offered to Write, in order, and success -/
def writeChunkLensF (plan : Plan) : Nat → Nat → Nat → List Nat × Bool × Nat
  | 0, _, i => ([], false, i)
  | fuel + 1, rem, i =>
    if rem = 0 then ([], true, i)
    else
      match plan i with
      | .fail => ([rem], false, i + 1)
      | .ok => ([rem], true, i + 1)
      | .short w =>
        if w = 0 then ([rem], false, i + 1)
        else
          let r := writeChunkLensF plan fuel (rem - w) (i + 1)
          (rem :: r.1, r.2.1, r.2.2)

def streamLensF (plan : Plan) : List Nat → Nat → List Nat × Bool × Nat
  | [], i => ([], true, i)
  | ch :: rest, i =>
    let a := writeChunkLensF plan (ch + 1) ch i
    if a.2.1 then
      let r := streamLensF plan rest a.2.2
      (a.1 ++ r.1, r.2.1, r.2.2)
    else a

end Diskfs.Sync
