/-
  Mirror of sync/copy.go (CopyFileSystem, copyDir, copyOneFile, handleSymlink) and
  sync/verify.go (CompareFS, compareFileContents).

  * The source / the two compared filesystems are tree specs (`Forest`); paths are lists of
    names (Go: `path.Join(dir, name)` is `pre ++ [name]`, `path.Base(p)` is the last name, the
    root "." is `[]`).
  * `CopyFileSystem` is an op-sequence generator: `copyOps` returns the calls made on the
    destination `filesystem.FileSystem`, in order, and whether the copy reported success.
  * The destination is specified as a flat path → item store (`Store`) with the usual
    preconditions (parent must be a directory, Mkdir/Symlink need a free name,
    O_CREATE|O_TRUNC creates or empties a regular file, Write appends at the handle's offset,
    which after O_TRUNC and sequential writes is the end).
  * `compareFS` mirrors the two `fs.WalkDir` passes; `fs.WalkDir` is modelled by its visiting
    order (pre-order, entries in `ReadDir` order, an excluded directory answers `SkipDir`, so
    nothing below it is visited) and by stopping at the first error.
  * A file handle is a `ReaderBehaviour`: it decides how many bytes each `Read` returns (any
    number between 1 and what fits) and whether `io.EOF` accompanies the last bytes or comes
    with the next call.  Zero-byte non-EOF reads and read errors are not modelled.
  * All parameters (excluded names, 64 MiB threshold, 32 KiB buffers) come from `Cfg`; the
    driver and the theorems instantiate it with the regenerated facts.
-/
import DiskfsModel.Spec.SyncTree
namespace Diskfs.Sync

structure Cfg where
  excluded : List String   -- excludedPaths keys
  maxAll : Nat             -- maxCopyAllSize
  chunk : Nat              -- streaming buffer in copyOneFile
  cmpBuf : Nat             -- bufSize in compareFileContents
deriving Repr

/-- what the theorems need of the parameters -/
def Cfg.wf (c : Cfg) : Bool := decide (0 < c.chunk) && decide (0 < c.cmpBuf) && !c.excluded.contains "."

/-- the flags copyOneFile opens the destination file with (pinned by facts_agree_open_flags) -/
def openFlags : List String := ["O_CREATE", "O_RDWR", "O_TRUNC"]

/-! ### readers -/

structure ReaderBehaviour where
  /-- how many bytes the handle would like to return for this `Read` (call number `call`, `remaining` bytes left) -/
  want : (remaining call : Nat) → Nat
  /-- `io.EOF` is returned together with the last bytes (otherwise by the following call) -/
  eofWithData : Bool

/-- bytes returned by a `Read` into a buffer of `buf` bytes: at least one, at most what fits and what is left -/
def ReaderBehaviour.count (r : ReaderBehaviour) (buf remaining call : Nat) : Nat :=
  min (max 1 (r.want remaining call)) (min buf remaining)

/-- every `Read` fills the buffer as far as the file allows (what C10 establishes for the real handles) -/
def FullReads (r : ReaderBehaviour) (buf : Nat) : Prop :=
  ∀ remaining call, r.count buf remaining call = min buf remaining

def fullReader (eofWith : Bool := false) : ReaderBehaviour := ⟨fun rem _ => rem, eofWith⟩

/-- a reader that returns at most `caps[call mod |caps|]` bytes per call (the harness's chunkFS) -/
def cycleReader (caps : List Nat) (eofWith : Bool) : ReaderBehaviour :=
  ⟨fun rem call => if caps.isEmpty then rem else caps.getD (call % caps.length) 1, eofWith⟩

/-- one `Read`: (bytes returned, bytes left, EOF reported by this call) -/
def readStep (r : ReaderBehaviour) (buf : Nat) (data : Bytes) (call : Nat) : Bytes × Bytes × Bool :=
  if data.isEmpty then ([], [], true)
  else
    let n := r.count buf data.length call
    (data.take n, data.drop n, r.eofWithData && decide (data.length ≤ n))

/-- the non-empty chunks successive reads deliver until EOF -/
def readChunks (r : ReaderBehaviour) (buf : Nat) : Nat → Bytes → Nat → List Bytes
  | 0, _, _ => []
  | fuel + 1, data, call =>
    if data.isEmpty then []
    else
      let n := r.count buf data.length call
      data.take n :: readChunks r buf fuel (data.drop n) (call + 1)

/-- the sizes of those chunks, computed on sizes alone (the driver uses this for the > 64 MiB file,
    whose content it never materialises; `readChunks_lengths` ties the two) -/
def chunkLens (r : ReaderBehaviour) (buf : Nat) : Nat → Nat → Nat → List Nat
  | 0, _, _ => []
  | fuel + 1, rem, call =>
    if rem = 0 then []
    else
      let n := r.count buf rem call
      n :: chunkLens r buf fuel (rem - n) (call + 1)

/-- sizes of the writes copyOneFile makes for a file of `size` bytes -/
def fileWriteLens (c : Cfg) (src : ReaderBehaviour) (size : Nat) : List Nat :=
  if size ≤ c.maxAll then [size] else chunkLens src c.chunk (size + 1) size 0

/-! ### CopyFileSystem as an op-sequence generator -/

inductive DstOp where
  | mkdir (p : Path)                     -- dst.Mkdir(p)
  | openTrunc (p : Path)                 -- dst.OpenFile(p, O_CREATE|O_TRUNC|O_RDWR)
  | write (p : Path) (data : Bytes)      -- out.Write(data) on the handle just opened for p
  | chtimes (p : Path)                   -- dst.Chtimes(p, …); its error is ignored
  | symlink (p : Path) (target : String) -- dst.Symlink(target, p)
deriving Repr, DecidableEq

/-- the writes of copyOneFile: the whole content at once up to `maxAll` bytes (also for an empty
    file: `Write` of zero bytes), else one write per chunk the source reader delivers. -/
def fileWrites (c : Cfg) (src : ReaderBehaviour) (data : Bytes) : List Bytes :=
  if data.length ≤ c.maxAll then [data] else readChunks src c.chunk (data.length + 1) data 0

def fileOps (c : Cfg) (src : ReaderBehaviour) (p : Path) (data : Bytes) : List DstOp :=
  .openTrunc p :: ((fileWrites c src data).map (.write p) ++ [.chtimes p])

/-- copyDir: ops issued for the entries of the directory at `pre`, and success.
    `readlink`: the source implements `ReadLink`. -/
def copyDir (c : Cfg) (src : ReaderBehaviour) (readlink : Bool) (pre : Path) : Forest → List DstOp × Bool
  | .nil => ([], true)
  | .file n d r =>
    if c.excluded.contains n then copyDir c src readlink pre r
    else
      let rest := copyDir c src readlink pre r
      (fileOps c src (pre ++ [n]) d ++ rest.1, rest.2)
  | .dir n s r =>
    if c.excluded.contains n then copyDir c src readlink pre r
    else
      let sub := copyDir c src readlink (pre ++ [n]) s
      if sub.2 then
        let rest := copyDir c src readlink pre r
        (.mkdir (pre ++ [n]) :: (sub.1 ++ rest.1), rest.2)
      else (.mkdir (pre ++ [n]) :: sub.1, false)
  | .link n t r =>
    if c.excluded.contains n then copyDir c src readlink pre r
    else if readlink then
      let rest := copyDir c src readlink pre r
      (.symlink (pre ++ [n]) t :: rest.1, rest.2)
    else ([], false)
  | .other _ r => copyDir c src readlink pre r     -- excluded or not: skipped

def copyOps (c : Cfg) (src : ReaderBehaviour) (readlink : Bool) (t : Forest) : List DstOp × Bool :=
  copyDir c src readlink [] t

/-! ### the destination as a flat store -/

abbrev Store := List (Path × Item)

def Store.get : Store → Path → Option Item
  | [], _ => none
  | (q, it) :: r, p => if q = p then some it else Store.get r p

/-- what path `p` denotes in the store; the root always exists -/
def Store.item (s : Store) (p : Path) : Option Item := if p = [] then some .dir else s.get p

def Store.set (s : Store) (p : Path) (it : Item) : Store :=
  s.map fun e => if e.1 = p then (p, it) else e

def Store.parentIsDir (s : Store) (p : Path) : Bool := p ≠ [] && s.item p.dropLast == some .dir

def applyOp (s : Store) : DstOp → Option Store
  | .mkdir p => if s.parentIsDir p && s.get p == none then some (s ++ [(p, .dir)]) else none
  | .symlink p t => if s.parentIsDir p && s.get p == none then some (s ++ [(p, .link t)]) else none
  | .openTrunc p =>
    if s.parentIsDir p then
      match s.get p with
      | none => some (s ++ [(p, .file [])])
      | some (.file _) => some (s.set p (.file []))
      | some _ => none
    else none
  | .write p d =>
    match s.get p with
    | some (.file old) => some (s.set p (.file (old ++ d)))
    | _ => none
  | .chtimes _ => some s

def applyOps : List DstOp → Store → Option Store
  | [], s => some s
  | op :: ops, s => match applyOp s op with
    | some s' => applyOps ops s'
    | none => none

/-! ### CompareFS -/

inductive CmpResult where
  | ok
  | missing (p : Path)
  | typeMismatch (p : Path)
  | sizeMismatch (p : Path)
  | contentMismatch (p : Path)
  | extra (p : Path)
  | unsupported (p : Path)     -- a symlink or special file was reached: outside the model
deriving Repr, DecidableEq

/-- entries `fs.WalkDir` hands to CompareFS's callback that are not answered with SkipDir / skipped:
    pre-order, an excluded name is not visited and (being skipped) neither is anything below it -/
def walkX (ex : List String) (pre : Path) : Forest → List (Path × Item)
  | .nil => []
  | .file n d r => if ex.contains n then walkX ex pre r else (pre ++ [n], .file d) :: walkX ex pre r
  | .dir n s r =>
    if ex.contains n then walkX ex pre r
    else (pre ++ [n], .dir) :: (walkX ex (pre ++ [n]) s ++ walkX ex pre r)
  | .link n t r => if ex.contains n then walkX ex pre r else (pre ++ [n], .link t) :: walkX ex pre r
  | .other n r => if ex.contains n then walkX ex pre r else (pre ++ [n], .other) :: walkX ex pre r

/-- the whole walk from the root ".": the root itself is visited first (and would be skipped,
    with everything else, if "." were an excluded name) -/
def walkRoot (ex : List String) (t : Forest) : List (Path × Item) :=
  if ex.contains "." then [] else ([], .dir) :: walkX ex [] t

/-- compareFileContents: lock-step reads into two buffers of `buf` bytes -/
def cmpLoop (buf : Nat) (ra rb : ReaderBehaviour) : Nat → Bytes → Bytes → Nat → Bool
  | 0, _, _, _ => false
  | fuel + 1, da, db, call =>
    let a := readStep ra buf da call
    let b := readStep rb buf db call
    if a.1 ≠ b.1 then false                     -- na != nb || !bytes.Equal(bufA[:na], bufB[:nb])
    else if a.2.2 && b.2.2 then true            -- ea == io.EOF && eb == io.EOF
    else cmpLoop buf ra rb fuel a.2.1 b.2.1 (call + 1)

def cmpContents (buf : Nat) (ra rb : ReaderBehaviour) (da db : Bytes) : Bool :=
  cmpLoop buf ra rb (da.length + db.length + 2) da db 0

/-- the first-pass callback for one visited entry of the original -/
def checkEntry (c : Cfg) (ra rb : ReaderBehaviour) (target : Forest) (p : Path) (it : Item) : CmpResult :=
  match target.lookup p with                    -- fs.Stat(targetFS, p)
  | none => .missing p
  | some tb =>
    match it, tb with
    | .dir, .dir => .ok
    | .dir, .file _ => .typeMismatch p
    | .file _, .dir => .typeMismatch p
    | .file da, .file db =>
      if da.length ≠ db.length then .sizeMismatch p
      else if cmpContents c.cmpBuf ra rb da db then .ok else .contentMismatch p
    | _, _ => .unsupported p

def firstErr : List CmpResult → CmpResult
  | [] => .ok
  | .ok :: rs => firstErr rs
  | e :: _ => e

/-- `if err != nil { return err }` between the two walks -/
def CmpResult.andThen (x : CmpResult) (y : Unit → CmpResult) : CmpResult :=
  match x with
  | .ok => y ()
  | e => e

def compareFS (c : Cfg) (ra rb : ReaderBehaviour) (orig target : Forest) : CmpResult :=
  let w1 := walkRoot c.excluded orig
  (firstErr (w1.map fun e => checkEntry c ra rb target e.1 e.2)).andThen fun _ =>
    let seen := w1.map (·.1)
    firstErr ((walkRoot c.excluded target).map fun e => if seen.contains e.1 then .ok else .extra e.1)

end Diskfs.Sync
