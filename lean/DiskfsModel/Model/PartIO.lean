/-
  Mirror of the partition-content streaming loops:
    partition/gpt/partition.go  WriteContents / ReadContents
    partition/mbr/partition.go  WriteContents / ReadContents
  Byte offsets are unbounded naturals: after the `fix:` commits both packages
  compute `start*lss` in 64-bit arithmetic and sector counts are < 2^32 (MBR) /
  the table reader rejects nothing larger than 2^63 (GPT), so no wrap is
  reachable; the pinned facts (Generated/PartIO.lean) keep that honest.
  A reader is any list of chunks (what successive `Read` calls return; an empty
  chunk is a `(0, nil)` return), followed by EOF.
-/
import DiskfsModel.Core.Bytes
namespace Diskfs.PartIO

structure WRes where
  ws : List Wr
  total : Nat
  ok : Bool
deriving Repr

/-- the write loop: `start`, `size` in bytes. -/
def writeLoop (start size : Nat) : List Bytes → Nat → List Wr → WRes
  | [], total, ws => ⟨ws, total, total == size⟩
  | c :: cs, total, ws =>
    if c.length + total > size then ⟨ws, total, false⟩
    else if c.length > 0 then writeLoop start size cs (total + c.length) (ws ++ [⟨start + total, c⟩])
    else writeLoop start size cs total ws

def writeContents (start size : Nat) (chunks : List Bytes) : WRes :=
  writeLoop start size chunks 0 []

/-- GPT only: the start/end/size reconciliation in front of the loop.
    Returns the size in bytes to use, or none (error, nothing written). -/
def gptReconcile (pStart pEnd pSize lss : Nat) : Option Nat :=
  let csz := (pEnd + 1 - pStart) * lss   -- evaluated only under pEnd ≥ pStart below
  if pSize > 0 ∧ pEnd ≥ pStart ∧ pSize = csz then some pSize
  else if pSize = 0 ∧ pEnd ≥ pStart then some csz
  else if pSize > 0 ∧ pSize % lss = 0 ∧ pEnd = 0 then some pSize
  else none

/-- the read loop; `devSize` is where the device reports EOF. -/
def readLoop (d : Dev) (devSize start size pss : Nat) (total : Nat) (acc : Bytes) : Bytes × Nat :=
  let toRead := min pss (size - total)
  let avail := devSize - (start + total)
  let n := min toRead avail
  let acc' := acc ++ readAt d (start + total) n
  if n < toRead ∨ total + n ≥ size ∨ n = 0 then (acc', total + n)
  else readLoop d devSize start size pss (total + n) acc'
termination_by size - total
decreasing_by omega

/-- the (offset, requested length) of every ReadAt the read loop issues, in order -/
def readReqs (devSize start size pss : Nat) (total : Nat) (acc : List (Nat × Nat)) : List (Nat × Nat) :=
  let toRead := min pss (size - total)
  let avail := devSize - (start + total)
  let n := min toRead avail
  let acc' := acc ++ [(start + total, toRead)]
  if n < toRead ∨ total + n ≥ size ∨ n = 0 then acc'
  else readReqs devSize start size pss (total + n) acc'
termination_by size - total
decreasing_by omega

def readContents (d : Dev) (devSize start size pss : Nat) : Bytes × Nat :=
  readLoop d devSize start size pss 0 []

end Diskfs.PartIO
