/-
  The READING side of go-diskfs' squashfs over the bytes of an image (a `Dev`), as the code does
  it now:

    * `encodeMetaBlock` / `readMetaBlock`  — finalize.go `writeMetadataBlock` (compress, keep only
      if smaller, 2-byte header `size | 0x8000 if stored uncompressed`) and metadatablock.go
      `readMetaBlock` (header, payload, decompress; returns the data and `stored size + 2`);
    * `readMetadata`  — metadatablock.go `readMetadata`: the block at `first + blockOffset` from
      `byteOffset` on, then following blocks (`blockOffset += stored size + 2`) until `size` bytes
      are there; refuses an offset beyond the first block and an empty follow-up block;
    * `getInodeM`  — squashfs.go `getInode`: read the minimum of the type the directory entry
      names, read again if the header names another type that needs more, read again if the body
      needs `extra` bytes (block list, symlink target), then parse;
    * `getDirM`  — `getDirectory`: `readMetadata` cut to `size`, then `parseDirectory`;
    * `readLookup`, `readFragTable`, `readIdTable`  — `readFragmentTable` / `readUidsGids`: an index
      of 8-byte pointers, one metadata block behind each, 16-byte fragment entries / 4-byte ids
      (the id table's block count as the code computes it);
    * `fileFromImage`  — what `File.Read` / `readBlock` / `readFragment` fetch for a file inode:
      block `i` at `blocksStart + Σ sizes[<i]`, the tail at `fragments[index].start`;
    * `imgWalk`, `openImage`  — `Read` (superblock, fragment table, id table, root inode) and the
      walk `ReadDir`/`hydrateDirectoryEntries`/`ReadFile` perform, returning for every entry its
      path, decoded inode, owner ids looked up in the id table and, for regular files, the bytes.
  Device read errors are outside (a `Dev` is total); everything else that makes the Go code
  return an error makes these return `none`.  Core Lean only.
-/
import DiskfsModel.Model.Sqfs.Walk
import DiskfsModel.Model.Sqfs.Map
import DiskfsModel.Model.Sqfs.Meta
namespace Diskfs.Sqfs

/-! ### metadata blocks -/

def metaFlag : Nat := 0x8000

/-- `writeMetadataBlock` -/
def encodeMetaBlock (c : Codec) (noComp : Bool) (buf : Bytes) : Bytes :=
  leEnc 2 ((storeBlock c noComp buf).payload.length + (if (storeBlock c noComp buf).compressed then 0 else metaFlag)) ++
    (storeBlock c noComp buf).payload

/-- `readMetaBlock`: (uncompressed data, stored size + 2) -/
def readMetaBlock (c : Codec) (img : Dev) (loc : Nat) : Bytes × Nat :=
  let h := leDec (readAt img loc 2)
  let payload := readAt img (loc + 2) (h % metaFlag)
  (if h / metaFlag % 2 = 1 then payload else c.decompress payload, h % metaFlag + 2)

/-- the `for len(b) < size` loop of `readMetadata`; `read` is the stored length of the block read last -/
def readMetaMore (c : Codec) (img : Dev) (first size : Nat) : Nat → Nat → Nat → Bytes → Option Bytes
  | 0, _, _, _ => none
  | f+1, blockOff, read, b =>
    if size ≤ b.length then some b else
    if (readMetaBlock c img (first + (blockOff + read))).1.length = 0 then none
    else readMetaMore c img first size f (blockOff + read) (readMetaBlock c img (first + (blockOff + read))).2
           (b ++ (readMetaBlock c img (first + (blockOff + read))).1)

/-- `readMetadata(r, c, firstBlock, initialBlockOffset, byteOffset, size)` -/
def readMetadata (c : Codec) (img : Dev) (first blockOff byteOff size : Nat) : Option Bytes :=
  if byteOff > (readMetaBlock c img (first + blockOff)).1.length then none
  else readMetaMore c img first size (size + 1) blockOff (readMetaBlock c img (first + blockOff)).2
         ((readMetaBlock c img (first + blockOff)).1.drop byteOff)

/-- a metadata table as the writers lay it down: the encoded blocks one after the other -/
def metaTable (c : Codec) (noComp : Bool) (blocks : List Bytes) : Bytes :=
  (blocks.map (encodeMetaBlock c noComp)).flatten

/-- byte offset of block `k` inside its table (`blockOffsets` of `writeInodes`) -/
def metaOff (c : Codec) (noComp : Bool) (blocks : List Bytes) (k : Nat) : Nat :=
  (metaTable c noComp (blocks.take k)).length

/-! ### inodes and listings through `readMetadata` -/

/-- `inodeTypeToSize` -/
def typeSize (t : Nat) : Nat :=
  if t = 1 then 32 else if t = 2 then 32 else if t = 3 then 25 else if t = 4 then 24 else if t = 5 then 24
  else if t = 6 then 20 else if t = 7 then 20 else if t = 8 then 40 else if t = 9 then 56 else if t = 10 then 29
  else if t = 11 then 28 else if t = 12 then 28 else if t = 13 then 24 else if t = 14 then 24 else 0

/-- the `extra` result of `parseInodeBody` on the bytes after the header: how many more bytes the
    body needs (0: complete); `none`: fewer bytes than the fixed part, or a type outside the model -/
def bodyExtra (bs t : Nat) (b : Bytes) : Option Nat :=
  if t = 1 then (if b.length < 16 then none else some 0)
  else if t = 8 then
    if b.length < 24 then none else
    let x := leDec ((b.drop 16).take 2) * 13
    some (if b.length - 24 ≥ x then 0 else x)
  else if t = 2 then
    if b.length < 16 then none else
    let x := 4 * blockCount bs (leDec ((b.drop 12).take 4)) (leDec ((b.drop 4).take 4))
    some (if b.length - 16 ≥ x then 0 else x)
  else if t = 9 then
    if b.length < 40 then none else
    let x := 4 * blockCount bs (leDec ((b.drop 8).take 8)) (leDec ((b.drop 28).take 4))
    some (if b.length - 40 ≥ x then 0 else x)
  else if t = 3 then
    if b.length < 8 then none else
    let x := leDec ((b.drop 4).take 4)
    some (if b.length - 8 ≥ x then 0 else x)
  else none

/-- `getInode(blockOffset, byteOffset, iType)` over the inode table at `tbl` -/
def getInodeM (c : Codec) (img : Dev) (tbl bs blockOff byteOff typ : Nat) : Option Inode :=
  match readMetadata c img tbl blockOff byteOff (typeSize typ) with
  | none => none
  | some u =>
    if u.length < 16 then none else
    let t := leDec (u.take 2)
    let size := if t = typ then typeSize typ else typeSize t
    match (if t ≠ typ ∧ size > u.length then readMetadata c img tbl blockOff byteOff size else some u) with
    | none => none
    | some u1 =>
      match bodyExtra bs t (u1.drop 16) with
      | none => none
      | some extra =>
        match (if extra > 0 then readMetadata c img tbl blockOff byteOff (size + extra) else some u1) with
        | none => none
        | some u2 => (decodeInode bs u2).map (·.1)

/-- `getDirectory(blockOffset, byteOffset, size)` over the directory table at `tbl` -/
def getDirM (c : Codec) (img : Dev) (tbl blockOff byteOff size : Nat) : Option (List DEnt) :=
  match readMetadata c img tbl blockOff byteOff size with
  | none => none
  | some u => decodeDir (size + 1) (u.take size)

/-! ### lookup tables: fragment table and id table -/

/-- cut a byte string into pieces of `n` bytes; `none` if a shorter piece is left over -/
def cutN (n : Nat) : Nat → Bytes → Option (List Bytes)
  | 0, b => if b.isEmpty then some [] else none
  | f+1, b =>
    if b.isEmpty then some [] else
    if b.length < n then none else
    match cutN n f (b.drop n) with
    | some l => some (b.take n :: l)
    | none => none

/-- the data behind an index of `nblk` 8-byte pointers at `idx`: one metadata block each, joined -/
def readLookup (c : Codec) (img : Dev) (idx : Nat) : Nat → Nat → Bytes
  | 0, _ => []
  | n+1, i => (readMetaBlock c img (leDec (readAt img (idx + 8 * i) 8))).1 ++ readLookup c img idx n (i + 1)

structure FragEnt where
  start : Nat
  size : Nat
  compressed : Bool
deriving DecidableEq, Repr

/-- `fragmentEntry.toBytes` / the entry `writeFragmentTable` builds -/
def encodeFragEnt (f : FragEnt) : Bytes :=
  leEnc 8 f.start ++ (leEnc 4 (f.size + (if f.compressed then 0 else 2 ^ 24)) ++ zeros 4)

/-- `parseFragmentEntry` -/
def decodeFragEnt (b : Bytes) : FragEnt :=
  { start := leDec (b.take 8), size := leDec ((b.drop 8).take 4) % 2 ^ 24,
    compressed := leDec ((b.drop 8).take 4) / 2 ^ 24 % 2 = 0 }

/-- `readFragmentTable`: ⌈count / 512⌉ pointers at `fragStart`; every 16 bytes of every block an entry -/
def readFragTable (c : Codec) (img : Dev) (fragStart count : Nat) : Option (List FragEnt) :=
  if count = 0 then some [] else
  let data := readLookup c img fragStart (count / 512 + (if count % 512 > 0 then 1 else 0)) 0
  (cutN 16 data.length data).map (·.map decodeFragEnt)

/-- `parseIDTable`: whole 4-byte groups, a shorter rest is dropped -/
def parseIds : Nat → Bytes → List Nat
  | 0, _ => []
  | f+1, b => if b.length < 4 then [] else leDec (b.take 4) :: parseIds f (b.drop 4)

/-- `readUidsGids`: `idBytes := int(idCount) * 4; idBlocks := (idBytes - 1) / 8192 + 1`, in int since
    fix 0ff62c2 (it was computed in uint16 and wrapped from 16385 ids on) -/
def idBlocks (count : Nat) : Nat := (count * 4 - 1) / 8192 + 1

def readIdTable (c : Codec) (img : Dev) (idStart count : Nat) : List Nat :=
  if count = 0 then [] else
  let data := readLookup c img idStart (idBlocks count) 0
  parseIds data.length data

/-! ### file contents -/

/-- block `i` is stored at `start + Σ sizes[<i]` (`location += block.size` in `File.Read`) -/
def loadBlocks (img : Dev) : Nat → List Blk → List Stored
  | _, [] => []
  | loc, b :: r => ⟨b.compressed, readAt img loc b.size⟩ :: loadBlocks img (loc + b.size) r

/-- what `File.Read` works on for a file inode: its data blocks and, if the inode names one and the
    table has it, the fragment block `fragments[frag]` (`readFragment`).  (A read that reaches the
    tail while the table lacks the entry is an error in Go; `readS` has no errors and yields zeros
    there — outside the model.) -/
def fileFromImage (img : Dev) (bs : Nat) (frags : List FragEnt) (start frag fragOff size : Nat) (bl : List Blk) : FileImg :=
  { bs := bs, size := size, blocks := loadBlocks img start bl,
    fragBlock := if frag = noFrag then none else (frags[frag]?).map fun e => ⟨e.compressed, readAt img e.start e.size⟩,
    fragOff := fragOff }

/-- the whole contents as `ReadFile` collects them -/
def fileBytes (c : Codec) (img : Dev) (bs : Nat) (frags : List FragEnt) : IBody → Option Bytes
  | .basicFile st fr fo fs bl => some (readS c (fileFromImage img bs frags st fr fo fs bl) 0 fs).1
  | .extFile st fs _ _ fr fo _ bl => some (readS c (fileFromImage img bs frags st fr fo fs bl) 0 fs).1
  | _ => some []

/-! ### the walk over an image -/

structure Opened where
  bs : Nat
  inodeStart : Nat
  dirStart : Nat
  frags : List FragEnt
  ids : List Nat
deriving Repr

/-- what the reader reports for one entry -/
structure ImgEnt where
  path : List Bytes
  ino : Inode
  uid : Nat
  gid : Nat
  data : Bytes
deriving DecidableEq, Repr

/-- `hydrateDirectoryEntries` / `directoryEntryFromInode` + the file's bytes -/
def hydrate (c : Codec) (img : Dev) (o : Opened) (path : List Bytes) (i : Inode) : Option ImgEnt :=
  match o.ids[i.hdr.uid]?, o.ids[i.hdr.gid]?, fileBytes c img o.bs o.frags i.body with
  | some u, some g, some d => some { path := path, ino := i, uid := u, gid := g, data := d }
  | _, _, _ => none

def imgEnts (c : Codec) (img : Dev) (o : Opened) (rd : List Bytes → Inode → Option (List ImgEnt)) (pre : List Bytes) :
    List DEnt → Option (List ImgEnt)
  | [] => some []
  | e :: es =>
    match getInodeM c img o.inodeStart o.bs e.startBlock e.offset e.typ with
    | none => none
    | some ci =>
      match hydrate c img o (pre ++ [e.name]) ci,
            (if (listingRef ci.body).isSome then rd (pre ++ [e.name]) ci else some []), imgEnts c img o rd pre es with
      | some s, some sub, some rest => some (s :: (sub ++ rest))
      | _, _, _ => none

/-- what `getDirectoryEntries` hands to `getDirectory` for a directory inode: start block, offset and
    the inode's file_size as it stands — 3 more than the listing is long (the format counts "." and
    ".."), so 3 bytes beyond the listing are read and then ignored by `parseDirectory` -/
def dirAsk : IBody → Option (Nat × Nat × Nat)
  | .basicDir sb _ fs off _ => some (sb, off, fs)
  | .extDir _ fs sb _ off _ => some (sb, off, fs)
  | _ => none

/-- everything below the directory whose inode is `ino` -/
def imgWalk (c : Codec) (img : Dev) (o : Opened) : Nat → List Bytes → Inode → Option (List ImgEnt)
  | 0, _, _ => none
  | fuel+1, pre, ino =>
    match dirAsk ino.body with
    | none => some []
    | some (sb, off, sz) =>
      match getDirM c img o.dirStart sb off sz with
      | none => none
      | some es => imgEnts c img o (fun p i => imgWalk c img o fuel p i) pre es

/-- `Read`: superblock at byte 0, fragment table, id table, root inode (looked up as a basic
    directory, as the code does) -/
def openImage (c : Codec) (img : Dev) : Option (Superblock × Opened × Inode) :=
  match decodeSB (readAt img 0 96) with
  | none => none
  | some sb =>
    match readFragTable c img sb.fragStart sb.fragCount with
    | none => none
    | some frags =>
      let o : Opened := { bs := sb.blocksize, inodeStart := sb.inodeStart, dirStart := sb.dirStart, frags := frags,
                          ids := readIdTable c img sb.idStart sb.idCount }
      (getInodeM c img sb.inodeStart sb.blocksize (sb.rootInode / 65536) (sb.rootInode % 65536) 1).map fun r => (sb, o, r)

/-- open and walk -/
def readImageS (c : Codec) (img : Dev) (fuel : Nat) : Option (Superblock × List ImgEnt) :=
  match openImage c img with
  | none => none
  | some (sb, o, root) => (imgWalk c img o fuel [] root).map fun es => (sb, es)

/-! ### what the table writers lay down -/

/-- the index `writeFragmentTable` / `writeIDTable` / `writeExportTable` write behind their
    metadata blocks: one 8-byte pointer per block, block `k` standing at `loc + metaOff k` -/
def lookupIndex (c : Codec) (noComp : Bool) (loc : Nat) (blocks : List Bytes) : Bytes :=
  ((List.range blocks.length).map fun k => leEnc 8 (loc + metaOff c noComp blocks k)).flatten

/-- the 8 KiB blocks of a stream (for entry sizes dividing 8192 this is what `len(buf) >= maxSize`
    produces: `chunkGE` of Regions.lean) -/
def metaChunks (s : Bytes) : List Bytes := chunksOf metaBlock s.length s

def fragStream (ents : List FragEnt) : Bytes := (ents.map encodeFragEnt).flatten
def idStream (ids : List Nat) : Bytes := (ids.map (leEnc 4)).flatten

/-! ### specification of the walk's result -/

/-- what `readMetadata` is known to do at one reference: any `size` inside the stream `S` that
    starts there is answered with a prefix of `S` of at least `size` bytes -/
def ReadsFrom (c : Codec) (img : Dev) (tbl blockOff byteOff : Nat) (S : Bytes) : Prop :=
  ∀ size, size ≤ S.length → ∃ n, size ≤ n ∧ n ≤ S.length ∧ readMetadata c img tbl blockOff byteOff size = some (S.take n)

/-- length of the variable part of a body (block list, symlink target) -/
def IBody.var : IBody → Nat
  | .basicFile _ _ _ _ bl => 4 * bl.length | .extFile _ _ _ _ _ _ _ bl => 4 * bl.length | .basicSymlink _ t => t.length | _ => 0

/-- the largest `size` `getInode` passes to `readMetadata` for this inode: minimum size of its type
    plus the `extra` the body asks for (one byte more than the inode for a symlink) -/
def Inode.ask (i : Inode) : Nat := typeSize i.body.typ + i.body.var

/-- per entry: owner ids and file contents the reader has to report -/
structure Attr where
  uid : Nat
  gid : Nat
  data : Bytes

def STree.sent (t : STree) (a : Nat → Attr) (pre : List Bytes) (c : Nat) : ImgEnt :=
  { path := pre ++ [t.name c], ino := t.ino c, uid := (a c).uid, gid := (a c).gid, data := (a c).data }

def STree.walkS (t : STree) (a : Nat → Attr) : Nat → List Bytes → Nat → List ImgEnt
  | 0, _, _ => []
  | fuel+1, pre, d =>
    (t.kids d).flatMap fun c =>
      t.sent a pre c :: (if t.isDir c then t.walkS a fuel (pre ++ [t.name c]) c else [])

/-- the image shows the tree to go-diskfs' reader: at every entry's reference `readMetadata`
    answers from a stream that starts with the entry's inode (and is long enough for what
    `getInode` asks); at every directory's listing reference it answers from a stream that starts
    with the listing and goes on for at least the 3 bytes the reader asks for beyond it; owner indices are in the id table; file contents come out of the data and
    fragment blocks -/
structure ImgShows (c : Codec) (img : Dev) (o : Opened) (t : STree) (a : Nat → Attr) : Prop where
  closed : ∀ d, d < t.n → ∀ k ∈ t.kids d, k < t.n
  inode : ∀ k, k < t.n → ∃ rest, ReadsFrom c img o.inodeStart (t.refBlk k) (t.refOff k) (encodeInode (t.ino k) ++ rest) ∧
      (t.ino k).ask ≤ (encodeInode (t.ino k) ++ rest).length ∧ typeSize (t.dent k).typ ≤ (encodeInode (t.ino k) ++ rest).length
  inodeWF : ∀ k, k < t.n → (t.ino k).WF o.bs
  entWF : ∀ k, k < t.n → (t.dent k).WF 0 ∧ 16 ≤ typeSize (t.dent k).typ
  listing : ∀ d, d < t.n → ∀ sb off sz, dirAsk (t.ino d).body = some (sb, off, sz) →
      ∃ rest, ReadsFrom c img o.dirStart sb off (encodeListing 0 ((t.kids d).map t.dent) ++ rest) ∧
        sz = (encodeListing 0 ((t.kids d).map t.dent)).length + 3 ∧ 3 ≤ rest.length
  owner : ∀ k, k < t.n → o.ids[(t.ino k).hdr.uid]? = some (a k).uid ∧ o.ids[(t.ino k).hdr.gid]? = some (a k).gid
  content : ∀ k, k < t.n → fileBytes c img o.bs o.frags (t.ino k).body = some (a k).data

end Diskfs.Sqfs
