/-
  squashfs metadata reference arithmetic of go-diskfs (finalize.go `updateInodeLocations`,
  `translateInodeLocations`, `writeInodes`; metadatablock.go `readMetadata`): inodes are laid end
  to end in a stream that is cut into 8 KiB metadata blocks; an inode is referenced by
  (block, offset in the uncompressed block).  Core Lean only.
-/
import DiskfsModel.Core.Bytes
namespace Diskfs.Sqfs

def metaBlock : Nat := 8192

/-- `updateInodeLocations`: logical (block index, offset) of each inode, from their byte sizes -/
def inodeRefs : List Nat → Nat → List (Nat × Nat)
  | [], _ => []
  | n :: rest, pos => (pos / metaBlock, pos % metaBlock) :: inodeRefs rest (pos + n)

/-- `translateInodeLocations`: logical block index → byte offset of that block in the table -/
def translate (offsets : List Nat) (logical : Nat) : Nat :=
  if logical < offsets.length then offsets.getD logical 0 else logical

/-- `writeInodes`' bookkeeping: byte offset of every metadata block given the stored size of each
    (payload + 2-byte header) -/
def blockOffsets : List Nat → Nat → List Nat
  | [], _ => []
  | s :: rest, pos => pos :: blockOffsets rest (pos + s + 2)

/-- the uncompressed metadata blocks of a stream -/
def chunksOf (n : Nat) : Nat → Bytes → List Bytes
  | 0, _ => []
  | f+1, s => if s.isEmpty then [] else s.take n :: chunksOf n f (s.drop n)

/-- `readMetadata`: from block `b` at offset `o`, continuing into the following blocks -/
def resolve (chunks : List Bytes) (b o : Nat) : Bytes := ((chunks.drop b).flatten).drop o

end Diskfs.Sqfs
