/-
  squashfs data mapping of go-diskfs: how the builder stores a file (full blocks, each compressed
  only if that makes it smaller; the tail inside a shared fragment block) and how `File.Read`
  maps a file offset to (block index, offset in block) or (fragment block, fragment offset + …),
  including sparse blocks (stored size 0 reads as a block of zeros).  The compressor is a
  parameter `Codec` with stated laws.  Core Lean only.
-/
import DiskfsModel.Core.Bytes
namespace Diskfs.Sqfs

/-- an external compressor: the only things assumed about gzip / xz / lz4 / zstd -/
structure Codec where
  compress : Bytes → Bytes
  decompress : Bytes → Bytes
  roundtrip : ∀ x, decompress (compress x) = x
  nonempty : ∀ x, x ≠ [] → compress x ≠ []

/-- a data or fragment block as stored: the compressed flag of the size word and the bytes -/
structure Stored where
  compressed : Bool
  payload : Bytes
deriving DecidableEq, Repr

/-- `copyFileData` / `finalizeFragment`: compress, keep the result only if it is smaller -/
def storeBlock (c : Codec) (noComp : Bool) (blk : Bytes) : Stored :=
  if noComp = false ∧ (c.compress blk).length < blk.length then ⟨true, c.compress blk⟩ else ⟨false, blk⟩

/-- `readBlock`: stored size 0 is a sparse block -/
def loadBlock (c : Codec) (bs : Nat) (s : Stored) : Bytes :=
  if s.payload.length = 0 then zeros bs else if s.compressed then c.decompress s.payload else s.payload

/-- `readFragment`: no sparse rule -/
def loadFrag (c : Codec) (s : Stored) : Bytes := if s.compressed then c.decompress s.payload else s.payload

/-- the first `k` blocks of `bs` bytes -/
def fullBlocks (bs : Nat) : Nat → Bytes → List Bytes
  | 0, _ => []
  | k+1, c => c.take bs :: fullBlocks bs k (c.drop bs)

structure FileImg where
  bs : Nat
  size : Nat
  blocks : List Stored
  fragBlock : Option Stored   -- the fragment block that holds this file's tail (0xffffffff = none)
  fragOff : Nat

/-- the builder core for one file: `pre`/`post` are the tails of other files sharing the fragment block -/
def buildFile (c : Codec) (noCompData noCompFrag : Bool) (bs : Nat) (pre post content : Bytes) : FileImg :=
  { bs := bs, size := content.length,
    blocks := (fullBlocks bs (content.length / bs) content).map (storeBlock c noCompData),
    fragBlock := if content.length % bs = 0 then none
                 else some (storeBlock c noCompFrag (pre ++ content.drop (content.length / bs * bs) ++ post)),
    fragOff := pre.length }

/-- the byte `File.Read` delivers for file offset `p` -/
def byteAt (c : Codec) (f : FileImg) (p : Nat) : UInt8 :=
  if p / f.bs < f.blocks.length then
    (loadBlock c f.bs (f.blocks.getD (p / f.bs) ⟨false, []⟩)).getD (p % f.bs) 0
  else match f.fragBlock with
    | none => 0
    | some s => (loadFrag c s).getD (f.fragOff + (p - f.blocks.length * f.bs)) 0

/-- one `Read(b)` with `len(b) = n` at offset `off`: bytes, new offset, io.EOF -/
def readS (c : Codec) (f : FileImg) (off n : Nat) : Bytes × Nat × Bool :=
  let m := min n (f.size - off)
  ((List.range m).map fun k => byteAt c f (off + k), off + m, decide (f.size ≤ off + m))

/-- a sequence of reads from offset `off` -/
def readSeq (c : Codec) (f : FileImg) : Nat → List Nat → List Bytes
  | _, [] => []
  | off, n :: ns => (readS c f off n).1 :: readSeq c f (readS c f off n).2.1 ns

/-- what `bytes.Reader` does on the plain contents -/
def specSeq (content : Bytes) : Nat → List Nat → List Bytes
  | _, [] => []
  | off, n :: ns => (content.drop off).take n :: specSeq content (off + min n (content.length - off)) ns

/-! ### fragment packing (`writeFragmentBlocks`) — executable, compared with the real code -/

/-- (fragment block index, offset) for every file size; `none` for sizes that are multiples of bs -/
def fragRefs (bs : Nat) : List Nat → Nat → Nat → List (Option (Nat × Nat))
  | [], _, _ => []
  | sz :: rest, idx, used =>
    let r := sz % bs
    if r = 0 then none :: fragRefs bs rest idx used
    else if used + r > bs then some (idx + 1, 0) :: fragRefs bs rest (idx + 1) r
    else some (idx, used) :: fragRefs bs rest idx (used + r)

/-- `writeFragmentBlocks` on the tails themselves: the uncompressed fragment blocks it produces
    (`done` = blocks already flushed, `cur` = the block being filled) -/
def packFrags (bs : Nat) : List Bytes → List Bytes → Bytes → List Bytes
  | [], done, cur => if cur.isEmpty then done else done ++ [cur]
  | t :: ts, done, cur =>
    if t.isEmpty then packFrags bs ts done cur
    else if cur.length + t.length > bs then packFrags bs ts (done ++ [cur]) t
    else packFrags bs ts done (cur ++ t)

end Diskfs.Sqfs
