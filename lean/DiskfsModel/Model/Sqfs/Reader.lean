/-
  A squashfs 4.0 reader in Lean for images whose metadata, data and fragment blocks are all stored
  uncompressed (what go-diskfs writes without a compressor).  It follows the on-disk format
  (superblock → root inode reference → inode table / directory table / fragment table) and is run
  by the model driver on the real bytes (the S tie of C07).  Core Lean only.
-/
import DiskfsModel.Core.Crc
namespace Diskfs.Sqfs

structure SEnt where
  path : String
  kind : String      -- d | f | l
  size : Nat
  crc : Nat
  target : String
deriving Repr

def g8 (b : ByteArray) (o : Nat) : Nat := (b.get! o).toNat
def g16 (b : ByteArray) (o : Nat) : Nat := g8 b o + 256 * g8 b (o + 1)
def g32 (b : ByteArray) (o : Nat) : Nat := g16 b o + 65536 * g16 b (o + 2)
def g64 (b : ByteArray) (o : Nat) : Nat := g32 b o + 4294967296 * g32 b (o + 4)

structure SImg where
  img : ByteArray
  base : Nat
  bs : Nat
  inodeStart : Nat
  dirStart : Nat
  fragStart : Nat
  fragCount : Nat

/-- `n` bytes of a metadata stream starting in the block at `table + blk`, offset `off`;
    continues into the following blocks -/
def readMeta (s : SImg) (table blk off n : Nat) : Except String ByteArray := do
  let mut pos := s.base + table + blk
  let mut skip := off
  let mut out := ByteArray.empty
  let mut steps := 0
  while out.size < n && steps < 4096 do
    steps := steps + 1
    if pos + 2 > s.img.size then throw "metadata block header outside the image"
    let h := g16 s.img pos
    if h / 32768 = 0 then throw "compressed metadata block"
    let sz := h % 32768
    if pos + 2 + sz > s.img.size then throw "metadata block outside the image"
    let data := s.img.extract (pos + 2) (pos + 2 + sz)
    if skip > data.size then throw "offset beyond the metadata block"
    out := out ++ data.extract skip data.size
    skip := 0
    pos := pos + 2 + sz
  if out.size < n then throw "metadata stream too short"
  return out.extract 0 n

def bytesToStr (b : ByteArray) (o n : Nat) : String :=
  match String.fromUTF8? (b.extract o (o + n)) with
  | some s => s
  | none => String.ofList ((List.range n).map fun i => Char.ofNat (g8 b (o + i)))

/-- content of a regular file from its block list and fragment reference -/
def fileData (s : SImg) (start size fragIdx fragOff : Nat) (sizes : List Nat) : Except String (List UInt8) := do
  let mut pos := s.base + start
  let mut out : List UInt8 := []
  for w in sizes do
    let sz := w % 16777216
    if sz = 0 then
      out := out ++ List.replicate s.bs 0
    else
      if (w / 16777216) % 2 = 0 then throw "compressed data block"
      if pos + sz > s.img.size then throw "data block outside the image"
      out := out ++ (s.img.extract pos (pos + sz)).toList
      pos := pos + sz
  let tail := size - out.length
  if tail > 0 then
    if fragIdx ≥ s.fragCount then throw s!"fragment index {fragIdx} out of range"
    -- fragment table: index of u64 pointers to metadata blocks with 16-byte entries, 512 per block
    let ptr := g64 s.img (s.base + s.fragStart + 8 * (fragIdx / 512))
    let e ← readMeta s ptr 0 (16 * (fragIdx % 512)) 16
    let fstart := g64 e 0
    let fw := g32 e 8
    if (fw / 16777216) % 2 = 0 then throw "compressed fragment block"
    let fsz := fw % 16777216
    if fragOff + tail > fsz then throw "fragment tail beyond the fragment block"
    out := out ++ (s.img.extract (s.base + fstart + fragOff) (s.base + fstart + fragOff + tail)).toList
  return out.take size

/-- walk the inode at (blk, off); `fuel` bounds the nesting depth -/
def walk (s : SImg) : Nat → String → Nat → Nat → Except String (List SEnt)
  | 0, p, _, _ => .error s!"nesting too deep at {p}"
  | fuel+1, p, blk, off => do
    let h ← readMeta s s.inodeStart blk off 16
    let ty := g16 h 0
    let dirAt := fun (dblk doff dsize : Nat) => do
      -- listing: dsize - 3 bytes of headers and entries
      let mut out : List SEnt := []
      if dsize ≤ 3 then return out
      let d ← readMeta s s.dirStart dblk doff (dsize - 3)
      let mut i := 0
      let mut steps := 0
      while i + 12 ≤ d.size && steps < 100000 do
        steps := steps + 1
        let count := g32 d i + 1
        let iblk := g32 d (i + 4)
        i := i + 12
        for _ in List.range count do
          if i + 8 > d.size then throw s!"directory {p}: entry outside the listing"
          let ioff := g16 d i
          let ety := g16 d (i + 4)
          let nl := g16 d (i + 6) + 1
          if i + 8 + nl > d.size then throw s!"directory {p}: name outside the listing"
          let name := bytesToStr d (i + 8) nl
          i := i + 8 + nl
          let cp := if p == "." then name else p ++ "/" ++ name
          let sub ← walk s fuel cp iblk ioff
          -- the entry's own type must agree with its inode (basic types only in entries)
          match sub.head? with
          | some e =>
            if (ety = 1 && e.kind != "d") || (ety = 2 && e.kind != "f") || (ety = 3 && e.kind != "l") then
              throw s!"directory {p}: entry type {ety} disagrees with the inode of {name}"
          | none => pure ()
          out := out ++ sub
      return out
    if ty = 1 then
      let b ← readMeta s s.inodeStart blk off 32
      let kids ← dirAt (g32 b 16) (g16 b 26) (g16 b 24)
      return { path := p, kind := "d", size := 0, crc := 0, target := "" } :: kids
    else if ty = 8 then
      let b ← readMeta s s.inodeStart blk off 40
      let kids ← dirAt (g32 b 24) (g16 b 34) (g32 b 20)
      return { path := p, kind := "d", size := 0, crc := 0, target := "" } :: kids
    else if ty = 2 then
      let b ← readMeta s s.inodeStart blk off 32
      let size := g32 b 28
      let frag := g32 b 20
      let nb := size / s.bs + (if size % s.bs > 0 && frag = 4294967295 then 1 else 0)
      let b2 ← readMeta s s.inodeStart blk off (32 + 4 * nb)
      let data ← fileData s (g32 b 16) size frag (g32 b 24) ((List.range nb).map fun j => g32 b2 (32 + 4 * j))
      return [{ path := p, kind := "f", size := size, crc := crc32 data, target := "" }]
    else if ty = 9 then
      let b ← readMeta s s.inodeStart blk off 56
      let size := g64 b 24
      let frag := g32 b 44
      let nb := size / s.bs + (if size % s.bs > 0 && frag = 4294967295 then 1 else 0)
      let b2 ← readMeta s s.inodeStart blk off (56 + 4 * nb)
      let data ← fileData s (g64 b 16) size frag (g32 b 48) ((List.range nb).map fun j => g32 b2 (56 + 4 * j))
      return [{ path := p, kind := "f", size := size, crc := crc32 data, target := "" }]
    else if ty = 3 || ty = 10 then
      let b ← readMeta s s.inodeStart blk off 24
      let tl := g32 b 20
      let b2 ← readMeta s s.inodeStart blk off (24 + tl)
      return [{ path := p, kind := "l", size := 0, crc := 0, target := bytesToStr b2 24 tl }]
    else throw s!"inode type {ty} at {p} not handled"

structure SResult where
  bs : Nat
  inodes : Nat
  bytesUsed : Nat
  ents : List SEnt

def readSqfs (img : ByteArray) (base : Nat) : Except String SResult := do
  if base + 96 > img.size then throw "no room for a superblock"
  if g32 img base != 0x73717368 then throw "bad magic"
  if g16 img (base + 28) != 4 || g16 img (base + 30) != 0 then throw "not version 4.0"
  let s : SImg := { img := img, base := base, bs := g32 img (base + 12), inodeStart := g64 img (base + 64),
                    dirStart := g64 img (base + 72), fragStart := g64 img (base + 80), fragCount := g32 img (base + 16) }
  if s.bs = 0 then throw "block size 0"
  let root := g64 img (base + 32)
  let ents ← walk s 64 "." (root / 65536) (root % 65536)
  return { bs := s.bs, inodes := g32 img (base + 4), bytesUsed := g64 img (base + 40), ents := ents.drop 1 }

end Diskfs.Sqfs
