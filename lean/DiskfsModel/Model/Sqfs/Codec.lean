/-
  squashfs superblock codec mirrored from superblock.go (`toBytes` / `parseSuperblock`).
  Core Lean only.
-/
import DiskfsModel.Core.Bytes
namespace Diskfs.Sqfs

structure Superblock where
  inodes : Nat
  modTime : Nat
  blocksize : Nat
  fragCount : Nat
  compression : Nat
  flags : Nat
  idCount : Nat
  rootInode : Nat      -- (block << 16) | offset
  bytesUsed : Nat
  idStart : Nat
  xattrStart : Nat
  inodeStart : Nat
  dirStart : Nat
  fragStart : Nat
  exportStart : Nat
deriving DecidableEq, Repr

def sbMagic : Nat := 0x73717368

def split (n : Nat) (b : Bytes) : Bytes × Bytes := (b.take n, b.drop n)

def encodeSB (s : Superblock) : Bytes :=
  leEnc 4 sbMagic ++ (leEnc 4 s.inodes ++ (leEnc 4 s.modTime ++ (leEnc 4 s.blocksize ++ (leEnc 4 s.fragCount ++
  (leEnc 2 s.compression ++ (leEnc 2 (Nat.log2 s.blocksize) ++ (leEnc 2 s.flags ++ (leEnc 2 s.idCount ++
  (leEnc 2 4 ++ (leEnc 2 0 ++ (leEnc 8 s.rootInode ++ (leEnc 8 s.bytesUsed ++ (leEnc 8 s.idStart ++
  (leEnc 8 s.xattrStart ++ (leEnc 8 s.inodeStart ++ (leEnc 8 s.dirStart ++ (leEnc 8 s.fragStart ++
  leEnc 8 s.exportStart)))))))))))))))))

def decodeSB (b : Bytes) : Option Superblock :=
  let (magic, r) := split 4 b
  let (inodes, r) := split 4 r
  let (modTime, r) := split 4 r
  let (blocksize, r) := split 4 r
  let (frags, r) := split 4 r
  let (comp, r) := split 2 r
  let (blog, r) := split 2 r
  let (flags, r) := split 2 r
  let (idc, r) := split 2 r
  let (major, r) := split 2 r
  let (minor, r) := split 2 r
  let (root, r) := split 8 r
  let (used, r) := split 8 r
  let (idS, r) := split 8 r
  let (xS, r) := split 8 r
  let (inS, r) := split 8 r
  let (dS, r) := split 8 r
  let (fS, r) := split 8 r
  let (eS, _) := split 8 r
  if b.length = 96 ∧ leDec magic = sbMagic ∧ leDec major = 4 ∧ leDec minor = 0 ∧
      Nat.log2 (leDec blocksize) = leDec blog then
    some { inodes := leDec inodes, modTime := leDec modTime, blocksize := leDec blocksize, fragCount := leDec frags,
           compression := leDec comp, flags := leDec flags, idCount := leDec idc, rootInode := leDec root,
           bytesUsed := leDec used, idStart := leDec idS, xattrStart := leDec xS, inodeStart := leDec inS,
           dirStart := leDec dS, fragStart := leDec fS, exportStart := leDec eS }
  else none

def Superblock.WF (s : Superblock) : Prop :=
  s.inodes < 2 ^ 32 ∧ s.modTime < 2 ^ 32 ∧ s.blocksize < 2 ^ 32 ∧ s.fragCount < 2 ^ 32 ∧ s.compression < 2 ^ 16 ∧
  s.flags < 2 ^ 16 ∧ s.idCount < 2 ^ 16 ∧ s.rootInode < 2 ^ 64 ∧ s.bytesUsed < 2 ^ 64 ∧ s.idStart < 2 ^ 64 ∧
  s.xattrStart < 2 ^ 64 ∧ s.inodeStart < 2 ^ 64 ∧ s.dirStart < 2 ^ 64 ∧ s.fragStart < 2 ^ 64 ∧ s.exportStart < 2 ^ 64

end Diskfs.Sqfs
