/-
  A pure squashfs tree reader over the two UNCOMPRESSED metadata streams of an image (inode table
  and directory table with the 2-byte block headers removed), and the specification of what it
  must return.  The reader follows the format: a directory inode names its listing by
  (start block, offset, size); the listing is headers and entries (`decodeDir`); an entry names its
  inode by (start block of the header, offset) and the inode is decoded at that place
  (`decodeInode`); directories recurse.  How a (block, offset) reference becomes a position in the
  stream is a parameter (`ipos`, `dpos`): for images whose metadata blocks are stored uncompressed
  go-diskfs' references are (byte offset of the 8 KiB block in the table, offset) for inodes and
  (index of the 8 KiB block, offset) for listings.  Core Lean only.
-/
import DiskfsModel.Model.Sqfs.Inode
namespace Diskfs.Sqfs

/-- the listing a directory inode points at: (start block, offset, byte size of the listing) -/
def listingRef : IBody → Option (Nat × Nat × Nat)
  | .basicDir sb _ fs off _ => some (sb, off, fs - 3)
  | .extDir _ fs sb _ off _ => some (sb, off, fs - 3)
  | _ => none

structure WalkEnv where
  bs : Nat
  I : Bytes                  -- inode table stream
  D : Bytes                  -- directory table stream
  ipos : Nat → Nat → Nat     -- (block reference, offset) → position in `I`
  dpos : Nat → Nat → Nat     -- (block reference, offset) → position in `D`

/-- what the reader reports for one entry: its path and its decoded inode -/
abbrev Seen := List Bytes × Inode

def walkEnts (env : WalkEnv) (rd : List Bytes → Inode → Option (List Seen)) (pre : List Bytes) :
    List DEnt → Option (List Seen)
  | [] => some []
  | e :: es =>
    match decodeInode env.bs (env.I.drop (env.ipos e.startBlock e.offset)) with
    | none => none
    | some (ci, _) =>
      match (if (listingRef ci.body).isSome then rd (pre ++ [e.name]) ci else some []), walkEnts env rd pre es with
      | some sub, some rest => some ((pre ++ [e.name], ci) :: (sub ++ rest))
      | _, _ => none

/-- everything below the directory whose inode is `ino`; other inodes have nothing below them -/
def sqWalk (env : WalkEnv) : Nat → List Bytes → Inode → Option (List Seen)
  | 0, _, _ => none
  | fuel+1, pre, ino =>
    match listingRef ino.body with
    | none => some []
    | some (sb, off, sz) =>
      match decodeDir (sz + 1) ((env.D.drop (env.dpos sb off)).take sz) with
      | none => none
      | some es => walkEnts env (fun p i => sqWalk env fuel p i) pre es

/-! ### specification -/

structure STree where
  n : Nat
  ino : Nat → Inode          -- the inode of entry c
  name : Nat → Bytes
  kids : Nat → List Nat      -- children of a directory in listing order
  refBlk : Nat → Nat         -- the (block, offset) reference under which entry c is listed
  refOff : Nat → Nat

/-- the basic inode type a directory entry carries (`createDirectories`) -/
def basicTyp (t : Nat) : Nat := if t ≥ 8 then t - 7 else t

def STree.dent (t : STree) (c : Nat) : DEnt :=
  { offset := t.refOff c, inodeNumber := (t.ino c).hdr.index, typ := basicTyp (t.ino c).body.typ, name := t.name c,
    startBlock := t.refBlk c }

def STree.isDir (t : STree) (c : Nat) : Bool := (listingRef (t.ino c).body).isSome

def STree.walk (t : STree) : Nat → List Bytes → Nat → List Seen
  | 0, _, _ => []
  | fuel+1, pre, d =>
    (t.kids d).flatMap fun c =>
      (pre ++ [t.name c], t.ino c) :: (if t.isDir c then t.walk fuel (pre ++ [t.name c]) c else [])

def STree.Fits (t : STree) : Nat → Nat → Prop
  | 0, _ => False
  | fuel+1, d => ∀ c ∈ t.kids d, t.isDir c = true → t.Fits fuel c

/-- the streams show the tree: every entry's inode stands at the place its reference names, and
    every directory's listing (entries made of its children, base 0 as Finalize writes them) stands
    at the place its inode names; non-directories have no children -/
structure Shows (env : WalkEnv) (t : STree) : Prop where
  closed : ∀ d, d < t.n → ∀ c ∈ t.kids d, c < t.n
  inode : ∀ c, c < t.n → ∃ rest, env.I.drop (env.ipos (t.refBlk c) (t.refOff c)) = encodeInode (t.ino c) ++ rest
  inodeWF : ∀ c, c < t.n → (t.ino c).WF env.bs
  entWF : ∀ c, c < t.n → (t.dent c).WF 0
  listing : ∀ d, d < t.n → ∀ sb off sz, listingRef (t.ino d).body = some (sb, off, sz) →
      (env.D.drop (env.dpos sb off)).take sz = encodeListing 0 ((t.kids d).map t.dent) ∧
      sz = (encodeListing 0 ((t.kids d).map t.dent)).length

end Diskfs.Sqfs
