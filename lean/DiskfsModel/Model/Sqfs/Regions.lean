/-
  The sequence of regions squashfs `Finalize` writes (finalize.go), as a pure function of the
  sizes of the pieces and of the options that change the sequence.

  Two descriptions of the same thing:
    * `finalize`  — a straight-line MIRROR of Finalize's bookkeeping (`location += written` after
      every helper; each helper's own `location` arithmetic; the table-start values the helpers
      return; the superblock written last at byte 0);
    * `regions`   — the SPEC: eleven named regions laid end to end from byte 96, and inside every
      region its writes laid end to end.
  Props/C07 proves that the mirror's superblock fields are the region starts of the spec, that
  the regions tile [96, bytes_used) and that the writes cover [0, bytes_used) exactly once.

  As the code stands (and as the regenerated facts pin): `NoPad` and `NoFragments` are not
  consulted by Finalize (no padding is ever written, tails always go to fragment blocks), so the
  sequence depends on the options only through NonExportable (`exportTbl = none`) and through the
  compressor's option bytes (`opt`).  Images with extended attributes are not modelled
  (`xattrStart` is the "absent" value).

  Also here: the chunking of a metadata stream into 8 KiB blocks as the writers do it
  (`chunkGT` for the inode / directory tables, `chunkGE` for the fragment / export / id tables).
  Core Lean only.
-/
import DiskfsModel.Core.Bytes
namespace Diskfs.Sqfs

/-- superblockSize -/
def sbSize : Nat := 96
/-- metadataBlockSize -/
def metaMax : Nat := 8192
/-- value of a table start that is absent -/
def absent64 : Nat := 2 ^ 64 - 1

/-- sizes of everything Finalize writes after the superblock, in write order -/
structure Pieces where
  opt : Nat                      -- compressor option bytes (0: none written)
  data : List Nat                -- stored size of every data block, files in walk order
  frags : List Nat               -- stored size of every fragment block
  inodes : List Nat              -- stored payload size of every metadata block of the inode table
  dirs : List Nat                -- … of the directory table
  fragTbl : List Nat             -- … of the fragment table
  exportTbl : Option (List Nat)  -- … of the export table; none with NonExportable
  idTbl : List Nat               -- … of the id table
deriving Repr

/-- one WriteAt: (offset relative to the start of the filesystem, length) -/
abbrev W := Nat × Nat

/-- writes of the given lengths, each starting where the previous one ended -/
def seqWrites : Nat → List Nat → List W
  | _, [] => []
  | pos, n :: r => (pos, n) :: seqWrites (pos + n) r

/-- `writeMetadataBlock` writes a 2-byte header in front of the stored payload -/
def metaLens (l : List Nat) : List Nat := l.map (· + 2)

/-- `writeFragmentTable` / `writeExportTable` / `writeIDTable`: metadata blocks from `loc`, then
    the index with 8 bytes per block.  Returns (writes, bytes written, location of the index). -/
def lookupTable (blks : List Nat) (loc : Nat) : List W × Nat × Nat :=
  let idx := loc + (metaLens blks).sum
  (seqWrites loc (metaLens blks) ++ [(idx, 8 * blks.length)], (metaLens blks).sum + 8 * blks.length, idx)

/-- what Finalize leaves behind -/
structure Fin where
  writes : List W
  inodeStart : Nat
  dirStart : Nat
  fragStart : Nat
  exportStart : Nat
  idStart : Nat
  xattrStart : Nat
  bytesUsed : Nat
deriving Repr

/-- mirror of `Finalize`'s location bookkeeping -/
def finalize (p : Pieces) : Fin :=
  let loc := sbSize
  let wOpt : List W := if p.opt > 0 then [(loc, p.opt)] else []
  let loc := loc + p.opt
  let wData := seqWrites loc p.data                 -- writeDataBlocks
  let loc := loc + p.data.sum
  let wFrag := seqWrites loc p.frags                -- writeFragmentBlocks
  let loc := loc + p.frags.sum
  let inodeStart := loc                             -- writeInodes
  let wIno := seqWrites loc (metaLens p.inodes)
  let loc := loc + (metaLens p.inodes).sum
  let dirStart := loc                               -- writeDirectories
  let wDir := seqWrites loc (metaLens p.dirs)
  let loc := loc + (metaLens p.dirs).sum
  let ft := lookupTable p.fragTbl loc               -- writeFragmentTable
  let loc := loc + ft.2.1
  let ex : List W × Nat × Nat := match p.exportTbl with   -- writeExportTable unless NonExportable
    | none => ([], 0, absent64)   -- not written: the start field holds the "not present" mark (fix in /repo)
    | some e => lookupTable e loc
  let loc := loc + ex.2.1
  let idt := lookupTable p.idTbl loc                -- writeIDTable
  let loc := loc + idt.2.1
  { writes := wOpt ++ wData ++ wFrag ++ wIno ++ wDir ++ ft.1 ++ ex.1 ++ idt.1 ++ [(0, sbSize)]
    inodeStart := inodeStart, dirStart := dirStart, fragStart := ft.2.2, exportStart := ex.2.2,
    idStart := idt.2.2, xattrStart := absent64, bytesUsed := loc }

/-! ### the specification: named regions end to end -/

inductive RK
  | opt | data | frags | inodeTbl | dirTbl | fragBlks | fragIdx | exportBlks | exportIdx | idBlks | idIdx
deriving DecidableEq, Repr

structure Region where
  kind : RK
  lo : Nat
  lens : List Nat       -- lengths of the writes that fill it, in order
deriving Repr

def Region.len (r : Region) : Nat := r.lens.sum
def Region.hi (r : Region) : Nat := r.lo + r.len

/-- lay the (kind, write lengths) groups end to end from `pos` -/
def layFrom : Nat → List (RK × List Nat) → List Region
  | _, [] => []
  | pos, (k, l) :: r => ⟨k, pos, l⟩ :: layFrom (pos + l.sum) r

def idxLens (blks : List Nat) : List Nat := [8 * blks.length]

def regionLens (p : Pieces) : List (RK × List Nat) :=
  [ (.opt, if p.opt > 0 then [p.opt] else []),
    (.data, p.data), (.frags, p.frags),
    (.inodeTbl, metaLens p.inodes), (.dirTbl, metaLens p.dirs),
    (.fragBlks, metaLens p.fragTbl), (.fragIdx, idxLens p.fragTbl),
    (.exportBlks, match p.exportTbl with | none => [] | some e => metaLens e),
    (.exportIdx, match p.exportTbl with | none => [] | some e => idxLens e),
    (.idBlks, metaLens p.idTbl), (.idIdx, idxLens p.idTbl) ]

def regions (p : Pieces) : List Region := layFrom sbSize (regionLens p)

/-- the Go function that writes a region (`optionsBytes` is written by Finalize itself) -/
def RK.writer : RK → String
  | .opt => "optionsBytes" | .data => "writeDataBlocks" | .frags => "writeFragmentBlocks"
  | .inodeTbl => "writeInodes" | .dirTbl => "writeDirectories"
  | .fragBlks => "writeFragmentTable" | .fragIdx => "writeFragmentTable"
  | .exportBlks => "writeExportTable" | .exportIdx => "writeExportTable"
  | .idBlks => "writeIDTable" | .idIdx => "writeIDTable"

/-- the writers in the order of the model's regions (compared with the regenerated call order of Finalize) -/
def writerOrder : List String :=
  (((regionLens ⟨0, [], [], [], [], [], some [], []⟩).map (fun a => a.1.writer)).eraseDups).filter (· != "optionsBytes")

/-- start of the region of a kind (0 if there is none) -/
def startOf (k : RK) (rs : List Region) : Nat :=
  match rs.find? (fun r => r.kind = k) with
  | some r => r.lo
  | none => 0

/-- end of the last region -/
def endOf (pos : Nat) : List Region → Nat
  | [] => pos
  | r :: rs => endOf r.hi rs

/-- the regions follow each other without gap or overlap from `pos` -/
def Tiles : Nat → List Region → Prop
  | _, [] => True
  | pos, r :: rs => r.lo = pos ∧ Tiles r.hi rs

/-! ### chunking of metadata streams -/

/-- `writeInodes` / `writeDirectories`: append one item, and if the buffer now EXCEEDS 8 KiB write
    one block of 8 KiB; whatever is left at the end is one more block.  Payload sizes written. -/
def chunkGT : List Nat → Nat → List Nat
  | [], buf => if buf > 0 then [buf] else []
  | s :: r, buf => if buf + s > metaMax then metaMax :: chunkGT r (buf + s - metaMax) else chunkGT r (buf + s)

/-- `writeFragmentTable` / `writeExportTable` / `writeIDTable`: `n` entries of `e` bytes; a block
    is written as soon as the buffer REACHES 8 KiB -/
def chunkGE (e : Nat) : Nat → Nat → List Nat
  | 0, buf => if buf > 0 then [buf] else []
  | n+1, buf => if buf + e ≥ metaMax then metaMax :: chunkGE e n (buf + e - metaMax) else chunkGE e n (buf + e)

end Diskfs.Sqfs
