/-
  The WRITING side of go-diskfs' squashfs down to the bytes of the image: a model of `Finalize`
  (finalize.go) from the flat file list `walkTree` returns to every byte written, for workspaces
  of directories, regular files and symlinks without extended attributes:

    * `writeDataBlocks` / `copyFileData`  — the full blocks of every regular file, each stored
      compressed only if smaller, laid end to end (`dataLocs`, `fileStored`);
    * `writeFragmentBlocks`  — the tails packed into fragment blocks (`packFrags`, `fragRefs` of
      Map.lean) and stored, with the entries `writeFragmentTable` records for them (`fragEnts`);
    * `createInodes`  — inode number k+1 for entry k, owner indices into the id table in order of
      first appearance (`idTable`, `idxIn`), extended file / directory inodes when the link count is
      positive (always on Unix), basic ones otherwise, basic symlinks (`mkBody`, `mkInode`);
    * `updateInodeLocations` — `inodeRefs` of Meta.lean over the inode sizes (`entSize`);
    * `createDirectories`  — directories in depth-first order from the root (`dirOrder`), one entry
      per child carrying the child's reference (`dentOf`, `listingOf`);
    * `populateDirectoryLocations` / `updateInodesFromDirectories`  — (block index, offset,
      size + 3) of every listing, computed from the listings BEFORE the block references are
      translated, written into the directory inodes (`dirLocs`);
    * `writeInodes` / `writeDirectories`  — append item after item and cut a block of 8 KiB whenever
      the buffer EXCEEDS 8 KiB (`cutGT`), every block through `writeMetadataBlock`
      (`encodeMetaBlock` of ImageRd.lean); `translateInodeLocations` (`translate` over
      `blockOffsets`) in between;
    * `writeFragmentTable` / `writeExportTable` / `writeIDTable`  — entries of 16 / 8 / 4 bytes in
      blocks of 8 KiB (`metaChunks`: for entry sizes dividing 8192 this is what the `>=` rule cuts),
      each followed by its index of 8-byte pointers (`lookupIndex`);
    * the superblock at byte 0.
  The metadata blocks go through the DATA compressor (`compressor` is nil with NoCompressData;
  NoCompressInodes is not consulted), as in the code.  The superblock's compression id and flag
  word are inputs (their codec is `encodeSB`).  Core Lean only.
-/
import DiskfsModel.Model.Sqfs.ImageRd
import DiskfsModel.Model.Sqfs.Regions
namespace Diskfs.Sqfs

/-- one element of the list `walkTree` returns -/
structure FEnt where
  name : Bytes
  kind : Nat          -- 0 regular file, 1 directory, 2 symlink
  mode : Nat          -- unixModeBits(mode): what the inode header stores
  uid : Nat
  gid : Nat
  mtime : Nat
  links : Nat
  data : Bytes        -- contents of a regular file / target of a symlink
  kids : List Nat     -- children of a directory: positions in the file list, in walk order
deriving Repr

def FEnt.nil : FEnt := ⟨[], 0, 0, 0, 0, 0, 0, [], []⟩
def Inode.nil : Inode := ⟨⟨0, 0, 0, 0, 0⟩, .basicSymlink 0 []⟩

structure WOpt where
  bs : Nat
  noCompData : Bool   -- no compressor or NoCompressData: data blocks and ALL metadata blocks stored as they are
  noCompFrag : Bool   -- no compressor or NoCompressFragments
  optBytes : Bytes    -- compressor option bytes, written at byte 96
  exportable : Bool
  modTime : Nat
  compression : Nat
  flags : Nat

/-! ### data and fragment blocks -/

def fileStored (c : Codec) (o : WOpt) (e : FEnt) : List Stored :=
  if e.kind = 0 then (fullBlocks o.bs (e.data.length / o.bs) e.data).map (storeBlock c o.noCompData) else []

def storedBytes (l : List Stored) : Bytes := (l.map (·.payload)).flatten

/-- `writeDataBlocks`: where each entry's blocks start (`dataLocation`) -/
def dataLocs (c : Codec) (o : WOpt) : List FEnt → Nat → List Nat
  | [], _ => []
  | e :: r, loc => loc :: dataLocs c o r (loc + (storedBytes (fileStored c o e)).length)

def tailOf (o : WOpt) (e : FEnt) : Bytes :=
  if e.kind = 0 then e.data.drop (e.data.length / o.bs * o.bs) else []

/-- the entries `writeFragmentTable` writes: location, stored size, compressed flag -/
def fragEnts : List Stored → Nat → List FragEnt
  | [], _ => []
  | s :: r, loc => ⟨loc, s.payload.length, s.compressed⟩ :: fragEnts r (loc + s.payload.length)

/-! ### id table -/

def addId (l : List Nat) (x : Nat) : List Nat := if x ∈ l then l else l ++ [x]

/-- `getTableIdx` over the file list: uid then gid of every entry, new ids appended -/
def idTable (fl : List FEnt) : List Nat := fl.foldl (fun acc e => addId (addId acc e.uid) e.gid) []

def idxIn (x : Nat) : List Nat → Nat
  | [] => 0
  | y :: r => if y = x then 0 else idxIn x r + 1

/-! ### inodes -/

def xattrNone : Nat := 2 ^ 32 - 1

def blkOfStored (s : Stored) : Blk := ⟨s.payload.length, s.compressed⟩

/-- `createInodes` + `updateInodesFromDirectories`: the body for one entry; `dloc` = its
    `dataLocation`, `fr` = its fragment reference, `dir` = (block index, offset, size) of its listing -/
def mkBody (c : Codec) (o : WOpt) (e : FEnt) (dloc : Nat) (fr : Option (Nat × Nat)) (dir : Nat × Nat × Nat) : IBody :=
  if e.kind = 1 then
    if e.links > 0 then .extDir e.links dir.2.2 dir.1 0 dir.2.1 xattrNone
    else .basicDir dir.1 e.links dir.2.2 dir.2.1 0
  else if e.kind = 2 then .basicSymlink e.links e.data
  else if e.links > 0 then
    .extFile dloc e.data.length 0 e.links (match fr with | some f => f.1 | none => 0) (match fr with | some f => f.2 | none => 0)
      xattrNone ((fileStored c o e).map blkOfStored)
  else
    .basicFile dloc (match fr with | some f => f.1 | none => noFrag) (match fr with | some f => f.2 | none => 0)
      e.data.length ((fileStored c o e).map blkOfStored)

def mkInode (c : Codec) (o : WOpt) (ids : List Nat) (k : Nat) (e : FEnt) (dloc : Nat) (fr : Option (Nat × Nat))
    (dir : Nat × Nat × Nat) : Inode :=
  ⟨{ mode := e.mode, uid := idxIn e.uid ids, gid := idxIn e.gid ids, mtime := e.mtime, index := k + 1 }, mkBody c o e dloc fr dir⟩

/-- byte size of the inode of an entry (independent of the references it carries) -/
def entSize (o : WOpt) (e : FEnt) : Nat :=
  16 + (if e.kind = 1 then (if e.links > 0 then 24 else 16)
        else if e.kind = 2 then 8 + e.data.length
        else (if e.links > 0 then 40 else 16) + 4 * (e.data.length / o.bs))

/-! ### directories -/

/-- the basic inode type `createDirectories` puts into a directory entry -/
def kindTyp (k : Nat) : Nat := if k = 1 then 1 else if k = 2 then 3 else 2

/-- the directory entry of child `ch`: `refs` are the (block, offset) pairs of `updateInodeLocations`,
    `xl` what `translateInodeLocations` has done to the block by the time the entry is used -/
def dentOf (fl : List FEnt) (refs : List (Nat × Nat)) (xl : Nat → Nat) (ch : Nat) : DEnt :=
  { offset := (refs.getD ch (0, 0)).2, inodeNumber := ch + 1, typ := kindTyp (fl.getD ch FEnt.nil).kind,
    name := (fl.getD ch FEnt.nil).name, startBlock := xl (refs.getD ch (0, 0)).1 }

def listingOf (fl : List FEnt) (refs : List (Nat × Nat)) (xl : Nat → Nat) (d : Nat) : List DEnt :=
  (fl.getD d FEnt.nil).kids.map (dentOf fl refs xl)

/-- `createDirectories`: the directory itself, then the directories among its children, depth first -/
def dirOrder (fl : List FEnt) : Nat → Nat → List Nat
  | 0, _ => []
  | fuel+1, d => d :: ((fl.getD d FEnt.nil).kids.filter fun ch => (fl.getD ch FEnt.nil).kind = 1).flatMap fun ch => dirOrder fl fuel ch

/-- `populateDirectoryLocations`: (block index, offset, size + 3) from the listing sizes -/
def dirLocs : List Nat → Nat → List (Nat × Nat × Nat)
  | [], _ => []
  | n :: r, pos => (pos / metaBlock, pos % metaBlock, n + 3) :: dirLocs r (pos + n)

/-! ### metadata tables -/

/-- `writeInodes` / `writeDirectories`: append one item; if the buffer now EXCEEDS 8 KiB write its
    first 8 KiB as a block and keep the rest; what is left at the end is one more block -/
def cutGT : List Bytes → Bytes → List Bytes
  | [], buf => if buf.isEmpty then [] else [buf]
  | x :: r, buf =>
    if (buf ++ x).length > metaBlock then (buf ++ x).take metaBlock :: cutGT r ((buf ++ x).drop metaBlock)
    else cutGT r (buf ++ x)

/-- the entry `writeExportTable` writes for an inode reference -/
def exportEnt (r : Nat × Nat) : Bytes := zeros 2 ++ (leEnc 4 r.1 ++ leEnc 2 r.2)

def exportStream (refs : List (Nat × Nat)) : Bytes := (refs.map exportEnt).flatten

/-! ### Finalize -/

structure Built where
  sb : Superblock
  ids : List Nat
  frags : List FragEnt
  inodes : List Inode
  refs : List (Nat × Nat)        -- per entry: (byte offset of its inode's metadata block in the table, offset)
  order : List Nat               -- the directories in directory-table order
  dirStream : Bytes              -- the uncompressed directory table
  pieces : Pieces                -- the sizes of everything written (input of the region model)
  image : Bytes

/-! the stages of Finalize, each a function of the options and the file list -/
section stages
variable (c : Codec) (o : WOpt) (fl : List FEnt) (fuel : Nat)

def bDataStart : Nat := sbSize + o.optBytes.length
def bDlocs : List Nat := dataLocs c o fl (bDataStart o)
def bData : Bytes := (fl.map fun e => storedBytes (fileStored c o e)).flatten
def bFragStart0 : Nat := bDataStart o + (bData c o fl).length
def bTails : List Bytes := fl.map (tailOf o)
def bFstored : List Stored := (packFrags o.bs (bTails o fl) [] []).map (storeBlock c o.noCompFrag)
def bFrefs : List (Option (Nat × Nat)) := fragRefs o.bs ((bTails o fl).map List.length) 0 0
def bFents : List FragEnt := fragEnts (bFstored c o fl) (bFragStart0 c o fl)
def bInodeStart : Nat := bFragStart0 c o fl + (storedBytes (bFstored c o fl)).length
def bLrefs : List (Nat × Nat) := inodeRefs (fl.map (entSize o)) 0
def bOrder : List Nat := dirOrder fl fuel 0
/-- `populateDirectoryLocations`, run on the listings with UNtranslated block references -/
def bDl : List (Nat × Nat × Nat) :=
  let lrefs := bLrefs o fl
  dirLocs ((bOrder fl fuel).map fun d => (encodeListing 0 (listingOf fl lrefs id d)).length) 0
def bInodes : List Inode :=
  let ids := idTable fl
  let dlocs := bDlocs c o fl
  let frefs := bFrefs o fl
  let dl := bDl o fl fuel
  let order := bOrder fl fuel
  (List.range fl.length).map fun k =>
    mkInode c o ids k (fl.getD k FEnt.nil) (dlocs.getD k 0) (frefs.getD k none) (dl.getD (idxIn k order) (0, 0, 0))
def bIblocks : List Bytes := cutGT ((bInodes c o fl fuel).map encodeInode) []
/-- the block offsets `writeInodes` records -/
def bOffs : List Nat := blockOffsets ((bIblocks c o fl fuel).map fun b => (storeBlock c o.noCompData b).payload.length) 0
/-- `translateInodeLocations` -/
def bXl : Nat → Nat := translate (bOffs c o fl fuel)
def bRefs : List (Nat × Nat) :=
  let offs := bOffs c o fl fuel
  (bLrefs o fl).map fun r => (translate offs r.1, r.2)
def bLsts : List Bytes :=
  let offs := bOffs c o fl fuel
  let lrefs := bLrefs o fl
  (bOrder fl fuel).map fun d => encodeListing 0 (listingOf fl lrefs (translate offs) d)
def bDblocks : List Bytes := cutGT (bLsts c o fl fuel) []
def bItab : Bytes := metaTable c o.noCompData (bIblocks c o fl fuel)
def bDirStart : Nat := bInodeStart c o fl + (bItab c o fl fuel).length
def bDtab : Bytes := metaTable c o.noCompData (bDblocks c o fl fuel)
def bFLoc : Nat := bDirStart c o fl fuel + (bDtab c o fl fuel).length
def bFblocks : List Bytes := metaChunks (fragStream (bFents c o fl))
def bFtab : Bytes := metaTable c o.noCompData (bFblocks c o fl)
def bFragIdx : Nat := bFLoc c o fl fuel + (bFtab c o fl).length
def bFidx : Bytes := lookupIndex c o.noCompData (bFLoc c o fl fuel) (bFblocks c o fl)
def bELoc : Nat := bFragIdx c o fl fuel + (bFidx c o fl fuel).length
def bEblocks : List Bytes := if o.exportable then metaChunks (exportStream (bRefs c o fl fuel)) else []
def bEtab : Bytes := metaTable c o.noCompData (bEblocks c o fl fuel)
def bEidx : Bytes := lookupIndex c o.noCompData (bELoc c o fl fuel) (bEblocks c o fl fuel)
def bIdLoc : Nat := bELoc c o fl fuel + (bEtab c o fl fuel).length + (bEidx c o fl fuel).length
def bIdblocks : List Bytes := metaChunks (idStream (idTable fl))
def bIdtab : Bytes := metaTable c o.noCompData (bIdblocks fl)
def bIdStart : Nat := bIdLoc c o fl fuel + (bIdtab c o fl).length
def bIdidx : Bytes := lookupIndex c o.noCompData (bIdLoc c o fl fuel) (bIdblocks fl)

def bSB : Superblock :=
  { inodes := fl.length, modTime := o.modTime, blocksize := o.bs, fragCount := (bFents c o fl).length, compression := o.compression,
    flags := o.flags, idCount := (idTable fl).length,
    rootInode := ((bRefs c o fl fuel).getD 0 (0, 0)).1 * 65536 + ((bRefs c o fl fuel).getD 0 (0, 0)).2,
    bytesUsed := bIdStart c o fl fuel + (bIdidx c o fl fuel).length,
    idStart := bIdStart c o fl fuel, xattrStart := absent64, inodeStart := bInodeStart c o fl, dirStart := bDirStart c o fl fuel,
    fragStart := bFragIdx c o fl fuel,
    exportStart := if o.exportable then bELoc c o fl fuel + (bEtab c o fl fuel).length else absent64 }

/-- the metadata tables and indexes from the inode table to the end of the image -/
def bTables : Bytes :=
  bItab c o fl fuel ++ (bDtab c o fl fuel ++ (bFtab c o fl ++ (bFidx c o fl fuel ++ (bEtab c o fl fuel ++ (bEidx c o fl fuel ++
    (bIdtab c o fl ++ bIdidx c o fl fuel))))))

def bImage : Bytes :=
  encodeSB (bSB c o fl fuel) ++ (o.optBytes ++ (bData c o fl ++ (storedBytes (bFstored c o fl) ++ bTables c o fl fuel)))

def storedLens (bl : List Bytes) : List Nat := bl.map fun b => (storeBlock c o.noCompData b).payload.length

/-- the sizes of everything written: the input of the region model (Regions.lean) -/
def bPieces : Pieces :=
  { opt := o.optBytes.length,
    data := (fl.map fun e => (fileStored c o e).map (·.payload.length)).flatten,
    frags := (bFstored c o fl).map (·.payload.length), inodes := storedLens c o (bIblocks c o fl fuel),
    dirs := storedLens c o (bDblocks c o fl fuel), fragTbl := storedLens c o (bFblocks c o fl),
    exportTbl := if o.exportable then some (storedLens c o (bEblocks c o fl fuel)) else none,
    idTbl := storedLens c o (bIdblocks fl) }

end stages

def buildImage (c : Codec) (o : WOpt) (fl : List FEnt) (fuel : Nat) : Built :=
  { sb := bSB c o fl fuel, ids := idTable fl, frags := bFents c o fl, inodes := bInodes c o fl fuel, refs := bRefs c o fl fuel,
    order := bOrder fl fuel, dirStream := (bLsts c o fl fuel).flatten, pieces := bPieces c o fl fuel, image := bImage c o fl fuel }

/-! ### the limits within which writer ∘ reader = id is proved, and an executable check of them -/

section limits
variable (c : Codec) (o : WOpt) (fl : List FEnt) (fuel : Nat)

/-- the uncompressed inode table and directory table -/
def bIstream : Bytes := ((bInodes c o fl fuel).map encodeInode).flatten
def bDstream : Bytes := (bLsts c o fl fuel).flatten

structure Limits : Prop where
  hbs : 0 < o.bs
  n0 : 0 < fl.length
  closed : ∀ d, d < fl.length → ∀ k ∈ (fl.getD d FEnt.nil).kids, k < fl.length
  kinds : ∀ k, k < fl.length → (fl.getD k FEnt.nil).kind ≤ 2
  reach : ∀ d, d < fl.length → (fl.getD d FEnt.nil).kind = 1 → d ∈ bOrder fl fuel
  small : ∀ e ∈ fl, entSize o e ≤ metaBlock
  dirSmall : 0 < (bDstream c o fl fuel).length ∧ (bDstream c o fl fuel).length < metaBlock
  inodeWF : ∀ i ∈ bInodes c o fl fuel, i.WF o.bs
  entWF : ∀ k, k < fl.length → (dentOf fl (bLrefs o fl) (bXl c o fl fuel) k).WF 0
  fragWF : (∀ e ∈ bFents c o fl, e.start < 2 ^ 64 ∧ e.size < 2 ^ 24) ∧ (bFents c o fl).length < noFrag
  sbWF : (bSB c o fl fuel).WF
  idsWF : (∀ x ∈ idTable fl, x < 2 ^ 32) ∧ (idTable fl).length ≤ 65535

instance (b : Blk) : Decidable b.WF := by unfold Blk.WF; infer_instance
instance (bs : Nat) (b : IBody) : Decidable (b.WF bs) := by cases b <;> (unfold IBody.WF; infer_instance)
instance (bs : Nat) (i : Inode) : Decidable (i.WF bs) := by unfold Inode.WF; infer_instance
instance (base : Nat) (e : DEnt) : Decidable (e.WF base) := by unfold DEnt.WF; infer_instance
instance (s : Superblock) : Decidable s.WF := by unfold Superblock.WF; infer_instance

/-- the limits, evaluated (run by the driver on every correspondence case) -/
def limitsB : Bool :=
  decide (0 < o.bs) && decide (0 < fl.length) &&
  decide (∀ d, d < fl.length → ∀ k ∈ (fl.getD d FEnt.nil).kids, k < fl.length) &&
  decide (∀ k, k < fl.length → (fl.getD k FEnt.nil).kind ≤ 2) &&
  decide (∀ d, d < fl.length → (fl.getD d FEnt.nil).kind = 1 → d ∈ bOrder fl fuel) &&
  decide (∀ e ∈ fl, entSize o e ≤ metaBlock) &&
  decide (0 < (bDstream c o fl fuel).length ∧ (bDstream c o fl fuel).length < metaBlock) &&
  decide (∀ i ∈ bInodes c o fl fuel, i.WF o.bs) &&
  decide (∀ k, k < fl.length → (dentOf fl (bLrefs o fl) (bXl c o fl fuel) k).WF 0) &&
  decide ((∀ e ∈ bFents c o fl, e.start < 2 ^ 64 ∧ e.size < 2 ^ 24) ∧ (bFents c o fl).length < noFrag) &&
  decide (bSB c o fl fuel).WF &&
  decide ((∀ x ∈ idTable fl, x < 2 ^ 32) ∧ (idTable fl).length ≤ 65535)

/-- nesting depth of the directories below `d` is less than the fuel -/
def fitsB : Nat → Nat → Bool
  | 0, _ => false
  | f+1, d => (fl.getD d FEnt.nil).kids.all fun ch => (fl.getD ch FEnt.nil).kind != 1 || fitsB f ch

end limits

/-- what a reader must find: the depth-first walk of the file list below directory `d` with every
    entry's path, inode, owner ids and contents -/
def expectWalk (fl : List FEnt) (inodes : List Inode) : Nat → List Bytes → Nat → List ImgEnt
  | 0, _, _ => []
  | fuel+1, pre, d =>
    (fl.getD d FEnt.nil).kids.flatMap fun ch =>
      let e := fl.getD ch FEnt.nil
      { path := pre ++ [e.name], ino := inodes.getD ch Inode.nil, uid := e.uid, gid := e.gid,
        data := if e.kind = 0 then e.data else [] } ::
      (if e.kind = 1 then expectWalk fl inodes fuel (pre ++ [e.name]) ch else [])

end Diskfs.Sqfs
