/-
  squashfs inode and directory-table codecs mirrored from go-diskfs:
    * inode.go  `inodeHeader.toBytes` / `parseInodeHeader`, and the bodies Finalize produces for
      directories, regular files and symlinks: `basicDirectory`, `extendedDirectory` (without
      index entries), `basicFile`, `extendedFile`, `basicSymlink` (`toBytes` / `parse…`);
    * directory.go  `directoryHeader`, `directoryEntryRaw.toBytes` / `parseDirectoryEntry`, and a
      whole listing: `directory.toBytes` (a new header whenever the inode block changes or the
      header already counts 256 entries) / `parseDirectory`.
  Core Lean only.
-/
import DiskfsModel.Model.Sqfs.Codec
namespace Diskfs.Sqfs

/-! ### inodes -/

/-- one entry of a file's block list: stored size and whether the block is compressed
    (`blockData.toUint32`: bit 24 set means NOT compressed) -/
structure Blk where
  size : Nat
  compressed : Bool
deriving DecidableEq, Repr

def Blk.word (b : Blk) : Nat := b.size + (if b.compressed then 0 else 2 ^ 24)
def Blk.ofWord (u : Nat) : Blk := { size := u % 2 ^ 24, compressed := (u / 2 ^ 24) % 2 = 0 }

structure IHdr where
  mode : Nat
  uid : Nat        -- index into the id table
  gid : Nat
  mtime : Nat
  index : Nat      -- inode number
deriving DecidableEq, Repr

inductive IBody
  | basicDir (startBlock links fileSize offset parent : Nat)
  | extDir (links fileSize startBlock parent offset xattr : Nat)          -- index count 0
  | basicFile (blocksStart frag fragOff fileSize : Nat) (blocks : List Blk)
  | extFile (blocksStart fileSize sparse links frag fragOff xattr : Nat) (blocks : List Blk)
  | basicSymlink (links : Nat) (target : Bytes)
deriving DecidableEq, Repr

structure Inode where
  hdr : IHdr
  body : IBody
deriving DecidableEq, Repr

def IBody.typ : IBody → Nat
  | .basicDir .. => 1 | .basicFile .. => 2 | .basicSymlink .. => 3 | .extDir .. => 8 | .extFile .. => 9

def noFrag : Nat := 2 ^ 32 - 1

/-- number of block-list words a file inode carries (`parseBasicFile` / `parseExtendedFile`) -/
def blockCount (bs fileSize frag : Nat) : Nat :=
  fileSize / bs + (if fileSize % bs > 0 ∧ frag = noFrag then 1 else 0)

def encodeBlks (l : List Blk) : Bytes := (l.map fun b => leEnc 4 b.word).flatten

def encodeBody : IBody → Bytes
  | .basicDir sb links fs off par => leEnc 4 sb ++ (leEnc 4 links ++ (leEnc 2 fs ++ (leEnc 2 off ++ leEnc 4 par)))
  | .extDir links fs sb par off xa =>
    leEnc 4 links ++ (leEnc 4 fs ++ (leEnc 4 sb ++ (leEnc 4 par ++ (leEnc 2 0 ++ (leEnc 2 off ++ leEnc 4 xa)))))
  | .basicFile st fr fo fs bl => leEnc 4 st ++ (leEnc 4 fr ++ (leEnc 4 fo ++ (leEnc 4 fs ++ encodeBlks bl)))
  | .extFile st fs sp links fr fo xa bl =>
    leEnc 8 st ++ (leEnc 8 fs ++ (leEnc 8 sp ++ (leEnc 4 links ++ (leEnc 4 fr ++ (leEnc 4 fo ++ (leEnc 4 xa ++ encodeBlks bl))))))
  | .basicSymlink links t => leEnc 4 links ++ (leEnc 4 t.length ++ t)

def encodeInode (i : Inode) : Bytes :=
  leEnc 2 i.body.typ ++ (leEnc 2 i.hdr.mode ++ (leEnc 2 i.hdr.uid ++ (leEnc 2 i.hdr.gid ++ (leEnc 4 i.hdr.mtime ++
    (leEnc 4 i.hdr.index ++ encodeBody i.body)))))

def decodeBlks : Nat → Bytes → Option (List Blk × Bytes)
  | 0, b => some ([], b)
  | n+1, b =>
    if b.length < 4 then none else
    match decodeBlks n (b.drop 4) with
    | some (l, r) => some (Blk.ofWord (leDec (b.take 4)) :: l, r)
    | none => none

/-- body of the given type from the front of `b`; returns the rest of the stream -/
def decodeBody (bs typ : Nat) (b : Bytes) : Option (IBody × Bytes) :=
  if typ = 1 then
    if b.length < 16 then none else
    let (sb, r) := split 4 b
    let (links, r) := split 4 r
    let (fs, r) := split 2 r
    let (off, r) := split 2 r
    let (par, r) := split 4 r
    some (.basicDir (leDec sb) (leDec links) (leDec fs) (leDec off) (leDec par), r)
  else if typ = 8 then
    if b.length < 24 then none else
    let (links, r) := split 4 b
    let (fs, r) := split 4 r
    let (sb, r) := split 4 r
    let (par, r) := split 4 r
    let (ic, r) := split 2 r
    let (off, r) := split 2 r
    let (xa, r) := split 4 r
    if leDec ic = 0 then some (.extDir (leDec links) (leDec fs) (leDec sb) (leDec par) (leDec off) (leDec xa), r) else none
  else if typ = 2 then
    if b.length < 16 then none else
    let (st, r) := split 4 b
    let (fr, r) := split 4 r
    let (fo, r) := split 4 r
    let (fs, r) := split 4 r
    match decodeBlks (blockCount bs (leDec fs) (leDec fr)) r with
    | some (bl, r) => some (.basicFile (leDec st) (leDec fr) (leDec fo) (leDec fs) bl, r)
    | none => none
  else if typ = 9 then
    if b.length < 40 then none else
    let (st, r) := split 8 b
    let (fs, r) := split 8 r
    let (sp, r) := split 8 r
    let (links, r) := split 4 r
    let (fr, r) := split 4 r
    let (fo, r) := split 4 r
    let (xa, r) := split 4 r
    match decodeBlks (blockCount bs (leDec fs) (leDec fr)) r with
    | some (bl, r) => some (.extFile (leDec st) (leDec fs) (leDec sp) (leDec links) (leDec fr) (leDec fo) (leDec xa) bl, r)
    | none => none
  else if typ = 3 then
    if b.length < 8 then none else
    let (links, r) := split 4 b
    let (tl, r) := split 4 r
    if r.length < leDec tl then none else
    some (.basicSymlink (leDec links) (r.take (leDec tl)), r.drop (leDec tl))
  else none

/-- `parseInodeHeader` + `parseInodeBody` at the front of a metadata stream -/
def decodeInode (bs : Nat) (b : Bytes) : Option (Inode × Bytes) :=
  if b.length < 16 then none else
  let (ty, r) := split 2 b
  let (mode, r) := split 2 r
  let (uid, r) := split 2 r
  let (gid, r) := split 2 r
  let (mt, r) := split 4 r
  let (ix, r) := split 4 r
  match decodeBody bs (leDec ty) r with
  | some (body, rest) =>
    some ({ hdr := { mode := leDec mode, uid := leDec uid, gid := leDec gid, mtime := leDec mt, index := leDec ix }, body := body }, rest)
  | none => none

def Blk.WF (b : Blk) : Prop := b.size < 2 ^ 24

def IBody.WF (bs : Nat) : IBody → Prop
  | .basicDir sb links fs off par => sb < 2 ^ 32 ∧ links < 2 ^ 32 ∧ fs < 2 ^ 16 ∧ off < 2 ^ 16 ∧ par < 2 ^ 32
  | .extDir links fs sb par off xa => links < 2 ^ 32 ∧ fs < 2 ^ 32 ∧ sb < 2 ^ 32 ∧ par < 2 ^ 32 ∧ off < 2 ^ 16 ∧ xa < 2 ^ 32
  | .basicFile st fr fo fs bl =>
    st < 2 ^ 32 ∧ fr < 2 ^ 32 ∧ fo < 2 ^ 32 ∧ fs < 2 ^ 32 ∧ (∀ b ∈ bl, b.WF) ∧ bl.length = blockCount bs fs fr
  | .extFile st fs sp links fr fo xa bl =>
    st < 2 ^ 64 ∧ fs < 2 ^ 64 ∧ sp < 2 ^ 64 ∧ links < 2 ^ 32 ∧ fr < 2 ^ 32 ∧ fo < 2 ^ 32 ∧ xa < 2 ^ 32 ∧
    (∀ b ∈ bl, b.WF) ∧ bl.length = blockCount bs fs fr
  | .basicSymlink links t => links < 2 ^ 32 ∧ t.length < 2 ^ 32

def Inode.WF (bs : Nat) (i : Inode) : Prop :=
  i.hdr.mode < 2 ^ 16 ∧ i.hdr.uid < 2 ^ 16 ∧ i.hdr.gid < 2 ^ 16 ∧ i.hdr.mtime < 2 ^ 32 ∧ i.hdr.index < 2 ^ 32 ∧ i.body.WF bs

/-- byte size of an inode (what `updateInodeLocations` adds up) -/
def Inode.size (i : Inode) : Nat :=
  16 + match i.body with
    | .basicDir .. => 16 | .extDir .. => 24
    | .basicFile _ _ _ _ bl => 16 + 4 * bl.length
    | .extFile _ _ _ _ _ _ _ bl => 40 + 4 * bl.length
    | .basicSymlink _ t => 8 + t.length

/-! ### directory table -/

structure DEnt where
  offset : Nat        -- offset of the inode inside its metadata block
  inodeNumber : Nat
  typ : Nat           -- basic inode type of the entry
  name : Bytes
  startBlock : Nat    -- metadata block of the inode (carried by the header)
deriving DecidableEq, Repr

/-- `directoryEntryRaw.toBytes(base)`: the inode number is stored as a 16-bit difference -/
def encodeDEnt (base : Nat) (e : DEnt) : Bytes :=
  leEnc 2 e.offset ++ (leEnc 2 ((e.inodeNumber + 2 ^ 32 - base) % 2 ^ 32) ++ (leEnc 2 e.typ ++ (leEnc 2 (e.name.length - 1) ++ e.name)))

/-- the longest prefix with inode block `sb`, at most `n` entries -/
def takeGroup (sb : Nat) : Nat → List DEnt → List DEnt
  | 0, _ => []
  | _, [] => []
  | n+1, e :: r => if e.startBlock = sb then e :: takeGroup sb n r else []

def maxDirEntries : Nat := 256

/-- `directory.toBytes(base)`: header (count-1, inode block, base) + entries, group after group -/
def encodeDir (base : Nat) : Nat → List DEnt → Bytes
  | 0, _ => []
  | _, [] => []
  | fuel+1, e :: r =>
    let g := takeGroup e.startBlock maxDirEntries (e :: r)
    leEnc 4 (g.length - 1) ++ (leEnc 4 e.startBlock ++ (leEnc 4 base ++
      ((g.map (encodeDEnt base)).flatten ++ encodeDir base fuel ((e :: r).drop g.length))))

def encodeListing (base : Nat) (es : List DEnt) : Bytes := encodeDir base es.length es

/-- `parseDirectoryEntry` -/
def decodeDEnt (base sb : Nat) (b : Bytes) : Option (DEnt × Bytes) :=
  if b.length < 8 then none else
  let (off, r) := split 2 b
  let (ino, r) := split 2 r
  let (ty, r) := split 2 r
  let (nl, r) := split 2 r
  if leDec nl > 256 ∨ r.length < leDec nl + 1 then none else
  some ({ offset := leDec off, inodeNumber := leDec ino + base, typ := leDec ty, name := r.take (leDec nl + 1), startBlock := sb },
        r.drop (leDec nl + 1))

def decodeDEnts (base sb : Nat) : Nat → Bytes → Option (List DEnt × Bytes)
  | 0, b => some ([], b)
  | n+1, b =>
    match decodeDEnt base sb b with
    | some (e, r) =>
      match decodeDEnts base sb n r with
      | some (l, r2) => some (e :: l, r2)
      | none => none
    | none => none

/-- `parseDirectory`: headers and their entries until fewer than 12 bytes are left -/
def decodeDir : Nat → Bytes → Option (List DEnt)
  | 0, _ => none
  | fuel+1, b =>
    if b.length < 12 then some [] else
    let (cnt, r) := split 4 b
    let (sb, r) := split 4 r
    let (ino, r) := split 4 r
    if leDec cnt + 1 > maxDirEntries then none else
    match decodeDEnts (leDec ino) (leDec sb) (leDec cnt + 1) r with
    | some (l, r2) =>
      match decodeDir fuel r2 with
      | some rest => some (l ++ rest)
      | none => none
    | none => none

def DEnt.WF (base : Nat) (e : DEnt) : Prop :=
  e.offset < 2 ^ 16 ∧ e.typ < 2 ^ 16 ∧ 0 < e.name.length ∧ e.name.length ≤ 257 ∧ e.startBlock < 2 ^ 32 ∧
  base ≤ e.inodeNumber ∧ e.inodeNumber < base + 2 ^ 16

end Diskfs.Sqfs
