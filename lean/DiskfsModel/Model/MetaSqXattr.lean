/-
  squashfs extended attributes, reader side: mirror of xAttrTable.find (filesystem/squashfs/xattr.go).

  An xattr id names `count` attributes stored back to back from a byte position of the key/value data:
    type u16 | name size u16 | name | value size u32 | value
  find walks them with a cursor `ptr` into b = data[pos:].  As found the cursor was advanced with
  `ptr += valStart + valSize` although valStart already counts from the start of b (switch fixed = false):
  right for the first two attributes, too far from the third on.  Core Lean only (linked into vd-meta).
-/
import DiskfsModel.Core.Bytes
namespace Diskfs.Meta.SqXattr
open Diskfs

structure Attr where
  typ  : Nat      -- prefix id (0 user, 1 trusted, 2 security); not looked at by find
  name : Bytes    -- without the prefix
  val  : Bytes
deriving Repr, DecidableEq

def encAttr (a : Attr) : Bytes :=
  leEnc 2 a.typ ++ (leEnc 2 a.name.length ++ (a.name ++ (leEnc 4 a.val.length ++ a.val)))

def encSet : List Attr → Bytes
  | [] => []
  | a :: as => encAttr a ++ encSet as

/-- `n` bytes of `b` from `off` -/
def sub (b : Bytes) (off n : Nat) : Bytes := (b.drop off).take n

/-- one attribute at cursor `ptr`: name, value, and the position behind it (valStart + valSize);
    `none` is every error return of the Go loop body (and the slice panic of a cursor behind the end) -/
def step (b : Bytes) (ptr : Nat) : Option (Bytes × Bytes × Nat) :=
  if b.length < ptr + 4 then none else
  let xSize := leDec (sub b (ptr + 2) 2)
  let nameStart := ptr + 4
  let valHeaderStart := nameStart + xSize
  let valStart := valHeaderStart + 4
  if b.length < nameStart + xSize then none else
  if xSize < 1 then none else
  if b.length < valHeaderStart + 4 then none else
  let valSize := leDec (sub b valHeaderStart 4)
  if b.length < valStart + valSize then none else
  some (sub b nameStart xSize, sub b valStart valSize, valStart + valSize)

/-- the loop of find: `count` attributes from cursor `ptr` -/
def walk (fixed : Bool) (b : Bytes) : Nat → Nat → Option (List (Bytes × Bytes))
  | 0, _ => some []
  | n + 1, ptr =>
    match step b ptr with
    | none => none
    | some (k, v, e) => (walk fixed b n (if fixed then e else ptr + e)).map ((k, v) :: ·)

/-- find for an id entry (pos, count) over the whole key/value data -/
def find (fixed : Bool) (data : Bytes) (pos count : Nat) : Option (List (Bytes × Bytes)) :=
  if data.length ≤ pos then none else walk fixed (data.drop pos) count 0

def WfAttr (a : Attr) : Prop := 1 ≤ a.name.length ∧ a.name.length < 65536 ∧ a.val.length < 4294967296

end Diskfs.Meta.SqXattr
