/-
  C18 — logic cores of the readers that consume untrusted on-disk fields.
  * FAT cluster-chain walk (filesystem/fat12/fat12.go getClusterList): `walkLoop` mirrors the loop as
    found at the pinned commit (no visited set, no length bound); `walkLoopB` mirrors the loop with the
    length bound of the repair (a chain cannot be longer than the FAT has entries).
  * `Checked`: readers that take every slice through `slice?` and turn `none` into an error.
-/
import DiskfsModel.Core.Bytes
namespace Diskfs.Robust

structure Fat where
  next : Nat → Nat        -- ClusterValue
  isEOC : Nat → Bool
  maxCluster : Nat

inductive Res
  | ok (l : List Nat)
  | err
  | diverge
deriving DecidableEq, Repr

/-- as found: fuel stands for "iterations executed so far are bounded by nothing" -/
def walkLoop (t : Fat) : Nat → Nat → List Nat → Res
  | 0, _, _ => .diverge
  | fuel+1, c, acc =>
    let acc' := acc ++ [c]
    let n := t.next c
    if t.isEOC n then .ok acc'
    else if n > t.maxCluster then .err
    else if c < 2 then .err
    else walkLoop t fuel n acc'

/-- repaired: a chain longer than the number of FAT entries is refused -/
def walkLoopB (t : Fat) : Nat → Nat → List Nat → Res
  | 0, _, _ => .diverge
  | fuel+1, c, acc =>
    let acc' := acc ++ [c]
    if acc'.length > t.maxCluster then .err
    else
      let n := t.next c
      if t.isEOC n then .ok acc'
      else if n > t.maxCluster then .err
      else if c < 2 then .err
      else walkLoopB t fuel n acc'

def walkGuard (t : Fat) (first : Nat) : Bool := first > t.maxCluster || t.next first == 0

def walk (t : Fat) (fuel first : Nat) : Res :=
  if walkGuard t first then .err else walkLoop t fuel first []

def walkB (t : Fat) (fuel first : Nat) : Res :=
  if walkGuard t first then .err else walkLoopB t fuel first []

/-- FAT `Read` geometry divisions (fat12.go / fat16.go `Read`): `none` = Go panics with
    integer divide by zero. `checked = true` mirrors the repaired reader that validates first. -/
def fatReadDivs (checked : Bool) (bytesPerSector sectorsPerCluster rootEntries dataSectors : Nat) :
    Option (Except Unit (Nat × Nat)) :=
  if checked && (bytesPerSector == 0 || sectorsPerCluster == 0) then some (.error ())
  else if bytesPerSector == 0 || sectorsPerCluster == 0 then none
  else some (.ok ((rootEntries * 32 + bytesPerSector - 1) / bytesPerSector, dataSectors / sectorsPerCluster))

end Diskfs.Robust
