/-
  C13, disk level: which partition Disk.WritePartitionContents / ReadPartitionContents /
  sync.CopyPartitionRaw pick out of the table, and what they then do.

    disk/disk.go                GetPartition, WritePartitionContents, ReadPartitionContents
    partition/gpt/partition.go  GetStart / GetSize / sectorSizes, the start/end/size switch at the head of
                                WriteContents (uint64 arithmetic, it ASSIGNS Size or End), ReadContents
                                (a partition whose Size is 0 reads one physical chunk)
    partition/mbr/partition.go  GetStart / GetSize / sectorSizes
    sync/copy.go                CopyPartitionRaw (io.Pipe between ReadPartitionContents and
                                WritePartitionContents), sync/verify.go verifyBlockCopy

  The streaming loops themselves are Model/PartIO.lean (writeLoop / readLoop / readReqs); this file adds
  the dispatch in front of them.  Byte offsets are naturals: `start * lss` is assumed not to wrap
  (assumption of C13, see lib/props/C13.py); the start/end/size switch is modelled in uint64 as written.
  Core Lean only.
-/
import DiskfsModel.Model.PartIO
namespace Diskfs.PartDisk
open Diskfs Diskfs.PartIO

def two64 : Nat := 18446744073709551616

inductive Kind where
  | gpt | mbr
deriving Repr, DecidableEq

/-- a partition as the table (`Disk.Table.GetPartitions()`) holds it -/
structure P where
  kind : Kind
  index : Int        -- GetIndex(), a Go int
  start : Nat        -- first LBA (uint64 / uint32)
  end_ : Nat         -- last LBA (GPT only)
  size : Nat         -- GPT: bytes (uint64); MBR: sectors (uint32)
  lss : Nat          -- logicalSectorSize as stamped on the partition (0 = never set)
  pss : Nat          -- physicalSectorSize as stamped (0 = never set)
deriving Repr, DecidableEq

/-- sectorSizes(): the defaults when the partition was never stamped -/
def P.lssOf (p : P) : Nat := if p.lss = 0 then 512 else p.lss
def P.pssOf (p : P) : Nat := if p.pss = 0 then 512 else p.pss

/-- GetStart() -/
def P.byteStart (p : P) : Nat := p.start * p.lssOf

/-- GetSize() -/
def P.byteSize (p : P) : Nat :=
  match p.kind with
  | .gpt => p.size
  | .mbr => p.size * p.lssOf

/-- gpt WriteContents: `calculatedSize := (p.End - p.Start + 1) * uint64(lss)`, in uint64 -/
def calcSize (p : P) : Nat := ((p.end_ + two64 - p.start + 1) % two64 * p.lssOf) % two64

/-- the switch at the head of gpt WriteContents; it returns the partition as the call leaves it (Size or End
    assigned), `none` = "cannot reconcile".  MBR has no such step. -/
def reconcile (p : P) : Option P :=
  match p.kind with
  | .mbr => some p
  | .gpt =>
    if p.size > 0 ∧ p.size = calcSize p then some p
    else if p.size = 0 ∧ p.end_ ≥ p.start then some { p with size := calcSize p }
    else if p.size > 0 ∧ p.size % p.lssOf = 0 ∧ p.end_ = 0 then
      some { p with end_ := (p.start + p.size / p.lssOf + two64 - 1) % two64 }
    else none

/-- Partition.WriteContents: the write list, the count and ok, and the partition as left behind -/
def partWrite (p : P) (chunks : List Bytes) : Option (WRes × P) :=
  match reconcile p with
  | none => none
  | some p' => some (writeContents p'.byteStart p'.byteSize chunks, p')

/-- gpt ReadContents does not reconcile: with Size = 0 it issues one ReadAt of a physical chunk -/
def P.oneChunk (p : P) : Bool := p.kind == .gpt && p.size == 0

/-- (offset, requested length) of every ReadAt of Partition.ReadContents -/
def partReadReqs (devSize : Nat) (p : P) : List (Nat × Nat) :=
  if p.oneChunk then [(p.byteStart, p.pssOf)]
  else readReqs devSize p.byteStart p.byteSize p.pssOf 0 []

/-- Partition.ReadContents: the bytes handed to the writer and the count returned -/
def partRead (d : Dev) (devSize : Nat) (p : P) : Bytes × Nat :=
  if p.oneChunk then
    let n := min p.pssOf (devSize - p.byteStart)
    (readAt d p.byteStart n, n)
  else readContents d devSize p.byteStart p.byteSize p.pssOf

/-- the pieces ReadContents hands to `out.Write`, one per ReadAt (the device returns what it has) -/
def partReadChunks (d : Dev) (devSize : Nat) (p : P) : List Bytes :=
  (partReadReqs devSize p).map fun r => readAt d r.1 (min r.2 (devSize - r.1))

/-! ### Disk -/

/-- Disk.GetPartition: the first partition of the table whose index is `idx` -/
def getPartition (ps : List P) (idx : Int) : Option P := ps.find? (fun p => p.index == idx)

inductive DW where
  | noTable | badIndex | reconcileErr
  | done (r : WRes)
deriving Repr

/-- Disk.WritePartitionContents (`tbl = none`: Disk.Table is nil) -/
def diskWrite (tbl : Option (List P)) (idx : Int) (chunks : List Bytes) : DW :=
  match tbl with
  | none => .noTable
  | some ps =>
    match getPartition ps idx with
    | none => .badIndex
    | some p =>
      match partWrite p chunks with
      | none => .reconcileErr
      | some (r, _) => .done r

def DW.ws : DW → List Wr
  | .done r => r.ws
  | _ => []

inductive DR where
  | noTable | badIndex
  | done (b : Bytes) (n : Nat) (reqs : List (Nat × Nat))
deriving Repr

/-- Disk.ReadPartitionContents -/
def diskRead (d : Dev) (devSize : Nat) (tbl : Option (List P)) (idx : Int) : DR :=
  match tbl with
  | none => .noTable
  | some ps =>
    match getPartition ps idx with
    | none => .badIndex
    | some p => .done (partRead d devSize p).1 (partRead d devSize p).2 (partReadReqs devSize p)

/-! ### CopyPartitionRaw -/

/-- io.Pipe: a Read of at most `n` bytes is served from ONE pending Write, so a piece written by
    ReadContents reaches WriteContents cut into pieces of at most `n` bytes -/
def splitEvery (n : Nat) (c : Bytes) : List Bytes :=
  if n = 0 ∨ c.length = 0 then [] else c.take n :: splitEvery n (c.drop n)
termination_by c.length
decreasing_by simp only [List.length_drop]; omega

inductive COut where
  | ok | errWrite | errRead | errMismatch | errVerify
deriving Repr, DecidableEq

structure CopyRes where
  ws : List Wr
  out : COut
deriving Repr

/-- sync.CopyPartitionRaw(d, from, to) over the table `ps`, the two goroutines composed sequentially
    (`copy_reads_stable` in Props/C13.lean: no write of the copy can change what a later source read
    returns when the two ranges are disjoint, so every interleaving reads the same bytes).
    verifyBlockCopy compares SHA-256 digests; the model compares the bytes. -/
def copyRaw (d : Dev) (devSize : Nat) (ps : List P) (from_ to : Int) : CopyRes :=
  let src := getPartition ps from_
  let srcChunks := match src with
    | none => []
    | some sp => partReadChunks d devSize sp
  let n := (srcChunks.map List.length).sum
  match getPartition ps to with
  | none => ⟨[], .errWrite⟩
  | some tp =>
    match reconcile tp with
    | none => ⟨[], .errWrite⟩
    | some tp' =>
      let r := writeContents tp'.byteStart tp'.byteSize (srcChunks.flatMap (splitEvery tp'.pssOf))
      if n > tp'.byteSize then ⟨r.ws, .errWrite⟩
      else match src with
        | none => ⟨r.ws, .errRead⟩
        | some sp =>
          if n ≠ r.total then ⟨r.ws, .errMismatch⟩
          else
            let sp' := if from_ = to then tp' else sp
            let d' := applyWrs d r.ws
            if sp'.byteSize < n ∨ tp'.byteSize < n then ⟨r.ws, .errVerify⟩
            else if (partRead d' devSize sp').1.take n = (partRead d' devSize tp').1.take n then ⟨r.ws, .ok⟩
            else ⟨r.ws, .errVerify⟩

end Diskfs.PartDisk
