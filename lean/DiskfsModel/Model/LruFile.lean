/-
  The squashfs read paths ABOVE the block cache, as clients of the machine of Model/Lru.lean.

  What the Go code does today (filesystem/squashfs/file.go, squashfs.go):
    * `File.Read` walks the inode's block list.  A data block comes from the handle's own
      last-block cache (`fl.blockLocation == location && fl.blockSize == block.size && fl.block != nil`)
      or from `fs.readBlock`, which reads the DEVICE DIRECTLY (`fs.backend.ReadAt`, a fresh buffer per
      call, decompressed if the size word says so; stored size 0 = a fresh block of zeros) — data
      blocks never pass through the LRU.  The tail of the file comes from `fs.readFragment`, which is
      ONE `fs.cache.get(fragments[index].start, …)` followed by a bounds check and a sub-slice.
      `outputBlock` copies the wanted part of the input into the caller's buffer.
    * metadata (`readMetaBlock`, used by Open / ReadDir / Stat) is one `fs.cache.get(location, …)` per
      metadata block; which block is read next depends on the bytes of the previous ones.
  Shared mutable state reachable from two handles: the LRU only (pinned by the regenerated facts
  `noSharedWrites…` of Generated/Lru.lean).  Everything else a reader touches is either its own
  handle (`HSt`: cursor and last block, an immutable value here) or immutable after `Read`
  (`FileD`: the inode; `Image`: the device and the fragment table).

  `Client ρ` is a goroutine whose only access to shared state is the cache: a deterministic
  strategy that decides its next cache call from what the earlier ones returned.  `handleC` is the
  client "one handle, a program of Read / Seek / SetCacheSize calls".

  Core Lean only (linked into vd-lru).
-/
import DiskfsModel.Model.Lru
import DiskfsModel.Core.Bytes
import DiskfsModel.Spec.Reader
namespace Diskfs.Lru
open Diskfs.Spec (Whence)

/-! ### adaptive clients of the cache -/

/-- a goroutine that touches shared state only through `lru.get` / `lru.setMaxBlocks`;
    `k none` is the continuation after a get that returned an error -/
inductive Client (ρ : Type) where
  | done (r : ρ)
  | get (pos : Pos) (k : Option Data → Client ρ)
  | setMax (n : Int) (k : Client ρ)

namespace Client

/-- the calls the client makes when it runs ALONE and no fetch fails: every `get pos` returns `disk pos` -/
def ops (disk : Pos → Data) : Client ρ → List Op
  | .done _ => []
  | .get pos k => Op.get pos true :: (k (some (disk pos))).ops disk
  | .setMax n k => Op.setMax n :: k.ops disk

/-- … and what it then answers -/
def result (disk : Pos → Data) : Client ρ → ρ
  | .done r => r
  | .get pos k => (k (some (disk pos))).result disk
  | .setMax _ k => k.result disk

/-- follow the client along a list of calls with what they ACTUALLY returned; `none` = these are
    not the calls this client makes -/
def feed : Client ρ → List (Op × Ret) → Option (Client ρ)
  | c, [] => some c
  | .get pos k, (.get p _, r) :: rest => if p = pos then (k r.value).feed rest else none
  | .setMax n k, (.setMax m, _) :: rest => if m = n then k.feed rest else none
  | .done _, _ :: _ => none
  | .get _ _, (.setMax _, _) :: _ => none
  | .setMax _ _, (.get _ _, _) :: _ => none

def isDone : Client ρ → Bool
  | .done _ => true
  | _ => false

end Client

/-! ### an open file -/

/-- one entry of `fl.blockSizes` -/
structure BlockD where
  size : Nat            -- stored size; 0 = sparse
  compressed : Bool
deriving Repr, DecidableEq

/-- what `File.Read` uses of the inode and the fragment table (immutable after `OpenFile`) -/
structure FileD where
  bs : Nat                       -- fs.blocksize
  size : Nat                     -- fl.size()
  start : Nat                    -- fl.blocksStart
  blocks : List BlockD           -- fl.blockSizes
  frag : Option (Pos × Nat)      -- (fs.fragments[fl.fragmentBlockIndex].start, fl.fragmentOffset); none = 0xffffffff
deriving Repr

/-- the immutable image as the readers see it -/
structure Image where
  /-- `fs.readBlock(location, compressed, size)` for `size > 0`: device bytes, decompressed if asked -/
  dev : Nat → Nat → Bool → Bytes
  /-- the bytes a cache value stands for (`block.data`) -/
  blk : Data → Bytes

/-- the handle: `fl.offset` and the last block (`fl.blockLocation`, `fl.blockSize`, `fl.block`; `none` = `fl.block == nil`) -/
structure HSt where
  off : Nat
  last : Option (Nat × Nat × Bytes)
deriving Repr, DecidableEq

inductive HOp where
  | read (n : Nat)                 -- Read(b), len(b) = n
  | seek (w : Whence) (o : Int)
  | setCache (c : Int)             -- fs.SetCacheSize(c) called by the goroutine that owns the handle
deriving Repr

inductive HOut where
  | data (d : Bytes) (eof : Bool)  -- Read: (len d, nil | io.EOF)
  | err (d : Bytes)                -- Read: (len d, some other error)
  | pos (ret : Option Nat)         -- Seek: (p, nil) | error
  | resized
deriving Repr, DecidableEq

/-- an answer together with the number of DEVICE reads of data blocks the call made (`readBlock` with
    a stored size > 0): what went straight to the device, past both caches -/
structure HRes where
  out : HOut
  devReads : Nat
deriving Repr, DecidableEq

/-! ### `File.Read` -/

structure RSt where
  off : Nat                           -- fl.offset
  out : Bytes                         -- b[:read]
  last : Option (Nat × Nat × Bytes)
  devReads : Nat
deriving Repr

/-- the closure `outputBlock(input)`, `pos` = file position of `input[0]` -/
def outputBlock (offsetEnd nbuf pos : Nat) (input : Bytes) (st : RSt) : RSt :=
  if pos ≤ st.off ∧ st.off - pos < input.length then
    let start := st.off - pos
    let e := min (offsetEnd - pos) input.length
    let piece := ((input.drop start).take (e - start)).take (nbuf - st.out.length)   -- copy(b[read:], input[start:end])
    { st with off := st.off + piece.length, out := st.out ++ piece }
  else st

/-- the input for the data block at `loc`: the handle's last block if its key matches, else `readBlock`
    (and that block becomes the handle's last block) -/
def blockInput (im : Image) (bs loc : Nat) (b : BlockD) (st : RSt) : Bytes × RSt :=
  let hit : Option Bytes := match st.last with
    | some (l, s, d) => if l = loc ∧ s = b.size then some d else none
    | none => none
  match hit with
  | some d => (d, st)
  | none =>
    let d := if b.size = 0 then zeros bs else im.dev loc b.size b.compressed
    (d, { st with last := some (loc, b.size, d), devReads := st.devReads + (if b.size = 0 then 0 else 1) })

/-- `for i, block := range fl.blockSizes { … location += block.size; pos += blocksize }` -/
def blockLoop (im : Image) (bs offsetEnd nbuf maxRead startBlock endP1 : Nat) :
    List BlockD → Nat → Nat → RSt → RSt
  | [], _, _, st => st
  | b :: rest, i, loc, st =>
    if endP1 ≤ i ∨ maxRead ≤ st.out.length then st                  -- i > endBlock || read >= maxRead
    else
      let st' := if startBlock ≤ i then
          let r := blockInput im bs loc b st
          outputBlock offsetEnd nbuf (i * bs) r.1 r.2
        else st
      blockLoop im bs offsetEnd nbuf maxRead startBlock endP1 rest (i + 1) (loc + b.size) st'

/-- the error decision at the end of `Read` -/
def readFinish (f : FileD) (maxRead : Nat) (st : RSt) : HRes × HSt :=
  if f.size ≤ st.off then (⟨.data st.out true, st.devReads⟩, ⟨st.off, st.last⟩)
  else if st.out.length = 0 ∧ 0 < maxRead then (⟨.err st.out, st.devReads⟩, ⟨st.off, st.last⟩)
  else (⟨.data st.out false, st.devReads⟩, ⟨st.off, st.last⟩)

/-- `Read` up to the point where the tail fragment is needed (or not): the state after the block loop
    and whether `readFragment` is called -/
def readPre (im : Image) (f : FileD) (h : HSt) (n : Nat) : RSt × Bool :=
  let maxRead := min n (f.size - h.off)
  let startBlock := h.off / f.bs
  let endBlock := (h.off + maxRead - 1) / f.bs
  let fragments := decide (f.blocks.length ≤ endBlock)
  let endP1 := if fragments then endBlock else endBlock + 1
  let st := blockLoop im f.bs (h.off + maxRead) n maxRead startBlock endP1 f.blocks 0 f.start ⟨h.off, [], h.last, 0⟩
  (st, decide (st.out.length < maxRead) && fragments)

/-- the rest of `Read` once `fs.cache.get(pos, …)` of `readFragment` has returned `r` -/
def readFrag (im : Image) (f : FileD) (n : Nat) (h : HSt) (foff : Nat) (st : RSt) (r : Option Data) : HRes × HSt :=
  match r with
  | none => (⟨.err st.out, st.devReads⟩, ⟨st.off, st.last⟩)
  | some d =>
    let data := im.blk d
    let fsz := f.size % f.bs
    if data.length < foff + fsz then (⟨.err st.out, st.devReads⟩, ⟨st.off, st.last⟩)   -- "does not fit fragment block"
    else
      let maxRead := min n (f.size - h.off)
      readFinish f maxRead
        (outputBlock (h.off + maxRead) n (f.blocks.length * f.bs) ((data.drop foff).take fsz) st)

/-- `File.Read(b)` with `len(b) = n` on an open regular file, continuation-passing -/
def readC (im : Image) (f : FileD) (h : HSt) (n : Nat) (k : HRes → HSt → Client ρ) : Client ρ :=
  if f.size ≤ h.off then k ⟨.data [] true, 0⟩ h                       -- size <= 0: (0, io.EOF)
  else
    let p := readPre im f h n
    if p.2 then
      match f.frag with
      | none => k ⟨.err p.1.out, p.1.devReads⟩ ⟨p.1.off, p.1.last⟩   -- "expecting fragment … but no fragment found"
      | some (pos, foff) => .get pos fun r => let x := readFrag im f n h foff p.1 r; k x.1 x.2
    else
      let x := readFinish f (min n (f.size - h.off)) p.1
      k x.1 x.2

/-- `File.Seek` -/
def seekH (f : FileD) (h : HSt) (w : Whence) (o : Int) : HRes × HSt :=
  let t := Spec.seekTarget f.size h.off w o
  if t < 0 then (⟨.pos none, 0⟩, h) else (⟨.pos (some t.toNat), 0⟩, { h with off := t.toNat })

/-- `SetCacheSize(c)`: `blocks := c / blocksize; if blocks <= 0 { blocks = 0 }` -/
def cacheBlocks (bs : Nat) (c : Int) : Int := max 0 (c / (bs : Int))

/-- one goroutine, one handle, a program of calls; answers oldest first -/
def handleC (im : Image) (f : FileD) : HSt → List HOp → List HRes → Client (List HRes)
  | _, [], acc => .done acc.reverse
  | h, .read n :: ops, acc => readC im f h n (fun r h' => handleC im f h' ops (r :: acc))
  | h, .seek w o :: ops, acc => handleC im f (seekH f h w o).2 ops ((seekH f h w o).1 :: acc)
  | h, .setCache c :: ops, acc => .setMax (cacheBlocks f.bs c) (handleC im f h ops (⟨.resized, 0⟩ :: acc))

/-- a fresh handle -/
def HSt.fresh : HSt := ⟨0, none⟩

end Diskfs.Lru
