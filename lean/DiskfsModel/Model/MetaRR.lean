/-
  Rock Ridge time stamps and the TF record (property C19), second part of the Rock Ridge mirrors:
    iso9660/directoryentry.go      timeToBytes / bytesToTime        (7-byte stamp, also the directory record date)
    iso9660/volume_descriptor.go   timeToDecBytes / decBytesToTime  (17-byte stamp: 16 decimal digits + zone byte)
    iso9660/rockridge.go           rockRidgeTimestamps.Bytes / parseTimestamps (TF), the both-endian fields of PX
  A stamp is the civil time Go's `time` package hands to the encoders (year, month, … in the time's own
  zone, and the zone offset in seconds) resp. the arguments the decoders hand to time.Date / time.Parse.
  The conversion between instants and civil times is Go's, not modelled.  Core Lean only.
-/
import DiskfsModel.Model.MetaCodec
namespace Diskfs.Meta

/-- `int8(b)` -/
def int8 (n : Nat) : Int := if n % 256 < 128 then ((n % 256 : Nat) : Int) else ((n % 256 : Nat) : Int) - 256

/-- `byte(i)` of a Go int -/
def byteOfInt (i : Int) : UInt8 := UInt8.ofNat (i % 256).toNat

structure Stamp where
  year : Int
  month : Nat
  day : Nat
  hour : Nat
  minute : Nat
  second : Nat
  csec : Nat       -- hundredths of a second (long form only)
  offset : Int     -- zone offset, seconds east of UTC
deriving Repr, DecidableEq

/-- `offset / 60 / 15` with Go's truncating division: quarter hours east of UTC -/
def tzQuarters (offset : Int) : Int := (offset.tdiv 60).tdiv 15

/-! ### 7-byte form -/

/-- timeToBytes -/
def stamp7Enc (s : Stamp) : Bytes :=
  [byteOfInt (s.year - 1900), UInt8.ofNat s.month, UInt8.ofNat s.day, UInt8.ofNat s.hour, UInt8.ofNat s.minute,
   UInt8.ofNat s.second, byteOfInt (tzQuarters s.offset)]

/-- bytesToTime: the arguments of time.Date and time.FixedZone -/
def stamp7Dec (b : Bytes) : Stamp :=
  ⟨1900 + ((b.getD 0 0).toNat : Int), (b.getD 1 0).toNat, (b.getD 2 0).toNat, (b.getD 3 0).toNat, (b.getD 4 0).toNat,
   (b.getD 5 0).toNat, 0, int8 (b.getD 6 0).toNat * 900⟩

/-- what the 7-byte form can hold: years 1900..2155, one-byte fields, zone offsets of -128..127 quarter hours -/
def Stamp7WF (s : Stamp) : Prop :=
  1900 ≤ s.year ∧ s.year ≤ 2155 ∧ s.month < 256 ∧ s.day < 256 ∧ s.hour < 256 ∧ s.minute < 256 ∧ s.second < 256 ∧
  -128 ≤ tzQuarters s.offset ∧ tzQuarters s.offset ≤ 127

/-- what comes back: no fraction of a second, the zone offset cut to whole quarter hours -/
def stamp7Norm (s : Stamp) : Stamp := { s with csec := 0, offset := tzQuarters s.offset * 900 }

/-! ### 17-byte form -/

def digit (n : Nat) : UInt8 := UInt8.ofNat (48 + n % 10)

/-- the first four decimal digits of a year (`copy(b[0:4], fmt.Sprintf("%04s", strconv.Itoa(year)))`: a year of
    five digits and more loses its tail) -/
def first4 : Nat → Nat → Nat
  | 0, y => y
  | f + 1, y => if y < 10000 then y else first4 f (y / 10)

def enc4 (y : Nat) : Bytes :=
  let v := first4 y y
  [digit (v / 1000), digit (v / 100), digit (v / 10), digit v]

/-- two digits of a value below 100 (month, day, hour, minute, second, hundredths) -/
def enc2 (n : Nat) : Bytes := [digit (n / 10), digit n]

/-- timeToDecBytes for a year that is not negative -/
def stamp17Enc (s : Stamp) : Bytes :=
  enc4 s.year.toNat ++ enc2 s.month ++ enc2 s.day ++ enc2 s.hour ++ enc2 s.minute ++ enc2 s.second ++ enc2 s.csec ++
    [byteOfInt (tzQuarters s.offset)]

def isDigit (c : UInt8) : Bool := 48 ≤ c.toNat && c.toNat ≤ 57

def num (b : Bytes) : Nat := b.foldl (fun a c => a * 10 + (c.toNat - 48)) 0

def isLeap (y : Nat) : Bool := y % 4 = 0 && (y % 100 ≠ 0 || y % 400 = 0)

def daysIn (y m : Nat) : Nat :=
  if m = 2 then (if isLeap y then 29 else 28)
  else if m = 4 ∨ m = 6 ∨ m = 9 ∨ m = 11 then 30 else 31

/-- decBytesToTime: the digits are put into an RFC 3339 string and handed to time.Parse, which refuses anything
    but digits, months outside 1..12, days the month does not have, hours from 24, minutes and seconds from 60,
    and zone offsets of more than 24 hours -/
def stamp17Dec (b : Bytes) : Option Stamp :=
  if b.length ≠ 17 then none
  else if !(b.take 16).all isDigit then none
  else
    let y := num (slice b 0 4)
    let mo := num (slice b 4 6)
    let d := num (slice b 6 8)
    let h := num (slice b 8 10)
    let mi := num (slice b 10 12)
    let s := num (slice b 12 14)
    let cs := num (slice b 14 16)
    let q := int8 (b.getD 16 0).toNat
    if mo < 1 ∨ 12 < mo ∨ d < 1 ∨ daysIn y mo < d ∨ 24 ≤ h ∨ 60 ≤ mi ∨ 60 ≤ s ∨ 24 < q.natAbs * 15 / 60 then none
    else some ⟨(y : Int), mo, d, h, mi, s, cs, q * 900⟩

/-- a civil time the 17-byte form holds and time.Parse accepts -/
def Stamp17WF (s : Stamp) : Prop :=
  0 ≤ s.year ∧ s.year ≤ 9999 ∧ 1 ≤ s.month ∧ s.month ≤ 12 ∧ 1 ≤ s.day ∧ s.day ≤ daysIn s.year.toNat s.month ∧
  s.hour < 24 ∧ s.minute < 60 ∧ s.second < 60 ∧ s.csec < 100 ∧
  -99 ≤ tzQuarters s.offset ∧ tzQuarters s.offset ≤ 99

def stamp17Norm (s : Stamp) : Stamp := { s with offset := tzQuarters s.offset * 900 }

/-! ### TF -/

/-- a TF record: the form and the seven possible stamps in bit order (creation 1, modify 2, access 4,
    attributes 8, backup 16, expiration 32, effective 64).  rockRidgeTimestamps.Bytes sorts its stamps by that
    bit, so a list with at most one stamp per kind is this. -/
structure Tf where
  long : Bool
  slots : List (Option Stamp)
deriving Repr, DecidableEq

def encStamp (long : Bool) (s : Stamp) : Bytes := if long then stamp17Enc s else stamp7Enc s
def decStamp (long : Bool) (b : Bytes) : Option Stamp := if long then stamp17Dec b else some (stamp7Dec b)
def stampLen (long : Bool) : Nat := if long then 17 else 7

def flagsOf : List (Option Stamp) → Nat
  | [] => 0
  | s :: r => (if s.isSome then 1 else 0) + 2 * flagsOf r

def present : List (Option Stamp) → Nat
  | [] => 0
  | s :: r => (if s.isSome then 1 else 0) + present r

def tfBody (long : Bool) : List (Option Stamp) → Bytes
  | [] => []
  | none :: r => tfBody long r
  | some s :: r => encStamp long s ++ tfBody long r

/-- rockRidgeTimestamps.Bytes -/
def tfEnc (t : Tf) : Bytes :=
  [84, 70, UInt8.ofNat (5 + stampLen t.long * present t.slots), 1,
   UInt8.ofNat ((if t.long then 128 else 0) + flagsOf t.slots % 128)] ++ tfBody t.long t.slots

/-- the loop of parseTimestamps over the seven kinds: `n` kinds left, `f` the flag bits from the current kind up -/
def tfDecSlots (long : Bool) : Nat → Nat → Bytes → Option (List (Option Stamp))
  | 0, _, _ => some []
  | n + 1, f, b =>
    if f % 2 = 0 then (tfDecSlots long n (f / 2) b).map (none :: ·)
    else if b.length < stampLen long then none
    else
      match decStamp long (b.take (stampLen long)) with
      | none => none
      | some s => (tfDecSlots long n (f / 2) (b.drop (stampLen long))).map (some s :: ·)

/-- parseTimestamps -/
def tfDec (b : Bytes) : Option Tf :=
  if (b.getD 2 0).toNat ≠ b.length ∨ b.length < 5 ∨ (b.getD 3 0).toNat ≠ 1 then none
  else
    let flags := (b.getD 4 0).toNat
    let long := flags / 128 % 2 = 1
    (tfDecSlots long 7 (flags % 128) (b.drop 5)).map (fun sl => ⟨long, sl⟩)

/-! ### PX: the big-endian halves -/

/-- the big-endian copies of the four both-endian fields of a PX record -/
def pxBigEndian (b : Bytes) : Nat × Nat × Nat × Nat :=
  (beDec (slice b 8 12), beDec (slice b 16 20), beDec (slice b 24 28), beDec (slice b 32 36))

def pxLittleEndian (b : Bytes) : Nat × Nat × Nat × Nat :=
  (leDec (slice b 4 8), leDec (slice b 12 16), leDec (slice b 20 24), leDec (slice b 28 32))

end Diskfs.Meta
