/-
  ISO9660 on-disk codecs mirrored from go-diskfs: both-endian fields, the 7-byte directory record
  date, the directory record (`directoryEntry.toBytes` without SUSP / `dirEntryFromBytes`), and
  path table records (`pathTable.toLBytes` / `toMBytes` / `parsePathTable`).  Core Lean only.
-/
import DiskfsModel.Core.Bytes
namespace Diskfs.Iso

def both32 (n : Nat) : Bytes := leEnc 4 n ++ beEnc 4 n
def both16 (n : Nat) : Bytes := leEnc 2 n ++ beEnc 2 n

def split (n : Nat) (b : Bytes) : Bytes × Bytes := (b.take n, b.drop n)

/-- decode a both-endian field of `2*k` bytes; `none` when the halves disagree -/
def unboth (k : Nat) (b : Bytes) : Option Nat :=
  if b.length = 2 * k ∧ leDec (b.take k) = beDec (b.drop k) then some (leDec (b.take k)) else none

structure DirRec where
  loc : Nat
  size : Nat
  date : Bytes      -- 7 bytes: years since 1900, month, day, hour, minute, second, offset in 15 min units
  flags : UInt8
  name : Bytes      -- identifier: [0] self, [1] parent, otherwise the name
deriving DecidableEq, Repr

/-- `timeToBytes` on broken-down time -/
def date7 (year month day hour minute second : Nat) (tz15 : Int) : Bytes :=
  [UInt8.ofNat (year - 1900), UInt8.ofNat month, UInt8.ofNat day, UInt8.ofNat hour, UInt8.ofNat minute,
   UInt8.ofNat second, UInt8.ofNat (tz15 % 256).toNat]

def recPad (nameLen : Nat) : Bytes := if nameLen % 2 = 0 then [0] else []

def recLen (nameLen : Nat) : Nat := 33 + nameLen + (recPad nameLen).length

/-- `directoryEntry.toBytes(skipExt = true)`: volume sequence number 1, no extended attributes -/
def encodeRec (r : DirRec) : Bytes :=
  [UInt8.ofNat (recLen r.name.length), 0] ++ (both32 r.loc ++ (both32 r.size ++ (r.date ++
    ([r.flags, 0, 0] ++ (both16 1 ++ ([UInt8.ofNat r.name.length] ++ (r.name ++ recPad r.name.length)))))))

/-- `dirEntryFromBytes` (fields the property needs), additionally insisting that both halves of
    every both-endian field agree and that the length byte is right -/
def decodeRec (b : Bytes) : Option DirRec :=
  match b with
  | len :: _ext :: r0 =>
    let (loc8, r1) := split 8 r0
    let (size8, r2) := split 8 r1
    let (date, r3) := split 7 r2
    match r3 with
    | flags :: _ :: _ :: r4 =>
      let (_vs, r5) := split 4 r4
      match r5 with
      | nl :: r6 =>
        let (name, _) := split nl.toNat r6
        match unboth 4 loc8, unboth 4 size8 with
        | some loc, some size =>
          if len.toNat = b.length ∧ name.length = nl.toNat ∧ date.length = 7 then
            some { loc := loc, size := size, date := date, flags := flags, name := name }
          else none
        | _, _ => none
      | [] => none
    | _ => none
  | _ => none

structure PtRec where
  name : Bytes
  loc : Nat
  parent : Nat
deriving DecidableEq, Repr

def ptPad (nameLen : Nat) : Bytes := if nameLen % 2 = 1 then [0] else []

/-- one record of `toLBytes` (big = false) / `toMBytes` (big = true) -/
def encodePt (big : Bool) (r : PtRec) : Bytes :=
  [UInt8.ofNat r.name.length, 0] ++ ((if big then beEnc 4 r.loc else leEnc 4 r.loc) ++
    ((if big then beEnc 2 r.parent else leEnc 2 r.parent) ++ (r.name ++ ptPad r.name.length)))

def encodePtTable (big : Bool) (rs : List PtRec) : Bytes := (rs.map (encodePt big)).flatten

/-- one step of `parsePathTable`: the record and the rest -/
def decodePt (big : Bool) (b : Bytes) : Option (PtRec × Bytes) :=
  match b with
  | nl :: _ext :: r0 =>
    if nl.toNat = 0 then none else
    let (loc4, r1) := split 4 r0
    let (par2, r2) := split 2 r1
    let (name, r3) := split nl.toNat r2
    if loc4.length = 4 ∧ par2.length = 2 ∧ name.length = nl.toNat ∧ (ptPad nl.toNat).length ≤ r3.length then
      some ({ name := name, loc := if big then beDec loc4 else leDec loc4,
              parent := if big then beDec par2 else leDec par2 }, r3.drop (ptPad nl.toNat).length)
    else none
  | _ => none

def decodePtTable (big : Bool) : Nat → Bytes → Option (List PtRec)
  | 0, _ => none
  | fuel+1, b =>
    if b.isEmpty then some [] else
    match decodePt big b with
    | none => none
    | some (r, rest) => (decodePtTable big fuel rest).map (r :: ·)

end Diskfs.Iso
