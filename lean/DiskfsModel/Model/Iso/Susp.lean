/-
  The system use area of a directory record (SUSP / Rock Ridge) as go-diskfs writes and reads it:

    * `nmEntries` — `rockRidgeName.Bytes`: a name is cut into NM entries of at most 249 name bytes,
      all but the last flagged "continued";
    * `suspSplit` — the loop of `parseDirectoryEntryExtensions`: the raw entries of an area (an entry
      is signature, length byte, version, data; a length below 4 ends the area, padding included);
    * `parseEnt` — `parseName`, `parseSymlink` (component records, `appendComponent`),
      `parseSystemUseExtensionContinuationArea`; every other signature is kept as its signature
      (their parsers — SP, ER, ES, PD, ST, PX, TF, PN, CL, PL, RE, SF — are NOT modelled);
    * `getFilename` — `rockRidgeExtension.GetFilename` (all NM entries up to the first one that is not
      continued, fix 6806b9b); `readLink` — `directoryEntry.ReadLink` with `joinSymlinkParts`
      (fix 0fd6be8);
    * `assemble` — `dirEntryExtensionsToBytes`: the extensions that fit stay in the record, the rest
      goes to a continuation area of at most one block, pointed at by a CE entry, recursively, each
      area in the next block of the directory's continuation blocks (fix 4937c9f).  The code as
      found does not keep room for the 28 bytes of the CE entry (`reserve = false`, recorded finding
      iso-rr-ce-record-overflow); `reserve = true` is the repaired rule;
    * `collect` — the loop of `parseDirEntry`: while the last entry is a CE entry, read the area it
      points at, parse it and put its entries in the place of the CE entry (at most 64 areas).
  Core Lean only.
-/
import DiskfsModel.Model.Iso.Codec
import DiskfsModel.Model.Gpt
namespace Diskfs.Iso

/-! ### NM -/

def nmMax : Nat := 249     -- directoryEntryMaxSize (254) - 5

def nmEntry (cont : Bool) (part : Bytes) : Bytes :=
  [78, 77, UInt8.ofNat (5 + part.length), 1, if cont then 1 else 0] ++ part

def nmEntries : Nat → Bytes → List Bytes
  | 0, _ => []
  | f+1, n =>
    if n.isEmpty then []
    else if n.length > nmMax then nmEntry true (n.take nmMax) :: nmEntries f (n.drop nmMax)
    else [nmEntry false n]

/-- `rockRidgeName{name}.Bytes()` -/
def nmBytes (name : Bytes) : Bytes := (nmEntries name.length name).flatten

/-! ### splitting an area into entries -/

def suspSplit : Nat → Bytes → Option (List Bytes)
  | 0, _ => some []
  | f+1, b =>
    if b.length ≤ 3 then some []
    else if (b.getD 2 0).toNat < 4 then some []
    else if (b.getD 2 0).toNat > b.length then none
    else (suspSplit f (b.drop (b.getD 2 0).toNat)).map (b.take (b.getD 2 0).toNat :: ·)

inductive SEnt where
  | nm (cont cur par : Bool) (name : Bytes)
  | sl (cont : Bool) (name : Bytes)
  | ce (loc off len : Nat)
  | other (sig : Bytes)
deriving DecidableEq, Repr

def bit (n k : Nat) : Bool := n / 2 ^ k % 2 = 1

/-- `parseName` -/
def parseNM (b : Bytes) : Option SEnt :=
  if (b.getD 2 0).toNat ≠ b.length ∨ b.length < 5 ∨ b.getD 3 0 ≠ 1 then none
  else some (.nm (bit (b.getD 4 0).toNat 0) (bit (b.getD 4 0).toNat 1) (bit (b.getD 4 0).toNat 2) (b.drop 5))

/-- `appendComponent` of `parseSymlink` -/
def appendComp (name comp : Bytes) : Bytes :=
  (if name ≠ [] ∧ name ≠ [47] then name ++ [47] else name) ++ comp

/-- the component records of one SL entry -/
def slWalk : Nat → Bytes → Bytes → Option Bytes
  | 0, _, name => some name
  | f+1, b, name =>
    if b.isEmpty then some name
    else if b.length < 2 then none
    else
      let flags := (b.getD 0 0).toNat
      let size := (b.getD 1 0).toNat
      if 2 + size > b.length then none
      else
        let name' :=
          if bit flags 3 then [47]
          else if bit flags 2 then appendComp name [46, 46]
          else if bit flags 1 then appendComp name [46]
          else if size > 0 then appendComp name ((b.drop 2).take size)
          else name
        slWalk f (b.drop (2 + size)) name'

/-- `parseSymlink` -/
def parseSL (b : Bytes) : Option SEnt :=
  if (b.getD 2 0).toNat ≠ b.length ∨ b.length < 5 ∨ b.getD 3 0 ≠ 1 then none
  else (slWalk b.length (b.drop 5) []).map (.sl (b.getD 4 0 == 1) ·)

/-- `parseSystemUseExtensionContinuationArea` (the little-endian halves are the ones read) -/
def parseCE (b : Bytes) : Option SEnt :=
  if b.length ≠ 28 ∨ b.getD 2 0 ≠ 28 ∨ b.getD 3 0 ≠ 1 then none
  else some (.ce (leDec ((b.drop 4).take 4)) (leDec ((b.drop 12).take 4)) (leDec ((b.drop 20).take 4)))

def parseEnt (b : Bytes) : Option SEnt :=
  if b.take 2 = [78, 77] then parseNM b
  else if b.take 2 = [83, 76] then parseSL b
  else if b.take 2 = [67, 69] then parseCE b
  else some (.other (b.take 2))

def parseAll : List Bytes → Option (List SEnt)
  | [] => some []
  | b :: bs =>
    match parseEnt b, parseAll bs with
    | some e, some es => some (e :: es)
    | _, _ => none

/-- `parseDirectoryEntryExtensions` -/
def parseArea (b : Bytes) : Option (List SEnt) :=
  match suspSplit b.length b with
  | some raw => parseAll raw
  | none => none

/-! ### what the reader makes of the entries -/

/-- `GetFilename` -/
def getFilename : List SEnt → Option Bytes
  | [] => none
  | .nm cont _ _ name :: es =>
    if cont then (match getFilename es with | some r => some (name ++ r) | none => some name) else some name
  | _ :: es => getFilename es

/-- `joinSymlinkParts` -/
def joinParts (target more : Bytes) (started : Bool) : Bytes :=
  if !started then more
  else if target = [] ∨ target.getLast? = some 47 then target ++ more
  else target ++ [47] ++ more

def readLinkGo : List SEnt → Bytes → Bool → Option Bytes
  | [], _, _ => none
  | .sl cont name :: es, t, started =>
    if cont then readLinkGo es (joinParts t name started) true else some (joinParts t name started)
  | _ :: es, t, started => readLinkGo es t started

/-- `ReadLink` -/
def readLink (es : List SEnt) : Option Bytes := readLinkGo es [] false

/-! ### the writer: record area + continuation areas -/

def ceEntry (loc off len : Nat) : Bytes := [67, 69, 28, 1] ++ (both32 loc ++ (both32 off ++ both32 len))

def ceSize : Nat := 28

def sumLen (l : List Bytes) : Nat := (l.map (·.length)).sum

/-- the extensions that stay in an area of `maxSize` bytes of which `used` are taken, and the rest.
    As found an extension stays when it fits; with `reserve` it stays when everything left fits or
    when there is still room for the CE entry behind it. -/
def fitPrefix (reserve : Bool) (maxSize : Nat) : List Bytes → Nat → List Bytes × List Bytes
  | [], _ => ([], [])
  | e :: es, used =>
    let over := if reserve then used + sumLen (e :: es) > maxSize ∧ used + e.length + ceSize > maxSize
                else used + e.length > maxSize
    if over then ([], e :: es)
    else ((fitPrefix reserve maxSize es (used + e.length)).1.cons e, (fitPrefix reserve maxSize es (used + e.length)).2)

/-- `dirEntryExtensionsToBytes(extensions, maxSize, blocksize, ceBlocks)`: the area of the record,
    then the continuation areas; `none` = error -/
def assemble (reserve : Bool) (bs : Nat) : Nat → List Bytes → Nat → List Nat → Option (List Bytes)
  | 0, _, _, _ => none
  | f+1, exts, maxSize, ce =>
    match fitPrefix reserve maxSize exts 0 with
    | (fit, []) => some [fit.flatten]
    | (fit, e :: rest) =>
      let tooBig := if reserve then sumLen (e :: rest) > bs ∧ e.length + ceSize > bs else e.length > bs
      if sumLen fit = 0 ∧ tooBig then none
      else match ce with
        | [] => none
        | c :: ce' =>
          match assemble reserve bs f (e :: rest) bs ce' with
          | some (a :: more) => some ((fit.flatten ++ ceEntry c 0 a.length) :: a :: more)
          | _ => none

def assembleFuel (exts : List Bytes) : Nat := 2 * exts.length + 2

/-! ### the reader: following continuation areas -/

def maxAreas : Nat := 64

/-- `parseDirEntry`'s loop over the entries of the record's own area; `rd loc off len` reads a
    continuation area from the device -/
def collect (rd : Nat → Nat → Nat → Bytes) : Nat → List SEnt → Option (List SEnt)
  | 0, es =>
    match es.getLast? with
    | some (.ce _ _ _) => none
    | _ => some es
  | h+1, es =>
    match es.getLast? with
    | some (.ce loc off len) =>
      match parseArea (rd loc off len) with
      | some more => collect rd h (es.dropLast ++ more)
      | none => none
    | _ => some es

/-- the system use area of a record, continuation areas followed -/
def readSusp (rd : Nat → Nat → Nat → Bytes) (area : Bytes) : Option (List SEnt) :=
  match parseArea area with
  | some es => collect rd maxAreas es
  | none => none

/-! ### Joliet names -/

/-- `ucs2StringToBytes` on code points: two bytes per code point, big endian, higher bits dropped -/
def ucs2Enc (cps : List Nat) : Bytes := cps.flatMap fun c => [UInt8.ofNat (c / 256), UInt8.ofNat c]

/-- `string(rune(v))`: a surrogate value becomes U+FFFD -/
def ucs2Rune (v : Nat) : Nat := if 55296 ≤ v ∧ v ≤ 57343 then 65533 else v

/-- `bytesToUCS2String`: a trailing odd byte is a code point of its own -/
def ucs2Dec : Bytes → List Nat
  | [] => []
  | [a] => [ucs2Rune a.toNat]
  | a :: b :: r => ucs2Rune (a.toNat * 256 + b.toNat) :: ucs2Dec r

/-- 16-bit units as bytes, big endian -/
def be16Bytes (us : List Nat) : Bytes := us.flatMap fun u => [UInt8.ofNat (u / 256), UInt8.ofNat u]

/-- pairs of bytes as 16-bit units, big endian; a trailing odd byte is a unit of its own -/
def be16Units : Bytes → List Nat
  | [] => []
  | [a] => [a.toNat]
  | a :: b :: r => (a.toNat * 256 + b.toNat) :: be16Units r

/-- `ucs2StringToBytes` of the tree.  `utf16 = false`: the code as found, two bytes per code point
    (recorded finding iso-joliet-nonbmp-name); `utf16 = true`: the repaired code, `utf16.Encode`
    (surrogate pairs beyond the BMP; the mirror of unicode/utf16 is the one of the GPT name field)
    written big endian.  Which one applies is the regenerated fact `Generated.Iso.jolietUtf16`. -/
def jolietEnc (utf16 : Bool) (cps : List Nat) : Bytes :=
  if utf16 then be16Bytes (Gpt.utf16Enc cps) else ucs2Enc cps

/-- `bytesToUCS2String` of the tree, same switch: `utf16.Decode` over the big-endian units -/
def jolietDec (utf16 : Bool) (b : Bytes) : List Nat :=
  if utf16 then Gpt.utf16Dec (be16Units b) else ucs2Dec b

/-! ### path table lookup -/

/-- `pathTable.getLocation` after `splitPath`: one forward pass over the records; `level` is the
    1-based number of the record matched last -/
def ptScan : List PtRec → Nat → Nat → List Bytes → Nat
  | [], _, _, _ => 0
  | _ :: _, _, _, [] => 0
  | r :: rs, idx, level, cur :: more =>
    if r.parent = level ∧ r.name = cur then
      (match more with
       | [] => r.loc
       | _ => ptScan rs (idx + 1) (idx + 1) more)
    else ptScan rs (idx + 1) level (cur :: more)

def ptLookup (recs : List PtRec) (parts : List Bytes) : Nat :=
  match recs with
  | [] => 0
  | r0 :: _ =>
    match parts with
    | [] => r0.loc
    | p0 :: _ => if p0 = [46] then r0.loc else ptScan recs 0 1 parts

end Diskfs.Iso
