/-
  The WriteAt calls of iso9660 `Finalize` for a plain image AS THE GO CODE ISSUES THEM, on a device
  with arbitrary prior contents:

    * `chunkWrs` — `copyFileData`: the file is copied in chunks of 2048 bytes, one WriteAt per chunk
      (every chunk, whatever it holds: a chunk of zeros is written like any other);
    * `fileWrs` — the chunks of one file followed by the zero fill of its last block
      (`if rem := copied % blocksize; rem > 0`);
    * `ImageIn.writesGo` — system area, one WriteAt per directory extent (whole blocks), L and M
      path table (exact length), the files, PVD, terminator — in the order of the code;
    * `ImageIn.imageOn d0` — the device afterwards, starting from contents `d0`;
    * `ImageIn.volBlocks` — `totalSize`, the volume size Finalize declares.

  Proofs/IsoWrites proves that these writes have the same effect on every device as the coarser
  `ImageIn.writes` of Model/Iso/Image (one write per file), that the reader finds the tree whatever
  the device held before, and that every write lies inside [0, volBlocks * blocksize).  Core Lean only.
-/
import DiskfsModel.Model.Iso.Image
namespace Diskfs.Iso

/-- `copyFileData`: WriteAt calls of `k` bytes each (the last one shorter) starting at `off` -/
def chunkWrs (k : Nat) : Nat → Nat → Bytes → List Wr
  | 0, _, _ => []
  | fuel+1, off, b => if b.isEmpty then [] else ⟨off, b.take k⟩ :: chunkWrs k fuel (off + k) (b.drop k)

def copyChunk : Nat := 2048

/-- one file: its chunks, then the zero fill of the last block when the size is no multiple of it -/
def fileWrs (bs off : Nat) (c : Bytes) : List Wr :=
  chunkWrs copyChunk c.length off c ++
    (if c.length % bs > 0 then [⟨off + c.length, zeros (bs - c.length % bs)⟩] else [])

def ImageIn.midGo (i : ImageIn) : List Wr :=
  i.dirs.map (fun d => ⟨(i.t.ent d).loc * i.bs, padBlock i.bs (i.t.dirBytes i.bs d)⟩) ++
  ([⟨i.pvd.ptL * i.bs, i.ptLBytes⟩, ⟨i.pvd.ptM * i.bs, i.ptMBytes⟩] ++
  i.files.flatMap (fun f => fileWrs i.bs ((i.t.ent f).loc * i.bs) (i.t.ent f).content))

def ImageIn.writesGo (i : ImageIn) : List Wr :=
  ⟨0, zeros (16 * i.bs)⟩ :: (i.midGo ++ [⟨16 * i.bs, encodePVD i.pvd⟩, ⟨17 * i.bs, terminator⟩])

/-- the device after Finalize, when it held `d0` before -/
def ImageIn.imageOn (i : ImageIn) (d0 : Dev) : Dev := applyWrs d0 i.writesGo

/-- `totalSize`: the root directory's block 18 plus the blocks of every piece laid out behind it -/
def ImageIn.volBlocks (i : ImageIn) : Nat :=
  dataStartSector + 2 + ((i.mid.map (·.data)).map fun b => blocksFor b.length i.bs).sum

end Diskfs.Iso
