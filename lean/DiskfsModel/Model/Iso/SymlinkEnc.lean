/-
  The Rock Ridge SL ENCODER of go-diskfs (`rockRidgeSymlink.Bytes`, after fixes 62ffa5f, 0fd6be8,
  6475c24) on byte strings:

    * `splitSlash` / `slComps` — `splitPath`: the non-empty parts between slashes; the code as found
      first turns every backslash into a slash (`universalizePath`; `uni = true`), although a backslash
      is an ordinary character of a POSIX link target (recorded finding iso-rr-symlink-backslash);
      `uni = false` is the repaired rule;
    * `Item` / `encItem` — the component records: root (flags 8), `..` (4), `.` (2), a name
      (flags 0, length byte, bytes);
    * `slPack` — the loop that fills SL entries: a component record that would make the component
      area longer than 247 bytes closes the entry (flag "continued") and opens the next one; a record
      is never split;
    * `slEntries` / `slBytes` — the whole encoder.
  What the reader makes of it is `parseSL` + `readLink` of Model/Iso/Susp.lean; `slRender` is the
  target they must return.  Core Lean only.
-/
import DiskfsModel.Model.Iso.Susp
namespace Diskfs.Iso

/-- the non-empty parts between slashes; `cur` is the part being collected -/
def splitSlash : Bytes → Bytes → List Bytes
  | [], cur => if cur = [] then [] else [cur]
  | c :: r, cur =>
    if c = 47 then (if cur = [] then splitSlash r [] else cur :: splitSlash r [])
    else splitSlash r (cur ++ [c])

/-- `universalizePath` -/
def uniPath (t : Bytes) : Bytes := t.map fun c => if c = 92 then 47 else c

/-- `splitPath(d.name)` -/
def slComps (uni : Bool) (t : Bytes) : List Bytes := splitSlash (if uni then uniPath t else t) []

/-- a component record: `none` is the root record, `some c` the component `c` -/
abbrev Item := Option Bytes

def encItem : Item → Bytes
  | none => [8, 0]
  | some c => if c = [46, 46] then [4, 0] else if c = [46] then [2, 0] else [0, UInt8.ofNat c.length] ++ c

def slMaxComp : Nat := 247     -- directoryEntryMaxSize (254) - 7

def slEntry (cont : Bool) (comps : Bytes) : Bytes :=
  [83, 76, UInt8.ofNat (comps.length + 5), 1, if cont then 1 else 0] ++ comps

/-- the loop over `cBytes`; `cur` is the component area of the entry being filled -/
def slPack : List Bytes → Bytes → List Bytes
  | [], cur => [slEntry false cur]
  | e :: r, cur => if e.length + cur.length > slMaxComp then slEntry true cur :: slPack r e else slPack r (cur ++ e)

def slItems (uni : Bool) (t : Bytes) : List Item :=
  (if t.head? = some 47 then [none] else []) ++ (slComps uni t).map some

/-- `rockRidgeSymlink{name: t}.Bytes()` as the list of SL entries -/
def slEntries (uni : Bool) (t : Bytes) : List Bytes := slPack ((slItems uni t).map encItem) []

def slBytes (uni : Bool) (t : Bytes) : Bytes := (slEntries uni t).flatten

/-- the target the component records spell: "/" for the root record, components joined by "/" -/
def slRender : List Item → Bytes → Bytes
  | [], t => t
  | none :: r, _ => slRender r [47]
  | some c :: r, t => slRender r (appendComp t c)

end Diskfs.Iso
