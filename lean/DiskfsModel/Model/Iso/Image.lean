/-
  Whole-image model of a PLAIN ISO9660 image (no Rock Ridge, no Joliet, no El Torito) as
  go-diskfs `Finalize` writes it, and a pure ECMA-119 reader over it.

    * `PVD`, `encodePVD`, `decodePVD` — the primary volume descriptor
      (`primaryVolumeDescriptor.toBytes` / `parsePrimaryVolumeDescriptor`): every field the readers
      consume is a field; the identifier strings, dates and the file structure version
      (bytes 190..2047) are one opaque field `tail`.
    * `PTree` — a directory tree whose entries already carry their resolved identifier and their
      extent; `dirBytes` — the bytes of one directory extent (self, parent, children records laid
      out by `encodeExtent`).
    * `imageWrites` — the WriteAt calls of Finalize for a plain image: system area, directory
      extents, the two path tables, file contents (+ zero fill), PVD at sector 16, terminator.
    * `readDirP` / `readImageP` — the reader: PVD at a given byte offset, then directory records only.
    * `PTree.walk` — what the reader has to return.
  Props/C06 proves `pvd_roundtrip` and `reader_finds_layout`.  Core Lean only.
-/
import DiskfsModel.Model.Iso.Codec
import DiskfsModel.Model.Iso.Extent
namespace Diskfs.Iso

/-! ### primary volume descriptor -/

structure PVD where
  sysId : Bytes       -- 32 bytes
  volId : Bytes       -- 32 bytes
  volSize : Nat       -- blocks
  setSize : Nat
  seqNo : Nat
  blocksize : Nat
  ptSize : Nat
  ptL : Nat
  ptLopt : Nat
  ptM : Nat
  ptMopt : Nat
  root : DirRec       -- the 34-byte root directory record
  tail : Bytes        -- bytes 190..2047 (identifier strings, four 17-byte dates, version, zeros)
deriving DecidableEq, Repr

def pvdMagic : Bytes := [1, 67, 68, 48, 48, 49, 1]   -- type 1, "CD001", version 1

def encodePVD (p : PVD) : Bytes :=
  (pvdMagic ++ [0]) ++ (p.sysId ++ (p.volId ++ (zeros 8 ++ (both32 p.volSize ++ (zeros 32 ++
  (both16 p.setSize ++ (both16 p.seqNo ++ (both16 p.blocksize ++ (both32 p.ptSize ++ (leEnc 4 p.ptL ++
  (leEnc 4 p.ptLopt ++ (beEnc 4 p.ptM ++ (beEnc 4 p.ptMopt ++ (encodeRec p.root ++ p.tail))))))))))))))

/-- `parsePrimaryVolumeDescriptor`, additionally insisting on the header and on agreeing halves -/
def decodePVD (b : Bytes) : Option PVD :=
  let (hdr, r) := split 8 b
  let (sysId, r) := split 32 r
  let (volId, r) := split 32 r
  let (_, r) := split 8 r
  let (vs, r) := split 8 r
  let (_, r) := split 32 r
  let (ss, r) := split 4 r
  let (sq, r) := split 4 r
  let (bsz, r) := split 4 r
  let (pts, r) := split 8 r
  let (pl, r) := split 4 r
  let (plo, r) := split 4 r
  let (pm, r) := split 4 r
  let (pmo, r) := split 4 r
  let (root, tail) := split 34 r
  if b.length = 2048 ∧ hdr.take 7 = pvdMagic then
    match unboth 4 vs, unboth 2 ss, unboth 2 sq, unboth 2 bsz, unboth 4 pts, decodeRec root with
    | some vs, some ss, some sq, some bsz, some pts, some root =>
      some { sysId := sysId, volId := volId, volSize := vs, setSize := ss, seqNo := sq, blocksize := bsz, ptSize := pts,
             ptL := leDec pl, ptLopt := leDec plo, ptM := beDec pm, ptMopt := beDec pmo, root := root, tail := tail }
    | _, _, _, _, _, _ => none
  else none

def PVD.WF (p : PVD) : Prop :=
  p.sysId.length = 32 ∧ p.volId.length = 32 ∧ p.volSize < 2 ^ 32 ∧ p.setSize < 2 ^ 16 ∧ p.seqNo < 2 ^ 16 ∧
  p.blocksize < 2 ^ 16 ∧ p.ptSize < 2 ^ 32 ∧ p.ptL < 2 ^ 32 ∧ p.ptLopt < 2 ^ 32 ∧ p.ptM < 2 ^ 32 ∧ p.ptMopt < 2 ^ 32 ∧
  p.root.loc < 2 ^ 32 ∧ p.root.size < 2 ^ 32 ∧ p.root.date.length = 7 ∧ p.root.name.length = 1 ∧ p.tail.length = 1858

/-- the volume descriptor set terminator -/
def terminator : Bytes := [255, 67, 68, 48, 48, 49, 1] ++ zeros 2041

/-! ### trees with extents -/

structure PEnt where
  name : Bytes       -- identifier as stored in the record (8.3 name; files with ";1")
  isDir : Bool
  loc : Nat          -- first block of the extent
  size : Nat         -- bytes: directory extent length, or file length
  date : Bytes       -- 7-byte recording date
  content : Bytes    -- file contents
deriving Repr

structure PTree where
  n : Nat                   -- entries are 0..n-1; 0 is the root directory
  ent : Nat → PEnt
  kids : Nat → List Nat     -- children of a directory in record order
  parent : Nat → Nat

def dirFlag (isDir : Bool) : UInt8 := if isDir then 2 else 0

def PTree.recOf (t : PTree) (c : Nat) : DirRec :=
  { loc := (t.ent c).loc, size := (t.ent c).size, date := (t.ent c).date, flags := dirFlag (t.ent c).isDir, name := (t.ent c).name }
def PTree.selfRec (t : PTree) (d : Nat) : DirRec := { t.recOf d with name := [0], flags := 2 }
def PTree.parRec (t : PTree) (d : Nat) : DirRec := { t.recOf (t.parent d) with name := [1], flags := 2 }
def PTree.dirRecs (t : PTree) (d : Nat) : List DirRec := t.selfRec d :: t.parRec d :: (t.kids d).map t.recOf

/-- the bytes of a directory extent (`Directory.entriesToBytes`, before the fill to a whole block) -/
def PTree.dirBytes (t : PTree) (bs d : Nat) : Bytes := encodeExtent bs ((t.dirRecs d).map encodeRec)

/-- zero fill up to a whole number of blocks -/
def padBlock (bs : Nat) (b : Bytes) : Bytes := b ++ zeros ((bs - b.length % bs) % bs)

/-! ### what Finalize writes for a plain image -/

structure ImageIn where
  t : PTree
  bs : Nat
  dirs : List Nat        -- directories in layout order (root first)
  files : List Nat       -- files in layout order
  pvd : PVD
  ptLBytes : Bytes
  ptMBytes : Bytes

/-- directory extents, the two path tables, file contents: what lies behind the descriptor set -/
def ImageIn.mid (i : ImageIn) : List Wr :=
  i.dirs.map (fun d => ⟨(i.t.ent d).loc * i.bs, padBlock i.bs (i.t.dirBytes i.bs d)⟩) ++
  ([⟨i.pvd.ptL * i.bs, i.ptLBytes⟩, ⟨i.pvd.ptM * i.bs, i.ptMBytes⟩] ++
  i.files.map (fun f => ⟨(i.t.ent f).loc * i.bs, padBlock i.bs (i.t.ent f).content⟩))

def ImageIn.writes (i : ImageIn) : List Wr :=
  ⟨0, zeros (16 * i.bs)⟩ :: (i.mid ++ [⟨16 * i.bs, encodePVD i.pvd⟩, ⟨17 * i.bs, terminator⟩])

/-- pieces placed one after the other in whole blocks from block `s` (the sequential location
    assignment of Finalize: `location += blocks`) -/
def seqWr (bs : Nat) : Nat → List Bytes → List Wr
  | _, [] => []
  | s, b :: r => ⟨s * bs, b⟩ :: seqWr bs (s + blocksFor b.length bs) r

/-- the locations in the tree and in the PVD are the ones the layout assigns: the root directory at
    block 18 (`dataStartSector + 2`), every further piece where the blocks of the previous end -/
def ImageIn.Placed (i : ImageIn) : Prop := i.mid = seqWr i.bs (dataStartSector + 2) (i.mid.map (·.data))

def blank : Dev := fun _ => 0

def ImageIn.image (i : ImageIn) : Dev := applyWrs blank i.writes

/-- byte ranges of two writes do not meet -/
def WrDisjoint (a b : Wr) : Prop := a.off + a.data.length ≤ b.off ∨ b.off + b.data.length ≤ a.off

/-! ### the reader -/

structure RE where
  path : List Bytes
  isDir : Bool
  loc : Nat
  size : Nat
  data : Bytes      -- file contents ([] for directories)
deriving DecidableEq, Repr

def isDirFlag (f : UInt8) : Bool := decide (f.toNat % 4 ≥ 2)

def decodeAll : List Bytes → Option (List DirRec)
  | [] => some []
  | b :: bs =>
    match decodeRec b, decodeAll bs with
    | some r, some rs => some (r :: rs)
    | _, _ => none

/-- the children records of one directory, in order; `rd` reads a subdirectory -/
def walkRecs (rd : List Bytes → Nat → Nat → Option (List RE)) (img : Dev) (bs : Nat) (pre : List Bytes) :
    List DirRec → Option (List RE)
  | [] => some []
  | r :: rs =>
    match (if isDirFlag r.flags then rd (pre ++ [r.name]) r.loc r.size else some []), walkRecs rd img bs pre rs with
    | some sub, some rest =>
      some ({ path := pre ++ [r.name], isDir := isDirFlag r.flags, loc := r.loc, size := r.size,
              data := if isDirFlag r.flags then [] else readAt img (r.loc * bs) r.size } :: (sub ++ rest))
    | _, _ => none

/-- read the directory whose extent is `size` bytes at block `loc`; `fuel` bounds the nesting -/
def readDirP (img : Dev) (bs : Nat) : Nat → List Bytes → Nat → Nat → Option (List RE)
  | 0, _, _, _ => none
  | fuel+1, pre, loc, size =>
    match decodeAll (parseExtent bs (2 * size + 1) 0 (readAt img (loc * bs) size)) with
    | some (s :: p :: kids) =>
      if s.name = [0] ∧ s.loc = loc ∧ p.name = [1] then walkRecs (fun q l z => readDirP img bs fuel q l z) img bs pre kids
      else none
    | _ => none

/-- the primary volume descriptor at byte `descOff`, then the tree below its root record -/
def readImageP (img : Dev) (descOff fuel : Nat) : Option (PVD × List RE) :=
  match decodePVD (readAt img descOff 2048) with
  | some p =>
    if p.root.name = [0] then (readDirP img p.blocksize fuel [] p.root.loc p.root.size).map (fun es => (p, es))
    else none
  | none => none

/-! ### the specification of the reader's result -/

def PTree.reOf (t : PTree) (pre : List Bytes) (c : Nat) : RE :=
  { path := pre ++ [(t.ent c).name], isDir := (t.ent c).isDir, loc := (t.ent c).loc, size := (t.ent c).size,
    data := if (t.ent c).isDir then [] else (t.ent c).content }

/-- depth-first listing of everything below directory `d` -/
def PTree.walk (t : PTree) : Nat → List Bytes → Nat → List RE
  | 0, _, _ => []
  | fuel+1, pre, d =>
    (t.kids d).flatMap fun c =>
      t.reOf pre c :: (if (t.ent c).isDir then t.walk fuel (pre ++ [(t.ent c).name]) c else [])

/-- the tree below `d` is at most `fuel` directories deep -/
def PTree.Fits (t : PTree) : Nat → Nat → Prop
  | 0, _ => False
  | fuel+1, d => ∀ c ∈ t.kids d, (t.ent c).isDir = true → t.Fits fuel c

/-- entries are well formed: children stay inside 0..n-1, fields fit their on-disk width -/
def PTree.WF (t : PTree) : Prop :=
  (∀ d, d < t.n → ∀ c ∈ t.kids d, c < t.n) ∧ (∀ d, d < t.n → t.parent d < t.n) ∧
  ∀ c, c < t.n → (t.ent c).loc < 2 ^ 32 ∧ (t.ent c).size < 2 ^ 32 ∧ (t.ent c).date.length = 7 ∧ (t.ent c).name.length < 222

/-- the image shows the tree: every directory's extent holds its records, every file's extent its
    contents -/
def Holds (img : Dev) (bs : Nat) (t : PTree) : Prop :=
  (∀ d, d < t.n → (t.ent d).isDir = true → readAt img ((t.ent d).loc * bs) (t.ent d).size = t.dirBytes bs d) ∧
  (∀ c, c < t.n → (t.ent c).isDir = false → readAt img ((t.ent c).loc * bs) (t.ent c).size = (t.ent c).content)

end Diskfs.Iso
