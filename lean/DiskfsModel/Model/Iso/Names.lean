/-
  ISO9660 name mangling of go-diskfs (filesystem/iso9660/finalize.go):
  `calculateShortnameExtension` and the collision resolution of `walkTree` /
  `resolveCollisionGroup`.  Names are lists of code points.  A directory entry's 8.3 name is the
  pair (short, ext); the Go code joins them with "." (neither part can contain a dot, so the pair
  and the joined string determine each other).  Core Lean only.
-/
namespace Diskfs.Iso

abbrev Str := List Nat
abbrev Nm := Str × Str

/-- `strings.ToUpper` restricted to what can end up inside `[A-Z0-9_]`: ASCII letters and the two
    non-ASCII runes whose upper case is ASCII (dotless i, long s). -/
def upRune (c : Nat) : Nat :=
  if 97 ≤ c ∧ c ≤ 122 then c - 32 else if c = 0x131 then 73 else if c = 0x17f then 83 else c

def okChar (c : Nat) : Bool := (65 ≤ c && c ≤ 90) || (48 ≤ c && c ≤ 57) || c == 95

/-- upper-case, then everything outside `[A-Z0-9_]` becomes `_` -/
def cleanChar (c : Nat) : Nat := if okChar (upRune c) then upRune c else 95

def clean (s : Str) : Str := s.map cleanChar

/-- `strings.SplitN(name, ".", 2)` -/
def splitDot (s : Str) : Str × Str := (s.takeWhile (· ≠ 46), (s.dropWhile (· ≠ 46)).drop 1)

/-- `calculateShortnameExtension` -/
def shortExt (name : Str) : Nm :=
  ((clean (splitDot name).1).take 8, (clean (splitDot name).2).take 3)

/-- the name an entry enters collision resolution with: directories carry no extension -/
def entryName (name : Str) (isDir : Bool) : Nm :=
  if isDir then ((shortExt name).1, []) else shortExt name

def Valid83 (n : Nm) : Prop :=
  n.1.length ≤ 8 ∧ n.2.length ≤ 3 ∧ (∀ c ∈ n.1, okChar c = true) ∧ (∀ c ∈ n.2, okChar c = true)

/-- `fmt.Sprintf("%0*d", d, n)` for `n < 10^d`: exactly `d` decimal digits -/
def padDigits : Nat → Nat → Str
  | 0, _ => []
  | d+1, n => padDigits d (n / 10) ++ [48 + n % 10]

/-- `len(fmt.Sprintf("%d", n))` -/
def decLen (n : Nat) : Nat := (Nat.toDigits 10 n).length

/-- candidate number `k` with `d` digits for a group whose truncated name is (base, ext) -/
def cand (base ext : Str) (d k : Nat) : Nm := (base.take (8 - d) ++ padDigits d k, ext)

structure St where
  tbl : List Nm          -- the `nameTable` map (as the list of its keys)
  cur : Nat → Nm         -- current (short, ext) of sibling i

def upd (f : Nat → Nm) (i : Nat) (c : Nm) : Nat → Nm := fun j => if j = i then c else f j

/-- the inner `for change < maxChange` search: first candidate from `ch` on that is not taken -/
def findFree (tbl : List Nm) (base ext : Str) (d : Nat) : Nat → Nat → Option (Nat × Nm)
  | 0, _ => none
  | fuel+1, ch =>
    if ch < 10 ^ d then
      if cand base ext d ch ∈ tbl then findFree tbl base ext d fuel (ch + 1)
      else some (ch + 1, cand base ext d ch)
    else none

/-- one pass over the group's files with a fixed digit count; `false` = ran out of numbers.
    State changes made before running out are kept, as in the Go code. -/
def round (base ext : Str) (d : Nat) : List Nat → Nat → St → Bool × St
  | [], _, s => (true, s)
  | i :: rest, ch, s =>
    match findFree s.tbl base ext d (10 ^ d) ch with
    | none => (false, s)
    | some (ch', c) => round base ext d rest ch' { tbl := c :: s.tbl, cur := upd s.cur i c }

/-- `for digits < 8 { … digits++ }` -/
def rounds (base ext : Str) (ms : List Nat) : Nat → Nat → St → Option St
  | 0, _, _ => none
  | f+1, d, s =>
    if d < 8 then
      match round base ext d ms 0 s with
      | (true, s') => some s'
      | (false, s') => rounds base ext ms f (d + 1) s'
    else none

/-- indices of the siblings whose *original* truncated name is `key` -/
def members (n : Nat) (orig : Nat → Nm) (key : Nm) : List Nat :=
  (List.range n).filter (fun i => orig i = key)

/-- `resolveCollisionGroup` for the group `key` of a directory with `n` entries -/
def resolveGroup (n : Nat) (orig : Nat → Nm) (cur : Nat → Nm) (key : Nm) : Option (Nat → Nm) :=
  let ms := members n orig key
  if ms.length ≤ 1 then some cur
  else
    match rounds key.1 key.2 ms 8 (decLen (ms.length - 1)) { tbl := (List.range n).map cur, cur := cur } with
    | none => none
    | some s => some s.cur

/-- the groups are processed in the order a Go map iteration happens to produce: any `order` -/
def resolveAll (n : Nat) (orig : Nat → Nm) : List Nm → (Nat → Nm) → Option (Nat → Nm)
  | [], cur => some cur
  | key :: rest, cur =>
    match resolveGroup n orig cur key with
    | none => none
    | some cur' => resolveAll n orig rest cur'

/-- the identifier written into the directory record (`finalizeFileInfo.Name`) -/
def isoIdent (nm : Nm) (isDir : Bool) : Str :=
  if isDir then nm.1 else nm.1 ++ [46] ++ nm.2 ++ [59, 49]

end Diskfs.Iso
