/-
  An independent ISO9660 reader in Lean (ECMA-119 only: primary volume descriptor + directory
  records; no path table, no extensions).  It is run by the model driver on the bytes the real
  library wrote (the S tie of C06) and shares nothing with the Go code or with the Go harness's
  reader.  Core Lean only.
-/
import DiskfsModel.Core.Crc
namespace Diskfs.Iso

structure REnt where
  path : String
  isDir : Bool
  loc : Nat
  size : Nat
  crc : Nat
deriving Repr

def u8 (b : ByteArray) (o : Nat) : Nat := (b.get! o).toNat
def u16le (b : ByteArray) (o : Nat) : Nat := u8 b o + 256 * u8 b (o + 1)
def u16be (b : ByteArray) (o : Nat) : Nat := u8 b (o + 1) + 256 * u8 b o
def u32le (b : ByteArray) (o : Nat) : Nat := u16le b o + 65536 * u16le b (o + 2)
def u32be (b : ByteArray) (o : Nat) : Nat := u16be b (o + 2) + 65536 * u16be b o

/-- both-endian 32-bit field; `none` if the halves differ -/
def rboth32 (b : ByteArray) (o : Nat) : Option Nat :=
  if u32le b o = u32be b (o + 4) then some (u32le b o) else none

def bytesToString (b : ByteArray) (o n : Nat) : String :=
  String.ofList ((List.range n).map fun i => Char.ofNat (u8 b (o + i)))

def stripVersion (s : String) : String :=
  let s := if s.endsWith ";1" then (s.dropEnd 2).toString else s
  if s.endsWith "." then (s.dropEnd 1).toString else s

def joinPath (p n : String) : String := if p == "." then n else p ++ "/" ++ n

/-- walk one directory extent; `fuel` bounds the nesting depth -/
def readDir (img : ByteArray) (base bs : Nat) : Nat → String → Nat → Nat → Except String (List REnt)
  | 0, p, _, _ => .error s!"nesting too deep at {p}"
  | fuel+1, p, loc, size => do
    let start := base + loc * bs
    if start + size > img.size then throw s!"directory {p} lies outside the image"
    let mut out : List REnt := []
    let mut i := 0
    let mut idx := 0
    let mut steps := 0
    while i < size && steps < 100000 do
      steps := steps + 1
      let l := u8 img (start + i)
      if l = 0 then
        i := i + (bs - i % bs)
      else
        if l < 34 || i + l > size || i % bs + l > bs then throw s!"directory {p}: bad record length {l} at {i}"
        let o := start + i
        let some eloc := rboth32 img (o + 2) | throw s!"directory {p}: extent field halves differ"
        let some esize := rboth32 img (o + 10) | throw s!"directory {p}: size field halves differ"
        let nl := u8 img (o + 32)
        if 33 + nl > l then throw s!"directory {p}: identifier overruns the record"
        let isDir := (u8 img (o + 25)) % 4 ≥ 2
        if idx = 0 then
          if !(nl = 1 && u8 img (o + 33) = 0 && eloc = loc) then throw s!"directory {p}: first record is not self"
        else if idx = 1 then
          if !(nl = 1 && u8 img (o + 33) = 1) then throw s!"directory {p}: second record is not parent"
        else
          let ident := bytesToString img (o + 33) nl
          let name := if isDir then ident else stripVersion ident
          let cp := joinPath p name
          if isDir then
            out := out ++ [{ path := cp, isDir := true, loc := eloc, size := esize, crc := 0 }]
            let sub ← readDir img base bs fuel cp eloc esize
            out := out ++ sub
          else
            if base + eloc * bs + esize > img.size then throw s!"file {cp} lies outside the image"
            let data := (img.extract (base + eloc * bs) (base + eloc * bs + esize)).toList
            out := out ++ [{ path := cp, isDir := false, loc := eloc, size := esize, crc := crc32 data }]
        i := i + l
        idx := idx + 1
    return out

structure RImage where
  bs : Nat
  volBlocks : Nat
  ptSize : Nat
  ptL : Nat
  ptM : Nat
  rootLoc : Nat
  rootSize : Nat
  ents : List REnt

/-- find the primary volume descriptor among the descriptors at `base + firstDesc + i * stride` -/
def readImage (img : ByteArray) (base firstDesc stride : Nat) : Except String RImage := do
  let mut pvd : Option Nat := none
  let mut i := 0
  let mut done := false
  while !done && i < 64 do
    let o := base + firstDesc + i * stride
    if o + 2048 > img.size then throw "descriptor outside the image"
    if bytesToString img (o + 1) 5 != "CD001" then throw s!"descriptor {i}: no CD001"
    let t := u8 img o
    if t = 255 then done := true
    else if t = 1 && pvd.isNone then pvd := some o
    i := i + 1
  let some o := pvd | throw "no primary volume descriptor"
  let some vol := rboth32 img (o + 80) | throw "volume size halves differ"
  let bs := u16le img (o + 128)
  if bs != u16be img (o + 130) then throw "block size halves differ"
  let some pts := rboth32 img (o + 132) | throw "path table size halves differ"
  let ptl := u32le img (o + 140)
  let ptm := u32be img (o + 148)
  let some rloc := rboth32 img (o + 156 + 2) | throw "root extent halves differ"
  let some rsize := rboth32 img (o + 156 + 10) | throw "root size halves differ"
  let ents ← readDir img base bs 64 "." rloc rsize
  return { bs := bs, volBlocks := vol, ptSize := pts, ptL := ptl, ptM := ptm, rootLoc := rloc, rootSize := rsize, ents := ents }

end Diskfs.Iso
