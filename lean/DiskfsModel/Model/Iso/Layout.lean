/-
  Sector layout arithmetic of iso9660 `Finalize` (finalize.go): `calculateBlocks`, the directory
  size computation with its no-record-crosses-a-block padding rule, the order in which directories
  and files are laid out (`collapseAndSortChildren`), the sequential location assignment
  (descriptors, directories + continuation blocks, L and M path tables, file extents, Joliet
  directories and path tables) and the path table sizes.  Core Lean only.
-/
import DiskfsModel.Model.Iso.Names
namespace Diskfs.Iso

/-- `calculateBlocks` -/
def blocksFor (size bs : Nat) : Nat := size / bs + (if size % bs > 0 then 1 else 0)

/-- where a record of length `r` goes when `acc` bytes are already used: the Go rule pads to the
    next block whenever the end of the record would be in a later block (also when it would end
    exactly on the boundary) -/
def placeRec (bs acc r : Nat) : Nat :=
  if (acc + r) / bs > acc / bs then acc + (bs - acc % bs) else acc

/-- offsets of the records of a directory extent, starting with `acc` bytes already used -/
def dirOffsets (bs : Nat) : List Nat → Nat → List (Nat × Nat)
  | [], _ => []
  | r :: rs, acc => (placeRec bs acc r, r) :: dirOffsets bs rs (placeRec bs acc r + r)

/-- `calculateDirectorySize` (children after the unpadded self and parent records) and
    `calculateJolietDirectorySize` (all records from 0) -/
def dirSize (bs : Nat) : List Nat → Nat → Nat
  | [], acc => acc
  | r :: rs, acc => dirSize bs rs (placeRec bs acc r + r)

/-- consecutive allocation: `(location, blocks)` for every item -/
def seqAlloc (start : Nat) : List Nat → List (Nat × Nat)
  | [] => []
  | b :: bs => (start, b) :: seqAlloc (start + b) bs

structure LayoutIn where
  extraVD : Nat             -- optional descriptors (El Torito, Joliet)
  dirBlocks : List Nat      -- per directory, in layout order: blocks + continuation blocks
  ptBlocks : Nat
  fileBlocks : List Nat     -- per file, in layout order
  joliet : Bool
  jdirBlocks : List Nat
  jptBlocks : Nat

def LayoutIn.items (l : LayoutIn) : List Nat :=
  l.dirBlocks ++ [l.ptBlocks, l.ptBlocks] ++ l.fileBlocks ++
    (if l.joliet then l.jdirBlocks ++ [l.jptBlocks, l.jptBlocks] else [])

def dataStartSector : Nat := 16

/-- first block after the volume descriptor set (PVD, optional ones, terminator) -/
def LayoutIn.rootLoc (l : LayoutIn) : Nat := dataStartSector + 2 + l.extraVD

def LayoutIn.extents (l : LayoutIn) : List (Nat × Nat) := seqAlloc l.rootLoc l.items

/-- `totalSize`, the volume size written into the descriptors -/
def LayoutIn.total (l : LayoutIn) : Nat := l.rootLoc + l.items.sum

/-! ### the tree-level model used by the correspondence run -/

structure Ent where
  parent : Nat        -- index of the parent directory entry (the root is entry 0, its own parent)
  ident : Str         -- identifier as in the primary tree (directories: name, files: NAME.EXT;1)
  isDir : Bool
  size : Nat          -- file size in bytes
  recLen : Nat        -- length of its record in the parent (used as given under Rock Ridge)
  jlen : Nat          -- byte length of the UCS-2 name
  ce : Nat            -- continuation blocks of a directory
  selfLen : Nat       -- length of a directory's "." record
  parLen : Nat        -- length of a directory's ".." record
deriving Inhabited

def ltStr : Str → Str → Bool
  | [], [] => false
  | [], _ :: _ => true
  | _ :: _, [] => false
  | a :: as, b :: bs => if a < b then true else if b < a then false else ltStr as bs

def insertBy (lt : α → α → Bool) (x : α) : List α → List α
  | [] => [x]
  | y :: ys => if lt x y then x :: y :: ys else y :: insertBy lt x ys

def sortBy (lt : α → α → Bool) (l : List α) : List α := l.foldr (insertBy lt) []

/-- record length of a plain (no SUSP) entry: 33 + identifier, padded to even -/
def plainRecLen (identLen : Nat) : Nat := 33 + identLen + (if identLen % 2 = 0 then 1 else 0)

def jolietRecLen (jlen : Nat) : Nat := plainRecLen jlen

structure Tree where
  ents : Array Ent
  rr : Bool

def Tree.kids (t : Tree) (d : Nat) : List Nat :=
  (List.range t.ents.size).filter fun i => i ≠ 0 ∧ (t.ents[i]!).parent = d

def Tree.sortedKids (t : Tree) (d : Nat) (dirs : Bool) : List Nat :=
  sortBy (fun a b => ltStr (t.ents[a]!).ident (t.ents[b]!).ident)
    ((t.kids d).filter fun i => (t.ents[i]!).isDir = dirs)

/-- `collapseAndSortChildren`: (directories, files) below `d`, depth first -/
def Tree.collapse (t : Tree) : Nat → Nat → List Nat × List Nat
  | 0, _ => ([], [])
  | fuel+1, d =>
    let ds := t.sortedKids d true
    let fs := t.sortedKids d false
    ds.foldl (fun (acc : List Nat × List Nat) e =>
      let (d2, f2) := t.collapse fuel e
      (acc.1 ++ [e] ++ d2, acc.2 ++ f2)) ([], fs)

def Tree.recLenOf (t : Tree) (i : Nat) : Nat :=
  if t.rr then (t.ents[i]!).recLen else plainRecLen (t.ents[i]!).ident.length

def Tree.dirBytes (t : Tree) (bs d : Nat) : Nat :=
  let e := t.ents[d]!
  let self := if t.rr then e.selfLen else 34
  let par := if t.rr then e.parLen else 34
  dirSize bs ((t.kids d).map t.recLenOf) (self + par)

def Tree.jdirBytes (t : Tree) (bs d : Nat) : Nat :=
  dirSize bs ([34, 34] ++ (t.kids d).map fun i => jolietRecLen (t.ents[i]!).jlen) 0

def ptRecLen (nameLen : Nat) : Nat := 8 + nameLen + nameLen % 2

structure TreeLayout where
  dirs : List Nat
  files : List Nat
  inp : LayoutIn
  ptSize : Nat
  jptSize : Nat
  dirSizes : List Nat
  jdirSizes : List Nat

def Tree.layout (t : Tree) (bs : Nat) (joliet : Bool) : TreeLayout :=
  let (sub, files) := t.collapse (t.ents.size + 1) 0
  let dirs := 0 :: sub
  let dsz := dirs.map (t.dirBytes bs)
  let jsz := if joliet then dirs.map (t.jdirBytes bs) else []
  let ptSize := (dirs.map fun d => ptRecLen (if d = 0 then 1 else (t.ents[d]!).ident.length)).sum
  let jptSize := (dirs.map fun d => ptRecLen (if d = 0 then 1 else (t.ents[d]!).jlen)).sum
  { dirs := dirs, files := files, ptSize := ptSize, jptSize := jptSize, dirSizes := dsz, jdirSizes := jsz,
    inp := { extraVD := if joliet then 1 else 0,
             dirBlocks := (dirs.zip dsz).map fun (d, s) => blocksFor s bs + (t.ents[d]!).ce,
             ptBlocks := blocksFor ptSize bs,
             fileBlocks := files.map fun f => blocksFor (t.ents[f]!).size bs,
             joliet := joliet,
             jdirBlocks := jsz.map fun s => blocksFor s bs,
             jptBlocks := blocksFor jptSize bs } }

end Diskfs.Iso
