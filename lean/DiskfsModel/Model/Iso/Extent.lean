/-
  A directory extent as `Directory.entriesToBytes` lays it out (records placed by the
  no-record-crosses-a-block rule, zero fill in between) and as `parseDirEntries` reads it back
  (a zero length byte means: continue at the next block).  Core Lean only.
-/
import DiskfsModel.Model.Iso.Layout
import DiskfsModel.Core.Bytes
namespace Diskfs.Iso

/-- bytes that follow position `pos` of the extent when the records `rs` are still to be written -/
def encSuffix (bs : Nat) : List Bytes → Nat → Bytes
  | [], _ => []
  | r :: rs, pos =>
    zeros (placeRec bs pos r.length - pos) ++ (r ++ encSuffix bs rs (placeRec bs pos r.length + r.length))

/-- the directory extent (exactly `dirSize` bytes) -/
def encodeExtent (bs : Nat) (rs : List Bytes) : Bytes := encSuffix bs rs 0

/-- `parseDirEntries`: the record byte strings found from position `i` on -/
def parseExtent (bs : Nat) : Nat → Nat → Bytes → List Bytes
  | 0, _, _ => []
  | f+1, i, b =>
    if i < b.length then
      if (b.getD i 0).toNat = 0 then parseExtent bs f (i + (bs - i % bs)) b
      else (b.drop i).take (b.getD i 0).toNat :: parseExtent bs f (i + (b.getD i 0).toNat) b
    else []

/-- a record starts with its own length, which fits one byte and one block -/
def RecOK (bs : Nat) (r : Bytes) : Prop :=
  0 < r.length ∧ r.length ≤ bs ∧ r.length < 256 ∧ (r.getD 0 0).toNat = r.length

end Diskfs.Iso
