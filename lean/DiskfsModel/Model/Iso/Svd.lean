/-
  The supplementary (Joliet) volume descriptor of go-diskfs (`supplementaryVolumeDescriptor.toBytes` /
  `parseSupplementaryVolumeDescriptor`): the layout of the primary descriptor with type 2, the volume
  flags in byte 7 and the 32 bytes of escape sequences (bytes 88..119, "%/E" = UCS-2 level 3 for
  Joliet) where the primary descriptor has zeros.  The identifier strings (UCS-2 here) and the rest
  of the sector from byte 190 on are opaque fields, as in `PVD`.  Core Lean only.
-/
import DiskfsModel.Model.Iso.Image
namespace Diskfs.Iso

structure SVD where
  flags : UInt8
  esc : Bytes          -- 32 bytes
  d : PVD              -- the fields it shares with the primary descriptor
deriving DecidableEq, Repr

def svdMagic : Bytes := [2, 67, 68, 48, 48, 49, 1]   -- type 2, "CD001", version 1

def encodeSVD (s : SVD) : Bytes :=
  (svdMagic ++ [s.flags]) ++ (s.d.sysId ++ (s.d.volId ++ (zeros 8 ++ (both32 s.d.volSize ++ (s.esc ++
  (both16 s.d.setSize ++ (both16 s.d.seqNo ++ (both16 s.d.blocksize ++ (both32 s.d.ptSize ++ (leEnc 4 s.d.ptL ++
  (leEnc 4 s.d.ptLopt ++ (beEnc 4 s.d.ptM ++ (beEnc 4 s.d.ptMopt ++ (encodeRec s.d.root ++ s.d.tail))))))))))))))

def decodeSVD (b : Bytes) : Option SVD :=
  let (hdr, r) := split 8 b
  let (sysId, r) := split 32 r
  let (volId, r) := split 32 r
  let (_, r) := split 8 r
  let (vs, r) := split 8 r
  let (esc, r) := split 32 r
  let (ss, r) := split 4 r
  let (sq, r) := split 4 r
  let (bsz, r) := split 4 r
  let (pts, r) := split 8 r
  let (pl, r) := split 4 r
  let (plo, r) := split 4 r
  let (pm, r) := split 4 r
  let (pmo, r) := split 4 r
  let (root, tail) := split 34 r
  if b.length = 2048 ∧ hdr.take 7 = svdMagic then
    match unboth 4 vs, unboth 2 ss, unboth 2 sq, unboth 2 bsz, unboth 4 pts, decodeRec root with
    | some vs, some ss, some sq, some bsz, some pts, some root =>
      some { flags := hdr.getD 7 0, esc := esc,
             d := { sysId := sysId, volId := volId, volSize := vs, setSize := ss, seqNo := sq, blocksize := bsz, ptSize := pts,
                    ptL := leDec pl, ptLopt := leDec plo, ptM := beDec pm, ptMopt := beDec pmo, root := root, tail := tail } }
    | _, _, _, _, _, _ => none
  else none

/-- `isJolietEscapeSequence`: UCS-2 level 1, 2 or 3 -/
def isJolietEsc (esc : Bytes) : Bool :=
  esc.take 3 == [37, 47, 64] || esc.take 3 == [37, 47, 67] || esc.take 3 == [37, 47, 69]

def SVD.WF (s : SVD) : Prop := s.esc.length = 32 ∧ s.d.WF

end Diskfs.Iso
