/-
  FROM A WORKSPACE TREE TO THE IMAGE (plain configuration): the steps of iso9660 `Finalize` that lie
  before the image writer of Model/Iso/Image + Writes, composed into one function.

    * `WTree` — the workspace as `walkTree` sees it: entries 0..n-1 (0 = the root directory), the
      host name of every entry (code points), kind, file contents, 7-byte recording date, the
      children of every directory in the order `filepath.WalkDir` delivers them (= record order:
      `toDirectory` ranges over `fi.children`), the parent of every entry;
    * `WTree.orig` / `WTree.resolved` — the names the children of one directory enter collision
      resolution with (`entryName`) and what `resolveAll` makes of them for a given processing order
      of the collision groups (the Go code ranges over a map: any order);
    * `WTree.ident` — `finalizeFileInfo.Name()`: the identifier bytes of the directory record;
    * `WTree.dsize` — `calculateDirectorySize` for plain records = length of the encoded extent;
    * `Order` — the order in which directories and files are laid out (`collapseAndSortChildren`
      gives one; the theorems hold for every enumeration that starts with the root) and the order of
      the path table records;
    * `WTree.loc` — the sequential location assignment (`location += blocks` from block 18):
      directories, L path table, M path table, files;
    * `WTree.ptRecs` — `createPathTable`; `WTree.image` — the `ImageIn` handed to the image writer
      (tree with resolved identifiers, sizes and extents; PVD; path table bytes).
  Proofs/IsoCompose proves that this `ImageIn` meets every hypothesis of
  `reader_finds_layout_any_device`.  Core Lean only.
-/
import DiskfsModel.Model.Iso.Writes
namespace Diskfs.Iso

structure WTree where
  n : Nat
  name : Nat → Str
  isDir : Nat → Bool
  content : Nat → Bytes
  date : Nat → Bytes
  kids : Nat → List Nat
  parent : Nat → Nat

/-- the (short, ext) pair child number `j` of directory `d` enters collision resolution with -/
def WTree.orig (w : WTree) (d : Nat) : Nat → Nm :=
  fun j => entryName (w.name ((w.kids d).getD j 0)) (w.isDir ((w.kids d).getD j 0))

/-- collision resolution among the children of `d`, groups processed in the order `order` -/
def WTree.resolved (w : WTree) (order : List Nm) (d : Nat) : Option (Nat → Nm) :=
  resolveAll (w.kids d).length (w.orig d) order (w.orig d)

def strBytes (s : Str) : Bytes := s.map UInt8.ofNat

/-- `finalizeFileInfo.Name()`: the root is the single byte 0, a directory its short name, a file
    SHORT.EXT;1 — `fin d j` is the resolved name of child number `j` of directory `d` -/
def WTree.ident (w : WTree) (fin : Nat → Nat → Nm) (c : Nat) : Bytes :=
  if c = 0 then [0]
  else strBytes (isoIdent (fin (w.parent c) ((w.kids (w.parent c)).idxOf c)) (w.isDir c))

def WTree.pent (w : WTree) (fin : Nat → Nat → Nm) (loc size : Nat → Nat) (c : Nat) : PEnt :=
  { name := w.ident fin c, isDir := w.isDir c, loc := loc c, size := size c, date := w.date c, content := w.content c }

def WTree.ptree (w : WTree) (fin : Nat → Nat → Nm) (loc size : Nat → Nat) : PTree :=
  { n := w.n, ent := w.pent fin loc size, kids := w.kids, parent := w.parent }

/-- `calculateDirectorySize` (plain records): the length of the directory's encoded extent; it
    depends on the identifiers only, so it is computed on the tree without locations -/
def WTree.dsize (w : WTree) (fin : Nat → Nat → Nm) (bs d : Nat) : Nat :=
  ((w.ptree fin (fun _ => 0) (fun _ => 0)).dirBytes bs d).length

def WTree.size (w : WTree) (fin : Nat → Nat → Nm) (bs c : Nat) : Nat :=
  if w.isDir c then w.dsize fin bs c else (w.content c).length

structure Order where
  dirs : List Nat      -- directories in layout order, root first
  files : List Nat     -- files in layout order
  pt : List Nat        -- directories in path table order, root first

/-- `createPathTable`: one record per directory, numbered from 1 in table order -/
def WTree.ptRecs (w : WTree) (fin : Nat → Nat → Nm) (loc : Nat → Nat) (pt : List Nat) : List PtRec :=
  pt.map fun d => { name := w.ident fin d, loc := loc d, parent := pt.idxOf (w.parent d) + 1 }

/-- byte lengths of the pieces behind the descriptor set, in layout order -/
def WTree.lens (w : WTree) (fin : Nat → Nat → Nm) (bs : Nat) (o : Order) : List Nat :=
  o.dirs.map (w.dsize fin bs) ++
    ([(encodePtTable false (w.ptRecs fin (fun _ => 0) o.pt)).length, (encodePtTable true (w.ptRecs fin (fun _ => 0) o.pt)).length] ++
     o.files.map (fun f => (w.content f).length))

def WTree.blocks (w : WTree) (fin : Nat → Nat → Nm) (bs : Nat) (o : Order) : List Nat :=
  (w.lens fin bs o).map fun l => blocksFor l bs

/-- what a location is assigned to: the entries, and `n` / `n+1` for the L / M path table -/
def WTree.keys (w : WTree) (o : Order) : List Nat := o.dirs ++ ([w.n, w.n + 1] ++ o.files)

/-- `location += blocks`, the root directory at block 18 -/
def WTree.loc (w : WTree) (fin : Nat → Nat → Nm) (bs : Nat) (o : Order) (c : Nat) : Nat :=
  (((w.keys o).zip ((seqAlloc (dataStartSector + 2) (w.blocks fin bs o)).map (·.1))).lookup c).getD 0

/-- `totalSize` -/
def WTree.total (w : WTree) (fin : Nat → Nat → Nm) (bs : Nat) (o : Order) : Nat :=
  dataStartSector + 2 + (w.blocks fin bs o).sum

/-- everything Finalize hands to the image writer; `sysId`, `volId`, `tail` are the parts of the
    PVD the model keeps opaque (identifier strings, dates) -/
def WTree.image (w : WTree) (fin : Nat → Nat → Nm) (bs : Nat) (o : Order) (sysId volId tail : Bytes) : ImageIn :=
  let loc := w.loc fin bs o
  let t := w.ptree fin loc (w.size fin bs)
  { t := t, bs := bs, dirs := o.dirs, files := o.files,
    pvd := { sysId := sysId, volId := volId, volSize := w.total fin bs o, setSize := 1, seqNo := 1, blocksize := bs,
             ptSize := (encodePtTable false (w.ptRecs fin loc o.pt)).length,
             ptL := loc w.n, ptLopt := 0, ptM := loc (w.n + 1), ptMopt := 0, root := t.selfRec 0, tail := tail },
    ptLBytes := encodePtTable false (w.ptRecs fin loc o.pt),
    ptMBytes := encodePtTable true (w.ptRecs fin loc o.pt) }

/-- the workspace is at most `fuel` directories deep below `d` -/
def WTree.Fits (w : WTree) : Nat → Nat → Prop
  | 0, _ => False
  | fuel+1, d => ∀ c ∈ w.kids d, w.isDir c = true → w.Fits fuel c

/-- the stated limits: a well-formed workspace and layout order -/
structure WTree.OK (w : WTree) (o : Order) : Prop where
  pos : 0 < w.n
  rootDir : w.isDir 0 = true
  kidsLt : ∀ d, d < w.n → ∀ c ∈ w.kids d, c < w.n
  kidsPar : ∀ d, d < w.n → ∀ c ∈ w.kids d, w.parent c = d ∧ c ≠ 0
  kidsNodup : ∀ d, d < w.n → (w.kids d).Nodup
  parLt : ∀ c, c < w.n → w.parent c < w.n
  inKids : ∀ c, c < w.n → c ≠ 0 → w.isDir (w.parent c) = true ∧ c ∈ w.kids (w.parent c)
  date7 : ∀ c, c < w.n → (w.date c).length = 7
  dirsNodup : o.dirs.Nodup
  filesNodup : o.files.Nodup
  dirsOK : ∀ d, d ∈ o.dirs ↔ (d < w.n ∧ w.isDir d = true)
  filesOK : ∀ f, f ∈ o.files ↔ (f < w.n ∧ w.isDir f = false)

/-! ### the orders the Go code uses (the theorems hold for every `Order` that is `OK`) -/

def WTree.sortedKids (w : WTree) (ident : Nat → Str) (d : Nat) (dirs : Bool) : List Nat :=
  sortBy (fun a b => ltStr (ident a) (ident b)) ((w.kids d).filter fun i => w.isDir i = dirs)

/-- `collapseAndSortChildren`: (directories, files) below `d`; siblings sorted by `Name()` -/
def WTree.collapse (w : WTree) (ident : Nat → Str) : Nat → Nat → List Nat × List Nat
  | 0, _ => ([], [])
  | fuel+1, d =>
    (w.sortedKids ident d true).foldl (fun (acc : List Nat × List Nat) e =>
      let (d2, f2) := w.collapse ident fuel e
      (acc.1 ++ [e] ++ d2, acc.2 ++ f2)) ([], w.sortedKids ident d false)

/-- `createPathTable` (`sortFinalizeFileInfoPathTable`): by depth, then in the order of the parents,
    then by name (identifiers consist of characters above the blank the Go code pads with) -/
def WTree.ptOrder (w : WTree) (ident : Nat → Str) : Nat → List Nat → List Nat
  | 0, _ => []
  | f+1, level =>
    if level.isEmpty then []
    else level ++ w.ptOrder ident f (level.flatMap fun d => w.sortedKids ident d true)

def WTree.goOrder (w : WTree) (ident : Nat → Str) : Order :=
  { dirs := 0 :: (w.collapse ident (w.n + 1) 0).1, files := (w.collapse ident (w.n + 1) 0).2,
    pt := w.ptOrder ident (w.n + 1) [0] }

/-- `fin d` is what collision resolution made of the children of directory `d`, the groups having
    been processed in the order `order d` in which every group of more than one member occurs -/
structure WTree.Resolved (w : WTree) (order : Nat → List Nm) (fin : Nat → Nat → Nm) : Prop where
  res : ∀ d, d < w.n → w.isDir d = true → w.resolved (order d) d = some (fin d)
  cover : ∀ d, d < w.n → w.isDir d = true → ∀ i, i < (w.kids d).length →
    1 < (members (w.kids d).length (w.orig d) (w.orig d i)).length → w.orig d i ∈ order d

end Diskfs.Iso
