/-
  Mirror of partition/mbr (table.go toBytes / tableFromBytes / Read / Write;
  partition.go toBytes / partitionFromBytes) and of partition/partition.go Read
  (GPT first, then MBR).  Core Lean only.
-/
import DiskfsModel.Model.Gpt
namespace Diskfs.Mbr

structure Part where
  index : Nat
  bootable : Bool
  typ : Nat              -- one byte
  start : Nat            -- uint32, sectors
  size : Nat             -- uint32, sectors
  chs : Bytes            -- StartHead, StartSector, StartCylinder, EndHead, EndSector, EndCylinder
deriving Repr, DecidableEq

def byte (n : Nat) : UInt8 := UInt8.ofNat (n % 256)

/-- partition.go toBytes: 16 bytes -/
def entryEnc (p : Part) : Bytes :=
  [if p.bootable then 0x80 else 0x00, p.chs.getD 0 0, p.chs.getD 1 0, p.chs.getD 2 0, byte p.typ,
   p.chs.getD 3 0, p.chs.getD 4 0, p.chs.getD 5 0] ++ leEnc 4 p.start ++ leEnc 4 p.size

/-- partition.go partitionFromBytes on 16 bytes; `none` = "invalid partition" (boot flag not 0x00 / 0x80) -/
def entryDec (index : Nat) (b : Bytes) : Option Part :=
  let flag := b.getD 0 0
  if flag ≠ 0x00 ∧ flag ≠ 0x80 then none else
  some { index := index, bootable := flag == 0x80, typ := (b.getD 4 0).toNat,
         start := leDec (slice b 8 12), size := leDec (slice b 12 16),
         chs := [b.getD 1 0, b.getD 2 0, b.getD 3 0, b.getD 5 0, b.getD 6 0, b.getD 7 0] }

def emptySlot : Bytes := zeros 16

/-- table.go toBytes: slots are filled *by position* in `Partitions`, entries past the fourth are
    dropped; 66 bytes (four slots and the signature) -/
def tableEnc (ps : List Part) : Bytes :=
  ((List.range 4).flatMap fun i => match ps[i]? with
    | some p => entryEnc p
    | none => emptySlot) ++ [0x55, 0xaa]

/-- table.go Write: one write at byte 446 -/
def write (ps : List Part) : List Wr := [⟨446, tableEnc ps⟩]

/-- decode the four slots of a 512-byte boot sector -/
def slotsDec (b : Bytes) : List Nat → Option (List Part)
  | [] => some []
  | i :: is =>
    match entryDec (i + 1) (slice b (446 + i * 16) (446 + i * 16 + 16)), slotsDec b is with
    | some p, some ps => some (p :: ps)
    | _, _ => none

/-- table.go Read + tableFromBytes.  `none` = error.  Second component: allocation requests. -/
def read (d : Dev) (devSize : Nat) : Option (List Part) × List Int :=
  if devSize < 512 then (none, [512]) else
  let b := readAt d 0 512
  if slice b 510 512 ≠ [0x55, 0xaa] then (none, [512]) else
  (slotsDec b [0, 1, 2, 3], [512])

/-- the disk signature bytes 440..443 that `UUID()` reports -/
def diskSig (d : Dev) : Nat := leDec (readAt d 440 4)

/-- mbr.Partition.GetStart / GetSize after `Read` stamped the sector size -/
def getStart (p : Part) (lss : Nat) : Nat := p.start * lss
def getSize (p : Part) (lss : Nat) : Nat := p.size * lss

end Diskfs.Mbr

namespace Diskfs.PartTable
open Diskfs.Gpt

inductive Tbl where
  | gpt (t : Gpt.Table)
  | mbr (ps : List Mbr.Part)
deriving Repr, DecidableEq

/-- partition/partition.go Read given the outcome of gpt.Read: GPT first, MBR if that fails; a panic propagates -/
def readWith (g : Res Gpt.Table × List Int) (d : Dev) (devSize : Nat) : Res Tbl × List Int :=
  match g with
  | (.ok t, al) => (.ok (.gpt t), al)
  | (.panic s, al) => (.panic s, al)
  | (.err _, al) =>
    match Mbr.read d devSize with
    | (some ps, al2) => (.ok (.mbr ps), al ++ al2)
    | (none, al2) => (.err false, al ++ al2)

def read (c : Cfg) (crc : Bytes → Nat) (d : Dev) (devSize lss : Nat) : Res Tbl × List Int :=
  readWith (Gpt.read c crc d devSize lss) d devSize

end Diskfs.PartTable
