/-
  partition/gpt/table.go as it is NOW for tables of ANY geometry (after b8755c1 "round the GPT partition
  array up to whole sectors"): `partitionArraySectors` rounds UP, and every user of it — initTable,
  partitionArraySector, the minimum-size check of Write, Repair — follows.

  `Model/Gpt.lean` keeps the definitions the existing theorems are stated over (`partSectors`: integer
  division, exact for every table this library initialises itself because 16384 is a multiple of the
  sector size); this file adds, beside them, the definitions for an arbitrary initialised table — a table
  `gpt.Read` returned from a foreign disk (other entry counts, array at another LBA, aligned first usable
  LBA) and that was then edited: `Write` keeps the geometry the header carried (partitionArraySize,
  primaryHeader, secondaryHeader, firstDataSector, lastDataSector) and IGNORES its size argument.
  `writeUp_eq_write` (Proofs/GptGeom.lean) shows both agree whenever the array ends on a sector boundary.
  Core Lean only (linked into the driver, which runs `writeUp` for every case).
-/
import DiskfsModel.Model.Gpt
namespace Diskfs.Gpt

/-- table.go partitionArraySectors: `(uint64(n)*uint64(entrySize) + sectorSize - 1) / sectorSize` -/
def partSectorsUp (t : Table) : Nat := u64 (u64 (t.arrCount * t.entSize) + t.lss - 1) / t.lss

/-- table.go partitionArraySector -/
def arraySectorUp (t : Table) (primary : Bool) : Nat :=
  if primary then u64 (t.primaryHeader + 1) else u64sub t.secondaryHeader (partSectorsUp t)

/-- table.go initTable -/
def initTableUp (t : Table) (size : Nat) : Table :=
  let lss := if t.lss = 0 then 512 else t.lss
  let primaryHeader := if t.primaryHeader = 0 then 1 else t.primaryHeader
  let arrCount := if t.arrCount = 0 then 128 else t.arrCount
  let entSize := if t.entSize = 0 then 128 else t.entSize
  let diskSectors := u64 size / lss
  let partSectors := u64 (u64 (arrCount * entSize) + lss - 1) / lss
  let firstData := if t.firstData = 0 then u64 (2 + partSectors) else t.firstData
  let secondaryHeader := if t.secondaryHeader = 0 then u64sub diskSectors 1 else t.secondaryHeader
  let lastData := if t.lastData = 0 then u64sub (u64sub secondaryHeader partSectors) 1 else t.lastData
  { t with lss := lss, primaryHeader := primaryHeader, arrCount := arrCount, entSize := entSize,
           firstData := firstData, secondaryHeader := secondaryHeader, lastData := lastData,
           initialized := true }

/-- table.go toGPTBytes: one logical sector (the entry size written is the constant 0x80) -/
def hdrEncUp (crc : Bytes → Nat) (t : Table) (primary : Bool) (arr : Bytes) : Bytes :=
  let my := if primary then t.primaryHeader else t.secondaryHeader
  let alt := if primary then t.secondaryHeader else t.primaryHeader
  let body (f : Bytes) := hdrBody f my alt t.firstData t.lastData t.guid (arraySectorUp t primary)
                            t.arrCount 0x80 (crc arr)
  body (leEnc 4 (crc (body (zeros 4)))) ++ zeros (t.lss - 92)

/-- table.go Repair(diskSize) / Resize(size) -/
def repairUp (t : Table) (size : Nat) : Table :=
  let sh := u64sub (u64 size / t.lss) 1
  { t with secondaryHeader := sh, lastData := u64sub (u64sub sh (partSectorsUp t)) 1 }

/-- table.go Write: the synced writes in program order, and the table as Write leaves it.  An
    initialised table keeps its geometry; `size` is only used by initTable. -/
def writeUp (c : Cfg) (crc : Bytes → Nat) (t0 : Table) (size : Nat) : Res (List Wr × Table) :=
  let t := if t0.initialized then t0 else initTableUp t0 size
  if c.minDiskCheck && t.lss > 0 && t.secondaryHeader < u64 (t.primaryHeader + 2 * partSectorsUp t + 1) then .err false else
  match arrEnc c t with
  | .err e => .err e
  | .panic s => .panic s
  | .ok (arr, ps) =>
    let ph := hdrEncUp crc t true arr
    let bh := hdrEncUp crc t false arr
    let sb : Int := t.lss
    let pArrOff := toI64 (sb * toI64 (arraySectorUp t true))
    let sArrOff := toI64 (sb * toI64 (arraySectorUp t false))
    let pHdrOff := sb
    let sHdrOff := toI64 (toI64 t.secondaryHeader * sb)
    if sArrOff < 0 ∨ sHdrOff < 0 ∨ pArrOff < 0 then .err false else
    let pm := if t.pmbr then [Wr.mk 446 (pmbrEnc c t)] else []
    let core : List Wr := [⟨sArrOff.toNat, arr⟩, ⟨sHdrOff.toNat, bh⟩, ⟨pArrOff.toNat, arr⟩, ⟨pHdrOff.toNat, ph⟩]
    .ok (if c.pmbrLast then core ++ pm else pm ++ core, { t with parts := ps })

/-! ### the geometry of an initialised table, in bytes -/

/-- bytes of the entry array (`partitionEntrySize * partitionArraySize`; the entry size is 128) -/
def arrBytes (t : Table) : Nat := t.arrCount * 128

/-- byte offsets of the four GPT regions `Write` touches: primary array, backup array, backup header
    (the primary header is always written at byte `lss`) -/
def offPA (t : Table) : Nat := (t.primaryHeader + 1) * t.lss
def offBA (t : Table) : Nat := (t.secondaryHeader - partSectorsUp t) * t.lss
def offBH (t : Table) : Nat := t.secondaryHeader * t.lss

/-- WELL-FORMED GEOMETRY of an initialised table on a device of `size` bytes — what `gpt.Read` hands back
    for a valid GPT whose backup header is at the device's last LBA, and what `initTable` computes:
    entry size 128; at least one entry and no more than Read accepts (64 MiB of array); primary header at
    LBA 1; backup header at the LAST LBA of the device (where Read's fallback looks); room for LBA 0, two
    headers and two arrays of `partSectorsUp` sectors each without overlap; sizes below 2^63. -/
structure GeomWF (t : Table) (size : Nat) : Prop where
  init : t.initialized = true
  lss : 512 ≤ t.lss
  es : t.entSize = 128
  cnt : 1 ≤ t.arrCount
  cntMax : t.arrCount * 128 ≤ 67108864
  ph : t.primaryHeader = 1
  sh : t.secondaryHeader = size / t.lss - 1
  fits : 2 * partSectorsUp t + 3 ≤ size / t.lss
  hsz : size < two63
  fd : t.firstData < two64
  ld : t.lastData < two64
  guid : t.guid.length = 16

instance (t : Table) (size : Nat) : Decidable (GeomWF t size) :=
  if h : t.initialized = true ∧ 512 ≤ t.lss ∧ t.entSize = 128 ∧ 1 ≤ t.arrCount ∧ t.arrCount * 128 ≤ 67108864 ∧
      t.primaryHeader = 1 ∧ t.secondaryHeader = size / t.lss - 1 ∧ 2 * partSectorsUp t + 3 ≤ size / t.lss ∧
      size < two63 ∧ t.firstData < two64 ∧ t.lastData < two64 ∧ t.guid.length = 16
  then isTrue ⟨h.1, h.2.1, h.2.2.1, h.2.2.2.1, h.2.2.2.2.1, h.2.2.2.2.2.1, h.2.2.2.2.2.2.1, h.2.2.2.2.2.2.2.1,
    h.2.2.2.2.2.2.2.2.1, h.2.2.2.2.2.2.2.2.2.1, h.2.2.2.2.2.2.2.2.2.2.1, h.2.2.2.2.2.2.2.2.2.2.2⟩
  else isFalse fun w => h ⟨w.init, w.lss, w.es, w.cnt, w.cntMax, w.ph, w.sh, w.fits, w.hsz, w.fd, w.ld, w.guid⟩

end Diskfs.Gpt
