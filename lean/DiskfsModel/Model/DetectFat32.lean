/-
  C12 — the part of fat32.Read behind the header checks (filesystem/fat32/fat32.go Read,
  table.go tableFromBytes / equal): the two FAT copies are read with two `ReadAt` calls into ONE
  reused buffer of `fatSize` bytes (read errors ignored), turned into tables and compared:

      partitionTableBytes := make([]byte, fatSize)
      _, _ = b.ReadAt(partitionTableBytes, fatPrimaryStart+start);   fat  := tableFromBytes(...)
      _, _ = b.ReadAt(partitionTableBytes, fatSecondaryStart+start); fat2 := tableFromBytes(...)
      if !fat.equal(fat2) { return error }

  `equal` compares the FAT id (bytes 0..3), the end-of-chain marker (bytes 4..7), size, maxCluster and
  the entries 2..maxCluster-1 with maxCluster = fatSize/4: that is, the first 4*(fatSize/4) bytes.
  A ReadAt that starts at or beyond the end of the device leaves the buffer untouched; one that
  reaches beyond it fills the part that exists.  With this the model's FAT32 verdict no longer
  takes anything as an observed input.  Core Lean only.
-/
import DiskfsModel.Model.Detect
namespace Diskfs.Detect

/-- `p j` for every `j < n` (tail recursive: the driver runs it over whole FATs) -/
def allBelow : Nat → (Nat → Bool) → Bool
  | 0, _ => true
  | n + 1, p => if p n then allBelow n p else false

/-- the buffer after the first ReadAt (it was freshly made: zeros where the device has nothing) -/
def fatBuf1 (rd : Dev) (avail fat1 j : Nat) : UInt8 := if fat1 + j < avail then rd (fat1 + j) else 0

/-- the same buffer after the second ReadAt -/
def fatBuf2 (rd : Dev) (avail fat1 fat2 j : Nat) : UInt8 :=
  if fat2 + j < avail then rd (fat2 + j) else fatBuf1 rd avail fat1 j

def fatCopiesEqual (rd : Dev) (avail fat1 fat2 fatSize : Nat) : Bool :=
  allBelow (fatSize / 4 * 4) fun j => fatBuf1 rd avail fat1 j == fatBuf2 rd avail fat1 fat2 j

/-- what fat32.Read does after the FSInfo sector was accepted -/
def fat32Deep (rd : Dev) (avail : Nat) : Verdict :=
  let bps := u16 rd 11
  let fatSize := (u32 rd 36 * bps) % two32
  let fat1 := u16 rd 14 * bps
  if fatCopiesEqual rd avail fat1 (fat1 + fatSize) fatSize then .accept else .reject

/-- fat32.Read, whole -/
def verdictFat32Full (P : Params) (rd : Dev) (size avail bs : Nat) : Verdict :=
  verdictFat32 P rd size avail bs (fat32Deep rd avail)

/-- the probe context in which FAT32's deeper part is computed from the device instead of observed -/
def fullCtx (rd : Dev) (size avail bs : Nat) (deep : Kind → Verdict) : Ctx :=
  ⟨size, avail, bs, fun k => if k = .fat32 then fat32Deep rd avail else deep k⟩

end Diskfs.Detect
