/-
  squashfs metadata mirrors, second part (property C19):
    squashfs/finalize.go   writeIDTable: the id table cut into metadata blocks of 2048 ids
    squashfs/squashfs.go   readUidsGids: how many of those blocks are read back (`idCount*4` — as found in uint16)
    squashfs/inode.go      the inode types the data-path model (Model/Sqfs/Inode.lean: 1, 2, 3, 8, 9) does not
                           cover: extended symlink (10), block/char devices (4, 5, 11, 12), fifo/socket (6, 7, 13, 14)
  Core Lean only.
-/
import DiskfsModel.Model.MetaCodec
namespace Diskfs.Meta

/-! ### id table across metadata blocks -/

/-- readUidsGids: `idBytes := idCount * 4; idBlocks := (idBytes - 1) / 8192 + 1`; as found both in uint16
    (`widen = false`), repaired in int -/
def idBlocksRd (widen : Bool) (count : Nat) : Nat :=
  if widen then (count * 4 - 1) / 8192 + 1 else ((count * 4) % 65536 + 65535) % 65536 / 8192 + 1

def chunks (n : Nat) : Nat → List Nat → List (List Nat)
  | 0, _ => []
  | f + 1, l => if l.isEmpty then [] else l.take n :: chunks n f (l.drop n)

/-- writeIDTable: one metadata block per 2048 ids (8192 bytes), the rest in a last block -/
def idBlocksWr (ids : List Nat) : List (List Nat) := chunks 2048 ids.length ids

/-- readUidsGids over the blocks written: the superblock's idCount is `uint16(len(idtable))` -/
def readIds (widen : Bool) (count : Nat) (blocks : List (List Nat)) : List Nat :=
  if count % 65536 = 0 then [] else (blocks.take (idBlocksRd widen (count % 65536))).flatten

/-! ### the other inode types -/

structure XHdr where
  typ : Nat
  mode : Nat
  uid : Nat
  gid : Nat
  mtime : Nat
  index : Nat
deriving Repr, DecidableEq

inductive XBody
  | lnk (links : Nat) (target : Bytes) (xattr : Nat)      -- extended symlink
  | dev (links word : Nat)                                 -- basic block / char device: link count, device word
  | devx (links word xattr : Nat)                          -- extended block / char device
  | ipc (links : Nat)                                      -- basic fifo / socket
  | ipcx (links xattr : Nat)                               -- extended fifo / socket
deriving Repr, DecidableEq

/-- basicDevice.toBytes: `(major << 8) | (minor & 0xff) | ((minor & 0xfff00) << 12)` in uint32 -/
def devWord (major minor : Nat) : Nat :=
  ((major <<< 8) % 4294967296) ||| (minor &&& 0xff) ||| (((minor &&& 0xfff00) <<< 12) % 4294967296)

/-- parseBasicDevice -/
def devSplit (w : Nat) : Nat × Nat := ((w &&& 0xfff00) >>> 8, (w &&& 0xff) ||| ((w >>> 12) &&& 0xfff00))

def XBody.fits (typ : Nat) : XBody → Bool
  | .lnk .. => typ = 10
  | .dev .. => typ = 4 || typ = 5
  | .devx .. => typ = 11 || typ = 12
  | .ipc .. => typ = 6 || typ = 7
  | .ipcx .. => typ = 13 || typ = 14

def encXBody : XBody → Bytes
  | .lnk links t xa => leEnc 4 links ++ (leEnc 4 t.length ++ (t ++ leEnc 4 xa))
  | .dev links w => leEnc 4 links ++ leEnc 4 w
  | .devx links w xa => leEnc 4 links ++ (leEnc 4 w ++ leEnc 4 xa)
  | .ipc links => leEnc 4 links
  | .ipcx links xa => leEnc 4 links ++ leEnc 4 xa

/-- inodeImpl.toBytes -/
def encX (h : XHdr) (b : XBody) : Bytes :=
  leEnc 2 h.typ ++ (leEnc 2 h.mode ++ (leEnc 2 h.uid ++ (leEnc 2 h.gid ++ (leEnc 4 h.mtime ++ (leEnc 4 h.index ++ encXBody b)))))

/-- parseInodeBody for the types above; returns the bytes after the inode -/
def decXBody (typ : Nat) (b : Bytes) : Option (XBody × Bytes) :=
  if typ = 10 then
    if b.length < 8 then none
    else
      let n := leDec (slice b 4 8)
      if b.length < 8 + (n + 4) then none
      else some (.lnk (leDec (slice b 0 4)) (slice b 8 (8 + n)) (leDec (slice b (8 + n) (8 + n + 4))), b.drop (8 + n + 4))
  else if typ = 4 ∨ typ = 5 then
    if b.length < 8 then none else some (.dev (leDec (slice b 0 4)) (leDec (slice b 4 8)), b.drop 8)
  else if typ = 11 ∨ typ = 12 then
    if b.length < 12 then none
    else some (.devx (leDec (slice b 0 4)) (leDec (slice b 4 8)) (leDec (slice b 8 12)), b.drop 12)
  else if typ = 6 ∨ typ = 7 then
    if b.length < 4 then none else some (.ipc (leDec (slice b 0 4)), b.drop 4)
  else if typ = 13 ∨ typ = 14 then
    if b.length < 8 then none else some (.ipcx (leDec (slice b 0 4)) (leDec (slice b 4 8)), b.drop 8)
  else none

/-- parseInodeHeader + parseInodeBody -/
def decX (b : Bytes) : Option (XHdr × XBody × Bytes) :=
  if b.length < 16 then none
  else
    let h : XHdr := ⟨leDec (slice b 0 2), leDec (slice b 2 4), leDec (slice b 4 6), leDec (slice b 6 8),
      leDec (slice b 8 12), leDec (slice b 12 16)⟩
    match decXBody h.typ (b.drop 16) with
    | none => none
    | some (body, rest) => some (h, body, rest)

def XBody.WF : XBody → Prop
  | .lnk links t xa => links < 2 ^ 32 ∧ t.length < 2 ^ 32 ∧ xa < 2 ^ 32
  | .dev links w => links < 2 ^ 32 ∧ w < 2 ^ 32
  | .devx links w xa => links < 2 ^ 32 ∧ w < 2 ^ 32 ∧ xa < 2 ^ 32
  | .ipc links => links < 2 ^ 32
  | .ipcx links xa => links < 2 ^ 32 ∧ xa < 2 ^ 32

def XHdr.WF (h : XHdr) : Prop :=
  h.typ < 2 ^ 16 ∧ h.mode < 2 ^ 16 ∧ h.uid < 2 ^ 16 ∧ h.gid < 2 ^ 16 ∧ h.mtime < 2 ^ 32 ∧ h.index < 2 ^ 32

/-- directoryEntry.Mode: the Go type bits reported for an inode type (0: regular; 2^18 irregular for unknown types) -/
def sqTypeBits (typ : Nat) : Nat :=
  if typ = 1 ∨ typ = 8 then 2147483648
  else if typ = 2 ∨ typ = 9 then 0
  else if typ = 3 ∨ typ = 10 then 134217728
  else if typ = 4 ∨ typ = 11 then 67108864
  else if typ = 5 ∨ typ = 12 then 67108864 + 2097152
  else if typ = 6 ∨ typ = 13 then 33554432
  else if typ = 7 ∨ typ = 14 then 16777216
  else 524288

end Diskfs.Meta
