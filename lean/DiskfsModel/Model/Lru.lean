/-
  Small-step machine of the squashfs block cache, filesystem/squashfs/lru.go,
  for any number of threads.

  Go objects and their mirrors
    *lruBlock            a reference `Ref = (block.pos, id)`: `id` indexes the growing block
                         store `Sys.blocks` (blocks are never freed here: a block that `trim`
                         evicted while another goroutine still holds its lock lives on, as the Go
                         object does while it is referenced); `block.pos` is written once, at
                         creation, so it travels with the pointer.
    l.cache (map)        association list `cache : List Ref`, entry `(key, id)`.  `l.cache[block.pos] = block`
                         inserts `(block.pos, id)`, `delete(l.cache, block.pos)` removes every
                         entry with that key, `l.cache[pos]` finds the entry with key `pos`.
    root/prev/next list  `order : List Ref`, head = `l.root.prev` (least recently used, what `pop`
                         takes), last = `l.root.next` (most recently used, where `push` adds).
    l.mu, block.mu       `cacheOwner : Option Tid`, `Block.owner : Option Tid`.
    block.data/.size     `Block.data : Option Data` (`none` = nil).  One `Data` value stands for the
                         pair (data, size) that `fetch` returns and `get` stores.
    fetch()              deterministic `disk pos`; whether the fetch of one particular `get`
                         call fails is part of the program (`Op.get pos fetchOk`), so "every
                         program" covers every pattern of fetch errors.  A fetch is one step:
                         fetches terminate (hypothesis, DESIGN §6).
  Panics of the Go code are explicit: `pop` on an empty list ("internal error: list empty") and
  `unlink` of a block that is not on the list (nil `prev`) make the machine enter `panicked`.

  `slack` is the constant `k` in `add`'s `l.trim(l.maxBlocks - k)`; it is regenerated from lru.go
  (Generated.Lru.addTrimSlack, 1 today) and the theorems assume `1 ≤ slack`.

  Everything is executable and core-Lean only (linked into vd-lru).
-/
namespace Diskfs.Lru

abbrev Pos := Int
abbrev Tid := Nat
abbrev Data := Nat
/-- (block.pos, block id) -/
abbrev Ref := Pos × Nat

/-! ### the sequential cache operations (all run under `l.mu`) -/

structure Cache where
  cache : List Ref
  order : List Ref
deriving Repr, DecidableEq

/-- `l.cache[pos]` -/
def lookup (cache : List Ref) (pos : Pos) : Option Ref := cache.find? (fun r => r.1 == pos)

/-- `delete(l.cache, pos)` -/
def mapDelete (cache : List Ref) (pos : Pos) : List Ref := cache.filter (fun r => r.1 != pos)

/-- `l.cache[r.pos] = r` -/
def mapSet (cache : List Ref) (r : Ref) : List Ref := r :: mapDelete cache r.1

/-- `l.unlink(block)`; `none` = nil-pointer panic (block not on the list) -/
def unlink (order : List Ref) (r : Ref) : Option (List Ref) :=
  if r ∈ order then some (order.erase r) else none

/-- `l.pop()`; `none` = `panic("internal error: list empty")` -/
def pop (order : List Ref) : Option (Ref × List Ref) :=
  match order with
  | [] => none
  | r :: rest => some (r, rest)

/-- `l.push(block)` -/
def push (order : List Ref) (r : Ref) : List Ref := order ++ [r]

/-- the loop condition of `trim`: `len(l.cache) > maxBlocks && len(l.cache) > 0` -/
def trimCond (c : Cache) (n : Int) : Bool := decide ((c.cache.length : Int) > n) && decide (c.cache.length > 0)

/-- `l.trim(n)`.  Every iteration pops one list element, so `fuel = order.length` iterations
    exhaust the list; a further iteration is `pop` on the empty list, i.e. the panic. -/
def trimLoop (n : Int) : Nat → Cache → Option Cache
  | 0, c => if trimCond c n then none else some c
  | fuel + 1, c =>
    if trimCond c n then
      match pop c.order with
      | none => none
      | some (r, rest) => trimLoop n fuel ⟨mapDelete c.cache r.1, rest⟩
    else some c

def trim (n : Int) (c : Cache) : Option Cache := trimLoop n c.order.length c

/-- `l.add(block)` -/
def add (slack : Nat) (maxBlocks : Int) (c : Cache) (r : Ref) : Option Cache :=
  match trim (maxBlocks - slack) c with
  | none => none
  | some c' => some ⟨mapSet c'.cache r, push c'.order r⟩

/-- the part of `get` between `l.mu.Lock()` and `block.mu.Lock()`: returns the new cache state, the
    block and whether it was newly created (`newId` = the next free block id). -/
def findOrAdd (slack : Nat) (maxBlocks : Int) (c : Cache) (pos : Pos) (newId : Nat) :
    Option (Cache × Ref × Bool) :=
  match lookup c.cache pos with
  | none =>
    match add slack maxBlocks c (pos, newId) with
    | none => none
    | some c' => some (c', (pos, newId), true)
  | some r =>
    match unlink c.order r with
    | none => none
    | some o => some (⟨c.cache, push o r⟩, r, false)

/-! ### threads -/

inductive Op where
  | get (pos : Pos) (fetchOk : Bool)
  | setMax (n : Int)
deriving Repr, DecidableEq

inductive Ret where
  | hit (d : Data)
  | miss (d : Data)
  | err
  | unit
deriving Repr, DecidableEq

def Ret.value : Ret → Option Data
  | .hit d => some d
  | .miss d => some d
  | _ => none

/-- program counter: where a thread stands inside `get` / `setMaxBlocks`.  The comment gives the
    NEXT action of a thread at that point. -/
inductive Pc where
  | idle                                                   -- next op: `l.mu.Lock()` (or finished)
  | gFind (pos : Pos) (ok : Bool)                          -- lookup; add | unlink+push      [holds l.mu]
  | gLockBlock (pos : Pos) (ok : Bool) (b : Nat)           -- `block.mu.Lock()`              [holds l.mu]
  | gUnlockCache (pos : Pos) (ok : Bool) (b : Nat)         -- `l.mu.Unlock()`                [holds l.mu, block.mu]
  | gCheck (pos : Pos) (ok : Bool) (b : Nat)               -- `if block.data != nil`         [holds block.mu]
  | gFetch (pos : Pos) (ok : Bool) (b : Nat)               -- `fetch()`                      [holds block.mu]
  | gStore (pos : Pos) (ok : Bool) (b : Nat) (d : Data)    -- `block.data = data` …          [holds block.mu]
  | gUnlockBlock (pos : Pos) (ok : Bool) (b : Nat) (r : Ret) -- deferred `block.mu.Unlock()`, return r
  | sSet (n : Int)                                         -- `l.maxBlocks = n; l.trim(n)`   [holds l.mu]
  | sUnlock (n : Int)                                      -- deferred `l.mu.Unlock()`       [holds l.mu]
deriving Repr, DecidableEq

structure Thread where
  prog : List Op              -- operations not yet started
  pc : Pc
  rets : List (Op × Ret)      -- completed calls with what they returned, oldest first
deriving Repr, DecidableEq

structure Block where
  pos : Pos
  owner : Option Tid
  data : Option Data
deriving Repr, DecidableEq

structure Sys where
  c : Cache
  maxBlocks : Int
  cacheOwner : Option Tid
  blocks : List Block
  threads : List Thread
  panicked : Bool
deriving Repr, DecidableEq

def init (maxBlocks : Int) (progs : List (List Op)) : Sys :=
  { c := ⟨[], []⟩, maxBlocks := maxBlocks, cacheOwner := none, blocks := [],
    threads := progs.map fun p => ⟨p, .idle, []⟩, panicked := false }

def setThread (s : Sys) (t : Tid) (th : Thread) : Sys := { s with threads := s.threads.set t th }

def setBlock (s : Sys) (b : Nat) (blk : Block) : Sys := { s with blocks := s.blocks.set b blk }

/-- one step of thread `t`; `none` = the thread cannot move now (blocked on a lock, finished, no such
    thread, or the process has panicked). -/
def step (disk : Pos → Data) (slack : Nat) (s : Sys) (t : Tid) : Option Sys :=
  if s.panicked then none else
  match s.threads[t]? with
  | none => none
  | some th =>
    match th.pc with
    | .idle =>
      match th.prog with
      | [] => none
      | op :: rest =>
        if s.cacheOwner.isNone then
          let pc := match op with
            | .get pos ok => Pc.gFind pos ok
            | .setMax n => Pc.sSet n
          some (setThread { s with cacheOwner := some t } t { th with prog := rest, pc := pc })
        else none
    | .gFind pos ok =>
      match findOrAdd slack s.maxBlocks s.c pos s.blocks.length with
      | none => some { s with panicked := true }
      | some (c', r, isNew) =>
        let blocks := if isNew then s.blocks ++ [⟨pos, none, none⟩] else s.blocks
        some (setThread { s with c := c', blocks := blocks } t { th with pc := .gLockBlock pos ok r.2 })
    | .gLockBlock pos ok b =>
      match s.blocks[b]? with
      | none => none
      | some blk =>
        if blk.owner.isNone then
          some (setThread (setBlock s b { blk with owner := some t }) t { th with pc := .gUnlockCache pos ok b })
        else none
    | .gUnlockCache pos ok b =>
      some (setThread { s with cacheOwner := none } t { th with pc := .gCheck pos ok b })
    | .gCheck pos ok b =>
      match (s.blocks[b]?).bind (·.data) with
      | some d => some (setThread s t { th with pc := .gUnlockBlock pos ok b (.hit d) })
      | none => some (setThread s t { th with pc := .gFetch pos ok b })
    | .gFetch pos ok b =>
      if ok then some (setThread s t { th with pc := .gStore pos ok b (disk pos) })
      else some (setThread s t { th with pc := .gUnlockBlock pos ok b .err })
    | .gStore pos ok b d =>
      let s' := match s.blocks[b]? with
        | none => s
        | some blk => setBlock s b { blk with data := some d }
      some (setThread s' t { th with pc := .gUnlockBlock pos ok b (.miss d) })
    | .gUnlockBlock pos ok b r =>
      let s' := match s.blocks[b]? with
        | none => s
        | some blk => setBlock s b { blk with owner := none }
      some (setThread s' t { th with pc := .idle, rets := th.rets ++ [(.get pos ok, r)] })
    | .sSet n =>
      match trim n s.c with
      | none => some { s with panicked := true }
      | some c' => some (setThread { s with maxBlocks := n, c := c' } t { th with pc := .sUnlock n })
    | .sUnlock n =>
      some (setThread { s with cacheOwner := none } t { th with pc := .idle, rets := th.rets ++ [(.setMax n, .unit)] })

/-- a schedule is any list of thread ids; a thread that cannot move is skipped -/
def run (disk : Pos → Data) (slack : Nat) (s : Sys) (sched : List Tid) : Sys :=
  sched.foldl (fun s t => (step disk slack s t).getD s) s

def Thread.done (th : Thread) : Bool := th.pc == .idle && th.prog.isEmpty

def allDone (s : Sys) : Bool := s.threads.all Thread.done

/-! ### the code skeleton the machine mirrors (compared with facts regenerated from lru.go)

  Each micro-step of the machine with the statements of lru.go it performs, in source order, in
  the normalised vocabulary of the fact extractor (receiver `l`, the looked-up block `block`,
  the lookup's second result `found`, parameters `pos`, `fetch`, results `data`, `size`, `err`). -/

def getProgram : List (String × List String) :=
  [ ("idle/lockCache",  ["l.mu.Lock"]),
    ("gFind",           ["lookup l.cache[pos]", "if !found", "new block", "l.add(block)", "else",
                         "l.unlink(block)", "l.push(block)", "endif"]),
    ("gLockBlock",      ["block.mu.Lock"]),
    ("gUnlockCache",    ["l.mu.Unlock"]),
    ("gCheck",          ["defer block.mu.Unlock", "if block.data != nil", "return block.data", "endif"]),
    ("gFetch",          ["fetch()", "if err != nil", "return nil", "endif"]),
    ("gStore",          ["store", "return data"]),
    ("gUnlockBlock",    []) ]

def setMaxProgram : List (String × List String) :=
  [ ("idle/lockCache",  ["l.mu.Lock"]),
    ("sSet",            ["defer l.mu.Unlock", "l.maxBlocks = maxBlocks", "l.trim(l.maxBlocks)"]),
    ("sUnlock",         []) ]

def addSkeleton : List String := ["l.trim(l.maxBlocks - k)", "l.cache[block.pos] = block", "l.push(block)"]
def trimSkeleton : List String :=
  ["for len(l.cache) > maxBlocks && len(l.cache) > 0", "block := l.pop()", "delete(l.cache, block.pos)", "endfor"]
def popSkeleton : List String :=
  ["block := l.root.prev", "if block == &l.root", "panic", "endif", "l.unlink(block)", "return block"]
/-- the doubly linked list code that `push`/`unlink` stand for (`order ++ [r]`, `order.erase r`) -/
def pushSkeleton : List String :=
  ["oldHead := l.root.next", "l.root.next = block", "block.prev = &l.root", "block.next = oldHead", "oldHead.prev = block"]
def unlinkSkeleton : List String :=
  ["block.prev.next = block.next", "block.next.prev = block.prev", "block.prev = nil", "block.next = nil"]
/-- the fields `get` stores after a successful fetch (sorted) -/
def getStores : List String := ["block.data = data", "block.size = size"]

def flat (p : List (String × List String)) : List String := (p.map (·.2)).flatten

end Diskfs.Lru
