/-
  Sequential decoder of one extent-tree node (12-byte header, 12-byte entries), the executable form the
  SPEC reader uses: one pass over the block instead of `parseNode`'s indexed field reads (which cost
  O(offset) each on a list).  Proofs/Ext4Spec.lean proves `seqNode = parseNode`.  Core Lean only.
-/
import DiskfsModel.Model.Ext4.Reader
namespace Diskfs.Ext4.Spec
open Diskfs Diskfs.Ext4.Reader

/-- one leaf entry from its 12 bytes: ee_block, ee_len, ee_start_hi, ee_start_lo -/
def leafOfChunk (c : Bytes) : Extent :=
  ⟨leDec (c.take 4), compose32 (leDec ((c.drop 8).take 4)) (leDec ((c.drop 6).take 2)), leDec ((c.drop 4).take 2)⟩

/-- one index entry from its 12 bytes: ei_block, ei_leaf_lo, ei_leaf_hi -/
def indexOfChunk (c : Bytes) : Nat × Nat :=
  (leDec (c.take 4), compose32 (leDec ((c.drop 4).take 4)) (leDec ((c.drop 8).take 2)))

def chunkMap {α : Type} (f : Bytes → α) : Nat → Bytes → List α
  | 0, _ => []
  | n + 1, r => f (r.take 12) :: chunkMap f n (r.drop 12)

def seqNode (b : Bytes) : Res RawNode :=
  if b.length < 24 then .err
  else
    let h := b.take 12
    if leDec (h.take 2) ≠ 0xf30a then .err
    else
      let entries := leDec ((h.drop 2).take 2)
      let depth := leDec ((h.drop 6).take 2)
      if 12 + 12 * entries > b.length then .panic
      else if depth = 0 then .ok (.leaf (chunkMap leafOfChunk entries (b.drop 12)))
      else .ok (.index (chunkMap indexOfChunk entries (b.drop 12)))

end Diskfs.Ext4.Spec
