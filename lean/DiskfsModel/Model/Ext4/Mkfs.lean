/-
  The layout arithmetic of ext4.Create (filesystem/ext4/ext4.go: Create, recalculateBlocksize,
  buildGroupDescriptorsFromSuperblock, checkSuperBackup, groupDescriptorInodeTableBlocks) as a function of
  the parameters: block size choice, block count, blocks per group, group count, inodes per group (rounded
  up to a multiple of 8), reserved GDT blocks, GDT blocks, inode-table blocks, and for every group where its
  block bitmap, inode bitmap and inode table go (flex_bg packs the metadata of `flexSize` groups behind the
  first group of the flex group).

  Not mirrored: the journal and resize-inode placement (they go through allocateExtents), feature flags that do
  not influence the layout, bigalloc / meta_bg (refused by Create).
-/
namespace Diskfs.Ext4.Mkfs

structure Params where
  size : Nat            -- bytes
  spb : Nat             -- Params.SectorsPerBlock (0 = let Create choose)
  bpg : Nat             -- Params.BlocksPerGroup (0 = default)
  inodeRatio : Nat      -- 0 = default
  inodeCount : Nat      -- 0 = from the ratio
  logFlex : Nat         -- Params.LogFlexBlockGroups (0 = default 3)
  resize : Bool         -- reserved GDT blocks / resize inode requested
  flex : Bool
  bit64 : Bool
deriving Repr, DecidableEq

structure Layout where
  bs : Nat
  numBlocks : Nat
  bpg : Nat
  groups : Nat
  ipg : Nat
  inodeCount : Nat
  fdb : Nat
  rsvGdt : Nat
  descSize : Nat
  gdtBlocks : Nat
  itb : Nat             -- inode table blocks per group
  flexSize : Nat
  resize : Bool
deriving Repr, DecidableEq

inductive Err where
  | spb | bpgSmall | bpgLarge | bpgMod8 | tooManyInodes | noBlocks
deriving Repr, DecidableEq

def ceilDiv (a b : Nat) : Nat := (a + b - 1) / b

def chooseBs (p : Params) : Nat :=
  if p.spb = 0 then (if p.size < 512 * 1024 * 1024 then 1024 else 4096) else p.spb * 512

/-- the resize feature is dropped when Create itself picked a block size other than 1 KiB -/
def chooseResize (p : Params) : Bool := if p.spb = 0 ∧ chooseBs p ≠ 1024 then false else p.resize

def maxBPG (p : Params) : Nat := min (chooseBs p * 8) 65528
def chooseBpg (p : Params) : Nat := if p.bpg = 0 then maxBPG p else p.bpg
def numBlocksOf (p : Params) : Nat := p.size / chooseBs p
def groupsOf (p : Params) : Nat := ceilDiv (numBlocksOf p) (chooseBpg p)
def ratioOf (p : Params) : Nat := max (if p.inodeRatio = 0 then 8192 else p.inodeRatio) (chooseBs p)
def ic0Of (p : Params) : Nat := if p.inodeCount = 0 then numBlocksOf p * chooseBs p / ratioOf p else p.inodeCount
def ipgOf (p : Params) : Nat := (ceilDiv (ic0Of p) (groupsOf p) + 7) / 8 * 8
def flexSizeOf (p : Params) : Nat := if p.flex then 2 ^ (if p.logFlex = 0 then 3 else p.logFlex) else 1

def layoutOf (p : Params) : Layout :=
  { bs := chooseBs p, numBlocks := numBlocksOf p, bpg := chooseBpg p, groups := groupsOf p, ipg := ipgOf p,
    inodeCount := ipgOf p * groupsOf p, fdb := if chooseBs p = 1024 then 1 else 0,
    rsvGdt := if chooseResize p then min (p.size * 1024 / chooseBs p) 256 else 0,
    descSize := if p.bit64 then 64 else 32,
    gdtBlocks := ceilDiv (groupsOf p * (if p.bit64 then 64 else 32)) (chooseBs p),
    itb := ceilDiv (ipgOf p * 256) (chooseBs p), flexSize := flexSizeOf p, resize := chooseResize p }

/-- Create up to the superblock: every refusal of the parameter checks, in the code's order -/
def mkLayout (p : Params) : Except Err Layout :=
  if p.spb ≠ 0 ∧ (p.spb > 128 ∨ p.spb < 2) then .error .spb
  else if p.bpg ≠ 0 ∧ p.bpg < 256 then .error .bpgSmall
  else if p.bpg > maxBPG p then .error .bpgLarge
  else if p.bpg % 8 ≠ 0 then .error .bpgMod8
  else if groupsOf p = 0 then .error .noBlocks        -- Go divides by zero here
  else if ic0Of p > 4294967295 then .error .tooManyInodes
  else .ok (layoutOf p)

/-- checkSuperBackup: groups 0, 1 and powers of 3, 5, 7 -/
def isPowerOf (n : Nat) : Nat → Nat → Nat → Bool
  | 0, _, _ => false
  | fuel + 1, x, g => if x == g then true else if x > g then false else isPowerOf n fuel (x * n) g

def hasSuper (g : Nat) : Bool :=
  g == 0 || g == 1 || isPowerOf 3 64 3 g || isPowerOf 5 64 5 g || isPowerOf 7 64 7 g

def metaBlocks (l : Layout) (g : Nat) : Nat := if hasSuper g then 1 + l.gdtBlocks + l.rsvGdt else 0

def groupStart (l : Layout) (g : Nat) : Nat := l.fdb + g * l.bpg

def blocksInGroup (l : Layout) (g : Nat) : Nat := min l.bpg (l.numBlocks - groupStart l g)

def flexOwner (l : Layout) (g : Nat) : Nat := g / l.flexSize * l.flexSize

def perGroupMeta (l : Layout) : Nat := 2 + l.itb

/-- block bitmap location of group g (inode bitmap is +1, inode table +2) -/
def metaBase (l : Layout) (flex : Bool) (g : Nat) : Nat :=
  if flex then
    let o := flexOwner l g
    groupStart l o + metaBlocks l o + (g - o) * perGroupMeta l
  else groupStart l g + metaBlocks l g

def groupsInFlex (l : Layout) (o : Nat) : Nat := min l.flexSize (l.groups - o)

/-- free blocks buildGroupDescriptorsFromSuperblock records for group g (before journal, root directory …) -/
def initialFree (l : Layout) (flex : Bool) (g : Nat) : Nat :=
  let overhead := metaBlocks l g +
    (if flex then (if g = flexOwner l g then groupsInFlex l g * perGroupMeta l else 0) else perGroupMeta l)
  blocksInGroup l g - min overhead (blocksInGroup l g)

/-- the metadata of every flex group fits behind its owner's superblock copy, inside the owner group -/
def Fits (l : Layout) (flex : Bool) : Prop :=
  ∀ g, g < l.groups →
    if flex then
      (g = flexOwner l g → metaBlocks l g + groupsInFlex l g * perGroupMeta l ≤ blocksInGroup l g)
    else metaBlocks l g + perGroupMeta l ≤ blocksInGroup l g

instance (l : Layout) (flex : Bool) : Decidable (Fits l flex) := by
  unfold Fits; exact Nat.decidableBallLT _ _

end Diskfs.Ext4.Mkfs
