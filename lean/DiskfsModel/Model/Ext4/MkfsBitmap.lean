/-
  The block bitmap of every group as ext4.Create builds it (filesystem/ext4/ext4.go: buildBlockBitmapForGroup =
  markBlockBitmapPadding, markSuperBackupMetadata, markFlexMetadataBlocks / markNonFlexMetadataBlocks), as a
  function of the layout: bit j of group g is set when it is padding behind the group's last block, one of the
  first `metaBlocks` blocks of a group with a superblock backup (superblock, ceil(groups*descSize/blockSize) GDT
  blocks, reserved GDT blocks) or inside the (block bitmap, inode bitmap, inode table) slot of a group of the same
  flex group (with flex_bg) / of the group itself (without).

  Not mirrored: the blocks Create takes afterwards through allocateExtents (journal, the resize inode's
  double-indirect block, root directory).
-/
import DiskfsModel.Model.Ext4.Mkfs
namespace Diskfs.Ext4.Mkfs

/-- bits of group g's block bitmap: whole bitmap blocks -/
def bitmapBits (l : Layout) (g : Nat) : Nat := ceilDiv (blocksInGroup l g) (l.bs * 8) * (l.bs * 8)

/-- absolute block b lies in the (block bitmap, inode bitmap, inode table) slot of group h -/
def inSlot (l : Layout) (flex : Bool) (h b : Nat) : Bool :=
  decide (metaBase l flex h ≤ b) && decide (b < metaBase l flex h + perGroupMeta l)

/-- bit j of group g's block bitmap after buildBlockBitmapForGroup -/
def markedBit (l : Layout) (flex : Bool) (g j : Nat) : Bool :=
  (decide (blocksInGroup l g ≤ j) && decide (j < bitmapBits l g))
  || decide (j < metaBlocks l g)
  || (decide (j < l.bpg) &&
      (if flex then
         (List.range l.groups).any fun h => (h / l.flexSize == g / l.flexSize) && inSlot l true h (groupStart l g + j)
       else inSlot l false g (groupStart l g + j)))

def mkBitmap (l : Layout) (flex : Bool) (g : Nat) : List Bool :=
  (List.range (bitmapBits l g)).map (markedBit l flex g)

/-- the block bitmaps of all groups after Create's initGroupDescriptorTables -/
def mkBitmaps (l : Layout) (flex : Bool) : List (List Bool) :=
  (List.range l.groups).map (mkBitmap l flex)

/-- the blocks buildGroupDescriptorsFromSuperblock counts as taken in group g: superblock / GDT copy, and the slots
    of the whole flex group in its first group -/
def overhead (l : Layout) (flex : Bool) (g : Nat) : Nat :=
  metaBlocks l g +
    (if flex then (if g = flexOwner l g then groupsInFlex l g * perGroupMeta l else 0) else perGroupMeta l)

/-- marked bits among the group's real blocks -/
def markedCount (l : Layout) (flex : Bool) (g : Nat) : Nat :=
  ((List.range (blocksInGroup l g)).filter (markedBit l flex g)).length

end Diskfs.Ext4.Mkfs
