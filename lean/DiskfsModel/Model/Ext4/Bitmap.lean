/-
  Executable mirror of /repo/util/bitmap/bitmap.go (the bitmap used by the ext4
  block/inode allocators).  A bitmap is the Go `bits []byte`, here `Bytes`.
  Bit `i` lives in byte `i / 8` under mask `1 <<< (i % 8)` (LSB first).

  Quirks mirrored as found:
    * `IsSet` tests `byteNumber > len(bm.bits)` (strictly greater), so
      `byteNumber == len` indexes out of range and PANICS.
    * `Set` / `Clear` test `byteNumber >= len` and return an error.
    * `FirstFree` clamps a negative start to 0.
  Go `int` is 64 bit; locations here are unbounded `Int` (a `[]byte` cannot be
  long enough for `8*len` to wrap).  Core Lean only: linked into a driver.
-/
import DiskfsModel.Core.Bytes
namespace Diskfs.Ext4.Bitmap

/-- result of an operation that can return an error or panic -/
inductive Res (α : Type) where
  | ok (a : α)
  | err
  | panic
deriving Repr, DecidableEq

/-- Go `byte(0x1) << j` (`j : uint8`, always `< 8` at every call site) -/
def mask (j : Nat) : UInt8 := (1 : UInt8) <<< j.toUInt8

/-- spec-level view of one byte: bit `j` of `b` -/
def byteBit (b : UInt8) (j : Nat) : Bool := b.toNat.testBit j

/-- spec-level view: is bit `i` set (bytes beyond the end read as 0) -/
def bit (bm : Bytes) (i : Nat) : Bool := byteBit (bm.getD (i / 8) 0) (i % 8)

/-- Go `IsSet`'s test `b & mask == mask` -/
def testSet (b : UInt8) (j : Nat) : Bool := b &&& mask j == mask j

/-- Go `FirstFree`'s test `b & (1<<j) == 0` -/
def testClear (b : UInt8) (j : Nat) : Bool := b &&& mask j == 0

/-- Go `IsSet` -/
def isSet (bm : Bytes) (loc : Int) : Res Bool :=
  if loc < 0 then .err
  else
    let n := loc.toNat
    let byteNumber := n / 8
    let bitNumber := n % 8
    if byteNumber > bm.length then .err
    else match bm[byteNumber]? with
      | none => .panic          -- byteNumber == len: index out of range
      | some b => .ok (testSet b bitNumber)

/-- Go `Set` -/
def set (bm : Bytes) (loc : Int) : Res Bytes :=
  if loc < 0 then .err
  else
    let n := loc.toNat
    let byteNumber := n / 8
    let bitNumber := n % 8
    if byteNumber ≥ bm.length then .err
    else .ok (bm.modify byteNumber (fun b => b ||| mask bitNumber))

/-- Go `Clear` -/
def clear (bm : Bytes) (loc : Int) : Res Bytes :=
  if loc < 0 then .err
  else
    let n := loc.toNat
    let byteNumber := n / 8
    let bitNumber := n % 8
    if byteNumber ≥ bm.length then .err
    else .ok (bm.modify byteNumber (fun b => b &&& ~~~ mask bitNumber))

/-- `for j := from; j < from+n; j++ { if p j { return j } }` -/
def scanBits (p : Nat → Bool) : (j n : Nat) → Option Nat
  | _, 0 => none
  | j, n+1 => if p j then some j else scanBits p (j+1) n

/-- the "remaining full bytes" loop of `FirstFree`; `i` is the index of the head byte -/
def firstFreeBytes : Bytes → Nat → Int
  | [], _ => -1
  | b :: bs, i =>
    if b == 0xff then firstFreeBytes bs (i+1)
    else match scanBits (testClear b) 0 8 with
      | some j => ((i * 8 + j : Nat) : Int)
      | none => firstFreeBytes bs (i+1)

/-- Go `FirstFree` -/
def firstFree (bm : Bytes) (start : Int) : Int :=
  let s := if start < 0 then 0 else start.toNat
  let totalBits := bm.length * 8
  if s ≥ totalBits then -1
  else
    let byteIdx := s / 8
    let bitStart := s % 8
    let b := bm.getD byteIdx 0
    let first := if b != 0xff then scanBits (testClear b) bitStart (8 - bitStart) else none
    match first with
    | some j => ((byteIdx * 8 + j : Nat) : Int)
    | none => firstFreeBytes (bm.drop (byteIdx + 1)) (byteIdx + 1)

/-- the loop of `FirstSet`; `i` is the index of the head byte -/
def firstSetBytes : Bytes → Nat → Int
  | [], _ => -1
  | b :: bs, i =>
    if b == 0x00 then firstSetBytes bs (i+1)
    else match scanBits (fun j => b &&& mask j != 0) 0 8 with
      | some j => ((i * 8 + j : Nat) : Int)
      | none => firstSetBytes bs (i+1)

/-- Go `FirstSet` -/
def firstSet (bm : Bytes) : Int := firstSetBytes bm 0

/-- loop state of `FreeList`: `out` is the list built so far in REVERSE order,
    `loc = none` is Go's `location == -1`. -/
structure FLState where
  out : List (Nat × Nat)
  loc : Option Nat
  count : Nat
deriving Repr, DecidableEq

/-- one iteration of the inner loop body at bit position `pos`;
    `isClear` is `b&mask != mask` -/
def flStep (s : FLState) (pos : Nat) (isClear : Bool) : FLState :=
  if isClear then
    { s with loc := (match s.loc with | none => some pos | some l => some l), count := s.count + 1 }
  else match s.loc with
    | some l => { out := (l, s.count) :: s.out, loc := none, count := 0 }
    | none => s

/-- the inner loop `for j := 0; j < 8; j++` on byte `b` at index `i` -/
def flByte (b : UInt8) (i : Nat) (s : FLState) : FLState :=
  (List.range 8).foldl (fun s j => flStep s (8 * i + j) (!testSet b j)) s

/-- the outer loop `for i, b := range bm.bits`, head byte at index `i` -/
def flBytes : Bytes → Nat → FLState → FLState
  | [], _, s => s
  | b :: bs, i, s => flBytes bs (i+1) (flByte b i s)

/-- the trailing `if location != -1 { append }` and un-reversing -/
def flFlush (s : FLState) : List (Nat × Nat) :=
  match s.loc with
  | some l => ((l, s.count) :: s.out).reverse
  | none => s.out.reverse

/-- Go `FreeList`: (position, count) of the maximal runs of clear bits, by position -/
def freeList (bm : Bytes) : List (Nat × Nat) :=
  flFlush (flBytes bm 0 ⟨[], none, 0⟩)

/-- number of clear bits among bits `0 .. nbits-1` (spec helper; bits beyond the
    end of `bm` read as clear, like `bit`) -/
def countFree (bm : Bytes) (nbits : Nat) : Nat :=
  (List.range nbits).foldl (fun acc i => if bit bm i then acc else acc + 1) 0

end Diskfs.Ext4.Bitmap
