/-
  The checksum tail of an ext4 directory block (filesystem/ext4/checksum.go: directoryChecksumAppender /
  directoryChecksummer): 12 bytes - a fake entry with inode 0, rec_len 12, name_len 0, file type 0xDE - whose last
  four bytes are crc32c over the filesystem's checksum seed, the DIRECTORY's inode number, its generation and the
  block's first `blockSize - 12` bytes. crc32c is the one of the image specification (Model/Ext4/ImageSpec.lean).
-/
import DiskfsModel.Model.Ext4.ImageSpec
import DiskfsModel.Model.Ext4.DirPack
namespace Diskfs.Ext4.DirPack
open Diskfs Diskfs.Ext4

/-- `directoryChecksummer(seed, inodeNumber, inodeGeneration)(b)` -/
def dirCsum (seed ino gen : Nat) (b : Bytes) : Nat :=
  (Spec.crc32c (Spec.crc32c (Spec.crc32c (UInt32.ofNat seed) (leEnc 4 ino)) (leEnc 4 gen)) b).toNat

/-- the 12 bytes `directoryChecksumAppender(seed, inodeNumber, inodeGeneration)` appends to a block body -/
def dirTail (seed ino gen : Nat) : Bytes → Bytes :=
  fun b => [0, 0, 0, 0, 12, 0, 0, 0xde] ++ leEnc 4 (dirCsum seed ino gen b)

end Diskfs.Ext4.DirPack
