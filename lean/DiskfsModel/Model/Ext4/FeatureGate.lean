/-
  Property C20, the feature gate of ext4.Read as a DECISION TABLE regenerated from the source on every run
  (Generated/Ext4Ref.lean: featIncompatNames/Bits, gateIncompatRefused, gateIncompatRequired and the same for
  the RO_COMPAT and COMPAT words): which feature bits features.go names, which of them make ext4.Read return an
  error when set, which it demands.  Everything else — named bits that are neither refused nor demanded, and bits
  features.go does not name at all — passes the gate.  Core Lean only.
-/
import DiskfsModel.Model.Ext4.ReaderCfg
namespace Diskfs.Ext4.Reader
open Diskfs.Generated

structure GateTbl where
  /-- bits that make the open fail when set -/
  refused : List Nat
  /-- bits that make the open fail when clear -/
  required : List Nat
deriving Repr, DecidableEq

/-- the decision of ext4.Read on one feature word -/
def gateAcceptsT (t : GateTbl) (word : Nat) : Bool :=
  t.refused.all (fun b => !hasBit word b) && t.required.all (fun b => hasBit word b)

def GateTbl.incompatCurrent : GateTbl := ⟨Ext4Ref.gateIncompatRefused, Ext4Ref.gateIncompatRequired⟩
def GateTbl.roCompatCurrent : GateTbl := ⟨Ext4Ref.gateRoCompatRefused, Ext4Ref.gateRoCompatRequired⟩
def GateTbl.compatCurrent : GateTbl := ⟨Ext4Ref.gateCompatRefused, Ext4Ref.gateCompatRequired⟩

/-- the open decision on the three feature words -/
def gateAcceptsAll (compat incompat roCompat : Nat) : Bool :=
  gateAcceptsT GateTbl.compatCurrent compat && gateAcceptsT GateTbl.incompatCurrent incompat &&
  gateAcceptsT GateTbl.roCompatCurrent roCompat

/-- INCOMPAT bits the reader implements or can ignore when it only reads: filetype, extents, 64bit, mmp (a
    block the reader never touches), flex_bg (a placement policy), csum_seed, large_dir.  Every other INCOMPAT
    bit changes what on-disk fields mean (compression 0x1, journal to replay 0x4, journal device 0x8, meta_bg
    0x10, ea_inode 0x400, dirdata 0x1000, inline_data 0x8000, encrypt 0x10000, casefold 0x20000, unknown). -/
def supportedIncompat : List Nat := [0x2, 0x40, 0x80, 0x100, 0x200, 0x2000, 0x4000]

/-- single-bit positions of a 32-bit word that the gate lets pass although the reader does not support them -/
def gateUncovered (t : GateTbl) : List Nat :=
  (List.range 32).filter fun k => !(supportedIncompat.contains (2 ^ k)) && !(t.refused.contains (2 ^ k))

end Diskfs.Ext4.Reader
