/-
  Mirror of the ext4 path walk (filesystem/ext4/ext4.go readDirWithMkdir with doMake = false, getEntryAndParent;
  util.go splitPath) and the plain-tree specification it is compared with.

  The library resolves a path component by component from the root directory (inode 2): `splitPath` cuts the string
  at '/' and drops empty parts; in the entries of the current directory (readDirectory: every entry incl. "." and
  "..") the FIRST entry with that name is taken; an entry that is not a directory (a file, a SYMLINK: links are not
  followed) ends the walk with "cannot create directory at … since it is a file"; a missing one with "path … not
  found"; then the directory the entry names is read. getEntryAndParent walks path.Dir(p) and looks path.Base(p) up
  in the last directory (first entry with that name; none: entry nil).

  `dirs ino` = what readDirectory(ino) returns (`none`: it fails).
-/
import DiskfsModel.Core.Bytes
namespace Diskfs.Ext4.PathWalk
open Diskfs

structure DEntry where
  name : Bytes
  ino : Nat
  ftype : Nat      -- dirFileType: 1 regular, 2 directory, 7 symlink
deriving Repr, DecidableEq

abbrev Dirs := Nat → Option (List DEntry)

/-- `strings.Split(p, "/")`: `cur` collects the current part (reversed) -/
def splitSlashAux : Bytes → Bytes → List Bytes
  | [], cur => [cur.reverse]
  | c :: cs, cur => if c = 47 then cur.reverse :: splitSlashAux cs [] else splitSlashAux cs (c :: cur)

/-- `splitPath`: the non-empty parts between slashes -/
def splitPath (p : Bytes) : List Bytes := (splitSlashAux p []).filter (fun s => !s.isEmpty)

inductive Walk where
  | dir (ino : Nat) (entries : List DEntry)   -- the directory reached and its entries
  | notFound (i : Nat)                        -- "path /c0/…/ci not found"
  | notDir (i : Nat)                          -- "cannot create directory at /c0/…/ci since it is a file"
  | readErr (i : Nat)                         -- readDirectory of component i failed
deriving Repr, DecidableEq

/-- the loop of readDirWithMkdir(p, false) over the components still to walk; `i` = index of the next component -/
def walk (dirs : Dirs) : Nat → List DEntry → List Bytes → Nat → Walk
  | cur, es, [], _ => .dir cur es
  | _, es, c :: cs, i =>
    match es.find? (fun e => e.name == c) with
    | none => .notFound i
    | some e =>
      if e.ftype ≠ 2 then .notDir i
      else match dirs e.ino with
        | none => .readErr i
        | some es' => walk dirs e.ino es' cs (i + 1)

/-- `readDirWithMkdir(p, false)` on the components of p: starts with readDirectory(rootInode) -/
def readDir (dirs : Dirs) (comps : List Bytes) : Walk :=
  match dirs 2 with
  | none => .readErr 0
  | some es => walk dirs 2 es comps 0

inductive Lookup where
  | entry (e : DEntry)      -- the directory entry found (inode number, type)
  | absent                  -- the parent exists, the name is not in it (entry == nil)
  | noParent                -- "could not read directory entries for …"
deriving Repr, DecidableEq

/-- `getEntryAndParent` on `parent components ++ [base]` -/
def lookup (dirs : Dirs) (parent : List Bytes) (base : Bytes) : Lookup :=
  match readDir dirs parent with
  | .dir _ es =>
    match es.find? (fun e => e.name == base) with
    | some e => .entry e
    | none => .absent
  | _ => .noParent

/-! ### the specification: a plain tree -/

inductive Tree where
  | file (ino : Nat)
  | link (ino : Nat)
  | dir (ino : Nat) (kids : List (Bytes × Tree))
deriving Repr

def Tree.ino : Tree → Nat
  | .file i => i
  | .link i => i
  | .dir i _ => i

def Tree.ftype : Tree → Nat
  | .file _ => 1
  | .link _ => 7
  | .dir _ _ => 2

/-- descent by name; `none`: some component is missing, or a component before the last is not a directory -/
def specLookup : Tree → List Bytes → Option Tree
  | t, [] => some t
  | .dir _ kids, c :: cs =>
    match kids.find? (fun k => k.1 == c) with
    | some k => specLookup k.2 cs
    | none => none
  | _, _ :: _ => none

end Diskfs.Ext4.PathWalk
