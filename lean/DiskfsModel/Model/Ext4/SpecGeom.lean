/-
  SPEC reader of ext4, part 1 (property C20): the superblock geometry and the addressing arithmetic,
  written from the on-disk format (kernel Documentation/filesystems/ext4, fs/ext4/ext4.h), not from the
  Go code:

    superblock  s_inodes_count 0x0, s_blocks_count lo 0x4 / hi 0x150, s_first_data_block 0x14,
                s_log_block_size 0x18, s_log_cluster_size 0x1c, s_blocks_per_group 0x20,
                s_inodes_per_group 0x28, s_magic 0x38, s_inode_size 0x58, feature words 0x5c/0x60/0x64,
                s_uuid 0x68, s_desc_size 0xfe, s_checksum_type 0x175, s_checksum_seed 0x270, s_checksum 0x3fc
    groups      ceil((blocks - first_data_block) / blocks_per_group)
    descriptor  i at (block of the superblock + 1) * block_size + i * desc_size   (no meta_bg)
    inode n     group (n-1) / inodes_per_group, slot (n-1) mod inodes_per_group, at
                inode_table(group) * block_size + slot * inode_size

  `readAccepts` is the list of validity checks ext4.Read applies to a decoded superblock before it uses
  these numbers (pinned by regenerated facts, Props/C20.lean facts_agree_read_checks).  Core Lean only.
-/
import DiskfsModel.Model.Ext4.InodeLoc
namespace Diskfs.Ext4.Spec
open Diskfs Diskfs.Ext4.Reader

structure Geo where
  blockSize : Nat
  inodeSize : Nat
  inodesPerGroup : Nat
  blocksPerGroup : Nat
  firstDataBlock : Nat
  inodeCount : Nat
  blockCount : Nat
  gdSize : Nat
  compat : Nat
  incompat : Nat
  roCompat : Nat
  logCluster : Nat
deriving Repr, DecidableEq

def Geo.is64 (g : Geo) : Bool := hasBit g.incompat 0x80
def Geo.metadataCsum (g : Geo) : Bool := hasBit g.roCompat 0x400
def Geo.hugeFile (g : Geo) : Bool := hasBit g.roCompat 0x8
def Geo.bigalloc (g : Geo) : Bool := hasBit g.roCompat 0x200
def Geo.csumSeedFeature (g : Geo) : Bool := hasBit g.incompat 0x2000
def Geo.extents (g : Geo) : Bool := hasBit g.incompat 0x40
def Geo.inlineData (g : Geo) : Bool := hasBit g.incompat 0x8000
def Geo.metaBg (g : Geo) : Bool := hasBit g.incompat 0x10

/-- the geometry fields of a superblock (the 1024 bytes at byte 1024 of the volume); `none` for a wrong
    magic or a block size above 64 KiB -/
def sbGeo (b : Bytes) : Option Geo :=
  if le16 b 0x38 ≠ 0xef53 then none
  else if le32 b 0x18 > 6 then none
  else
    let incompat := le32 b 0x60
    let is64 := hasBit incompat 0x80
    some { blockSize := 1024 * 2 ^ le32 b 0x18
           inodeSize := le16 b 0x58
           inodesPerGroup := le32 b 0x28
           blocksPerGroup := le32 b 0x20
           firstDataBlock := le32 b 0x14
           inodeCount := le32 b 0x0
           blockCount := if is64 then compose32 (le32 b 0x4) (le32 b 0x150) else le32 b 0x4
           gdSize := if is64 then le16 b 0xfe else 32
           compat := le32 b 0x5c
           incompat := incompat
           roCompat := le32 b 0x64
           logCluster := le32 b 0x1c }

/-- number of block groups by the format: the groups cover the blocks from `first_data_block` on -/
def Geo.groups (g : Geo) : Nat :=
  (g.blockCount - g.firstDataBlock + g.blocksPerGroup - 1) / g.blocksPerGroup

/-- number of block groups as superblock.blockGroupCount computes it (first_data_block not subtracted) -/
def Geo.groupsGo (g : Geo) : Nat := (g.blockCount + g.blocksPerGroup - 1) / g.blocksPerGroup

/-- byte offset of the group descriptor table: the block behind the one that holds byte 1024 (the superblock) -/
def Geo.gdtStart (g : Geo) : Nat := (1024 / g.blockSize + 1) * g.blockSize

/-- …as ext4.Read computes it: block 2 for 1 KiB blocks, block 1 otherwise -/
def Geo.gdtStartGo (g : Geo) : Nat := (if g.blockSize = 1024 then 2 else 1) * g.blockSize

def Geo.gdOff (g : Geo) (grp : Nat) : Nat := g.gdtStart + grp * g.gdSize

/-- the validity checks of ext4.Read on the decoded superblock (`size` = size of the volume in bytes,
    0 = unknown), in the order of the source -/
def readAccepts (g : Geo) (size : Nat) : Bool :=
  !(g.blocksPerGroup == 0 || g.inodesPerGroup == 0) &&
  !(g.gdSize < 32 || (g.is64 && g.gdSize < 64)) &&
  !(g.inodeSize < 128 || g.inodeSize > g.blockSize) &&
  !(size > 0 && g.blockCount > size / g.blockSize + 1) &&
  !(size > 0 && g.gdSize * g.groupsGo > size) &&
  !(g.gdSize * g.groupsGo == 0)

/-- group and slot of inode `n` (n ≥ 1) -/
def Geo.inoGroup (g : Geo) (n : Nat) : Nat := (n - 1) / g.inodesPerGroup
def Geo.inoSlot (g : Geo) (n : Nat) : Nat := (n - 1) % g.inodesPerGroup

/-- byte offset of inode `n` given the inode-table block of every group; `none`: not an inode of this
    file system -/
def inodeOff (g : Geo) (tables : List Nat) (n : Nat) : Option Nat :=
  if n = 0 ∨ g.inodesPerGroup = 0 then none
  else match tables[g.inoGroup n]? with
    | none => none
    | some t => some (t * g.blockSize + g.inoSlot n * g.inodeSize)

/-- blocks one group's inode table occupies -/
def Geo.itableBlocks (g : Geo) : Nat := (g.inodesPerGroup * g.inodeSize + g.blockSize - 1) / g.blockSize

end Diskfs.Ext4.Spec
