/-
  Link counts and the used-directories counters of ext4 as Mkdir / create / Symlink / Remove keep them
  (filesystem/ext4/ext4.go: mkDirEntry, initFile, Remove, incrGDUsedDirs):

    mkDirEntry(parent, name, isDir):  the new inode gets i_links_count 2 (directory: its own "." and the entry
        in the parent) or 1; for a directory the parent's i_links_count goes up by one (the new "..") and
        bg_used_dirs_count of the NEW inode's group goes up by one
    Remove(entry):  for a directory (which must be empty) the parent's i_links_count goes down by one (when it is
        positive) and bg_used_dirs_count of the removed inode's group goes down by one; the inode is released

  The state is what e2fsck's passes 2–4 compare: which inodes are in use, which are directories, in which
  directory each one is entered, and the stored counters.  Core Lean only.
-/
namespace Diskfs.Ext4.Links

structure LState where
  live : List Nat            -- inode numbers in use (reachable from the root)
  isDir : Nat → Bool
  parent : Nat → Nat         -- the directory that holds the entry; the root is entered in itself ("..")
  links : Nat → Nat          -- i_links_count
  usedDirs : Nat → Nat       -- bg_used_dirs_count per group
  ipg : Nat                  -- inodes per group

def upd (f : Nat → Nat) (k v : Nat) : Nat → Nat := fun i => if i = k then v else f i
def updB (f : Nat → Bool) (k : Nat) (v : Bool) : Nat → Bool := fun i => if i = k then v else f i

def groupOf (s : LState) (ino : Nat) : Nat := (ino - 1) / s.ipg

/-- sub-directories entered in directory `d` -/
def subdirs (s : LState) (d : Nat) : Nat := s.live.countP fun n => s.isDir n && s.parent n == d && n != d

/-- directories whose inode lies in group `g` -/
def dirsIn (s : LState) (g : Nat) : Nat := s.live.countP fun n => s.isDir n && groupOf s n == g

/-- what e2fsck checks: every entry's directory exists, a directory has 2 + (number of sub-directories) links,
    everything else has one, and each group's counter is the number of its directory inodes -/
structure LinkInv (s : LState) : Prop where
  nodup : s.live.Nodup
  parentLive : ∀ n ∈ s.live, s.parent n ∈ s.live ∧ s.isDir (s.parent n) = true
  dirLinks : ∀ d ∈ s.live, s.isDir d = true → s.links d = 2 + subdirs s d
  fileLinks : ∀ n ∈ s.live, s.isDir n = false → s.links n = 1
  used : ∀ g, s.usedDirs g = dirsIn s g

/-- mkDirEntry + initFile for a new inode `k` entered in directory `p` -/
def mkEntry (s : LState) (p k : Nat) (dir : Bool) : LState :=
  { s with
    live := k :: s.live
    isDir := updB s.isDir k dir
    parent := upd s.parent k p
    links := if dir then upd (upd s.links p (s.links p + 1)) k 2 else upd s.links k 1
    usedDirs := if dir then upd s.usedDirs (groupOf s k) (s.usedDirs (groupOf s k) + 1) else s.usedDirs }

/-- Remove of inode `k` (a file, a symlink or an empty directory) -/
def rmEntry (s : LState) (k : Nat) : LState :=
  let p := s.parent k
  { s with
    live := s.live.filter (· != k)
    links := if s.isDir k && decide (s.links p > 0) then upd s.links p (s.links p - 1) else s.links
    usedDirs := if s.isDir k then upd s.usedDirs (groupOf s k) (s.usedDirs (groupOf s k) - 1) else s.usedDirs }

/-- what the callers establish before the bookkeeping runs -/
def mkGuard (s : LState) (p k : Nat) : Prop := p ∈ s.live ∧ s.isDir p = true ∧ k ∉ s.live
/-- `k` is in use, is not the root, and nothing is entered in it -/
def rmGuard (s : LState) (k : Nat) : Prop := k ∈ s.live ∧ s.parent k ≠ k ∧ ∀ n ∈ s.live, n ≠ k → s.parent n ≠ k

instance (s : LState) (p k : Nat) : Decidable (mkGuard s p k) := by unfold mkGuard; infer_instance
instance (s : LState) (k : Nat) : Decidable (rmGuard s k) := by unfold rmGuard; infer_instance

inductive LOp where
  | mk (p k : Nat) (dir : Bool)     -- Mkdir / create / Symlink of one new inode `k` in directory `p`
  | rm (k : Nat)                    -- Remove
deriving Repr, DecidableEq

/-- one call: carried out when its guard holds (the callers refuse otherwise and change nothing) -/
def lstep (s : LState) : LOp → LState
  | .mk p k dir => if mkGuard s p k then mkEntry s p k dir else s
  | .rm k => if rmGuard s k then rmEntry s k else s

end Diskfs.Ext4.Links
