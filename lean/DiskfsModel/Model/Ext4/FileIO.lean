/-
  Mirror of the flat-extent mapping loops of filesystem/ext4/file.go
  (File.Read / File.Write) and of `extents.blockCount` (extent.go).

  A handle maps file bytes through a flat list of extents
  (fileBlock, startingBlock, count).  The mirror keeps the code's shape:
  the start block is computed ONCE from the offset at entry, every extent
  goes through the skip test, the position inside the extent is
  `offset - fileBlock*blocksize`, and the amount moved is the minimum of what
  is left to do and what is left in the extent.  Go computes these in int64
  and hands `make([]byte, n)` a negative `n` when the extent ends at or
  before the current offset: that is the panic of finding
  `ext4-extent-skip-lt`.

  `lt = true` is the code as found (skip test `fileBlock+count < startBlock`),
  `lt = false` the repaired test (`≤`).

  File.Read zero-fills a hole in front of an extent and whatever lies behind
  the last extent below the file size (fix ea015d2); the mirror does the same.
  File.Write has no such branch: in front of a hole Go adds a negative int64
  to the disk offset; the mirror computes the same offset in `Int`.  The
  library never produces a list with holes (allocateExtents numbers file
  blocks contiguously).

  `cum = false` is the write loop as found: it leaves the extent list only
  when ONE WriteAt took the whole buffer (`written >= len(b)`), so a write
  that spans extents goes on with empty writes over every remaining extent,
  at device offsets that can be negative (finding
  `ext4-write-trailing-empty-writes`); `cum = true` is the repaired test
  (`writtenBytes >= bytesToWrite`).
-/
import DiskfsModel.Core.Bytes
namespace Diskfs.Ext4

structure Extent where
  fileBlock : Nat
  start : Nat
  count : Nat
deriving Repr, DecidableEq

/-- `extents.blockCount` -/
def blockCount (es : List Extent) : Nat := (es.map (·.count)).sum

/-- the skip test in front of both loops -/
def skips (lt : Bool) (e : Extent) (startBlock : Nat) : Bool :=
  if lt then e.fileBlock + e.count < startBlock else e.fileBlock + e.count ≤ startBlock

inductive IO (α : Type) where
  | ok (a : α)
  | panic          -- makeslice: len out of range
  | weird          -- outside the mirror (hole before an extent)
  | needAlloc      -- Write needs more blocks (allocator is outside this core)
  | err            -- negative device offset handed to WriteAt
deriving Repr, DecidableEq

structure RdOut where
  data : Bytes
  ios : List (Nat × Nat)     -- (device byte offset, length) of every ReadAt, in order
  off : Nat                  -- handle offset afterwards
deriving Repr, DecidableEq

/-- the `for _, e := range fl.extents` loop of File.Read, followed by the zero fill behind the last extent.
    `want` = bytesToRead, `got` = bytes read so far (`readBytes = got.length`). -/
def readLoop (lt : Bool) (dev : Dev) (bs startBlock want : Nat) :
    List Extent → (off : Nat) → (got : Bytes) → (ios : List (Nat × Nat)) → IO RdOut
  | [], off, got, ios =>
    -- whatever lies beyond the last extent and below the file size is a hole as well
    .ok ⟨got ++ zeros (want - got.length), ios, off + (want - got.length)⟩
  | e :: es, off, got, ios =>
    if skips lt e startBlock then readLoop lt dev bs startBlock want es off got ios
    else
      let extentSize := e.count * bs
      let holeEnd := e.fileBlock * bs
      -- a hole in front of this extent reads as zeros
      let z := if off < holeEnd then min (holeEnd - off) (want - got.length) else 0
      if off < holeEnd ∧ got.length + z ≥ want then .ok ⟨got ++ zeros z, ios, off + z⟩
      else
        let got := got ++ zeros z
        let off := off + z
        let startPos := off - holeEnd
        -- leftInExtent = extentSize - startPos is negative: toReadInOffset < 0, make panics
        if startPos > extentSize then .panic
        else
          let left := extentSize - startPos
          let toRead := min (want - got.length) left
          let disk := e.start * bs + startPos
          let got' := got ++ readAt dev disk toRead
          let ios' := ios ++ [(disk, toRead)]
          if got'.length ≥ want then .ok ⟨got', ios', off + toRead⟩
          else readLoop lt dev bs startBlock want es (off + toRead) got' ios'

structure ReadRes where
  data : Bytes
  ios : List (Nat × Nat)
  off : Nat
  eof : Bool
deriving Repr, DecidableEq

/-- File.Read(b) with `n = len(b)` on a device that answers every ReadAt in full. -/
def readE (lt : Bool) (dev : Dev) (bs : Nat) (es : List Extent) (size off n : Nat) : IO ReadRes :=
  if off ≥ size then .ok ⟨[], [], off, true⟩
  else
    let want := if off + n > size then size - off else n
    match readLoop lt dev bs (off / bs) want es off [] [] with
    | .ok r => .ok ⟨r.data, r.ios, r.off, r.off ≥ size⟩
    | .panic => .panic
    | .weird => .weird
    | .needAlloc => .needAlloc
    | .err => .err

structure WrOut where
  ws : List (Int × Bytes)     -- (device byte offset, data) of every WriteAt that was carried out, in order
  written : Nat
  off : Nat
deriving Repr, DecidableEq

/-- outcome of the write loop -/
inductive WIO where
  | ok (r : WrOut)
  | panic                 -- makeslice: len out of range
  | err (r : WrOut)       -- WriteAt refused a negative device offset; `r` = what had been done before it
deriving Repr, DecidableEq

/-- the write loop of File.Write.  As found (`cum = false`) it stops only when ONE WriteAt took the whole
    buffer (`written >= len(b)`); otherwise it walks the remaining extents issuing zero-length writes at
    `startingBlock*bs + (offset - fileBlock*bs)` (an int64, possibly negative).  Repaired (`cum = true`) it
    stops as soon as the sum of the bytes written reaches `len(b)`. -/
def writeLoop (lt cum : Bool) (bs startBlock : Nat) (b : Bytes) :
    List Extent → (off : Nat) → (written : Nat) → (ws : List (Int × Bytes)) → WIO
  | [], off, written, ws => .ok ⟨ws, written, off⟩
  | e :: es, off, written, ws =>
    if skips lt e startBlock then writeLoop lt cum bs startBlock b es off written ws
    else
      let extentSize : Int := e.count * bs
      let startPos : Int := (off : Int) - e.fileBlock * bs
      let left : Int := extentSize - startPos
      let rem : Int := (b.length : Int) - written
      let toWrite : Int := if rem > left then left else rem
      if toWrite < 0 then .panic
      else
        let disk : Int := e.start * bs + startPos
        if disk < 0 then .err ⟨ws, written, off⟩
        else
          let k := toWrite.toNat
          let piece := (b.drop written).take k
          let ws' := ws ++ [(disk, piece)]
          if (if cum then written + k ≥ b.length else k ≥ b.length) then .ok ⟨ws', written + k, off + k⟩
          else writeLoop lt cum bs startBlock b es (off + k) (written + k) ws'

structure WriteRes where
  ws : List (Int × Bytes)
  written : Nat
  off : Nat
  size : Nat
deriving Repr, DecidableEq

/-- outcome of File.Write -/
inductive WRes where
  | ok (r : WriteRes)
  | panic
  | needAlloc             -- Write needs more blocks (the allocator is outside this core)
  | err (r : WriteRes)    -- Write returns (written, error): WriteAt refused a negative offset
deriving Repr, DecidableEq

/-- File.Write(b) when no new block is needed (the size bookkeeping in front of the loop included). -/
def writeE (lt cum : Bool) (bs : Nat) (es : List Extent) (size off : Nat) (b : Bytes) : WRes :=
  let size1 := if off ≥ size then off else size
  let size2 := if off + b.length > size1 then off + b.length else size1
  let newBlockCount := size2 / bs + (if size2 % bs > 0 then 1 else 0)
  if newBlockCount > blockCount es then .needAlloc
  else
    match writeLoop lt cum bs (off / bs) b es off 0 [] with
    | .ok r => .ok ⟨r.ws, r.written, r.off, size2⟩
    | .panic => .panic
    | .err r => .err ⟨r.ws, r.written, r.off, size2⟩

/-- the zero fill goes in appends of at most 1 MiB -/
def zeroChunk : Nat := 1048576

/-- the zero fill in front of a write that starts beyond the end of the file (repaired File.Write): the gap
    between the old end of file and the write offset is appended as zeros, at most `zeroChunk` bytes per call of
    Write, so that blocks that held other bytes before read as the hole they are meant to be.  `fuel` bounds the
    number of appends (each one advances the size by at least one byte). -/
def zeroFill (lt cum : Bool) (bs : Nat) (es : List Extent) (target : Nat) :
    (fuel : Nat) → (size : Nat) → (ws : List (Int × Bytes)) → WRes
  | 0, size, ws => .ok ⟨ws, 0, size, size⟩
  | fuel + 1, size, ws =>
    if size ≥ target then .ok ⟨ws, 0, size, size⟩
    else
      match writeE lt cum bs es size size (zeros (min (target - size) zeroChunk)) with
      | .ok r =>
        if r.written = 0 then .err ⟨ws ++ r.ws, 0, r.off, r.size⟩
        else zeroFill lt cum bs es target fuel r.size (ws ++ r.ws)
      | .panic => .panic
      | .needAlloc => .needAlloc
      | .err r => .err ⟨ws ++ r.ws, 0, r.off, r.size⟩

/-- File.Write(b).  `zf = false`: as found, nothing is written between the old end of file and `off` (finding
    ext4-hole-stale-bytes); `zf = true`: repaired, the gap is zero-filled first. -/
def writeZ (zf lt cum : Bool) (bs : Nat) (es : List Extent) (size off : Nat) (b : Bytes) : WRes :=
  if zf && decide (off > size) then
    match zeroFill lt cum bs es off (off - size) size [] with
    | .ok r0 =>
      match writeE lt cum bs es r0.size off b with
      | .ok r => .ok ⟨r0.ws ++ r.ws, r.written, r.off, r.size⟩
      | .panic => .panic
      | .needAlloc => .needAlloc
      | .err r => .err ⟨r0.ws ++ r.ws, r.written, r.off, r.size⟩
    | .panic => .panic
    | .needAlloc => .needAlloc
    | .err r => .err r
  else writeE lt cum bs es size off b

/-- the write list as device writes (offsets are non-negative for every WriteAt that was carried out) -/
def toWrs (ws : List (Int × Bytes)) : List Wr := ws.map fun p => ⟨p.1.toNat, p.2⟩

/-- the trigger predicate of finding ext4-extent-skip-lt: the transfer starts inside a block (not at its
    first byte) and some extent ends exactly at that block. -/
def skipTrigger (es : List Extent) (bs off : Nat) : Bool :=
  off % bs != 0 && es.any fun e => e.fileBlock + e.count == off / bs

/-! ### the byte string a flat extent list denotes -/

/-- file contents as mapped by the extent list (whole blocks) -/
def fileBytes (dev : Dev) (bs : Nat) : List Extent → Bytes
  | [] => []
  | e :: es => readAt dev (e.start * bs) (e.count * bs) ++ fileBytes dev bs es

/-- the list the library itself builds: file blocks numbered contiguously from `first`, no empty extent -/
def Contig : Nat → List Extent → Prop
  | _, [] => True
  | first, e :: es => e.fileBlock = first ∧ 0 < e.count ∧ Contig (first + e.count) es

/-- `ExtentsCover es size`: contiguous from block 0 and at least `size` bytes long -/
def ExtentsCover (bs : Nat) (es : List Extent) (size : Nat) : Prop :=
  Contig 0 es ∧ size ≤ blockCount es * bs

/-! ### sparse files: extent lists with holes (what File.Read accepts; images made by other tools have them) -/

/-- file blocks in increasing order from `first` on, holes allowed, no empty extent -/
def Sorted : Nat → List Extent → Prop
  | _, [] => True
  | first, e :: es => first ≤ e.fileBlock ∧ 0 < e.count ∧ Sorted (e.fileBlock + e.count) es

/-- the bytes the list denotes from file block `first` on: zeros for a hole, the extent's blocks otherwise -/
def fileBytesS (dev : Dev) (bs : Nat) : Nat → List Extent → Bytes
  | _, [] => []
  | first, e :: es =>
    zeros ((e.fileBlock - first) * bs) ++ readAt dev (e.start * bs) (e.count * bs) ++
      fileBytesS dev bs (e.fileBlock + e.count) es

/-- the window `[a, a+m)` of `F`, zero where `F` has no byte (behind the last extent) -/
def win (F : Bytes) (a m : Nat) : Bytes := (List.range m).map fun j => F.getD (a + j) 0

/-- `d` written over `F` at position `p` (the reference meaning of a write at an offset) -/
def splice (F : Bytes) (p : Nat) (d : Bytes) : Bytes := F.take p ++ d ++ F.drop (p + d.length)

/-- no two extents share a device block (what the allocator guarantees: alloc_disjoint) -/
def DiskDisjoint (es : List Extent) : Prop :=
  es.Pairwise fun a b => a.start + a.count ≤ b.start ∨ b.start + b.count ≤ a.start

/-- the trigger predicate of finding ext4-write-trailing-empty-writes: the write crosses the end of an extent
    and an extent that starts at or behind the end of the written range would be addressed below device offset 0 -/
def trailTrigger (es : List Extent) (bs off n : Nat) : Bool :=
  es.any (fun e => decide (off / bs < e.fileBlock + e.count ∧ (e.fileBlock + e.count) * bs < off + n)) &&
  es.any (fun e => decide (off + n ≤ e.fileBlock * bs ∧ e.start * bs + (off + n) < e.fileBlock * bs))

/-! ### File.Read with the guard `if leftInExtent < 0 { continue }` (fix ext4-read-extent-out-of-order)

  `skip = false` is `readLoop` / `readE` above; `skip = true` passes over an extent that lies wholly before the
  offset the loop has reached instead of handing `make` a negative length.  The driver runs `readES` with the
  switch the engine passes (`skipneg=1`); on lists that `readE` reads without a panic — every sorted list — the
  two agree (Proofs/Ext4ReadSkipNeg.lean readES_eq). -/

def readLoopS (skip lt : Bool) (dev : Dev) (bs startBlock want : Nat) :
    List Extent → (off : Nat) → (got : Bytes) → (ios : List (Nat × Nat)) → IO RdOut
  | [], off, got, ios =>
    .ok ⟨got ++ zeros (want - got.length), ios, off + (want - got.length)⟩
  | e :: es, off, got, ios =>
    if skips lt e startBlock then readLoopS skip lt dev bs startBlock want es off got ios
    else
      let extentSize := e.count * bs
      let holeEnd := e.fileBlock * bs
      let z := if off < holeEnd then min (holeEnd - off) (want - got.length) else 0
      if off < holeEnd ∧ got.length + z ≥ want then .ok ⟨got ++ zeros z, ios, off + z⟩
      else
        let got := got ++ zeros z
        let off := off + z
        let startPos := off - holeEnd
        if startPos > extentSize then
          (if skip then readLoopS skip lt dev bs startBlock want es off got ios else .panic)
        else
          let left := extentSize - startPos
          let toRead := min (want - got.length) left
          let disk := e.start * bs + startPos
          let got' := got ++ readAt dev disk toRead
          let ios' := ios ++ [(disk, toRead)]
          if got'.length ≥ want then .ok ⟨got', ios', off + toRead⟩
          else readLoopS skip lt dev bs startBlock want es (off + toRead) got' ios'

def readES (skip lt : Bool) (dev : Dev) (bs : Nat) (es : List Extent) (size off n : Nat) : IO ReadRes :=
  if off ≥ size then .ok ⟨[], [], off, true⟩
  else
    let want := if off + n > size then size - off else n
    match readLoopS skip lt dev bs (off / bs) want es off [] [] with
    | .ok r => .ok ⟨r.data, r.ios, r.off, r.off ≥ size⟩
    | .panic => .panic
    | .weird => .weird
    | .needAlloc => .needAlloc
    | .err => .err

end Diskfs.Ext4
