/-
  Mirror of the flat-extent mapping loops of filesystem/ext4/file.go
  (File.Read / File.Write) and of `extents.blockCount` (extent.go).

  A handle maps file bytes through a flat list of extents
  (fileBlock, startingBlock, count).  The mirror keeps the code's shape:
  the start block is computed ONCE from the offset at entry, every extent
  goes through the skip test, the position inside the extent is
  `offset - fileBlock*blocksize`, and the amount moved is the minimum of what
  is left to do and what is left in the extent.  Go computes these in int64
  and hands `make([]byte, n)` a negative `n` when the extent ends at or
  before the current offset: that is the panic of finding
  `ext4-extent-skip-lt`.

  `lt = true` is the code as found (skip test `fileBlock+count < startBlock`),
  `lt = false` the repaired test (`≤`).

  Not mirrored: a hole *before* an extent (offset < fileBlock*blocksize at a
  non-skipped extent; Go then adds a negative int64 to the disk offset).  The
  library never produces such a list (allocateExtents numbers file blocks
  contiguously); the mirror answers `weird` there.
-/
import DiskfsModel.Core.Bytes
namespace Diskfs.Ext4

structure Extent where
  fileBlock : Nat
  start : Nat
  count : Nat
deriving Repr, DecidableEq

/-- `extents.blockCount` -/
def blockCount (es : List Extent) : Nat := (es.map (·.count)).sum

/-- the skip test in front of both loops -/
def skips (lt : Bool) (e : Extent) (startBlock : Nat) : Bool :=
  if lt then e.fileBlock + e.count < startBlock else e.fileBlock + e.count ≤ startBlock

inductive IO (α : Type) where
  | ok (a : α)
  | panic          -- makeslice: len out of range
  | weird          -- outside the mirror (hole before an extent)
  | needAlloc      -- Write needs more blocks (allocator is outside this core)
  | err            -- negative device offset handed to WriteAt
deriving Repr, DecidableEq

structure RdOut where
  data : Bytes
  ios : List (Nat × Nat)     -- (device byte offset, length) of every ReadAt, in order
  off : Nat                  -- handle offset afterwards
deriving Repr, DecidableEq

/-- the `for _, e := range fl.extents` loop of File.Read.
    `want` = bytesToRead, `got` = bytes read so far (`readBytes = got.length`). -/
def readLoop (lt : Bool) (dev : Dev) (bs startBlock want : Nat) :
    List Extent → (off : Nat) → (got : Bytes) → (ios : List (Nat × Nat)) → IO RdOut
  | [], off, got, ios => .ok ⟨got, ios, off⟩
  | e :: es, off, got, ios =>
    if skips lt e startBlock then readLoop lt dev bs startBlock want es off got ios
    else if off < e.fileBlock * bs then .weird
    else
      let extentSize := e.count * bs
      let startPos := off - e.fileBlock * bs
      -- leftInExtent = extentSize - startPos is negative: toReadInOffset < 0, make panics
      if startPos > extentSize then .panic
      else
        let left := extentSize - startPos
        let toRead := min (want - got.length) left
        let disk := e.start * bs + startPos
        let got' := got ++ readAt dev disk toRead
        let ios' := ios ++ [(disk, toRead)]
        if got'.length ≥ want then .ok ⟨got', ios', off + toRead⟩
        else readLoop lt dev bs startBlock want es (off + toRead) got' ios'

structure ReadRes where
  data : Bytes
  ios : List (Nat × Nat)
  off : Nat
  eof : Bool
deriving Repr, DecidableEq

/-- File.Read(b) with `n = len(b)` on a device that answers every ReadAt in full. -/
def readE (lt : Bool) (dev : Dev) (bs : Nat) (es : List Extent) (size off n : Nat) : IO ReadRes :=
  if off ≥ size then .ok ⟨[], [], off, true⟩
  else
    let want := if off + n > size then size - off else n
    match readLoop lt dev bs (off / bs) want es off [] [] with
    | .ok r => .ok ⟨r.data, r.ios, r.off, r.off ≥ size⟩
    | .panic => .panic
    | .weird => .weird
    | .needAlloc => .needAlloc
    | .err => .err

structure WrOut where
  ws : List (Int × Bytes)     -- (device byte offset, data) of every WriteAt, in order
  written : Nat
  off : Nat
deriving Repr, DecidableEq

/-- the write loop of File.Write: like the read loop, but it stops only when ONE WriteAt took the
    whole buffer (`written >= len(b)`); otherwise it walks the remaining extents issuing zero-length
    writes at `startingBlock*bs + (offset - fileBlock*bs)` (an int64, possibly negative). -/
def writeLoop (lt : Bool) (bs startBlock : Nat) (b : Bytes) :
    List Extent → (off : Nat) → (written : Nat) → (ws : List (Int × Bytes)) → IO WrOut
  | [], off, written, ws => .ok ⟨ws, written, off⟩
  | e :: es, off, written, ws =>
    if skips lt e startBlock then writeLoop lt bs startBlock b es off written ws
    else
      let extentSize : Int := e.count * bs
      let startPos : Int := (off : Int) - e.fileBlock * bs
      let left : Int := extentSize - startPos
      let rem : Int := (b.length : Int) - written
      let toWrite : Int := if rem > left then left else rem
      if toWrite < 0 then .panic
      else
        let disk : Int := e.start * bs + startPos
        if disk < 0 then .err
        else
          let k := toWrite.toNat
          let piece := (b.drop written).take k
          let ws' := ws ++ [(disk, piece)]
          if k ≥ b.length then .ok ⟨ws', written + k, off + k⟩
          else writeLoop lt bs startBlock b es (off + k) (written + k) ws'

structure WriteRes where
  ws : List (Int × Bytes)
  written : Nat
  off : Nat
  size : Nat
deriving Repr, DecidableEq

/-- File.Write(b) when no new block is needed (the size bookkeeping in front of the loop included). -/
def writeE (lt : Bool) (bs : Nat) (es : List Extent) (size off : Nat) (b : Bytes) : IO WriteRes :=
  let size1 := if off ≥ size then off else size
  let size2 := if off + b.length > size1 then off + b.length else size1
  let newBlockCount := size2 / bs + (if size2 % bs > 0 then 1 else 0)
  if newBlockCount > blockCount es then .needAlloc
  else
    match writeLoop lt bs (off / bs) b es off 0 [] with
    | .ok r => .ok ⟨r.ws, r.written, r.off, size2⟩
    | .panic => .panic
    | .weird => .weird
    | .needAlloc => .needAlloc
    | .err => .err

/-- the trigger predicate of finding ext4-extent-skip-lt: the transfer starts inside a block (not at its
    first byte) and some extent ends exactly at that block. -/
def skipTrigger (es : List Extent) (bs off : Nat) : Bool :=
  off % bs != 0 && es.any fun e => e.fileBlock + e.count == off / bs

/-! ### the byte string a flat extent list denotes -/

/-- file contents as mapped by the extent list (whole blocks) -/
def fileBytes (dev : Dev) (bs : Nat) : List Extent → Bytes
  | [] => []
  | e :: es => readAt dev (e.start * bs) (e.count * bs) ++ fileBytes dev bs es

/-- the list the library itself builds: file blocks numbered contiguously from `first`, no empty extent -/
def Contig : Nat → List Extent → Prop
  | _, [] => True
  | first, e :: es => e.fileBlock = first ∧ 0 < e.count ∧ Contig (first + e.count) es

/-- `ExtentsCover es size`: contiguous from block 0 and at least `size` bytes long -/
def ExtentsCover (bs : Nat) (es : List Extent) (size : Nat) : Prop :=
  Contig 0 es ∧ size ≤ blockCount es * bs

end Diskfs.Ext4
