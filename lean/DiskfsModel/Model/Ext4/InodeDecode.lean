/-
  Property C20, inode decoding: MIRROR of inode.go inodeFromBytes as it is now, over the bytes of one inode
  record, and the SPEC decoder of ImageSpec.readInode restated over the same bytes (`specInode`), so that the
  two can be compared field by field (Proofs/Ext4InodeDecode.lean, Props/C20.lean mirror_inode_*).

  inodeFromBytes: refuses a record shorter than 128 bytes or than the inode size, cuts it to the inode size,
  clears the checksum fields 0x7c/0x7d (and 0x82/0x83 when the record has 0x84 bytes), pads the record with
  zeros to 256 bytes and then reads EVERY field at its fixed offset — the words of the extra area (0x84..0xa0)
  whatever i_extra_isize says (`guarded = false`, as found).  `guarded = true` is the repaired reader: a word of
  the extra area is read only where i_extra_isize reaches its end (EXT4_FITS_IN_INODE), else it is 0.  The
  switch is regenerated from the source on every run (Generated/Ext4Ref.lean inodeExtraWordsUnguarded).

  Symbolic links: the Go reader takes the target from i_block when size < 60 (`goFast`); the kernel (and the
  SPEC reader) when the inode owns no data blocks, i_blocks minus the blocks of the xattr block (`specFast`).

  Checksum: crc32c(seed, le32 number, le32 generation, record with the checksum fields cleared), compared in
  full when the record reaches 0x84 bytes and in its low 16 bits otherwise.  Core Lean only.
-/
import DiskfsModel.Model.Ext4.ImageSpec
namespace Diskfs.Ext4.InodeDec
open Diskfs Diskfs.Ext4.Reader Diskfs.Ext4.InodeCodec Diskfs.Ext4.Spec

/-- every number inodeFromBytes takes from the record -/
structure GoInode where
  mode : Nat
  uid : Nat
  gid : Nat
  size : Nat
  links : Nat
  flags : Nat
  /-- i_blocks as stored (both halves with huge_file) and whether it counts file system blocks -/
  blocks : Nat
  fsBlocks : Bool
  gen : Nat
  fileAcl : Nat
  version : Nat
  /-- i_extra_isize (the field `inodeSize` of the Go struct is this + 128) -/
  extra : Nat
  dtime : Nat
  project : Nat
  atime : Ts
  ctime : Ts
  mtime : Ts
  crtime : Ts
  iblock : Bytes
deriving Repr, DecidableEq

/-- the record padded to 256 bytes, as inodeFromBytes reads it -/
def pad256 (raw : Bytes) : Bytes := if raw.length < 256 then raw ++ zeros (256 - raw.length) else raw

/-- EXT4_FITS_IN_INODE: the field of the extra area that ends at `fieldEnd` exists -/
def fitsIn (isz extra fieldEnd : Nat) : Bool := decide (isz > 128) && decide (128 + extra ≥ fieldEnd) && decide (fieldEnd ≤ isz)

/-- a 32-bit word of the extra area as the Go reader takes it -/
def goExtraWord (guarded : Bool) (isz : Nat) (b : Bytes) (o : Nat) : Nat :=
  if guarded && !fitsIn isz (le16 b 0x80) (o + 4) then 0 else le32 b o

/-- inodeFromBytes, the numbers (`raw` = the record cut to the inode size `isz`) -/
def goDecode (guarded hugeFile : Bool) (isz : Nat) (raw : Bytes) : GoInode :=
  let b := pad256 raw
  let flags := le32 b 0x20
  let x := goExtraWord guarded isz b
  { mode := le16 b 0x0
    uid := le16 b 0x2 + le16 b 0x78 * 65536
    gid := le16 b 0x18 + le16 b 0x7a * 65536
    size := le32 b 0x4 + le32 b 0x6c * 4294967296
    links := le16 b 0x1a
    flags := flags
    blocks := le32 b 0x1c + (if hugeFile then le16 b 0x74 * 4294967296 else 0)
    fsBlocks := hugeFile && hasBit flags 0x40000
    gen := le32 b 0x64
    fileAcl := le32 b 0x68 + le16 b 0x76 * 4294967296
    version := le32 b 0x24 + le32 b 0x98 * 4294967296
    extra := le16 b 0x80
    dtime := le32 b 0x14
    project := le32 b 0x9c
    atime := tsDec (le32 b 0x8) (x 0x8c)
    ctime := tsDec (le32 b 0xc) (x 0x84)
    mtime := tsDec (le32 b 0x10) (x 0x88)
    crtime := tsDec (x 0x90) (x 0x94)
    iblock := slice b 0x28 0x64 }

/-- the length test at the head of inodeFromBytes (`len` = bytes handed in) -/
def goAcceptsLen (len isz : Nat) : Bool := decide (128 ≤ len) && decide (128 ≤ isz) && decide (isz ≤ len)

/-- i_blocks in 512-byte units, as the format defines it from the two numbers the Go reader keeps -/
def GoInode.blocks512 (g : GoInode) (bs : Nat) : Nat := if g.fsBlocks then g.blocks * (bs / 512) else g.blocks

/-! ### symbolic links -/

/-- inodeFromBytes: a symbolic link shorter than 60 bytes has its target in i_block -/
def goFast (mode size : Nat) : Bool := mode / 4096 == 10 && decide (size < 60)

/-- the kernel's rule (ext4_inode_is_fast_symlink without EA inodes): the link owns no data blocks; `ea512` =
    512-byte units of the xattr block -/
def specFast (mode blocks512 ea512 : Nat) : Bool := mode / 4096 == 10 && blocks512 - ea512 == 0

/-- the inline target: the first `size` bytes of i_block -/
def inlineTarget (iblock : Bytes) (size : Nat) : Bytes := iblock.take size

/-! ### checksum -/

/-- the record with its checksum fields cleared: 0x7c, 0x7d always, 0x82, 0x83 when `hi` -/
def clearCsum (hi : Bool) (raw : Bytes) : Bytes :=
  raw.mapIdx fun k x => if k == 0x7c || k == 0x7d || (hi && (k == 0x82 || k == 0x83)) then 0 else x

/-- inodeChecksum over the cleared record -/
def inodeCrc (seed : UInt32) (n gen : Nat) (cleared : Bytes) : UInt32 :=
  crc32c (crc32c (crc32c seed (le32Bytes n)) (le32Bytes gen)) cleared

/-- the verification decision of inodeFromBytes: `hasChecksumHi` is decided by the LENGTH of the record -/
def goCsumOk (seed : UInt32) (n : Nat) (raw : Bytes) : Bool :=
  let hi := decide (raw.length ≥ 0x84)
  let stored := le16 raw 0x7c + (if hi then le16 raw 0x82 * 65536 else 0)
  let c := (inodeCrc seed n (le32 (pad256 raw) 0x64) (clearCsum hi raw)).toNat
  (if hi then c else c % 65536) == stored

/-- the decision of the format (ext4_inode_csum_verify): the high half takes part when i_extra_isize reaches it -/
def specCsumOk (seed : UInt32) (n isz : Nat) (raw : Bytes) : Bool :=
  let hi := fitsIn isz (if isz > 128 then le16 raw 0x80 else 0) 0x84
  let stored := le16 raw 0x7c + (if hi then le16 raw 0x82 * 65536 else 0)
  let c := (inodeCrc seed n (le32 raw 0x64) (clearCsum hi raw)).toNat
  (if hi then c else c % 65536) == stored

/-! ### the SPEC decoder of ImageSpec.readInode over the bytes of the record -/

def specInode (g : Geo) (seed : UInt32) (n o : Nat) (raw : Bytes) : Inode :=
  let isz := g.inodeSize
  let extra := if isz > 128 then le16 raw 0x80 else 0
  let x (fieldOff : Nat) : Nat := if fitsIn isz extra (fieldOff + 4) then le32 raw fieldOff else 0
  let flags := le32 raw 0x20
  let blocksRaw := le32 raw 0x1c + (if g.hugeFile then le16 raw 0x74 * 4294967296 else 0)
  { num := n, off := o
    mode := le16 raw 0
    uid := le16 raw 0x2 + le16 raw 0x78 * 65536
    gid := le16 raw 0x18 + le16 raw 0x7a * 65536
    size := le32 raw 0x4 + le32 raw 0x6c * 4294967296
    links := le16 raw 0x1a
    flags := flags
    blocks512 := if g.hugeFile && hasBit flags 0x40000 then blocksRaw * (g.blockSize / 512) else blocksRaw
    gen := le32 raw 0x64
    fileAcl := le32 raw 0x68 + le16 raw 0x76 * 4294967296
    extra := extra
    atime := tsDec (le32 raw 0x8) (x 0x8c)
    ctime := tsDec (le32 raw 0xc) (x 0x84)
    mtime := tsDec (le32 raw 0x10) (x 0x88)
    crtime := if fitsIn isz extra 0x94 then tsDec (le32 raw 0x90) (x 0x94) else ⟨0, 0⟩
    iblock := slice raw 0x28 0x64
    csumOk := if g.metadataCsum then specCsumOk seed n isz raw else true }

end Diskfs.Ext4.InodeDec
