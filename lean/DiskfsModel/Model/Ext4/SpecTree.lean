/-
  SPEC reader of ext4, part 2 (property C20): mapping a logical block of a file by SEARCHING its extent
  tree from the root (what the kernel's ext4_find_extent does: in an index node take the last entry
  whose first logical block is ≤ the wanted one, read that child, repeat; in a leaf find the extent that
  covers the block).  The Go reader instead flattens the whole tree into one list and scans it
  (Model/Ext4/Reader.lean `flatten`); Proofs/Ext4Spec.lean proves the two agree.

  A node is decoded by `seqNode` (SpecNode.lean: header, 12-byte entries, 48-bit block numbers, one pass),
  proved equal to the mirror's `parseNode`.  Core Lean only.
-/
import DiskfsModel.Model.Ext4.SpecNode
namespace Diskfs.Ext4.Spec
open Diskfs Diskfs.Ext4.Reader

/-- the child an index node designates for logical block `lb`: the entry whose key interval
    [key, next key) contains it; the last entry's interval is open ended -/
def pickChild {α : Type} : List (Nat × α) → Nat → Option α
  | [], _ => none
  | [(k, t)], lb => if k ≤ lb then some t else none
  | (k, t) :: (k', t') :: rest, lb =>
    if k ≤ lb ∧ lb < k' then some t else pickChild ((k', t') :: rest) lb

/-- search from the node bytes `b`, at most `fuel` index levels deep; `look` interprets the leaf
    (`look []` is the answer where the tree maps nothing) -/
def treeSearchG {α : Type} (look : List Extent → Nat → α) (rd : Nat → Option Bytes) :
    Nat → Bytes → Nat → Res α
  | 0, b, lb =>
    match seqNode b with
    | .ok (.leaf es) => .ok (look es lb)
    | .ok (.index _) => .diverge
    | .err => .err
    | .panic => .panic
    | .diverge => .diverge
  | d + 1, b, lb =>
    match seqNode b with
    | .ok (.leaf es) => .ok (look es lb)
    | .ok (.index cs) =>
      match pickChild cs lb with
      | none => .ok (look [] lb)
      | some blk =>
        match rd blk with
        | none => .err
        | some cb => treeSearchG look rd d cb lb
    | .err => .err
    | .panic => .panic
    | .diverge => .diverge

/-- the physical block of logical block `lb`, none = hole (extent lengths taken as plain counts) -/
def treeSearch (rd : Nat → Option Bytes) (fuel : Nat) (b : Bytes) (lb : Nat) : Res (Option Nat) :=
  treeSearchG leafLookup rd fuel b lb

/-- what a logical block is: not mapped, mapped to a device block, or inside an unwritten
    (preallocated) extent, which reads as zeros -/
inductive BlockRef where
  | hole
  | data (phys : Nat)
  | unwritten
deriving Repr, DecidableEq

/-- length of an extent in blocks: a length field above 32768 marks an unwritten extent of
    `field - 32768` blocks -/
def extLen (e : Extent) : Nat := if e.count > 32768 then e.count - 32768 else e.count

def blockRef (es : List Extent) (lb : Nat) : BlockRef :=
  match es.find? (fun e => decide (e.fileBlock ≤ lb ∧ lb < e.fileBlock + extLen e)) with
  | some e => if e.count > 32768 then .unwritten else .data (e.start + (lb - e.fileBlock))
  | none => .hole

/-- the search the SPEC reader runs: unwritten extents are told apart -/
def treeSearchRef (rd : Nat → Option Bytes) (fuel : Nat) (b : Bytes) (lb : Nat) : Res BlockRef :=
  treeSearchG blockRef rd fuel b lb

end Diskfs.Ext4.Spec
