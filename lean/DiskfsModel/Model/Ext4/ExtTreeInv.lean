/-
  Decidable form of the extent-tree invariant (`TreeInv` of Proofs/Ext4ExtInv.lean, proved equivalent there), run by
  the driver on every tree the correspondence reads from the device, and the allocator the correspondence runs the
  tree mirror with (the fast path of allocateExtents over the block bitmaps).
-/
import DiskfsModel.Model.Ext4.ExtTree
import DiskfsModel.Model.Ext4.Alloc
namespace Diskfs.Ext4.ExtTree
open Diskfs Diskfs.Ext4

/-- a node that lives in a block: fan-out of a block, not over-full, not empty, block number not 0, children one
    level below with keys = their first file blocks -/
def goodB (bs : Nat) : Node → Bool
  | .leaf max disk es => max == nonRootMax bs && decide (es.length ≤ max) && !es.isEmpty && disk != 0
  | .index max disk depth ks =>
    max == nonRootMax bs && decide (ks.length ≤ max) && !ks.isEmpty && disk != 0 && goodKidsB bs depth ks
where goodKidsB (bs : Nat) (depth : Nat) : Kids → Bool
  | [] => true
  | (k, c) :: ks => c.depth + 1 == depth && c.firstKey == some k && goodB bs c && goodKidsB bs depth ks

/-- the root in the inode -/
def goodRootB (bs : Nat) : Node → Bool
  | .leaf max disk es => max == 4 && disk == 0 && decide (es.length ≤ 4)
  | .index max disk depth ks => max == 4 && disk == 0 && decide (ks.length ≤ 4) && !ks.isEmpty && goodB.goodKidsB bs depth ks

/-- strictly increasing (adjacent comparison) -/
def incB : List Nat → Bool
  | a :: b :: r => decide (a < b) && incB (b :: r)
  | _ => true

def sortedB (t : Node) : Bool := incB ((flatten t).map (·.fileBlock))

def nodupB (t : Node) : Bool := decide (treeBlocks t).Nodup

def treeInvB (bs : Nat) (t : Node) : Bool := goodRootB bs t && sortedB t && nodupB t

/-! ### the allocator the correspondence runs the tree mirror with -/

/-- the block bitmaps (one list of bits per group, true = in use) and the superblock's free-block counter -/
structure BmState where
  groups : List Alloc.Bits
  sbfree : Nat

/-- every group has at most `bpg` bits, so that a bit names one block -/
def bmWF (bpg : Nat) (s : BmState) : Bool := decide (0 < bpg) && s.groups.all (fun b => decide (b.length ≤ bpg))

/-- allocateExtents(n blocks, nil) as the tree code meets it: refused when the superblock counts fewer than n free
    blocks, else the fast path over the block bitmaps (first run of at least n clear bits in the lowest group), the
    run marked and the counter lowered. Block number = firstDataBlock + group * blocksPerGroup + bit. -/
def bmAlloc (fdb bpg : Nat) : Allocator BmState where
  take s n :=
    if n = 0 ∨ !bmWF bpg s then none else
    if s.sbfree < n then none else
    match Alloc.fastPick s.groups n with
    | none => none
    | some (g, p) =>
      some (fdb + g * bpg + p,
        { groups := (s.groups.zipIdx).map (fun x => if x.2 = g then Alloc.setRun x.1 p n else x.1), sbfree := s.sbfree - n })

/-- block x is free: it lies in a group and its bit is clear -/
def bmFree (fdb bpg : Nat) (s : BmState) (x : Nat) : Bool :=
  decide (fdb ≤ x) &&
    (match s.groups[(x - fdb) / bpg]? with
      | some b => b[(x - fdb) % bpg]? == some false
      | none => false)

end Diskfs.Ext4.ExtTree
