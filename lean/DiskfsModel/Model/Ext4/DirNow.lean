/-
  Property C20, directory blocks: MIRROR of parseDirEntriesLinear's entry loop as directoryentry.go has it NOW
  (after fix 214d00e "linear directory parsing validates rec_len": a record shorter than 12 bytes, reaching
  beyond the data or shorter than its name is an error, no longer a panic), to be compared with the rec_len walk
  of the SPEC reader (ImageSpec.dirWalk).  Core Lean only.
-/
import DiskfsModel.Model.Ext4.ImageSpec
namespace Diskfs.Ext4.Reader

/-- the loop of parseDirEntriesLinear over the remaining bytes `r` (directoryEntryFromBytes on `r[:rec_len]`) -/
def parseEntriesNow : Nat → Bytes → Res (List DirEnt)
  | 0, _ => .diverge
  | f + 1, r =>
    if r.isEmpty then .ok []
    else if !hasLen r 12 then .err
    else
      let len := le16 r 4
      let nl := u8 r 6
      if len < 12 ∨ !hasLen r len ∨ 8 + nl > len then .err
      else
        let e : DirEnt := ⟨le32 r 0, u8 r 7, slice r 8 (8 + nl)⟩
        match parseEntriesNow f (r.drop len) with
        | .ok es => .ok (e :: es)
        | .err => .err
        | .panic => .panic
        | .diverge => .diverge

/-- a directory entry of the mirror as the SPEC reader records it -/
def toDirent (e : DirEnt) : Spec.Dirent := ⟨e.inode, e.ftype, e.name⟩

/-- what a reader shows of a parsed block: the entries in use (inode ≠ 0) -/
def liveEntries (es : List DirEnt) : List Spec.Dirent := (es.filter fun e => e.inode ≠ 0).map toDirent

end Diskfs.Ext4.Reader
