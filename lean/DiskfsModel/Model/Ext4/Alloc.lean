/-
  The ext4 allocation / accounting machine (filesystem/ext4/ext4.go):
    allocateExtents (fast path: first group with a free run large enough, first such run),
    deallocateExtents, allocateInode, Remove's release of blocks and inode,
    incrGDFreeBlocks / incrGDFreeInodes and the superblock counters.

  A bitmap is a `List Bool` over the group's bits (true = in use) — the bit-level view of the block / inode
  bitmap whose byte-level operations are mirrored in Model/Ext4/Bitmap.lean.  The state keeps, per group, both
  bitmaps and the three descriptor counters, plus the two superblock counters; every operation updates the
  same fields in the same way as the Go code (bitmap first, then the group counter, then the superblock).
  Choices (which run of free blocks) are inputs: `allocRuns` takes the runs a policy picked; `fastPick` is the
  policy of the code's fast path.

  `fixed = false` mirrors Remove as found: inode bit index `ino - ipg*bg` (one too far), block group of a block
  `(b-1)/bpg` and bit index `b - bpg*bg` (right only when firstDataBlock = 1), and the group / superblock
  free-block counters incremented a second time by the inode's 512-byte block count.
-/
namespace Diskfs.Ext4.Alloc

abbrev Bits := List Bool

def countFree (b : Bits) : Nat := b.count false

/-- set `c` bits from position `p` (bits past the end are ignored) -/
def setRun : Bits → Nat → Nat → Bits
  | [], _, _ => []
  | x :: xs, 0, 0 => x :: xs
  | _ :: xs, 0, c + 1 => true :: setRun xs 0 c
  | x :: xs, p + 1, c => x :: setRun xs p c

def clearRun : Bits → Nat → Nat → Bits
  | [], _, _ => []
  | x :: xs, 0, 0 => x :: xs
  | _ :: xs, 0, c + 1 => false :: clearRun xs 0 c
  | x :: xs, p + 1, c => x :: clearRun xs p c

/-- bits p … p+c-1 exist and all have value `v` -/
def allAre (v : Bool) : Bits → Nat → Nat → Bool
  | _, _, 0 => true
  | [], _, _ + 1 => false
  | x :: xs, 0, c + 1 => (x == v) && allAre v xs 0 c
  | _ :: xs, p + 1, c + 1 => allAre v xs p (c + 1)

/-- maximal runs of clear bits as (position, count), in order (bit-level FreeList) -/
def freeRunsAux : Bits → (pos : Nat) → (cur : Option (Nat × Nat)) → List (Nat × Nat)
  | [], _, none => []
  | [], _, some r => [r]
  | false :: xs, pos, none => freeRunsAux xs (pos + 1) (some (pos, 1))
  | false :: xs, pos, some (p, c) => freeRunsAux xs (pos + 1) (some (p, c + 1))
  | true :: xs, pos, none => freeRunsAux xs (pos + 1) none
  | true :: xs, pos, some r => r :: freeRunsAux xs (pos + 1) none

def freeRuns (b : Bits) : List (Nat × Nat) := freeRunsAux b 0 none

/-- first position where `n` consecutive clear bits start a maximal run of at least `n` (the fast path's
    scan of FreeList for `Count >= n`): searched directly on the bits. `runStart` says whether position 0 of
    the list is the start of a maximal run (previous bit set or none). -/
def firstFitAux : Bits → (pos : Nat) → (n : Nat) → (runStart : Bool) → Option Nat
  | [], _, _, _ => none
  | true :: xs, pos, n, _ => firstFitAux xs (pos + 1) n true
  | false :: xs, pos, n, rs =>
    if rs && allAre false (false :: xs) 0 n then some pos
    else firstFitAux xs (pos + 1) n false

def firstFit (b : Bits) (n : Nat) : Option Nat := firstFitAux b 0 n true

/-- the fast path of allocateExtents over the groups' block bitmaps: (group, position in group) -/
def fastPickAux : List Bits → Nat → Nat → Option (Nat × Nat)
  | [], _, _ => none
  | b :: bs, g, n =>
    match firstFit b n with
    | some p => some (g, p)
    | none => fastPickAux bs (g + 1) n

def fastPick (groups : List Bits) (n : Nat) : Option (Nat × Nat) := fastPickAux groups 0 n

/-! ### the accounting state -/

structure Group where
  bbm : Bits
  ibm : Bits
  freeBlocks : Nat
  freeInodes : Nat
  usedDirs : Nat
deriving Repr, DecidableEq

structure Acc where
  groups : List Group
  sbFreeBlocks : Nat
  sbFreeInodes : Nat
deriving Repr, DecidableEq

def GroupInv (g : Group) : Prop := g.freeBlocks = countFree g.bbm ∧ g.freeInodes = countFree g.ibm

/-- counters equal what the bitmaps say (what e2fsck's pass 5 checks) -/
def AccInv (s : Acc) : Prop :=
  (∀ g ∈ s.groups, GroupInv g) ∧
  s.sbFreeBlocks = (s.groups.map (·.freeBlocks)).sum ∧
  s.sbFreeInodes = (s.groups.map (·.freeInodes)).sum

instance (g : Group) : Decidable (GroupInv g) := by unfold GroupInv; infer_instance
instance (s : Acc) : Decidable (AccInv s) := by unfold AccInv; infer_instance

def modifyAt (gs : List Group) (i : Nat) (f : Group → Group) : List Group :=
  match gs, i with
  | [], _ => []
  | g :: gs, 0 => f g :: gs
  | g :: gs, i + 1 => g :: modifyAt gs i f

/-- one extent of the allocation: group, position in the group's bitmap, count -/
abbrev Run := Nat × Nat × Nat

inductive Res where
  | ok (s : Acc)
  | refused (s : Acc)     -- the call returns an error; `s` is the state it leaves behind
deriving Repr, DecidableEq

def Res.state : Res → Acc
  | .ok s => s
  | .refused s => s

/-- marking one run: writeBlockBitmap, then incrGDFreeBlocks(group, -count) -/
def markRun (s : Acc) (r : Run) : Acc :=
  { s with groups := modifyAt s.groups r.1 fun g =>
      { g with bbm := setRun g.bbm r.2.1 r.2.2, freeBlocks := g.freeBlocks - r.2.2 } }

def runFree (s : Acc) (r : Run) : Bool :=
  match s.groups[r.1]? with
  | some g => allAre false g.bbm r.2.1 r.2.2
  | none => false

/-- the runs a policy may answer with for `n` blocks: each free in the state reached so far, total `n` -/
def runsOK : Acc → List Run → Bool
  | _, [] => true
  | s, r :: rs => runFree s r && runsOK (markRun s r) rs

/-- allocateExtents(n blocks) with the policy's answer `choice` (`none`: it found no room) -/
def allocExtents (s : Acc) (n : Nat) (choice : Option (List Run)) : Res :=
  if s.sbFreeBlocks < n then .refused s
  else match choice with
    | none => .refused s
    | some rs =>
      if runsOK s rs && (rs.map (·.2.2)).sum == n then
        let s' := rs.foldl markRun s
        .ok { s' with sbFreeBlocks := s'.sbFreeBlocks - n }
      else .refused s

def unmarkRun (s : Acc) (r : Run) : Acc :=
  { groups := modifyAt s.groups r.1 fun g =>
      { g with bbm := clearRun g.bbm r.2.1 r.2.2, freeBlocks := g.freeBlocks + r.2.2 },
    sbFreeBlocks := s.sbFreeBlocks + r.2.2, sbFreeInodes := s.sbFreeInodes }

def runUsed (s : Acc) (r : Run) : Bool :=
  match s.groups[r.1]? with
  | some g => allAre true g.bbm r.2.1 r.2.2
  | none => false

def runsUsed : Acc → List Run → Bool
  | _, [] => true
  | s, r :: rs => runUsed s r && runsUsed (unmarkRun s r) rs

/-- deallocateExtents of extents that are marked -/
def deallocExtents (s : Acc) (rs : List Run) : Res :=
  if runsUsed s rs then .ok (rs.foldl unmarkRun s) else .refused s

/-- allocateInode: first group whose inode bitmap has a clear bit (FirstFree) -/
def firstClear : Bits → Nat → Option Nat
  | [], _ => none
  | false :: _, p => some p
  | true :: xs, p => firstClear xs (p + 1)

def pickInode : List Group → Nat → Option (Nat × Nat)
  | [], _ => none
  | g :: gs, i => match firstClear g.ibm 0 with
    | some p => some (i, p)
    | none => pickInode gs (i + 1)

def allocInode (s : Acc) (isDir : Bool) : Res :=
  match pickInode s.groups 0 with
  | none => .refused s
  | some (gi, p) =>
    .ok { groups := modifyAt s.groups gi fun g =>
            { g with ibm := setRun g.ibm p 1, freeInodes := g.freeInodes - 1,
                     usedDirs := if isDir then g.usedDirs + 1 else g.usedDirs },
          sbFreeBlocks := s.sbFreeBlocks, sbFreeInodes := s.sbFreeInodes - 1 }

/-- the inode half of a (repaired) Remove at bit `p` of group `gi` -/
def freeInodeAt (s : Acc) (gi p : Nat) (isDir : Bool) : Acc :=
  { groups := modifyAt s.groups gi fun g =>
      { g with ibm := clearRun g.ibm p 1, freeInodes := g.freeInodes + 1,
               usedDirs := if isDir then g.usedDirs - 1 else g.usedDirs },
    sbFreeBlocks := s.sbFreeBlocks, sbFreeInodes := s.sbFreeInodes + 1 }

structure Geom where
  fdb : Nat    -- firstDataBlock
  bpg : Nat
  ipg : Nat
deriving Repr, DecidableEq

/-- Remove's release of one block `b` (absolute block number) -/
def freeBlock (fixed : Bool) (geo : Geom) (s : Acc) (b : Nat) : Acc :=
  let bg := if fixed then (b - geo.fdb) / geo.bpg else (b - 1) / geo.bpg
  let idx := if fixed then (b - geo.fdb) - geo.bpg * bg else b - geo.bpg * bg
  { s with groups := modifyAt s.groups bg fun g =>
      { g with bbm := clearRun g.bbm idx 1, freeBlocks := g.freeBlocks + 1 } }

/-- Remove's accounting for inode `ino` owning the blocks `blocks` (all marked), `blocks512` = the inode's
    i_blocks field (512-byte units), `isDir` for the used-directories counter. -/
def removeInode (fixed : Bool) (geo : Geom) (s : Acc) (ino : Nat) (blocks : List Nat) (blocks512 : Nat) (isDir : Bool) : Acc :=
  let s1 := blocks.foldl (freeBlock fixed geo) s
  let ibg := (ino - 1) / geo.ipg
  let idx := if fixed then (ino - 1) - geo.ipg * ibg else ino - geo.ipg * ibg
  let extra := if fixed then 0 else blocks512
  { groups := modifyAt s1.groups ibg fun g =>
      { g with ibm := clearRun g.ibm idx 1, freeInodes := g.freeInodes + 1, freeBlocks := g.freeBlocks + extra,
               usedDirs := if isDir then g.usedDirs - 1 else g.usedDirs },
    sbFreeBlocks := if fixed then s1.sbFreeBlocks + blocks.length else s1.sbFreeBlocks + blocks512,
    sbFreeInodes := s1.sbFreeInodes + 1 }

/-- are the blocks / the inode marked, inside their groups, pairwise distinct -/
def blockMarked (geo : Geom) (s : Acc) (b : Nat) : Bool :=
  geo.fdb ≤ b && runUsed s ((b - geo.fdb) / geo.bpg, (b - geo.fdb) % geo.bpg, 1)

def blocksMarked (geo : Geom) : Acc → List Nat → Bool
  | _, [] => true
  | s, b :: bs => blockMarked geo s b && blocksMarked geo (freeBlock true geo s b) bs

/-- deallocateExtents' release of one block `b` (absolute block number): the block bitmap bit is cleared, the
    group's counter and the superblock counter go up by one.  `fixed = false` is the code as found: the group is
    taken as `(b-1)/bpg` (right only when firstDataBlock = 1) and the bit as `b - (fdb + bg*bpg)`, so that with
    firstDataBlock = 0 the first block of a group is credited to the group in front of it at bit `bpg` (a padding
    bit, outside the group's real bits).  `fixed = true` computes both from `b - fdb`, as Remove does. -/
def deallocBlock (fixed : Bool) (geo : Geom) (s : Acc) (b : Nat) : Acc :=
  let bg := if fixed then (b - geo.fdb) / geo.bpg else (b - 1) / geo.bpg
  let idx := b - (geo.fdb + bg * geo.bpg)
  { groups := modifyAt s.groups bg fun g =>
      { g with bbm := clearRun g.bbm idx 1, freeBlocks := g.freeBlocks + 1 },
    sbFreeBlocks := s.sbFreeBlocks + 1, sbFreeInodes := s.sbFreeInodes }

def deallocBlocks (fixed : Bool) (geo : Geom) (s : Acc) (blocks : List Nat) : Acc :=
  blocks.foldl (deallocBlock fixed geo) s

/-- the blocks are marked, one after the other (so pairwise distinct) -/
def blocksMarkedD (geo : Geom) : Acc → List Nat → Bool
  | _, [] => true
  | s, b :: bs => blockMarked geo s b && blocksMarkedD geo (deallocBlock true geo s b) bs

/-- deallocateExtents (repaired arithmetic) on absolute block numbers as an operation of the machine -/
def freeBlocksOp (geo : Geom) (s : Acc) (blocks : List Nat) : Res :=
  if blocksMarkedD geo s blocks then .ok (deallocBlocks true geo s blocks) else .refused s

/-- is inode `ino` (numbered from 1) marked in its group's inode bitmap -/
def inodeMarked (geo : Geom) (s : Acc) (ino : Nat) : Bool :=
  1 ≤ ino && match s.groups[(ino - 1) / geo.ipg]? with
    | some g => allAre true g.ibm ((ino - 1) % geo.ipg) 1
    | none => false

/-- Remove (repaired bookkeeping) as an operation of the machine. The code trusts the inode: it clears the bits of
    the blocks the extent tree names and counts every Clear; the machine carries that out when the blocks (data
    and extent-tree blocks, pairwise distinct) and the inode are marked, which is what ownership means, and
    leaves the state alone otherwise. -/
def removeOp (geo : Geom) (s : Acc) (ino : Nat) (blocks : List Nat) (isDir : Bool) : Res :=
  if blocksMarked geo s blocks && inodeMarked geo s ino then .ok (removeInode true geo s ino blocks 0 isDir)
  else .refused s

inductive Op where
  | alloc (n : Nat) (choice : Option (List Run))
  | dealloc (rs : List Run)
  | newInode (isDir : Bool)
  | remove (geo : Geom) (ino : Nat) (blocks : List Nat) (isDir : Bool)
  | free (geo : Geom) (blocks : List Nat)
deriving Repr, DecidableEq

def step (s : Acc) : Op → Res
  | .alloc n c => allocExtents s n c
  | .dealloc rs => deallocExtents s rs
  | .newInode d => allocInode s d
  | .remove geo ino blocks d => removeOp geo s ino blocks d
  | .free geo blocks => freeBlocksOp geo s blocks

end Diskfs.Ext4.Alloc
