/-
  SPEC reader of ext4, part 3 (property C20): a whole-image reader over the bytes of a volume, written
  from the on-disk format (kernel documentation / fs/ext4 headers), independent of the structure of the Go
  reader:

    * superblock geometry, feature words, checksum seed (crc32c of the UUID, or s_checksum_seed with the
      csum_seed feature), superblock checksum
    * group descriptors (32 / 64 bytes), their crc32c checksum, the inode table of every group
    * inode n → (group, slot) → byte offset; inode fields: mode, uid/gid halves, size halves, links, flags,
      i_blocks (huge_file), generation, file_acl halves, the four timestamps with their extra words (only
      where i_extra_isize covers them), i_block; inode checksum (low half only when the high half is not
      inside the inode)
    * file blocks by SEARCHING the extent tree per logical block (SpecTree.lean), holes and unwritten
      extents as zeros
    * directories by the linear rec_len walk over every block — the hash index is NOT consulted (dx nodes
      are empty dirents to a linear reader), so the listing is independent of the Go reader's hash-tree
      traversal; leaf block checksums
    * symbolic links: fast iff the inode owns no data blocks (i_blocks minus the xattr block), the kernel's
      rule — not the size rule the Go reader uses
    * extended attributes: in-inode table behind i_extra_isize, then the block i_file_acl names (its
      checksum), in-inode names win
    * the walk from inode 2

  Executed by the driver (`ext4ref.imgwalk`, `ext4ref.imgfile`) on the reference images the engine builds
  with mke2fs/debugfs and compared with what the library reports for the same image.  Core Lean only.
-/
import DiskfsModel.Model.Ext4.SpecGeom
import DiskfsModel.Model.Ext4.SpecTree
import DiskfsModel.Model.Ext4.InodeCodec
namespace Diskfs.Ext4.Spec
open Diskfs Diskfs.Ext4.Reader

/-! ### crc32c (Castagnoli, reflected polynomial 0x82F63B78), raw register update: no pre/post inversion -/

def crc32cStep (c : UInt32) : UInt32 :=
  if c &&& 1 == 1 then (c >>> 1) ^^^ 0x82F63B78 else c >>> 1

def crc32cEntry (i : Nat) : UInt32 :=
  crc32cStep (crc32cStep (crc32cStep (crc32cStep (crc32cStep (crc32cStep (crc32cStep (crc32cStep (UInt32.ofNat i))))))))

def crc32cTable : Array UInt32 := Array.ofFn (n := 256) fun i => crc32cEntry i.val

@[inline] def crc32cByte (c : UInt32) (x : UInt8) : UInt32 :=
  crc32cTable[((c ^^^ x.toUInt32) &&& 0xFF).toNat]! ^^^ (c >>> 8)

/-- bit-at-a-time definition (the table is its 8-fold unrolling) -/
def crc32cByteSlow (c : UInt32) (x : UInt8) : UInt32 :=
  let c := c ^^^ x.toUInt32
  crc32cStep (crc32cStep (crc32cStep (crc32cStep (crc32cStep (crc32cStep (crc32cStep (crc32cStep c)))))))

def crc32c (seed : UInt32) (b : Bytes) : UInt32 := b.foldl crc32cByte seed

def le32Bytes (n : Nat) : Bytes := leEnc 4 n
def le64Bytes (n : Nat) : Bytes := leEnc 8 n

/-! ### the image -/

structure Img where
  data : ByteArray

namespace Img
def size (i : Img) : Nat := i.data.size
@[inline] def byte (i : Img) (o : Nat) : UInt8 := if h : o < i.data.size then i.data[o] else 0
def u8 (i : Img) (o : Nat) : Nat := (i.byte o).toNat
def u16 (i : Img) (o : Nat) : Nat := i.u8 o + 256 * i.u8 (o + 1)
def u32 (i : Img) (o : Nat) : Nat := i.u16 o + 65536 * i.u16 (o + 2)
/-- `len` bytes at `off` (zero beyond the end: callers check the range first) -/
def bytes (i : Img) (off len : Nat) : Bytes := (List.range len).map fun k => i.byte (off + k)
def inRange (i : Img) (off len : Nat) : Bool := off + len ≤ i.size

/-- crc32c over `n` bytes from `off`, the positions `zero` selects taken as zero -/
def crcRange (i : Img) (zero : Nat → Bool) : Nat → Nat → UInt32 → UInt32
  | _, 0, c => c
  | off, n + 1, c => crcRange i zero (off + 1) n (crc32cByte c (if zero off then 0 else i.byte off))
end Img

/-! ### superblock, checksum seed, group descriptors -/

structure Fs where
  img : Img
  geo : Geo
  seed : UInt32
  tables : List Nat
  /-- checksum bookkeeping of `openFs`: descriptors whose checksum was verified, failures -/
  gdChecked : Nat
  openBad : Nat

def Fs.bs (f : Fs) : Nat := f.geo.blockSize

def Fs.block (f : Fs) (blk : Nat) : Option Bytes :=
  if (blk + 1) * f.bs ≤ f.img.size then some (f.img.bytes (blk * f.bs) f.bs) else none

/-- descriptor `grp`: inode table block (both halves with 64-byte descriptors) and whether its checksum holds -/
def gdRead (img : Img) (g : Geo) (seed : UInt32) (grp : Nat) : Nat × Bool :=
  let o := g.gdOff grp
  let wide := g.is64 && g.gdSize ≥ 64
  let table := img.u32 (o + 8) + (if wide then img.u32 (o + 0x28) * 4294967296 else 0)
  let c0 := crc32c seed (le32Bytes grp)
  let c := img.crcRange (fun p => p == o + 0x1e || p == o + 0x1f) o g.gdSize c0
  (table, c.toNat % 65536 == img.u16 (o + 0x1e))

/-- open: geometry, what a reader must refuse, checksum seed, superblock checksum, descriptor table -/
def openFs (img : Img) : Except String Fs := do
  if !img.inRange 1024 1024 then throw "short"
  let sb := img.bytes 1024 1024
  let some g := sbGeo sb | throw "magic"
  if !g.extents then throw "noextents"
  if g.inlineData then throw "inlinedata"
  if g.metaBg then throw "metabg"
  if g.blocksPerGroup == 0 || g.inodesPerGroup == 0 || g.inodeSize < 128 || g.inodeSize > g.blockSize then throw "geometry"
  if g.gdSize < 32 || (g.is64 && g.gdSize < 64) then throw "gdsize"
  if !img.inRange g.gdtStart (g.groups * g.gdSize) then throw "gdt"
  let mut bad := 0
  let seed : UInt32 :=
    if g.csumSeedFeature then UInt32.ofNat (img.u32 (1024 + 0x270))
    else crc32c 0xFFFFFFFF (img.bytes (1024 + 0x68) 16)
  if g.metadataCsum then
    if img.u8 (1024 + 0x175) ≠ 1 then throw "csumtype"
    if (img.crcRange (fun _ => false) 1024 0x3fc 0xFFFFFFFF).toNat ≠ img.u32 (1024 + 0x3fc) then bad := bad + 1
  let gds := (List.range g.groups).map (gdRead img g seed)
  if g.metadataCsum then bad := bad + (gds.filter (fun p => !p.2)).length
  return ⟨img, g, seed, gds.map (·.1), if g.metadataCsum then g.groups else 0, bad⟩

/-! ### inodes -/

structure Inode where
  num : Nat
  off : Nat
  mode : Nat
  uid : Nat
  gid : Nat
  size : Nat
  links : Nat
  flags : Nat
  blocks512 : Nat
  gen : Nat
  fileAcl : Nat
  extra : Nat
  atime : InodeCodec.Ts
  ctime : InodeCodec.Ts
  mtime : InodeCodec.Ts
  crtime : InodeCodec.Ts
  iblock : Bytes
  csumOk : Bool

def Inode.ftype (i : Inode) : Nat := i.mode / 4096
def Inode.isDir (i : Inode) : Bool := i.ftype == 4
def Inode.isReg (i : Inode) : Bool := i.ftype == 8
def Inode.isLnk (i : Inode) : Bool := i.ftype == 10
def Inode.usesExtents (i : Inode) : Bool := hasBit i.flags 0x80000
def Inode.hugeFileFlag (i : Inode) : Bool := hasBit i.flags 0x40000

def readInode (f : Fs) (n : Nat) : Except String Inode := do
  let g := f.geo
  let some o := inodeOff g f.tables n | throw s!"inode {n}: not in this file system"
  if !f.img.inRange o g.inodeSize then throw s!"inode {n}: beyond the device"
  let img := f.img
  let extra := if g.inodeSize > 128 then img.u16 (o + 0x80) else 0
  -- EXT4_FITS_IN_INODE: a field of the extra area exists when i_extra_isize reaches its end
  let fits (fieldEnd : Nat) : Bool := g.inodeSize > 128 && 128 + extra ≥ fieldEnd && fieldEnd ≤ g.inodeSize
  let x (fieldOff : Nat) : Nat := if fits (fieldOff + 4) then img.u32 (o + fieldOff) else 0
  let flags := img.u32 (o + 0x20)
  let blocksRaw := img.u32 (o + 0x1c) + (if g.hugeFile then img.u16 (o + 0x74) * 4294967296 else 0)
  let blocks512 := if g.hugeFile && hasBit flags 0x40000 then blocksRaw * (g.blockSize / 512) else blocksRaw
  let gen := img.u32 (o + 0x64)
  let csumOk :=
    if g.metadataCsum then
      let hasHi := fits 0x84
      let c0 := crc32c (crc32c f.seed (le32Bytes n)) (le32Bytes gen)
      let c := (img.crcRange (fun p => p == o + 0x7c || p == o + 0x7d || (hasHi && (p == o + 0x82 || p == o + 0x83)))
        o g.inodeSize c0).toNat
      let stored := img.u16 (o + 0x7c) + (if hasHi then img.u16 (o + 0x82) * 65536 else 0)
      (if hasHi then c else c % 65536) == stored
    else true
  return { num := n, off := o
           mode := img.u16 o
           uid := img.u16 (o + 0x2) + img.u16 (o + 0x78) * 65536
           gid := img.u16 (o + 0x18) + img.u16 (o + 0x7a) * 65536
           size := img.u32 (o + 0x4) + img.u32 (o + 0x6c) * 4294967296
           links := img.u16 (o + 0x1a)
           flags := flags
           blocks512 := blocks512
           gen := gen
           fileAcl := img.u32 (o + 0x68) + img.u16 (o + 0x76) * 4294967296
           extra := extra
           atime := InodeCodec.tsDec (img.u32 (o + 0x8)) (x 0x8c)
           ctime := InodeCodec.tsDec (img.u32 (o + 0xc)) (x 0x84)
           mtime := InodeCodec.tsDec (img.u32 (o + 0x10)) (x 0x88)
           crtime := if fits 0x94 then InodeCodec.tsDec (img.u32 (o + 0x90)) (x 0x94) else ⟨0, 0⟩
           iblock := img.bytes (o + 0x28) 60
           csumOk := csumOk }

/-! ### file contents -/

def resExcept {α : Type} (what : String) : Res α → Except String α
  | .ok a => .ok a
  | .err => .error (what ++ ": malformed extent tree or unreadable block")
  | .panic => .error (what ++ ": extent node longer than its block")
  | .diverge => .error (what ++ ": extent tree deeper than 6")

/-- logical block → what it is -/
def blockOf (f : Fs) (i : Inode) (lb : Nat) : Except String BlockRef :=
  if !i.usesExtents then .error s!"inode {i.num}: no extent tree"
  else resExcept s!"inode {i.num}" (treeSearchRef f.block 6 i.iblock lb)

def fnvStep (h : Nat) (x : UInt8) : Nat := ((h ^^^ x.toNat) * 16777619) % 4294967296
def fnvInit : Nat := 2166136261

/-- fold `step` over the `n` bytes of the file from byte `p` on (holes and unwritten extents are zeros) -/
def foldFile {σ : Type} (f : Fs) (i : Inode) (step : σ → UInt8 → σ) : Nat → Nat → Nat → σ → Except String σ
  | 0, _, _, s => .ok s
  | fuel + 1, p, n, s =>
    if n = 0 then .ok s
    else do
      let bs := f.bs
      let k := min n (bs - p % bs)
      match ← blockOf f i (p / bs) with
      | .data phys =>
        let o := phys * bs + p % bs
        if !f.img.inRange o k then throw s!"inode {i.num}: block {phys} beyond the device"
        foldFile f i step fuel (p + k) (n - k) ((List.range k).foldl (fun s j => step s (f.img.byte (o + j))) s)
      | _ => foldFile f i step fuel (p + k) (n - k) ((List.range k).foldl (fun s _ => step s 0) s)

def fileDigest (f : Fs) (i : Inode) : Except String Nat :=
  foldFile f i fnvStep (i.size / f.bs + 2) 0 i.size fnvInit

def fileBytes (f : Fs) (i : Inode) (n : Nat) : Except String Bytes :=
  (foldFile f i (fun (acc : Bytes) x => x :: acc) (n / f.bs + 2) 0 n []).map List.reverse

/-! ### directories -/

structure Dirent where
  ino : Nat
  ftype : Nat
  name : Bytes
deriving Repr, DecidableEq

/-- the rec_len walk over one block: `rest` = the block from position `pos` on, `bs` = block size -/
def dirWalk (bs : Nat) : Nat → Bytes → Nat → List Dirent → Except String (List Dirent)
  | 0, _, _, _ => .error "directory block: walk does not terminate"
  | fuel + 1, rest, pos, acc =>
    if pos ≥ bs then .ok acc.reverse
    else if pos + 8 > bs then .error "directory block: entry header crosses the end of the block"
    else
      let ino := le32 rest 0
      let rec_ := le16 rest 4
      let nl := u8 rest 6
      if rec_ < 8 ∨ rec_ % 4 ≠ 0 ∨ pos + rec_ > bs then .error "directory block: bad rec_len"
      else if ino ≠ 0 ∧ 8 + nl > rec_ then .error "directory block: name longer than its record"
      else
        let acc := if ino ≠ 0 then ⟨ino, u8 rest 7, slice rest 8 (8 + nl)⟩ :: acc else acc
        dirWalk bs fuel (rest.drop rec_) (pos + rec_) acc

/-- leaf checksum: a block that ends in the 12-byte tail (inode 0, rec_len 12, name_len 0, type 0xde) carries
    crc32c(seed, inode number, generation, block without the tail).  some ok / none: no tail -/
def dirTailOk (f : Fs) (d : Inode) (blk : Bytes) : Option Bool :=
  let bs := f.bs
  let t := bs - 12
  if le32 blk t = 0 ∧ le16 blk (t + 4) = 12 ∧ u8 blk (t + 6) = 0 ∧ u8 blk (t + 7) = 0xde then
    let c0 := crc32c (crc32c f.seed (le32Bytes d.num)) (le32Bytes d.gen)
    some ((crc32c c0 (blk.take t)).toNat == le32 blk (t + 8))
  else none

structure DirRead where
  ents : List Dirent
  tails : Nat
  tailsBad : Nat

/-- every block of the directory, linearly -/
def readDirBlocks (f : Fs) (d : Inode) : Nat → Nat → DirRead → Except String DirRead
  | 0, _, acc => .ok acc
  | n + 1, lb, acc => do
    match ← blockOf f d lb with
    | .data phys =>
      let some blk := f.block phys | throw s!"directory inode {d.num}: block {phys} beyond the device"
      let es ← dirWalk f.bs (f.bs / 8 + 2) blk 0 []
      let (t, tb) := if f.geo.metadataCsum then
          match dirTailOk f d blk with
          | some true => (1, 0)
          | some false => (1, 1)
          | none => (0, 0)
        else (0, 0)
      readDirBlocks f d n (lb + 1) ⟨acc.ents ++ es, acc.tails + t, acc.tailsBad + tb⟩
    | _ => throw s!"directory inode {d.num}: block {lb} is not mapped"

def readDir (f : Fs) (d : Inode) : Except String DirRead :=
  if !d.isDir then .error s!"inode {d.num} is not a directory"
  else if d.size % f.bs ≠ 0 then .error s!"directory inode {d.num}: size is not a multiple of the block size"
  else readDirBlocks f d (d.size / f.bs) 0 ⟨[], 0, 0⟩

/-! ### symbolic links -/

/-- 512-byte units the xattr block accounts for in i_blocks: one cluster -/
def eaBlocks512 (f : Fs) (i : Inode) : Nat :=
  if i.fileAcl = 0 then 0
  else (if f.geo.bigalloc then f.bs * 2 ^ (f.geo.logCluster - (Nat.log2 (f.bs / 1024))) else f.bs) / 512

/-- ext4_inode_is_fast_symlink: a symlink that owns no data blocks keeps its target in i_block -/
def isFastSymlink (f : Fs) (i : Inode) : Bool := i.isLnk && i.blocks512 - eaBlocks512 f i == 0

def linkTarget (f : Fs) (i : Inode) : Except String Bytes :=
  if !i.isLnk then .error s!"inode {i.num} is not a symbolic link"
  else if isFastSymlink f i then
    if i.size > 60 then .error s!"fast symlink inode {i.num}: size {i.size}" else .ok (i.iblock.take i.size)
  else if i.size > f.bs then .error s!"symlink inode {i.num}: size {i.size}"
  else fileBytes f i i.size

/-! ### extended attributes -/

def xattrPrefixSpec (idx : Nat) : Bytes :=
  match idx with
  | 0 => []
  | 1 => "user.".toUTF8.toList
  | 2 => "system.posix_acl_access".toUTF8.toList
  | 3 => "system.posix_acl_default".toUTF8.toList
  | 4 => "trusted.".toUTF8.toList
  | 6 => "security.".toUTF8.toList
  | 7 => "system.".toUTF8.toList
  | 8 => "system.richacl".toUTF8.toList
  | 10 => "gnu.".toUTF8.toList
  | n => "unknown_".toUTF8.toList ++ (toString n).toUTF8.toList ++ ".".toUTF8.toList

/-- entry table at `pos` of `buf`, values at `base + e_value_offs` of `buf`; ends at four zero bytes or `lim` -/
def xattrWalk (buf : Bytes) (base lim : Nat) : Nat → Nat → List (Bytes × Bytes) → Except String (List (Bytes × Bytes))
  | 0, _, _ => .error "xattr table: walk does not terminate"
  | fuel + 1, pos, acc =>
    if pos + 4 > lim ∨ le32 buf pos = 0 then .ok acc.reverse
    else if pos + 16 > lim then .error "xattr table: entry crosses the end"
    else
      let nl := u8 buf pos
      let idx := u8 buf (pos + 1)
      let offs := le16 buf (pos + 2)
      let inum := le32 buf (pos + 4)
      let size := le32 buf (pos + 8)
      if pos + 16 + nl > lim then .error "xattr table: name crosses the end"
      else if inum ≠ 0 then .error "xattr value in an EA inode"
      else if size > 0 ∧ base + offs + size > lim then .error "xattr value crosses the end"
      else
        let name := xattrPrefixSpec idx ++ slice buf (pos + 16) (pos + 16 + nl)
        let val := if size > 0 then slice buf (base + offs) (base + offs + size) else []
        xattrWalk buf base lim fuel ((pos + 16 + nl + 3) / 4 * 4) ((name, val) :: acc)

structure XaRead where
  attrs : List (Bytes × Bytes)
  inIbody : Bool
  inBlock : Bool
  blockCsumBad : Nat

def readXattrs (f : Fs) (i : Inode) : Except String XaRead := do
  let isz := f.geo.inodeSize
  let raw := f.img.bytes i.off isz
  let st := 128 + i.extra
  let ibody ←
    if isz > 128 ∧ st + 4 ≤ isz ∧ le32 raw st = 0xEA020000 then xattrWalk raw (st + 4) isz (isz / 4 + 2) (st + 4) []
    else pure []
  if i.fileAcl = 0 then return ⟨ibody, !ibody.isEmpty, false, 0⟩
  let some blk := f.block i.fileAcl | throw s!"inode {i.num}: xattr block beyond the device"
  if le32 blk 0 ≠ 0xEA020000 then throw s!"inode {i.num}: xattr block magic"
  let bad :=
    if f.geo.metadataCsum then
      let c0 := crc32c f.seed (le64Bytes i.fileAcl)
      let c := crc32c c0 (blk.take 0x10 ++ zeros 4 ++ blk.drop 0x14)
      if c.toNat == le32 blk 0x10 then 0 else 1
    else 0
  let inblk ← xattrWalk blk 0 f.bs (f.bs / 4 + 2) 32 []
  let extra := inblk.filter fun p => !(ibody.any fun q => q.1 == p.1)
  return ⟨ibody ++ extra, !ibody.isEmpty, true, bad⟩

/-! ### the walk -/

structure Rec where
  path : List Bytes
  dtype : Nat
  ino : Inode
  target : Option Bytes

structure WalkOut where
  recs : List Rec
  inodes : Nat
  inodesBad : Nat
  tails : Nat
  tailsBad : Nat

def isDot (n : Bytes) : Bool := n == [46] || n == [46, 46]

/-- depth-first from directory inode `d` at `path`; `fuel` bounds the depth -/
def walkDir (f : Fs) : Nat → List Bytes → Inode → WalkOut → Except String WalkOut
  | 0, _, _, _ => .error "tree deeper than the bound"
  | fuel + 1, path, d, out => do
    let dr ← readDir f d
    let out := { out with tails := out.tails + dr.tails, tailsBad := out.tailsBad + dr.tailsBad }
    (dr.ents.filter fun e => !isDot e.name).foldlM (init := out) fun out e => do
      let i ← readInode f e.ino
      let p := path ++ [e.name]
      let tgt ← if i.isLnk then (linkTarget f i).map some else pure none
      let out := { out with recs := ⟨p, e.ftype, i, tgt⟩ :: out.recs, inodes := out.inodes + 1,
                            inodesBad := out.inodesBad + (if i.csumOk then 0 else 1) }
      if i.isDir then walkDir f fuel p i out else pure out

def walk (f : Fs) : Except String WalkOut := do
  let root ← readInode f 2
  walkDir f 64 [] root ⟨[], 1, if root.csumOk then 0 else 1, 0, 0⟩

/-- path lookup from the root: directory entry type and inode of the last component (`[]` is the root) -/
def lookup (f : Fs) : List Bytes → Except String (Nat × Inode)
  | comps => do
    let root ← readInode f 2
    comps.foldlM (init := (2, root)) fun (cur : Nat × Inode) name => do
      let dr ← readDir f cur.2
      match dr.ents.find? (fun e => e.name == name) with
      | none => throw "not found"
      | some e => return (e.ftype, ← readInode f e.ino)

end Diskfs.Ext4.Spec
