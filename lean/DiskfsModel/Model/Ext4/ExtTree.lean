/-
  Mirror of filesystem/ext4/extent.go: the extent tree of an inode.

  The library keeps the ROOT node in memory (it lives in the inode, 4 entries) and every other node in a block
  of the device: `extendExtentTree` loads the child it descends into from its block (`loadChildNode`), changes
  it and writes it back.  The mirror abstracts the device as nesting: a node carries the nodes below it, each
  with the block (`disk`) it lives in; the correspondence compares this nested tree with what the engine's own
  decoder reads FROM THE DEVICE after every real call.

  What is mirrored (names as in the Go code):
    * `extendExtentTree` = `extend`: createRootExtentTree; extendLeafNode (append in place; root leaf:
      promoteLeafToChild or splitLeafNode + createInternalNode; leaf under a parent: splitLeafNode, the parent's
      pointer replaced by two, the parent written to its block when it has one); extendInternalNode
      (findChildNode, the descent, the refreshed child pointer, splitInternalNodeChildren + createInternalNode
      when the root in the inode gets a fifth child, "internal node split with non-root parent not supported"
      otherwise);
    * the block the code writes a changed node to: `writeNodeToDisk` looks the block up in the parent BY KEY
      (first pointer whose file block equals the node's first file block), extendLeafNode finds the pointer to
      replace BY BLOCK NUMBER; where such a lookup would hit another node than the one the code descended into
      (duplicate keys / blocks, only in malformed trees) the mirror answers `.weird` (outside the mirror);
    * `toBytes` of a node panics when it has more entries than `max` (the buffer is 12+12*max bytes): `.panic`.
      The library reaches this itself (finding ext4-extent-node-overfull-panic): a leaf that splits under a FULL
      index node that lives in a block, and a leaf that gets so many extents in one call that a half of them
      does not fit a block. `fx = false` is the code as found, `fx = true` the repaired code, which refuses
      such a call before anything is allocated or written;
    * `blocks()` = `flatten`, `extentTreeBlocks` = `treeBlocks`;
    * the node codec: `encLeaf` / `encIndex` (toBytes) and `parseNode` (parseExtents).

  Not mirrored: the `count` field of a child pointer (in memory only, used by findBlocks, which nothing calls),
  sort.Slice on equal file blocks (the mirror's sort is stable; the library never produces equal keys).
-/
import DiskfsModel.Model.Ext4.FileIO
namespace Diskfs.Ext4.ExtTree
open Diskfs Diskfs.Ext4

inductive Node where
  | leaf (max disk : Nat) (exts : List Extent)
  | index (max disk depth : Nat) (kids : List (Nat × Node))
deriving Repr

abbrev Kids := List (Nat × Node)

def Node.disk : Node → Nat
  | .leaf _ d _ => d
  | .index _ d _ _ => d

def Node.max : Node → Nat
  | .leaf m _ _ => m
  | .index m _ _ _ => m

/-- `getDepth` -/
def Node.depth : Node → Nat
  | .leaf _ _ _ => 0
  | .index _ _ d _ => d

/-- `getCount`: entries of the node -/
def Node.entries : Node → Nat
  | .leaf _ _ es => es.length
  | .index _ _ _ ks => ks.length

/-- `getFileBlock`: the first file block of a node (Go indexes element 0: `none` = index out of range) -/
def Node.firstKey : Node → Option Nat
  | .leaf _ _ (e :: _) => some e.fileBlock
  | .leaf _ _ [] => none
  | .index _ _ _ ((k, _) :: _) => some k
  | .index _ _ _ [] => none

/-- max entries of a node that lives in a block: `(blockSize - 12) / 12` -/
def nonRootMax (bs : Nat) : Nat := (bs - 12) / 12

/-! ### blocks() and extentTreeBlocks -/

mutual
/-- `blocks()`: the extents of the tree in order -/
def flatten : Node → List Extent
  | .leaf _ _ es => es
  | .index _ _ _ ks => flattenKids ks
def flattenKids : Kids → List Extent
  | [] => []
  | (_, c) :: ks => flatten c ++ flattenKids ks
end

mutual
/-- `extentTreeBlocks`: the blocks that hold the nodes below the root, parent before children -/
def treeBlocks : Node → List Nat
  | .leaf _ _ _ => []
  | .index _ _ _ ks => treeBlocksKids ks
def treeBlocksKids : Kids → List Nat
  | [] => []
  | (_, c) :: ks => (c.disk :: treeBlocks c) ++ treeBlocksKids ks
end

/-! ### the allocator (abstract) -/

/-- `take s n`: `allocateExtents(n * blockSize, nil)` answered with ONE extent of n blocks starting at the
    returned block; `none`: the call failed or its first extent was shorter than n -/
structure Allocator (σ : Type) where
  take : σ → Nat → Option (Nat × σ)

inductive Err where
  | nospace      -- allocateExtents failed / "could not allocate enough blocks"
  | notfound     -- "block number not found for node"
  | unsupported  -- "internal node split with non-root parent not supported" / "cannot create root internal node"
deriving Repr, DecidableEq

inductive Res (α : Type) where
  | ok (a : α)
  | err (e : Err)
  | panic        -- index / slice bounds out of range
  | weird        -- outside the mirror (malformed tree: a lookup hits another node, depth fields inconsistent)
deriving Repr

def Res.isPanic {α : Type} : Res α → Bool
  | .panic => true
  | _ => false

def Res.toOption {α : Type} : Res α → Option α
  | .ok a => some a
  | _ => none

def Res.errOf {α : Type} : Res α → Option Err
  | .err e => some e
  | _ => none

/-- an allocator that hands out block s, s+1, ... (for concrete examples) -/
def bump : Allocator Nat := ⟨fun s n => some (s, s + n)⟩

/-! ### sort by file block (stable insertion sort) -/

def insertFB (e : Extent) : List Extent → List Extent
  | [] => [e]
  | x :: xs => if e.fileBlock < x.fileBlock then e :: x :: xs else x :: insertFB e xs

/-- `sort.Slice(all, fileBlock <)`; insertion from the right keeps equal keys in order -/
def sortFB : List Extent → List Extent
  | [] => []
  | e :: es => insertFB e (sortFB es)

/-! ### extendExtentTree -/

/-- `findChildNode`: the child before the first one whose key is above `fb`, the last child when there is none.
    `none`: index -1 (Go panics at `node.children[-1]`). -/
def findChildAux (fb : Nat) : List Nat → Nat → Option Nat
  | [], i => if i = 0 then none else some (i - 1)
  | k :: ks, i => if fb < k then (if i = 0 then none else some (i - 1)) else findChildAux fb ks (i + 1)

def findChild (keys : List Nat) (fb : Nat) : Option Nat := findChildAux fb keys 0

/-- `getBlockNumberFromNode` as used by writeNodeToDisk: the block of the first pointer of the parent whose key
    is `key`; 0 when there is none. `plist`: (key, block) of the parent's pointers. -/
def lookupKey (plist : List (Nat × Nat)) (key : Nat) : Nat :=
  match plist.find? (fun p => p.1 == key) with
  | some p => p.2
  | none => 0

/-- `writeNodeToDisk(node, fs, parent)` for a node that lives in block `self` and whose first key is `key`:
    nothing to do for the root; otherwise the block is looked up in the parent by key -/
def writeBack (plist : Option (List (Nat × Nat))) (key : Option Nat) (self : Nat) : Res Unit :=
  match plist with
  | none => .ok ()
  | some pl =>
    match key with
    | none => .err .notfound           -- childPtrMatchesNode is false for an empty node
    | some k =>
      let b := lookupKey pl k
      if b = 0 then .err .notfound
      else if b = self then .ok ()
      else .weird                      -- the node would be written over another node's block

/-- `splitLeafNode`: all extents sorted, cut in the middle; the first half stays in the leaf's block (two new
    blocks for a leaf that lived in the inode). Returns the two leaves, the blocks taken and the allocator. -/
def splitLeaf {σ : Type} (fx : Bool) (A : Allocator σ) (s : σ) (bs disk : Nat) (all : List Extent) : Res (Node × Node × Nat × σ) :=
  let all := sortFB all
  let mid := all.length / 2
  let mx := nonRootMax bs
  let need := if disk = 0 then 2 else 1
  -- repaired: more extents than two leaves hold are refused before anything is allocated
  if fx ∧ (mid > mx ∨ all.length - mid > mx) then .err .unsupported else
  match A.take s need with
  | none => .err .nospace
  | some (b, s') =>
    let d1 := if disk = 0 then b else disk
    let d2 := if disk = 0 then b + 1 else b
    -- toBytes of each half: the buffer has room for mx entries
    if mid > mx ∨ all.length - mid > mx then .panic
    else .ok (.leaf mx d1 (all.take mid), .leaf mx d2 (all.drop mid), need, s')

/-- `createInternalNode` over two nodes / one node: the new root in the inode -/
def mkRoot (nodes : List Node) : Res Node :=
  match nodes with
  | [] => .panic
  | n0 :: _ =>
    let ks := nodes.map fun n => (n.firstKey, n)
    if ks.any (fun p => p.1.isNone) then .panic
    else .ok (.index 4 0 (n0.depth + 1) (ks.map fun p => (p.1.getD 0, p.2)))

/-- `extendLeafNode` with `parent == nil`: the leaf is the root of the tree -/
def extendRootLeaf {σ : Type} (fx : Bool) (A : Allocator σ) (s : σ) (bs max disk : Nat) (exts added : List Extent) :
    Res (Node × Nat × σ) :=
  if exts.length + added.length ≤ max then .ok (.leaf max disk (exts ++ added), 0, s)
  else if exts.length + added.length ≤ nonRootMax bs then
    -- promoteLeafToChild: one leaf in a new block under a new index root
    match A.take s 1 with
    | none => .err .nospace
    | some (b, s') =>
      match mkRoot [.leaf (nonRootMax bs) b (sortFB (exts ++ added))] with
      | .ok r => .ok (r, 1, s')
      | .err e => .err e
      | .panic => .panic
      | .weird => .weird
  else
    match splitLeaf fx A s bs disk (exts ++ added) with
    | .ok (a, b, m, s') =>
      match mkRoot [a, b] with
      | .ok r => .ok (r, m, s')
      | .err e => .err e
      | .panic => .panic
      | .weird => .weird
    | .err e => .err e
    | .panic => .panic
    | .weird => .weird

/-- `splitInternalNodeChildren` + createInternalNode (root) / the refusal (non-root) -/
def splitIndex {σ : Type} (A : Allocator σ) (s : σ) (bs depth : Nat) (isRoot : Bool) (kids : Kids) (m : Nat) :
    Res (Node × Nat × σ) :=
  let mid := kids.length / 2
  let mx := nonRootMax bs
  match A.take s 2 with
  | none => .err .nospace
  | some (b, s') =>
    if mid > mx ∨ kids.length - mid > mx then .panic
    else if isRoot then
      match mkRoot [.index mx b depth (kids.take mid), .index mx (b + 1) depth (kids.drop mid)] with
      | .ok r => .ok (r, m + 2, s')
      | .err e => .err e
      | .panic => .panic
      | .weird => .weird
    else .err .unsupported

/-- position of the first pointer with block `d` (extendLeafNode's search for the pointer to replace) -/
def findDisk (kids : Kids) (d : Nat) : Option Nat :=
  let i := kids.findIdx (fun p => p.2.disk == d)
  if i < kids.length then some i else none

/-- `extendInternalNode(node, added, fs, parent)`; `fuel` = the depth of the node; `plist` = the parent's
    pointers (`none`: the node is the root in the inode). The node is the root iff it lives in no block. -/
def extendIx {σ : Type} (fx : Bool) (A : Allocator σ) (bs : Nat) :
    (fuel : Nat) → σ → Option (List (Nat × Nat)) → (max disk depth : Nat) → Kids → List Extent → Res (Node × Nat × σ)
  | 0, _, _, _, _, _, _, _ => .weird
  | fuel + 1, s, plist, max, disk, depth, kids, added =>
    match added with
    | [] => .panic                                   -- (*added)[0]
    | a0 :: _ =>
      if plist.isNone ≠ (disk == 0) then .weird       -- a root in a block / a node without a block
      else
      match findChild (kids.map (·.1)) a0.fileBlock with
      | none => .panic
      | some idx =>
        match kids[idx]? with
        | none => .panic
        | some (_, .leaf cmax cdisk cexts) =>
          if cdisk = 0 then .weird else
          if cexts.length + added.length ≤ cmax then
            -- appended in place and written back through the key lookup in this node
            let child' := Node.leaf cmax cdisk (cexts ++ added)
            match writeBack (some (kids.map fun p => (p.1, p.2.disk))) child'.firstKey cdisk with
            | .err e => .err e
            | .panic => .panic
            | .weird => .weird
            | .ok () =>
              let kids' := kids.set idx (child'.firstKey.getD 0, child')
              if kids'.length > max then .weird      -- an over-full node: splitInternalNode (never reached by the library's own trees)
              else
                match writeBack plist ((kids'.head?).map (·.1)) disk with
                | .err e => .err e
                | .panic => .panic
                | .weird => .weird
                | .ok () => .ok (.index max disk depth kids', 0, s)
          else if fx ∧ disk ≠ 0 ∧ kids.length + 1 > max then .err .unsupported   -- repaired: refused before anything is allocated
          else
            match splitLeaf fx A s bs cdisk (cexts ++ added) with
            | .err e => .err e
            | .panic => .panic
            | .weird => .weird
            | .ok (a, b, m, s') =>
              match findDisk kids cdisk with
              | none => .err .notfound
              | some j =>
                if j ≠ idx then .weird else
                match a.firstKey, b.firstKey with
                | some ka, some kb =>
                  let kids' := kids.take idx ++ [(ka, a), (kb, b)] ++ kids.drop (idx + 1)
                  -- the parent of the split leaf is written to its block (toBytes: room for `max` entries)
                  if disk ≠ 0 ∧ kids'.length > max then .panic
                  else if kids'.length > max then splitIndex A s' bs depth plist.isNone kids' m
                  else .ok (.index max disk depth kids', m, s')
                | _, _ => .panic
        | some (_, .index cmax cdisk cdepth ckids) =>
          if cdisk = 0 then .weird else
          match extendIx fx A bs fuel s (some (kids.map fun p => (p.1, p.2.disk))) cmax cdisk cdepth ckids added with
          | .err e => .err e
          | .panic => .panic
          | .weird => .weird
          | .ok (child', m, s') =>
            match child' with
            | .leaf _ _ _ => .weird
            | .index _ _ _ ck' =>
              match ck' with
              | [] => .panic
              | (k0, _) :: _ =>
                let kids' := kids.set idx (k0, child')
                if kids'.length > max then .weird
                else
                  match writeBack plist ((kids'.head?).map (·.1)) disk with
                  | .err e => .err e
                  | .panic => .panic
                  | .weird => .weird
                  | .ok () => .ok (.index max disk depth kids', m, s')

/-- `extendExtentTree(existing, added, fs, nil)`: `none` = no tree yet -/
def extend {σ : Type} (fx : Bool) (A : Allocator σ) (s : σ) (bs : Nat) (t : Option Node) (added : List Extent) : Res (Node × Nat × σ) :=
  match t with
  | none =>
    -- createRootExtentTree
    if added.length ≤ 4 then .ok (.leaf 4 0 added, 0, s) else .err .unsupported
  | some (.leaf max disk exts) => extendRootLeaf fx A s bs max disk exts added
  | some (.index max disk depth kids) => extendIx fx A bs depth s none max disk depth kids added

/-! ### the node codec (toBytes / parseExtents) -/

/-- `extentNodeHeader.toBytes`: magic, entries, max, depth, 4 bytes the library leaves zero -/
def encHeader (entries max depth : Nat) : Bytes :=
  leEnc 2 0xf30a ++ leEnc 2 entries ++ leEnc 2 max ++ leEnc 2 depth ++ zeros 4

/-- one leaf entry: ee_block, ee_len, ee_start_hi, ee_start_lo -/
def encExtent (e : Extent) : Bytes :=
  leEnc 4 e.fileBlock ++ leEnc 2 e.count ++ leEnc 2 (e.start / 4294967296 % 65536) ++ leEnc 4 (e.start % 4294967296)

/-- one index entry: ei_block, ei_leaf_lo, ei_leaf_hi, 2 unused bytes -/
def encPtr (key disk : Nat) : Bytes :=
  leEnc 4 key ++ leEnc 4 (disk % 4294967296) ++ leEnc 2 (disk / 4294967296 % 65536) ++ zeros 2

/-- `extentLeafNode.toBytes`: `none` when there are more entries than the buffer of 12+12*max bytes holds -/
def encLeaf (max : Nat) (es : List Extent) : Option Bytes :=
  if es.length ≤ max then
    some (encHeader es.length max 0 ++ (es.map encExtent).flatten ++ zeros (12 * (max - es.length)))
  else none

/-- `extentInternalNode.toBytes` -/
def encIndex (max depth : Nat) (ptrs : List (Nat × Nat)) : Option Bytes :=
  if ptrs.length ≤ max then
    some (encHeader ptrs.length max depth ++ (ptrs.map fun p => encPtr p.1 p.2).flatten ++ zeros (12 * (max - ptrs.length)))
  else none

def Node.encode : Node → Option Bytes
  | .leaf max _ es => encLeaf max es
  | .index max _ depth ks => encIndex max depth (ks.map fun p => (p.1, p.2.disk))

/-- what parseExtents returns: header fields and the entries (an index node's pointers, not the nodes below) -/
inductive Parsed where
  | leaf (max : Nat) (exts : List Extent)
  | index (max depth : Nat) (ptrs : List (Nat × Nat))
deriving Repr, DecidableEq

def decExtent (b : Bytes) : Extent :=
  ⟨leDec (slice b 0 4), leDec (slice b 8 12) + 4294967296 * leDec (slice b 6 8), leDec (slice b 4 6)⟩

def decPtr (b : Bytes) : Nat × Nat :=
  (leDec (slice b 0 4), leDec (slice b 4 8) + 4294967296 * leDec (slice b 8 10))

/-- the entries of a node, 12 bytes each, from byte 12 on -/
def decEntries {α : Type} (f : Bytes → α) : Nat → Bytes → List α
  | 0, _ => []
  | n + 1, b => f (b.take 12) :: decEntries f n (b.drop 12)

inductive PErr where
  | short | magic | entries
deriving Repr, DecidableEq

/-- `parseExtents` -/
def parseNode (b : Bytes) : Except PErr Parsed :=
  if b.length < 24 then .error .short
  else if leDec (slice b 0 2) ≠ 0xf30a then .error .magic
  else
    let entries := leDec (slice b 2 4)
    let max := leDec (slice b 4 6)
    let depth := leDec (slice b 6 8)
    if 12 + entries * 12 > b.length then .error .entries
    else if depth = 0 then .ok (.leaf max (decEntries decExtent entries (b.drop 12)))
    else .ok (.index max depth (decEntries decPtr entries (b.drop 12)))

end Diskfs.Ext4.ExtTree
