/-
  The read-modify-write path of the ext4 attribute setters (property C19): FileSystem.Chmod / Chown / Chtimes do
  readInode (inodeFromBytes) → change fields of the struct → writeInode (toBytes).  What the struct does not carry
  is lost in toBytes, which builds the record from zeros: as found the obsolete fragment address (0x70), the
  reserved half word 0x7e, everything from 0x98 on (high half of i_version, i_projid, the extended attributes
  stored in the inode body) and the flag bits inodeFlags has no field for.  Repaired (`keep`), toBytes starts from
  the record that was read.  The i_block area (0x28..0x64) is re-encoded from the parsed extent tree / block
  pointers / inline link target; on well-formed records that is the identity (checked by the correspondence, not
  modelled).  Core Lean only.
-/
import DiskfsModel.Model.Ext4.InodeAttrBytes
namespace Diskfs.Ext4.InodeCodec

/-- byte offsets of a record that toBytes (as found) leaves zero -/
def dropped (i : Nat) : Bool := (0x70 ≤ i && i < 0x74) || (0x7e ≤ i && i < 0x80) || 0x98 ≤ i

def zeroDropped (b : Bytes) : Bytes := (List.range b.length).map (fun i => if dropped i then 0 else b.getD i 0)

/-- the flag bits inodeFlags has a field for (the sum of the inodeFlag constants) -/
def knownFlags : Nat := 0x3D6FFFFF

/-- inodeFromBytes followed by toBytes, nothing changed in between (checksum halves aside) -/
def writeBack (keep : Bool) (b : Bytes) : Bytes :=
  if keep then b else putWord (zeroDropped b) 0x20 4 (getWord b 0x20 4 &&& knownFlags)

/-- the library's Chmod / Chown / Chtimes on a record: the setter's words replaced, then written back -/
def chmodRmw (keep : Bool) (b : Bytes) (perm : Nat) : Bytes := chmodBytes (writeBack keep b) perm
def chownRmw (keep : Bool) (b : Bytes) (uid gid : Option Nat) : Bytes := chownBytes (writeBack keep b) uid gid
def chtimesRmw (keep : Bool) (b : Bytes) (cr at' mt : Ts) : Bytes := chtimesBytes (writeBack keep b) cr at' mt

end Diskfs.Ext4.InodeCodec
