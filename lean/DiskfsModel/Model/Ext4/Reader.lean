/-
  Mirror of the read-side logic cores of filesystem/ext4 (property C20):

    extent.go      parseExtents, extentLeafNode.blocks, extentInternalNode.blocks
    directoryentry.go  directoryEntryFromBytes, parseDirEntriesLinear, parseDirEntriesHashed
    directory.go   parseDirectoryTreeRoot, parseDirectoryTreeNode
    xattr.go       parseXattrEntries
    superblock.go  superblockFromBytes (signature, checksum type, 64-bit halves, descriptor size)
    ext4.go        Read (which feature bits make it refuse), inodeFromBytes (minimum length)

  Defects found in the code are switches of `Cfg`; `Cfg.current` is built from facts regenerated
  from /repo on every run (Generated/Ext4Ref.lean), so the driver follows the tree as it is, and the
  theorems in Props/C20.lean are stated for every `Cfg` or for the repaired position of a switch.
  Core Lean only.
-/
import DiskfsModel.Core.Bytes
namespace Diskfs.Ext4.Reader

/-- outcome of a mirrored Go function: value, returned error, run-time panic, out of fuel -/
inductive Res (α : Type) where
  | ok (a : α)
  | err
  | panic
  | diverge
deriving Repr, DecidableEq

def Res.bind {α β : Type} : Res α → (α → Res β) → Res β
  | .ok a, f => f a
  | .err, _ => .err
  | .panic, _ => .panic
  | .diverge, _ => .diverge

def Res.map {α β : Type} (f : α → β) : Res α → Res β
  | .ok a => .ok (f a)
  | .err => .err
  | .panic => .panic
  | .diverge => .diverge

structure Cfg where
  /-- directoryEntryFromBytes computes the end of the name in `int` (repaired) rather than `uint8` (as found) -/
  dirNameLenWide : Bool
  /-- parseXattrEntries reports attributes whose value is empty (repaired) instead of dropping them -/
  xattrKeepEmpty : Bool
  /-- ext4.Read refuses an image without the extents feature -/
  gateRequiresExtents : Bool
  /-- ext4.Read refuses an image with inline_data -/
  gateRefusesInlineData : Bool
  /-- minimum number of bytes inodeFromBytes accepts -/
  inodeMinLen : Nat
deriving Repr, DecidableEq

def Cfg.fixed : Cfg := ⟨true, true, true, true, 128⟩
def Cfg.asFound : Cfg := ⟨false, false, false, false, 160⟩

/-! ### little-endian fields -/

def le16 (b : Bytes) (o : Nat) : Nat := leDec (slice b o (o + 2))
def le32 (b : Bytes) (o : Nat) : Nat := leDec (slice b o (o + 4))
def u8 (b : Bytes) (o : Nat) : Nat := (b.getD o 0).toNat

/-- `n ≤ b.length`, without walking the whole list -/
def hasLen (b : Bytes) (n : Nat) : Bool :=
  match n with
  | 0 => true
  | k + 1 => !(b.drop k).isEmpty

/-- 64-bit value from its on-disk halves -/
def compose32 (lo hi : Nat) : Nat := lo + hi * 4294967296
/-- 32-bit value from 16-bit halves (uid/gid) -/
def compose16 (lo hi : Nat) : Nat := lo + hi * 65536

/-! ### extent tree -/

structure Extent where
  fileBlock : Nat
  start : Nat
  count : Nat
deriving Repr, DecidableEq

inductive RawNode where
  | leaf (es : List Extent)
  | index (cs : List (Nat × Nat))   -- (first file block, disk block of the child)
deriving Repr

def leafEntry (b : Bytes) (i : Nat) : Extent :=
  let o := 12 + 12 * i
  ⟨le32 b o, compose32 (le32 b (o + 8)) (le16 b (o + 6)), le16 b (o + 4)⟩

def indexEntry (b : Bytes) (i : Nat) : Nat × Nat :=
  let o := 12 + 12 * i
  (le32 b o, compose32 (le32 b (o + 4)) (le16 b (o + 8)))

/-- parseExtents: one node from its bytes. -/
def parseNode (b : Bytes) : Res RawNode :=
  if b.length < 24 then .err
  else if le16 b 0 ≠ 0xf30a then .err
  else
    let entries := le16 b 2
    let depth := le16 b 6
    if 12 + 12 * entries > b.length then .panic
    else if depth = 0 then .ok (.leaf ((List.range entries).map (leafEntry b)))
    else .ok (.index ((List.range entries).map (indexEntry b)))

/-- extent trees of bounded depth: a node is a leaf or (below the bound) an index of keyed children -/
def TreeD : Nat → Type
  | 0 => List Extent
  | d + 1 => List Extent ⊕ List (Nat × TreeD d)

/-- in-order sequencing of fallible steps over a list -/
def mapRes {α β : Type} (f : α → Res β) : List α → Res (List β)
  | [] => .ok []
  | a :: as =>
    match f a with
    | .ok b =>
      match mapRes f as with
      | .ok bs => .ok (b :: bs)
      | .err => .err
      | .panic => .panic
      | .diverge => .diverge
    | .err => .err
    | .panic => .panic
    | .diverge => .diverge

/-- decode the tree below a node's bytes; `rd` reads one block (none: the read fails) -/
def decodeTree (rd : Nat → Option Bytes) : (d : Nat) → Bytes → Res (TreeD d)
  | 0, b =>
    match parseNode b with
    | .ok (.leaf es) => .ok es
    | .ok (.index _) => .diverge
    | .err => .err
    | .panic => .panic
    | .diverge => .diverge
  | d + 1, b =>
    match parseNode b with
    | .ok (.leaf es) => .ok (Sum.inl es)
    | .ok (.index cs) =>
      (mapRes (fun (c : Nat × Nat) =>
        match rd c.2 with
        | none => (Res.err : Res (Nat × TreeD d))
        | some cb => (decodeTree rd d cb).map fun t => (c.1, t)) cs).map Sum.inr
    | .err => .err
    | .panic => .panic
    | .diverge => .diverge

/-- extentBlockFinder.blocks: unravel the tree into one list, children in order -/
def mirrorBlocks : (d : Nat) → TreeD d → List Extent
  | 0, es => es
  | _ + 1, Sum.inl es => es
  | d + 1, Sum.inr cs => cs.flatMap fun c => mirrorBlocks d c.2

/-- what inodeFromBytes + blocks() compute from the 60 bytes in the inode -/
def flatten (rd : Nat → Option Bytes) (fuel : Nat) (root : Bytes) : Res (List Extent) :=
  (decodeTree rd fuel root).map (mirrorBlocks fuel)

/-- an extent whose length field is above 32768 is an unwritten (preallocated) extent of `count-32768`
    blocks: reserved for the file, holding no file data, reading as zeros -/
def Extent.unwritten (e : Extent) : Bool := decide (e.count > 32768)

/-- inode.extents.blocks(fs) as the callers see it. `refuse = true` (repaired): `extentLeafNode.blocks`
    returns an error for a leaf that holds an unwritten extent; `refuse = false` (as found): the length
    field is handed on as a plain block count. -/
def flattenC (refuse : Bool) (rd : Nat → Option Bytes) (fuel : Nat) (root : Bytes) : Res (List Extent) :=
  match flatten rd fuel root with
  | .ok es => if refuse && es.any Extent.unwritten then .err else .ok es
  | .err => .err
  | .panic => .panic
  | .diverge => .diverge

/-- the physical block of logical block `lb` in a flat extent list: the first extent containing it -/
def leafLookup (es : List Extent) (lb : Nat) : Option Nat :=
  match es.find? (fun e => decide (e.fileBlock ≤ lb ∧ lb < e.fileBlock + e.count)) with
  | some e => some (e.start + (lb - e.fileBlock))
  | none => none

/-- descend into the child whose key interval contains `lb` (what a search by key does) -/
def childLookup {α : Type} (look : α → Nat → Option Nat) : List (Nat × α) → Nat → Option Nat
  | [], _ => none
  | [(k, t)], lb => if k ≤ lb then look t lb else none
  | (k, t) :: (k', t') :: rest, lb =>
    if k ≤ lb ∧ lb < k' then look t lb else childLookup look ((k', t') :: rest) lb

/-- specification of the mapping: search the tree from the root -/
def specLookup : (d : Nat) → TreeD d → Nat → Option Nat
  | 0, es, lb => leafLookup es lb
  | _ + 1, Sum.inl es, lb => leafLookup es lb
  | d + 1, Sum.inr cs, lb => childLookup (specLookup d) cs lb

/-- spec of a file's bytes given the block mapping: unmapped blocks below EOF read as zero -/
def fileByte (look : Nat → Option Nat) (dev : Dev) (bs size p : Nat) : Option UInt8 :=
  if p < size then
    match look (p / bs) with
    | some phys => some (dev (phys * bs + p % bs))
    | none => some 0
  else none

/-! ### directories -/

structure DirEnt where
  inode : Nat
  ftype : Nat
  name : Bytes
deriving Repr, DecidableEq

/-- the rec_len walk of parseDirEntriesLinear over the remaining bytes `r` -/
def parseEntries (cfg : Cfg) : Nat → Bytes → Res (List DirEnt)
  | 0, _ => .diverge
  | f + 1, r =>
    if r.isEmpty then .ok []
    else if !hasLen r 6 then .panic
    else
      let len := le16 r 4
      if !hasLen r len then .panic
      else if len < 12 then .err
      else
        let nl := u8 r 6
        let hi := if cfg.dirNameLenWide then 8 + nl else (8 + nl) % 256
        if hi < 8 then .panic
        else if !hasLen r hi then .panic
        else
          let e : DirEnt := ⟨le32 r 0, u8 r 7, slice r 8 hi⟩
          match parseEntries cfg f (r.drop len) with
          | .ok es => .ok (e :: es)
          | .err => .err
          | .panic => .panic
          | .diverge => .diverge

/-- with metadata_csum every block loses its 12-byte tail before the walk -/
def stripTails : Nat → Nat → Bytes → Res Bytes
  | 0, _, _ => .diverge
  | f + 1, bs, b =>
    if b.isEmpty then .ok []
    else if !hasLen b bs then .panic
    else
      match stripTails f bs (b.drop bs) with
      | .ok rest => .ok (b.take (bs - 12) ++ rest)
      | .err => .err
      | .panic => .panic
      | .diverge => .diverge

def parseLinear (cfg : Cfg) (csum : Bool) (bs : Nat) (b : Bytes) : Res (List DirEnt) :=
  if csum then
    if bs < 12 then .panic
    else (stripTails (b.length + 1) bs b).bind fun nb => parseEntries cfg (nb.length + 1) nb
  else parseEntries cfg (b.length + 1) b

/-- dx entries (block numbers) of a node whose count field is at `cntOff` and first block at `cntOff+2` -/
def dxBlocks (b : Bytes) (cntOff : Nat) : Res (List Nat) :=
  let n := le16 b cntOff
  let first := le32 b (cntOff + 2)
  if n ≥ 2 ∧ cntOff + 6 + 8 * (n - 1) > b.length then .panic
  else .ok (first :: (List.range (n - 1)).map fun i => le32 b (cntOff + 6 + 8 * i + 4))

/-- parseDirectoryTreeRoot: depth and child blocks -/
def dxRoot (b : Bytes) (largeDir : Bool) : Res (Nat × List Nat) :=
  if b.length < 0x28 then .err
  else if le16 b 4 ≠ 12 then .err
  else if u8 b 6 ≠ 1 then .err
  else if u8 b 7 ≠ 2 then .err
  else if slice b 8 12 ≠ [46, 0, 0, 0] then .err
  else if u8 b 0x12 ≠ 2 then .err
  else if u8 b 0x13 ≠ 2 then .err
  else if slice b 0x14 0x18 ≠ [46, 46, 0, 0] then .err
  else if u8 b 0x1d ≠ 8 then .err
  else if u8 b 0x1e > (if largeDir then 3 else 2) then .err
  else (dxBlocks b 0x22).map fun bl => (u8 b 0x1e, bl)

/-- parseDirectoryTreeNode -/
def dxNode (b : Bytes) : Res (List Nat) :=
  if b.length < 0x12 then .err else dxBlocks b 0xa

def concatRes {α β : Type} (f : α → Res (List β)) (xs : List α) : Res (List β) :=
  (mapRes f xs).map List.flatten

/-- one directory block of the file, parsed as a linear block (`b[start:end]` panics past the data) -/
def leafAt (cfg : Cfg) (csum : Bool) (bs : Nat) (data : Bytes) (blk : Nat) : Res (List DirEnt) :=
  if blk * bs + bs > data.length then .panic
  else parseLinear cfg csum bs (slice data (blk * bs) (blk * bs + bs))

/-- one directory block parsed as an interior dx node: its child blocks -/
def nodeAt (bs : Nat) (data : Bytes) (blk : Nat) : Res (List Nat) :=
  if blk * bs + bs > data.length then .panic
  else dxNode (slice data (blk * bs) (blk * bs + bs))

/-- parseDirEntriesHashed: visit the dx entries in order; at depth 0 a block is a linear block -/
def parseHashed (cfg : Cfg) (csum : Bool) (bs : Nat) (data : Bytes) : Nat → List Nat → Res (List DirEnt)
  | 0, blks => concatRes (leafAt cfg csum bs data) blks
  | d + 1, blks => concatRes (fun blk => (nodeAt bs data blk).bind (parseHashed cfg csum bs data d)) blks

/-- the leaf blocks the hash tree reaches, in visiting order -/
def leafBlocks (bs : Nat) (data : Bytes) : Nat → List Nat → Res (List Nat)
  | 0, blks => .ok blks
  | d + 1, blks => concatRes (fun blk => (nodeAt bs data blk).bind (leafBlocks bs data d)) blks

/-- the hashed branch of readDirectory (without the two dot entries) -/
def parseHashedDir (cfg : Cfg) (csum largeDir : Bool) (bs : Nat) (data : Bytes) : Res (Nat × List DirEnt) :=
  if data.length < bs then .panic
  else (dxRoot (data.take bs) largeDir).bind fun (depth, blks) =>
    (parseHashed cfg csum bs data depth blks).map fun es => (depth, es)

/-! ### extended attributes -/

def natDigits (n : Nat) : Bytes := (toString n).toUTF8.toList

def xattrPrefix (tbl : List (Nat × String)) (idx : Nat) : Bytes :=
  match tbl.find? (fun p => p.1 == idx) with
  | some p => p.2.toUTF8.toList
  | none => "unknown_".toUTF8.toList ++ natDigits idx ++ ".".toUTF8.toList

/-- map insert (a later entry with the same name replaces the earlier one) -/
def xaInsert (m : List (Bytes × Bytes)) (k v : Bytes) : List (Bytes × Bytes) :=
  (m.filter fun p => p.1 ≠ k) ++ [(k, v)]

def parseXattrs (cfg : Cfg) (tbl : List (Nat × String)) (entries values : Bytes) :
    Nat → Nat → List (Bytes × Bytes) → Res (List (Bytes × Bytes))
  | 0, _, _ => .diverge
  | f + 1, pos, acc =>
    if pos + 16 > entries.length then .ok acc
    else
      let nameLen := u8 entries pos
      let idx := u8 entries (pos + 1)
      if nameLen = 0 ∧ idx = 0 then .ok acc
      else
        let offs := le16 entries (pos + 2)
        let inum := le32 entries (pos + 4)
        let size := le32 entries (pos + 8)
        let nameEnd := pos + 16 + nameLen
        if nameEnd > entries.length then .err
        else
          let full := xattrPrefix tbl idx ++ slice entries (pos + 16) nameEnd
          if inum ≠ 0 then .err
          else if size > 0 ∧ offs + size > values.length then .err
          else
            let acc' := if size > 0 then xaInsert acc full (slice values offs (offs + size))
                        else if cfg.xattrKeepEmpty then xaInsert acc full [] else acc
            parseXattrs cfg tbl entries values f ((nameEnd + 3) / 4 * 4) acc'

/-! ### superblock -/

structure SbInfo where
  blocks : Nat
  gdSize : Nat
  compat : Nat
  incompat : Nat
  roCompat : Nat
deriving Repr, DecidableEq

def incompatExtents : Nat := 0x40
def incompat64Bit : Nat := 0x80
def incompatInlineData : Nat := 0x8000
def roCompatMetadataCsum : Nat := 0x400

def hasBit (flags bit : Nat) : Bool := flags / bit % 2 = 1

/-- superblockFromBytes, as far as acceptance and the composed numbers go.
    `csumOk`: the stored crc32c equals the computed one (only consulted with metadata_csum). -/
def sbDecode (csumOk : Bool) (b : Bytes) : Option SbInfo :=
  if le16 b 0x38 ≠ 0xef53 then none
  else
    let compat := le32 b 0x5c
    let incompat := le32 b 0x60
    let ro := le32 b 0x64
    let is64 := hasBit incompat incompat64Bit
    let blocks := if is64 then compose32 (le32 b 0x4) (le32 b 0x150) else le32 b 0x4
    let gds := if is64 then le16 b 0xfe else 32
    if u8 b 0x175 ≠ 1 then none
    else if hasBit ro roCompatMetadataCsum ∧ !csumOk then none
    else some ⟨blocks, gds, compat, incompat, ro⟩

/-- which feature words make ext4.Read refuse after the superblock decoded -/
def gateAccepts (cfg : Cfg) (incompat : Nat) : Bool :=
  !(cfg.gateRequiresExtents && !hasBit incompat incompatExtents) &&
  !(cfg.gateRefusesInlineData && hasBit incompat incompatInlineData)

/-- inodeFromBytes' length check -/
def inodeLenAccepted (cfg : Cfg) (len : Nat) : Bool := cfg.inodeMinLen ≤ len

end Diskfs.Ext4.Reader
