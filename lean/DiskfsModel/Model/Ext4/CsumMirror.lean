/-
  Property C20, checksum VERIFICATION decisions of the Go reader (mirrors), to be compared with the SPEC reader's
  (ImageSpec: openFs, gdRead, dirTailOk; the inode's is in InodeDecode.lean):

    superblock.go   superblockFromBytes: crc32c(0xffffffff, b[0:0x3fc]) against le32 b[0x3fc]; the checksum seed is
                    s_checksum_seed when that field is not zero, crc32c(0xffffffff, uuid) otherwise
    groupdescriptors.go  groupDescriptorFromBytes / groupDescriptorChecksum (metadata_csum): crc32c(seed, group
                    number as 16 bits in a 4-byte buffer, descriptor with bytes 0x1e/0x1f cleared), low 16 bits,
                    over 64 bytes when the descriptor size is 64 and over 32 bytes otherwise
    directoryentry.go    parseDirEntriesLinear with checksums: crc32c(seed, le32 inode, le32 generation,
                    block without its last 12 bytes) against le32 of the last 4 bytes of the block
  Core Lean only.
-/
import DiskfsModel.Model.Ext4.InodeDecode
namespace Diskfs.Ext4.InodeDec
open Diskfs Diskfs.Ext4.Reader Diskfs.Ext4.Spec

/-- superblockFromBytes: the stored checksum is crc32c of the 0x3fc bytes in front of it -/
def goSbCsumOk (sb : Bytes) : Bool := (crc32c 0xFFFFFFFF (sb.take 0x3fc)).toNat == le32 sb 0x3fc

/-- the seed superblockFromBytes uses for every other checksum -/
def goSeed (sb : Bytes) : UInt32 :=
  if le32 sb 0x270 ≠ 0 then UInt32.ofNat (le32 sb 0x270) else crc32c 0xFFFFFFFF (slice sb 0x68 0x78)

/-- the seed of the format: s_checksum_seed with the csum_seed feature, crc32c of the UUID without -/
def specSeed (csumSeedFeature : Bool) (sb : Bytes) : UInt32 :=
  if csumSeedFeature then UInt32.ofNat (le32 sb 0x270) else crc32c 0xFFFFFFFF (slice sb 0x68 0x78)

/-- a descriptor with its checksum field cleared -/
def clearGd (raw : Bytes) : Bytes := raw.mapIdx fun k x => if k == 0x1e || k == 0x1f then 0 else x

/-- groupDescriptorFromBytes with metadata_csum (`raw` = the descriptor, gdSize bytes) -/
def goGdCsumOk (seed : UInt32) (grp gdSize : Nat) (raw : Bytes) : Bool :=
  let input := if gdSize = 64 then raw.take 64 else raw.take 32
  let c := crc32c (crc32c seed (leEnc 2 (grp % 65536) ++ [0, 0])) (clearGd input)
  c.toNat % 65536 == le16 raw 0x1e

/-- the format (ext4_group_desc_csum with metadata_csum): the whole descriptor, the group number as 32 bits -/
def specGdCsumOk (seed : UInt32) (grp : Nat) (raw : Bytes) : Bool :=
  (crc32c (crc32c seed (le32Bytes grp)) (clearGd raw)).toNat % 65536 == le16 raw 0x1e

/-- parseDirEntriesLinear with checksums, one block -/
def goDirCsumOk (seed : UInt32) (ino gen bs : Nat) (blk : Bytes) : Bool :=
  (crc32c (crc32c (crc32c seed (le32Bytes ino)) (le32Bytes gen)) (blk.take (bs - 12))).toNat == le32 blk (bs - 4)

end Diskfs.Ext4.InodeDec
