/-
  Mirror of the attribute part of the ext4 inode codec (property C19):
    inode.go  toBytes / inodeFromBytes / permissionsToMode, and the fields the
    setters Chmod / Chown / Chtimes change.
  An inode is encoded into the on-disk *words* (value of each little-endian
  field); the byte layout of a word is `leEnc`/`leDec` (Core/Bytes.lean) at the
  offsets listed in `wordOffsets`.  Core Lean only.
-/
import DiskfsModel.Core.Bytes
namespace Diskfs.Ext4.InodeCodec

/-- a timestamp as the API sees it: seconds since the epoch (may be negative) and nanoseconds -/
structure Ts where
  sec : Int
  nsec : Nat
deriving Repr, DecidableEq

/-- the attributes C19 is about -/
structure Attrs where
  ftype : Nat      -- file type nibble, 1..12 (fifo 1, chr 2, dir 4, blk 6, reg 8, lnk 10, sock 12)
  perm : Nat       -- 12 bits: rwxrwxrwx, sticky 0o1000, setgid 0o2000, setuid 0o4000
  uid : Nat
  gid : Nat
  size : Nat
  links : Nat
  flags : Nat
  atime : Ts
  ctime : Ts
  mtime : Ts
  crtime : Ts
deriving Repr, DecidableEq

/-- the on-disk words -/
structure Words where
  mode : Nat       -- 0x00, 16 bit
  uidLo : Nat      -- 0x02
  sizeLo : Nat     -- 0x04
  atimeLo : Nat    -- 0x08
  ctimeLo : Nat    -- 0x0c
  mtimeLo : Nat    -- 0x10
  gidLo : Nat      -- 0x18
  links : Nat      -- 0x1a
  flags : Nat      -- 0x20
  sizeHi : Nat     -- 0x6c
  uidHi : Nat      -- 0x78
  gidHi : Nat      -- 0x7a
  ctimeExtra : Nat -- 0x84
  mtimeExtra : Nat -- 0x88
  atimeExtra : Nat -- 0x8c
  crtimeLo : Nat   -- 0x90
  crtimeExtra : Nat -- 0x94
deriving Repr, DecidableEq

def wordOffsets : List (String × Nat × Nat) :=
  [("mode", 0x0, 2), ("uidLo", 0x2, 2), ("sizeLo", 0x4, 4), ("atimeLo", 0x8, 4), ("ctimeLo", 0xc, 4),
   ("mtimeLo", 0x10, 4), ("gidLo", 0x18, 2), ("links", 0x1a, 2), ("flags", 0x20, 4), ("sizeHi", 0x6c, 4),
   ("uidHi", 0x78, 2), ("gidHi", 0x7a, 2), ("ctimeExtra", 0x84, 4), ("mtimeExtra", 0x88, 4),
   ("atimeExtra", 0x8c, 4), ("crtimeLo", 0x90, 4), ("crtimeExtra", 0x94, 4)]

/-- low 32 bits of the seconds, as the unsigned word written to disk -/
def tsLo (t : Ts) : Nat := (t.sec % 4294967296).toNat

/-- the signed 32-bit truncation `int32(sec)` -/
def lowSigned (sec : Int) : Int := (sec + 2147483648) % 4294967296 - 2147483648

/-- extra word: nanoseconds << 2 | epoch bits, epoch = ((sec - int32(sec)) >> 32) & 3 (kernel formula) -/
def tsExtra (t : Ts) : Nat :=
  (t.nsec * 4 % 4294967296) + ((t.sec - lowSigned t.sec) / 4294967296 % 4).toNat

/-- decode: int32(lo) + (extra & 3) << 32, nanoseconds = extra >> 2 -/
def tsDec (lo extra : Nat) : Ts :=
  ⟨lowSigned (lo : Int) + ((extra % 4 : Nat) : Int) * 4294967296, extra / 4⟩

def enc (a : Attrs) : Words where
  mode := (a.ftype * 4096 + a.perm) % 65536
  uidLo := a.uid % 65536
  uidHi := a.uid / 65536 % 65536
  gidLo := a.gid % 65536
  gidHi := a.gid / 65536 % 65536
  sizeLo := a.size % 4294967296
  sizeHi := a.size / 4294967296 % 4294967296
  links := a.links % 65536
  flags := a.flags % 4294967296
  atimeLo := tsLo a.atime
  atimeExtra := tsExtra a.atime
  ctimeLo := tsLo a.ctime
  ctimeExtra := tsExtra a.ctime
  mtimeLo := tsLo a.mtime
  mtimeExtra := tsExtra a.mtime
  crtimeLo := tsLo a.crtime
  crtimeExtra := tsExtra a.crtime

def dec (w : Words) : Attrs where
  ftype := w.mode / 4096
  perm := w.mode % 4096
  uid := w.uidLo + w.uidHi * 65536
  gid := w.gidLo + w.gidHi * 65536
  size := w.sizeLo + w.sizeHi * 4294967296
  links := w.links
  flags := w.flags
  atime := tsDec w.atimeLo w.atimeExtra
  ctime := tsDec w.ctimeLo w.ctimeExtra
  mtime := tsDec w.mtimeLo w.mtimeExtra
  crtime := tsDec w.crtimeLo w.crtimeExtra

def TsWF (t : Ts) : Prop := -2147483648 ≤ t.sec ∧ t.sec < 15032385536 ∧ t.nsec < 1000000000

def AttrsWF (a : Attrs) : Prop :=
  a.ftype < 16 ∧ a.perm < 4096 ∧ a.uid < 4294967296 ∧ a.gid < 4294967296 ∧
  a.size < 18446744073709551616 ∧ a.links < 65536 ∧ a.flags < 4294967296 ∧
  TsWF a.atime ∧ TsWF a.ctime ∧ TsWF a.mtime ∧ TsWF a.crtime

/-! the setters of the API, on attributes -/
def chmod (a : Attrs) (perm : Nat) : Attrs := { a with perm := perm }
def chown (a : Attrs) (uid gid : Option Nat) : Attrs :=
  { a with uid := uid.getD a.uid, gid := gid.getD a.gid }
/-- ext4.Chtimes(p, ctime, atime, mtime) stores its first argument as the creation time -/
def chtimes (a : Attrs) (cr at' mt : Ts) : Attrs := { a with crtime := cr, atime := at', mtime := mt }

/-- the kind Stat reports from the type nibble -/
inductive Kind | fifo | chr | dir | blk | reg | lnk | sock | other
deriving Repr, DecidableEq

def kindOf (ftype : Nat) : Kind :=
  match ftype with
  | 1 => .fifo | 2 => .chr | 4 => .dir | 6 => .blk | 8 => .reg | 10 => .lnk | 12 => .sock | _ => .other

def kindCode : Kind → Nat
  | .fifo => 1 | .chr => 2 | .dir => 4 | .blk => 6 | .reg => 8 | .lnk => 10 | .sock => 12 | .other => 0

/-- the os.FileMode value Stat reports (permissionsToMode): rwx bits, setuid 1<<23, setgid 1<<22,
    sticky 1<<20 and the type bits of Go's fs.FileMode -/
def statMode (ftype perm : Nat) : Nat :=
  perm % 512 + (if perm / 2048 % 2 = 1 then 8388608 else 0) + (if perm / 1024 % 2 = 1 then 4194304 else 0) +
  (if perm / 512 % 2 = 1 then 1048576 else 0) +
  (match ftype with
   | 4 => 2147483648 | 10 => 134217728 | 2 => 67108864 + 2097152 | 6 => 67108864
   | 1 => 33554432 | 12 => 16777216 | _ => 0)

/-- read a word out of inode bytes -/
def getWord (b : Bytes) (off width : Nat) : Nat := leDec (slice b off (off + width))

end Diskfs.Ext4.InodeCodec
