/-
  Ownership on top of the ext4 accounting machine (Model/Ext4/Alloc.lean): which file owns which marked block.

  The machine of Alloc.lean keeps bitmaps and counters; its Remove / deallocateExtents operations carry a guard
  ("the blocks are marked, pairwise distinct") that the code itself does not check - it trusts the inode. This layer
  adds what makes the guard true: every file has the list of the blocks it owns (data blocks and the node blocks of
  its extent tree: `metaBlocks` of extendExtentTree, which File.Write adds to i_blocks), a file grows by the blocks
  of one allocateExtents answer at a time, and Remove releases exactly what the file owns.
-/
import DiskfsModel.Model.Ext4.Alloc
namespace Diskfs.Ext4.Alloc

/-- the block bitmap bit of block `b` (absolute block number): `none` outside the groups -/
def bitOf (geo : Geom) (s : Acc) (b : Nat) : Option Bool :=
  match s.groups[(b - geo.fdb) / geo.bpg]? with
  | some g => g.bbm[(b - geo.fdb) % geo.bpg]?
  | none => none

/-- the blocks (absolute numbers) of one run: group, position in the group, count -/
def runBlocks (geo : Geom) (r : Run) : List Nat := List.range' (geo.fdb + r.1 * geo.bpg + r.2.1) r.2.2

/-- every group's block bitmap has at most blocksPerGroup bits (so that a bit names one block) -/
def WF (geo : Geom) (s : Acc) : Prop := 0 < geo.bpg ∧ ∀ g ∈ s.groups, g.bbm.length ≤ geo.bpg

/-- a file: its inode number, the blocks it owns (data blocks and the node blocks of its extent tree, absolute
    block numbers) and its i_blocks count (in filesystem blocks) -/
structure FileRec where
  ino : Nat
  blocks : List Nat
  iblocks : Nat
deriving Repr, DecidableEq

structure Own where
  acc : Acc
  files : List FileRec
deriving Repr, DecidableEq

def ownedBlocks (o : Own) : List Nat := o.files.flatMap (·.blocks)

inductive OOp where
  | create (ino : Nat) (isDir : Bool)                  -- allocateInode; the new file owns nothing
  | grow (i : Nat) (n : Nat) (runs : List Run)         -- allocateExtents(n blocks) answered with `runs` for file number i:
                                                       -- data blocks of a write, or node blocks of its extent tree
  | remove (i : Nat) (isDir : Bool)                    -- Remove of file number i: releases every block it owns
deriving Repr, DecidableEq

/-- one operation; a refused call leaves everything as it was -/
def ostep (geo : Geom) (o : Own) : OOp → Own
  | .create ino isDir =>
    match allocInode o.acc isDir with
    | .ok acc' => ⟨acc', o.files ++ [⟨ino, [], 0⟩]⟩
    | .refused _ => o
  | .grow i n runs =>
    match o.files[i]?, allocExtents o.acc n (some runs) with
    | some f, .ok acc' =>
      ⟨acc', o.files.set i { f with blocks := f.blocks ++ runs.flatMap (runBlocks geo), iblocks := f.iblocks + n }⟩
    | _, _ => o
  | .remove i isDir =>
    match o.files[i]? with
    | some f =>
      match removeOp geo o.acc f.ino f.blocks isDir with
      | .ok acc' => ⟨acc', o.files.eraseIdx i⟩
      | .refused _ => o
    | none => o

/-- counters = bitmaps, and every file owns its blocks: all owned blocks are pairwise distinct (no block belongs to
    two files, or twice to one) and marked in the block bitmaps, and i_blocks counts exactly the owned blocks -/
def OwnInv (geo : Geom) (o : Own) : Prop :=
  AccInv o.acc ∧ WF geo o.acc ∧ (ownedBlocks o).Nodup ∧ (∀ b ∈ ownedBlocks o, blockMarked geo o.acc b = true) ∧
    ∀ f ∈ o.files, f.iblocks = f.blocks.length


instance (geo : Geom) (s : Acc) : Decidable (WF geo s) := by unfold WF; infer_instance
instance (geo : Geom) (o : Own) : Decidable (OwnInv geo o) := by unfold OwnInv; infer_instance

end Diskfs.Ext4.Alloc
