/-
  The attribute setters of ext4 on the whole inode record (property C19).

  Model/Ext4/InodeCodec.lean gives the attribute words; here they sit at their byte offsets inside the
  inode record (256 bytes on the images the library makes) and Chmod / Chown / Chtimes are functions on
  the record: FileSystem.Chmod etc. read the inode, change the fields and write the inode back, and the
  record that comes back differs from the one read only in the setter's words (and in the two checksum
  fields 0x7c / 0x82, which are not modelled: `blankCsum`).  Core Lean only.
-/
import DiskfsModel.Model.Ext4.InodeCodec
namespace Diskfs.Ext4.InodeCodec

/-- overwrite the `width`-byte little-endian field at `off` -/
def putWord (b : Bytes) (off width v : Nat) : Bytes := put b off (leEnc width v)

/-- the attribute words of an inode record, read at the offsets of `wordOffsets` -/
def wordsOf (b : Bytes) : Words where
  mode := getWord b 0x0 2
  uidLo := getWord b 0x2 2
  sizeLo := getWord b 0x4 4
  atimeLo := getWord b 0x8 4
  ctimeLo := getWord b 0xc 4
  mtimeLo := getWord b 0x10 4
  gidLo := getWord b 0x18 2
  links := getWord b 0x1a 2
  flags := getWord b 0x20 4
  sizeHi := getWord b 0x6c 4
  uidHi := getWord b 0x78 2
  gidHi := getWord b 0x7a 2
  ctimeExtra := getWord b 0x84 4
  mtimeExtra := getWord b 0x88 4
  atimeExtra := getWord b 0x8c 4
  crtimeLo := getWord b 0x90 4
  crtimeExtra := getWord b 0x94 4

/-- the attributes Stat reports from an inode record -/
def attrsOf (b : Bytes) : Attrs := dec (wordsOf b)

/-- the record has room for every attribute word (0x94 + 4) -/
def RecordWF (b : Bytes) : Prop := 0x98 ≤ b.length

/-- Chmod: the twelve permission bits of the mode word; the type nibble stays -/
def chmodBytes (b : Bytes) (perm : Nat) : Bytes :=
  putWord b 0x0 2 ((getWord b 0x0 2 / 4096 * 4096 + perm) % 65536)

/-- Chown: the four id words; `none` (-1 in the API) keeps the stored value -/
def chownBytes (b : Bytes) (uid gid : Option Nat) : Bytes :=
  let u := uid.getD (attrsOf b).uid
  let g := gid.getD (attrsOf b).gid
  putWord (putWord (putWord (putWord b 0x2 2 (u % 65536)) 0x78 2 (u / 65536 % 65536)) 0x18 2 (g % 65536))
    0x7a 2 (g / 65536 % 65536)

/-- Chtimes(p, ctime, atime, mtime): the first argument is stored as the creation time -/
def chtimesBytes (b : Bytes) (cr at' mt : Ts) : Bytes :=
  putWord (putWord (putWord (putWord (putWord (putWord b 0x8 4 (tsLo at')) 0x8c 4 (tsExtra at'))
    0x10 4 (tsLo mt)) 0x88 4 (tsExtra mt)) 0x90 4 (tsLo cr)) 0x94 4 (tsExtra cr)

/-- the two halves of the inode checksum blanked (crc32c over the record; not modelled) -/
def blankCsum (b : Bytes) : Bytes := putWord (putWord b 0x7c 2 0) 0x82 2 0

end Diskfs.Ext4.InodeCodec
