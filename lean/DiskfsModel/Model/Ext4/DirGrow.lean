/-
  writeDirectory's decision about the blocks of a directory (filesystem/ext4/ext4.go, as it is after fix 6eec1b8),
  expressed on the accounting machine of Model/Ext4/Alloc.lean:

    required := ceil(len(dirBytes) / blockSize);  have := extents.blockCount()
    required < have   the entries need fewer blocks than the directory owns: empty directory blocks are appended
                      to dirBytes, nothing is allocated, the extent list stays                           (padded)
    required = have   written in place                                                                    (inplace)
    required > have   newExtents := allocateExtents(len(dirBytes), &extents)     -- required - have blocks, file
                                                                                 -- blocks numbered on from have
                      combined   := mergeExtents(extents ++ newExtents)
                      len(combined) ≤ 4: the inode's leaf becomes `combined`                              (grown)
                      len(combined) > 4: fresh := allocateExtents(len(dirBytes), nil)   -- `required` blocks from 0
                                         error when that fails                      -- AFTER newExtents were taken
                                         error when len(fresh) > 4                  -- AFTER both were taken
                                         deallocateExtents(combined); the leaf becomes `fresh`            (relocated)

  The policy of allocateExtents (which blocks) is an input: `pol s n` is its answer for `n` blocks in state `s`
  (`none`: no room); the machine (`Alloc.allocExtents`) accepts an answer made of free, disjoint runs with `n`
  blocks in all.  The driver instantiates `pol` with `Alloc.allocPolicy`; the theorems hold for every `pol`.

  `mergeExtents` is mirrored with its uint16 arithmetic (`current.count += next.count` wraps at 65536).  sort.Slice
  by fileBlock is mirrored by a stable insertion sort: the two agree on lists without two extents at the same file
  block (sort.Slice leaves the order among equal keys open).

  A refused call returns the error and leaves behind what had been done: `orphans` lists the blocks the call has
  marked and taken out of the counters that belong to no inode afterwards (the directory's inode still lists the
  old extents).
-/
import DiskfsModel.Model.Ext4.FileIO
import DiskfsModel.Model.Ext4.Alloc
namespace Diskfs.Ext4.DirGrow
open Diskfs.Ext4 Diskfs.Ext4.Alloc

/-- `count` blocks from (file block, disk block) on -/
def run : (fb start count : Nat) → List (Nat × Nat)
  | _, _, 0 => []
  | fb, start, c + 1 => (fb, start) :: run (fb + 1) (start + 1) c

/-- the single blocks of an extent list as (file block, disk block), in list order -/
def blocksOf (es : List Extent) : List (Nat × Nat) := es.flatMap fun e => run e.fileBlock e.start e.count

def diskBlocks (es : List Extent) : List Nat := (blocksOf es).map (·.2)

/-- insert in front of the first extent that does not start at a lower file block -/
def insertE (e : Extent) : List Extent → List Extent
  | [] => [e]
  | x :: xs => if e.fileBlock ≤ x.fileBlock then e :: x :: xs else x :: insertE e xs

/-- sort.Slice(es, fileBlock <) -/
def sortE : List Extent → List Extent
  | [] => []
  | e :: es => insertE e (sortE es)

/-- the loop of mergeExtents: `cur` is `current`; the result is `out` from here on -/
def mergeLoop (cur : Extent) : List Extent → List Extent
  | [] => [cur]
  | next :: rest =>
    if cur.fileBlock + cur.count = next.fileBlock ∧ cur.start + cur.count = next.start then
      mergeLoop { cur with count := (cur.count + next.count) % 65536 } rest
    else cur :: mergeLoop next rest

def mergeExtents (es : List Extent) : List Extent :=
  if es.length < 2 then es
  else match sortE es with
    | [] => []
    | e :: rest => mergeLoop e rest

/-- the extents allocateExtents returns for the runs it took: file blocks numbered on from `fb0` -/
def extentsOfRuns (geo : Geom) : (fb0 : Nat) → List Run → List Extent
  | _, [] => []
  | fb0, r :: rs => ⟨fb0, geo.fdb + r.1 * geo.bpg + r.2.1, r.2.2⟩ :: extentsOfRuns geo (fb0 + r.2.2) rs

/-- one call of allocateExtents that needs `n > 0` more blocks behind `allocated` file blocks: the new state and
    the extents it returns; `none`: refused, nothing has changed (`alloc_refused_unchanged`) -/
def allocCall (geo : Geom) (pol : Acc → Nat → Option (List Run)) (s : Acc) (allocated n : Nat) :
    Option (Acc × List Extent) :=
  match pol s n, allocExtents s n (pol s n) with
  | some rs, .ok s' => some (s', extentsOfRuns geo allocated rs)
  | _, _ => none

inductive Kind where
  | padded          -- fewer blocks required than owned
  | inplace
  | grown
  | relocated
  | refusedExtra    -- no blocks for the extra part: nothing has changed
  | refusedFresh    -- relocation: the fresh allocation failed AFTER the extra blocks were taken
  | refusedMany     -- relocation: the fresh allocation has more than 4 extents, AFTER extra and fresh blocks were taken
  | guard           -- outside the machine: a block to be released is not marked (deallocateExtents does not look)
deriving Repr, DecidableEq

structure Out where
  kind : Kind
  extents : List Extent    -- the directory's extent list afterwards
  state : Acc
  orphans : List Nat       -- blocks this call marked that belong to no inode afterwards
deriving Repr, DecidableEq

def requiredBlocks (bs nbytes : Nat) : Nat := (nbytes + bs - 1) / bs

/-- writeDirectory(parentInode, dirBytes): `old` = parentInode.extents.blocks(), `nbytes` = len(dirBytes) -/
def writeDir (geo : Geom) (pol : Acc → Nat → Option (List Run)) (bs : Nat) (s : Acc) (old : List Extent)
    (nbytes : Nat) : Out :=
  let required := requiredBlocks bs nbytes
  if required < blockCount old then ⟨.padded, old, s, []⟩
  else if required = blockCount old then ⟨.inplace, old, s, []⟩
  else
    match allocCall geo pol s (blockCount old) (required - blockCount old) with
    | none => ⟨.refusedExtra, old, s, []⟩
    | some (s1, extra) =>
      if (mergeExtents (old ++ extra)).length ≤ 4 then ⟨.grown, mergeExtents (old ++ extra), s1, []⟩
      else
        match allocCall geo pol s1 0 required with
        | none => ⟨.refusedFresh, old, s1, diskBlocks extra⟩
        | some (s2, fresh) =>
          if fresh.length > 4 then ⟨.refusedMany, old, s2, diskBlocks extra ++ diskBlocks fresh⟩
          else
            match freeBlocksOp geo s2 (diskBlocks (mergeExtents (old ++ extra))) with
            | .ok s3 => ⟨.relocated, fresh, s3, []⟩
            | .refused _ => ⟨.guard, old, s2, []⟩

/-- file blocks contiguous from `k` on (what the library's own lists look like, with `k = 0`) -/
def contigFrom : Nat → List Extent → Prop
  | _, [] => True
  | k, e :: es => e.fileBlock = k ∧ contigFrom (k + e.count) es

instance : (k : Nat) → (es : List Extent) → Decidable (contigFrom k es)
  | _, [] => isTrue trivial
  | k, e :: es =>
    have := instDecidableContigFrom (k + e.count) es
    by unfold contigFrom; exact inferInstance

/-- the fast path alone as a policy (used in examples) -/
def fastPol (s : Acc) (n : Nat) : Option (List Run) :=
  (fastPick (s.groups.map (·.bbm)) n).map fun gp => [(gp.1, gp.2, n)]

end Diskfs.Ext4.DirGrow
