/-
  Mirror of the inode addressing of the ext4 reader (property C20):

    groupdescriptors.go  groupDescriptorFromBytes   field offsets, 32- vs 64-byte descriptors (the high
                                                    halves are read only when `gdSize == 64`)
                         groupDescriptorsFromBytes  `len(b)/gdSize` descriptors, `gdSize` bytes apart
    ext4.go              readInodeRaw               bg = (n-1)/inodesPerGroup, refused when n = 0,
                                                    inodesPerGroup = 0 or bg >= len(descriptors);
                                                    byteStart = inodeTableLocation*blockSize (uint64),
                                                    offset = ((n-1)%inodesPerGroup)*inodeSize (uint32),
                                                    ReadAt(inodeSize bytes, byteStart+offset)

  Checksum verification of the descriptors is outside the model (the correspondence decodes with
  checksum type none and compares the table the opened filesystem holds).  Core Lean only.
-/
import DiskfsModel.Model.Ext4.Reader
namespace Diskfs.Ext4.Reader

structure GdInfo where
  blockBitmap : Nat
  inodeBitmap : Nat
  inodeTable : Nat
  freeBlocks : Nat
  freeInodes : Nat
  usedDirs : Nat
  unusedInodes : Nat
  exclBitmap : Nat
  blockBitmapCsum : Nat
  inodeBitmapCsum : Nat
  flags : Nat
deriving Repr, DecidableEq

/-- groupDescriptorFromBytes over the `gdSize` bytes of one descriptor (`b.length ≥ 32`, and ≥ 64 when
    `gdSize = 64`, is what ext4.Read has checked before) -/
def gdDecode (b : Bytes) (gdSize : Nat) : GdInfo :=
  let wide := gdSize == 64
  let hi32 (o : Nat) : Nat := if wide then le32 b o else 0
  let hi16 (o : Nat) : Nat := if wide then le16 b o else 0
  { blockBitmap := compose32 (le32 b 0x0) (hi32 0x20)
    inodeBitmap := compose32 (le32 b 0x4) (hi32 0x24)
    inodeTable := compose32 (le32 b 0x8) (hi32 0x28)
    freeBlocks := compose16 (le16 b 0xc) (hi16 0x2c)
    freeInodes := compose16 (le16 b 0xe) (hi16 0x2e)
    usedDirs := compose16 (le16 b 0x10) (hi16 0x30)
    unusedInodes := compose16 (le16 b 0x1c) (hi16 0x32)
    exclBitmap := compose32 (le32 b 0x14) (hi32 0x34)
    blockBitmapCsum := compose16 (le16 b 0x18) (hi16 0x38)
    inodeBitmapCsum := compose16 (le16 b 0x1a) (hi16 0x3a)
    flags := le16 b 0x12 }

/-- groupDescriptorsFromBytes: `none` for a zero descriptor size -/
def gdtDecode (gdt : Bytes) (gdSize : Nat) : Option (List GdInfo) :=
  if gdSize = 0 then none
  else some ((List.range (gdt.length / gdSize)).map fun i => gdDecode (slice gdt (i * gdSize) (i * gdSize + gdSize)) gdSize)

structure InoGeo where
  blockSize : Nat
  inodeSize : Nat
  inodesPerGroup : Nat
deriving Repr, DecidableEq

/-- readInodeRaw up to the device read: byte offset and length of the ReadAt, `none` when the
    inode number is refused.  `tables` = inodeTableLocation of every descriptor. -/
def inodeLoc (g : InoGeo) (tables : List Nat) (n : Nat) : Option (Nat × Nat) :=
  if n = 0 ∨ g.inodesPerGroup = 0 then none
  else
    let bg := (n - 1) / g.inodesPerGroup
    if bg ≥ tables.length then none
    else
      let byteStart := (tables.getD bg 0 * g.blockSize) % 18446744073709551616
      let offset := ((n - 1) % g.inodesPerGroup * g.inodeSize) % 4294967296
      -- int64(byteStart)+int64(offset): the sum modulo 2^64 (a value ≥ 2^63 is a negative offset, which
      -- every backend refuses: `inodeRawLoc` below reports it as beyond the device)
      some ((byteStart + offset) % 18446744073709551616, g.inodeSize)

/-- readInodeRaw from the raw descriptor table: decode, locate, and fail when the read reaches
    beyond the device -/
def inodeRawLoc (g : InoGeo) (gdt : Bytes) (gdSize devSize n : Nat) : Option (Nat × Nat) :=
  match gdtDecode gdt gdSize with
  | none => none
  | some gds =>
    match inodeLoc g (gds.map (·.inodeTable)) n with
    | none => none
    | some (o, l) => if o ≥ devSize ∨ o + l > devSize then none else some (o, l)

end Diskfs.Ext4.Reader
