/-
  The reader model's configuration as regenerated from /repo on every run:
  every defect switch and every table the mirror is defined over comes from
  Generated/Ext4Ref.lean, so the driver mirrors the tree as it is.
-/
import DiskfsModel.Model.Ext4.Reader
import DiskfsModel.Generated.Ext4Ref
namespace Diskfs.Ext4.Reader
open Diskfs.Generated

def Cfg.current : Cfg :=
  ⟨Ext4Ref.dirNameLenWide, Ext4Ref.xattrKeepEmpty, Ext4Ref.gateRequiresExtents,
   Ext4Ref.gateRefusesInlineData, Ext4Ref.inodeMinLen⟩

/-- does `extentLeafNode.blocks` refuse unwritten extents in the tree as it is now? -/
def refuseUnwrittenCurrent : Bool := Ext4Ref.extentRefusesUnwritten

/-- does DirEntry.Info() report a mode built from the directory entry's type alone (finding
    ext4-direntry-info-mode-drops-permissions), as the tree is now? -/
def dirInfoModeFromTypeCurrent : Bool := Ext4Ref.dirEntryInfoModeFromType

def xattrTable : List (Nat × String) := Ext4Ref.xattrPrefixIdx.zip Ext4Ref.xattrPrefixStr

end Diskfs.Ext4.Reader
