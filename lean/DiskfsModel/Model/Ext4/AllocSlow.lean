/-
  The whole block-allocation policy of `allocateExtents` (filesystem/ext4/ext4.go) over the groups' block
  bitmaps: the fast path (Model/Ext4/Alloc.lean `fastPick`: first group with a free run large enough, for
  requests of at most 32768 blocks) and, when it finds nothing, the slow path mirrored here:

    for each group in order, while blocks are still needed:
      refuse when more than 65535 blocks are still needed
      FreeList of the group's bitmap, every run cut into pieces of at most 32768 blocks
      sort.Slice the pieces by size, largest first
      take pieces (the last one cut to what is still needed) and mark them in the in-memory bitmap
    refuse when blocks are still needed after the last group (nothing has been written)

  `sort.Slice` is not stable: the order among pieces of equal size is whatever pdqsort leaves.  The mirror takes
  the sorted list from a function `order` (group index, pieces) ↦ pieces; the theorems hold for every `order` that
  returns a permutation, the driver uses a stable merge sort by size with ties broken by the order in which the
  real code handed the pieces out (`hintOrder`).
-/
import DiskfsModel.Model.Ext4.Alloc
namespace Diskfs.Ext4.Alloc

def maxBlocksPerExtent : Nat := 32768
def maxUint16 : Nat := 65535

/-- one free run cut into pieces of at most `maxBlocksPerExtent` blocks (`fuel` ≥ `len` suffices) -/
def chunksF : (fuel : Nat) → (start len : Nat) → List (Nat × Nat)
  | 0, _, _ => []
  | fuel + 1, start, len =>
    if len = 0 then []
    else (start, min len maxBlocksPerExtent) :: chunksF fuel (start + min len maxBlocksPerExtent) (len - min len maxBlocksPerExtent)

def chunks (start len : Nat) : List (Nat × Nat) := chunksF len start len

/-- the pieces of one group, in FreeList order -/
def candidates (b : Bits) : List (Nat × Nat) := (freeRuns b).flatMap fun r => chunks r.1 r.2

/-- walk the sorted pieces while blocks are needed: (extents taken as (position, count), blocks still needed) -/
def takeCands : List (Nat × Nat) → (extra : Nat) → List (Nat × Nat) × Nat
  | [], extra => ([], extra)
  | c :: cs, extra =>
    if extra = 0 then ([], 0)
    else
      let t := if c.2 ≥ extra then extra else c.2
      let r := takeCands cs (extra - t)
      ((c.1, t) :: r.1, r.2)

/-- the loop over the groups: `none` when the 65535 test refuses, else the extents and what is still needed -/
def slowGroups (order : Nat → List (Nat × Nat) → List (Nat × Nat)) :
    List Bits → (g : Nat) → (extra : Nat) → Option (List Run × Nat)
  | [], _, extra => some ([], extra)
  | b :: bs, g, extra =>
    if extra = 0 then some ([], 0)
    else if extra > maxUint16 then none
    else
      let r := takeCands (order g (candidates b)) extra
      match slowGroups order bs (g + 1) r.2 with
      | none => none
      | some (rs, e) => some (r.1.map (fun p => (g, p.1, p.2)) ++ rs, e)

def slowAlloc (order : Nat → List (Nat × Nat) → List (Nat × Nat)) (groups : List Bits) (n : Nat) : Option (List Run) :=
  match slowGroups order groups 0 n with
  | some (rs, 0) => some rs
  | _ => none

/-- allocateExtents' choice of blocks for `n > 0` new blocks: fast path, then slow path -/
def allocPolicy (order : Nat → List (Nat × Nat) → List (Nat × Nat)) (groups : List Bits) (n : Nat) : Option (List Run) :=
  match (if n ≤ maxBlocksPerExtent then fastPick groups n else none) with
  | some (g, p) => some [(g, p, n)]
  | none => slowAlloc order groups n

/-- free blocks in all groups -/
def totalFree (groups : List Bits) : Nat := (groups.map countFree).sum

/-- the order the driver uses: by size, largest first (what the comparison function of sort.Slice fixes), pieces
    of equal size in the order in which the real code handed them out (`hint`: positions inside the group, in
    that order), the rest as FreeList listed them -/
def hintOrder (hint : Nat → List Nat) (g : Nat) (l : List (Nat × Nat)) : List (Nat × Nat) :=
  l.mergeSort fun a b => decide (a.2 > b.2) || (a.2 == b.2 && decide ((hint g).idxOf a.1 ≤ (hint g).idxOf b.1))

end Diskfs.Ext4.Alloc
