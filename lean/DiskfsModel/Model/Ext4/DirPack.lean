/-
  Mirror of the ext4 linear-directory block packing:
    filesystem/ext4/directoryentry.go  directoryEntry.toBytes, directoryEntryFromBytes,
                                       parseDirEntriesLinear
    filesystem/ext4/directory.go       Directory.toBytes
  Core Lean only (linked into a driver).

  Quirks of the Go code that are mirrored, not cleaned up:
  * `toBytes` computes the natural record length from `uint8(len(filename))`.
  * `Directory.toBytes` re-encodes the PREVIOUS entry when the next one does not
    fit, passes `uint16(blockLimit - len(block))` as the stretched rec_len, and
    dereferences a nil `previousEntry` when the very first entry does not fit
    (`packLoop` returns `none`, `pack` returns `[]`).
  * `directoryEntryFromBytes` computes the end of the name as `0x8+nameLength`
    in **uint8** arithmetic (`nameLength` is a `byte`): for a name length
    ≥ 248 the bound wraps below 8 and the slice expression `b[8:hi]` panics.
    So entries with names of 248…255 bytes, which `toBytes` happily writes,
    cannot be parsed (`decodeEntry` returns `none`).
  * Go checks slice bounds against the *capacity*: the name slice of an entry
    may run past its rec_len into the following bytes of the buffer.  The
    model takes the capacity of the buffer handed to `parseDirEntriesLinear`
    to be its length (for the checksum case the real capacity of the `append`ed
    buffer may be larger; only malformed inputs can tell the difference).
  * `encEntry` is total; Go's `toBytes(withSize)` panics for `0 < withSize < 8`.
    Inside `pack` that needs `bytesPerBlock > 65536`, which ext4 does not have.
-/
import DiskfsModel.Core.Bytes
namespace Diskfs.Ext4.DirPack

structure Entry where
  inode : Nat
  name : Bytes
  ftype : Nat
deriving Repr, DecidableEq

/-- natural record length: `uint16(uint8(len(filename))) + 8`, rounded up to a multiple of 4 -/
def entryLen (e : Entry) : Nat := (8 + e.name.length % 256 + 3) / 4 * 4

/-- the record length `toBytes(withSize)` uses -/
def recLenOf (e : Entry) (withSize : Nat) : Nat := if withSize > 0 then withSize else entryLen e

/-- `directoryEntry.toBytes(withSize)` (`withSize` is the uint16 argument, `< 65536`). -/
def encEntry (e : Entry) (withSize : Nat) : Bytes :=
  let recLen := recLenOf e withSize
  (leEnc 4 e.inode ++ leEnc 2 recLen ++ [UInt8.ofNat (e.name.length % 256), UInt8.ofNat e.ftype]
    ++ e.name ++ zeros (recLen - 8 - e.name.length)).take recLen

/-- `block = checksumFunc(block)` when `withChecksums` -/
def fin (csum : Bool) (tail : Bytes → Bytes) (block : Bytes) : Bytes :=
  if csum then block ++ tail block else block

/-- the `for i, de := range d.entries` loop of `Directory.toBytes`; state
    `b` (`done`), `block`, `previousLength`, `previousEntry`.  `none` = nil dereference. -/
def packLoop (limit : Nat) (csum : Bool) (tail : Bytes → Bytes) :
    List Entry → (done block : Bytes) → (prevLen : Nat) → (prev : Option Entry) → Option Bytes
  | [], done, _, _, _ => some done
  | e :: rest, done, block, prevLen, prev =>
    let b2 := encEntry e 0
    if block.length + b2.length > limit then
      match prev with
      | none => none
      | some p =>
        let blk := block.take (block.length - prevLen)
        let blk := blk ++ encEntry p ((limit - blk.length) % 65536)
        let done := done ++ fin csum tail blk
        if rest.isEmpty then
          let b2 := encEntry e (limit % 65536)
          packLoop limit csum tail rest (done ++ fin csum tail b2) [] b2.length (some e)
        else
          packLoop limit csum tail rest done b2 b2.length (some e)
    else if rest.isEmpty then
      let b2 := encEntry e ((limit - block.length) % 65536)
      packLoop limit csum tail rest (done ++ fin csum tail (block ++ b2)) [] b2.length (some e)
    else
      packLoop limit csum tail rest done (block ++ b2) b2.length (some e)

/-- `Directory.toBytes(bytesPerBlock = bs, checksumFunc = fun b => b ++ tail b, withChecksums = csum)` -/
def pack (bs : Nat) (csum : Bool) (tail : Bytes → Bytes) (es : List Entry) : Bytes :=
  if es.isEmpty then [] else
  let limit := bs - (if csum then 12 else 0)
  match packLoop limit csum tail es [] [] 0 none with
  | none => []
  | some b =>
    let r := b.length % bs
    if r > 0 then b ++ zeros (bs - r) else b

/-- `directoryEntryFromBytes(b[i : i+recLen])` where `rest = b[i:]` (the slice keeps the
    capacity of the buffer).  `none` = Go error or panic. -/
def decodeEntry (rest : Bytes) (recLen : Nat) : Option Entry :=
  if recLen > rest.length then none            -- b[i : i+length] out of range
  else if recLen < 12 then none                -- "less than minimum"
  else
    -- `b = b[:263]` when longer: changes len, not cap; bytes 0..7 are inside either way
    let nameLen := (rest.getD 6 0).toNat
    let hi := (8 + nameLen) % 256              -- uint8 arithmetic
    if hi < 8 ∨ hi > rest.length then none     -- b[8:hi] panics
    else some ⟨leDec (rest.take 4), (rest.drop 8).take (hi - 8), (rest.getD 7 0).toNat⟩

/-- the entry loop of `parseDirEntriesLinear`; `b` is the not yet consumed part `b[i:]`. -/
def walk : Nat → Bytes → Option (List Entry)
  | _, [] => some []
  | 0, _ :: _ => none
  | fuel+1, b =>
    if b.length < 6 then none else               -- b[i+4 : i+6]
    let recLen := leDec ((b.drop 4).take 2)
    match decodeEntry b recLen with
    | none => none
    | some e => (walk fuel (b.drop recLen)).map (e :: ·)

/-- the checksum loop of `parseDirEntriesLinear`: verify and strip the 12-byte tail of each block -/
def stripBlocks (bs : Nat) (tail : Bytes → Bytes) : Nat → Bytes → Option Bytes
  | _, [] => some []
  | 0, _ :: _ => none
  | fuel+1, b =>
    if bs < 12 ∨ b.length < bs then none else    -- slice panics
    let block := b.take bs
    let body := block.take (bs - 12)
    if block.drop (bs - 4) = (tail body).drop 8 then
      (stripBlocks bs tail fuel (b.drop bs)).map (body ++ ·)
    else none                                    -- checksum mismatch

/-- `parseDirEntriesLinear(b, withChecksums = csum, blocksize = bs, …)`; `tail body` is the
    12-byte tail entry the checksummer would produce for `body`. -/
def parse (bs : Nat) (csum : Bool) (tail : Bytes → Bytes) (b : Bytes) : Option (List Entry) :=
  match (if csum then stripBlocks bs tail b.length b else some b) with
  | none => none
  | some b' => walk b'.length b'

/-! ### Remove's write-back of the parent directory (filesystem/ext4/ext4.go Remove) -/

/-- the unused entry `directoryEntry{}` -/
def emp : Entry := ⟨0, [], 0⟩

/-- an empty directory block: one unused entry spanning the block (and the checksum tail) -/
def emptyBlock (bs : Nat) (csum : Bool) (tail : Bytes → Bytes) : Bytes :=
  fin csum tail (encEntry emp ((bs - (if csum then 12 else 0)) % 65536))

/-- `for len(dirBytes) < allocated { dirBytes = append(dirBytes, empty...) }` -/
def padDir (bs : Nat) (csum : Bool) (tail : Bytes → Bytes) : (fuel : Nat) → (alloc : Nat) → Bytes → Bytes
  | 0, _, b => b
  | fuel + 1, alloc, b =>
    if b.length < alloc then padDir bs csum tail fuel alloc (b ++ emptyBlock bs csum tail) else b

/-- the directory's blocks after Remove re-packed the remaining entries `es` and wrote them back over the blocks
    `old`. `pad = false` is the code as found: only the blocks the re-packed bytes cover are written, the others
    keep what they held (finding ext4-remove-stale-dir-block); `pad = true`: the others become empty blocks. -/
def rewriteDir (pad : Bool) (bs : Nat) (csum : Bool) (tail : Bytes → Bytes) (old : Bytes) (es : List Entry) : Bytes :=
  let packed := pack bs csum tail es
  let b := if pad then padDir bs csum tail old.length old.length packed else packed
  (b ++ old.drop b.length).take old.length

/-- the rec_len chain of a byte string: `none` unless the records tile it exactly -/
def chain : Nat → Bytes → Option (List Nat)
  | _, [] => some []
  | 0, _ :: _ => none
  | fuel+1, b =>
    if b.length < 6 then none else
    let r := leDec ((b.drop 4).take 2)
    if r < 12 ∨ r > b.length then none
    else (chain fuel (b.drop r)).map (r :: ·)

/-- rec_len chain of one `bs`-sized block over its first `blockLimit` bytes -/
def recLens (bs : Nat) (csum : Bool) (blk : Bytes) : Option (List Nat) :=
  let body := blk.take (bs - (if csum then 12 else 0))
  chain body.length body

end Diskfs.Ext4.DirPack
