/-
  Mirror of filesystem/ext4/file.go `File.Read` as it is NOW (after fix ea015d2 "holes read as zeros"
  and fix 66b9f8e "skip extents with <="), over a flat extent list that may have holes anywhere
  (property C20):

      if fl.offset >= fileSize { return 0, io.EOF }
      bytesToRead := min(len(b), fileSize - fl.offset)
      readStartBlock := fl.offset / blocksize                       -- computed ONCE
      for _, e := range fl.extents {
          if e.fileBlock + e.count <= readStartBlock { continue }   -- skip test
          if fl.offset < e.fileBlock*blocksize {                    -- hole in front of the extent
              zeros := min(holeEnd - fl.offset, bytesToRead - readBytes); clear; advance
              if readBytes >= bytesToRead { break }
          }
          startPositionInExtent := fl.offset - e.fileBlock*blocksize
          leftInExtent := e.count*blocksize - startPositionInExtent -- int64, negative => make panics
          toRead := min(bytesToRead - readBytes, leftInExtent)
          ReadAt(b2[:toRead], e.startingBlock*blocksize + startPositionInExtent)  -- error => return (readBytes, err)
          advance; if readBytes >= bytesToRead { break }
      }
      if readBytes < bytesToRead { clear the rest; advance }        -- hole behind the last extent
      err = io.EOF iff fl.offset >= fileSize

  The device is a read oracle `dev` of `devSize` bytes; a ReadAt that starts at or reaches beyond
  `devSize` fails (memdev / os.File).  `fl.offset - e.fileBlock*blocksize` is never negative at the
  point where it is computed (the hole branch has just advanced the offset to `holeEnd` or left the
  loop), so the natural-number subtraction below is exact.  All quantities are assumed to fit int64.
  Core Lean only.
-/
import DiskfsModel.Model.Ext4.Reader
namespace Diskfs.Ext4.Reader

/-- loop state: `fl.offset`, the filled part of the caller's buffer `b[:readBytes]`, the ReadAt calls so far -/
structure RdSt where
  off : Nat
  got : Bytes
  ios : List (Nat × Nat)
deriving Repr, DecidableEq

inductive LoopOut where
  | done (st : RdSt)     -- loop left by `break` or by exhausting the list
  | fail (st : RdSt)     -- backend.ReadAt returned an error: Read returns (readBytes, err)
  | panic (st : RdSt)    -- make([]byte, negative); the state reached inside the call
deriving Repr, DecidableEq

/-- the `for _, e := range fl.extents` loop of File.Read -/
def sparseLoop (dev : Dev) (devSize bs startBlock want : Nat) : List Extent → RdSt → LoopOut
  | [], st => .done st
  | e :: es, st =>
    if e.fileBlock + e.count ≤ startBlock then sparseLoop dev devSize bs startBlock want es st
    else
      let holeEnd := e.fileBlock * bs
      let nz := min (holeEnd - st.off) (want - st.got.length)
      let st1 : RdSt := if st.off < holeEnd then ⟨st.off + nz, st.got ++ zeros nz, st.ios⟩ else st
      if st.off < holeEnd ∧ st1.got.length ≥ want then .done st1
      else
        let extentSize := e.count * bs
        let startPos := st1.off - holeEnd
        if startPos > extentSize then .panic st1
        else
          let toRead := min (want - st1.got.length) (extentSize - startPos)
          let disk := e.start * bs + startPos
          if disk ≥ devSize ∨ disk + toRead > devSize then .fail st1
          else
            let st2 : RdSt := ⟨st1.off + toRead, st1.got ++ readAt dev disk toRead, st1.ios ++ [(disk, toRead)]⟩
            if st2.got.length ≥ want then .done st2
            else sparseLoop dev devSize bs startBlock want es st2

structure SRead where
  data : Bytes               -- b[:n]
  off : Nat                  -- fl.offset afterwards
  eof : Bool                 -- err == io.EOF
  ios : List (Nat × Nat)     -- (device offset, length) of every ReadAt, in order
deriving Repr, DecidableEq

inductive ReadOut where
  | ok (r : SRead)
  | ioerr (n off : Nat)      -- (readBytes, "failed to read bytes"), offset afterwards
  | panic (off : Nat)        -- run-time panic; offset reached inside the call
deriving Repr, DecidableEq

/-- File.Read(b) with `n = len(b)` on a regular file of `size` bytes at offset `off` -/
def sparseRead (dev : Dev) (devSize bs : Nat) (es : List Extent) (size off n : Nat) : ReadOut :=
  if off ≥ size then .ok ⟨[], off, true, []⟩
  else
    let want := if off + n > size then size - off else n
    match sparseLoop dev devSize bs (off / bs) want es ⟨off, [], []⟩ with
    | .panic st => .panic st.off
    | .fail st => .ioerr st.got.length st.off
    | .done st =>
      let pad := want - st.got.length
      let st' : RdSt := if st.got.length < want then ⟨st.off + pad, st.got ++ zeros pad, st.ios⟩ else st
      .ok ⟨st'.got, st'.off, st'.off ≥ size, st'.ios⟩

/-- a caller that keeps reading with a buffer of `chunk` bytes until the handle reports io.EOF
    (io.ReadAll, io.Copy); `none`: an error, a panic, or out of fuel -/
def readUntilEof (dev : Dev) (devSize bs : Nat) (es : List Extent) (size chunk : Nat) :
    Nat → Nat → Bytes → Option Bytes
  | 0, _, _ => none
  | f + 1, off, acc =>
    match sparseRead dev devSize bs es size off chunk with
    | .ok r => if r.eof then some (acc ++ r.data) else readUntilEof dev devSize bs es size chunk f r.off (acc ++ r.data)
    | _ => none

/-- a sequence of Read calls with buffers of the given lengths on one handle: the concatenated bytes
    and the final offset (`none`: an error or panic) -/
def readSeq (dev : Dev) (devSize bs : Nat) (es : List Extent) (size : Nat) : List Nat → Nat → Option (Bytes × Nat)
  | [], off => some ([], off)
  | n :: ns, off =>
    match sparseRead dev devSize bs es size off n with
    | .ok r =>
      match readSeq dev devSize bs es size ns r.off with
      | some (d, o) => some (r.data ++ d, o)
      | none => none
    | _ => none

/-! ### the logical file a flat extent list denotes -/

/-- byte `p` of the logical file: the device byte of the mapped block, zero in a hole
    (`leafLookup` is the mapping `extent_tree_flatten` is about) -/
def logicalByte (dev : Dev) (bs : Nat) (es : List Extent) (p : Nat) : UInt8 :=
  match leafLookup es (p / bs) with
  | some phys => dev (phys * bs + p % bs)
  | none => 0

/-- `k` bytes of a byte oracle from position `a` -/
def window (f : Nat → UInt8) (a k : Nat) : Bytes := (List.range k).map fun i => f (a + i)

/-- sorted and non-overlapping, no empty extent (holes allowed before, between and behind) -/
def SortedExts : List Extent → Prop
  | [] => True
  | e :: es => 0 < e.count ∧ (∀ e' ∈ es, e.fileBlock + e.count ≤ e'.fileBlock) ∧ SortedExts es

/-- every extent lies inside the device -/
def ExtsOnDev (bs devSize : Nat) (es : List Extent) : Prop :=
  ∀ e ∈ es, (e.start + e.count) * bs ≤ devSize

/-! ### File.Read with the guard `if leftInExtent < 0 { continue }` (fix ext4-read-extent-out-of-order)

  `skip = false` is the loop above (a negative length reaches `make`, which panics); `skip = true` is the
  loop with the guard: an extent that lies wholly before the offset the loop has reached is passed over, the
  state (offset, bytes so far, a hole already zero-filled in front of it) stays.  Which one the tree has is
  regenerated from file.go on every run (Generated/Ext4Ref.lean readSkipsExtentBefore); the driver runs
  `sparseReadC` with that switch.  On sorted lists the branch is never reached (Proofs/Ext4ReadSkipNeg.lean). -/

def sparseLoopC (skip : Bool) (dev : Dev) (devSize bs startBlock want : Nat) : List Extent → RdSt → LoopOut
  | [], st => .done st
  | e :: es, st =>
    if e.fileBlock + e.count ≤ startBlock then sparseLoopC skip dev devSize bs startBlock want es st
    else
      let holeEnd := e.fileBlock * bs
      let nz := min (holeEnd - st.off) (want - st.got.length)
      let st1 : RdSt := if st.off < holeEnd then ⟨st.off + nz, st.got ++ zeros nz, st.ios⟩ else st
      if st.off < holeEnd ∧ st1.got.length ≥ want then .done st1
      else
        let extentSize := e.count * bs
        let startPos := st1.off - holeEnd
        if startPos > extentSize then
          (if skip then sparseLoopC skip dev devSize bs startBlock want es st1 else .panic st1)
        else
          let toRead := min (want - st1.got.length) (extentSize - startPos)
          let disk := e.start * bs + startPos
          if disk ≥ devSize ∨ disk + toRead > devSize then .fail st1
          else
            let st2 : RdSt := ⟨st1.off + toRead, st1.got ++ readAt dev disk toRead, st1.ios ++ [(disk, toRead)]⟩
            if st2.got.length ≥ want then .done st2
            else sparseLoopC skip dev devSize bs startBlock want es st2

def sparseReadC (skip : Bool) (dev : Dev) (devSize bs : Nat) (es : List Extent) (size off n : Nat) : ReadOut :=
  if off ≥ size then .ok ⟨[], off, true, []⟩
  else
    let want := if off + n > size then size - off else n
    match sparseLoopC skip dev devSize bs (off / bs) want es ⟨off, [], []⟩ with
    | .panic st => .panic st.off
    | .fail st => .ioerr st.got.length st.off
    | .done st =>
      let pad := want - st.got.length
      let st' : RdSt := if st.got.length < want then ⟨st.off + pad, st.got ++ zeros pad, st.ios⟩ else st
      .ok ⟨st'.got, st'.off, st'.off ≥ size, st'.ios⟩


end Diskfs.Ext4.Reader
