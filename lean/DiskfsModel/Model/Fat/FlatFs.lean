/-
  Layer E, restricted to one directory: a FAT volume as table + device + the list of files
  of a single directory (name, chain, size), with the operations of the property
  (create, write-at-offset, truncating open, remove, rename with replacement) composed from
  the mirrors of allocateSpace / freeChain / File.Write, in the repaired configuration.
  `abs` maps a state to the plain tree of Spec/Tree.lean by reading every file's bytes through
  its chain.  The directory's own on-disk encoding is not part of this state (its codec is
  proved separately, `dir_parse_ser`); subdirectories and handles are not modelled here.
  Core Lean only.
-/
import DiskfsModel.Model.Fat.Fs
import DiskfsModel.Model.Fat.FileIO
import DiskfsModel.Spec.Tree
namespace Diskfs.Fat

structure FFile where
  name : Spec.Name
  /-- the clusters the entry owns; never empty (mkFile allocates one cluster for an empty file) -/
  chain : List Nat
  size : Nat

structure FState where
  m : CMap
  d : Dev
  files : List FFile

structure FGeom where
  kind : Kind
  /-- `MaxCluster()` -/
  max : Nat
  /-- allocation limit of the repaired allocator: min max (data clusters + 2) -/
  lim : Nat
  io : IOGeom

inductive FOp
  | create (name : Spec.Name)
  | writeAt (name : Spec.Name) (off : Nat) (data : Bytes)
  | truncate (name : Spec.Name)
  | remove (name : Spec.Name)
  | rename (old new : Spec.Name)

def FOp.toSpec : FOp → Spec.Op
  | .create n => .create [] n
  | .writeAt n off data => .writeAt [] n off data
  | .truncate n => .truncate [] n
  | .remove n => .remove [] n
  | .rename o n => .rename [] o n

def ffind (eqn : Spec.Name → Spec.Name → Bool) (fs : List FFile) (n : Spec.Name) : Option FFile :=
  fs.find? fun f => eqn f.name n

def fset (eqn : Spec.Name → Spec.Name → Bool) (fs : List FFile) (n : Spec.Name) (v : FFile) : List FFile :=
  fs.map fun f => if eqn f.name n then v else f

def ferase (eqn : Spec.Name → Spec.Name → Bool) (fs : List FFile) (n : Spec.Name) : List FFile :=
  fs.filter fun f => !(eqn f.name n)

def falloc (g : FGeom) (fuel : Nat) (m : CMap) (size prev : Nat) : AllocRes :=
  allocateSpace g.kind g.max g.io.bpc (firstFit g.lim) fuel m size prev

/-- one operation; the Boolean says whether it was accepted. `fuel` bounds the chain walks. -/
def fstep (eqn : Spec.Name → Spec.Name → Bool) (g : FGeom) (fuel : Nat) (s : FState) : FOp → FState × Bool
  | .create n =>
    match ffind eqn s.files n with
    | some _ => (s, true)                                   -- O_CREATE on an existing file opens it
    | none =>
      let r := falloc g fuel s.m 1 0
      match r.res with
      | some l => (⟨r.m, s.d, s.files ++ [⟨n, l, 0⟩]⟩, true)
      | none => (s, false)
  | .writeAt n off data =>
    match ffind eqn s.files n with
    | none => (s, false)
    | some f =>
      if data.length = 0 then (s, true)
      else
        let newSize := Nat.max f.size (off + data.length)
        let r := falloc g fuel s.m newSize (f.chain.headD 0)
        match r.res with
        | none => (s, false)                                -- ENOSPC: nothing changes
        | some l' =>
          match writeH true g.io l' f.size off data with
          | none => (s, false)
          | some ws => (⟨r.m, applyWrs s.d ws, fset eqn s.files n ⟨f.name, l', newSize⟩⟩, true)
  | .truncate n =>
    match ffind eqn s.files n with
    | none => (s, false)
    | some f =>
      if f.size = 0 then (s, true)
      else
        let r := falloc g fuel s.m 1 (f.chain.headD 0)
        match r.res with
        | none => (s, false)
        | some _ => (⟨r.m, s.d, fset eqn s.files n ⟨f.name, f.chain.take 1, 0⟩⟩, true)
  | .remove n =>
    match ffind eqn s.files n with
    | none => (s, false)
    | some f =>
      let r := freeChain g.kind g.max fuel s.m (f.chain.headD 0)
      if r.2 then (⟨r.1, s.d, ferase eqn s.files n⟩, true) else (s, false)
  | .rename o n =>
    match ffind eqn s.files o with
    | none => (s, false)
    | some f =>
      if eqn o n then (⟨s.m, s.d, fset eqn s.files o ⟨n, f.chain, f.size⟩⟩, true)
      else
        match ffind eqn s.files n with
        | none => (⟨s.m, s.d, fset eqn s.files o ⟨n, f.chain, f.size⟩⟩, true)
        | some t =>
          -- the replaced entry is dropped and its chain released
          let r := freeChain g.kind g.max fuel s.m (t.chain.headD 0)
          if r.2 then (⟨r.1, s.d, fset eqn (ferase eqn s.files n) o ⟨n, f.chain, f.size⟩⟩, true) else (s, false)

def frun (eqn : Spec.Name → Spec.Name → Bool) (g : FGeom) (fuel : Nat) (s : FState) (ops : List FOp) : FState :=
  ops.foldl (fun s op => (fstep eqn g fuel s op).1) s

/-- the abstraction: the directory as a plain list of named byte strings -/
def fabs (g : FGeom) (s : FState) : Spec.Tree :=
  s.files.map fun f => (f.name, Spec.Node.file (fileContent s.d g.io f.chain f.size))

/-- name comparison is an equivalence -/
structure EqnOk (eqn : Spec.Name → Spec.Name → Bool) : Prop where
  refl : ∀ a, eqn a a = true
  symm : ∀ a b, eqn a b = true → eqn b a = true
  trans : ∀ a b c, eqn a b = true → eqn b c = true → eqn a c = true

/-- the invariant of the one-directory filesystem -/
structure FInv (eqn : Spec.Name → Spec.Name → Bool) (g : FGeom) (s : FState) : Prop where
  table : Inv g.kind g.lim s.m (s.files.map (·.chain))
  /-- every file's chain is exactly as long as its size needs, and never empty -/
  covers : ∀ f ∈ s.files, f.chain.length = Nat.max (clusterCount g.io.bpc f.size) 1
  /-- names are pairwise different under `eqn` -/
  distinct : s.files.Pairwise fun a b => eqn a.name b.name = false

end Diskfs.Fat
