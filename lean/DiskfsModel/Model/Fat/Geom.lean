/-
  Volume geometry at mkfs time — mirror of the arithmetic of
    filesystem/fat12/fat12.go Create, filesystem/fat16/fat16.go Create, filesystem/fat32/fat32.go Create
  with Go's integer widths (uint8 / uint16 / uint32 wrap-around written out), over the
  cluster-size tables regenerated from the source (parameter facts, Generated/Fat.lean).
  `none` = Create returns an error.  Core Lean only.
-/
import DiskfsModel.Model.Fat.Fs
namespace Diskfs.Fat

def u8 (x : Nat) : Nat := x % 256
def u16 (x : Nat) : Nat := x % 65536
def u32 (x : Nat) : Nat := x % 4294967296
/-- uint32 subtraction -/
def sub32 (a b : Nat) : Nat := (a + 4294967296 - b % 4294967296) % 4294967296

structure Geom where
  kind : Kind
  bps : Nat
  spc : Nat
  reserved : Nat
  fatSectors : Nat
  rootEntries : Nat
  totalSectors : Nat
deriving Repr, DecidableEq

def Geom.rootSectors (g : Geom) : Nat := (g.rootEntries * 32 + g.bps - 1) / g.bps
def Geom.dataSectors (g : Geom) : Nat := g.totalSectors - g.reserved - 2 * g.fatSectors - g.rootSectors
def Geom.clusters (g : Geom) : Nat := g.dataSectors / g.spc
def Geom.fatEntries (g : Geom) : Nat :=
  match g.kind with
  | .f12 => g.fatSectors * g.bps * 2 / 3
  | .f16 => g.fatSectors * g.bps / 2
  | .f32 => g.fatSectors * g.bps / 4
def Geom.dataStart (g : Geom) : Nat := (g.reserved + 2 * g.fatSectors + g.rootSectors) * g.bps

/-- what C08 asks of a fresh volume's geometry for the byte range `size` it was given -/
structure Geom.WF (g : Geom) (size : Nat) : Prop where
  /-- the sector count matches the range: nothing beyond it, less than one sector unused -/
  total_le : g.totalSectors * g.bps ≤ size
  total_gt : size < g.totalSectors * g.bps + g.bps
  /-- reserved area, both FATs and the root region fit in front of a non-empty data area -/
  meta_fits : g.reserved + 2 * g.fatSectors + g.rootSectors < g.totalSectors
  has_cluster : 0 < g.clusters
  /-- the FAT has an entry for every cluster (plus the two reserved ones) -/
  fat_holds : g.clusters + 2 ≤ g.fatEntries
  /-- every data cluster lies inside the range -/
  data_in_range : g.dataStart + g.clusters * g.spc * g.bps ≤ size

def KB : Nat := 1024
def MB : Nat := 1024 * 1024
def GB : Nat := 1024 * 1024 * 1024

def mkGeom12 (tbl : List (Nat × Nat)) (size : Nat) : Option Geom :=
  if size > 128 * MB then none
  else if size < 512 * 4 then none
  else
    let ts := u32 (size / 512)
    let spc := u8 (sizeTableLookup tbl size)
    let rootEntries := if size ≤ 512 * KB then 112 else 224
    let rds := (rootEntries * 32 + 511) / 512
    let ds := sub32 (sub32 ts 1) rds
    let nc := ds / spc
    let spf := u16 (sub32 (u32 (u32 (u32 ((nc + 2) * 3) / 2 + 1) + 512)) 1 / 512)
    let ds2 := sub32 (sub32 (sub32 ts 1) rds) (u32 (2 * spf))
    let nc2 := ds2 / spc
    if nc2 ≥ 4085 then none
    else if nc2 = 0 then none          -- "leaves no room for a data cluster"
    else some ⟨.f12, 512, spc, 1, spf, rootEntries, ts⟩

def mkGeom16 (tbl : List (Nat × Nat)) (size : Nat) : Option Geom :=
  if size > 2 * GB then none
  else if size < 512 * 8 then none
  else
    let ts := u32 (size / 512)
    let spc := u8 (sizeTableLookup tbl size)
    let rds := (512 * 32 + 511) / 512
    let ds := sub32 (sub32 ts 4) rds
    let nc := ds / spc
    let spf := u16 (sub32 (u32 (u32 ((nc + 2) * 2) + 512)) 1 / 512)
    let ds2 := sub32 (sub32 (sub32 ts 4) rds) (u32 (2 * spf))
    let nc2 := ds2 / spc
    if nc2 ≥ 65525 then none
    else if nc2 < 4085 then none
    else some ⟨.f16, 512, spc, 4, spf, 512, ts⟩

def fat32MaxSize : Nat := 2198754099200

/-- `blocksize` as passed (0 means 512) -/
def mkGeom32 (tbl : List (Nat × Nat)) (size blocksize : Nat) : Option Geom :=
  if blocksize ≠ 512 ∧ blocksize ≠ 4096 ∧ blocksize > 0 then none
  else
    let bs := if blocksize = 0 then 512 else blocksize
    if size > fat32MaxSize then none
    else if size < 32 * bs then none
    else
      let clusterBytes := sizeTableLookup tbl size
      let spc0 := u8 (clusterBytes / bs)
      let spc := if spc0 = 0 then 1 else spc0
      let ts := u32 (size / bs)
      let denom := u32 (u32 bs * spc + 8)
      let spf := u16 (sub32 (u32 (u32 (4 * sub32 ts 32) + denom)) 1 / denom)
      -- int64 from here on
      if ts ≤ 32 + 2 * spf then none
      else
        let ds := ts - 32 - 2 * spf
        let cc := u32 (ds / spc)
        if cc = 0 then none
        else if ds * bs < 32 * KB then none
        else some ⟨.f32, bs, spc, 32, spf, 0, ts⟩

/-- the same with the repaired sectors-per-FAT formula (fixes/fat32-fatsize-omits-reserved-entries.patch):
    `8*spc` more in the numerator makes room for the two reserved FAT entries -/
def mkGeom32Fixed (tbl : List (Nat × Nat)) (size blocksize : Nat) : Option Geom :=
  if blocksize ≠ 512 ∧ blocksize ≠ 4096 ∧ blocksize > 0 then none
  else
    let bs := if blocksize = 0 then 512 else blocksize
    if size > fat32MaxSize then none
    else if size < 32 * bs then none
    else
      let clusterBytes := sizeTableLookup tbl size
      let spc0 := u8 (clusterBytes / bs)
      let spc := if spc0 = 0 then 1 else spc0
      let ts := u32 (size / bs)
      let denom := u32 (u32 bs * spc + 8)
      let spf := u16 (sub32 (u32 (u32 (u32 (4 * sub32 ts 32) + u32 (8 * spc)) + denom)) 1 / denom)
      -- int64 from here on
      if ts ≤ 32 + 2 * spf then none
      else
        let ds := ts - 32 - 2 * spf
        let cc := u32 (ds / spc)
        if cc = 0 then none
        else if ds * bs < 32 * KB then none
        else some ⟨.f32, bs, spc, 32, spf, 0, ts⟩

end Diskfs.Fat
