/-
  Layer E for a TREE of directories: a FAT volume as table + device + a tree of nodes, every
  node owning one cluster chain (files: their data, directories: their entry list), the root
  being either a chain (FAT32) or the fixed region of FAT12/16 (`chain = []`).

  Mirror of filesystem/fat12/fat12.go as it is NOW:
    readDirWithMkdir (path walk, one missing component created per `mkdir` step)  → `atDirT`, `dstep (.mkdir ..)`
    OpenFile(O_CREATE) / mkFile        → `dstep (.create ..)`
    File.Write (fresh handle)          → `dstep (.writeAt ..)`
    OpenFile(O_TRUNC)                  → `dstep (.truncate ..)`
    Remove                             → `dstep (.remove ..)`
    Rename (same directory only)       → `dstep (.rename ..)`
    writeDirectoryEntries              → `writeDir`: the directory's chain is grown or shrunk to
        exactly the clusters its entries need (no cut-to-one-cluster any more: fix 5b30bf0), a
        failure to grow is ENOSPC before anything changed; the fixed root refuses when its
        slots are exhausted; then one WriteAt per cluster of the chain.
  A refused call returns the state it was given (the code gives back the cluster of the entry
  it could not record: releaseCluster).
  What a directory's bytes ARE is not modelled (the codec is proved separately,
  `dir_parse_ser`): the images written are arbitrary parameters of the operation (`img`), only
  where they land matters.  `slots name` = number of 32-byte slots an entry of that name takes.
  Core Lean only.
-/
import DiskfsModel.Model.Fat.FlatFs
namespace Diskfs.Fat

inductive TNode
  | file (name : Spec.Name) (chain : List Nat) (size : Nat)
  | dir (name : Spec.Name) (chain : List Nat) (kids : List TNode)

def TNode.name : TNode → Spec.Name
  | .file n _ _ => n
  | .dir n _ _ => n

def TNode.chain : TNode → List Nat
  | .file _ c _ => c
  | .dir _ c _ => c

def TNode.rename : TNode → Spec.Name → TNode
  | .file _ c s, n => .file n c s
  | .dir _ c ks, n => .dir n c ks

mutual
/-- every chain of the subtree, the node's own first -/
def TNode.owners : TNode → List (List Nat)
  | .file _ c _ => [c]
  | .dir _ c ks => c :: kidsOwners ks
def kidsOwners : List TNode → List (List Nat)
  | [] => []
  | t :: ks => t.owners ++ kidsOwners ks
end

mutual
/-- the abstraction: what a reader of the volume sees of a node -/
def TNode.abs (d : Dev) (io : IOGeom) : TNode → Spec.Name × Spec.Node
  | .file n c sz => (n, .file (fileContent d io c sz))
  | .dir n _ ks => (n, .dir (kidsAbs d io ks))
def kidsAbs (d : Dev) (io : IOGeom) : List TNode → Spec.Tree
  | [] => []
  | t :: ks => t.abs d io :: kidsAbs d io ks
end

structure TGeom where
  f : FGeom
  /-- 32-byte slots an entry with this name occupies (8.3 entry + long-name slots) -/
  slots : Spec.Name → Nat
  /-- FAT12/16: slots of the fixed root region (`rootDirMaxEntries`) -/
  rootCap : Nat
  /-- slots of the root directory that are not children (the volume label) -/
  rootBase : Nat
  /-- device offset of the fixed root region (`rootDirOffset + start`) -/
  rootOff : Nat

/-- a directory together with the volume's table and device.  `chain = []` is the fixed root. -/
structure DirSt where
  m : CMap
  d : Dev
  chain : List Nat
  kids : List TNode

/-- outcome classes: `spec e` = the error the specification prescribes; `other` = a refusal of
    the code the specification does not prescribe (rename onto the same name, impossible paths) -/
inductive TRes
  | ok
  | nospace
  | rootfull
  | spec (e : Spec.Res)
  | other
deriving Repr, DecidableEq

inductive TOp
  | mkdir (dir : List Spec.Name) (name : Spec.Name) (img img2 : Bytes)
  | create (dir : List Spec.Name) (name : Spec.Name) (img : Bytes)
  | writeAt (dir : List Spec.Name) (name : Spec.Name) (off : Nat) (data : Bytes) (img : Bytes)
  | truncate (dir : List Spec.Name) (name : Spec.Name) (img : Bytes)
  | rename (dir : List Spec.Name) (old new : Spec.Name) (img : Bytes)
  | remove (dir : List Spec.Name) (name : Spec.Name) (img : Bytes)

def TOp.toSpec : TOp → Spec.Op
  | .mkdir d n _ _ => .mkdir d n
  | .create d n _ => .create d n
  | .writeAt d n off data _ => .writeAt d n off data
  | .truncate d n _ => .truncate d n
  | .rename d o n _ => .rename d o n
  | .remove d n _ => .remove d n

def TOp.dir : TOp → List Spec.Name
  | .mkdir d _ _ _ | .create d _ _ | .writeAt d _ _ _ _ | .truncate d _ _ | .rename d _ _ _ | .remove d _ _ => d

/-! ### one directory level -/

def kfind (eqn : Spec.Name → Spec.Name → Bool) (ks : List TNode) (n : Spec.Name) : Option TNode :=
  ks.find? fun t => eqn t.name n

def kset (eqn : Spec.Name → Spec.Name → Bool) (ks : List TNode) (n : Spec.Name) (v : TNode) : List TNode :=
  ks.map fun t => if eqn t.name n then v else t

def kerase (eqn : Spec.Name → Spec.Name → Bool) (ks : List TNode) (n : Spec.Name) : List TNode :=
  ks.filter fun t => !(eqn t.name n)

def krename (eqn : Spec.Name → Spec.Name → Bool) (ks : List TNode) (o n : Spec.Name) : List TNode :=
  ks.map fun t => if eqn t.name o then t.rename n else t

/-- a directory's chain as an owner of clusters (the fixed root owns none) -/
def chainOwner : List Nat → List (List Nat)
  | [] => []
  | c :: cs => [c :: cs]

/-- slots of a directory: `base` (".", ".." / volume label) plus its children's -/
def dirSlots (g : TGeom) (base : Nat) (ks : List TNode) : Nat :=
  base + (ks.map fun t => g.slots t.name).sum

/-- clusters `entriesToBytes` fills: the entries padded to whole clusters -/
def dirNeed (g : TGeom) (base : Nat) (ks : List TNode) : Nat :=
  clusterCount g.f.io.bpc (32 * dirSlots g base ks)

/-- the WriteAt calls of `writeDirectoryEntries`: one cluster-sized piece of the image per cluster -/
def dirWrs (io : IOGeom) : List Nat → Bytes → List Wr
  | [], _ => []
  | c :: cs, img => ⟨clusterOff io c, img.take io.bpc⟩ :: dirWrs io cs (img.drop io.bpc)

structure WD where
  m : CMap
  d : Dev
  chain : List Nat

/-- `writeDirectoryEntries(dir)` for a directory with children `ks` -/
def writeDir (g : TGeom) (fuel : Nat) (m : CMap) (d : Dev) (chain : List Nat) (base : Nat)
    (ks : List TNode) (img : Bytes) : Except TRes WD :=
  match chain with
  | [] =>
    -- fixed root region of FAT12/16
    if dirSlots g base ks ≤ g.rootCap then
      .ok ⟨m, applyWrs d [⟨g.rootOff, img.take (32 * g.rootCap)⟩], []⟩
    else .error .rootfull
  | _ :: _ =>
    let need := dirNeed g base ks
    if need = 0 then .error .other                 -- b[0:bytesPerCluster] of an empty image panics
    else if need = chain.length then .ok ⟨m, applyWrs d (dirWrs g.f.io chain img), chain⟩
    else
      let r := falloc g.f fuel m (need * g.f.io.bpc) (chain.headD 0)
      match r.res with
      | none => .error .nospace
      | some l' =>
        let c' := l'.take need
        .ok ⟨r.m, applyWrs d (dirWrs g.f.io c' img), c'⟩

/-! one call inside the directory `s` (`base` = its slots that are not children) -/
section calls
variable (eqn : Spec.Name → Spec.Name → Bool) (g : TGeom) (fuel : Nat)

/-- one missing path component of `Mkdir` (readDirWithMkdir with doMake) -/
def dMkdir (n : Spec.Name) (img img2 : Bytes) (base : Nat) (s : DirSt) : DirSt × TRes :=
  match kfind eqn s.kids n with
  | some (.dir ..) => (s, .ok)
  | some (.file ..) => (s, .spec .notdir)
  | none =>
    let r := falloc g.f fuel s.m 1 0                                  -- mkSubdir
    match r.res with
    | none => (s, .nospace)
    | some l =>
      let d1 := applyWrs s.d (dirWrs g.f.io l img2)                   -- "." and ".." of the new directory
      match writeDir g fuel r.m d1 s.chain base (s.kids ++ [.dir n l []]) img with
      | .error e => (s, e)                                            -- releaseCluster
      | .ok w => (⟨w.m, w.d, w.chain, s.kids ++ [.dir n l []]⟩, .ok)

/-- `OpenFile(p, O_CREATE|…)` -/
def dCreate (n : Spec.Name) (img : Bytes) (base : Nat) (s : DirSt) : DirSt × TRes :=
  match kfind eqn s.kids n with
  | some _ => (s, .ok)                                                -- O_CREATE opens what exists
  | none =>
    let r := falloc g.f fuel s.m 1 0                                  -- mkFile
    match r.res with
    | none => (s, .nospace)
    | some l =>
      match writeDir g fuel r.m s.d s.chain base (s.kids ++ [.file n l 0]) img with
      | .error e => (s, e)                                            -- releaseCluster
      | .ok w => (⟨w.m, w.d, w.chain, s.kids ++ [.file n l 0]⟩, .ok)

/-- `File.Write` through a fresh handle positioned at `off` -/
def dWrite (n : Spec.Name) (off : Nat) (data img : Bytes) (base : Nat) (s : DirSt) : DirSt × TRes :=
  match kfind eqn s.kids n with
  | none => (s, .spec .notfound)
  | some (.dir ..) => (s, .spec .isdir)
  | some (.file fn fc size) =>
    if data.length = 0 then (s, .ok)
    else
      let newSize := Nat.max size (off + data.length)
      let r := falloc g.f fuel s.m newSize (fc.headD 0)
      match r.res with
      | none => (s, .nospace)
      | some l' =>
        match writeH true g.f.io l' size off data with
        | none => (s, .other)
        | some ws =>
          -- "update the parent that we have changed the file size"
          match writeDir g fuel r.m (applyWrs s.d ws) s.chain base (kset eqn s.kids n (.file fn l' newSize)) img with
          | .error e => (s, e)
          | .ok w => (⟨w.m, w.d, w.chain, kset eqn s.kids n (.file fn l' newSize)⟩, .ok)

/-- `OpenFile(p, O_TRUNC|…)`: the entry first, then the chain -/
def dTrunc (n : Spec.Name) (img : Bytes) (base : Nat) (s : DirSt) : DirSt × TRes :=
  match kfind eqn s.kids n with
  | none => (s, .spec .notfound)
  | some (.dir ..) => (s, .spec .isdir)
  | some (.file fn fc size) =>
    if size = 0 then (s, .ok)
    else
      match writeDir g fuel s.m s.d s.chain base (kset eqn s.kids n (.file fn (fc.take 1) 0)) img with
      | .error e => (s, e)
      | .ok w =>
        let r := falloc g.f fuel w.m 1 (fc.headD 0)
        match r.res with
        | none => (s, .nospace)
        | some _ => (⟨r.m, w.d, w.chain, kset eqn s.kids n (.file fn (fc.take 1) 0)⟩, .ok)

/-- `Remove(p)`: a file or an empty directory -/
def dRemove (n : Spec.Name) (img : Bytes) (base : Nat) (s : DirSt) : DirSt × TRes :=
  match kfind eqn s.kids n with
  | none => (s, .spec .notfound)
  | some (.dir _ _ (_ :: _)) => (s, .spec .notempty)
  | some t =>
    match writeDir g fuel s.m s.d s.chain base (kerase eqn s.kids n) img with
    | .error e => (s, e)
    | .ok w =>
      let r := freeChain g.f.kind g.f.max fuel w.m (t.chain.headD 0)
      if r.2 then (⟨r.1, w.d, w.chain, kerase eqn s.kids n⟩, .ok) else (s, .other)

/-- `Rename(old, new)` inside one directory (the code refuses any other) -/
def dRename (o n : Spec.Name) (img : Bytes) (base : Nat) (s : DirSt) : DirSt × TRes :=
  match kfind eqn s.kids o with
  | none => (s, .spec .notfound)
  | some _ =>
    if eqn o n then (s, .other)        -- renameEntry drops the entry itself: "cannot find file entry"
    else
      match kfind eqn s.kids n with
      | some (.dir ..) => (s, .spec .isdir)
      | none =>
        match writeDir g fuel s.m s.d s.chain base (krename eqn s.kids o n) img with
        | .error e => (s, e)
        | .ok w => (⟨w.m, w.d, w.chain, krename eqn s.kids o n⟩, .ok)
      | some (.file _ tc _) =>
        -- the entry that carries the new name is dropped and its chain released afterwards
        match writeDir g fuel s.m s.d s.chain base (krename eqn (kerase eqn s.kids n) o n) img with
        | .error e => (s, e)
        | .ok w =>
          let r := freeChain g.f.kind g.f.max fuel w.m (tc.headD 0)
          if r.2 then (⟨r.1, w.d, w.chain, krename eqn (kerase eqn s.kids n) o n⟩, .ok) else (s, .other)

def dstep (op : TOp) (base : Nat) (s : DirSt) : DirSt × TRes :=
  match op with
  | .mkdir _ n img img2 => dMkdir eqn g fuel n img img2 base s
  | .create _ n img => dCreate eqn g fuel n img base s
  | .writeAt _ n off data img => dWrite eqn g fuel n off data img base s
  | .truncate _ n img => dTrunc eqn g fuel n img base s
  | .remove _ n img => dRemove eqn g fuel n img base s
  | .rename _ o n img => dRename eqn g fuel o n img base s

end calls

/-- the path walk of `readDirWithMkdir(dir, false)`: `f` runs in the directory reached by `path`;
    on success the directory's node is replaced on the way back -/
def atDirT (eqn : Spec.Name → Spec.Name → Bool) (f : Nat → DirSt → DirSt × TRes) :
    List Spec.Name → Nat → DirSt → DirSt × TRes
  | [], base, s => f base s
  | n :: rest, _, s =>
    match kfind eqn s.kids n with
    | some (.dir nm c ks) =>
      let r := atDirT eqn f rest 2 ⟨s.m, s.d, c, ks⟩
      (if r.2 = .ok then ⟨r.1.m, r.1.d, s.chain, kset eqn s.kids n (.dir nm r.1.chain r.1.kids)⟩ else s, r.2)
    | some (.file ..) => (s, .spec .notdir)
    | none => (s, .spec .notfound)

/-- one call on the volume (`s` is the root directory) -/
def tstep (eqn : Spec.Name → Spec.Name → Bool) (g : TGeom) (fuel : Nat) (s : DirSt) (op : TOp) : DirSt × TRes :=
  atDirT eqn (dstep eqn g fuel op) op.dir g.rootBase s

def trun (eqn : Spec.Name → Spec.Name → Bool) (g : TGeom) (fuel : Nat) (s : DirSt) (ops : List TOp) : DirSt :=
  ops.foldl (fun s op => (tstep eqn g fuel s op).1) s

/-- `Mkdir(p)` = mkdir -p: one `mkdir` step per component, stopping at the first refusal
    (what was created before stays) -/
def tmkdirAll (eqn : Spec.Name → Spec.Name → Bool) (g : TGeom) (fuel : Nat) (img img2 : Bytes) :
    DirSt → List Spec.Name → List Spec.Name → DirSt × TRes
  | s, _, [] => (s, .ok)
  | s, pre, n :: rest =>
    let r := tstep eqn g fuel s (.mkdir pre n img img2)
    if r.2 = .ok then tmkdirAll eqn g fuel img img2 r.1 (pre ++ [n]) rest else r

/-- the same on the specification side -/
def specMkdirAll (eqn : Spec.Name → Spec.Name → Bool) :
    Spec.Tree → List Spec.Name → List Spec.Name → Spec.Tree × Spec.Res
  | t, _, [] => (t, .ok)
  | t, pre, n :: rest =>
    let r := Spec.step eqn t (.mkdir pre n)
    if r.2 = .ok then specMkdirAll eqn r.1 (pre ++ [n]) rest else r

/-! ### invariant -/

mutual
/-- files have exactly the clusters their size needs (one when empty); names inside a
    directory are pairwise different under `eqn` -/
def TNode.WF (eqn : Spec.Name → Spec.Name → Bool) (g : TGeom) : TNode → Prop
  | .file _ c sz => c.length = Nat.max (clusterCount g.f.io.bpc sz) 1
  | .dir _ _ ks => kidsWF eqn g ks
def kidsWF (eqn : Spec.Name → Spec.Name → Bool) (g : TGeom) : List TNode → Prop
  | [] => True
  | t :: ks => t.WF eqn g ∧ (∀ u ∈ ks, eqn t.name u.name = false) ∧ kidsWF eqn g ks
end

/-- the invariant of the volume: the cluster map is sound with EXACTLY the chains of the tree
    as owners (every used cluster lies in exactly one file's or directory's chain), and the
    tree is well formed -/
structure TInv (eqn : Spec.Name → Spec.Name → Bool) (g : TGeom) (s : DirSt) : Prop where
  table : Inv g.f.kind g.f.lim s.m (chainOwner s.chain ++ kidsOwners s.kids)
  wf : kidsWF eqn g s.kids

/-- what the theorems assume of a geometry -/
structure TGeomOk (g : TGeom) : Prop where
  bpc : 0 < g.f.io.bpc
  lim : LimOk g.f.kind g.f.lim
  max : g.f.lim ≤ g.f.max
  /-- the fixed root region lies in front of the data area -/
  root : g.rootOff + 32 * g.rootCap ≤ g.f.io.start + g.f.io.dataStart

/-- the tree a reader sees -/
def tabs (g : TGeom) (s : DirSt) : Spec.Tree := kidsAbs s.d g.f.io s.kids

/-! ### second invariant: no directory is larger than its chain -/

/-- a directory with children `ks` fits its storage: the fixed root region has a slot for every
    entry; a chained directory has exactly the clusters its entries need (what
    `writeDirectoryEntries` leaves behind), so no entry lies beyond the end of the chain -/
def LevelFit (g : TGeom) (base : Nat) (chain : List Nat) (ks : List TNode) : Prop :=
  (chain = [] → dirSlots g base ks ≤ g.rootCap) ∧ (chain ≠ [] → chain.length = dirNeed g base ks)

mutual
def TNode.Fit (g : TGeom) : TNode → Prop
  | .file _ _ _ => True
  | .dir _ c ks => c ≠ [] ∧ LevelFit g 2 c ks ∧ kidsFit g ks
def kidsFit (g : TGeom) : List TNode → Prop
  | [] => True
  | t :: ks => t.Fit g ∧ kidsFit g ks
end

/-- every directory of the volume, the root included, fits its storage -/
structure TFit (g : TGeom) (s : DirSt) : Prop where
  root : LevelFit g g.rootBase s.chain s.kids
  kids : kidsFit g s.kids

end Diskfs.Fat
