/-
  Boot sector, backup boot sector and FSInfo sector of a FAT volume — byte encoders and decoders.
  Mirrors
    filesystem/fat12/dos20bpb.go, dos331bpb.go, dos40ebpb.go, msdosbootsector.go   (FAT12/16, 512 bytes)
    filesystem/fat32/dos71bpb.go, msdosbootsector.go                              (FAT32, one sector)
    filesystem/fat32/fsinfosector.go                                              (FSInfo, one sector)
  A sector is a list of fixed-width fields (`Fld`): little-endian numbers and raw byte strings; the
  same field lists drive the encoder (`encF`) and the decoder (`decF`), so the round trip is one
  induction (Proofs/FatBoot.lean).  The volume serial number of the FAT32 EBPB is written big
  endian by the Go code (binary.BigEndian.PutUint32) — mirrored as such.  Labels and the filesystem
  type are kept as the raw space-padded bytes; the trailing-space trimming regexp of the readers is
  not modelled.
  `boot16OfGeom` / `boot32OfGeom` / `fsinfoFresh` are what the three `Create`s put into those
  sectors for a geometry of Model/Fat/Geom.lean.
  Core Lean only.
-/
import DiskfsModel.Model.Fat.Geom
namespace Diskfs.Fat

inductive Fld
  | le (w : Nat) (v : Nat)
  | raw (b : Bytes)
deriving Repr, DecidableEq

inductive Shp
  | le (w : Nat)
  | raw (n : Nat)
deriving Repr, DecidableEq

def Fld.shape : Fld → Shp
  | .le w _ => .le w
  | .raw b => .raw b.length

def Fld.enc : Fld → Bytes
  | .le w v => leEnc w v
  | .raw b => b

def encF : List Fld → Bytes
  | [] => []
  | f :: r => f.enc ++ encF r

def decF : List Shp → Bytes → List Fld
  | [], _ => []
  | .le w :: r, b => .le w (leDec (b.take w)) :: decF r (b.drop w)
  | .raw n :: r, b => .raw (b.take n) :: decF r (b.drop n)

/-- the value fits the field -/
def Fld.WF : Fld → Prop
  | .le w v => v < 256 ^ w
  | .raw _ => True

/-! ### records -/

/-- DOS 2.0 + 3.31 BPB, shared by the three kinds -/
structure Bpb where
  bps : Nat
  spc : Nat
  reserved : Nat
  fatCount : Nat
  rootEntries : Nat
  ts16 : Nat
  media : Nat
  spf16 : Nat
  spt : Nat
  heads : Nat
  hidden : Nat
  ts32 : Nat
deriving Repr, DecidableEq

def Bpb.fields (b : Bpb) : List Fld :=
  [.le 2 b.bps, .le 1 b.spc, .le 2 b.reserved, .le 1 b.fatCount, .le 2 b.rootEntries, .le 2 b.ts16,
   .le 1 b.media, .le 2 b.spf16, .le 2 b.spt, .le 2 b.heads, .le 4 b.hidden, .le 4 b.ts32]

def bpbShape : List Shp := [.le 2, .le 1, .le 2, .le 1, .le 2, .le 2, .le 1, .le 2, .le 2, .le 2, .le 4, .le 4]

/-- FAT12/16 boot sector (DOS 4.0 EBPB, long form) -/
structure Boot16 where
  jump : Bytes
  oem : Bytes
  bpb : Bpb
  drive : Nat
  flags : Nat
  extSig : Nat
  serial : Nat
  label : Bytes
  fstype : Bytes
  code : Bytes
deriving Repr, DecidableEq

def Boot16.fields (s : Boot16) : List Fld :=
  [.raw s.jump, .raw s.oem] ++ s.bpb.fields ++
  [.le 1 s.drive, .le 1 s.flags, .le 1 s.extSig, .le 4 s.serial, .raw s.label, .raw s.fstype,
   .raw s.code, .raw [0x55, 0xAA]]

def boot16Shape : List Shp :=
  [.raw 3, .raw 8] ++ bpbShape ++ [.le 1, .le 1, .le 1, .le 4, .raw 11, .raw 8, .raw 448, .raw 2]

/-- `msDosBootSector.toBytes` (fat12) -/
def Boot16.bytes (s : Boot16) : Bytes := encF s.fields

/-- FAT32 boot sector (DOS 7.1 EBPB, long form) -/
structure Boot32 where
  jump : Bytes
  oem : Bytes
  bpb : Bpb
  spf32 : Nat
  mirror : Nat
  version : Nat
  rootCluster : Nat
  fsinfo : Nat
  backup : Nat
  bootFile : Bytes
  drive : Nat
  flags : Nat
  extSig : Nat
  serial : Nat
  label : Bytes
  fstype : Bytes
  code : Bytes
deriving Repr, DecidableEq

def Boot32.fields (s : Boot32) : List Fld :=
  [.raw s.jump, .raw s.oem] ++ s.bpb.fields ++
  [.le 4 s.spf32, .le 2 s.mirror, .le 2 s.version, .le 4 s.rootCluster, .le 2 s.fsinfo, .le 2 s.backup,
   .raw s.bootFile, .le 1 s.drive, .le 1 s.flags, .le 1 s.extSig, .raw (beEnc 4 s.serial), .raw s.label,
   .raw s.fstype, .raw s.code, .raw [0x55, 0xAA]]

def boot32Shape : List Shp :=
  [.raw 3, .raw 8] ++ bpbShape ++
  [.le 4, .le 2, .le 2, .le 4, .le 2, .le 2, .raw 12, .le 1, .le 1, .le 1, .raw 4, .raw 11, .raw 8, .raw 420, .raw 2]

/-- `msDosBootSector.toBytes(sectorSize)` (fat32): 512 bytes of fields, zero padding up to the sector -/
def Boot32.bytes (s : Boot32) (sectorSize : Nat) : Bytes := encF s.fields ++ zeros (sectorSize - 512)

/-- FSInfo sector -/
structure FsInfo where
  free : Nat
  last : Nat
deriving Repr, DecidableEq

def FsInfo.fields (s : FsInfo) : List Fld :=
  [.raw (beEnc 4 0x52526141), .raw (zeros 480), .raw (beEnc 4 0x72724161), .le 4 s.free, .le 4 s.last,
   .raw (zeros 12), .raw (beEnc 4 0x000055AA)]

def fsinfoShape : List Shp := [.raw 4, .raw 480, .raw 4, .le 4, .le 4, .raw 12, .raw 4]

/-- `FSInformationSector.toBytes(sectorSize)` -/
def FsInfo.bytes (s : FsInfo) (sectorSize : Nat) : Bytes := encF s.fields ++ zeros (sectorSize - 512)

/-! ### decoders (fixed offsets = the field widths in order) -/

def Bpb.ofFields : List Fld → Option Bpb
  | [.le 2 bps, .le 1 spc, .le 2 reserved, .le 1 fatCount, .le 2 rootEntries, .le 2 ts16, .le 1 media,
     .le 2 spf16, .le 2 spt, .le 2 heads, .le 4 hidden, .le 4 ts32] =>
    some ⟨bps, spc, reserved, fatCount, rootEntries, ts16, media, spf16, spt, heads, hidden, ts32⟩
  | _ => none

def Boot16.parse (b : Bytes) : Option Boot16 :=
  match decF boot16Shape b with
  | [.raw jump, .raw oem, f1, f2, f3, f4, f5, f6, f7, f8, f9, f10, f11, f12,
     .le 1 drive, .le 1 flags, .le 1 extSig, .le 4 serial, .raw label, .raw fstype, .raw code, .raw sig] =>
    if sig = [0x55, 0xAA] then
      (Bpb.ofFields [f1, f2, f3, f4, f5, f6, f7, f8, f9, f10, f11, f12]).map fun bpb =>
        ⟨jump, oem, bpb, drive, flags, extSig, serial, label, fstype, code⟩
    else none
  | _ => none

def Boot32.parse (b : Bytes) : Option Boot32 :=
  match decF boot32Shape b with
  | [.raw jump, .raw oem, f1, f2, f3, f4, f5, f6, f7, f8, f9, f10, f11, f12,
     .le 4 spf32, .le 2 mirror, .le 2 version, .le 4 rootCluster, .le 2 fsinfo, .le 2 backup, .raw bootFile,
     .le 1 drive, .le 1 flags, .le 1 extSig, .raw serial, .raw label, .raw fstype, .raw code, .raw sig] =>
    if sig = [0x55, 0xAA] then
      (Bpb.ofFields [f1, f2, f3, f4, f5, f6, f7, f8, f9, f10, f11, f12]).map fun bpb =>
        ⟨jump, oem, bpb, spf32, mirror, version, rootCluster, fsinfo, backup, bootFile, drive, flags, extSig,
          beDec serial, label, fstype, code⟩
    else none
  | _ => none

def FsInfo.parse (b : Bytes) : Option FsInfo :=
  match decF fsinfoShape b with
  | [.raw s1, .raw _, .raw s2, .le 4 free, .le 4 last, .raw _, .raw s3] =>
    if s1 = beEnc 4 0x52526141 ∧ s2 = beEnc 4 0x72724161 ∧ s3 = beEnc 4 0x000055AA then some ⟨free, last⟩ else none
  | _ => none

/-! ### what `Create` writes -/

def strBytes (s : String) : Bytes := s.toList.map fun c => UInt8.ofNat c.toNat

/-- the DOS 2.0 / 3.31 fields the three `Create`s derive from the geometry
    (`TotalSectors` in 16 bits when it fits, else in `TotalSectors32`; FAT32 always uses the latter) -/
def bpbOfGeom (g : Geom) (media spt heads : Nat) : Bpb :=
  match g.kind with
  | .f32 => ⟨g.bps, g.spc, g.reserved, 2, 0, 0, media, 0, spt, heads, 0, g.totalSectors⟩
  | _ =>
    if g.totalSectors ≤ 0xFFFF then ⟨g.bps, g.spc, g.reserved, 2, g.rootEntries, g.totalSectors, media, g.fatSectors, spt, heads, 0, 0⟩
    else ⟨g.bps, g.spc, g.reserved, 2, g.rootEntries, 0, media, g.fatSectors, spt, heads, 0, g.totalSectors⟩

/-- fat12.Create: media 0xF0 up to 2 MiB else 0xF8, 18 sectors/track, 2 heads, drive 0 -/
def boot12OfGeom (g : Geom) (size serial : Nat) (label : Bytes) : Boot16 :=
  ⟨[0xEB, 0x3C, 0x90], strBytes "godiskfs", bpbOfGeom g (if size ≤ 2 * MB then 0xF0 else 0xF8) 18 2,
   0, 0, 0x29, serial, label, strBytes "FAT12   ", zeros 448⟩

/-- fat16.Create: media 0xF8, 63 sectors/track, 255 heads, drive 0x80 -/
def boot16OfGeom (g : Geom) (serial : Nat) (label : Bytes) : Boot16 :=
  ⟨[0xEB, 0x3C, 0x90], strBytes "godiskfs", bpbOfGeom g 0xF8 63 255,
   0x80, 0, 0x29, serial, label, strBytes "FAT16   ", zeros 448⟩

/-- fat32.Create: root cluster 2, FSInfo at sector 1, backup boot sector at 6, drive 128 -/
def boot32OfGeom (g : Geom) (serial : Nat) (label : Bytes) : Boot32 :=
  ⟨[0xEB, 0x58, 0x90], strBytes "godiskfs", bpbOfGeom g 0xF8 1 1,
   g.fatSectors, 0, 0, 2, 1, 6, zeros 12, 128, 0, 0x29, serial, label, strBytes "FAT32   ", zeros 420⟩

/-- both counters "unknown" -/
def fsinfoFresh : FsInfo := ⟨0xFFFFFFFF, 0xFFFFFFFF⟩

end Diskfs.Fat
