/-
  File I/O through a cluster chain — mirror of filesystem/fat12/file.go
    File.Read  → `readH`   (partial first cluster, then whole clusters, clamp to the rest of the file)
    File.Write → `writeCore` / `writeH` (the WriteAt calls issued after allocateSpace returned `chain`)
  Switches: `clamp`  = the partial-cluster branch of Read is limited to the bytes left in the file
                       (as found it is not: finding fat-read-past-eof, owned by C10);
            `zeroHole` = Write zero-fills [oldSize, offset) when the offset lies past EOF
                       (as found it does not: finding fat-hole-stale-bytes).
  `none` = the Go code panics (index out of range / negative slice length).
  Core Lean only.
-/
import DiskfsModel.Core.Bytes
namespace Diskfs.Fat

structure IOGeom where
  /-- byte offset of the volume on the device (`fs.start`) -/
  start : Nat
  /-- byte offset of cluster 2 inside the volume (`fs.dataStart`) -/
  dataStart : Nat
  /-- bytes per cluster -/
  bpc : Nat
deriving Repr

def clusterOff (g : IOGeom) (c : Nat) : Nat := g.start + g.dataStart + (c - 2) * g.bpc

/-- all bytes of the clusters of a chain, in chain order -/
def chainBytes (d : Dev) (g : IOGeom) (chain : List Nat) : Bytes :=
  chain.flatMap fun c => readAt d (clusterOff g c) g.bpc

/-- the file's contents: the first `size` bytes of its chain -/
def fileContent (d : Dev) (g : IOGeom) (chain : List Nat) (size : Nat) : Bytes :=
  (chainBytes d g chain).take size

/-- the whole-cluster loop of `Read`: `total` bytes are already in `acc` -/
def readLoop (d : Dev) (g : IOGeom) (maxRead : Nat) : List Nat → Nat → Bytes → Option Bytes
  | [], _, acc => some acc
  | c :: cs, total, acc =>
    if total > maxRead then none            -- left < 0: b[total:total+toRead] panics
    else
      let toRead := min g.bpc (maxRead - total)
      let acc' := acc ++ readAt d (clusterOff g c) toRead
      if total + toRead ≥ maxRead then some acc' else readLoop d g maxRead cs (total + toRead) acc'

/-- `File.Read(b)` with `len(b) = n` at offset `off`: (bytes read, new offset, io.EOF returned) -/
def readH (clamp : Bool) (d : Dev) (g : IOGeom) (chain : List Nat) (fileSize off n : Nat) :
    Option (Bytes × Nat × Bool) :=
  if fileSize ≤ off then some ([], off, true)
  else
    let maxRead := min (fileSize - off) n
    let fin := fun (r : Option Bytes) => r.map fun data => (data, off + data.length, decide (off + data.length ≥ fileSize))
    if off = 0 then fin (readLoop d g maxRead chain 0 [])
    else
      let ci := off / g.bpc
      if ci ≥ chain.length then none         -- clusters[clusterIndex]: index out of range
      else
        let rem := off % g.bpc
        if rem = 0 then fin (readLoop d g maxRead (chain.drop ci) 0 [])
        else
          let toRead0 := min (g.bpc - rem) n
          let toRead := if clamp then min toRead0 maxRead else toRead0
          let acc := readAt d (clusterOff g (chain.getD ci 0) + rem) toRead
          fin (readLoop d g maxRead (chain.drop (ci + 1)) toRead acc)

/-- on which calls the two behaviours of `clamp` differ -/
def readClampTrigger (g : IOGeom) (fileSize off n : Nat) : Bool :=
  decide (off < fileSize) && decide (off % g.bpc ≠ 0) && decide (min (g.bpc - off % g.bpc) n > fileSize - off)

/-- the whole-cluster loop of `Write`: it visits every remaining cluster (zero-length writes included) -/
def writeLoop (g : IOGeom) (p : Bytes) : List Nat → Nat → List Wr → List Wr
  | [], _, ws => ws
  | c :: cs, total, ws =>
    let toWrite := min g.bpc (p.length - total)
    writeLoop g p cs (total + toWrite) (ws ++ [⟨clusterOff g c, (p.drop total).take toWrite⟩])

/-- the WriteAt calls of `File.Write(p)` at offset `off` once `allocateSpace` returned `chain` -/
def writeCore (g : IOGeom) (chain : List Nat) (off : Nat) (p : Bytes) : Option (List Wr) :=
  if off = 0 then some (writeLoop g p chain 0 [])
  else
    let ci := off / g.bpc
    if ci ≥ chain.length then none
    else
      let rem := off % g.bpc
      if rem = 0 then some (writeLoop g p (chain.drop ci) 0 [])
      else
        let toWrite := min (g.bpc - rem) p.length
        some (writeLoop g p (chain.drop (ci + 1)) toWrite [⟨clusterOff g (chain.getD ci 0) + rem, p.take toWrite⟩])

def writeH (zeroHole : Bool) (g : IOGeom) (chain : List Nat) (oldSize off : Nat) (p : Bytes) : Option (List Wr) :=
  if zeroHole ∧ off > oldSize then
    match writeCore g chain oldSize (zeros (off - oldSize)), writeCore g chain off p with
    | some a, some b => some (a ++ b)
    | _, _ => none
  else writeCore g chain off p

/-- drop the zero-length writes (the device log comparison ignores them) -/
def nonEmptyWrs (ws : List Wr) : List Wr := ws.filter fun w => w.data.length > 0

end Diskfs.Fat
