/-
  Directory BYTES of the tree model, and re-opening a volume from its bytes.

  Model/Fat/TreeFs.lean says where a directory's image lands; this file says what the image IS:
  the serialisation (`serDir` / `fixedImg`, Model/Fat/DirCodec.lean = entriesToBytes /
  entriesToBytesFixed over directoryEntry.toBytes) of
      the entries in front of the children   root: the volume label as Create left it (`rootPre`);
                                             subdirectory: "." (its own first cluster) and ".."
                                             (its parent's first cluster; `rootPar` when the parent
                                             is the root: readDirWithMkdir takes
                                             currentDir.clusterLocation) — `dots`
      one entry per child, in list order     8.3 name, long name, case bits (`enc`), attribute bits
                                             and the five date/time words (`stamp`, parameters: the
                                             model does not compute clocks), directory bit, first
                                             cluster of the child's chain, size (0 for a
                                             directory) — `entOf`
  `image X g s` is the device with every directory's serialisation in the clusters of its chain
  (the fixed root: in its region), every other byte as in `s.d`.
  `reopen` reads a volume back the way fat12.Read + ReadDir / OpenFile do (and the engine's raw
  reader): the root's bytes (fixed region, or the chain found by walking the FAT from the root
  cluster), `parseDir`, skip volume labels, "." and "..", and for every remaining entry follow
  the FAT from its first cluster: a directory's chain is parsed in turn, a file's chain gives its
  first `size` bytes.
  Core Lean only.
-/
import DiskfsModel.Model.Fat.TreeFs
import DiskfsModel.Model.Fat.DirCodec
namespace Diskfs.Fat

/-- how a name is spelled in its directory entry (createEntry / renameEntry: convertLfnSfn,
    numeric tail, long name kept when the 8.3 form loses something) -/
structure NameEnc where
  short : List Nat
  ext : List Nat
  long : Name
  lcase : Nat
deriving Repr, DecidableEq

/-- what an entry carries besides name, kind, cluster and size -/
structure EntMeta where
  /-- read-only 1, hidden 2, system 4, archive 32 -/
  attr : Nat
  cTime : Nat
  cDate : Nat
  aDate : Nat
  mTime : Nat
  mDate : Nat
deriving Repr, DecidableEq

structure ImgParams where
  enc : Spec.Name → NameEnc
  stamp : Spec.Name → EntMeta
  /-- date/time words of "." and ".." -/
  dotMeta : EntMeta
  /-- the root directory's entries in front of its children (the volume label) -/
  rootPre : List DirEntry
  /-- first cluster recorded in ".." of a child of the root -/
  rootPar : Nat

def mkEnt (X : ImgParams) (n : Spec.Name) (dirBit cluster size : Nat) : DirEntry :=
  { short := (X.enc n).short, ext := (X.enc n).ext, long := (X.enc n).long,
    attr := (X.stamp n).attr + dirBit, lcase := (X.enc n).lcase,
    cTime := (X.stamp n).cTime, cDate := (X.stamp n).cDate, aDate := (X.stamp n).aDate,
    mTime := (X.stamp n).mTime, mDate := (X.stamp n).mDate, cluster := cluster, size := size }

/-- the directory entry of a child -/
def entOf (X : ImgParams) : TNode → DirEntry
  | .file n c sz => mkEnt X n 0 (c.headD 0) sz
  | .dir n c _ => mkEnt X n 16 (c.headD 0) 0

def dotEnt (X : ImgParams) (nm : List Nat) (cluster : Nat) : DirEntry :=
  { short := nm, ext := [], long := [], attr := 16, lcase := 0,
    cTime := X.dotMeta.cTime, cDate := X.dotMeta.cDate, aDate := X.dotMeta.aDate,
    mTime := X.dotMeta.mTime, mDate := X.dotMeta.mDate, cluster := cluster, size := 0 }

/-- "." and ".." of a subdirectory -/
def dots (X : ImgParams) (self parent : Nat) : List DirEntry := [dotEnt X [46] self, dotEnt X [46, 46] parent]

/-- `entriesToBytesFixed(32 * cap)` when the entries fit -/
def fixedImg (cap : Nat) (es : List DirEntry) : Bytes :=
  let b := es.flatMap serEntry
  b ++ zeros (32 * cap - b.length)

/-! ### the image: one job (chain, bytes) per directory that owns a chain -/

mutual
def TNode.jobs (X : ImgParams) (bpc par : Nat) : TNode → List (List Nat × Bytes)
  | .file _ _ _ => []
  | .dir _ c ks => (c, serDir bpc (dots X (c.headD 0) par ++ ks.map (entOf X))) :: kidsJobs X bpc (c.headD 0) ks
def kidsJobs (X : ImgParams) (bpc par : Nat) : List TNode → List (List Nat × Bytes)
  | [] => []
  | t :: ks => t.jobs X bpc par ++ kidsJobs X bpc par ks
end

/-- first cluster recorded in ".." of the root's children -/
def rootParOf (X : ImgParams) (_s : DirSt) : Nat := X.rootPar

def rootEntries (X : ImgParams) (s : DirSt) : List DirEntry := X.rootPre ++ s.kids.map (entOf X)

def rootJobs (X : ImgParams) (g : TGeom) (s : DirSt) : List (List Nat × Bytes) :=
  (chainOwner s.chain).map (fun c => (c, serDir g.f.io.bpc (rootEntries X s))) ++
    kidsJobs X g.f.io.bpc (rootParOf X s) s.kids

def jobWrs (io : IOGeom) (js : List (List Nat × Bytes)) : List Wr := js.flatMap fun j => dirWrs io j.1 j.2

/-- the fixed root region of FAT12/16 (nothing when the root is a chain) -/
def rootWrs (X : ImgParams) (g : TGeom) (s : DirSt) : List Wr :=
  match s.chain with
  | [] => [⟨g.rootOff, fixedImg g.rootCap (rootEntries X s)⟩]
  | _ :: _ => []

/-- the volume's bytes: every directory holds the serialisation of its child list -/
def image (X : ImgParams) (g : TGeom) (s : DirSt) : Dev :=
  applyWrs (applyWrs s.d (rootWrs X g s)) (jobWrs g.f.io (rootJobs X g s))

/-- the bytes of a directory as `image` has them (what the correspondence compares) -/
def dirBytesOf (X : ImgParams) (g : TGeom) (s : DirSt) (chain : List Nat) : Bytes :=
  match chain with
  | [] => readAt (image X g s) g.rootOff (32 * g.rootCap)
  | _ :: _ => chainBytes (image X g s) g.f.io chain

/-! ### re-opening -/

/-- ReadDir's filter: `isVolumeLabel || filenameShort == "" || ".." || "."` are skipped -/
def isRealEntry (e : DirEntry) : Bool :=
  !e.isLabel && e.short != [] && e.short != [46] && e.short != [46, 46]

def reopenNode (k : Kind) (max fuel : Nat) (m : CMap) (d : Dev) (io : IOGeom)
    (sub : List DirEntry → Spec.Tree) (e : DirEntry) : Spec.Name × Spec.Node :=
  (entryName e,
    match walk k max m fuel e.cluster with
    | .ok c => if e.isDir then .dir (sub (parseDir (chainBytes d io c))) else .file (fileContent d io c e.size)
    | _ => if e.isDir then .dir [] else .file [])

/-- the entries of one directory turned into a tree, to nesting depth `depth` -/
def reopenLvl (k : Kind) (max fuel : Nat) (m : CMap) (d : Dev) (io : IOGeom) : Nat → List DirEntry → Spec.Tree
  | 0, _ => []
  | depth + 1, es => (es.filter isRealEntry).map (reopenNode k max fuel m d io (reopenLvl k max fuel m d io depth))

/-- the root directory's bytes: the fixed region (`rootFirst = 0`) or the chain from `rootFirst` -/
def rootBytes (g : TGeom) (fuel : Nat) (m : CMap) (d : Dev) (rootFirst : Nat) : Bytes :=
  if rootFirst = 0 then readAt d g.rootOff (32 * g.rootCap)
  else match walk g.f.kind g.f.max m fuel rootFirst with
    | .ok c => chainBytes d g.f.io c
    | _ => []

/-- the tree a reader builds from table + bytes alone -/
def reopen (g : TGeom) (fuel depth : Nat) (m : CMap) (d : Dev) (rootFirst : Nat) : Spec.Tree :=
  reopenLvl g.f.kind g.f.max fuel m d g.f.io depth (parseDir (rootBytes g fuel m d rootFirst))

/-! ### what the theorems assume of the parameters -/

instance (e : DirEntry) : Decidable e.WF := by unfold DirEntry.WF; infer_instance

/-- a name the entry codec carries faithfully: its entry parses back, reads back as the same
    name, is not skipped by a reader, and takes the slots the geometry says -/
def NameOk (X : ImgParams) (g : TGeom) (n : Spec.Name) : Prop :=
  (mkEnt X n 0 0 0).WF ∧ entryName (mkEnt X n 0 0 0) = n ∧
  (X.enc n).short ≠ [46] ∧ (X.enc n).short ≠ [46, 46] ∧
  ((X.stamp n).attr < 8 ∨ (32 ≤ (X.stamp n).attr ∧ (X.stamp n).attr < 40)) ∧
  g.slots n = calculateSlots (X.enc n).long + 1

instance (X : ImgParams) (g : TGeom) (n : Spec.Name) : Decidable (NameOk X g n) := by
  unfold NameOk; infer_instance

mutual
/-- every name of the subtree is carried faithfully and every size fits the 32-bit field -/
def TNode.ImgOk (X : ImgParams) (g : TGeom) : TNode → Prop
  | .file n _ sz => NameOk X g n ∧ sz < 4294967296
  | .dir n _ ks => NameOk X g n ∧ kidsImgOk X g ks
def kidsImgOk (X : ImgParams) (g : TGeom) : List TNode → Prop
  | [] => True
  | t :: ks => t.ImgOk X g ∧ kidsImgOk X g ks
end

def metaOk (t : EntMeta) : Prop :=
  t.cTime < 65536 ∧ t.cDate < 65536 ∧ t.aDate < 65536 ∧ t.mTime < 65536 ∧ t.mDate < 65536

instance (t : EntMeta) : Decidable (metaOk t) := by unfold metaOk; infer_instance

/-- the parameters fit the volume -/
structure ImgParamsOk (X : ImgParams) (g : TGeom) : Prop where
  dot : metaOk X.dotMeta
  pre_wf : ∀ e ∈ X.rootPre, e.WF
  pre_skip : ∀ e ∈ X.rootPre, isRealEntry e = false
  /-- `rootBase` counts the slots of `rootPre` -/
  pre_slots : g.rootBase = (X.rootPre.map fun e => calculateSlots e.long + 1).sum
  par : X.rootPar < 4294967296
  lim32 : g.f.lim ≤ 4294967296

/-- what `reopen_image` needs of a call -/
def OpOk (X : ImgParams) (g : TGeom) : TOp → Prop
  | .mkdir _ n _ _ => NameOk X g n
  | .create _ n _ => NameOk X g n
  | .writeAt _ _ off data _ => off + data.length < 4294967296
  | .truncate _ _ _ => True
  | .rename _ _ n _ => NameOk X g n
  | .remove _ _ _ => True

instance (X : ImgParams) (g : TGeom) (op : TOp) : Decidable (OpOk X g op) := by
  cases op <;> unfold OpOk <;> infer_instance

mutual
def TNode.depth : TNode → Nat
  | .file _ _ _ => 1
  | .dir _ _ ks => 1 + kidsDepth ks
def kidsDepth : List TNode → Nat
  | [] => 0
  | t :: ks => Nat.max t.depth (kidsDepth ks)
end

mutual
/-- the chains of the files of a subtree -/
def TNode.fileOwners : TNode → List (List Nat)
  | .file _ c _ => [c]
  | .dir _ _ ks => kidsFileOwners ks
def kidsFileOwners : List TNode → List (List Nat)
  | [] => []
  | t :: ks => t.fileOwners ++ kidsFileOwners ks
end

/-! ### the raw check of C08 over the parsed entries -/

/-- the chain of a parsed entry: made of in-range clusters, ending in an end-of-chain mark, long
    enough for the recorded size -/
def entryChainOkB (g : TGeom) (fuel : Nat) (m : CMap) (e : DirEntry) : Bool :=
  match walk g.f.kind g.f.max m fuel e.cluster with
  | .ok c => chainOkB g.f.kind g.f.lim m c && decide (e.size ≤ c.length * g.f.io.bpc)
  | _ => false

/-- every entry found by parsing, at every level, has a sound chain -/
def checkLvl (g : TGeom) (fuel : Nat) (m : CMap) (d : Dev) : Nat → List DirEntry → Bool
  | 0, _ => true
  | depth + 1, es => (es.filter isRealEntry).all fun e =>
      entryChainOkB g fuel m e &&
        (if e.isDir then
          match walk g.f.kind g.f.max m fuel e.cluster with
          | .ok c => checkLvl g fuel m d depth (parseDir (chainBytes d g.f.io c))
          | _ => false
        else true)

def reopenCheck (g : TGeom) (fuel depth : Nat) (m : CMap) (d : Dev) (rootFirst : Nat) : Bool :=
  checkLvl g fuel m d depth (parseDir (rootBytes g fuel m d rootFirst))

/-! ### lack of space (Proofs/FatTreeSpace.lean) -/

/-- clusters the directory (`chain`, children `ks`) must grow by to hold one more entry named `n` -/
def growFor (g : TGeom) (base : Nat) (chain : List Nat) (ks : List TNode) (n : Spec.Name) : Nat :=
  if chain = [] then 0
  else clusterCount g.f.io.bpc (32 * (dirSlots g base ks + g.slots n)) - chain.length

/-- the directory reached by `path` from the directory `s` (`readDirWithMkdir(dir, false)`) -/
def dirAtT (eqn : Spec.Name → Spec.Name → Bool) : List Spec.Name → Nat → DirSt → Option (Nat × DirSt)
  | [], base, s => some (base, s)
  | n :: rest, _, s =>
    match kfind eqn s.kids n with
    | some (.dir _ c ks) => dirAtT eqn rest 2 ⟨s.m, s.d, c, ks⟩
    | _ => none

end Diskfs.Fat
