/-
  Directory entries — mirror of filesystem/fat12/directoryentry.go and directory.go
    toBytes / longFilenameBytes / lfnChecksum        → `serEntry`
    parseDirEntries / longFilenameEntryFromBytes     → `parseDir`
    timeToDateTime / dateTimeToTime                  → `packDate` `packTime` `unpackDate` `unpackTime`
    entriesToBytes / entriesToBytesFixed             → `serDir` / `serDirFixed`
  Names are lists of code points (`List Nat`); short names are lists of byte values.
  `utf8Len` reproduces Go's `len(string)` because `calculateSlots` counts bytes, not runes.
  Core Lean only.
-/
import DiskfsModel.Core.Bytes
namespace Diskfs.Fat

abbrev Name := List Nat

def utf8Len1 (r : Nat) : Nat := if r < 0x80 then 1 else if r < 0x800 then 2 else if r < 0x10000 then 3 else 4
def utf8Len (n : Name) : Nat := (n.map utf8Len1).sum

structure DirEntry where
  /-- filenameShort / fileExtension: byte values, no trailing spaces -/
  short : List Nat
  ext : List Nat
  /-- filenameLong as code points, [] = no long name -/
  long : Name
  /-- attribute byte (0x01 ro, 0x02 hidden, 0x04 system, 0x08 volume label, 0x10 directory, 0x20 archive) -/
  attr : Nat
  /-- byte 12: 0x08 lower-case base, 0x10 lower-case extension -/
  lcase : Nat
  cTime : Nat
  cDate : Nat
  aDate : Nat
  mTime : Nat
  mDate : Nat
  cluster : Nat
  size : Nat
deriving Repr, DecidableEq

def DirEntry.isDir (e : DirEntry) : Bool := e.attr / 16 % 2 = 1
def DirEntry.isLabel (e : DirEntry) : Bool := e.attr / 8 % 2 = 1

/-! ### date / time words -/

/-- `timeToDateTime`: uint16 truncation of `(year-1980)<<9 + month<<5 + day` (year ≥ 1980) -/
def packDate (year month day : Nat) : Nat := ((year - 1980) * 512 + month * 32 + day) % 65536
def packTime (hour minute second : Nat) : Nat := (hour * 2048 + minute * 32 + second / 2) % 65536
/-- `dateTimeToTime` field extraction -/
def unpackDate (d : Nat) : Nat × Nat × Nat := (d / 512 + 1980, d / 32 % 16, d % 32)
def unpackTime (t : Nat) : Nat × Nat × Nat := (t / 2048, t / 32 % 64, t % 32 * 2)

/-! ### 8.3 entry -/

def padTo (n : Nat) (l : List Nat) : List Nat := (l ++ List.replicate (n - l.length) 32).take n

def natsToBytes (l : List Nat) : Bytes := l.map UInt8.ofNat

/-- the 32-byte DOS entry -/
def dosBytes (e : DirEntry) : Bytes :=
  natsToBytes (padTo 8 e.short) ++ natsToBytes (padTo 3 e.ext) ++
  [UInt8.ofNat e.attr, UInt8.ofNat e.lcase, 0] ++
  leEnc 2 e.cTime ++ leEnc 2 e.cDate ++ leEnc 2 e.aDate ++
  leEnc 2 (e.cluster / 65536) ++ leEnc 2 e.mTime ++ leEnc 2 e.mDate ++
  leEnc 2 (e.cluster % 65536) ++ leEnc 4 e.size

/-- `lfnChecksum` over the 11 padded name bytes -/
def lfnChecksum (short ext : List Nat) : Nat :=
  (padTo 8 short ++ padTo 3 ext).foldl (fun sum b => ((sum % 2) * 128 + sum / 2 + b) % 256) 0

def calculateSlots (long : Name) : Nat := (utf8Len long + 12) / 13

/-- UCS-2 units of the long name laid out over `slots*13` positions: the name, one 0x0000, then 0xFFFF -/
def lfnUnits (long : Name) (slots : Nat) : List Nat :=
  (List.range (slots * 13)).map fun i =>
    if i < long.length then long.getD i 0 % 65536 else if i = long.length then 0 else 0xFFFF

def unitsBytes (u : List Nat) : Bytes := u.flatMap (leEnc 2)

/-- one LFN slot: sequence byte, 5 units, 0x0F, 0, checksum, 6 units, 0 0, 2 units -/
def lfnSlot (seq cks : Nat) (u : List Nat) : Bytes :=
  [UInt8.ofNat seq] ++ unitsBytes (u.take 5) ++ [0x0F, 0x00, UInt8.ofNat cks] ++
  unitsBytes ((u.drop 5).take 6) ++ [0, 0] ++ unitsBytes ((u.drop 11).take 2)

/-- `longFilenameBytes`: slots from the last one (flagged 0x40) down to slot 1 -/
def lfnBytes (long : Name) (short ext : List Nat) : Bytes :=
  let slots := calculateSlots long
  let u := lfnUnits long slots
  let cks := lfnChecksum short ext
  ((List.range slots).reverse).flatMap fun j =>
    lfnSlot (if j + 1 = slots then (j + 1) + 64 else j + 1) cks ((u.drop (j * 13)).take 13)

/-- `directoryEntry.toBytes` -/
def serEntry (e : DirEntry) : Bytes :=
  (if e.long = [] then [] else lfnBytes e.long e.short e.ext) ++ dosBytes e

/-- `entriesToBytes(bytesPerCluster)`: concatenation padded with zeros to a multiple of the cluster size -/
def serDir (bpc : Nat) (es : List DirEntry) : Bytes :=
  let b := es.flatMap serEntry
  if b.length % bpc = 0 then b else b ++ zeros (bpc - b.length % bpc)

/-- `entriesToBytesFixed(fixedSize)`: `none` = "root directory is full" -/
def serDirFixed (fixedSize : Nat) (es : List DirEntry) : Option Bytes :=
  let b := es.flatMap serEntry
  if b.length > fixedSize then none else some (b ++ zeros (fixedSize - b.length))

/-! ### parser -/

def stripSpaces (l : List Nat) : List Nat := (l.reverse.dropWhile (· = 32)).reverse

/-- the up-to-13 units of one LFN slot, cut at the first 0x0000 -/
def lfnSlotUnits (s : Bytes) : List Nat :=
  let raw := ((s.drop 1).take 10) ++ ((s.drop 14).take 12) ++ ((s.drop 28).take 4)
  let units := (List.range 13).map fun i => leDec ((raw.drop (2 * i)).take 2)
  units.takeWhile (· ≠ 0)

def bytesToNats (b : Bytes) : List Nat := b.map UInt8.toNat

def parseDos (s : Bytes) (lfn : Name) : DirEntry :=
  { short := stripSpaces (bytesToNats (s.take 8)),
    ext := stripSpaces (bytesToNats ((s.drop 8).take 3)),
    long := lfn,
    attr := byteAtD s 11 % 64,
    lcase := byteAtD s 12 / 8 % 4 * 8,
    cTime := leDec ((s.drop 14).take 2), cDate := leDec ((s.drop 16).take 2), aDate := leDec ((s.drop 18).take 2),
    mTime := leDec ((s.drop 22).take 2), mDate := leDec ((s.drop 24).take 2),
    cluster := leDec ((s.drop 26).take 2) + 65536 * leDec ((s.drop 20).take 2),
    size := leDec ((s.drop 28).take 4) }
where byteAtD (s : Bytes) (i : Nat) : Nat := (s.getD i 0).toNat

/-- `parseDirEntries` over whole 32-byte slots (`fuel` = number of slots) -/
def parseSlots : Nat → Bytes → Name → List DirEntry
  | 0, _, _ => []
  | fuel + 1, b, lfn =>
    if b.length < 32 then []
    else
      let s := b.take 32
      let rest := b.drop 32
      let b0 := (s.getD 0 0).toNat
      if b0 = 0 then []
      else if b0 = 0xE5 then parseSlots fuel rest lfn
      else if (s.getD 11 0).toNat = 0x0F then
        let lfn0 := if b0 / 64 % 2 = 1 then [] else lfn
        parseSlots fuel rest (lfnSlotUnits s ++ lfn0)
      else parseDos s lfn :: parseSlots fuel rest []

def parseDir (b : Bytes) : List DirEntry := parseSlots (b.length / 32) b []

/-- what `toBytes` → `parseDirEntries` preserves of an entry: the parser only keeps the six
    attribute bits and the two case bits -/
def DirEntry.WF (e : DirEntry) : Prop :=
  e.short.length ≤ 8 ∧ e.ext.length ≤ 3 ∧
  (∀ c ∈ e.short, c < 256) ∧ (∀ c ∈ e.ext, c < 256) ∧
  e.short ≠ [] ∧ e.short.getLast? ≠ some 32 ∧ e.ext.getLast? ≠ some 32 ∧
  e.short.head? ≠ some 0 ∧ e.short.head? ≠ some 0xE5 ∧
  e.attr < 64 ∧ e.attr ≠ 15 ∧ (e.lcase = 0 ∨ e.lcase = 8 ∨ e.lcase = 16 ∨ e.lcase = 24) ∧
  e.cTime < 65536 ∧ e.cDate < 65536 ∧ e.aDate < 65536 ∧ e.mTime < 65536 ∧ e.mDate < 65536 ∧
  e.cluster < 4294967296 ∧ e.size < 4294967296 ∧
  (∀ r ∈ e.long, 0 < r ∧ r < 65536) ∧ e.long.length ≤ 255 ∧
  /- the slot count is computed from the UTF-8 byte length; the round trip needs it to equal the
     count computed from the number of code points (true for ASCII names; false e.g. for five
     3-byte characters: finding fat-lfn-slots-from-byte-length) -/
  calculateSlots e.long = (e.long.length + 12) / 13

/-! ### names: 8.3 conversion, numeric tails, lookup (ASCII) -/

def validShortChar (c : Nat) : Bool :=
  (48 ≤ c && c ≤ 57) || (65 ≤ c && c ≤ 90) ||
  [33, 35, 36, 37, 38, 39, 40, 41, 45, 64, 94, 95, 96, 123, 125, 126].contains c

/-- `uCaseValid` on ASCII code points -/
def uCaseValid (n : Name) : Name :=
  n.filterMap fun c =>
    if validShortChar c then some c
    else if 97 ≤ c ∧ c ≤ 122 then some (c - 32)
    else if c = 32 ∨ c = 46 then none
    else some 95

def lastDot (n : Name) : Option Nat :=
  let idx := (List.range n.length).filter fun i => n.getD i 0 = 46
  idx.getLast?

structure Sfn where
  short : Name
  ext : Name
  isLFN : Bool
  isTruncated : Bool
deriving Repr, DecidableEq

/-- `convertLfnSfn` (ASCII names) -/
def convertLfnSfn (n : Name) : Sfn :=
  match lastDot n with
  | none =>
    let s := uCaseValid n
    let lfn := decide (s ≠ n)
    if s.length > 8 then ⟨s.take 6 ++ [126, 49], [], true, true⟩ else ⟨s, [], lfn, false⟩
  | some d =>
    let rawExt0 := n.drop (d + 1)
    let rawExt := rawExt0.take 3
    let ext := uCaseValid rawExt
    let lfn1 := decide (rawExt0.length > 3) || decide (ext ≠ rawExt)
    let rawShort := n.take d
    let s := uCaseValid rawShort
    let lfn2 := lfn1 || decide (s ≠ rawShort)
    if s.length > 8 then ⟨s.take 6 ++ [126, 49], ext, true, true⟩ else ⟨s, ext, lfn2, false⟩

def natDigits (n : Nat) : List Nat := (toString n).toList.map Char.toNat

/-- candidate `stem[:8-len(suffix)] + "~N"` -/
def tailCandidate (stem : Name) (c : Nat) : Name :=
  let suffix := 126 :: natDigits c
  stem.take (8 - suffix.length) ++ suffix

/-- `uniqueShortName`: lowest counter whose candidate+ext is not among the existing names
    (`existing` = `filenameShort+fileExtension` of every non-label entry, concatenated as the code does)
    (the search is bounded by the number of existing names + 1, which always suffices) -/
def uniqueShortName (stem ext : Name) (existing : List Name) : Name :=
  match (List.range' 1 (existing.length + 1)).find? fun c => !(existing.contains (tailCandidate stem c ++ ext)) with
  | some c => tailCandidate stem c
  | none => stem.take 6 ++ [126, 49]

def foldAscii (c : Nat) : Nat := if 65 ≤ c ∧ c ≤ 90 then c + 32 else c
def eqFold (a b : Name) : Bool := a.map foldAscii == b.map foldAscii

def fullShortName (e : DirEntry) : Name :=
  let s := if e.lcase / 8 % 2 = 1 then e.short.map foldAscii else e.short
  let x := if e.lcase / 16 % 2 = 1 then e.ext.map foldAscii else e.ext
  if x = [] then s else s ++ [46] ++ x

/-- `nameMatches` (ASCII case folding) -/
def nameMatches (e : DirEntry) (n : Name) : Bool := eqFold e.long n || eqFold (fullShortName e) n

/-- `Name()` of a listing entry -/
def entryName (e : DirEntry) : Name := if e.long ≠ [] then e.long else fullShortName e

end Diskfs.Fat
