/-
  The WriteAt calls of a FAT volume — which byte ranges of the device the library writes.

  `Layout` is what `fat12.NewFileSystem` / `fat32.Create` keep of a volume (fs.start, fs.size,
  fatPrimaryStart, fatSecondaryStart, rootDirOffset, rootDirMaxEntries*32, dataStart,
  bytesPerCluster, and for FAT32 the FSInfo and backup boot sector numbers); `Layout.ofGeom`
  derives it from the mkfs geometry (`Model/Fat/Geom.lean`) exactly as the three `Create`s do.
  `Layout.lim` mirrors the scan limit of `allocateSpace`:  min(MaxCluster(), dataClusterLimit()).

  Emission primitives, one per writer of the Go code (offsets are device offsets, `+ fs.start`
  included; the payload of a metadata write is a placeholder of the right length — the range
  theorems and the correspondence are about offsets and lengths):
    wrBoot      WriteBootSector  (fat12/16: one 512-byte sector at 0;
                                  fat32: one sector at 0 and one at backupBootSector)
    wrFat       WriteFat         (both FAT copies; fat32: then FSInfo at its sector and at backup+1)
    wrRoot      writeDirectoryEntries on the fixed FAT12/16 root region
    wrDirChain  writeDirectoryEntries on a cluster-chain directory (one cluster-sized write per cluster)
    file data   `writeH` of Model/Fat/FileIO.lean (zero-fill of a gap, then the payload)
  `createWrites` is the write sequence of `Create`; `fstepW` is the one-directory filesystem of
  Model/Fat/FlatFs.lean (the root directory of a FAT12/16 volume) with the writes of every
  operation in program order, accepted or refused.
  Core Lean only.
-/
import DiskfsModel.Model.Fat.Geom
import DiskfsModel.Model.Fat.FlatFs
namespace Diskfs.Fat

structure Layout where
  kind : Kind
  /-- `fs.start`, `fs.size`: the byte range [start, start+size) the volume was given -/
  start : Nat
  size : Nat
  bps : Nat
  /-- `fatPrimaryStart`, `fatSecondaryStart` (relative to the volume) and the table size in bytes -/
  fat1 : Nat
  fat2 : Nat
  fatBytes : Nat
  /-- `rootDirOffset`, `rootDirMaxEntries * 32` (0 = the root is a cluster chain, FAT32) -/
  rootOff : Nat
  rootBytes : Nat
  dataStart : Nat
  bpc : Nat
  /-- FAT32: `fsInformationSector`, `backupBootSector` -/
  fsinfoSector : Nat
  backupSector : Nat
deriving Repr

/-- the layout arithmetic of the three `Create`s -/
def Layout.ofGeom (g : Geom) (start size : Nat) : Layout :=
  let fat1 := g.reserved * g.bps
  let fatBytes := g.fatSectors * g.bps
  let fat2 := fat1 + fatBytes
  let rootOff := fat2 + fatBytes
  { kind := g.kind, start := start, size := size, bps := g.bps, fat1 := fat1, fat2 := fat2,
    fatBytes := fatBytes, rootOff := rootOff, rootBytes := g.rootEntries * 32,
    dataStart := rootOff + g.rootSectors * g.bps, bpc := g.spc * g.bps,
    fsinfoSector := 1, backupSector := 6 }

/-- `MaxCluster()` of the table -/
def Layout.max (L : Layout) : Nat := L.kind.maxOfSize L.fatBytes

/-- `dataClusterLimit()` -/
def Layout.dataClusterLimit (L : Layout) : Nat :=
  if L.bpc = 0 ∨ L.size ≤ L.dataStart then L.max
  else
    let clusters := (L.size - L.dataStart) / L.bpc
    if clusters + 2 ≥ L.max then L.max else clusters + 2

/-- `scanLimit` of `allocateSpace`: the smaller of `MaxCluster()` and `dataClusterLimit()` -/
def Layout.lim (L : Layout) : Nat := if L.dataClusterLimit < L.max then L.dataClusterLimit else L.max

def Layout.io (L : Layout) : IOGeom := ⟨L.start, L.dataStart, L.bpc⟩
def Layout.fgeom (L : Layout) : FGeom := ⟨L.kind, L.max, L.lim, L.io⟩

/-! ### emission primitives -/

def Layout.wrBoot (L : Layout) : List Wr :=
  match L.kind with
  | .f32 => ⟨L.start, zeros L.bps⟩ ::
      (if L.backupSector > 0 then [⟨L.backupSector * L.bps + L.start, zeros L.bps⟩] else [])
  | _ => [⟨L.start, zeros 512⟩]

def Layout.wrFsis (L : Layout) : List Wr :=
  match L.kind with
  | .f32 => ⟨L.fsinfoSector * L.bps + L.start, zeros L.bps⟩ ::
      (if L.backupSector > 0 then [⟨(L.backupSector + 1) * L.bps + L.start, zeros L.bps⟩] else [])
  | _ => []

def Layout.wrFat (L : Layout) : List Wr :=
  [⟨L.fat1 + L.start, zeros L.fatBytes⟩, ⟨L.fat2 + L.start, zeros L.fatBytes⟩] ++ L.wrFsis

def Layout.wrRoot (L : Layout) : List Wr := [⟨L.rootOff + L.start, zeros L.rootBytes⟩]

def Layout.wrDirChain (L : Layout) (chain : List Nat) : List Wr :=
  chain.map fun c => ⟨clusterOff L.io c, zeros L.bpc⟩

/-- `writeDirectoryEntries` on the root directory right after `Create` (no growth) -/
def Layout.wrRootDir (L : Layout) : List Wr :=
  if L.rootBytes > 0 then L.wrRoot else L.wrDirChain [2]

/-- `Create`: boot sector, FAT (+FSInfo), zeroed root region / root cluster, then `SetLabel`
    (boot sector again, root directory with the label entry) -/
def Layout.createWrites (L : Layout) : List Wr :=
  L.wrBoot ++ L.wrFat ++
  (if L.rootBytes > 0 then L.wrRoot else [⟨L.start + L.dataStart, zeros L.bpc⟩]) ++
  L.wrBoot ++ L.wrRootDir

/-! ### the one-directory filesystem with its write log (root directory of a FAT12/16 volume) -/

structure StepW where
  s : FState
  ok : Bool
  ws : List Wr

/-- `fstep` of Model/Fat/FlatFs.lean over `L.fgeom`, returning in addition every WriteAt of the
    operation in program order. -/
def fstepW (eqn : Spec.Name → Spec.Name → Bool) (L : Layout) (fuel : Nat) (s : FState) : FOp → StepW
  | .create n =>
    match ffind eqn s.files n with
    | some _ => ⟨s, true, []⟩
    | none =>
      -- mkFile: allocateSpace(1, 0) → WriteFat; then writeDirectoryEntries(parent)
      let r := falloc L.fgeom fuel s.m 1 0
      match r.res with
      | some l => ⟨⟨r.m, s.d, s.files ++ [⟨n, l, 0⟩]⟩, true, L.wrFat ++ L.wrRoot⟩
      | none => ⟨s, false, []⟩
  | .writeAt n off data =>
    match ffind eqn s.files n with
    | none => ⟨s, false, []⟩
    | some f =>
      if data.length = 0 then ⟨s, true, []⟩
      else
        let newSize := Nat.max f.size (off + data.length)
        let r := falloc L.fgeom fuel s.m newSize (f.chain.headD 0)
        match r.res with
        | none => ⟨s, false, []⟩
        | some l' =>
          let wf := if r.wrote then L.wrFat else []
          match writeH true L.io l' f.size off data with
          | none => ⟨s, false, wf⟩
          | some ws =>
            -- allocateSpace, zero-fill + payload, writeDirectoryEntries(parent)
            ⟨⟨r.m, applyWrs s.d ws, fset eqn s.files n ⟨f.name, l', newSize⟩⟩, true, wf ++ ws ++ L.wrRoot⟩
  | .truncate n =>
    match ffind eqn s.files n with
    | none => ⟨s, false, []⟩
    | some f =>
      if f.size = 0 then ⟨s, true, []⟩
      else
        -- OpenFile(O_TRUNC): writeDirectoryEntries(parent) first, then allocateSpace(1, first)
        let r := falloc L.fgeom fuel s.m 1 (f.chain.headD 0)
        let wf := if r.wrote then L.wrFat else []
        match r.res with
        | none => ⟨s, false, L.wrRoot⟩
        | some _ => ⟨⟨r.m, s.d, fset eqn s.files n ⟨f.name, f.chain.take 1, 0⟩⟩, true, L.wrRoot ++ wf⟩
  | .remove n =>
    match ffind eqn s.files n with
    | none => ⟨s, false, []⟩
    | some f =>
      -- Remove: writeDirectoryEntries(parent), then freeClusterChain → WriteFat
      let r := freeChain L.kind L.max fuel s.m (f.chain.headD 0)
      if r.2 then ⟨⟨r.1, s.d, ferase eqn s.files n⟩, true,
                   L.wrRoot ++ (if f.chain.headD 0 < 2 then [] else L.wrFat)⟩
      else ⟨s, false, L.wrRoot⟩
  | .rename o n =>
    match ffind eqn s.files o with
    | none => ⟨s, false, []⟩
    | some f =>
      if eqn o n then ⟨⟨s.m, s.d, fset eqn s.files o ⟨n, f.chain, f.size⟩⟩, true, L.wrRoot⟩
      else
        match ffind eqn s.files n with
        | none => ⟨⟨s.m, s.d, fset eqn s.files o ⟨n, f.chain, f.size⟩⟩, true, L.wrRoot⟩
        | some t =>
          let r := freeChain L.kind L.max fuel s.m (t.chain.headD 0)
          if r.2 then ⟨⟨r.1, s.d, fset eqn (ferase eqn s.files n) o ⟨n, f.chain, f.size⟩⟩, true,
                       L.wrRoot ++ (if t.chain.headD 0 < 2 then [] else L.wrFat)⟩
          else ⟨s, false, L.wrRoot⟩

/-- a whole history: final state and the concatenated write log -/
def frunW (eqn : Spec.Name → Spec.Name → Bool) (L : Layout) (fuel : Nat) (s : FState) (ops : List FOp) :
    FState × List Wr :=
  ops.foldl (fun a op => let r := fstepW eqn L fuel a.1 op; (r.s, a.2 ++ r.ws)) (s, [])

/-- inside the range the volume was given -/
def Layout.InRange (L : Layout) (w : Wr) : Prop :=
  L.start ≤ w.off ∧ w.off + w.data.length ≤ L.start + L.size

/-- what the range theorems need of a layout: boot / FSInfo sectors inside the reserved area,
    the two FAT copies and the root region in order in front of the data area, data area inside
    the volume.  `Layout.ofGeom g` has it for every `g` with `Geom.WF` (Proofs/FatRange.lean). -/
structure Layout.WF (L : Layout) : Prop where
  bpc_pos : 0 < L.bpc
  boot : (match L.kind with
          | .f32 => (L.backupSector + 2) * L.bps ≤ L.fat1 ∧ (L.fsinfoSector + 1) * L.bps ≤ L.fat1
          | _ => 512 ≤ L.fat1)
  fat1_le : L.fat1 + L.fatBytes ≤ L.fat2
  fat2_le : L.fat2 + L.fatBytes ≤ L.rootOff
  root_le : L.rootOff + L.rootBytes ≤ L.dataStart
  data_lt : L.dataStart < L.size

end Diskfs.Fat
