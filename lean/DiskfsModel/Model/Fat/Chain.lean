/-
  Cluster chains — mirror of filesystem/fat12/fat12.go
    getClusterList  → `walk`
    allocateSpace   → `allocateSpace` (grow and shrink branches)
  plus the repaired chain release (`freeChain`, what fixes/fat-remove-leaks-chain.patch
  adds to Remove / rename-over) and the cluster-map invariant `Inv` used by C01 (layer B)
  and C08.

  `max` is the table's `MaxCluster()`.  The allocator scans `2 ≤ i < lim`; as found
  `lim = max` (derived from the FAT size), repaired `lim = min max (clusterCount+2)`.
  The choice of free clusters is a parameter (`pick`), the first-fit scan of the code
  is `firstFit`; theorems are proved for every `pick` that meets `PickSpec`.
  Core Lean only.
-/
import DiskfsModel.Model.Fat.Table
namespace Diskfs.Fat

inductive WalkRes
  | ok (l : List Nat)
  | err
  | diverge
deriving Repr, DecidableEq

/-- the loop of `getClusterList`; `acc` is the list so far (in order) -/
def walkAux (k : Kind) (max : Nat) (m : CMap) : Nat → Nat → List Nat → WalkRes
  | 0, _, _ => .diverge
  | fuel + 1, c, acc =>
    let acc' := acc ++ [c]
    let next := m c
    if k.isEOC next then .ok acc'
    else if next > max then .err
    else if c < 2 then .err
    else walkAux k max m fuel next acc'

/-- `getClusterList(first)` -/
def walk (k : Kind) (max : Nat) (m : CMap) (fuel first : Nat) : WalkRes :=
  if first > max ∨ m first = 0 then .err else walkAux k max m fuel first []

/-- the first-fit scan of `allocateSpace`: the first `n` free clusters in `2 ≤ i < lim` -/
def firstFit (lim : Nat) (m : CMap) (n : Nat) : List Nat :=
  ((List.range' 2 (lim - 2)).filter fun i => m i = 0).take n

/-- link `prev → l[0] → l[1] → … → EOC` exactly as the code's SetCluster calls -/
def linkChain (k : Kind) (m : CMap) : List Nat → CMap
  | [] => m
  | [a] => m.set a k.eoc
  | a :: b :: rest => linkChain k (m.set a b) (b :: rest)

def freeAll (m : CMap) (l : List Nat) : CMap := l.foldl (fun m c => m.set c 0) m

structure AllocRes where
  m : CMap
  /-- the returned cluster list, `none` = error -/
  res : Option (List Nat)
  /-- WriteFat was reached -/
  wrote : Bool

/-- `allocateSpace(size, previous)`.
    `pick m n` = the clusters the scan hands out when `n` more are needed (fewer than `n` = ENOSPC). -/
def allocateSpace (k : Kind) (max bpc : Nat) (pick : CMap → Nat → List Nat) (fuel : Nat)
    (m : CMap) (size previous : Nat) : AllocRes :=
  if previous > max then ⟨m, none, false⟩
  else
    let count := size / bpc + (if size % bpc > 0 then 1 else 0)
    let wr := if previous ≥ 2 then walk k max m fuel previous else .ok []
    match wr with
    | .err => ⟨m, none, false⟩
    | .diverge => ⟨m, none, false⟩
    | .ok clusters =>
      let prev := if previous ≥ 2 then clusters.getLastD previous else previous
      if count = clusters.length then ⟨m, some clusters, false⟩
      else if count > clusters.length then
        let extra := count - clusters.length
        let alloc := pick m extra
        if alloc.length < extra then ⟨m, none, false⟩
        else
          let m1 := if prev > 0 then m.set prev (alloc.headD 0) else m
          ⟨linkChain k m1 alloc, some (clusters ++ alloc), true⟩
      else
        -- shrink: keep `max count 1` clusters
        let lastAlloc := count - 1            -- (natural subtraction: 0 when count = 0)
        let c := clusters.getD lastAlloc 0
        if lastAlloc > max ∨ c > max then ⟨m, none, false⟩
        else
          let dealloc := clusters.drop (lastAlloc + 1)
          -- (a deallocated cluster above max aborts in the code; chains returned by `walk` never contain one)
          ⟨freeAll (m.set c k.eoc) dealloc, some clusters, true⟩

/-- repaired release of a whole chain (Remove, rename-over): every cluster of the chain
    starting at `first` becomes free; a bad chain leaves the table alone -/
def freeChain (k : Kind) (max : Nat) (fuel : Nat) (m : CMap) (first : Nat) : CMap × Bool :=
  if first < 2 then (m, true)
  else match walk k max m fuel first with
    | .ok l => (freeAll m l, true)
    | _ => (m, false)

/-! ### ghost ownership and the invariant -/

/-- `l` is a chain of the table: consecutive links, EOC at the end, inside `[2, lim)` -/
def ChainOk (k : Kind) (lim : Nat) (m : CMap) : List Nat → Prop
  | [] => False
  | [a] => 2 ≤ a ∧ a < lim ∧ k.isEOC (m a) = true
  | a :: b :: rest => 2 ≤ a ∧ a < lim ∧ m a = b ∧ ChainOk k lim m (b :: rest)

/-- cluster numbers below the allocation limit are not end-of-chain values
    (true for every geometry the three `Create`s accept: FAT12 < 4085 clusters, FAT16 < 65525) -/
def LimOk (k : Kind) (lim : Nat) : Prop := ∀ c, c < lim → k.isEOC c = false

/-- the cluster-map invariant: every owner's list is a chain of the table, the owners are
    pairwise disjoint and duplicate free, and a cluster of the data area is marked used
    exactly when some owner holds it (no lost clusters, no cross links). -/
structure Inv (k : Kind) (lim : Nat) (m : CMap) (owners : List (List Nat)) : Prop where
  chains : ∀ l ∈ owners, ChainOk k lim m l
  nodup : (owners.flatten).Nodup
  used_iff : ∀ c, 2 ≤ c → c < lim → (m c ≠ 0 ↔ c ∈ owners.flatten)

def freeCount (lim : Nat) (m : CMap) : Nat :=
  ((List.range' 2 (lim - 2)).filter fun i => m i = 0).length

/-- what the theorems need of an allocation policy -/
structure PickSpec (lim : Nat) (pick : CMap → Nat → List Nat) : Prop where
  free : ∀ m n, ∀ c ∈ pick m n, 2 ≤ c ∧ c < lim ∧ m c = 0
  nodup : ∀ m n, (pick m n).Nodup
  len_le : ∀ m n, (pick m n).length ≤ n
  /-- it comes up short only when the volume really has fewer than `n` free clusters -/
  complete : ∀ m n, (pick m n).length < n → freeCount lim m < n

/-- executable form of the invariant over a finite owner list (used by the driver and
    tied to `Inv` in Proofs) -/
def chainOkB (k : Kind) (lim : Nat) (m : CMap) : List Nat → Bool
  | [] => false
  | [a] => decide (2 ≤ a) && decide (a < lim) && k.isEOC (m a)
  | a :: b :: rest => decide (2 ≤ a) && decide (a < lim) && decide (m a = b) && chainOkB k lim m (b :: rest)

def nodupB : List Nat → Bool
  | [] => true
  | a :: l => !(l.contains a) && nodupB l

def invB (k : Kind) (lim : Nat) (m : CMap) (owners : List (List Nat)) : Bool :=
  owners.all (chainOkB k lim m) && nodupB owners.flatten &&
    (List.range' 2 (lim - 2)).all fun c => decide (m c ≠ 0) == owners.flatten.contains c

end Diskfs.Fat
