/-
  FAT table codecs — mirror of
    filesystem/fat12/table.go  fat12ReadEntry / fat12WriteEntry / Bytes / FromBytes
    filesystem/fat16/table.go  Bytes / FromBytes
    filesystem/fat32/table.go  Bytes / FromBytes
  The in-memory table of the Go code is `clusters []uint32` (index = cluster
  number); here it is a cluster map `CMap := Nat → Nat`.
  Bit operations of the Go code are written arithmetically (x & 0xF0 = x/16*16,
  x & 0x0F = x%16, `|` of disjoint bit fields = +, byte(x) = x % 256); the
  correspondence run compares the bytes with what the real functions produce.
  Core Lean only.
-/
import DiskfsModel.Core.Bytes
namespace Diskfs.Fat

inductive Kind | f12 | f16 | f32
deriving DecidableEq, Repr

/-- cluster map: value stored for each cluster number -/
abbrev CMap := Nat → Nat

def CMap.set (m : CMap) (c v : Nat) : CMap := fun i => if i = c then v else m i

def CMap.ofList (l : List Nat) : CMap := fun i => l.getD i 0

/-- canonical end-of-chain value written (`EOCMarker`) -/
def Kind.eoc : Kind → Nat
  | .f12 => 0xFFF
  | .f16 => 0xFFFF
  | .f32 => 0x0FFFFFFF

/-- `IsEOC` of the three tables -/
def Kind.isEOC : Kind → Nat → Bool
  | .f12, v => decide (0xFF8 ≤ v ∧ v ≤ 0xFFF)
  | .f16, v => decide (0xFFF8 ≤ v ∧ v ≤ 0xFFFF)
  | .f32, v => decide ((v / 8) % 33554432 = 33554431)   -- v & 0x0FFFFFF8 == 0x0FFFFFF8

/-- `MaxCluster()` as the three constructors compute it from the FAT size in bytes -/
def Kind.maxOfSize : Kind → Nat → Nat
  | .f12, sz => sz * 2 / 3
  | .f16, sz => sz / 2
  | .f32, sz => sz / 4

/-- exclusive upper bound of the values an entry can hold -/
def Kind.valBound : Kind → Nat
  | .f12 => 4096
  | .f16 => 65536
  | .f32 => 4294967296

/-! ### FAT12: 12-bit packing -/

def byteAt (b : Bytes) (i : Nat) : Nat := (b.getD i 0).toNat

/-- `fat12ReadEntry` -/
def fat12ReadEntry (b : Bytes) (i : Nat) : Nat :=
  let o := i * 3 / 2
  if o + 1 ≥ b.length then 0
  else
    let word := byteAt b o + 256 * byteAt b (o + 1)
    if i % 2 = 0 then word % 4096 else word / 16

/-- `fat12WriteEntry` (v is a uint32 in Go; `byte(x)` truncates) -/
def fat12WriteEntry (b : Bytes) (i v : Nat) : Bytes :=
  let o := i * 3 / 2
  if o + 1 ≥ b.length then b
  else if i % 2 = 0 then
    -- b[o] = byte(v); b[o+1] = (b[o+1] & 0xF0) | byte(v>>8)
    let b1 := b.set o (UInt8.ofNat (v % 256))
    b1.set (o + 1) (UInt8.ofNat ((16 * (byteAt b1 (o + 1) / 16)) ||| ((v / 256) % 256)))
  else
    -- b[o] = (b[o] & 0x0F) | byte(v<<4); b[o+1] = byte(v>>4)
    let b1 := b.set o (UInt8.ofNat ((16 * (v % 16)) ||| (byteAt b o % 16)))
    b1.set (o + 1) (UInt8.ofNat ((v / 16) % 256))

/-- `fat12Table.Bytes()`: media byte, 0xFF 0xFF, then every non-zero entry 2..max -/
def bytes12 (fatID size max : Nat) (m : CMap) : Bytes :=
  let b0 := (((zeros size).set 0 (UInt8.ofNat (fatID % 256))).set 1 255).set 2 255
  (List.range' 2 (max - 1)).foldl (fun b i => if m i ≠ 0 then fat12WriteEntry b i (m i) else b) b0

/-- `fat12Table.FromBytes(b)` on a table whose entries were `old` -/
def fromBytes12 (b : Bytes) (max : Nat) (old : CMap) : CMap := fun i =>
  if 2 ≤ i ∧ i ≤ min (b.length * 2 / 3 - 1) max then fat12ReadEntry b i else old i

/-! ### FAT16 / FAT32: fixed-width little-endian entries

  `Bytes()` writes entry 0 = FAT ID, entry 1 = EOC marker, entries `2 ≤ i < max`
  from the table, the rest of the `size` bytes stay zero. -/

def entryVal (fatID eoc max : Nat) (m : CMap) (i : Nat) : Nat :=
  if i = 0 then fatID else if i = 1 then eoc else if i < max then m i else 0

/-- `w` = entry width in bytes (2 or 4) -/
def bytesW (w fatID eoc size max : Nat) (m : CMap) : Bytes :=
  ((List.range (size / w)).flatMap fun i => leEnc w (entryVal fatID eoc max m i)) ++ zeros (size % w)

def bytes16 (fatID size max : Nat) (m : CMap) : Bytes := bytesW 2 fatID 0xFFFF size max m
def bytes32 (fatID eoc size max : Nat) (m : CMap) : Bytes := bytesW 4 fatID eoc size max m

def readW (w : Nat) (b : Bytes) (i : Nat) : Nat := leDec ((b.drop (i * w)).take w)

/-- `FromBytes`: entries `2 ≤ i < max` that fit in `b` and are non-zero replace the old value -/
def fromBytesW (w : Nat) (b : Bytes) (max : Nat) (old : CMap) : CMap := fun i =>
  if 2 ≤ i ∧ i < max ∧ i * w + w ≤ b.length ∧ readW w b i ≠ 0 then readW w b i else old i

def fromBytes16 := fromBytesW 2
def fromBytes32 := fromBytesW 4

/-- one table → bytes, by kind (eoc32 is the value stored at entry 1 of a FAT32 table) -/
def tableBytes (k : Kind) (fatID size : Nat) (m : CMap) : Bytes :=
  match k with
  | .f12 => bytes12 fatID size (k.maxOfSize size) m
  | .f16 => bytes16 fatID size (k.maxOfSize size) m
  | .f32 => bytes32 fatID k.eoc size (k.maxOfSize size) m

def tableFromBytes (k : Kind) (b : Bytes) : CMap :=
  match k with
  | .f12 => fromBytes12 b (k.maxOfSize b.length) (fun _ => 0)
  | .f16 => fromBytes16 b (k.maxOfSize b.length) (fun _ => 0)
  | .f32 => fromBytes32 b (k.maxOfSize b.length) (fun _ => 0)

end Diskfs.Fat
