/-
  `File.Write(p)` of filesystem/fat12/file.go as the code is NOW, WITHOUT the shortcut the
  specification-level models (`fstep (.writeAt ..)`, `dWrite`) take for an empty buffer
  ("writing nothing changes nothing"): the code has no such early return, it runs
      newSize := max(fileSize, offset+len(p))
      clusters := allocateSpace(newSize, firstCluster)        -- size 0 reaches the shrink branch with count = 0
      if offset > oldSize { zeroRange(clusters, oldSize, offset) }
      fileSize = newSize
      the partial-cluster WriteAt / the loop over the remaining clusters (zero-length WriteAt calls)
      writeDirectoryEntries(parent)
  for every `p`, the empty one included.  `fileWriteRaw` is that sequence up to (not including) the
  directory rewrite, composed from the same mirrors (`falloc` = allocateSpace with the first-fit
  scan, `writeH true` = zero-fill + WriteAt calls) the guarded models use for a non-empty buffer.

  What it shows for `p = []` (theorems in Proofs/FatEmptyWrite.lean, Props/C01 `write_empty_is_noop`):
    offset ≤ size, not (offset = size a positive multiple of the cluster size):
        table, device bytes, chain and size stay as they were; allocateSpace(0, c) on an empty
        file KEEPS the first cluster (count = 0 is clamped to one cluster: `lastAlloc < 0 → 0`);
    offset > size:  the file is EXTENDED with zeros to `offset` (finding fat-empty-write-not-noop);
    offset ≥ size on a positive multiple of the cluster size: `clusters[offset/bpc]` is out of
        range, the code panics (`panic`; same finding).
  Core Lean only.
-/
import DiskfsModel.Model.Fat.FlatFs
namespace Diskfs.Fat

inductive RawWrite
  /-- accepted: new table, device, chain, size; `fatWritten` = allocateSpace reached WriteFat -/
  | ok (m : CMap) (d : Dev) (chain : List Nat) (size : Nat) (fatWritten : Bool)
  /-- allocateSpace refused (ENOSPC / damaged chain): nothing changed -/
  | refused
  /-- index out of range in the cluster list (after allocateSpace and the zero-fill already ran) -/
  | panic

/-- `File.Write(data)` through a handle at `off` on a file of `size` bytes whose entry names the
    chain `chain`, every buffer length alike -/
def fileWriteRaw (g : FGeom) (fuel : Nat) (m : CMap) (d : Dev) (chain : List Nat) (size off : Nat)
    (data : Bytes) : RawWrite :=
  let newSize := Nat.max size (off + data.length)
  let r := falloc g fuel m newSize (chain.headD 0)
  match r.res with
  | none => .refused
  | some l' =>
    match writeH true g.io l' size off data with
    | none => .panic
    | some ws => .ok r.m (applyWrs d ws) l' newSize r.wrote

def RawWrite.newSize : RawWrite → Option Nat
  | .ok _ _ _ s _ => some s
  | _ => none

def RawWrite.newChain : RawWrite → Option (List Nat)
  | .ok _ _ c _ _ => some c
  | _ => none

def RawWrite.isPanic : RawWrite → Bool
  | .panic => true
  | _ => false

/-- the inputs on which an empty `Write` is not a no-op in the code as found -/
def emptyWriteTrigger (bpc size off : Nat) : Bool :=
  decide (off > size) || (decide (0 < off) && decide (size ≤ off) && decide (off % bpc = 0))

end Diskfs.Fat
