/-
  Cluster-level state machine of a FAT volume: the table plus the chains its directory
  entries own.  One `COp` per way the library changes the table:
    create size        mkFile / mkSubdir (+ first write): allocateSpace(size, 0)
    resize i size      File.Write growing, O_TRUNC / directory shrink: allocateSpace(size, first cluster of owner i)
    remove i           Remove / rename-over of owner i
  `Cfg` carries the defect switches (§3 of DESIGN.md): `asFound` mirrors the tree as it is,
  `fixed` the repaired behaviour (fixes/fat-remove-leaks-chain.patch,
  fixes/fat-maxcluster-from-fat-size.patch).
  Core Lean only.
-/
import DiskfsModel.Model.Fat.Chain
namespace Diskfs.Fat

structure Cfg where
  /-- Remove / rename-over release the chain of the dropped entry -/
  removeFreesChain : Bool
  /-- the allocator stops at the end of the data area instead of the number of FAT entries -/
  maxClusterFromData : Bool
deriving Repr, DecidableEq

def Cfg.asFound : Cfg := ⟨false, false⟩
def Cfg.fixed : Cfg := ⟨true, true⟩

/-- static description of a volume's table -/
structure VolGeom where
  kind : Kind
  /-- `MaxCluster()`: what the FAT has room for -/
  max : Nat
  /-- data clusters + 2: first cluster number past the data area -/
  dataLim : Nat
  bpc : Nat
deriving Repr

/-- where the allocator's scan stops -/
def VolGeom.allocLim (c : Cfg) (g : VolGeom) : Nat :=
  if c.maxClusterFromData then min g.max g.dataLim else g.max

structure CState where
  m : CMap
  owners : List (List Nat)

inductive COp
  | create (size : Nat)
  | resize (i : Nat) (size : Nat)
  | remove (i : Nat)
deriving Repr

def clusterCount (bpc size : Nat) : Nat := size / bpc + (if size % bpc > 0 then 1 else 0)

/-- one step; `fuel` bounds the chain walks (any value ≥ the number of clusters will do) -/
def cstep (c : Cfg) (g : VolGeom) (fuel : Nat) (s : CState) : COp → CState × Bool
  | .create size =>
    if size = 0 then (s, false)
    else
      let r := allocateSpace g.kind g.max g.bpc (firstFit (g.allocLim c)) fuel s.m size 0
      match r.res with
      | some l => (⟨r.m, l :: s.owners⟩, true)
      | none => (⟨r.m, s.owners⟩, false)
  | .resize i size =>
    if h : i < s.owners.length then
      let l := s.owners[i]
      let rest := s.owners.eraseIdx i
      let r := allocateSpace g.kind g.max g.bpc (firstFit (g.allocLim c)) fuel s.m size (l.headD 0)
      match r.res with
      | some l' =>
        let keep := if clusterCount g.bpc size < l.length then l.take (Nat.max (clusterCount g.bpc size) 1) else l'
        (⟨r.m, keep :: rest⟩, true)
      | none => (⟨r.m, s.owners⟩, false)
    else (s, false)
  | .remove i =>
    if h : i < s.owners.length then
      let l := s.owners[i]
      let rest := s.owners.eraseIdx i
      if c.removeFreesChain then
        let r := freeChain g.kind g.max fuel s.m (l.headD 0)
        if r.2 then (⟨r.1, rest⟩, true) else (s, false)
      else (⟨s.m, rest⟩, true)            -- as found: the entry goes, its chain stays marked used
    else (s, false)

def crun (c : Cfg) (g : VolGeom) (fuel : Nat) (s : CState) (ops : List COp) : CState :=
  ops.foldl (fun s op => (cstep c g fuel s op).1) s

end Diskfs.Fat

namespace Diskfs.Fat

/-- well-formedness of a size → cluster-size table as the three `Create`s use them
    (rows `(exclusive size bound, value)`, last row `(0, default)`): bounds strictly increase,
    every value is a power of two between `lo` and `hi`, values do not decrease with size. -/
def sizeTableWF (lo hi : Nat) (t : List (Nat × Nat)) : Bool :=
  let vals := t.map (·.2)
  let bounds := (t.dropLast).map (·.1)
  decide (t ≠ []) && (t.getLast?.map (·.1) == some 0) &&
  vals.all (fun v => decide (lo ≤ v ∧ v ≤ hi) && (List.range 17).any (fun e => v == 2 ^ e)) &&
  (bounds.zip (bounds.drop 1)).all (fun p => decide (p.1 < p.2)) &&
  (vals.zip (vals.drop 1)).all (fun p => decide (p.1 ≤ p.2)) &&
  bounds.all (fun b => decide (0 < b))

/-- the value a table assigns to a size -/
def sizeTableLookup (t : List (Nat × Nat)) (size : Nat) : Nat :=
  match t.find? (fun r => r.1 = 0 || decide (size < r.1)) with
  | some r => r.2
  | none => 0

end Diskfs.Fat
