/-
  Mirror of the handle-level Read / Seek / Close arithmetic of the four `File` types:
    filesystem/fat12/file.go    (shared by fat12 / fat16 / fat32)
    filesystem/ext4/file.go
    filesystem/iso9660/file.go
    filesystem/squashfs/file.go
  Only the cursor / remaining-bytes / EOF / whence logic is mirrored.  Where the Go code
  calls `ReadAt` on the device for cluster `i`, extent `e` or data block `i`, the model
  records a *segment* `[off, off+len)` of file-relative byte positions: the cluster map
  (C01), the extent map (C04) and the block / fragment map (C07) are other properties'
  business and appear here as the assumption that those device bytes are the file bytes at
  those positions (`store : Nat → UInt8`, the file-relative byte oracle; it is defined past
  the file size too — cluster slack — because the as-found FAT code reads there).

  Go integers: cursors and sizes are unbounded naturals, seek offsets unbounded integers;
  no int64 overflow is reachable for |offset| < 2^62 (stated as an assumption of C10).
  `Cfg` holds one switch per recorded defect; `true` is the repaired behaviour.
-/
import DiskfsModel.Core.Bytes
import DiskfsModel.Spec.Reader
namespace Diskfs.ReadSeek
open Diskfs.Spec (Whence)

structure Cfg where
  fatClamp : Bool    -- FAT Read clamps the partial-cluster read to the bytes that remain
  sqEndAdd : Bool    -- squashfs Seek(…, SeekEnd) adds the offset to the size
  e4Closed : Bool    -- ext4 Read/Seek check for a closed handle
  e4SkipLe : Bool    -- ext4 Read skips an extent ending exactly at the first block wanted
  sqEmptyOk : Bool   -- squashfs Read with an empty buffer returns (0, nil)
  e4SkipNeg : Bool   -- ext4 Read passes over an extent that lies wholly before the offset reached (`leftInExtent < 0`)
deriving Repr, DecidableEq

def Cfg.fixed : Cfg := ⟨true, true, true, true, true, true⟩
def Cfg.asFound : Cfg := ⟨false, false, false, false, false, false⟩

/-- file bytes `[off, off+len)`, the target of one device read -/
structure Seg where
  off : Nat
  len : Nat
deriving Repr, DecidableEq

def segsLen : List Seg → Nat
  | [] => 0
  | s :: ss => s.len + segsLen ss

def segsData (store : Dev) : List Seg → Bytes
  | [] => []
  | s :: ss => readAt store s.off s.len ++ segsData store ss

/-- result of a `Read` -/
inductive RRes
  | ok (segs : List Seg) (eof : Bool)   -- (n, nil) or (n, io.EOF); n = segsLen segs
  | errClosed                           -- (0, os.ErrClosed)
  | errOther (segs : List Seg)          -- (n, some other error)
  | panic
  | unmodelled                          -- the call left this mirror's domain (an ext4 hole: zero fill, C04's business)
deriving Repr, DecidableEq

/-! ### FAT (`fat12.File.Read`) -/

structure FatFile where
  bpc : Nat    -- bytes per cluster
  size : Nat   -- directory entry file size
  ncl : Nat    -- length of the cluster chain
deriving Repr

/-- `for i := clusterIndex; i < len(clusters); i++ { … }`; fuel = clusters left.
    (`if left <= 0 { break }` at the head of the body: no zero-length or negative read.) -/
def fatLoop (bpc maxRead : Nat) : Nat → Nat → Nat → List Seg → Nat × List Seg
  | 0, _, total, segs => (total, segs)
  | fuel+1, i, total, segs =>
    if maxRead ≤ total then (total, segs)
    else
      let toRead := min bpc (maxRead - total)
      let segs' := segs ++ [⟨i * bpc, toRead⟩]
      let total' := total + toRead
      if maxRead ≤ total' then (total', segs')
      else fatLoop bpc maxRead fuel (i+1) total' segs'

/-- the error decision at the end of `Read` -/
def fatFinish (size off maxRead total : Nat) (segs : List Seg) : RRes × Nat :=
  if size ≤ off + total then (.ok segs true, off + total)                          -- io.EOF
  else if total = 0 ∧ 0 < maxRead then (.errOther segs, off + total)              -- io.ErrUnexpectedEOF: chain too short
  else (.ok segs false, off + total)

/-- returns the result and the new cursor -/
def fatRead (c : Cfg) (f : FatFile) (off n : Nat) : RRes × Nat :=
  if f.size ≤ off then (.ok [] true, off)                 -- size <= 0: (0, io.EOF)
  else
    let maxRead := min n (f.size - off)
    let idx := off / f.bpc
    let rem := off % f.bpc
    if 0 < off ∧ f.ncl ≤ idx then (.errOther [], off)      -- "cluster chain … ends before file offset"
    else
      let part : Nat × Nat × List Seg :=
        if 0 < off ∧ rem ≠ 0 then
          -- as found: `if toRead > int64(len(b)) { toRead = int64(len(b)) }`
          let toRead := min (f.bpc - rem) (if c.fatClamp then maxRead else n)
          (toRead, idx + 1, [⟨off, toRead⟩])
        else (0, idx, [])
      let r := fatLoop f.bpc maxRead (f.ncl - part.2.1) part.2.1 part.1 part.2.2
      fatFinish f.size off maxRead r.1 r.2

/-! ### ext4 (`ext4.File.Read`) -/

structure Ext where
  fileBlock : Nat
  count : Nat
deriving Repr, DecidableEq

structure Ext4File where
  bs : Nat
  size : Nat
  exts : List Ext
deriving Repr

inductive E4Loop
  | done (off readBytes : Nat) (segs : List Seg)
  | panic (off : Nat)     -- make([]byte, negative)
  | hole (off : Nat)      -- the cursor met unmapped blocks (in front of an extent or after the last one);
                          -- the code zero-fills them — sparse files are C04's model, not this mirror's
deriving Repr

/-- `for _, e := range fl.extents { … }` followed by the trailing-hole fill -/
def ext4Loop (c : Cfg) (bs btr rsb : Nat) : List Ext → Nat → Nat → List Seg → E4Loop
  | [], off, rb, segs => if rb < btr then .hole off else .done off rb segs
  | e :: es, off, rb, segs =>
    let skip := if c.e4SkipLe then decide (e.fileBlock + e.count ≤ rsb) else decide (e.fileBlock + e.count < rsb)
    if skip then ext4Loop c bs btr rsb es off rb segs
    else
      let extentSize := e.count * bs
      if off < e.fileBlock * bs then .hole off                -- `fl.offset < holeEnd`: a hole in front of this extent
      else
        let sp := off - e.fileBlock * bs
        if extentSize < sp then                                -- leftInExtent < 0: `continue` (repaired) or make([]byte, <0)
          (if c.e4SkipNeg then ext4Loop c bs btr rsb es off rb segs else .panic off)
        else
          let toRead := min (btr - rb) (extentSize - sp)
          let segs' := segs ++ [⟨off, toRead⟩]
          if btr ≤ rb + toRead then .done (off + toRead) (rb + toRead) segs'
          else ext4Loop c bs btr rsb es (off + toRead) (rb + toRead) segs'

def ext4Read (c : Cfg) (f : Ext4File) (off n : Nat) : RRes × Nat :=
  if f.size ≤ off then (.ok [] true, off)
  else
    let btr := min n (f.size - off)
    match ext4Loop c f.bs btr (off / f.bs) f.exts off 0 [] with
    | .panic o => (.panic, o)
    | .hole o => (.unmodelled, o)
    | .done off' _ segs => (.ok segs (decide (f.size ≤ off')), off')

/-! ### iso9660 (`iso9660.File.Read`): one contiguous extent -/

def isoRead (size off n : Nat) : RRes × Nat :=
  if size ≤ off then (.ok [] true, off)
  else
    let maxRead := min n (size - off)
    (.ok [⟨off, maxRead⟩] (decide (size ≤ off + maxRead)), off + maxRead)

/-! ### squashfs (`squashfs.File.Read`) -/

structure SqFile where
  bs : Nat          -- filesystem block size
  size : Nat
  nblocks : Nat     -- len(fl.blockSizes)
  frag : Bool       -- fragmentBlockIndex != 0xffffffff
deriving Repr

structure SqSt where
  off : Nat
  read : Nat
  segs : List Seg
deriving Repr

/-- the closure `outputBlock(input)` with `pos` the file position of `input[0]`;
    `none` = `input[start:end]` panics (end < start). -/
def sqOutput (offsetEnd nbuf pos inputLen : Nat) (st : SqSt) : Option SqSt :=
  if pos ≤ st.off ∧ st.off - pos < inputLen then
    let start := st.off - pos
    let e := min (offsetEnd - pos) inputLen
    if e < start then none
    else
      let k := min (nbuf - st.read) (e - start)       -- copy(b[read:], input[start:end])
      some ⟨st.off + k, st.read + k, st.segs ++ [⟨st.off, k⟩]⟩
  else some st

/-- length of decompressed data block `i` (a sparse block yields `bs` zero bytes, which the
    clipping in `outputBlock` cuts to the same range) -/
def sqBlockLen (f : SqFile) (i : Nat) : Nat := min f.bs (f.size - i * f.bs)

/-- `for i, block := range fl.blockSizes { … }`; fuel = blocks left; `endP1 = endBlock + 1` -/
def sqLoop (f : SqFile) (offsetEnd nbuf maxRead startBlock endP1 : Nat) : Nat → Nat → SqSt → Option SqSt
  | 0, _, st => some st
  | fuel+1, i, st =>
    if endP1 ≤ i ∨ maxRead ≤ st.read then some st           -- i > endBlock || read >= maxRead
    else
      let r := if startBlock ≤ i then sqOutput offsetEnd nbuf (i * f.bs) (sqBlockLen f i) st else some st
      match r with
      | none => none
      | some st' => sqLoop f offsetEnd nbuf maxRead startBlock endP1 fuel (i+1) st'

def sqFinish (c : Cfg) (f : SqFile) (maxRead : Nat) (st : SqSt) : RRes × Nat :=
  if f.size ≤ st.off then (.ok st.segs true, st.off)
  else if st.read = 0 ∧ (¬ c.sqEmptyOk ∨ 0 < maxRead) then (.errOther st.segs, st.off)   -- "internal error: read no bytes"
  else (.ok st.segs false, st.off)

def sqRead (c : Cfg) (f : SqFile) (off n : Nat) : RRes × Nat :=
  if f.size ≤ off then (.ok [] true, off)
  else
    let maxRead := min n (f.size - off)
    let startBlock := off / f.bs
    -- Go: int((fl.offset + int64(maxRead) - 1) / fs.blocksize); for off = 0, maxRead = 0 this is
    -- -1 / bs = 0 (truncation toward zero), which is what truncated subtraction gives as well
    let endBlock := (off + maxRead - 1) / f.bs
    let fragments := decide (f.nblocks ≤ endBlock)
    let endP1 := if fragments then endBlock else endBlock + 1
    match sqLoop f (off + maxRead) n maxRead startBlock endP1 f.nblocks 0 ⟨off, 0, []⟩ with
    | none => (.panic, off)
    | some st =>
      if st.read < maxRead ∧ fragments then
        if ¬ f.frag then (.errOther st.segs, st.off)        -- "expecting fragment … but no fragment found"
        else
          match sqOutput (off + maxRead) n (f.nblocks * f.bs) (f.size % f.bs) st with
          | none => (.panic, st.off)
          | some st2 => sqFinish c f maxRead st2
      else sqFinish c f maxRead st

/-! ### Seek: the three `case` arms as data -/

/-- normalised right-hand side of `newOffset = …` -/
inductive Arm
  | offset       -- offset
  | sizePlus     -- size + offset
  | curPlus      -- fl.offset + offset
  | sizeMinus    -- size - offset
deriving Repr, DecidableEq

def Arm.code : Arm → Nat
  | .offset => 0 | .sizePlus => 1 | .curPlus => 2 | .sizeMinus => 3

def Arm.eval (a : Arm) (size pos : Nat) (o : Int) : Int :=
  match a with
  | .offset => o
  | .sizePlus => (size : Int) + o
  | .curPlus => (pos : Int) + o
  | .sizeMinus => (size : Int) - o

structure SeekArms where
  start : Arm
  end_ : Arm
  current : Arm
deriving Repr, DecidableEq

def SeekArms.codes (a : SeekArms) : List Nat := [a.start.code, a.end_.code, a.current.code]

def SeekArms.canonical : SeekArms := ⟨.offset, .sizePlus, .curPlus⟩

def SeekArms.pick (a : SeekArms) : Whence → Arm
  | .start => a.start
  | .end_ => a.end_
  | .current => a.current

/-- the body of every `File.Seek` after the closed check:
    `if newOffset < 0 { return fl.offset, err }; fl.offset = newOffset; return fl.offset, nil` -/
def seekWith (a : SeekArms) (size pos : Nat) (w : Whence) (o : Int) : Option Nat × Nat :=
  let t := (a.pick w).eval size pos o
  if t < 0 then (none, pos) else (some t.toNat, t.toNat)

/-! ### handles -/

inductive FileM
  | fat (f : FatFile)
  | ext4 (f : Ext4File)
  | iso (size : Nat)
  | sqfs (f : SqFile)
deriving Repr

def FileM.size : FileM → Nat
  | .fat f => f.size
  | .ext4 f => f.size
  | .iso s => s
  | .sqfs f => f.size

def FileM.isExt4 : FileM → Bool
  | .ext4 _ => true
  | _ => false

def armsOf (c : Cfg) : FileM → SeekArms
  | .sqfs _ => ⟨.offset, if c.sqEndAdd then .sizePlus else .sizeMinus, .curPlus⟩
  | _ => SeekArms.canonical

structure H where
  off : Nat
  closed : Bool
deriving Repr, DecidableEq

inductive MOut
  | read (r : RRes)
  | seek (ret : Option Nat)
  | seekClosed        -- (0, os.ErrClosed)
  | seekPanic
  | closed            -- Close returned
deriving Repr, DecidableEq

def readOpen (c : Cfg) (fm : FileM) (off n : Nat) : RRes × Nat :=
  match fm with
  | .fat f => fatRead c f off n
  | .ext4 f => ext4Read c f off n
  | .iso s => isoRead s off n
  | .sqfs f => sqRead c f off n

/-- `File.Read` including the closed-handle guard.  As found, ext4 `Close` is `*fl = File{}`
    and `Read` has no guard: it dereferences the nil inode / filesystem. -/
def readM (c : Cfg) (fm : FileM) (h : H) (n : Nat) : MOut × H :=
  if h.closed then
    if fm.isExt4 ∧ ¬ c.e4Closed then (.read .panic, h) else (.read .errClosed, h)
  else
    let r := readOpen c fm h.off n
    (.read r.1, ⟨r.2, false⟩)

/-- `File.Seek`.  As found, a closed ext4 handle is a zeroed struct: SeekStart / SeekCurrent
    work on offset 0, SeekEnd dereferences the nil inode. -/
def seekM (c : Cfg) (fm : FileM) (h : H) (w : Whence) (o : Int) : MOut × H :=
  if h.closed then
    if fm.isExt4 ∧ ¬ c.e4Closed then
      match w with
      | .end_ => (.seekPanic, h)
      | _ =>
        let r := seekWith SeekArms.canonical 0 h.off w o
        (.seek r.1, ⟨r.2, true⟩)
    else (.seekClosed, h)
  else
    let r := seekWith (armsOf c fm) fm.size h.off w o
    (.seek r.1, ⟨r.2, false⟩)

def closeM (c : Cfg) (fm : FileM) (h : H) : MOut × H :=
  (.closed, ⟨if fm.isExt4 ∧ ¬ c.e4Closed then 0 else h.off, true⟩)

def stepM (c : Cfg) (fm : FileM) (h : H) : Spec.HOp → MOut × H
  | .read n => readM c fm h n
  | .seek w o => seekM c fm h w o
  | .close => closeM c fm h

/-- run a whole call sequence; returns every answer -/
def runM (c : Cfg) (fm : FileM) : H → List Spec.HOp → List MOut
  | _, [] => []
  | h, op :: ops =>
    let r := stepM c fm h op
    r.1 :: runM c fm r.2 ops

/-! ### executable well-formedness check (the domain of the C10 theorems), printed by the driver
    for every case so that each compared call sequence is known to lie inside it -/

def blocks : List Ext → Nat
  | [] => 0
  | e :: es => e.count + blocks es

def contigB : Nat → List Ext → Bool
  | _, [] => true
  | s, e :: es => e.fileBlock == s && decide (0 < e.count) && contigB (s + e.count) es

def FileM.wfb : FileM → Bool
  | .fat f => decide (0 < f.bpc) && decide (f.size ≤ f.ncl * f.bpc)
  | .ext4 f => decide (0 < f.bs) && contigB 0 f.exts && decide (f.size ≤ blocks f.exts * f.bs)
  | .iso _ => true
  | .sqfs f => decide (0 < f.bs) &&
      ((f.frag && f.nblocks == f.size / f.bs) || decide (f.size ≤ f.nblocks * f.bs))

end Diskfs.ReadSeek
