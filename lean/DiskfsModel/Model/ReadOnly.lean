/-
  C11 — capability model of "read-only access never modifies the image".

  A `Storage` hands out a `Writer` only through `writable`; a write list can only
  be produced from a `Writer` (`Writer.emit`).  This mirrors backend.Storage:
  WriteAt exists only on backend.WritableFile, which code obtains from
  Storage.Writable() (backend/file/file.go refuses when readOnly) — the static
  fact that every WriteAt call site in /repo has such a receiver is regenerated
  into Generated/ReadOnly.lean and pinned in Props/C11.lean.

  `step` is the decision logic of every public entry point the engine drives:
  readers never ask for a writer; mutators ask first and fail without one;
  the mutating methods of a finalized iso9660 / squashfs filesystem
  (workspace == "") are decided by the regenerated guard tables.
  The tree as found deviates in two places, kept as switches of `Cfg`
  (regenerated): OpenFile for writing on FAT / ext4 does not ask for a writer,
  and iso9660.Create / squashfs.Create do not either.
  Core Lean only.
-/
import DiskfsModel.Core.Bytes
namespace Diskfs.ReadOnly

inductive FsKind | fat12 | fat16 | fat32 | ext4 | iso9660 | squashfs
deriving DecidableEq, Repr, Inhabited

def FsKind.staged : FsKind → Bool
  | .iso9660 | .squashfs => true
  | _ => false

def FsKind.isFat : FsKind → Bool
  | .fat12 | .fat16 | .fat32 => true
  | _ => false

/-- the mutating methods of filesystem.FileSystem (and File.Write), in the order of the guard tables -/
inductive Method | mkdir | mknod | link | symlink | chmod | chown | chtimes | openFile | rename | remove | setLabel | fileWrite
deriving DecidableEq, Repr

def Method.idx : Method → Nat
  | .mkdir => 0 | .mknod => 1 | .link => 2 | .symlink => 3 | .chmod => 4 | .chown => 5 | .chtimes => 6
  | .openFile => 7 | .rename => 8 | .remove => 9 | .setLabel => 10 | .fileWrite => 11

def Method.all : List Method :=
  [.mkdir, .mknod, .link, .symlink, .chmod, .chown, .chtimes, .openFile, .rename, .remove, .setLabel, .fileWrite]

/-- entry points driven by the engine -/
inductive Op
  -- Disk level
  | partitionGpt | partitionMbr | writePart | createFs (k : FsKind)
  | getTable | readPart | getFs
  -- FileSystem level, named by the property as mutating
  | mkdir | mkdirNested | rename | remove | removeDirfile | setLabel | chmod | chown | chtimes | symlink
  | write | writeAppend
  | openRdwr | openWronly | openCreate | openAppend | openTrunc
  -- readers
  | readDir | open | openRdonly | read | stat | readFile | label | openMissing
deriving DecidableEq, Repr

inductive Cls | reader | diskMutator | fsMutator (m : Method) | openWrite (create trunc : Bool) | handleWrite
deriving DecidableEq, Repr

def Op.cls : Op → Cls
  | .partitionGpt | .partitionMbr | .writePart | .createFs _ => .diskMutator
  | .getTable | .readPart | .getFs => .reader
  | .mkdir | .mkdirNested => .fsMutator .mkdir
  | .rename => .fsMutator .rename
  | .remove | .removeDirfile => .fsMutator .remove
  | .setLabel => .fsMutator .setLabel
  | .chmod => .fsMutator .chmod
  | .chown => .fsMutator .chown
  | .chtimes => .fsMutator .chtimes
  | .symlink => .fsMutator .symlink
  | .write | .writeAppend => .handleWrite
  | .openRdwr | .openWronly | .openAppend => .openWrite false false
  | .openCreate => .openWrite true false
  | .openTrunc => .openWrite false true
  | .readDir | .open | .openRdonly | .read | .stat | .readFile | .label | .openMissing => .reader

def Op.isMutator (o : Op) : Bool := o.cls != .reader
def Op.fsLevel : Op → Bool
  | .partitionGpt | .partitionMbr | .writePart | .createFs _ | .getTable | .readPart | .getFs => false
  | _ => true

/-! ### capabilities -/

structure Writer where
  token : Unit := ()
deriving DecidableEq

structure Storage where
  ro : Bool
deriving Repr

/-- backend.Storage.Writable(): the only source of a Writer -/
def Storage.writable (s : Storage) : Option Writer := if s.ro then none else some {}

/-- the only way to produce writes -/
def Writer.emit (_ : Writer) (ws : List Wr) : List Wr := ws

inductive Out | ok | err
deriving DecidableEq, Repr

structure Res where
  out : Out
  writes : List Wr

/-- guard classes regenerated from iso9660.go / squashfs.go:
    0 = no guard found, 1 = `workspace == ""` guard precedes every effect, 2 = returns a constant
    error without any effect, 3 = OpenFile's write-mode guard inside the workspace=="" branch -/
def guardClass (tbl : List (Nat × Nat)) (m : Method) : Nat :=
  match tbl.find? (fun p => p.1 == m.idx) with
  | some p => p.2
  | none => 0

structure Cfg where
  fatOpenChecks : Bool      -- fat12.FileSystem.OpenFile asks for a writer when opened for writing
  ext4OpenChecks : Bool
  isoCreateChecks : Bool    -- iso9660.Create asks for a writer
  sqfsCreateChecks : Bool
  isoGuards : List (Nat × Nat)
  sqfsGuards : List (Nat × Nat)
deriving Repr

def Cfg.guards (c : Cfg) : FsKind → List (Nat × Nat)
  | .iso9660 => c.isoGuards
  | .squashfs => c.sqfsGuards
  | _ => []

/-- an operation that must obtain a writer before any effect -/
def needWriter (s : Storage) (payload : List Wr) : Res :=
  match s.writable with
  | none => ⟨.err, []⟩
  | some w => ⟨.ok, w.emit payload⟩

def isoBlockOk (ss : Nat) : Bool := ss == 2048 || ss == 4096 || ss == 8192
def sqfsBlockOk (ss : Nat) : Bool := decide (4096 ≤ ss) && decide (ss ≤ 1048576) && (ss &&& (ss - 1)) == 0

/-- `ss`: the logical sector size of the disk (CreateFilesystem hands it to Create as block size).
    `payload`: whatever the operation would write given a writer (arbitrary). -/
def step (c : Cfg) (s : Storage) (k : FsKind) (fin : Bool) (ss : Nat) (op : Op) (payload : List Wr) : Res :=
  match op.cls with
  | .reader => ⟨.ok, []⟩
  | .diskMutator =>
    match op with
    | .createFs .iso9660 =>
      if !(isoBlockOk ss) then ⟨.err, []⟩
      else if c.isoCreateChecks then needWriter s []      -- Create itself writes nothing (staged)
      else ⟨.ok, []⟩
    | .createFs .squashfs =>
      if !(sqfsBlockOk ss) then ⟨.err, []⟩
      else if c.sqfsCreateChecks then needWriter s []
      else ⟨.ok, []⟩
    | _ => needWriter s payload
  | .fsMutator m =>
    if k.staged then
      if fin then (if guardClass (c.guards k) m != 0 then ⟨.err, []⟩ else needWriter s payload)
      else ⟨.ok, []⟩            -- not finalized: the call works on the workspace directory, not on the device
    else needWriter s payload
  | .handleWrite =>
    if k.staged then
      if fin then (if guardClass (c.guards k) .fileWrite != 0 then ⟨.err, []⟩ else needWriter s payload)
      else ⟨.ok, []⟩
    else needWriter s payload
  | .openWrite create trunc =>
    if k.staged then
      if fin then (if guardClass (c.guards k) .openFile != 0 then ⟨.err, []⟩ else needWriter s payload)
      else ⟨.ok, []⟩
    else if k.isFat then
      if c.fatOpenChecks then needWriter s payload
      else if create || trunc then needWriter s payload   -- must write the directory / FAT at once
      else (match s.writable with | none => ⟨.ok, []⟩ | some w => ⟨.ok, w.emit []⟩)
    else
      if c.ext4OpenChecks then needWriter s payload
      else if create then needWriter s payload
      else (match s.writable with | none => ⟨.ok, []⟩ | some w => ⟨.ok, w.emit []⟩)

/-- inputs on which the tree as found hands out success on a read-only storage -/
def trigger (c : Cfg) (k : FsKind) (_fin : Bool) (ss : Nat) (op : Op) : Bool :=
  match op with
  | .createFs .iso9660 => !c.isoCreateChecks && isoBlockOk ss
  | .createFs .squashfs => !c.sqfsCreateChecks && sqfsBlockOk ss
  | .openRdwr | .openWronly | .openAppend =>
    !k.staged && ((k.isFat && !c.fatOpenChecks) || (!k.isFat && !c.ext4OpenChecks))
  | .openTrunc => !k.staged && !k.isFat && !c.ext4OpenChecks
  | _ => false

structure Call where
  k : FsKind
  fin : Bool
  ss : Nat
  op : Op
  payload : List Wr

/-- a history on one storage: the image after applying every emitted write -/
def run (c : Cfg) (s : Storage) (img : Dev) : List Call → Dev
  | [] => img
  | x :: xs => run c s (applyWrs img (step c s x.k x.fin x.ss x.op x.payload).writes) xs

/-! ### constructors: how a storage comes to be read-only

  The table is regenerated from backend/file/file.go and diskfs.go: the extractor EVALUATES each
  constructor's body for every concrete flag combination (harness/facts/readonly/ctor.go) and emits
  one row per combination, six numbers each. -/

/-- one row of the constructor table -/
structure CtorRow where
  ctor : Nat      -- 0 diskfs.Open, 1 file.OpenFromPath, 2 file.OpenFromPathWithExclusive, 3 file.New, 4 file.CreateFromPath
  a : Nat         -- Open: the OpenModeOption value; the others: the readOnly argument (0/1)
  b : Nat         -- the exclusive argument (0/1); 0 where there is none
  opened : Nat    -- 0: does not open a file itself (file.New: the caller did), 1: one os.OpenFile, 2: refuses without opening
  flags : Nat     -- the os.OpenFile flags (Linux values)
  roField : Bool  -- the readOnly field of the rawBackend built
deriving DecidableEq, Repr

def decodeRows : List Nat → List CtorRow
  | c :: a :: b :: o :: f :: r :: rest => ⟨c, a, b, o, f, r == 1⟩ :: decodeRows rest
  | _ => []

/-- what the caller asked for. `roMode`: the value of the constant diskfs.ReadOnly (regenerated) -/
def CtorRow.askedRO (roMode : Nat) (r : CtorRow) : Bool :=
  if r.ctor == 0 then r.a == roMode
  else if r.ctor == 4 then false
  else r.a == 1

/-- O_ACCMODE of the flags: 0 O_RDONLY, 1 O_WRONLY, 2 O_RDWR -/
def accMode (flags : Nat) : Nat := flags % 4

def CtorRow.key (r : CtorRow) : Nat × Nat × Nat := (r.ctor, r.a, r.b)

def findRow (rows : List CtorRow) (ctor a b : Nat) : Option CtorRow :=
  rows.find? (fun r => r.ctor == ctor && r.a == a && r.b == b)

/-- the storages the library and its callers build -/
inductive Stor
  | raw (roField : Bool)               -- backend/file rawBackend over an *os.File
  | rawNoWriter (roField : Bool)       -- rawBackend over an fs.File that is no io.WriterAt: ErrNotSuitable
  | refusing                           -- any backend whose Writable() fails
  | sub (u : Stor) (off size : Nat)    -- backend.Sub (also built by the library for partitions)
deriving DecidableEq, Repr

/-- rawBackend.Writable: the handle is handed out only under `!readOnly`; SubStorage.Writable asks the
    underlying storage first and hands a refusal on -/
def Stor.writable : Stor → Option Writer
  | .raw ro => if ro then none else some {}
  | .rawNoWriter _ => none
  | .refusing => none
  | .sub u _ _ => match u.writable with
    | none => none
    | some w => some w

def Stor.toStorage (s : Stor) : Storage := ⟨s.writable.isNone⟩

/-- nested backend.Sub, innermost first -/
def subs : List (Nat × Nat) → Stor → Stor
  | [], u => u
  | (o, n) :: l, u => subs l (.sub u o n)

/-- diskfs.OpenBackend(b, WithOpenMode(m)): `honours` is the as-found switch (regenerated) - whether the
    function acts on the mode it parses; when it does, a read-only mode wraps the storage in one whose
    Writable() refuses -/
def openBackend (honours askedRO : Bool) (inner : Stor) : Stor :=
  if honours && askedRO then .refusing else inner

/-- the backend a row's constructor returns (none: the constructor refuses, there is no backend) -/
def CtorRow.backend (r : CtorRow) : Option Stor := if r.opened == 2 then none else some (.raw r.roField)

end Diskfs.ReadOnly
