/-
  C12 — mirror of the acceptance test each filesystem `Read` applies to the
  header bytes of a volume, of the probe chain in disk.GetFilesystem /
  partition.Read, and of the header bytes FAT12/FAT16/FAT32 `Create` write.

    filesystem/fat12/fat12.go  Read / Create      filesystem/fat12/dos20bpb.go, dos331bpb.go, dos40ebpb.go
    filesystem/fat16/fat16.go  Read / Create      filesystem/fat12/msdosbootsector.go
    filesystem/fat32/fat32.go  Read / Create      filesystem/fat32/dos71bpb.go, msdosbootsector.go, fsinfosector.go
    filesystem/iso9660/iso9660.go Read, volume_descriptor.go volumeDescriptorFromBytes   (header level)
    filesystem/squashfs/superblock.go parseSuperblock                                    (header level)
    filesystem/ext4/superblock.go superblockFromBytes                                    (header level)
    disk/disk.go GetFilesystem, partition/partition.go Read

  A volume is a read oracle `rd : Nat → UInt8` with offsets relative to the
  volume start; `avail` is the number of bytes the device holds from the volume
  start on (a ReadAt reaching past it fails).  Go's uint32 arithmetic is modelled
  with explicit wrap.  What the header model does not read (equality of the two
  FAT32 FAT copies; everything behind the magic numbers of iso9660, squashfs,
  ext4) is the `deep` argument.
  Core Lean only.
-/
import DiskfsModel.Core.Bytes
namespace Diskfs.Detect

inductive Kind | fat32 | fat16 | fat12 | iso9660 | squashfs | ext4
deriving DecidableEq, Repr, Inhabited

def Kind.name : Kind → String
  | .fat32 => "fat32" | .fat16 => "fat16" | .fat12 => "fat12"
  | .iso9660 => "iso9660" | .squashfs => "squashfs" | .ext4 => "ext4"

def Kind.ofName? (s : String) : Option Kind :=
  if s == "fat32" then some .fat32 else if s == "fat16" then some .fat16
  else if s == "fat12" then some .fat12 else if s == "iso9660" then some .iso9660
  else if s == "squashfs" then some .squashfs else if s == "ext4" then some .ext4 else none

def Kind.all : List Kind := [.fat32, .fat16, .fat12, .iso9660, .squashfs, .ext4]

inductive Verdict | accept | reject | panic
deriving DecidableEq, Repr

/-! ### field access -/

def u8 (rd : Dev) (i : Nat) : Nat := (rd i).toNat
def u16 (rd : Dev) (i : Nat) : Nat := u8 rd i + 256 * u8 rd (i + 1)
def u32 (rd : Dev) (i : Nat) : Nat := u16 rd i + 65536 * u16 rd (i + 2)
/-- big endian 32 bit -/
def u32be (rd : Dev) (i : Nat) : Nat :=
  16777216 * u8 rd i + 65536 * u8 rd (i + 1) + 256 * u8 rd (i + 2) + u8 rd (i + 3)

def two32 : Nat := 4294967296

/-- `a - b - c - d` in Go uint32 arithmetic (each operand below 2^32) -/
def sub32x3 (a b c d : Nat) : Nat := (a + 3 * two32 - b - c - d) % two32

/-- Dos20BPBFromBytes: `sectorSize < 512 || sectorSize & (sectorSize-1) != 0` is refused (uint16) -/
def validBps (n : Nat) : Bool :=
  n == 512 || n == 1024 || n == 2048 || n == 4096 || n == 8192 || n == 16384 || n == 32768

def extSigOk (x : Nat) : Bool := x == 0x28 || x == 0x29

/-- a ReadAt of `len` bytes at `off` returns no error (the device ends at `avail`) -/
def readOk (avail off len : Nat) : Bool := decide (off < avail) && decide (off + len ≤ avail)

/-- thresholds and tables the model is defined over (regenerated from the source) -/
structure Params where
  f12ReadGe : Nat      -- fat12.Read refuses numClusters >= this
  f16ReadLt : Nat      -- fat16.Read refuses numClusters < this
  f16ReadGe : Nat      -- fat16.Read refuses numClusters >= this
  f12CreateGe : Nat
  f16CreateLt : Nat
  f16CreateGe : Nat
  spc12 : List (Nat × Nat)   -- (inclusive size bound, sectors per cluster)
  spc12d : Nat
  spc16 : List (Nat × Nat)
  spc16d : Nat
  f12Max : Nat
  f16Max : Nat
  f32Max : Nat
  f12RefuseZero : Bool := false   -- fat12.Create refuses a geometry without a data cluster
  cb32 : List (Nat × Nat) := []   -- fat32.Create: (inclusive size bound, cluster bytes)
  cb32d : Nat := 32768
deriving Repr

/-! ### BPB as the readers compute with it -/

structure Bpb where
  bps : Nat
  spc : Nat
  reserved : Nat
  nfats : Nat
  rootEnts : Nat
  total : Nat
  spf : Nat
deriving Repr

def readBpb (rd : Dev) : Bpb :=
  { bps := u16 rd 11, spc := u8 rd 13, reserved := u16 rd 14, nfats := u8 rd 16,
    rootEnts := u16 rd 17,
    total := if u32 rd 32 ≠ 0 then u32 rd 32 else u16 rd 19,   -- Dos40EBPB.TotalSectors
    spf := u16 rd 22 }

def Bpb.rootDirSectors (b : Bpb) : Nat := (b.rootEnts * 32 + b.bps - 1) / b.bps

/-- `dataSectors / sectorsPerCluster` as fat12.Read / fat16.Read compute it (uint32) -/
def Bpb.count (b : Bpb) : Nat :=
  sub32x3 b.total b.reserved (b.nfats * b.spf) b.rootDirSectors / b.spc

/-- reserved area + FATs + fixed root directory, in sectors -/
def metaSectors (bps reserved nfats spf rootEnts : Nat) : Nat :=
  reserved + nfats * spf + (rootEnts * 32 + bps - 1) / bps

/-- fat12.CheckGeometry (shared by the three FAT readers); `rootEnts` is 0 for FAT32.
    true = accepted. The sums are uint64 in the source and cannot wrap. -/
def checkGeometry (bps spc reserved nfats spf rootEnts total size : Nat) : Bool :=
  (bps == 512 || bps == 1024 || bps == 2048 || bps == 4096) &&
  (spc == 1 || spc == 2 || spc == 4 || spc == 8 || spc == 16 || spc == 32 || spc == 64 || spc == 128) &&
  reserved != 0 && nfats != 0 && spf != 0 &&
  !(total != 0 && decide (metaSectors bps reserved nfats spf rootEnts ≥ total)) &&
  !(decide (size > 0) && decide (metaSectors bps reserved nfats spf rootEnts * bps > size))

def bootSigOk (rd : Dev) : Bool := u8 rd 510 == 0x55 && u8 rd 511 == 0xAA

/-- fat12.Read (is16 = false) and fat16.Read (is16 = true). fat16.Read parses only the BPB
    (no 0x55AA check). -/
def verdictFat1x (P : Params) (is16 : Bool) (rd : Dev) (size avail bs : Nat) : Verdict :=
  if !(bs == 0 || bs == 512) then .reject
  else if !(readOk avail 0 512) then .reject
  else
    let b := readBpb rd
    if !(validBps b.bps) then .reject
    else if !(extSigOk (u8 rd 38)) then .reject
    else if !is16 && !(bootSigOk rd) then .reject
    else if b.rootEnts == 0 then .reject
    else if !(checkGeometry b.bps b.spc b.reserved b.nfats b.spf b.rootEnts b.total size) then .reject
    else
      let n := b.count
      let refused := if is16 then (decide (n < P.f16ReadLt) || decide (n ≥ P.f16ReadGe)) else decide (n ≥ P.f12ReadGe)
      if refused then .reject
      else if readOk avail (b.reserved * b.bps) (b.spf * b.bps) then .accept else .reject

def fsisOk (rd : Dev) (off : Nat) : Bool :=
  u32be rd off == 0x52526141 && u32be rd (off + 484) == 0x72724161 && u32be rd (off + 508) == 0x000055AA

/-- fat32.Read. `deep`: what comparing the two FAT copies gives (accept = equal tables). -/
def verdictFat32 (P : Params) (rd : Dev) (size avail bs : Nat) (deep : Verdict) : Verdict :=
  if !(bs == 0 || bs == 512 || bs == 4096) then .reject
  else if size > P.f32Max then .reject
  else if size < bs * 4 then .reject
  else if !(readOk avail 0 4096) then .reject
  else if !(validBps (u16 rd 11)) then .reject
  else if u16 rd 42 ≠ 0 then .reject                 -- FAT version
  else if !(extSigOk (u8 rd 66)) then .reject
  else if !(bootSigOk rd) then .reject
  else if !(checkGeometry (u16 rd 11) (u8 rd 13) (u16 rd 14) (u8 rd 16) (u32 rd 36) 0 (u32 rd 32) size) then .reject
  else
    let bps := u16 rd 11
    let fsi := u16 rd 48 * bps
    if !(readOk avail fsi 512) then .reject
    else if !(fsisOk rd fsi) then .reject
    else if (u32 rd 36 * bps) % two32 < 8 then .panic    -- tableFromBytes slices b[0:8]
    else deep

def isPow2 (n : Nat) : Bool := n != 0 && (n &&& (n - 1)) == 0

/-- iso9660.Read, header level: the first volume descriptor -/
def verdictIso (rd : Dev) (size avail pbs : Nat) (deep : Verdict) : Verdict :=
  let bs := if pbs == 0 then 2048 else pbs
  if !(bs == 2048 || bs == 4096 || bs == 8192) then .reject
  else if size != 0 && size > two32 * bs then .reject
  else if size != 0 && size < 32768 + 4096 + bs then .reject
  else if !(readOk avail 0 32768) then .reject
  else if !(readOk avail 32768 2048) then .reject
  else if !(u8 rd 32769 == 0x43 && u8 rd 32770 == 0x44 && u8 rd 32771 == 0x30 && u8 rd 32772 == 0x30 && u8 rd 32773 == 0x31) then .reject
  else
    let ty := u8 rd 32768
    if !(ty == 0 || ty == 1 || ty == 2 || ty == 3 || ty == 255) then .reject
    else if ty == 1 && u8 rd 32774 != 1 then .reject
    else deep

/-- squashfs.Read, header level: block-size argument, magic, version -/
def verdictSqfs (rd : Dev) (avail bs0 : Nat) (deep : Verdict) : Verdict :=
  let bs := if bs0 == 0 then 131072 else bs0
  if bs < 4096 || bs > 1048576 || !(isPow2 bs) then .reject
  else if !(readOk avail 0 96) then .reject
  else if u32 rd 0 ≠ 0x73717368 then .reject
  else if u16 rd 28 ≠ 4 || u16 rd 30 ≠ 0 then .reject
  else deep

/-- ext4.Read, header level: sector-size argument, minimum size, magic at 0x438 -/
def verdictExt4 (rd : Dev) (size avail bs : Nat) (deep : Verdict) : Verdict :=
  if !(bs == 0 || bs == 512) then .reject
  else if size < 2560 then .reject
  else if !(readOk avail 0 1024) then .reject
  else if !(readOk avail 1024 1024) then .reject
  else if u16 rd 1080 ≠ 0xEF53 then .reject
  else deep

structure Ctx where
  size : Nat
  avail : Nat
  bs : Nat                 -- Disk.LogicalBlocksize handed to the Reads
  deep : Kind → Verdict    -- outcome of the part of each Read behind the header checks

def verdict (P : Params) (rd : Dev) (c : Ctx) : Kind → Verdict
  | .fat32 => verdictFat32 P rd c.size c.avail c.bs (c.deep .fat32)
  | .fat16 => verdictFat1x P true rd c.size c.avail c.bs
  | .fat12 => verdictFat1x P false rd c.size c.avail c.bs
  | .iso9660 => verdictIso rd c.size c.avail 0 (c.deep .iso9660)   -- DefaultBlocks: physical size 0
  | .squashfs => verdictSqfs rd c.avail c.bs (c.deep .squashfs)
  | .ext4 => verdictExt4 rd c.size c.avail c.bs (c.deep .ext4)

inductive Probe | found (k : Kind) | none | panic
deriving DecidableEq, Repr

/-- disk.GetFilesystem: first Read that returns no error, in `order` -/
def probe (v : Kind → Verdict) : List Kind → Probe
  | [] => .none
  | k :: ks =>
    match v k with
    | .accept => .found k
    | .panic => .panic
    | .reject => probe v ks

def Probe.str : Probe → String
  | .found k => k.name | .none => "none" | .panic => "panic"

/-- index of a kind in the probe order (length if absent) -/
def pos (order : List Kind) (k : Kind) : Nat := order.idxOf k

def before (order : List Kind) (a b : Kind) : Bool := decide (pos order a < pos order b)

/-! ### partition tables: gpt then mbr (partition.Read) -/

inductive TableKind | gpt | mbr
deriving DecidableEq, Repr

/-- first reader in `order` that accepts -/
def tableProbe (gptOk mbrOk : Bool) : List TableKind → Option TableKind
  | [] => none
  | .gpt :: ks => if gptOk then some .gpt else tableProbe gptOk mbrOk ks
  | .mbr :: ks => if mbrOk then some .mbr else tableProbe gptOk mbrOk ks

/-- partition.Read with the as-found switch `checks`: once the GPT reader has accepted, a legacy MBR in
    sector 0 (`legacy`: MBR signature, at least one used entry, no protective 0xEE entry) that mbr.Read
    accepts takes precedence - the GPT structures are leftovers of the disk's previous life -/
def tableProbeL (checks gptOk mbrOk legacy : Bool) (order : List TableKind) : Option TableKind :=
  match tableProbe gptOk mbrOk order with
  | some .gpt => if checks && legacy && mbrOk then some .mbr else some .gpt
  | r => r

/-! ### what FAT12 / FAT16 Create compute and write into sector 0 -/

def lookupSpc (tbl : List (Nat × Nat)) (dflt size : Nat) : Nat :=
  match tbl.find? (fun p => decide (size ≤ p.1)) with
  | some p => p.2
  | none => dflt

structure Layout where
  total : Nat
  spc : Nat
  reserved : Nat
  rootEnts : Nat
  spf : Nat
  media : Nat
  count : Nat
deriving Repr, DecidableEq

def rootDirSectors512 (rootEnts : Nat) : Nat := (rootEnts * 32 + 511) / 512

def rootEnts12 (size : Nat) : Nat := if size ≤ 524288 then 112 else 224
def media12 (size : Nat) : Nat := if size ≤ 2097152 then 0xF0 else 0xF8

/-- `uint16(((numClusters+2)*3/2 + 1 + 512 - 1) / 512)` in uint32 arithmetic -/
def spf12 (nc0 : Nat) : Nat := (((((nc0 + 2) % two32) * 3) % two32 / 2 + 512) % two32 / 512) % 65536
/-- `uint16(((numClusters+2)*2 + 512 - 1) / 512)` -/
def spf16 (nc0 : Nat) : Nat := (((((nc0 + 2) % two32) * 2) % two32 + 511) % two32 / 512) % 65536

/-- the geometry fat12.Create computes for a size (before its cluster-count check) -/
def mkLayout12 (P : Params) (size : Nat) : Layout :=
  let total := size / 512
  let spc := lookupSpc P.spc12 P.spc12d size
  let rds := rootDirSectors512 (rootEnts12 size)
  let spf := spf12 (sub32x3 total 1 rds 0 / spc)
  { total, spc, reserved := 1, rootEnts := rootEnts12 size, spf, media := media12 size,
    count := sub32x3 total 1 rds (2 * spf) / spc }

/-- fat12.Create: geometry or refusal -/
def layout12 (P : Params) (size : Nat) : Option Layout :=
  if size > P.f12Max || size < 2048 then none
  else if (mkLayout12 P size).count ≥ P.f12CreateGe then none
  else if P.f12RefuseZero && (mkLayout12 P size).count == 0 then none
  else some (mkLayout12 P size)

def mkLayout16 (P : Params) (size : Nat) : Layout :=
  let total := size / 512
  let spc := lookupSpc P.spc16 P.spc16d size
  let rds := rootDirSectors512 512
  let spf := spf16 (sub32x3 total 4 rds 0 / spc)
  { total, spc, reserved := 4, rootEnts := 512, spf, media := 0xF8,
    count := sub32x3 total 4 rds (2 * spf) / spc }

/-- fat16.Create: geometry or refusal -/
def layout16 (P : Params) (size : Nat) : Option Layout :=
  if size > P.f16Max || size < 4096 then none
  else if (mkLayout16 P size).count ≥ P.f16CreateGe then none
  else if (mkLayout16 P size).count < P.f16CreateLt then none
  else some (mkLayout16 P size)

def byteOf (n : Nat) : UInt8 := UInt8.ofNat (n % 256)

def strByte (s : List Nat) (i : Nat) : UInt8 := byteOf (s.getD i 0x20)

def oemName : List Nat := [0x67, 0x6f, 0x64, 0x69, 0x73, 0x6b, 0x66, 0x73]          -- "godiskfs"
def fsType12 : List Nat := [0x46, 0x41, 0x54, 0x31, 0x32, 0x20, 0x20, 0x20]        -- "FAT12   "
def fsType16 : List Nat := [0x46, 0x41, 0x54, 0x31, 0x36, 0x20, 0x20, 0x20]        -- "FAT16   "

/-- the 512-byte boot sector msDosBootSector.toBytes produces for FAT12 / FAT16.
    `label`: the 11 label bytes; `serial`: the volume id (0 when reproducible). -/
def bootFat1x (is16 : Bool) (L : Layout) (serial : Nat) (label : List Nat) (i : Nat) : UInt8 :=
  if i = 0 then 0xeb else if i = 1 then 0x3c else if i = 2 then 0x90
  else if i < 11 then strByte oemName (i - 3)
  else if i = 11 then 0x00 else if i = 12 then 0x02                       -- 512
  else if i = 13 then byteOf L.spc
  else if i = 14 then byteOf L.reserved else if i = 15 then byteOf (L.reserved / 256)
  else if i = 16 then 2
  else if i = 17 then byteOf L.rootEnts else if i = 18 then byteOf (L.rootEnts / 256)
  else if i = 19 then byteOf (if L.total ≤ 0xFFFF then L.total else 0)
  else if i = 20 then byteOf ((if L.total ≤ 0xFFFF then L.total else 0) / 256)
  else if i = 21 then byteOf L.media
  else if i = 22 then byteOf L.spf else if i = 23 then byteOf (L.spf / 256)
  else if i = 24 then (if is16 then 63 else 18) else if i = 25 then 0       -- sectors per track
  else if i = 26 then (if is16 then 255 else 2) else if i = 27 then 0       -- heads
  else if i < 32 then 0                                                    -- hidden sectors
  else if i = 32 then byteOf (if L.total ≤ 0xFFFF then 0 else L.total)
  else if i = 33 then byteOf ((if L.total ≤ 0xFFFF then 0 else L.total) / 256)
  else if i = 34 then byteOf ((if L.total ≤ 0xFFFF then 0 else L.total) / 65536)
  else if i = 35 then byteOf ((if L.total ≤ 0xFFFF then 0 else L.total) / 16777216)
  else if i = 36 then (if is16 then 0x80 else 0x00)                        -- drive number
  else if i = 37 then 0
  else if i = 38 then 0x29
  else if i = 39 then byteOf serial else if i = 40 then byteOf (serial / 256)
  else if i = 41 then byteOf (serial / 65536) else if i = 42 then byteOf (serial / 16777216)
  else if i < 54 then strByte label (i - 43)
  else if i < 62 then strByte (if is16 then fsType16 else fsType12) (i - 54)
  else if i = 510 then 0x55 else if i = 511 then 0xAA
  else 0

def sectorBytes (f : Nat → UInt8) (n : Nat) : Bytes := (List.range n).map f

/-- relative write list of fat12.Create / fat16.Create (offsets from the volume start):
    boot sector, FAT 1, FAT 2, zeroed root directory, then SetLabel: boot sector, root directory.
    `fat` and `rootDir` are the payloads (their content plays no role in detection). -/
def createWrs1x (is16 : Bool) (L : Layout) (serial : Nat) (label : List Nat) (fat rootDir : Bytes) : List Wr :=
  let fat1 := L.reserved * 512
  let fatSize := L.spf * 512
  let rootOff := fat1 + 2 * fatSize
  let noName : List Nat := [0x4e, 0x4f, 0x20, 0x4e, 0x41, 0x4d, 0x45, 0x20, 0x20, 0x20, 0x20]
  [ ⟨0, sectorBytes (bootFat1x is16 L serial noName) 512⟩,
    ⟨fat1, fat.take fatSize ++ zeros (fatSize - fat.length)⟩,
    ⟨fat1 + fatSize, fat.take fatSize ++ zeros (fatSize - fat.length)⟩,
    ⟨rootOff, zeros (L.rootEnts * 32)⟩,
    ⟨0, sectorBytes (bootFat1x is16 L serial label) 512⟩,
    ⟨rootOff, rootDir.take (L.rootEnts * 32) ++ zeros (L.rootEnts * 32 - rootDir.length)⟩ ]

/-- (offset, length) shape of a write list -/
def shape (ws : List Wr) : List (Nat × Nat) := ws.map fun w => (w.off, w.data.length)

/-- the same write list placed at `start` -/
def shift (start : Nat) (ws : List Wr) : List Wr := ws.map fun w => ⟨start + w.off, w.data⟩

/-! ### what fat32.Create computes and writes into the reserved area -/

structure Layout32 where
  bps : Nat      -- bytes per sector (512 or 4096)
  spc : Nat
  total : Nat    -- total sectors (uint32)
  spf : Nat      -- sectors per FAT after the uint16 conversion Create applies
deriving Repr, DecidableEq

/-- geometry fat32.Create computes (uint32 / uint16 / uint8 conversions as in the source) -/
def mkLayout32 (P : Params) (size bs0 : Nat) : Layout32 :=
  let bs := if bs0 = 0 then 512 else bs0
  let spc0 := (lookupSpc P.cb32 P.cb32d size / bs) % 256
  let spc := if spc0 = 0 then 1 else spc0
  let total := (size / bs) % two32
  let denom := (bs * spc + 8) % two32
  -- fix 911b8cc: the numerator carries 8*spc so that the two reserved FAT entries fit as well
  let spf := ((((4 * ((total + two32 - 32) % two32)) % two32 + (8 * spc) % two32) % two32 + denom - 1) % two32 / denom) % 65536
  { bps := bs, spc, total, spf }

/-- fat32.Create: geometry or refusal (`spf = 0` makes Create index an empty table: no filesystem) -/
def layout32 (P : Params) (size bs0 : Nat) : Option Layout32 :=
  let L := mkLayout32 P size bs0
  if !(bs0 == 0 || bs0 == 512 || bs0 == 4096) then none
  else if size > P.f32Max then none
  else if size < 32 * L.bps then none
  else if L.total ≤ 32 + 2 * L.spf then none
  else if (L.total - 32 - 2 * L.spf) / L.spc = 0 then none
  else if (L.total - 32 - 2 * L.spf) * L.bps < 32768 then none
  else if L.spf = 0 then none
  else some L

def fsType32 : List Nat := [0x46, 0x41, 0x54, 0x33, 0x32, 0x20, 0x20, 0x20]        -- "FAT32   "

/-- boot sector of fat32 (msDosBootSector.toBytes with the long dos71EBPB); one sector of `bps` bytes -/
def bootFat32 (L : Layout32) (serial : Nat) (label : List Nat) (i : Nat) : UInt8 :=
  if i = 0 then 0xeb else if i = 1 then 0x58 else if i = 2 then 0x90
  else if i < 11 then strByte oemName (i - 3)
  else if i = 11 then byteOf L.bps else if i = 12 then byteOf (L.bps / 256)
  else if i = 13 then byteOf L.spc
  else if i = 14 then 32 else if i = 15 then 0            -- reserved sectors
  else if i = 16 then 2
  else if i < 21 then 0                                   -- root entries, 16-bit total
  else if i = 21 then 0xF8
  else if i = 22 then 0 else if i = 23 then 0             -- 16-bit sectors per FAT
  else if i = 24 then 1 else if i = 25 then 0
  else if i = 26 then 1 else if i = 27 then 0
  else if i < 32 then 0
  else if i = 32 then byteOf L.total else if i = 33 then byteOf (L.total / 256)
  else if i = 34 then byteOf (L.total / 65536) else if i = 35 then byteOf (L.total / 16777216)
  else if i = 36 then byteOf L.spf else if i = 37 then byteOf (L.spf / 256)
  else if i = 38 then 0 else if i = 39 then 0
  else if i < 44 then 0                                   -- mirror flags, version
  else if i = 44 then 2 else if i < 48 then 0             -- root directory cluster
  else if i = 48 then 1 else if i = 49 then 0             -- FSInfo sector
  else if i = 50 then 6 else if i = 51 then 0             -- backup boot sector
  else if i < 64 then 0                                   -- boot file name
  else if i = 64 then 0x80 else if i = 65 then 0
  else if i = 66 then 0x29
  else if i = 67 then byteOf (serial / 16777216) else if i = 68 then byteOf (serial / 65536)   -- big endian
  else if i = 69 then byteOf (serial / 256) else if i = 70 then byteOf serial
  else if i < 82 then strByte label (i - 71)
  else if i < 90 then strByte fsType32 (i - 82)
  else if i = 510 then 0x55 else if i = 511 then 0xAA
  else 0

/-- FSInformationSector.toBytes as Create writes it (both counters unknown = 0xffffffff) -/
def fsisFat32 (i : Nat) : UInt8 :=
  if i = 0 then 0x52 else if i = 1 then 0x52 else if i = 2 then 0x61 else if i = 3 then 0x41
  else if i = 484 then 0x72 else if i = 485 then 0x72 else if i = 486 then 0x41 else if i = 487 then 0x61
  else if 488 ≤ i ∧ i < 496 then 0xFF
  else if i = 510 then 0x55 else if i = 511 then 0xAA
  else 0

/-- relative write list of fat32.Create: boot + backup, FAT 1, FAT 2, FSInfo + backup, zeroed root
    cluster, then SetLabel: boot + backup, root directory cluster. -/
def createWrs32 (L : Layout32) (serial : Nat) (label : List Nat) (fat rootDir : Bytes) : List Wr :=
  let fat1 := 32 * L.bps
  let fatSize := L.spf * L.bps
  let dataStart := fat1 + 2 * fatSize
  let cl := L.spc * L.bps
  let noName : List Nat := [0x4e, 0x4f, 0x20, 0x4e, 0x41, 0x4d, 0x45, 0x20, 0x20, 0x20, 0x20]
  [ ⟨0, sectorBytes (bootFat32 L serial noName) L.bps⟩,
    ⟨6 * L.bps, sectorBytes (bootFat32 L serial noName) L.bps⟩,
    ⟨fat1, fat.take fatSize ++ zeros (fatSize - fat.length)⟩,
    ⟨fat1 + fatSize, fat.take fatSize ++ zeros (fatSize - fat.length)⟩,
    ⟨L.bps, sectorBytes fsisFat32 L.bps⟩,
    ⟨7 * L.bps, sectorBytes fsisFat32 L.bps⟩,
    ⟨dataStart, zeros cl⟩,
    ⟨0, sectorBytes (bootFat32 L serial label) L.bps⟩,
    ⟨6 * L.bps, sectorBytes (bootFat32 L serial label) L.bps⟩,
    ⟨dataStart, rootDir.take cl ++ zeros (cl - rootDir.length)⟩ ]

end Diskfs.Detect
