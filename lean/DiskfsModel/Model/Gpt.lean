/-
  Mirror of partition/gpt (table.go, partition.go, common.go):
    encoders  toBytes / toPartitionArrayBytes / toGPTBytes / generateProtectiveMBR / initEntry / initTable / Write
    decoders  readGPTHeader / readProtectiveMBR / partitionFromBytes / readPartitionArrayBytes /
              loadEntries / readPrimary / readBackup / Read
  over `List UInt8`, with Go's integer widths where a value can wrap, explicit
  panic outcomes and a list of `make([]byte, n)` requests.  CRC32 is a parameter
  `crc : Bytes → Nat` everywhere (the driver passes `Diskfs.crc32`).
  GUIDs are 16 bytes in RFC-4122 order (what `uuid.Parse` yields); strings,
  upper-casing and `uuid.NewRandom` stay outside the model.
  Core Lean only (linked into the driver).
-/
import DiskfsModel.Core.Bytes
namespace Diskfs.Gpt

/-! ### outcomes -/

/-- `err true` = a *content* error (`*primaryContentError`: eligible for the backup fallback),
    `err false` = any other error (I/O, parse); `panic` = a Go run-time panic at the named site. -/
inductive Res (α : Type) where
  | ok : α → Res α
  | err : Bool → Res α
  | panic : String → Res α
deriving Repr, DecidableEq

instance : Monad Res where
  pure := .ok
  bind x f := match x with
    | .ok a => f a
    | .err c => .err c
    | .panic s => .panic s

def Res.isPanic {α} : Res α → Bool
  | .panic _ => true
  | _ => false

def Res.isOk {α} : Res α → Bool
  | .ok _ => true
  | _ => false

/-- one Boolean per defect found in the code; `false` = as found, `true` = repaired -/
structure Cfg where
  nameUnitCheck : Bool   -- gpt-name-utf16-overflow: toBytes checks the UTF-16 unit count
  pmbrClamp : Bool       -- gpt-pmbr-size-truncated: protective MBR size clamped to 0xFFFFFFFF
  minDiskCheck : Bool    -- gpt-no-min-disk-size: Write refuses a disk that cannot hold both copies
  arrayBounded : Bool    -- gpt-array-size-unbounded: loadEntries checks the array against the device
  pmbrLast : Bool        -- gpt-first-write-pmbr-window: the protective MBR is written after both GPT copies
deriving Repr, DecidableEq

def Cfg.asFound : Cfg := ⟨false, false, false, false, false⟩
def Cfg.fixed : Cfg := ⟨true, true, true, true, true⟩

/-! ### Go integers -/

def two64 : Nat := 18446744073709551616
def two63 : Nat := 9223372036854775808
def two32 : Nat := 4294967296

def u64 (n : Nat) : Nat := n % two64
/-- uint64 subtraction -/
def u64sub (a b : Nat) : Nat := (a % two64 + two64 - b % two64) % two64
/-- `int64(x)` of a uint64 / wrap of an int64 result -/
def toI64 (n : Int) : Int :=
  let m := n % (two64 : Int)
  if m ≥ (two63 : Int) then m - (two64 : Int) else m

/-! ### GUID byte order (common.go bytesToUUIDBytes) -/

def guidSwap (b : Bytes) : Bytes :=
  (b.take 4).reverse ++ ((b.drop 4).take 2).reverse ++ ((b.drop 6).take 2).reverse ++ b.drop 8

/-! ### UTF-16 (unicode/utf16 Encode / Decode) -/

def validRune (r : Nat) : Bool := r < 0xD800 || (0xE000 ≤ r && r ≤ 0x10FFFF)

def utf16EncRune (r : Nat) : List Nat :=
  if r < 0xD800 || (0xE000 ≤ r && r < 0x10000) then [r]
  else if 0x10000 ≤ r && r ≤ 0x10FFFF then
    [0xD800 + (r - 0x10000) / 1024 % 1024, 0xDC00 + (r - 0x10000) % 1024]
  else [0xFFFD]

def utf16Enc (rs : List Nat) : List Nat := rs.flatMap utf16EncRune

def utf16Dec : List Nat → List Nat
  | [] => []
  | [u] => if 0xD800 ≤ u && u < 0xE000 then [0xFFFD] else [u]
  | u :: v :: rest =>
    if u < 0xD800 || 0xE000 ≤ u then u :: utf16Dec (v :: rest)
    else if u < 0xDC00 && 0xDC00 ≤ v && v < 0xE000 then
      ((u - 0xD800) * 1024 + (v - 0xDC00) + 0x10000) :: utf16Dec rest
    else 0xFFFD :: utf16Dec (v :: rest)

/-! ### partition entries -/

structure Part where
  index : Nat
  start : Nat
  end_ : Nat
  size : Nat          -- bytes
  typ : Bytes         -- 16 bytes, RFC order
  guid : Bytes        -- 16 bytes, RFC order
  attrs : Nat
  name : List Nat     -- runes
deriving Repr, DecidableEq

def allZero (b : Bytes) : Bool := b.all (· == 0)

/-- partition.go initEntry: reconcile start / end / size (uint64 arithmetic). `none` = error. -/
def initEntry (p : Part) (bs : Nat) : Option Part :=
  if allZero p.typ then some p else
  let csz := u64 (u64 (u64sub p.end_ p.start + 1) * bs)
  if p.start = 0 then none
  else if p.end_ ≥ p.start ∧ p.size = csz then some p
  else if p.size = 0 ∧ p.end_ ≥ p.start then some { p with size := csz }
  else if p.size > 0 ∧ p.size % bs = 0 ∧ p.start > 0 ∧ p.end_ = 0 then
    some { p with end_ := u64sub (u64 (p.start + p.size / bs)) 1 }
  else none

def padTo (n : Nat) (b : Bytes) : Bytes := b ++ zeros (n - b.length)

def nameBytes (units : List Nat) : Bytes := units.flatMap (leEnc 2)

/-- partition.go toBytes (128 bytes) -/
def entryEnc (c : Cfg) (p : Part) : Res Bytes :=
  if allZero p.typ then .ok (zeros 128) else
  if p.name.length > 36 then .err false else
  let units := utf16Enc p.name
  if c.nameUnitCheck && units.length > 36 then .err false else
  if units.length > 36 then .panic "gpt.Partition.toBytes: b[pos:pos+2] past the 128-byte entry" else
  .ok (guidSwap p.typ ++ guidSwap p.guid ++ leEnc 8 p.start ++ leEnc 8 p.end_ ++ leEnc 8 p.attrs
        ++ padTo 72 (nameBytes units))

/-- UTF-16 units of the name field up to the first zero unit -/
def unitsUntilZero : Bytes → List Nat
  | a :: b :: rest =>
    let u := a.toNat + 256 * b.toNat
    if u = 0 then [] else u :: unitsUntilZero rest
  | _ => []

/-- partition.go partitionFromBytes on exactly 128 bytes, followed by the `Size` augmentation of
    readPartitionArrayBytes.  `none` = unused slot. -/
def entryDec (index : Nat) (b : Bytes) (lss : Nat) : Option Part :=
  if allZero (slice b 0 16) then none else
  let start := leDec (slice b 32 40)
  let end_ := leDec (slice b 40 48)
  some { index := index, start := start, end_ := end_,
         size := u64 (u64 (u64sub end_ start + 1) * lss),
         typ := guidSwap (slice b 0 16), guid := guidSwap (slice b 16 32),
         attrs := leDec (slice b 48 56),
         name := utf16Dec (unitsUntilZero (slice b 56 128)) }

/-! ### tables -/

structure Table where
  parts : List Part
  lss : Nat
  guid : Bytes
  pmbr : Bool
  initialized : Bool := false
  arrCount : Nat := 0          -- partitionArraySize
  entSize : Nat := 0           -- partitionEntrySize
  firstLBA : Nat := 0          -- partitionFirstLBA (set by the reader only)
  arrCrc : Nat := 0
  primaryHeader : Nat := 0
  secondaryHeader : Nat := 0
  firstData : Nat := 0
  lastData : Nat := 0
  backup : Bool := false       -- RecoveredFromBackup
deriving Repr, DecidableEq

/-- table.go initTable -/
def initTable (t : Table) (size : Nat) : Table :=
  let lss := if t.lss = 0 then 512 else t.lss
  let primaryHeader := if t.primaryHeader = 0 then 1 else t.primaryHeader
  let arrCount := if t.arrCount = 0 then 128 else t.arrCount
  let entSize := if t.entSize = 0 then 128 else t.entSize
  let diskSectors := u64 size / lss
  let partSectors := u64 (arrCount * entSize) / lss
  let firstData := if t.firstData = 0 then u64 (2 + partSectors) else t.firstData
  let secondaryHeader := if t.secondaryHeader = 0 then u64sub diskSectors 1 else t.secondaryHeader
  let lastData := if t.lastData = 0 then u64sub (u64sub secondaryHeader partSectors) 1 else t.lastData
  { t with lss := lss, primaryHeader := primaryHeader, arrCount := arrCount, entSize := entSize,
           firstData := firstData, secondaryHeader := secondaryHeader, lastData := lastData,
           initialized := true }

def partSectors (t : Table) : Nat := u64 (t.arrCount * t.entSize) / t.lss

/-- table.go partitionArraySector -/
def arraySector (t : Table) (primary : Bool) : Nat :=
  if primary then u64 (t.primaryHeader + 1) else u64sub t.secondaryHeader (partSectors t)

/-- the loop of toPartitionArrayBytes that calls initEntry, checks indices and builds the map -/
def initParts (bs arrCount : Nat) : List Part → List Part → Option (List Part)
  | [], acc => some acc.reverse
  | p :: ps, acc =>
    match initEntry p bs with
    | none => none
    | some p' =>
      if p'.index < 1 ∨ p'.index > arrCount then none
      else if acc.any (fun q => q.index == p'.index) then none
      else initParts bs arrCount ps (p' :: acc)

def slotBytes (c : Cfg) (ps : List Part) (entSize : Nat) (i : Nat) : Res Bytes :=
  match ps.find? (fun q => q.index == i + 1) with
  | none => .ok (zeros entSize)
  | some p => do
    let b ← entryEnc c p
    pure (padTo entSize (b.take entSize))

def slotsFrom (c : Cfg) (ps : List Part) (entSize : Nat) : List Nat → Res Bytes
  | [] => .ok []
  | i :: is => do
    let b ← slotBytes c ps entSize i
    let rest ← slotsFrom c ps entSize is
    pure (b ++ rest)

/-- table.go toPartitionArrayBytes: the array bytes and the partitions as `initEntry` left them -/
def arrEnc (c : Cfg) (t : Table) : Res (Bytes × List Part) :=
  match initParts t.lss t.arrCount t.parts [] with
  | none => .err false
  | some ps => do
    let b ← slotsFrom c ps t.entSize (List.range t.arrCount)
    pure (b, ps)

def efiSig : Bytes := [0x45, 0x46, 0x49, 0x20, 0x50, 0x41, 0x52, 0x54]
def efiRev : Bytes := [0x00, 0x00, 0x01, 0x00]
def efiHdrSize : Bytes := [0x5c, 0x00, 0x00, 0x00]

/-- the 92 header bytes with the given 4 bytes in the header-CRC field -/
def hdrBody (crcField : Bytes) (myLBA altLBA firstData lastData : Nat) (guid : Bytes)
    (arrLBA count entSize arrCrc : Nat) : Bytes :=
  efiSig ++ efiRev ++ efiHdrSize ++ crcField ++ zeros 4 ++ leEnc 8 myLBA ++ leEnc 8 altLBA
    ++ leEnc 8 firstData ++ leEnc 8 lastData ++ guidSwap guid ++ leEnc 8 arrLBA
    ++ leEnc 4 count ++ leEnc 4 entSize ++ leEnc 4 arrCrc

/-- table.go toGPTBytes: one logical sector -/
def hdrEnc (crc : Bytes → Nat) (t : Table) (primary : Bool) (arr : Bytes) : Bytes :=
  let my := if primary then t.primaryHeader else t.secondaryHeader
  let alt := if primary then t.secondaryHeader else t.primaryHeader
  let body (f : Bytes) := hdrBody f my alt t.firstData t.lastData t.guid (arraySector t primary)
                            t.arrCount 0x80 (crc arr)
  body (leEnc 4 (crc (body (zeros 4)))) ++ zeros (t.lss - 92)

/-- the protective-MBR size field -/
def pmbrSectors (c : Cfg) (secondaryHeader : Nat) : Nat :=
  if c.pmbrClamp && secondaryHeader > 0xFFFFFFFF then 0xFFFFFFFF else secondaryHeader % two32

/-- table.go generateProtectiveMBR()[446:]: 66 bytes -/
def pmbrEnc (c : Cfg) (t : Table) : Bytes :=
  [0x00, 0, 0, 0, 0xee, 0, 0, 0] ++ leEnc 4 1 ++ leEnc 4 (pmbrSectors c t.secondaryHeader)
    ++ zeros 48 ++ [0x55, 0xaa]

/-- smallest disk (in sectors) that holds LBA 0, two headers and two arrays without overlap -/
def minSectors (t : Table) : Nat := 2 * partSectors t + 3

/-- table.go Write: the synced writes in program order, and the table as Write leaves it.
    An offset that is negative as `int64` makes `WriteAt` fail. -/
def write (c : Cfg) (crc : Bytes → Nat) (t0 : Table) (size : Nat) : Res (List Wr × Table) :=
  let t := if t0.initialized then t0 else initTable t0 size
  if c.minDiskCheck && t.secondaryHeader < t.primaryHeader + 2 * partSectors t + 1 then .err false else
  match arrEnc c t with
  | .err e => .err e
  | .panic s => .panic s
  | .ok (arr, ps) =>
    let ph := hdrEnc crc t true arr
    let bh := hdrEnc crc t false arr
    let sb : Int := t.lss
    let pArrOff := toI64 (sb * toI64 (arraySector t true))
    let sArrOff := toI64 (sb * toI64 (arraySector t false))
    let pHdrOff := sb
    let sHdrOff := toI64 (toI64 t.secondaryHeader * sb)
    if sArrOff < 0 ∨ sHdrOff < 0 ∨ pArrOff < 0 then .err false else
    let pm := if t.pmbr then [Wr.mk 446 (pmbrEnc c t)] else []
    let core : List Wr := [⟨sArrOff.toNat, arr⟩, ⟨sHdrOff.toNat, bh⟩, ⟨pArrOff.toNat, arr⟩, ⟨pHdrOff.toNat, ph⟩]
    .ok (if c.pmbrLast then core ++ pm else pm ++ core, { t with parts := ps })

/-! ### reading -/

/-- Go slice expression with its panic -/
def sl (b : Bytes) (lo hi : Nat) (site : String) : Res Bytes :=
  match slice? b lo hi with
  | some x => .ok x
  | none => .panic site

structure Hdr where
  myLBA : Nat
  altLBA : Nat
  firstData : Nat
  lastData : Nat
  guid : Bytes
  arrLBA : Nat
  count : Nat
  entSize : Nat
  arrCrc : Nat
deriving Repr, DecidableEq

/-- table.go readGPTHeader: every failed check is reported as `err true` (the caller decides
    whether that is a content error) -/
def readHeader (crc : Bytes → Nat) (g : Bytes) : Res Hdr := do
  let sig ← sl g 0 8 "readGPTHeader gpt[0:8]"
  let rev ← sl g 8 12 "readGPTHeader gpt[8:12]"
  let hs ← sl g 12 16 "readGPTHeader gpt[12:16]"
  let crcB ← sl g 16 20 "readGPTHeader gpt[16:20]"
  let z ← sl g 20 24 "readGPTHeader gpt[20:24]"
  let my ← sl g 24 32 "readGPTHeader gpt[24:32]"
  let alt ← sl g 32 40 "readGPTHeader gpt[32:40]"
  let fd ← sl g 40 48 "readGPTHeader gpt[40:48]"
  let ld ← sl g 48 56 "readGPTHeader gpt[48:56]"
  let guid ← sl g 56 72 "readGPTHeader gpt[56:72]"
  let alba ← sl g 72 80 "readGPTHeader gpt[72:80]"
  let cnt ← sl g 80 84 "readGPTHeader gpt[80:84]"
  let es ← sl g 84 88 "readGPTHeader gpt[84:88]"
  let acrc ← sl g 88 92 "readGPTHeader gpt[88:92]"
  let body ← sl (put g 16 (zeros 4)) 0 92 "readGPTHeader gpt[0:92]"
  if sig ≠ efiSig then .err true
  else if rev ≠ efiRev then .err true
  else if hs ≠ efiHdrSize then .err true
  else if z ≠ zeros 4 then .err true
  else if leDec crcB ≠ crc body then .err true
  else pure { myLBA := leDec my, altLBA := leDec alt, firstData := leDec fd, lastData := leDec ld,
              guid := guidSwap guid, arrLBA := leDec alba, count := leDec cnt, entSize := leDec es,
              arrCrc := leDec acrc }

/-- table.go readProtectiveMBR on the first logical sector -/
def readPMBR (b : Bytes) (sectors : Nat) : Bool :=
  let size := b.length
  if size < 512 then false else
  let parts := slice b 446 510
  slice b (size - 2) size == [0x55, 0xaa]
    && allZero (slice parts 16 64)
    && parts.getD 0 0 == 0
    && parts.getD 4 0 == 0xee
    && leDec (slice parts 8 12) == 1
    && leDec (slice parts 12 16) == sectors

def tableOfHdr (h : Hdr) (lss : Nat) (pmbr : Bool) : Table :=
  { parts := [], lss := lss, guid := h.guid, pmbr := pmbr, initialized := true,
    arrCount := h.count, entSize := h.entSize, firstLBA := h.arrLBA, arrCrc := h.arrCrc,
    primaryHeader := h.myLBA, secondaryHeader := h.altLBA, firstData := h.firstData,
    lastData := h.lastData }

/-- the array cut into `n` consecutive 128-byte entries -/
def chunk128 : Nat → Bytes → List Bytes
  | 0, _ => []
  | n + 1, b => b.take 128 :: chunk128 n (b.drop 128)

/-- decode consecutive entries; slot `i` (0-based) gets partition index `i+1` -/
def decodeFrom (lss : Nat) : Nat → List Bytes → List Part
  | _, [] => []
  | i, c :: cs =>
    match entryDec (i + 1) c lss with
    | some p => p :: decodeFrom lss (i + 1) cs
    | none => decodeFrom lss (i + 1) cs

/-- entries of a CRC-checked array: readPartitionArrayBytes with entry size 128
    (`len(c) >= 128` holds for exactly `len/128` iterations; a trailing remainder is ignored) -/
def decodeArr (b : Bytes) (lss : Nat) : List Part :=
  decodeFrom lss 0 (chunk128 (b.length / 128) b)

/-- table.go readPartitionArrayBytes for an arbitrary entry size: partitionFromBytes refuses any
    slice that is not 128 bytes long, so any other entry size fails on the first iteration
    (including 0, where the loop would otherwise not advance) unless the array is shorter than one entry. -/
def readArr (b : Bytes) (entSize lss : Nat) : Res (List Part) :=
  if entSize = 128 then .ok (decodeArr b lss)
  else if b.length ≥ entSize then .err false
  else .ok []

/-- largest `make([]byte, n)` the Go runtime even attempts on linux/amd64 (maxAlloc = 2^48);
    above it `make` panics with "len out of range", as it does for a negative length -/
def maxAlloc : Int := 281474976710656

/-- repaired behaviour: an entry array larger than this is refused before anything is allocated
    (64 MiB = 524 288 entries of 128 bytes) -/
def maxArrayBytes : Int := 67108864

/-- table.go loadEntries.  Second component: the `make([]byte, n)` lengths requested. -/
def loadEntries (c : Cfg) (crc : Bytes → Nat) (d : Dev) (devSize : Nat) (t : Table) (lss : Nat) :
    Res Table × List Int :=
  let start : Int := toI64 (toI64 t.firstLBA * (lss : Int))
  let size : Int := toI64 ((t.arrCount : Int) * (t.entSize : Int))
  if c.arrayBounded && (start < 0 || size < 0 || size > maxArrayBytes || start + size > (devSize : Int)) then (.err true, []) else
  if size < 0 ∨ size > maxAlloc then (.panic "loadEntries make([]byte, size): len out of range", [size]) else
  if start < 0 then (.err false, [size]) else
  if start ≥ (devSize : Int) ∨ start + size > (devSize : Int) then (.err false, [size]) else
  let b := readAt d start.toNat size.toNat
  if t.arrCrc ≠ crc b then (.err true, [size]) else
  match readArr b t.entSize lss with
  | .ok ps => (.ok { t with parts := ps }, [size])
  | .err _ => (.err false, [size])
  | .panic s => (.panic s, [size])

/-- table.go readPrimary -/
def readPrimary (c : Cfg) (crc : Bytes → Nat) (d : Dev) (devSize lss : Nat) : Res Table × List Int :=
  let a0 : Int := ((lss * 2 : Nat) : Int)
  if devSize < lss * 2 then (.err false, [a0]) else
  let b := readAt d 0 (lss * 2)
  match sl b lss (lss * 2) "tableFromBytes b[lss:]" with
  | .panic s => (.panic s, [a0])
  | .err e => (.err e, [a0])
  | .ok g =>
  match readHeader crc g with
  | .panic s => (.panic s, [a0])
  | .err _ => (.err true, [a0])
  | .ok h =>
    let t := tableOfHdr h lss (readPMBR (b.take lss) (pmbrSectors c h.altLBA))
    let (r, al) := loadEntries c crc d devSize t lss
    (r, a0 :: al)

/-- table.go readBackup -/
def readBackup (c : Cfg) (crc : Bytes → Nat) (d : Dev) (devSize lss secLBA : Nat) : Res Table × List Int :=
  let a0 : Int := lss
  let off := toI64 ((secLBA : Int) * (lss : Int))
  if off < 0 ∨ off + lss > (devSize : Int) then (.err false, [a0]) else
  let hb := readAt d off.toNat lss
  match readHeader crc hb with
  | .panic s => (.panic s, [a0])
  | .err _ => (.err false, [a0])
  | .ok h =>
    if h.myLBA ≠ secLBA then (.err false, [a0]) else
    -- my/alt swapped back into the primary's orientation
    let h' := { h with myLBA := h.altLBA, altLBA := h.myLBA }
    let pm := if devSize < lss then false else readPMBR (readAt d 0 lss) (pmbrSectors c h'.altLBA)
    let t := tableOfHdr h' lss pm
    let (r, al) := loadEntries c crc d devSize t lss
    let r' := match r with
      | .ok t => Res.ok t
      | .err _ => .err false
      | .panic s => .panic s
    (r', a0 :: a0 :: al)

/-- the tail of table.go Read once the backup has been consulted -/
def backupResult (al : List Int) : Res Table × List Int → Res Table × List Int
  | (.ok t, al2) => (.ok { t with backup := true }, al ++ al2)
  | (.err _, al2) => (.err false, al ++ al2)
  | (.panic s, al2) => (.panic s, al ++ al2)

/-- table.go Read: primary, then the backup at the last LBA on a *content* error only -/
def read (c : Cfg) (crc : Bytes → Nat) (d : Dev) (devSize lss : Nat) : Res Table × List Int :=
  match readPrimary c crc d devSize lss with
  | (.ok t, al) => (.ok t, al)
  | (.panic s, al) => (.panic s, al)
  | (.err false, al) => (.err false, al)
  | (.err true, al) =>
    if devSize < lss * 2 then (.err false, al) else
    backupResult al (readBackup c crc d devSize lss (u64sub (devSize / lss) 1))

/-! ### Disk.GetPartition byte range of a partition read back from a table (gpt.Partition.GetStart / GetSize, int64) -/

def getStart (p : Part) (lss : Nat) : Int := toI64 (toI64 p.start * (lss : Int))
def getSize (p : Part) : Int := toI64 p.size

/-! ### crash states (C09): a synced write torn at sector granularity -/

/-- the sector-sized pieces of a write whose index is selected by `keep` -/
def tornPieces (lss : Nat) (w : Wr) (keep : Nat → Bool) : List Wr :=
  (List.range ((w.data.length + lss - 1) / lss)).filterMap fun i =>
    if keep i then some ⟨w.off + i * lss, (w.data.drop (i * lss)).take lss⟩ else none

/-- device after the first `k` writes in full and the (k+1)-th with the sectors selected by `keep` -/
def crashDev (d0 : Dev) (lss : Nat) (ws : List Wr) (k : Nat) (keep : Nat → Bool) : Dev :=
  let d1 := applyWrs d0 (ws.take k)
  match ws[k]? with
  | none => d1
  | some w => applyWrs d1 (tornPieces lss w keep)

end Diskfs.Gpt
