/-
  C14 — what a reproducible run depends on.

    util/timestamp/timestamp.go GetTime            (SOURCE_DATE_EPOCH → time.Unix(e,0).UTC())
    filesystem/fat12/directoryentry.go timeToDateTime (uint16 packing, no range check)
    filesystem/fat12/fat12.go / fat16/fat16.go Create: the WriteAt list (shape), relative to `start`
    partition/mbr/table.go, partition.go           toBytes / tableFromBytes / Write

  `civil` is the proleptic-Gregorian calendar conversion Go's time package performs for
  a UTC time (days-from-civil inverse, Hinnant's algorithm on naturals; epochs ≥ 0).
  Core Lean only.
-/
import DiskfsModel.Core.Bytes
import DiskfsModel.Model.Detect
namespace Diskfs.Repro

/-! ### calendar -/

structure Civil where
  year : Nat
  month : Nat
  day : Nat
  hour : Nat
  minute : Nat
  second : Nat
deriving Repr, DecidableEq

/-- UTC calendar fields of a Unix time ≥ 0 -/
def civil (epoch : Nat) : Civil :=
  let days := epoch / 86400
  let rem := epoch % 86400
  let z := days + 719468
  let era := z / 146097
  let doe := z % 146097
  let yoe := (doe - doe / 1460 + doe / 36524 - doe / 146096) / 365
  let doy := doe - (365 * yoe + yoe / 4 - yoe / 100)
  let mp := (5 * doy + 2) / 153
  let d := doy - (153 * mp + 2) / 5 + 1
  let m := if mp < 10 then mp + 3 else mp - 9
  let y := yoe + era * 400 + (if m ≤ 2 then 1 else 0)
  { year := y, month := m, day := d, hour := rem / 3600, minute := rem % 3600 / 60, second := rem % 60 }

/-- `uint16((year-1980)<<9 + month<<5 + day)`: the subtraction is a Go int and may be negative;
    the conversion keeps the low 16 bits -/
def dateWord (c : Civil) : Nat :=
  ((((c.year : Int) - 1980) * 512 + (c.month : Int) * 32 + (c.day : Int)) % 65536).toNat

/-- `uint16(hour<<11 + minute<<5 + second/2)` -/
def timeWord (c : Civil) : Nat := (c.hour * 2048 + c.minute * 32 + c.second / 2) % 65536

/-- timeToDateTime(time.Unix(epoch,0).UTC()) -/
def timeToDateTime (epoch : Nat) : Nat × Nat := (dateWord (civil epoch), timeWord (civil epoch))

/-! ### FAT12 / FAT16 Create write list, relative to the volume start -/

open Diskfs.Detect in
/-- (offset, length) of every WriteAt of Create for a size it accepts; none when it refuses -/
def createShape (P : Detect.Params) (is16 : Bool) (size : Nat) : Option (List (Nat × Nat)) :=
  match (if is16 then layout16 P size else layout12 P size) with
  | none => none
  | some L => some (shape (createWrs1x is16 L 0 [] [] []))

/-! ### the whole image Create writes, as a function of (kind, size, label, epoch) only

  fat12.go / fat16.go / fat32.go Create in reproducible mode: volume id 0; boot sector (and FAT32: its backup, FSInfo
  and backup); both FAT copies as `table.Bytes()` of the fresh table (FAT12: media FF FF; FAT16: media FF FF FF;
  FAT32: fatID, EOC marker and the root directory's cluster 2 = EOC); the zeroed root directory (cluster); then
  SetLabel: boot sector(s) again with the label and the root directory (cluster) holding ONE entry, the volume label
  created by Directory.createVolumeLabel with all three times = timestamp.GetTime() = SOURCE_DATE_EPOCH.
  Neither the wall clock nor the start offset is an argument. -/

open Diskfs.Detect in
/-- directoryEntry.toBytes of the volume-label entry: 11 name bytes, attribute 0x08, the five date/time words -/
def labelEntry (label : List Nat) (epoch : Nat) : Bytes :=
  let dw := (timeToDateTime epoch).1
  let tw := (timeToDateTime epoch).2
  (List.range 32).map fun i =>
    if i < 11 then strByte label i
    else if i = 11 then 0x08
    else if i = 14 then byteOf tw else if i = 15 then byteOf (tw / 256)          -- create time
    else if i = 16 then byteOf dw else if i = 17 then byteOf (dw / 256)          -- create date
    else if i = 18 then byteOf dw else if i = 19 then byteOf (dw / 256)          -- access date
    else if i = 22 then byteOf tw else if i = 23 then byteOf (tw / 256)          -- modify time
    else if i = 24 then byteOf dw else if i = 25 then byteOf (dw / 256)          -- modify date
    else 0

open Diskfs.Detect in
def fatInit12 (media : Nat) : Bytes := [byteOf media, 0xFF, 0xFF]
open Diskfs.Detect in
def fatInit16 (media : Nat) : Bytes := [byteOf media, 0xFF, 0xFF, 0xFF]
def fatInit32 : Bytes := [0xF8, 0xFF, 0xFF, 0x0F, 0xFF, 0xFF, 0xFF, 0x0F, 0xFF, 0xFF, 0xFF, 0x0F]

inductive FatKind where
  | f12 | f16 | f32
deriving Repr, DecidableEq

open Diskfs.Detect in
/-- every WriteAt of Create (offsets relative to the volume start, full data); none when Create refuses the size -/
def createImage (P : Detect.Params) (k : FatKind) (size : Nat) (label : List Nat) (epoch : Nat) : Option (List Wr) :=
  match k with
  | .f12 => (layout12 P size).map fun L => createWrs1x false L 0 label (fatInit12 L.media) (labelEntry label epoch)
  | .f16 => (layout16 P size).map fun L => createWrs1x true L 0 label (fatInit16 L.media) (labelEntry label epoch)
  | .f32 => (layout32 P size 512).map fun L => createWrs32 L 0 label fatInit32 (labelEntry label epoch)

open Diskfs.Detect in
/-- (offset, length) of every WriteAt of fat32.Create -/
def createShape32 (P : Detect.Params) (size : Nat) : Option (List (Nat × Nat)) :=
  (layout32 P size 512).map fun L => shape (createWrs32 L 0 [] [] [])

/-! ### MBR -/

structure MbrPart where
  boot : Bool
  startHead : UInt8
  startSector : UInt8
  startCyl : UInt8
  type : UInt8
  endHead : UInt8
  endSector : UInt8
  endCyl : UInt8
  start : Nat     -- uint32
  size : Nat      -- uint32
deriving Repr, DecidableEq

/-- Partition.toBytes -/
def MbrPart.toBytes (p : MbrPart) : Bytes :=
  [if p.boot then 0x80 else 0x00, p.startHead, p.startSector, p.startCyl, p.type, p.endHead, p.endSector, p.endCyl]
    ++ leEnc 4 p.start ++ leEnc 4 p.size

/-- partitionFromBytes on exactly 16 bytes -/
def MbrPart.fromBytes : Bytes → Option MbrPart
  | [b0, b1, b2, b3, b4, b5, b6, b7, s0, s1, s2, s3, z0, z1, z2, z3] =>
    if b0 = 0x00 then some ⟨false, b1, b2, b3, b4, b5, b6, b7, leDec [s0, s1, s2, s3], leDec [z0, z1, z2, z3]⟩
    else if b0 = 0x80 then some ⟨true, b1, b2, b3, b4, b5, b6, b7, leDec [s0, s1, s2, s3], leDec [z0, z1, z2, z3]⟩
    else none
  | _ => none

/-- the four slots a table read from disk has -/
structure MbrTable where
  p0 : MbrPart
  p1 : MbrPart
  p2 : MbrPart
  p3 : MbrPart
deriving Repr, DecidableEq

/-- Table.toBytes: 64 bytes of entries and the signature (written at offset 446) -/
def MbrTable.toBytes (t : MbrTable) : Bytes :=
  t.p0.toBytes ++ t.p1.toBytes ++ t.p2.toBytes ++ t.p3.toBytes ++ [0x55, 0xAA]

/-- Table.Write -/
def MbrTable.write (t : MbrTable) : List Wr := [⟨446, t.toBytes⟩]

/-- mbr.Read on the 512-byte sector: signature, then the four entries -/
def mbrRead (d : Dev) : Option MbrTable :=
  if d 510 = 0x55 ∧ d 511 = 0xAA then
    match MbrPart.fromBytes (readAt d 446 16), MbrPart.fromBytes (readAt d 462 16),
          MbrPart.fromBytes (readAt d 478 16), MbrPart.fromBytes (readAt d 494 16) with
    | some a, some b, some c, some e => some ⟨a, b, c, e⟩
    | _, _, _, _ => none
  else none

end Diskfs.Repro
