/-
  C12 — partition.Read over the REAL acceptance conditions of the two table readers (Model/Gpt.lean `read`:
  primary header, CRCs, entry array, backup fallback; Model/Mbr.lean `read`: 0x55AA, four boot flags) instead
  of one boolean per reader, with the as-found switch `checks` of Model/Detect.lean's `tableProbeL`:
  when on, a legacy MBR in sector 0 (signature, at least one used entry, no protective 0xEE entry) that
  mbr.Read accepts takes precedence over GPT structures that still read.  Core Lean only.
-/
import DiskfsModel.Model.Detect
import DiskfsModel.Model.Mbr
namespace Diskfs.Detect

/-- OS-type byte of MBR slot `i` (0..3) -/
def mbrType (d : Dev) (i : Nat) : Nat := (d (446 + 16 * i + 4)).toNat

/-- sector 0 is a legacy MBR: boot signature, a used entry, no protective entry -/
def legacyMBR (d : Dev) : Bool :=
  (d 510 == 0x55 && d 511 == 0xAA) &&
  (List.range 4).any (fun i => mbrType d i != 0 && mbrType d i != 0xEE) &&
  !((List.range 4).any (fun i => mbrType d i == 0xEE))

inductive TableRes
  | gpt (t : Gpt.Table)
  | mbr (ps : List Mbr.Part)
  | none
  | panic
deriving Repr, DecidableEq

def TableRes.kind : TableRes → Option TableKind
  | .gpt _ => some .gpt
  | .mbr _ => some .mbr
  | _ => Option.none

/-- partition.Read: gpt.Read, then mbr.Read; with `checks`, the legacy-MBR precedence -/
def tableRead (checks : Bool) (c : Gpt.Cfg) (crc : Bytes → Nat) (d : Dev) (devSize lss : Nat) : TableRes :=
  match (Gpt.read c crc d devSize lss).1 with
  | .ok t =>
    if checks && legacyMBR d then
      match (Mbr.read d devSize).1 with
      | some ps => .mbr ps
      | Option.none => .gpt t
    else .gpt t
  | .panic _ => .panic
  | .err _ =>
    match (Mbr.read d devSize).1 with
    | some ps => .mbr ps
    | Option.none => .none

end Diskfs.Detect
