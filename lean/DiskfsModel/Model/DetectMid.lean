/-
  C12 — the parts of squashfs.Read, ext4.Read and iso9660.Read that lie BEHIND the magic-number tests of
  Model/Detect.lean and in front of the structures only a populated image has (fragment / id tables and
  root inode; group-descriptor checksums; the contents of the volume descriptors, path table, SUSP):

    squashfs   parseSuperblock's block-log test (Model/Sqfs/Codec.lean decodeSB), newCompressor's id test
    ext4       superblockFromBytes (checksum type, metadata_csum crc), the feature gate, the validity
               checks on the decoded superblock (fix 1d32ac0; Model/Ext4/SpecGeom.lean readAccepts), the
               ReadAt of the group descriptor table
    iso9660    the volume-descriptor loop: one descriptor per 2048 bytes from byte 32768 until the set
               terminator - identifier, type, version of a primary descriptor - and "a primary descriptor
               was seen"

  Each `…Mid rd … deep` continues with `deep` (the outcome of the rest of the reader, observed from the
  real code) exactly where the real reader goes on.  `midCtx` is the probe context in which these parts and
  FAT32's FAT comparison are computed from the device.  The codecs are the ones of the squashfs / ext4
  models (imported, not copied).  Core Lean only.
-/
import DiskfsModel.Model.Detect
import DiskfsModel.Model.DetectFat32
import DiskfsModel.Model.Sqfs.Codec
import DiskfsModel.Model.Ext4.SpecGeom
namespace Diskfs.Detect

/-! ### squashfs -/

/-- newCompressor knows the compression ids 0 (none) .. 6 (zstd) -/
def sqfsCompKnown (c : Nat) : Bool := decide (c ≤ 6)

/-- squashfs.Read from parseSuperblock to newCompressor -/
def sqfsMid (rd : Dev) (deep : Verdict) : Verdict :=
  match Sqfs.decodeSB (readAt rd 0 96) with
  | none => .reject
  | some s => if sqfsCompKnown s.compression then deep else .reject

/-! ### ext4 -/

/-- ext4.Read from superblockFromBytes to the read of the group descriptor table.
    `csumOk`: the crc32c stored at 0x3fc is the one of bytes 0..0x3fb (consulted with metadata_csum only) -/
def ext4Mid (cfg : Ext4.Reader.Cfg) (rd : Dev) (size avail : Nat) (csumOk : Bool) (deep : Verdict) : Verdict :=
  let b := readAt rd 1024 1024
  match Ext4.Reader.sbDecode csumOk b with
  | none => .reject
  | some info =>
    if !(Ext4.Reader.gateAccepts cfg info.incompat) then .reject
    else match Ext4.Spec.sbGeo b with
      | none => .reject
      | some g =>
        if !(Ext4.Spec.readAccepts g size) then .reject
        else if !(readOk avail g.gdtStartGo (g.gdSize * g.groupsGo)) then .reject
        else deep

/-! ### iso9660 -/

def isoIdOk (rd : Dev) (off : Nat) : Bool :=
  u8 rd (off + 1) == 0x43 && u8 rd (off + 2) == 0x44 && u8 rd (off + 3) == 0x30 && u8 rd (off + 4) == 0x30 &&
  u8 rd (off + 5) == 0x31

/-- the descriptor loop: `some pvdSeen` when the terminator (type 255) was reached, `none` when a read, an
    identifier, a type or a primary descriptor's version failed first.  `fuel`: the loop ends by itself when
    the device does (`avail / 2048 + 1` iterations are enough) -/
def isoLoop (rd : Dev) (avail : Nat) : Nat → Nat → Bool → Option Bool
  | 0, _, _ => none
  | fuel + 1, i, pvd =>
    let off := 32768 + 2048 * i
    if !(readOk avail off 2048) then none
    else if !(isoIdOk rd off) then none
    else
      let ty := u8 rd off
      if ty == 255 then some pvd
      else if ty == 1 then (if u8 rd (off + 6) != 1 then none else isoLoop rd avail fuel (i + 1) true)
      else if ty == 0 || ty == 2 || ty == 3 then isoLoop rd avail fuel (i + 1) pvd
      else none

/-- iso9660.Read: the loop, then "no primary volume descriptor found" -/
def isoMid (rd : Dev) (avail : Nat) (deep : Verdict) : Verdict :=
  match isoLoop rd avail (avail / 2048 + 1) 0 false with
  | some true => deep
  | _ => .reject

/-! ### the probe context with all of this inside -/

/-- `deep2 k`: what is left of reader k behind the modelled part (FAT32: nothing) -/
def midCtx (cfg : Ext4.Reader.Cfg) (rd : Dev) (size avail bs : Nat) (csumOk : Bool) (deep2 : Kind → Verdict) : Ctx :=
  ⟨size, avail, bs, fun k => match k with
    | .fat32 => fat32Deep rd avail
    | .squashfs => sqfsMid rd (deep2 .squashfs)
    | .ext4 => ext4Mid cfg rd size avail csumOk (deep2 .ext4)
    | .iso9660 => isoMid rd avail (deep2 .iso9660)
    | k => deep2 k⟩

/-! ### what ext4.Create puts into the geometry fields of the superblock

  (filesystem/ext4/ext4.go Create: the `superblock{…}` literal; superblock.go toBytes).  `Mk` is the part of
  Model/Ext4/Mkfs.lean's layout the fields come from. -/

structure Ext4Mk where
  bs : Nat          -- block size
  numBlocks : Nat
  bpg : Nat
  ipg : Nat
  groups : Nat
  fdb : Nat         -- first data block
  bit64 : Bool
deriving Repr, DecidableEq

/-- feature words of a created filesystem as far as the reader's gate and geometry look at them:
    extents set, inline_data clear, 64bit as requested -/
def ext4MkIncompatOk (inc : Nat) (bit64 : Bool) : Bool :=
  Ext4.Reader.hasBit inc 0x40 && !(Ext4.Reader.hasBit inc 0x8000) && (Ext4.Reader.hasBit inc 0x80 == bit64)

def ext4MkGeo (m : Ext4Mk) (compat incompat roCompat : Nat) : Ext4.Spec.Geo :=
  { blockSize := m.bs, inodeSize := 256, inodesPerGroup := m.ipg, blocksPerGroup := m.bpg,
    firstDataBlock := m.fdb, inodeCount := m.ipg * m.groups, blockCount := m.numBlocks,
    gdSize := if m.bit64 then 64 else 32, compat := compat, incompat := incompat, roCompat := roCompat,
    logCluster := Nat.log2 (m.bs / 1024) }

end Diskfs.Detect
