/-
  C03, ext4 — where every WriteAt of an ext4 volume goes, as a function of the mkfs layout
  (Model/Ext4/Mkfs.lean) and of the allocator / ownership state (Model/Ext4/Alloc.lean, Own.lean).

  `Ev` names the structure a WriteAt belongs to; `evRegion` is the byte range (relative to the start of
  the filesystem, i.e. what the code hands to the SubStorage window) the code computes for it:

    boot      Create: 1024 zero bytes at 0                                    (ext4.go Create)
    sb g      superblock copy of group g: 1024 bytes at 1024 (g = 0) or at the first block of the group
              (writeSuperblock; `backupSuperblocks` = first blocks of the groups checkSuperBackup names)
    gdt g     group descriptor table copy of group g: groups × descSize bytes in the block behind the
              superblock copy (writeGDT)
    rsv i     the i-th reserved GDT block of group 0 (initResizeInode's pointer blocks)
    bbm g     block bitmap of group g: one block at blockBitmapLocation (writeBlockBitmap, Create)
    ibm g     inode bitmap: inodesPerGroup/8 bytes at inodeBitmapLocation (writeInodeBitmap)
    ibmInit g Create writes the whole inode bitmap block
    itab g    Create zeroes the whole inode table
    inode n   writeInode / Remove's zeroing: 256 bytes at slot (n-1) % ipg of the table of group (n-1) / ipg
    span …    `len` bytes at offset `off` of the run of `n` blocks starting at block `b`: file data
              (File.Write), directory blocks (writeDirectory), extent tree nodes (extent.go), journal,
              symlink targets, zero fill of Truncate — everything that goes to blocks handed out by
              allocateExtents

  `classify` is the inverse: which structure a (offset, length) pair is, or `out` when it is none.

  `vstep` is the volume machine: the allocator-level operations of Own.lean (`ostep`: allocateInode,
  one allocateExtents answer, Remove) together with the WriteAts they issue, plus writes into blocks a file
  owns and inode write-backs.  `freshOwn` is the state initGroupDescriptorTables leaves (bitmaps with the
  metadata of the layout marked; the bits of a group are its real blocks — the padding bits the code sets
  behind them are what keeps the real allocator inside them) and `createEvs` what Create writes.
-/
import DiskfsModel.Model.Ranges
import DiskfsModel.Model.Ext4.Mkfs
import DiskfsModel.Model.Ext4.Own
namespace Diskfs.Ranges.Ext4
open Diskfs.Ext4.Mkfs Diskfs.Ext4.Alloc

def inodeSize : Nat := 256

/-- the superblock copy and the descriptor table copy of every group that carries one lie inside that group
    (Create never checks it: finding ext4-backup-gdt-past-end is exactly the negation) -/
def BackupsFit (l : Layout) : Prop :=
  ∀ g, g < l.groups → hasSuper g = true → 1 + l.gdtBlocks ≤ blocksInGroup l g

instance (l : Layout) : Decidable (BackupsFit l) := by
  unfold BackupsFit; exact Nat.decidableBallLT _ _

inductive Ev where
  | boot
  | sb (g : Nat)
  | gdt (g : Nat)
  | rsv (i : Nat)
  | bbm (g : Nat)
  | ibm (g : Nat)
  | ibmInit (g : Nat)
  | itab (g : Nat)
  | inode (ino : Nat)
  | span (b n off len : Nat)
deriving Repr, DecidableEq

def evRegion (l : Layout) (flex : Bool) : Ev → Region
  | .boot => ⟨0, 1024⟩
  | .sb g => ⟨if g = 0 then 1024 else groupStart l g * l.bs, 1024⟩
  | .gdt g => ⟨(groupStart l g + 1) * l.bs, l.groups * l.descSize⟩
  | .rsv i => ⟨(groupStart l 0 + 1 + l.gdtBlocks + i) * l.bs, l.bs⟩
  | .bbm g => ⟨metaBase l flex g * l.bs, l.bs⟩
  | .ibm g => ⟨(metaBase l flex g + 1) * l.bs, l.ipg / 8⟩
  | .ibmInit g => ⟨(metaBase l flex g + 1) * l.bs, l.bs⟩
  | .itab g => ⟨(metaBase l flex g + 2) * l.bs, l.itb * l.bs⟩
  | .inode ino => ⟨(metaBase l flex ((ino - 1) / l.ipg) + 2) * l.bs + (ino - 1) % l.ipg * inodeSize, inodeSize⟩
  | .span b _ off len => ⟨b * l.bs + off, len⟩

/-- the event names an existing structure of the volume; `owned` = the blocks files own at that moment -/
def EvOk (l : Layout) (owned : List Nat) : Ev → Prop
  | .boot => True
  | .sb g => g < l.groups ∧ hasSuper g = true
  | .gdt g => g < l.groups ∧ hasSuper g = true
  | .rsv i => i < l.rsvGdt
  | .bbm g => g < l.groups
  | .ibm g => g < l.groups
  | .ibmInit g => g < l.groups
  | .itab g => g < l.groups
  | .inode ino => 1 ≤ ino ∧ ino ≤ l.inodeCount
  | .span b n off len => 0 < n ∧ (∀ j, j < n → b + j ∈ owned) ∧ off + len ≤ n * l.bs

def superGroups (l : Layout) : List Nat := (List.range l.groups).filter hasSuper

/-- writeGDT followed by writeSuperblock: every copy -/
def metaEvs (l : Layout) : List Ev := (superGroups l).map Ev.gdt ++ (superGroups l).map Ev.sb

def geoOf (l : Layout) : Geom := ⟨l.fdb, l.bpg, l.ipg⟩

def ownsSpan (f : FileRec) (b n : Nat) : Bool := (List.range n).all fun j => f.blocks.contains (b + j)

inductive VOp where
  | create (isDir : Bool)                  -- allocateInode (+ writeInode of the new inode)
  | grow (i n : Nat) (runs : List Run)     -- one allocateExtents answer for file number i
  | remove (i : Nat) (isDir : Bool)        -- Remove of file number i
  | wblocks (i b n off len : Nat)          -- a WriteAt into the run of blocks b … b+n-1 of file number i
  | winode (i : Nat)                       -- writeInode of file number i
deriving Repr, DecidableEq

/-- one call: the state afterwards and the WriteAts it issued -/
def vstep (l : Layout) (o : Own) : VOp → Own × List Ev
  | .create isDir =>
    match pickInode o.acc.groups 0 with
    | some (gi, p) =>
      (ostep (geoOf l) o (.create (gi * l.ipg + p + 1) isDir),
       [Ev.ibm gi] ++ metaEvs l ++ [Ev.inode (gi * l.ipg + p + 1)])
    | none => (o, [])
  | .grow i n runs =>
    match o.files[i]?, allocExtents o.acc n (some runs) with
    | some _, .ok _ => (ostep (geoOf l) o (.grow i n runs), runs.map (fun r => Ev.bbm r.1) ++ metaEvs l)
    | _, _ => (o, [])
  | .remove i isDir =>
    match o.files[i]? with
    | some f =>
      match removeOp (geoOf l) o.acc f.ino f.blocks isDir with
      | .ok _ =>
        (ostep (geoOf l) o (.remove i isDir),
         f.blocks.map (fun b => Ev.bbm ((b - l.fdb) / l.bpg)) ++ [Ev.ibm ((f.ino - 1) / l.ipg), Ev.inode f.ino] ++ metaEvs l)
      | .refused _ => (o, [])
    | none => (o, [])
  | .wblocks i b n off len =>
    match o.files[i]? with
    | some f => if decide (0 < n) && ownsSpan f b n && decide (off + len ≤ n * l.bs) then (o, [Ev.span b n off len]) else (o, [])
    | none => (o, [])
  | .winode i =>
    match o.files[i]? with
    | some f => (o, [Ev.inode f.ino])
    | none => (o, [])

def vrun (l : Layout) : Own → List VOp → Own × List Ev
  | o, [] => (o, [])
  | o, op :: ops =>
    let r := vstep l o op
    let r2 := vrun l r.1 ops
    (r2.1, r.2 ++ r2.2)

/-- what initGroupDescriptorTables leaves: per group a block bitmap over the group's real blocks with the
    layout's metadata marked and an inode bitmap (group 0: the reserved inodes), counters from the bitmaps -/
def freshGroup (l : Layout) (flex : Bool) (g : Nat) : Group :=
  let big := blocksInGroup l g
  let used := big - initialFree l flex g
  let bbm := List.replicate used true ++ List.replicate (big - used) false
  let rsvIno := if g = 0 then min 11 l.ipg else 0
  let ibm := List.replicate rsvIno true ++ List.replicate (l.ipg - rsvIno) false
  { bbm := bbm, ibm := ibm, freeBlocks := countFree bbm, freeInodes := countFree ibm, usedDirs := 0 }

def freshOwn (l : Layout) (flex : Bool) : Own :=
  let gs := (List.range l.groups).map (freshGroup l flex)
  { acc := { groups := gs, sbFreeBlocks := (gs.map (·.freeBlocks)).sum, sbFreeInodes := (gs.map (·.freeInodes)).sum },
    files := [] }

/-- the WriteAts of Create up to the first allocation: boot area, bitmaps and inode tables of every group,
    the reserved GDT blocks (resize inode), descriptor tables and superblocks -/
def createEvs (l : Layout) : List Ev :=
  [Ev.boot] ++ (List.range l.groups).flatMap (fun g => [Ev.bbm g, Ev.ibmInit g, Ev.itab g]) ++
    (List.range l.rsvGdt).map Ev.rsv ++ metaEvs l

/-- geometry the state must have: as many groups as the layout, no bitmap longer than its group -/
def LenInv (l : Layout) (s : Acc) : Prop :=
  s.groups.length ≤ l.groups ∧
  ∀ g grp, s.groups[g]? = some grp → grp.bbm.length ≤ blocksInGroup l g ∧ grp.ibm.length ≤ l.ipg

/-- the invariant of the range theorem: geometry, every owned block below the block count, every file's
    inode number among the volume's inodes -/
def RInv (l : Layout) (o : Own) : Prop :=
  LenInv l o.acc ∧ (∀ b ∈ ownedBlocks o, b < l.numBlocks) ∧ ∀ f ∈ o.files, 1 ≤ f.ino ∧ f.ino ≤ l.inodeCount

/-! ### classification of a (offset, length) pair -/

inductive Cls where
  | zero | boot | sb | gdt | rsv | bbm | ibm | itab | inode | data | out
deriving Repr, DecidableEq

def Cls.name : Cls → String
  | .zero => "zero" | .boot => "boot" | .sb => "sb" | .gdt => "gdt" | .rsv => "rsv" | .bbm => "bbm"
  | .ibm => "ibm" | .itab => "itab" | .inode => "inode" | .data => "data" | .out => "out"

/-- is block `b` one of the metadata blocks of the layout (superblock / GDT / reserved GDT area of a group
    that carries a copy, or a bitmap / inode table slot)? -/
def isMetaBlock (l : Layout) (flex : Bool) (b : Nat) : Bool :=
  (List.range l.groups).any fun g =>
    (decide (groupStart l g ≤ b) && decide (b < groupStart l g + metaBlocks l g)) ||
    (decide (metaBase l flex g ≤ b) && decide (b < metaBase l flex g + perGroupMeta l))

def classify (l : Layout) (flex : Bool) (off len : Nat) : Cls :=
  let r : Region := ⟨off, len⟩
  if len = 0 then .zero
  else if off + len ≤ 1024 then .boot
  else if (superGroups l).any (fun g => evRegion l flex (.sb g) == r) then .sb
  else if (superGroups l).any (fun g => evRegion l flex (.gdt g) == r) then .gdt
  else if (List.range l.groups).any (fun g => evRegion l flex (.bbm g) == r) then .bbm
  else if (List.range l.groups).any (fun g => evRegion l flex (.ibm g) == r || evRegion l flex (.ibmInit g) == r) then .ibm
  else if (List.range l.groups).any (fun g => evRegion l flex (.itab g) == r) then .itab
  else if len = inodeSize ∧ (List.range l.groups).any (fun g =>
      decide ((metaBase l flex g + 2) * l.bs ≤ off) && decide (off + len ≤ (metaBase l flex g + 2) * l.bs + l.ipg * inodeSize) &&
      decide ((off - (metaBase l flex g + 2) * l.bs) % inodeSize = 0)) then .inode
  else if len = l.bs ∧ off % l.bs = 0 ∧ groupStart l 0 + 1 + l.gdtBlocks ≤ off / l.bs ∧
      off / l.bs < groupStart l 0 + 1 + l.gdtBlocks + l.rsvGdt then .rsv
  else
    let b0 := off / l.bs
    let b1 := (off + len - 1) / l.bs
    if b1 < l.numBlocks ∧ (List.range (b1 - b0 + 1)).all (fun j => !isMetaBlock l flex (b0 + j)) then .data else .out

end Diskfs.Ranges.Ext4
