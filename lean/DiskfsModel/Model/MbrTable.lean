/-
  partition/mbr at the level of the whole Table, as the code is NOW:

    table.go      Read (make([]byte, 512), ReadAt, tableFromBytes, then the sector sizes the caller passed are
                  stamped on the table and on every partition when they are > 0 — fix fd03245),
                  tableFromBytes (length check, signature b[510:], disk signature b[440:444], four
                  partitionFromBytes(i+1, b[446+16i : 462+16i], 512, 512)), Write (refuses more than four
                  partitions — fix 0c40962 — else ONE WriteAt of toBytes() at byte 446)
    partition.go  partitionFromBytes (length check, boot flag switch, b[1..7], b[8:12], b[12:16]),
                  sectorSizes / GetStart / GetSize

  Unlike Model/Mbr.lean (`read`, total by construction) every Go slice / index expression goes through
  `sl` / `ix`, which yield `.panic` exactly where Go would panic; that no input reaches a panic is then a
  theorem (Proofs/MbrRead.lean), not a modelling decision.  Core Lean only.
-/
import DiskfsModel.Model.Mbr
import DiskfsModel.Model.PartDisk
namespace Diskfs.Mbr
open Diskfs.Gpt (Res)

/-- mbr.Table: the partitions and the two sector sizes (the partitions carry the same two privately) -/
structure Table where
  parts : List Part
  lss : Nat
  pss : Nat
deriving Repr, DecidableEq

/-- Go `b[lo:hi]` -/
def sl (b : Bytes) (lo hi : Nat) : Res Bytes :=
  match slice? b lo hi with
  | some x => .ok x
  | none => .panic "slice bounds out of range"

/-- Go `b[i]` -/
def ix (b : Bytes) (i : Nat) : Res UInt8 :=
  match b[i]? with
  | some x => .ok x
  | none => .panic "index out of range"

/-- partitionFromBytes(index, b, 512, 512) -/
def partFromBytes (index : Nat) (b : Bytes) : Res Part :=
  if b.length ≠ 16 then .err false else do
  let flag ← ix b 0
  if flag ≠ 0x00 ∧ flag ≠ 0x80 then .err false else do
  let c0 ← ix b 1
  let c1 ← ix b 2
  let c2 ← ix b 3
  let ty ← ix b 4
  let c3 ← ix b 5
  let c4 ← ix b 6
  let c5 ← ix b 7
  let st ← sl b 8 12
  let sz ← sl b 12 16
  pure { index := index, bootable := flag == 0x80, typ := ty.toNat, start := leDec st, size := leDec sz,
         chs := [c0, c1, c2, c3, c4, c5] }

/-- the loop of tableFromBytes over the slots `is` -/
def slotsFromBytes (b : Bytes) : List Nat → Res (List Part)
  | [] => .ok []
  | i :: is => do
    let e ← sl b (446 + i * 16) (446 + i * 16 + 16)
    let p ← partFromBytes (i + 1) e
    let ps ← slotsFromBytes b is
    pure (p :: ps)

/-- tableFromBytes -/
def tableFromBytes (b : Bytes) : Res Table :=
  if b.length ≠ 512 then .err false else do
  let sig ← sl b 510 b.length
  if sig ≠ [0x55, 0xaa] then .err false else do
  let _uuid ← sl b 440 444
  let ps ← slotsFromBytes b [0, 1, 2, 3]
  pure { parts := ps, lss := 512, pss := 512 }

/-- the size Read stamps: the caller's when positive, else the package default -/
def stamp (given : Int) : Nat := if given > 0 then given.toNat else 512

/-- mbr.Read(f, logicalBlockSize, physicalBlockSize): result and the `make` requests -/
def readT (d : Dev) (devSize : Nat) (lbs pbs : Int) : Res Table × List Int :=
  if devSize < 512 then (.err false, [512]) else
  match tableFromBytes (readAt d 0 512) with
  | .ok t => (.ok { t with lss := stamp lbs, pss := stamp pbs }, [512])
  | .err e => (.err e, [512])
  | .panic s => (.panic s, [512])

/-- Table.Write: `none` = refused, nothing written -/
def writeT (t : Table) : Option (List Wr) :=
  if t.parts.length > 4 then none else some (write t.parts)

/-- the partition as Disk.GetPartition hands it on (Model/PartDisk.lean): the private sector sizes are the table's -/
def toP (t : Table) (p : Part) : PartDisk.P :=
  { kind := .mbr, index := (p.index : Int), start := p.start, end_ := 0, size := p.size, lss := t.lss, pss := t.pss }

def Table.diskParts (t : Table) : List PartDisk.P := t.parts.map (toP t)

end Diskfs.Mbr

namespace Diskfs.PartTable
open Diskfs.Gpt

/-- partition.Read with the sector sizes it passes on to both readers: GPT first, then MBR (Table level) -/
inductive TblT where
  | gpt (t : Gpt.Table)
  | mbr (t : Mbr.Table)
deriving Repr, DecidableEq

def readWithT (g : Res Gpt.Table × List Int) (d : Dev) (devSize : Nat) (lbs pbs : Int) : Res TblT × List Int :=
  match g with
  | (.ok t, al) => (.ok (.gpt t), al)
  | (.panic s, al) => (.panic s, al)
  | (.err _, al) =>
    match Mbr.readT d devSize lbs pbs with
    | (.ok t, al2) => (.ok (.mbr t), al ++ al2)
    | (.panic s, al2) => (.panic s, al ++ al2)
    | (.err _, al2) => (.err false, al ++ al2)

def readT (c : Cfg) (crc : Bytes → Nat) (d : Dev) (devSize lss : Nat) (pbs : Int) : Res TblT × List Int :=
  readWithT (Gpt.read c crc d devSize lss) d devSize (lss : Int) pbs

end Diskfs.PartTable
