/-
  C18 — panic-aware mirrors of the parsers that walk untrusted on-disk structures.

  Conventions
  * `Out α` is the outcome of a mirrored Go function: a value, an error return, a run-time panic
    (slice bounds / index out of range / integer divide by zero) or `fuel` (the loop did not finish
    within the fuel it was given; used only to state termination).
  * `GS` is a Go byte slice as the callee sees it: `buf` holds the bytes from the slice's first element
    up to its CAPACITY, `len` is its length.  `s[lo:hi]` panics exactly when `¬ (lo ≤ hi ≤ cap)`,
    `s[i]` exactly when `¬ (i < len)` (Go spec, "Slice expressions" / "Index expressions").
  * every slice / index expression of the Go function goes through `slc` / `idx` / `le`, in the order
    the Go code evaluates them; every `make` whose size comes from the input is returned in the result
    (`alloc` fields) so that a theorem can bound it.
  * `checked = true` is the code as it is now (after the `fix:` commits); `checked = false` is the
    shape before the fix (kept for the as-found counterexamples).
-/
import DiskfsModel.Core.Bytes
import DiskfsModel.Model.Gpt
namespace Diskfs.Parsers

inductive Out (α : Type) where
  | ok (a : α)
  | err
  | panic
  | fuel
deriving Repr, DecidableEq

namespace Out
@[inline] def bind {α β : Type} : Out α → (α → Out β) → Out β
  | .ok a, f => f a
  | .err, _ => .err
  | .panic, _ => .panic
  | .fuel, _ => .fuel
instance : Monad Out where
  pure := .ok
  bind := Out.bind

def ofOpt {α : Type} : Option α → Out α
  | some a => .ok a
  | none => .panic
end Out

/-- a Go `[]byte` value -/
structure GS where
  buf : Bytes
  len : Nat
deriving Repr, DecidableEq

namespace GS
def wf (s : GS) : Prop := s.len ≤ s.buf.length
instance (s : GS) : Decidable s.wf := by unfold wf; infer_instance
/-- a slice whose capacity equals its length (`make([]byte, n)` filled with `b`) -/
def ofBytes (b : Bytes) : GS := ⟨b, b.length⟩
/-- `b[:n]` of a fresh slice holding `b`: length `n`, capacity `len b` -/
def ofBytesLen (b : Bytes) (n : Nat) : GS := ⟨b, n⟩
def bytes (s : GS) : Bytes := s.buf.take s.len
end GS

/-- `s[lo:hi]` -/
def slc (s : GS) (lo hi : Nat) : Out GS :=
  if lo ≤ hi ∧ hi ≤ s.buf.length then .ok ⟨s.buf.drop lo, hi - lo⟩ else .panic

/-- `s[i]` -/
def idx (s : GS) (i : Nat) : Out Nat :=
  if i < s.len then .ok (s.buf.getD i 0).toNat else .panic

/-- `binary.LittleEndian.UintN(s[lo:lo+n])` -/
def le (s : GS) (lo n : Nat) : Out Nat := do
  let t ← slc s lo (lo + n)
  pure (leDec t.bytes)

/-- `binary.BigEndian.UintN(s[lo:lo+n])` -/
def be (s : GS) (lo n : Nat) : Out Nat := do
  let t ← slc s lo (lo + n)
  pure (beDec t.bytes)

def two32 : Nat := 4294967296
def two64 : Nat := 18446744073709551616
/-- Go `uint32` arithmetic -/
def u32 (n : Nat) : Nat := n % two32
def sub32 (a b : Nat) : Nat := (a % two32 + two32 - b % two32) % two32
/-- Go integer division: panics on a zero divisor -/
def div? (a b : Nat) : Out Nat := if b = 0 then .panic else .ok (a / b)

/-! ## ext4: directoryEntryFromBytes / parseDirEntriesLinear (filesystem/ext4/directoryentry.go) -/
namespace Ext4

structure DirEnt where
  inode : Nat
  ftype : Nat
  name : Bytes
deriving Repr, DecidableEq

def minDirEntryLength : Nat := 12
def maxDirEntryLength : Nat := 263

/-- `directoryEntryFromBytes(b)`.  `b = b[:263]` for a longer `b` cannot panic (263 < len ≤ cap). -/
def dirEntryFromBytes (b0 : GS) : Out DirEnt :=
  if b0.len < minDirEntryLength then .err else
  let b : GS := if b0.len > maxDirEntryLength then ⟨b0.buf, maxDirEntryLength⟩ else b0
  do
    let nl ← idx b 6
    let name ← slc b 8 (8 + nl)
    let ino ← le b 0 4
    let ft ← idx b 7
    pure ⟨ino, ft, name.bytes⟩

/-- the loop of `parseDirEntriesLinear` (withChecksums = false), `i` = byte position -/
def dirLoop (checked : Bool) (b : GS) : Nat → Nat → List DirEnt → Out (List DirEnt)
  | 0, _, _ => .fuel
  | fuel + 1, i, acc =>
    if ¬ (i < b.len) then .ok acc else
    if checked && i + minDirEntryLength > b.len then .err else
    do
      let length ← le b (i + 4) 2
      let bad ←
        (if !checked then (pure false : Out Bool)
         else if length < minDirEntryLength then pure true
         else if i + length > b.len then pure true
         else do
           let nl ← idx b (i + 6)
           pure (decide (8 + nl > length)))
      if bad then .err else do
        let sub ← slc b i (i + length)
        let de ← dirEntryFromBytes sub
        dirLoop checked b fuel (i + length) (acc ++ [de])

def parseDirLinear (checked : Bool) (b : GS) (fuel : Nat) : Out (List DirEnt) :=
  dirLoop checked b fuel 0 []

/-! ### parseExtents (filesystem/ext4/extent.go) -/

structure ExtRow where
  fileBlock : Nat
  count : Nat
  disk : Nat
deriving Repr, DecidableEq

structure ExtNode where
  leaf : Bool
  depth : Nat
  entries : Nat
  max : Nat
  rows : List ExtRow
deriving Repr, DecidableEq

/-- leaf entry loop: `n` iterations left, `i` = loop counter -/
def leafLoop (b : GS) : Nat → Nat → List ExtRow → Out (List ExtRow)
  | 0, _, acc => .ok acc
  | n + 1, i, acc => do
    let st := i * 12 + 12
    let lo ← slc b (st + 8) (st + 12)
    let hi ← slc b (st + 6) (st + 8)
    let fb ← le b st 4
    let cnt ← le b (st + 4) 2
    leafLoop b n (i + 1) (acc ++ [⟨fb, cnt, leDec lo.bytes + two32 * leDec hi.bytes⟩])

/-- interior entry loop (counts are filled in afterwards by `fixCounts`) -/
def intLoop (b : GS) : Nat → Nat → List ExtRow → Out (List ExtRow)
  | 0, _, acc => .ok acc
  | n + 1, i, acc => do
    let st := i * 12 + 12
    let lo ← slc b (st + 4) (st + 8)
    let hi ← slc b (st + 8) (st + 10)
    let fb ← le b st 4
    intLoop b n (i + 1) (acc ++ [⟨fb, 0, leDec lo.bytes + two32 * leDec hi.bytes⟩])

/-- `children[i-1].count = children[i].fileBlock - children[i-1].fileBlock`, last one
    `start + count - fileBlock` (`last` = start + count), all in uint32 -/
def fixCountsAux (last : Nat) : List ExtRow → List ExtRow
  | [] => []
  | r :: rest =>
    { r with count := sub32 (match rest with | [] => last | r' :: _ => r'.fileBlock) r.fileBlock } ::
      fixCountsAux last rest

def fixCounts (start count : Nat) (rows : List ExtRow) : List ExtRow :=
  fixCountsAux (u32 (start + count)) rows

def parseExtents (checked : Bool) (b : GS) (start count : Nat) : Out ExtNode :=
  if b.len < 24 then .err else do
    let sig ← le b 0 2
    if sig ≠ 0xf30a then .err else do
      let entries ← le b 2 2
      let mx ← le b 4 2
      let depth ← le b 6 2
      if checked && 12 + entries * 12 > b.len then .err else
      if depth = 0 then do
        let rows ← leafLoop b entries 0 []
        pure ⟨true, depth, entries, mx, rows⟩
      else do
        let rows ← intLoop b entries 0 []
        pure ⟨false, depth, entries, mx, fixCounts start count rows⟩

end Ext4

/-! ## FAT: CheckGeometry and the arithmetic of fat12/fat16/fat32 `Read` that follows it
    (filesystem/fat12/fat12.go, fat16/fat16.go, fat32/fat32.go) -/
namespace Fat

/-- BPB fields as the readers hold them after parsing (16/8/32-bit on-disk fields widened to uint32) -/
structure Bpb where
  bps : Nat      -- bytes per sector (uint16)
  spc : Nat      -- sectors per cluster (uint8)
  reserved : Nat -- uint16
  fatCount : Nat -- uint8
  spf : Nat      -- sectors per FAT: uint16 (fat12/16) or uint32 (fat32)
  rootEntries : Nat -- uint16; 0 for fat32
  total : Nat    -- effective total sectors (uint32)
deriving Repr, DecidableEq

def Bpb.inRange (p : Bpb) : Prop :=
  p.bps < 65536 ∧ p.spc < 256 ∧ p.reserved < 65536 ∧ p.fatCount < 256 ∧ p.spf < two32 ∧
  p.rootEntries < 65536 ∧ p.total < two32

def rootDirSectors64 (p : Bpb) : Nat := (p.rootEntries * 32 + p.bps - 1) / p.bps
def metaSectors (p : Bpb) : Nat := p.reserved + p.fatCount * p.spf + rootDirSectors64 p

/-- `CheckGeometry(...)`: true = returns nil.  The arithmetic is uint64 in Go: `metaSectors` cannot
    reach 2^64 for uint32 arguments, its product with the sector size is taken mod 2^64 (it cannot wrap
    for fields of the on-disk widths: `checkGeometry_u64`); `size` is the int64 volume size (≤ 0: unknown). -/
def checkGeometry (p : Bpb) (size : Int) : Bool :=
  (p.bps == 512 || p.bps == 1024 || p.bps == 2048 || p.bps == 4096) &&
  !(p.spc == 0 || p.spc > 128 || (p.spc &&& (p.spc - 1)) != 0) &&
  p.reserved != 0 && p.fatCount != 0 && p.spf != 0 &&
  !(p.total != 0 && metaSectors p ≥ p.total) &&
  !(size > 0 && ((metaSectors p * p.bps % two64 : Nat) : Int) > size)

structure Geom where
  dataStart : Nat
  bytesPerCluster : Nat
  fatSize : Nat        -- `make([]byte, fatSize)`
  rootDirOff : Nat
  numClusters : Nat
deriving Repr, DecidableEq

inductive Kind | fat12 | fat16
deriving Repr, DecidableEq

/-- fat12.Read / fat16.Read from the parsed BPB on: every operation in uint32 as in the Go code.
    `checked = false` skips the CheckGeometry call (as found). -/
def read1216 (checked : Bool) (k : Kind) (p : Bpb) (size : Int) : Out Geom :=
  if p.rootEntries = 0 then .err else
  if checked && !checkGeometry p size then .err else do
    let rootDirSectors ← div? (u32 (u32 (p.rootEntries * 32 + p.bps) + two32 - 1)) p.bps
    let fatSectors := u32 (p.fatCount * p.spf)
    let dataSectors := sub32 (sub32 (sub32 p.total p.reserved) fatSectors) rootDirSectors
    let numClusters ← div? dataSectors p.spc
    let badCount : Bool := match k with
      | .fat12 => numClusters ≥ 4085
      | .fat16 => numClusters < 4085 || numClusters ≥ 65525
    if badCount then .err else
      let fatPrimaryStart := u32 (p.reserved * p.bps)
      let fatSize := u32 (p.spf * p.bps)
      let fatSecondaryStart := u32 (fatPrimaryStart + fatSize)
      let rootDirOff := u32 (fatSecondaryStart + fatSize)
      let dataStart := u32 (rootDirOff + u32 (rootDirSectors * p.bps))
      pure ⟨dataStart, p.spc * p.bps, fatSize, rootDirOff, numClusters⟩

/-- the part of fat32.Read between the boot sector parse and the FAT reads: `fatSize` is computed in
    uint32 BEFORE CheckGeometry, the FAT offsets in uint64 -/
structure Geom32 where
  fatSize : Nat          -- `make([]byte, fatSize)`
  fatPrimaryStart : Nat
  fatSecondaryStart : Nat
  bytesPerCluster : Nat
deriving Repr, DecidableEq

/-- `wrapChecked` = the FAT size is also computed in uint64 and refused above 2^30 bytes (the largest
    FAT a FAT32 volume can have); without it `fatSize` can wrap to 0 and `tableFromBytes` slices
    `b[0:4]` / `b[4:8]` of the empty buffer (finding fat32-fatsize-wrap) -/
def read32 (checked wrapChecked : Bool) (p : Bpb) (size : Int) : Out Geom32 :=
  let fatSize := u32 (p.spf * p.bps)
  if checked && !checkGeometry { p with rootEntries := 0 } size then .err else
  if wrapChecked && p.spf * p.bps > 1073741824 then .err else
  -- partitionTableBytes := make([]byte, fatSize); tableFromBytes(partitionTableBytes): b[0:4], b[4:8]
  if fatSize < 8 then .panic else
    let fatPrimaryStart := p.reserved * p.bps
    pure ⟨fatSize, fatPrimaryStart, fatPrimaryStart + fatSize, p.spc * p.bps⟩

end Fat

/-! ## iso9660: parsePathTable (pathtable.go), parseDirectoryEntryExtensions
    (directoryentrysystemuseextension.go, no extension handlers), dirEntryFromBytesWithJoliet,
    parseDirEntry, parseDirEntries, parseDirEntriesJoliet (directoryentry.go, SUSP not enabled) -/
namespace Iso

structure PathEnt where
  nameSize : Nat
  ext : Nat
  size : Nat
  parent : Nat
  loc : Nat
  name : Bytes
deriving Repr, DecidableEq

/-- the loop of `parsePathTable`; a `break` is `.ok acc` -/
def pathLoop (checked : Bool) (b : GS) : Nat → Nat → List PathEnt → Out (List PathEnt)
  | 0, _, _ => .fuel
  | fuel + 1, i, acc =>
    if ¬ (i < b.len) then .ok acc else do
      let ns ← idx b i
      if ns = 0 then .ok acc else
      let size := 8 + ns + (if ns % 2 ≠ 0 then 1 else 0)
      if checked && i + 8 + ns > b.len then .ok acc else do
        let ext ← idx b (i + 1)
        let loc ← le b (i + 2) 4
        let par ← le b (i + 6) 2
        let nm ← slc b (i + 8) (i + 8 + ns)
        pathLoop checked b fuel (i + size) (acc ++ [⟨ns, ext, size, par, loc, nm.bytes⟩])

def parsePathTable (checked : Bool) (b : GS) (fuel : Nat) : Out (List PathEnt) :=
  pathLoop checked b fuel 0 []

/-- one parsed system use entry -/
inductive Susp where
  | sp (skip : Nat)
  | st
  | es (seq : Nat)
  | er (ver : Nat) (id desc src : Bytes)
  | pd (len : Nat)
  | ce (loc off len : Nat)
  | raw (sig : Bytes) (len ver : Nat) (data : Bytes)
deriving Repr, DecidableEq

/-- switches for the two defects found while building this model (see known_findings.json):
    `er` = parseSystemUseExtensionExtensionsReference checks `len(b) >= 8` before reading b[4..7];
    `joliet` = parseDirEntriesJoliet checks that a record lies inside the directory bytes;
    and for one found by C06 (iso-joliet-nonbmp-name): `utf16` = bytesToUCS2String decodes UTF-16
    (a surrogate pair is one code point) instead of one rune per 16-bit unit -/
structure Cfg where
  er : Bool
  joliet : Bool
  utf16 : Bool := false
deriving Repr, DecidableEq

def Cfg.fixed : Cfg := { er := true, joliet := true, utf16 := true }

def sigOf (a b : Char) : Bytes := [UInt8.ofNat a.toNat, UInt8.ofNat b.toNat]

/-- the parser selected by the signature, applied to `sb = b[i:i+size]` (so `sb.len = size ≥ 4`) -/
def suspEntry (cfg : Cfg) (sig : Bytes) (sb : GS) : Out Susp :=
  if sig = sigOf 'S' 'P' then
    if sb.len ≠ 7 then .err else do
      let size ← idx sb 2
      if size ≠ 7 then .err else do
        let ver ← idx sb 3
        if ver ≠ 1 then .err else do
          let chk ← be sb 4 2
          if chk ≠ 0xbeef then .err else do
            let skip ← idx sb 6
            pure (.sp skip)
  else if sig = sigOf 'S' 'T' then
    if sb.len ≠ 4 then .err else do
      let size ← idx sb 2
      if size ≠ 4 then .err else do
        let ver ← idx sb 3
        if ver ≠ 1 then .err else pure .st
  else if sig = sigOf 'E' 'S' then
    if sb.len ≠ 5 then .err else do
      let size ← idx sb 2
      if size ≠ 5 then .err else do
        let ver ← idx sb 3
        if ver ≠ 1 then .err else do
          let seq ← idx sb 4
          pure (.es seq)
  else if sig = sigOf 'E' 'R' then do
    let size ← idx sb 2
    if sb.len ≠ size then .err else
    if cfg.er && sb.len < 8 then .err else do
      let ver ← idx sb 3
      if ver ≠ 1 then .err else do
        let idSize ← idx sb 4
        let descSize ← idx sb 5
        let srcSize ← idx sb 6
        let extVer ← idx sb 7
        if 8 + idSize + descSize + srcSize > sb.len then .err else do
          let id ← slc sb 8 (8 + idSize)
          let desc ← slc sb (8 + idSize) (8 + idSize + descSize)
          let src ← slc sb (8 + idSize + descSize) (8 + idSize + descSize + srcSize)
          pure (.er extVer id.bytes desc.bytes src.bytes)
  else if sig = sigOf 'P' 'D' then do
    let size ← idx sb 2
    if size ≠ sb.len then .err else do
      let ver ← idx sb 3
      if ver ≠ 1 then .err else pure (.pd size)
  else if sig = sigOf 'C' 'E' then
    if sb.len ≠ 28 then .err else do
      let size ← idx sb 2
      if size ≠ 28 then .err else do
        let ver ← idx sb 3
        if ver ≠ 1 then .err else do
          let loc ← le sb 4 4
          let off ← le sb 12 4
          let len ← le sb 20 4
          pure (.ce loc off len)
  else do
    -- parseSystemUseExtensionRaw
    let sg ← slc sb 0 2
    let ver ← idx sb 3
    if sb.len > 4 then do
      let data ← slc sb 4 sb.len
      pure (.raw sg.bytes sb.len ver data.bytes)
    else pure (.raw sg.bytes sb.len ver [])

/-- the loop of `parseDirectoryEntryExtensions(b, nil)` -/
def suspLoop (cfg : Cfg) (b : GS) : Nat → Nat → List Susp → Out (List Susp)
  | 0, _, _ => .fuel
  | fuel + 1, i, acc =>
    if ¬ (i + 3 < b.len) then .ok acc else do
      let sg ← slc b i (i + 2)
      let size ← idx b (i + 2)
      if size < 4 then .ok acc else
      if i + size > b.len then .err else do
        let sb ← slc b i (i + size)
        let e ← suspEntry cfg sg.bytes sb
        suspLoop cfg b fuel (i + size) (acc ++ [e])

def parseSusp (cfg : Cfg) (b : GS) (fuel : Nat) : Out (List Susp) := suspLoop cfg b fuel 0 []

/-- `bytesToUCS2String` as the list of runes it produces (a lone surrogate becomes U+FFFD when the
    rune slice is converted to a string) -/
def ucs2 : Bytes → List Nat
  | [] => []
  | [a] => [a.toNat]
  | a :: b :: rest =>
    let v := a.toNat * 256 + b.toNat
    (if 0xD800 ≤ v ∧ v ≤ 0xDFFF then 0xFFFD else v) :: ucs2 rest

/-- the 16-bit units `bytesToUCS2String` collects (big endian; a trailing odd byte is a unit of its own) -/
def units16 : Bytes → List Nat
  | [] => []
  | [a] => [a.toNat]
  | a :: b :: rest => (a.toNat * 256 + b.toNat) :: units16 rest

/-- `bytesToUCS2String` of the tree: `utf16.Decode` over the units once repaired (the mirror of
    unicode/utf16 is the GPT name field's), one rune per unit as found -/
def jolietRunes (utf16 : Bool) (b : Bytes) : List Nat :=
  if utf16 then Gpt.utf16Dec (units16 b) else ucs2 b

structure DirRec where
  ext : Nat
  loc : Nat
  size : Nat
  date : Bytes
  flags : Nat
  volSeq : Nat
  isSelf : Bool
  isParent : Bool
  name : Bytes        -- raw name bytes (non-Joliet) …
  runes : List Nat    -- … or the decoded UCS-2 name (Joliet)
  susp : List Susp
deriving Repr, DecidableEq

/-- `dirEntryFromBytesWithJoliet(b, nil, joliet)`; `fuel` is for the system use area walk -/
def dirEntryFromBytes (cfg : Cfg) (joliet : Bool) (b : GS) (fuel : Nat) : Out DirRec :=
  if b.len < 34 then .err else do
    let recordSize ← idx b 0
    if b.len ≠ recordSize then .err else do
      let ext ← idx b 1
      let loc ← le b 2 4
      let size ← le b 10 4
      let date ← slc b 18 25
      let flags ← idx b 25
      let volSeq ← le b 28 2
      let namelen ← idx b 32
      if 33 + namelen > b.len then .err else do
        let nameBytes ← slc b 33 (33 + namelen)
        let pad := if namelen > 1 ∧ namelen % 2 = 0 then namelen + 1 else namelen
        let first ← (if namelen = 1 then idx nameBytes 0 else pure 2)
        let isSelf := decide (namelen = 1 ∧ first = 0)
        let isParent := decide (namelen = 1 ∧ first = 1)
        let special := isSelf || isParent
        let susp ←
          (if !joliet && decide (b.len > 33 + pad) then do
             let su ← slc b (33 + pad) b.len
             parseSusp cfg su fuel
           else pure [])
        pure { ext := ext, loc := loc, size := size, date := date.bytes, flags := flags % 32 + (if flags ≥ 128 then 128 else 0),
               volSeq := volSeq, isSelf := isSelf, isParent := isParent,
               name := if special || joliet then [] else nameBytes.bytes,
               runes := if !special && joliet then jolietRunes cfg.utf16 nameBytes.bytes else [],
               susp := susp }

/-- `parseDirEntry(b, f)` for a filesystem without SUSP: `none` is the `nil, nil` return -/
def parseDirEntry (cfg : Cfg) (b : GS) (fuel : Nat) : Out (Option DirRec) :=
  if b.len < 1 then .err else do
    let entryLen ← idx b 0
    if entryLen = 0 then pure none else
    if entryLen > b.len then .err else do
      let sub ← slc b 0 entryLen
      let de ← dirEntryFromBytes cfg false sub fuel
      pure (some de)

/-- the loop of `parseDirEntries` (joliet = false) / `parseDirEntriesJoliet` (joliet = true);
    `bs` = f.blocksize (validated by Read: 2048, 4096 or 8192) -/
def dirLoop (cfg : Cfg) (joliet : Bool) (bs : Nat) (b : GS) : Nat → Nat → List DirRec → Out (List DirRec)
  | 0, _, _ => .fuel
  | fuel + 1, i, acc =>
    if ¬ (i < b.len) then .ok acc else do
      let entryLen ← idx b i
      if entryLen = 0 then
        if bs = 0 then .panic else dirLoop cfg joliet bs b fuel (i + (bs - i % bs)) acc
      else if (!joliet || cfg.joliet) && i + entryLen > b.len then .err else do
        let sub ← slc b i (i + entryLen)
        if joliet then do
          let de ← dirEntryFromBytes cfg true sub (sub.len + 1)
          dirLoop cfg joliet bs b fuel (i + entryLen) (acc ++ [de])
        else do
          let de ← parseDirEntry cfg sub (sub.len + 1)
          match de with
          | none => dirLoop cfg joliet bs b fuel (i + entryLen) acc
          | some d => dirLoop cfg joliet bs b fuel (i + entryLen) (acc ++ [d])

def parseDirEntries (cfg : Cfg) (joliet : Bool) (bs : Nat) (b : GS) (fuel : Nat) : Out (List DirRec) :=
  dirLoop cfg joliet bs b fuel 0 []

end Iso

/-! ## squashfs: readMetaBlock / readMetadata (metadatablock.go), parseFragmentEntry (fragment.go),
    readFragment and the id-table lookup of directoryEntryFromInode (squashfs.go);
    no compressor, no block cache -/
namespace Sqfs

/-- `ReaderAt.ReadAt(make([]byte, n), off)` on a device holding `dev`: the bytes read (short at the end) -/
def readAt (dev : Bytes) (off n : Nat) : Bytes := (dev.drop off).take n

/-- `readMetaBlock`: the block's data and the `size + 2` it reports; `alloc` = the `make([]byte, size)` -/
def readMetaBlock (dev : Bytes) (loc : Nat) : Out (Bytes × Nat) :=
  let hb := readAt dev loc 2
  let header := (hb.getD 0 0).toNat + 256 * (hb.getD 1 0).toNat
  let size := header % 32768
  let compressed := header < 32768
  let data := readAt dev (loc + 2) size
  if data.length ≠ size then .err
  else if compressed then .err     -- no compressor
  else .ok (data, size + 2)

/-- the loop of `readMetadata`: `acc` = b so far, `off` = blockOffset, `rd` = size of the last block read -/
def metaLoop (checked : Bool) (dev : Bytes) (first size : Nat) : Nat → Nat → Nat → Bytes → Out Bytes
  | 0, _, _, _ => .fuel
  | fuel + 1, off, rd, acc =>
    if ¬ (acc.length < size) then .ok acc else do
      let off' := off + rd
      let (m, rd') ← readMetaBlock dev (first + off')
      if checked && m.length = 0 then .err else
      metaLoop checked dev first size fuel off' rd' (acc ++ m)

def readMetadata (checked : Bool) (dev : Bytes) (first blockOffset byteOffset size fuel : Nat) : Out Bytes := do
  let (m, rd) ← readMetaBlock dev (first + blockOffset)
  if checked && byteOffset > m.length then .err else do
    let t ← slc (GS.ofBytes m) byteOffset m.length
    metaLoop checked dev first size fuel blockOffset rd t.bytes

structure Frag where
  start : Nat   -- uint64
  size : Nat    -- uint32
  compressed : Bool
deriving Repr, DecidableEq

/-- `parseFragmentEntry` -/
def parseFragmentEntry (b : GS) : Out Frag :=
  if b.len < 16 then .err else do
    let start ← le b 0 8
    let size ← le b 8 4
    pure ⟨start, size % 16777216, !(size / 16777216 % 2 = 1)⟩

/-- `readFragment(index, offset, fragmentSize)`; the result also records the `make([]byte, size)` -/
def readFragment (checked : Bool) (dev : Bytes) (frags : List Frag) (index offset : Nat) (fragmentSize : Int) :
    Out (Bytes × Nat) :=
  if checked && (frags.length : Int) - 1 < index then .err else
  match frags[index]? with
  | none => .panic
  | some f =>
    if f.start ≥ 9223372036854775808 then .err   -- int64(start) < 0: ReadAt refuses a negative offset
    else
      let data := readAt dev f.start f.size
      if data.length ≠ f.size then .err
      else if f.compressed then .err             -- no compressor
      else if checked && (fragmentSize < 0 || (offset : Int) + fragmentSize > data.length) then .err
      else if fragmentSize < 0 then .panic       -- data[offset : offset+fragmentSize] with hi < lo
      else do
        let t ← slc (GS.ofBytes data) offset (offset + fragmentSize.toNat)
        pure (t.bytes, f.size)

/-- owner lookup of `directoryEntryFromInode` -/
def idLookup (checked : Bool) (ids : List Nat) (uidIdx gidIdx : Nat) : Out (Nat × Nat) :=
  if checked && (uidIdx ≥ ids.length || gidIdx ≥ ids.length) then .err else
  match ids[uidIdx]?, ids[gidIdx]? with
  | some u, some g => .ok (u, g)
  | _, _ => .panic

end Sqfs

end Diskfs.Parsers
