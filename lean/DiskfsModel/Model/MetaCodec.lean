/-
  Mirrors of the attribute codecs of the other formats (property C19):
    fat12/directoryentry.go   timeToDateTime / dateTimeToTime, attribute byte in toBytes / parseDirEntries
    squashfs/inode.go         inodeHeader.toBytes / parseInodeHeader; directoryentry.go Mode()
    squashfs/finalize.go      getTableIdx; uidgid.go parseIDTable
    iso9660/rockridge.go      PX (rockRidgePosixAttributes.Data / parsePosixAttributes), NM records
  Civil time (year, month, …) is what Go's `time` package hands to / takes from these codecs; the
  conversion between an instant and civil time is Go's, not modelled.  Core Lean only.
-/
import DiskfsModel.Core.Bytes
namespace Diskfs.Meta

/-! ### FAT date / time words -/

structure Civil where
  year : Nat
  month : Nat
  day : Nat
  hour : Nat
  minute : Nat
  second : Nat
deriving Repr, DecidableEq

/-- timeToDateTime: `uint16((year-1980)<<9 + month<<5 + day)`, `uint16(hour<<11 + minute<<5 + second/2)`.
    `year - 1980` is an int in Go; for years before 1980 the result is negative before truncation. -/
def fatPack (c : Civil) : Nat × Nat :=
  (((((c.year : Int) - 1980) * 512 + ((c.month * 32 + c.day : Nat) : Int)) % 65536).toNat,
   (c.hour * 2048 + c.minute * 32 + c.second / 2) % 65536)

/-- dateTimeToTime: the civil fields handed to time.Date -/
def fatUnpack (d t : Nat) : Civil :=
  ⟨d / 512 + 1980, d / 32 % 16, d % 32, t / 2048, t / 32 % 64, t % 32 * 2⟩

/-- a civil time FAT can represent -/
def InFatRange (c : Civil) : Prop :=
  1980 ≤ c.year ∧ c.year ≤ 2107 ∧ 1 ≤ c.month ∧ c.month ≤ 12 ∧ 1 ≤ c.day ∧ c.day ≤ 31 ∧
  c.hour ≤ 23 ∧ c.minute ≤ 59 ∧ c.second ≤ 59

/-- two-second resolution -/
def floor2s (c : Civil) : Civil := { c with second := c.second / 2 * 2 }

/-! ### the three timestamps of a FAT directory entry (what Chtimes sets) -/

structure EntryTimes where
  create : Civil
  modify : Civil
  access : Civil
deriving Repr, DecidableEq

/-- directoryEntry.toBytes: create date + time, modify date + time, and the access *date* only -/
def fatTimesEnc (t : EntryTimes) : Nat × Nat × Nat × Nat × Nat :=
  ((fatPack t.create).1, (fatPack t.create).2, (fatPack t.modify).1, (fatPack t.modify).2, (fatPack t.access).1)

/-- parseDirEntries: the access time is `dateTimeToTime(accessDate, 0)` -/
def fatTimesDec (w : Nat × Nat × Nat × Nat × Nat) : EntryTimes :=
  ⟨fatUnpack w.1 w.2.1, fatUnpack w.2.2.1 w.2.2.2.1, fatUnpack w.2.2.2.2 0⟩

/-- a date at midnight -/
def dateOnly (c : Civil) : Civil := { c with hour := 0, minute := 0, second := 0 }

/-! ### FAT attribute byte -/

structure FatAttr where
  readOnly : Bool
  hidden : Bool
  system : Bool
  volume : Bool
  subdir : Bool
  archive : Bool
deriving Repr, DecidableEq

def b2n (b : Bool) : Nat := if b then 1 else 0

def fatAttrEnc (a : FatAttr) : Nat :=
  b2n a.readOnly + 2 * b2n a.hidden + 4 * b2n a.system + 8 * b2n a.volume + 16 * b2n a.subdir + 32 * b2n a.archive

def bit (n k : Nat) : Bool := n / k % 2 = 1

def fatAttrDec (n : Nat) : FatAttr :=
  ⟨bit n 1, bit n 2, bit n 4, bit n 8, bit n 16, bit n 32⟩

/-! ### squashfs inode header -/

/-- a Go os.FileMode restricted to what matters here -/
structure GoMode where
  perm : Nat      -- 9 bits
  setuid : Bool
  setgid : Bool
  sticky : Bool
deriving Repr, DecidableEq

/-- the numeric value of the Go mode's low 24 bits: setuid 1<<23, setgid 1<<22, sticky 1<<20 -/
def GoMode.bits (m : GoMode) : Nat :=
  m.perm + 8388608 * b2n m.setuid + 4194304 * b2n m.setgid + 1048576 * b2n m.sticky

/-- the twelve Unix bits -/
def GoMode.unix (m : GoMode) : Nat :=
  m.perm + 2048 * b2n m.setuid + 1024 * b2n m.setgid + 512 * b2n m.sticky

def goModeOfUnix (u : Nat) : GoMode := ⟨u % 512, bit u 2048, bit u 1024, bit u 512⟩

structure SqCfg where
  /-- the header stores the Unix mode bits (repaired) instead of `uint16(os.FileMode)` (as found) -/
  modeUnixBits : Bool
deriving Repr, DecidableEq

def SqCfg.asFound : SqCfg := ⟨false⟩
def SqCfg.fixed : SqCfg := ⟨true⟩

/-- inodeHeader.toBytes: the 16-bit mode word -/
def sqModeEnc (cfg : SqCfg) (m : GoMode) : Nat :=
  if cfg.modeUnixBits then m.unix % 65536 else m.bits % 65536

/-- parseInodeHeader + directoryEntry.Mode(): the permission part reported -/
def sqModeDec (cfg : SqCfg) (w : Nat) : GoMode :=
  if cfg.modeUnixBits then goModeOfUnix w else ⟨w % 512, false, false, false⟩

/-- mtime is stored as uint32(Unix()) -/
def sqTimeEnc (sec : Int) : Nat := (sec % 4294967296).toNat
def sqTimeDec (w : Nat) : Int := (w : Int)

/-- position of an id in the table (index ↦ id) -/
def findId : List Nat → Nat → Option Nat
  | [], _ => none
  | x :: xs, id => if x = id then some 0 else (findId xs id).map (· + 1)

/-- getTableIdx over a table kept as the list index ↦ id: reuse the index or append -/
def idIndex (tbl : List Nat) (id : Nat) : List Nat × Nat :=
  match findId tbl id with
  | some i => (tbl, i)
  | none => (tbl ++ [id], tbl.length)

def idIndexAll : List Nat → List Nat → List Nat × List Nat
  | tbl, [] => (tbl, [])
  | tbl, id :: rest =>
    let (t1, i) := idIndex tbl id
    let (t2, is) := idIndexAll t1 rest
    (t2, i :: is)

/-! ### Rock Ridge PX -/

/-- POSIX file type field (S_IFMT >> 12) written by Data() from the Go type bits -/
inductive PxKind | reg | dir | lnk | chr | blk | fifo | sock
deriving Repr, DecidableEq

def pxKindCode : PxKind → Nat
  | .reg => 8 | .dir => 4 | .lnk => 10 | .chr => 2 | .blk => 6 | .fifo => 1 | .sock => 12

def pxKindOfCode (c : Nat) : Option PxKind :=
  match c with
  | 8 => some .reg | 4 => some .dir | 10 => some .lnk | 2 => some .chr | 6 => some .blk
  | 1 => some .fifo | 12 => some .sock | _ => none

/-- the 32-bit st_mode word of a PX record -/
def pxModeEnc (k : PxKind) (m : GoMode) : Nat := pxKindCode k * 4096 + m.unix

def pxModeDec (w : Nat) : Option PxKind × GoMode := (pxKindOfCode (w / 4096 % 16), goModeOfUnix (w % 4096))

/-- a both-endian 32-bit field: little endian then big endian -/
def both32 (n : Nat) : Bytes := leEnc 4 n ++ beEnc 4 n

structure Px where
  kind : PxKind
  mode : GoMode
  links : Nat
  uid : Nat
  gid : Nat
  serial : Nat
deriving Repr, DecidableEq

/-- the 44-byte PX record (RRIP 1.12) -/
def pxEnc (p : Px) : Bytes :=
  [80, 88, 44, 1] ++ both32 (pxModeEnc p.kind p.mode) ++ both32 p.links ++ both32 p.uid ++ both32 p.gid ++
    leEnc 8 p.serial

def pxDec (b : Bytes) : Option (Option PxKind × GoMode × Nat × Nat × Nat) :=
  if b.length ≠ 44 ∨ b.getD 2 0 ≠ 44 ∨ b.getD 3 0 ≠ 1 then none
  else
    let (k, m) := pxModeDec (leDec (slice b 4 8))
    some (k, m, leDec (slice b 12 16), leDec (slice b 20 24), leDec (slice b 28 32))

/-! ### Rock Ridge NM (alternate name), possibly several records -/

def nmMax : Nat := 249

/-- rockRidgeName.Bytes: cut the name into pieces of at most 249 bytes, all but the last flagged CONTINUE -/
def nmChunks : Nat → Bytes → List (Bool × Bytes)
  | 0, _ => []
  | f + 1, name =>
    if name.isEmpty then []
    else if name.length > nmMax then (true, name.take nmMax) :: nmChunks f (name.drop nmMax)
    else [(false, name)]

def nmRecord (c : Bool × Bytes) : Bytes :=
  [78, 77, UInt8.ofNat (5 + c.2.length), 1, if c.1 then 1 else 0] ++ c.2

def nmEnc (name : Bytes) : Bytes := ((nmChunks (name.length + 1) name).map nmRecord).flatten

/-- parse consecutive NM records and merge the pieces (parseName + Merge) -/
def nmDec : Nat → Bytes → Bytes
  | 0, _ => []
  | f + 1, b =>
    if b.length < 5 then []
    else
      let n := (b.getD 2 0).toNat
      if n < 5 ∨ n > b.length then []
      else slice b 5 n ++ nmDec f (b.drop n)

end Diskfs.Meta
