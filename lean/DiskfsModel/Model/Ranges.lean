/-
  C03 — byte ranges a component may write.
  * `gptRegions` / `mbrRegions` mirror the offsets of partition/gpt/table.go `Write`
    (backup array, backup header, primary array, primary header, then the protective MBR entries at 446 —
    last since fix 5e74ca3)
    and partition/mbr/table.go `Write` (66 bytes at 446), in program order, for a table the
    library initialised itself (128 entries of 128 bytes).
  * `subWrite` mirrors backend/substorage.go `subWritable.WriteAt` (adds the offset, enforces nothing).
  * `clusterRange` / `blockRange` are the byte ranges the FAT and ext4 writers derive from a
    cluster / block number.
-/
import DiskfsModel.Core.Bytes
namespace Diskfs.Ranges

def gptArrayBytes : Nat := 128 * 128

structure Region where
  off : Nat
  len : Nat
deriving Repr, DecidableEq

def gptRegions (lss size : Nat) (pmbr : Bool) : List Region :=
  let last := size / lss - 1
  let arrSec := gptArrayBytes / lss
  [⟨(last - arrSec) * lss, gptArrayBytes⟩, ⟨last * lss, lss⟩, ⟨2 * lss, gptArrayBytes⟩, ⟨lss, lss⟩] ++
  (if pmbr then [⟨446, 66⟩] else [])

def mbrRegions : List Region := [⟨446, 66⟩]

/-- a region as a write of arbitrary data of that length -/
def Region.covers (r : Region) (w : Wr) : Prop := w.off = r.off ∧ w.data.length = r.len

/-- SubStorage: relative write → absolute write -/
def subWrite (base : Nat) (w : Wr) : Wr := ⟨base + w.off, w.data⟩

/-- FAT: byte range of cluster `c` (clusters are numbered from 2) relative to the volume start -/
def clusterRange (dataStart bytesPerCluster c : Nat) : Nat × Nat :=
  (dataStart + (c - 2) * bytesPerCluster, dataStart + (c - 2) * bytesPerCluster + bytesPerCluster)

/-- ext4 / iso9660 / squashfs: byte range of block `b` relative to the filesystem start -/
def blockRange (blockSize b : Nat) : Nat × Nat := (b * blockSize, b * blockSize + blockSize)

end Diskfs.Ranges
