/-
  C03 — byte ranges a component may write.
  * `gptRegions` / `mbrRegions` mirror the offsets of partition/gpt/table.go `Write`
    (backup array, backup header, primary array, primary header, then the protective MBR entries at 446 —
    last since fix 5e74ca3)
    and partition/mbr/table.go `Write` (66 bytes at 446), in program order, for a table the
    library initialised itself (128 entries of 128 bytes).
  * `subWrite` mirrors backend/substorage.go `subWritable.WriteAt` (adds the offset, enforces nothing).
  * `clusterRange` / `blockRange` are the byte ranges the FAT and ext4 writers derive from a
    cluster / block number.
-/
import DiskfsModel.Core.Bytes
namespace Diskfs.Ranges

def gptArrayBytes : Nat := 128 * 128

structure Region where
  off : Nat
  len : Nat
deriving Repr, DecidableEq

def gptRegions (lss size : Nat) (pmbr : Bool) : List Region :=
  let last := size / lss - 1
  let arrSec := gptArrayBytes / lss
  [⟨(last - arrSec) * lss, gptArrayBytes⟩, ⟨last * lss, lss⟩, ⟨2 * lss, gptArrayBytes⟩, ⟨lss, lss⟩] ++
  (if pmbr then [⟨446, 66⟩] else [])

def mbrRegions : List Region := [⟨446, 66⟩]

/-- a region as a write of arbitrary data of that length -/
def Region.covers (r : Region) (w : Wr) : Prop := w.off = r.off ∧ w.data.length = r.len

/-- SubStorage: relative write → absolute write -/
def subWrite (base : Nat) (w : Wr) : Wr := ⟨base + w.off, w.data⟩

/-- FAT: byte range of cluster `c` (clusters are numbered from 2) relative to the volume start -/
def clusterRange (dataStart bytesPerCluster c : Nat) : Nat × Nat :=
  (dataStart + (c - 2) * bytesPerCluster, dataStart + (c - 2) * bytesPerCluster + bytesPerCluster)

/-- ext4 / iso9660 / squashfs: byte range of block `b` relative to the filesystem start -/
def blockRange (blockSize b : Nat) : Nat × Nat := (b * blockSize, b * blockSize + blockSize)

/-! ### backend/substorage.go as it is now: `Sub(u, offset, size)`

  ReadAt / WriteAt add `offset` to the caller's offset and hand the call to the underlying storage: the window's
  `size` is NOT consulted, nothing is refused and nothing is truncated (a write that straddles or lies behind the
  window end, or starts at a negative offset that `offset` makes non-negative, goes through in full).  `size` is
  used by Seek(SeekEnd) only.  Offsets are `Int` as Go's int64.  A nest `Sub(Sub(dev, a, s1), b, s2)` is the list
  `[(b, s2), (a, s1)]`: the window the filesystem holds first. -/

structure Win where
  off : Nat
  size : Nat
deriving Repr, DecidableEq

/-- the offset the device sees for a ReadAt / WriteAt at `off` issued through the nest -/
def subAbs : List Win → Int → Int
  | [], off => off
  | w :: ws, off => subAbs ws ((w.off : Int) + off)

inductive Whence where
  | start | current | «end»
deriving Repr, DecidableEq

/-- Seek through the nest over a device of `devSize` bytes whose position is `upos` (the device refuses a
    negative position and then keeps its position): `some (new device position, value returned to the caller)`,
    `none` = error (the wrapper returns -1 and the error) -/
def subSeek (devSize : Nat) : List Win → Int → Whence → Int → Option (Int × Int)
  | [], upos, wh, offset =>
    let np : Int := match wh with
      | .start => offset
      | .current => upos + offset
      | .«end» => (devSize : Int) + offset
    if np < 0 then none else some (np, np)
  | w :: ws, upos, wh, offset =>
    let inner := match wh with
      | .start => subSeek devSize ws upos .start (offset + (w.off : Int))
      | .current => subSeek devSize ws upos .current offset
      | .«end» => subSeek devSize ws upos .start ((w.off : Int) + (w.size : Int) + offset)
    inner.map fun r => (r.1, r.2 - (w.off : Int))

end Diskfs.Ranges
