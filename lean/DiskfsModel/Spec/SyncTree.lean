/-
  C16 — the tree spec CopyFileSystem / CompareFS are judged against.

  A filesystem tree is the entry list of its root directory, in first-child /
  next-sibling form (`Forest`): every constructor is one directory entry followed
  by the remaining entries of the same directory; a `dir` entry carries the entry
  list of that directory.  Entry order is the order `fs.ReadDir` delivers (sorted
  by name for every real `fs.FS`; nothing below depends on sortedness, only on
  names being distinct inside a directory — `wf`).

  What a path denotes is an `Item`; `lookup t p` is the whole observable content of
  a tree ("same paths, kinds, sizes, contents" is `∀ p, lookup a p = lookup b p`).
  Core Lean only (the model driver links against this file).
-/
import DiskfsModel.Core.Bytes
namespace Diskfs.Sync

abbrev Path := List String

inductive Forest where
  | nil
  | file (name : String) (data : Bytes) (rest : Forest)
  | dir (name : String) (sub : Forest) (rest : Forest)
  | link (name : String) (target : String) (rest : Forest)
  | other (name : String) (rest : Forest)          -- device, pipe, socket: anything else
deriving Repr, DecidableEq, Inhabited

/-- what a path denotes -/
inductive Item where
  | file (data : Bytes)
  | dir
  | link (target : String)
  | other
deriving Repr, DecidableEq, Inhabited

namespace Forest

/-- names of the entries of this directory (not of sub-directories) -/
def names : Forest → List String
  | nil => []
  | file n _ r => n :: names r
  | dir n _ r => n :: names r
  | link n _ r => n :: names r
  | other n r => n :: names r

/-- well-formed: names are distinct inside every directory -/
def wf : Forest → Bool
  | nil => true
  | file n _ r => !(names r).contains n && wf r
  | dir n s r => !(names r).contains n && wf s && wf r
  | link n _ r => !(names r).contains n && wf r
  | other n r => !(names r).contains n && wf r

/-- only regular files and directories (the domain of the CompareFS theorems) -/
def plain : Forest → Bool
  | nil => true
  | file _ _ r => plain r
  | dir _ s r => plain s && plain r
  | link _ _ _ => false
  | other _ _ => false

/-- no symbolic links anywhere -/
def noLinks : Forest → Bool
  | nil => true
  | file _ _ r => noLinks r
  | dir _ s r => noLinks s && noLinks r
  | link _ _ _ => false
  | other _ r => noLinks r

/-- what path `p` (relative to this directory; `[]` is the directory itself) denotes -/
def lookup : Forest → Path → Option Item
  | _, [] => some .dir
  | nil, _ :: _ => none
  | file n d r, p :: ps => if n = p then (if ps = [] then some (.file d) else none) else lookup r (p :: ps)
  | dir n s r, p :: ps => if n = p then lookup s ps else lookup r (p :: ps)
  | link n t r, p :: ps => if n = p then (if ps = [] then some (.link t) else none) else lookup r (p :: ps)
  | other n r, p :: ps => if n = p then (if ps = [] then some .other else none) else lookup r (p :: ps)

/-- the tree minus every entry whose name is in `ex` (at every level), and — when `keepOther` is
    false — minus everything that is neither file, directory nor symlink. -/
def strip (ex : List String) (keepOther : Bool) : Forest → Forest
  | nil => nil
  | file n d r => if ex.contains n then strip ex keepOther r else file n d (strip ex keepOther r)
  | dir n s r => if ex.contains n then strip ex keepOther r else dir n (strip ex keepOther s) (strip ex keepOther r)
  | link n t r => if ex.contains n then strip ex keepOther r else link n t (strip ex keepOther r)
  | other n r => if ex.contains n || !keepOther then strip ex keepOther r else other n (strip ex keepOther r)

/-- pre-order listing of every entry below this directory with its absolute path (`pre` is the
    path of this directory).  This is also the state of a flat path → item store holding the tree. -/
def flatAt (pre : Path) : Forest → List (Path × Item)
  | nil => []
  | file n d r => (pre ++ [n], .file d) :: flatAt pre r
  | dir n s r => (pre ++ [n], .dir) :: (flatAt (pre ++ [n]) s ++ flatAt pre r)
  | link n t r => (pre ++ [n], .link t) :: flatAt pre r
  | other n r => (pre ++ [n], .other) :: flatAt pre r

end Forest

/-- source minus excluded names: what CompareFS looks at -/
def stripExcluded (ex : List String) (t : Forest) : Forest := t.strip ex true
/-- what CopyFileSystem is supposed to produce: source minus excluded names minus special files -/
def copyImage (ex : List String) (t : Forest) : Forest := t.strip ex false

/-- same paths, kinds, sizes and contents -/
def TreeEq (a b : Forest) : Prop := ∀ p, a.lookup p = b.lookup p
infix:50 " ≈ " => TreeEq

/-- `Mut1 ex a b`: `b` is `a` with exactly one entry — anywhere in the tree, but not below or at an
    excluded name — changed: a file's bytes replaced by different bytes (a changed byte, a length
    change), an entry removed, an entry added, a file turned into a directory or back. -/
inductive Mut1 (ex : List String) : Forest → Forest → Prop
  | changeFile {n d d' r} : ex.contains n = false → d ≠ d' → Mut1 ex (.file n d r) (.file n d' r)
  | removeFile {n d r} : ex.contains n = false → Mut1 ex (.file n d r) r
  | removeDir {n s r} : ex.contains n = false → Mut1 ex (.dir n s r) r
  | addFile {n d r} : ex.contains n = false → Mut1 ex r (.file n d r)
  | addDir {n s r} : ex.contains n = false → Mut1 ex r (.dir n s r)
  | fileToDir {n d s r} : ex.contains n = false → Mut1 ex (.file n d r) (.dir n s r)
  | dirToFile {n d s r} : ex.contains n = false → Mut1 ex (.dir n s r) (.file n d r)
  | inDir {n s s' r} : ex.contains n = false → Mut1 ex s s' → Mut1 ex (.dir n s r) (.dir n s' r)
  | skipFile {n d r r'} : Mut1 ex r r' → Mut1 ex (.file n d r) (.file n d r')
  | skipDir {n s r r'} : Mut1 ex r r' → Mut1 ex (.dir n s r) (.dir n s r')

end Diskfs.Sync
