/-
  C08, boot-region clause, as a Lean definition over RAW BYTES: "a boot sector whose geometry
  matches the range given (and, for FAT32, an identical backup boot sector and a sane FSInfo)".
  Written from the FAT on-disk format (fixed byte offsets of the BPB); it shares no definition
  with the encoders of Model/Fat/Boot.lean.  `bootProblems` returns the problem codes it finds
  (the empty list = sound); the driver runs it on the real bytes of every volume the engine
  creates — intact and deliberately damaged — and its verdict is compared with the independent Go
  checker's.
  `img` is the first bytes of the volume (at least through the backup FSInfo sector); reads past
  its end give zeros.  Core Lean only.
-/
import DiskfsModel.Core.Bytes
namespace Diskfs.Spec.FatBoot

def rd (img : Bytes) (off n : Nat) : Bytes :=
  let s := (img.drop off).take n
  s ++ zeros (n - s.length)

def u8at (b : Bytes) (i : Nat) : Nat := (b.getD i 0).toNat
def leAt (b : Bytes) (off n : Nat) : Nat := leDec ((b.drop off).take n)

def pow2le128 (n : Nat) : Bool := [1, 2, 4, 8, 16, 32, 64, 128].contains n

/-- FSInfo copy at sector `sec`: signatures and counters -/
def fsinfoProblems (img : Bytes) (bps sec cc : Nat) : List String :=
  let fi := rd img (sec * bps) 512
  if leAt fi 0 4 ≠ 0x41615252 ∨ leAt fi 484 4 ≠ 0x61417272 ∨ leAt fi 508 4 ≠ 0xAA550000 then ["fsinfo"]
  else
    let free := leAt fi 488 4
    let next := leAt fi 492 4
    (if free ≠ 0xFFFFFFFF ∧ free > cc then ["fsinfo"] else []) ++
    (if next ≠ 0xFFFFFFFF ∧ (next < 2 ∨ next > cc + 1) then ["fsinfo"] else [])

def bootProblems (img : Bytes) (size wantKind wantBps : Nat) : List String :=
  let bs := rd img 0 512
  if u8at bs 510 ≠ 0x55 ∨ u8at bs 511 ≠ 0xAA then ["boot-signature"] else
  let bps := leAt bs 11 2
  let spc := u8at bs 13
  let reserved := leAt bs 14 2
  let nfats := u8at bs 16
  let rootEntries := leAt bs 17 2
  let ts16 := leAt bs 19 2
  let media := u8at bs 21
  let fs16 := leAt bs 22 2
  let ts32 := leAt bs 32 4
  let total := if ts16 = 0 then ts32 else ts16
  if ¬ (bps = 512 ∨ bps = 1024 ∨ bps = 2048 ∨ bps = 4096) then ["bpb-sector-size"] else
  let p1 := if wantBps ≠ 0 ∧ bps ≠ wantBps then ["bpb-sector-size"] else []
  if ¬ pow2le128 spc then p1 ++ ["bpb-sectors-per-cluster"] else
  let p2 := p1 ++ (if bps * spc > 32768 then ["bpb-cluster-size"] else [])
  if reserved = 0 then p2 ++ ["bpb-reserved"] else
  let p3 := p2 ++ (if nfats ≠ 2 then ["bpb-fat-count"] else [])
  if nfats = 0 then p3 else
  let fatSectors := if fs16 = 0 then leAt bs 36 4 else fs16
  if fatSectors = 0 then p3 ++ ["bpb-fat-size"] else
  let rootSectors := (rootEntries * 32 + bps - 1) / bps
  let metaSectors := reserved + nfats * fatSectors + rootSectors
  if total ≤ metaSectors then p3 ++ ["geometry"] else
  let cc := (total - metaSectors) / spc
  let kind := if rootEntries = 0 ∧ fs16 = 0 then 32 else if cc < 4085 then 12 else 16
  let pk := if kind = 32 then (if cc ≥ 0x0FFFFFF5 then ["fat-type"] else [])
            else if cc ≥ 65525 then ["fat-type"] else []
  let p4 := p3 ++ pk ++ (if kind ≠ wantKind then ["fat-type"] else []) ++
    -- the geometry must match the range given: nothing beyond it, less than one sector unused
    (if total * bps > size then ["geometry"] else []) ++
    (if total * bps ≤ size ∧ size - total * bps ≥ bps then ["geometry"] else []) ++
    (if media ≠ 0xF0 ∧ media < 0xF8 then ["bpb-media"] else []) ++
    -- the FAT must have room for every cluster and the two reserved entries
    (if fatSectors * bps * 8 / kind < cc + 2 then ["fat-too-small"] else [])
  if kind = 32 then
    let rootCluster := leAt bs 44 4
    let fsinfo := leAt bs 48 2
    let bk := leAt bs 50 2
    let p5 := p4 ++ (if leAt bs 42 2 ≠ 0 then ["bpb-fat32-version"] else [])
    if rootCluster < 2 ∨ rootCluster > cc + 1 then p5 ++ ["bpb-root-cluster"] else
    let p6 := p5 ++
      (if bk = 0 ∨ bk ≥ reserved then ["backup-boot"]
       else if rd img (bk * bps) bps ≠ rd img 0 bps then ["backup-boot"] else [])
    if fsinfo = 0 ∨ fsinfo ≥ reserved then p6 ++ ["fsinfo"]
    else
      p6 ++ fsinfoProblems img bps fsinfo cc ++
        (if bk + fsinfo ≥ reserved ∨ bk = 0 then [] else fsinfoProblems img bps (bk + fsinfo) cc)
  else if rootEntries = 0 then p4 ++ ["bpb-root-entries"]
  else p4

/-- the boot region of the volume is sound -/
def bootSound (img : Bytes) (size wantKind wantBps : Nat) : Bool := (bootProblems img size wantKind wantBps).isEmpty

end Diskfs.Spec.FatBoot
