/-
  C01 specification: a filesystem is a plain tree of named byte strings.
  `Tree` is a list of (name, node); a node is a file (its bytes) or a directory (a tree).
  Names are compared with `eqn` (the FAT engine instantiates it with ASCII case folding).
  `step` gives every operation its meaning; an operation that is refused returns the tree
  unchanged.  This file is what "the property" means for C01 — it knows nothing of clusters.
  Core Lean only.
-/
import DiskfsModel.Core.Bytes
namespace Diskfs.Spec

/-- write `p` at offset `off` into `c`; a gap between the end of `c` and `off` reads as zeros -/
def splice (c : Bytes) (off : Nat) (p : Bytes) : Bytes :=
  (c ++ zeros (off - c.length)).take off ++ p ++ c.drop (off + p.length)

abbrev Name := List Nat

inductive Node
  | file (content : Bytes)
  | dir (children : List (Name × Node))
deriving Repr

abbrev Tree := List (Name × Node)

inductive Res
  | ok
  | notfound
  | exists_
  | notdir
  | isdir
  | notempty
  | invalid
deriving Repr, DecidableEq

def lookup (eqn : Name → Name → Bool) (t : Tree) (n : Name) : Option Node :=
  (t.find? fun e => eqn e.1 n).map (·.2)

/-- replace the node stored under the (existing) name `n`, keeping the stored spelling -/
def replace (eqn : Name → Name → Bool) (t : Tree) (n : Name) (v : Node) : Tree :=
  t.map fun e => if eqn e.1 n then (e.1, v) else e

def erase (eqn : Name → Name → Bool) (t : Tree) (n : Name) : Tree :=
  t.filter fun e => !(eqn e.1 n)

/-- apply `f` to the directory reached by `path` (every component must be a directory) -/
def atDir (eqn : Name → Name → Bool) (f : Tree → Tree × Res) : List Name → Tree → Tree × Res
  | [], t => f t
  | d :: rest, t =>
    match lookup eqn t d with
    | some (.dir ch) =>
      let (ch', r) := atDir eqn f rest ch
      (if r = .ok then replace eqn t d (.dir ch') else t, r)
    | some (.file _) => (t, .notdir)
    | none => (t, .notfound)

inductive Op
  /-- create one directory `name` in `dir` (the parent must exist) -/
  | mkdir (dir : List Name) (name : Name)
  /-- create an empty file if `name` does not exist (open with O_CREATE) -/
  | create (dir : List Name) (name : Name)
  /-- write `data` at byte offset `off` of an existing file (writing nothing changes nothing) -/
  | writeAt (dir : List Name) (name : Name) (off : Nat) (data : Bytes)
  /-- append `data` -/
  | append (dir : List Name) (name : Name) (data : Bytes)
  /-- truncating open: the file becomes empty -/
  | truncate (dir : List Name) (name : Name)
  /-- rename inside one directory; an existing target is replaced -/
  | rename (dir : List Name) (old new : Name)
  /-- remove a file or an empty directory -/
  | remove (dir : List Name) (name : Name)
deriving Repr

def stepDir (eqn : Name → Name → Bool) : Op → Tree → Tree × Res
  | .mkdir _ n, t =>
    match lookup eqn t n with
    | some (.dir _) => (t, .ok)                      -- Mkdir of an existing directory succeeds (mkdir -p)
    | some (.file _) => (t, .notdir)
    | none => (t ++ [(n, .dir [])], .ok)
  | .create _ n, t =>
    match lookup eqn t n with
    | some _ => (t, .ok)
    | none => (t ++ [(n, .file [])], .ok)
  | .writeAt _ n off data, t =>
    match lookup eqn t n with
    | some (.file c) => (if data.length = 0 then t else replace eqn t n (.file (splice c off data)), .ok)
    | some (.dir _) => (t, .isdir)
    | none => (t, .notfound)
  | .append _ n data, t =>
    match lookup eqn t n with
    | some (.file c) => (replace eqn t n (.file (c ++ data)), .ok)
    | some (.dir _) => (t, .isdir)
    | none => (t, .notfound)
  | .truncate _ n, t =>
    match lookup eqn t n with
    | some (.file _) => (replace eqn t n (.file []), .ok)
    | some (.dir _) => (t, .isdir)
    | none => (t, .notfound)
  | .rename _ o n, t =>
    match lookup eqn t o with
    | none => (t, .notfound)
    | some v =>
      if eqn o n then (t.map fun e => if eqn e.1 o then (n, e.2) else e, .ok)
      else
        match lookup eqn t n with
        | some (.dir _) => (t, .isdir)                 -- a directory is never replaced by a rename
        | _ => ((erase eqn t n).map fun e => if eqn e.1 o then (n, v) else e, .ok)
  | .remove _ n, t =>
    match lookup eqn t n with
    | none => (t, .notfound)
    | some (.dir (_ :: _)) => (t, .notempty)
    | some _ => (erase eqn t n, .ok)

def Op.dir : Op → List Name
  | .mkdir d _ | .create d _ | .writeAt d _ _ _ | .append d _ _ | .truncate d _ | .rename d _ _ | .remove d _ => d

def step (eqn : Name → Name → Bool) (t : Tree) (op : Op) : Tree × Res :=
  atDir eqn (stepDir eqn op) op.dir t

def run (eqn : Name → Name → Bool) (t : Tree) (ops : List Op) : Tree :=
  ops.foldl (fun t op => (step eqn t op).1) t

/-- a refused operation leaves the tree unchanged (by construction; stated for the record) -/
theorem atDir_refused (eqn : Name → Name → Bool) (f : Tree → Tree × Res)
    (hf : ∀ t, (f t).2 ≠ .ok → (f t).1 = t) (p : List Name) (t : Tree) :
    (atDir eqn f p t).2 ≠ .ok → (atDir eqn f p t).1 = t := by
  induction p generalizing t with
  | nil => exact hf t
  | cons d rest ih =>
    intro h
    simp only [atDir] at h ⊢
    split
    · rename_i ch heq
      simp only [heq] at h
      have h' : (atDir eqn f rest ch).2 ≠ .ok := h
      simp [h']
    · rfl
    · rfl

end Diskfs.Spec
