/-
  What "a valid GUID partition table on disk" means for an independent parser.

  Written from the UEFI specification (2.10): §5.2.3 protective MBR, §5.3.2 GPT header
  (table 5-5), §5.3.3 partition entry array — NOT from go-diskfs' encoder or decoder.  It uses
  only the core byte utilities (`readAt`, `slice`, `leDec`, `zeros`).  The CRC function is a
  parameter: the predicate says "the stored CRC equals `crc` of these bytes"; the driver runs
  it with the executable `Diskfs.crc32`, the theorems never evaluate it.

  Everything is decidable (`gptValidB`, `pmbrValidB`): the model driver evaluates the predicate
  on the bytes the real `Table.Write` produced (op `gpt.valid`).

  Not part of the predicate (the property does not state it and the library does not enforce
  it): that used entries lie inside [FirstUsableLBA, LastUsableLBA], do not overlap and carry
  unique GUIDs; the CHS fields of the protective record.
  Core Lean only (linked into the driver).
-/
import DiskfsModel.Core.Bytes
namespace Diskfs.GptSpec

/-- unsigned little-endian field `s[off .. off+len)` -/
def fld (s : Bytes) (off len : Nat) : Nat := leDec (slice s off (off + len))

/-- "EFI PART" -/
def signature : Bytes := [0x45, 0x46, 0x49, 0x20, 0x50, 0x41, 0x52, 0x54]

/-- the fields of table 5-5 at their byte offsets -/
structure RawHdr where
  revision : Nat        -- 8
  headerSize : Nat      -- 12
  headerCrc : Nat       -- 16
  reserved : Nat        -- 20
  myLBA : Nat           -- 24
  alternateLBA : Nat    -- 32
  firstUsable : Nat     -- 40
  lastUsable : Nat      -- 48
  diskGuid : Bytes      -- 56 (as stored)
  entryLBA : Nat        -- 72
  numEntries : Nat      -- 80
  entrySize : Nat       -- 84
  arrayCrc : Nat        -- 88
deriving Repr, DecidableEq

def rawHdr (s : Bytes) : RawHdr :=
  { revision := fld s 8 4, headerSize := fld s 12 4, headerCrc := fld s 16 4, reserved := fld s 20 4,
    myLBA := fld s 24 8, alternateLBA := fld s 32 8, firstUsable := fld s 40 8, lastUsable := fld s 48 8,
    diskGuid := slice s 56 72, entryLBA := fld s 72 8, numEntries := fld s 80 4, entrySize := fld s 84 4,
    arrayCrc := fld s 88 4 }

/-- the bytes the header CRC32 covers: the first `HeaderSize` bytes with the CRC field (16..19) taken as zero -/
def crcInput (s : Bytes) (hs : Nat) : Bytes := slice s 0 16 ++ zeros 4 ++ slice s 20 hs

def allZeroB (b : Bytes) : Bool := b.all (· == 0)

/-- §5.3.2: sector `s` (one logical block) is a valid GPT header located at LBA `my` whose other copy
    is at LBA `alt`: signature, revision 1.0, 92 ≤ HeaderSize ≤ block size, HeaderCRC32 over HeaderSize
    bytes with the CRC field zeroed, reserved zero, MyLBA / AlternateLBA, rest of the block zero -/
def HdrValid (crc : Bytes → Nat) (s : Bytes) (lss my alt : Nat) : Prop :=
  slice s 0 8 = signature ∧ (rawHdr s).revision = 0x00010000 ∧
  92 ≤ (rawHdr s).headerSize ∧ (rawHdr s).headerSize ≤ lss ∧
  (rawHdr s).headerCrc = crc (crcInput s (rawHdr s).headerSize) ∧
  (rawHdr s).reserved = 0 ∧ (rawHdr s).myLBA = my ∧ (rawHdr s).alternateLBA = alt ∧
  allZeroB (slice s (rawHdr s).headerSize lss) = true

instance (crc : Bytes → Nat) (s : Bytes) (lss my alt : Nat) : Decidable (HdrValid crc s lss my alt) := by
  unfold HdrValid; infer_instance

/-- LBA of the last logical block of a device of `size` bytes -/
def lastLBA (size lss : Nat) : Nat := size / lss - 1

def priSector (d : Dev) (lss : Nat) : Bytes := readAt d lss lss
def bakSector (d : Dev) (size lss : Nat) : Bytes := readAt d (lastLBA size lss * lss) lss

/-- logical blocks the entry array occupies -/
def arrayBlocks (h : RawHdr) (lss : Nat) : Nat := (h.numEntries * h.entrySize + lss - 1) / lss

/-- SizeOfPartitionEntry is 128 · 2ⁿ -/
def entrySizes : List Nat := (List.range 25).map fun n => 128 * 2 ^ n

/-- the backup header mirrors the primary: everything but MyLBA / AlternateLBA / PartitionEntryLBA
    (and hence the header CRC) is equal -/
def Mirrors (p b : RawHdr) : Prop :=
  p.revision = b.revision ∧ p.headerSize = b.headerSize ∧ p.firstUsable = b.firstUsable ∧
  p.lastUsable = b.lastUsable ∧ p.diskGuid = b.diskGuid ∧ p.numEntries = b.numEntries ∧
  p.entrySize = b.entrySize ∧ p.arrayCrc = b.arrayCrc

instance (p b : RawHdr) : Decidable (Mirrors p b) := by unfold Mirrors; infer_instance

/-- §5.3: both copies of the GPT are valid and consistent on a device of `size` bytes with
    `lss`-byte logical blocks:
    * a valid primary header at LBA 1 naming the last LBA as its alternate, a valid backup header at
      the last LBA naming LBA 1, the backup mirroring the primary;
    * layout  LBA0 | header | primary array | usable … | backup array | header  without overlap:
      the primary array starts at or after LBA 2 and ends at or before FirstUsableLBA, at least
      16 384 bytes are reserved for it, FirstUsableLBA ≤ LastUsableLBA + 1, the backup array starts
      after LastUsableLBA and ends at or before the backup header;
    * both stored array CRC32s equal the CRC of NumberOfPartitionEntries · SizeOfPartitionEntry bytes
      at the respective PartitionEntryLBA. -/
def GptValid (crc : Bytes → Nat) (d : Dev) (size lss : Nat) : Prop :=
  3 ≤ size / lss ∧
  HdrValid crc (priSector d lss) lss 1 (lastLBA size lss) ∧
  HdrValid crc (bakSector d size lss) lss (lastLBA size lss) 1 ∧
  Mirrors (rawHdr (priSector d lss)) (rawHdr (bakSector d size lss)) ∧
  (rawHdr (priSector d lss)).entrySize ∈ entrySizes ∧
  2 ≤ (rawHdr (priSector d lss)).entryLBA ∧
  (rawHdr (priSector d lss)).entryLBA + arrayBlocks (rawHdr (priSector d lss)) lss ≤ (rawHdr (priSector d lss)).firstUsable ∧
  (rawHdr (priSector d lss)).entryLBA * lss + 16384 ≤ (rawHdr (priSector d lss)).firstUsable * lss ∧
  (rawHdr (priSector d lss)).firstUsable ≤ (rawHdr (priSector d lss)).lastUsable + 1 ∧
  (rawHdr (priSector d lss)).lastUsable < (rawHdr (bakSector d size lss)).entryLBA ∧
  (rawHdr (bakSector d size lss)).entryLBA + arrayBlocks (rawHdr (priSector d lss)) lss ≤ lastLBA size lss ∧
  crc (readAt d ((rawHdr (priSector d lss)).entryLBA * lss)
        ((rawHdr (priSector d lss)).numEntries * (rawHdr (priSector d lss)).entrySize))
      = (rawHdr (priSector d lss)).arrayCrc ∧
  crc (readAt d ((rawHdr (bakSector d size lss)).entryLBA * lss)
        ((rawHdr (bakSector d size lss)).numEntries * (rawHdr (bakSector d size lss)).entrySize))
      = (rawHdr (bakSector d size lss)).arrayCrc

instance (crc : Bytes → Nat) (d : Dev) (size lss : Nat) : Decidable (GptValid crc d size lss) := by
  unfold GptValid; infer_instance

/-- §5.2.3: LBA 0 is a protective MBR covering the disk: signature 55 AA at bytes 510/511; record 0 (byte
    446) not bootable, OSType 0xEE, StartingLBA 1, SizeInLBA = min(blocks − 1, 0xFFFFFFFF); records 1–3 zero -/
def PmbrValid (d : Dev) (size lss : Nat) : Prop :=
  d 510 = 0x55 ∧ d 511 = 0xAA ∧ d 446 = 0x00 ∧ d 450 = 0xEE ∧
  fld (readAt d 0 512) 454 4 = 1 ∧
  fld (readAt d 0 512) 458 4 = min (size / lss - 1) 0xFFFFFFFF ∧
  allZeroB (slice (readAt d 0 512) 462 510) = true

instance (d : Dev) (size lss : Nat) : Decidable (PmbrValid d size lss) := by
  unfold PmbrValid; infer_instance

def gptValidB (crc : Bytes → Nat) (d : Dev) (size lss : Nat) : Bool := decide (GptValid crc d size lss)
def pmbrValidB (d : Dev) (size lss : Nat) : Bool := decide (PmbrValid d size lss)

/-- the used entries an independent parser sees (index, raw 128-byte-or-longer record), for the driver's report -/
def usedEntries (d : Dev) (lss : Nat) : List (Nat × Bytes) :=
  let h := rawHdr (priSector d lss)
  (List.range h.numEntries).filterMap fun i =>
    let e := readAt d (h.entryLBA * lss + i * h.entrySize) h.entrySize
    if allZeroB (slice e 0 16) then none else some (i + 1, e)

end Diskfs.GptSpec
