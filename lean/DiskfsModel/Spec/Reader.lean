/-
  Specification of a read-only file handle: `io.Reader` / `io.Seeker` with the
  semantics of `bytes.Reader` over a known content, plus `Close`.
  This is what property C10 means; it knows nothing about clusters, extents or blocks.
-/
import DiskfsModel.Core.Bytes
namespace Diskfs.Spec

/-- What `Read` with an `n`-byte buffer at cursor `off` of a file `content` may deliver:
    * exactly the bytes at the cursor: `min n (remaining)` of them (full reads, never more than remain);
    * `io.EOF` not earlier than the end is reached (with the last bytes or on a later call — both allowed);
    * `io.EOF` not never: with nothing left and a non-empty buffer the call must report it. -/
def ReadOK (content : Bytes) (off n : Nat) (data : Bytes) (eof : Bool) : Prop :=
  data = (content.drop off).take n ∧
  (eof = true → content.length ≤ off + data.length) ∧
  (0 < n → content.length ≤ off → eof = true)

inductive Whence | start | current | end_
deriving Repr, DecidableEq

/-- `io.Seeker`: the position a seek asks for -/
def seekTarget (size pos : Nat) (w : Whence) (o : Int) : Int :=
  match w with
  | .start => o
  | .current => (pos : Int) + o
  | .end_ => (size : Int) + o

/-- `ret = some p` is `(p, nil)`, `ret = none` is an error; `pos'` is the cursor afterwards.
    A target before the start is an error and leaves the cursor alone; any other target
    (also past the end) is where the cursor goes and what is returned. -/
def SeekOK (size pos : Nat) (w : Whence) (o : Int) (ret : Option Nat) (pos' : Nat) : Prop :=
  if seekTarget size pos w o < 0 then ret = none ∧ pos' = pos
  else ret = some (seekTarget size pos w o).toNat ∧ pos' = (seekTarget size pos w o).toNat

/-- calls on a handle -/
inductive HOp
  | read (n : Nat)
  | seek (w : Whence) (o : Int)
  | close
deriving Repr

/-- what a call answered -/
inductive HOut
  | data (d : Bytes) (eof : Bool)     -- Read: (len d, nil | io.EOF) and the bytes
  | pos (ret : Option Nat)            -- Seek: (p, nil) | error
  | failed                            -- an error and no data (closed handle)
  | done                              -- Close
  | crashed                           -- a panic: never acceptable
deriving Repr

structure HState where
  pos : Nat
  closed : Bool
deriving Repr, DecidableEq

/-- one call is acceptable: from spec state `s` the answer `out` is allowed and leads to `s'` -/
def StepOK (content : Bytes) (s : HState) (op : HOp) (out : HOut) (s' : HState) : Prop :=
  match s.closed, op with
  | false, .read n =>
      ∃ d eof, out = .data d eof ∧ ReadOK content s.pos n d eof ∧ s' = ⟨s.pos + d.length, false⟩
  | false, .seek w o =>
      ∃ ret p', out = .pos ret ∧ SeekOK content.length s.pos w o ret p' ∧ s' = ⟨p', false⟩
  | false, .close => out = .done ∧ s' = ⟨s.pos, true⟩
  | true, .read _ => out = .failed ∧ s' = s          -- reads after Close fail instead of returning data
  | true, .seek _ _ => out = .failed ∧ s' = s
  | true, .close => out = .done ∧ s' = s

/-- a whole history of calls and answers is acceptable from state `s` -/
def HistoryOK (content : Bytes) : HState → List (HOp × HOut) → Prop
  | _, [] => True
  | s, (op, out) :: rest => ∃ s', StepOK content s op out s' ∧ HistoryOK content s' rest

end Diskfs.Spec
