/-
  Core byte-level definitions shared by every model: little/big endian field
  codecs over `List UInt8`, slices with Go's panic behaviour, devices as read
  oracles and write lists.  Core Lean only (the driver links against this).
-/
namespace Diskfs

abbrev Bytes := List UInt8

/-- `k` bytes, little endian, of `n` (truncating like Go's `PutUintN(uintN(n))`). -/
def leEnc : Nat → Nat → Bytes
  | 0, _ => []
  | k+1, n => UInt8.ofNat (n % 256) :: leEnc k (n / 256)

def leDec : Bytes → Nat
  | [] => 0
  | b :: bs => b.toNat + 256 * leDec bs

/-- big endian -/
def beEnc (k n : Nat) : Bytes := (leEnc k n).reverse
def beDec (b : Bytes) : Nat := leDec b.reverse

@[simp] theorem leEnc_length (k n : Nat) : (leEnc k n).length = k := by
  induction k generalizing n with
  | zero => rfl
  | succ k ih => simp [leEnc, ih]

@[simp] theorem beEnc_length (k n : Nat) : (beEnc k n).length = k := by
  simp [beEnc]

theorem leDec_lt (b : Bytes) : leDec b < 256 ^ b.length := by
  induction b with
  | nil => simp [leDec]
  | cons x xs ih =>
    simp only [leDec, List.length_cons, Nat.pow_succ]
    have := x.toNat_lt
    omega

theorem leDec_leEnc (k n : Nat) : leDec (leEnc k n) = n % 256 ^ k := by
  induction k generalizing n with
  | zero => simp [leEnc, leDec, Nat.mod_one]
  | succ k ih =>
    simp only [leEnc, leDec, ih, Nat.pow_succ]
    have h1 : (UInt8.ofNat (n % 256)).toNat = n % 256 := by
      simp [UInt8.toNat_ofNat']
    rw [h1]
    have h2 : n % (256 ^ k * 256) = n % 256 + 256 * (n / 256 % 256 ^ k) := by
      rw [Nat.mul_comm, Nat.mod_mul]
    omega

theorem leDec_leEnc_of_lt (k n : Nat) (h : n < 256 ^ k) : leDec (leEnc k n) = n := by
  rw [leDec_leEnc, Nat.mod_eq_of_lt h]

theorem beDec_beEnc_of_lt (k n : Nat) (h : n < 256 ^ k) : beDec (beEnc k n) = n := by
  simp [beDec, beEnc, leDec_leEnc_of_lt k n h]

theorem leEnc_leDec (b : Bytes) : leEnc b.length (leDec b) = b := by
  induction b with
  | nil => rfl
  | cons x xs ih =>
    simp only [List.length_cons, leEnc, leDec]
    have hx := x.toNat_lt
    have h1 : (x.toNat + 256 * leDec xs) % 256 = x.toNat := by omega
    have h2 : (x.toNat + 256 * leDec xs) / 256 = leDec xs := by omega
    rw [h1, h2, ih]
    simp

/-- Go slice expression `b[lo:hi]`: `none` exactly when Go would panic
    (for a slice whose capacity equals its length). -/
def slice? (b : Bytes) (lo hi : Nat) : Option Bytes :=
  if lo ≤ hi ∧ hi ≤ b.length then some ((b.drop lo).take (hi - lo)) else none

/-- total slice (callers have established the bounds) -/
def slice (b : Bytes) (lo hi : Nat) : Bytes := (b.drop lo).take (hi - lo)

theorem slice_length (b : Bytes) (lo hi : Nat) (h1 : lo ≤ hi) (h2 : hi ≤ b.length) :
    (slice b lo hi).length = hi - lo := by
  simp [slice]; omega

def zeros (n : Nat) : Bytes := List.replicate n 0

@[simp] theorem zeros_length (n : Nat) : (zeros n).length = n := by simp [zeros]

/-- overwrite `b[off .. off+|d|)` with `d` (Go `copy(b[off:], d)`, truncating at the end of `b`). -/
def put (b : Bytes) (off : Nat) (d : Bytes) : Bytes :=
  b.take off ++ (d.take (b.length - off)) ++ b.drop (off + d.length)

theorem put_length (b : Bytes) (off : Nat) (d : Bytes) (h : off + d.length ≤ b.length) :
    (put b off d).length = b.length := by
  simp [put]; omega

/-! ### devices -/

/-- a device is a read oracle -/
abbrev Dev := Nat → UInt8

structure Wr where
  off : Nat
  data : Bytes
deriving Repr, DecidableEq

def applyWr (d : Dev) (w : Wr) : Dev := fun i =>
  if w.off ≤ i ∧ i < w.off + w.data.length then w.data.getD (i - w.off) 0 else d i

def applyWrs (d : Dev) (ws : List Wr) : Dev := ws.foldl applyWr d

def readAt (d : Dev) (off len : Nat) : Bytes := (List.range len).map (fun i => d (off + i))

@[simp] theorem readAt_length (d : Dev) (off len : Nat) : (readAt d off len).length = len := by
  simp [readAt]

/-- frame: a write does not change bytes outside its own range -/
theorem applyWr_frame (d : Dev) (w : Wr) (i : Nat) (h : i < w.off ∨ w.off + w.data.length ≤ i) :
    applyWr d w i = d i := by
  unfold applyWr
  split
  · omega
  · rfl

theorem applyWrs_frame (d : Dev) (ws : List Wr) (i : Nat)
    (h : ∀ w ∈ ws, i < w.off ∨ w.off + w.data.length ≤ i) : applyWrs d ws i = d i := by
  induction ws generalizing d with
  | nil => rfl
  | cons w ws ih =>
    simp only [applyWrs, List.foldl_cons]
    have := ih (applyWr d w) (fun w' hw' => h w' (List.mem_cons_of_mem _ hw'))
    simp only [applyWrs] at this
    rw [this]
    exact applyWr_frame d w i (h w (List.mem_cons_self ..))

theorem applyWr_hit (d : Dev) (w : Wr) (i : Nat) (h1 : w.off ≤ i) (h2 : i < w.off + w.data.length) :
    applyWr d w i = w.data.getD (i - w.off) 0 := by
  unfold applyWr
  simp [h1, h2]

/-- reading back exactly the range just written yields the data -/
theorem readAt_applyWr_same (d : Dev) (w : Wr) :
    readAt (applyWr d w) w.off w.data.length = w.data := by
  apply List.ext_getElem
  · simp
  · intro i h1 h2
    simp only [readAt, List.getElem_map, List.getElem_range]
    rw [applyWr_hit]
    · simp only [Nat.add_sub_cancel_left]
      simp at h1
      simp [List.getD_eq_getElem?_getD, h2]
    · omega
    · simp at h1; omega

/-- reading a range disjoint from a write is unaffected by it -/
theorem readAt_applyWr_disjoint (d : Dev) (w : Wr) (off len : Nat)
    (h : off + len ≤ w.off ∨ w.off + w.data.length ≤ off) :
    readAt (applyWr d w) off len = readAt d off len := by
  apply List.ext_getElem
  · simp
  · intro i h1 _
    simp only [readAt, List.getElem_map, List.getElem_range]
    apply applyWr_frame
    simp at h1
    omega

/-! ### hex, for the line protocol -/

def hexDigit (n : Nat) : Char :=
  if n < 10 then Char.ofNat (48 + n) else Char.ofNat (87 + n)

def toHex (b : Bytes) : String :=
  String.ofList (b.flatMap fun x => [hexDigit (x.toNat / 16), hexDigit (x.toNat % 16)])

def hexVal (c : Char) : Option Nat :=
  if '0' ≤ c ∧ c ≤ '9' then some (c.toNat - 48)
  else if 'a' ≤ c ∧ c ≤ 'f' then some (c.toNat - 87)
  else if 'A' ≤ c ∧ c ≤ 'F' then some (c.toNat - 55)
  else none

def fromHexAux : List Char → Bytes → Option Bytes
  | [], acc => some acc.reverse
  | [_], _ => none
  | a :: b :: rest, acc =>
    match hexVal a, hexVal b with
    | some x, some y => fromHexAux rest (UInt8.ofNat (x * 16 + y) :: acc)
    | _, _ => none

def fromHex (s : String) : Option Bytes :=
  if s == "-" then some [] else fromHexAux s.toList []

end Diskfs
