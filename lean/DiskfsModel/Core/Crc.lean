/-
  CRC32 (IEEE, reflected, as Go's hash/crc32.ChecksumIEEE) — executable, table driven.
  Theorems never ask the kernel to evaluate it: they take `crc` as a parameter.
  The correspondence run cross-checks this definition against hash/crc32.
-/
import DiskfsModel.Core.Bytes
namespace Diskfs

def crcStep (c : UInt32) : UInt32 :=
  if c &&& 1 == 1 then (c >>> 1) ^^^ 0xEDB88320 else c >>> 1

def crcTableEntry (i : Nat) : UInt32 :=
  crcStep (crcStep (crcStep (crcStep (crcStep (crcStep (crcStep (crcStep (UInt32.ofNat i))))))))

def crcTable : Array UInt32 := Array.ofFn (n := 256) fun i => crcTableEntry i.val

def crc32Update (c : UInt32) (b : Bytes) : UInt32 :=
  b.foldl (fun c x => crcTable[((c ^^^ x.toUInt32) &&& 0xFF).toNat]! ^^^ (c >>> 8)) c

def crc32 (b : Bytes) : Nat := ((crc32Update 0xFFFFFFFF b) ^^^ 0xFFFFFFFF).toNat

end Diskfs
