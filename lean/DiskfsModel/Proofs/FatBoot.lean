/-
  Round trips of the boot sector / FSInfo codecs of Model/Fat/Boot.lean.
    decF_encF            decoding the shapes of a field list from its encoding gives the list back
    boot16_roundtrip     Boot16.parse (Boot16.bytes s) = some s
    boot32_roundtrip     Boot32.parse (Boot32.bytes s sectorSize) = some s     (any sector size)
    fsinfo_roundtrip     FsInfo.parse (FsInfo.bytes s sectorSize) = some s
  Core Lean only.
-/
import DiskfsModel.Model.Fat.Boot
namespace Diskfs.Fat

theorem decF_encF (fs : List Fld) (rest : Bytes) (h : ∀ f ∈ fs, f.WF) :
    decF (fs.map Fld.shape) (encF fs ++ rest) = fs := by
  induction fs with
  | nil => rfl
  | cons f r ih =>
    have ihr := ih (fun x hx => h x (List.mem_cons_of_mem _ hx))
    have hf := h f (List.mem_cons_self ..)
    cases f with
    | le w v =>
      simp only [List.map_cons, Fld.shape, encF, Fld.enc, decF, List.append_assoc]
      rw [List.take_left' (leEnc_length w v), List.drop_left' (leEnc_length w v), ihr,
        leDec_leEnc_of_lt w v hf]
    | raw b =>
      simp only [List.map_cons, Fld.shape, encF, Fld.enc, decF, List.append_assoc]
      rw [List.take_left' rfl, List.drop_left' rfl, ihr]

theorem encF_length (fs : List Fld) :
    (encF fs).length = (fs.map fun f => match f.shape with | .le w => w | .raw n => n).sum := by
  induction fs with
  | nil => rfl
  | cons f r ih =>
    cases f <;> simp [encF, Fld.enc, Fld.shape, ih]

/-! ### well-formed records -/

structure Bpb.WF (b : Bpb) : Prop where
  bps : b.bps < 65536
  spc : b.spc < 256
  reserved : b.reserved < 65536
  fatCount : b.fatCount < 256
  rootEntries : b.rootEntries < 65536
  ts16 : b.ts16 < 65536
  media : b.media < 256
  spf16 : b.spf16 < 65536
  spt : b.spt < 65536
  heads : b.heads < 65536
  hidden : b.hidden < 4294967296
  ts32 : b.ts32 < 4294967296

theorem Bpb.fields_wf (b : Bpb) (h : b.WF) : ∀ f ∈ b.fields, f.WF := by
  intro f hf
  simp only [Bpb.fields, List.mem_cons, List.not_mem_nil, or_false] at hf
  obtain ⟨h1, h2, h3, h4, h5, h6, h7, h8, h9, h10, h11, h12⟩ := h
  rcases hf with rfl | rfl | rfl | rfl | rfl | rfl | rfl | rfl | rfl | rfl | rfl | rfl <;>
    (simp only [Fld.WF, Nat.reducePow]; assumption)

theorem Bpb.fields_shape (b : Bpb) : b.fields.map Fld.shape = bpbShape := rfl

theorem Bpb.ofFields_fields (b : Bpb) : Bpb.ofFields b.fields = some b := rfl

structure Boot16.WF (s : Boot16) : Prop where
  jump : s.jump.length = 3
  oem : s.oem.length = 8
  bpb : s.bpb.WF
  drive : s.drive < 256
  flags : s.flags < 256
  extSig : s.extSig < 256
  serial : s.serial < 4294967296
  label : s.label.length = 11
  fstype : s.fstype.length = 8
  code : s.code.length = 448

theorem Boot16.fields_shape (s : Boot16) (h : s.WF) : s.fields.map Fld.shape = boot16Shape := by
  simp only [Boot16.fields, List.map_append, List.map_cons, List.map_nil, Bpb.fields_shape, Fld.shape,
    h.jump, h.oem, h.label, h.fstype, h.code, boot16Shape, List.length_cons, List.length_nil]

theorem Boot16.fields_wf (s : Boot16) (h : s.WF) : ∀ f ∈ s.fields, f.WF := by
  intro f hf
  simp only [Boot16.fields, List.mem_append, List.mem_cons, List.not_mem_nil, or_false] at hf
  rcases hf with (hf | hf) | hf
  · rcases hf with rfl | rfl <;> trivial
  · exact s.bpb.fields_wf h.bpb f hf
  · obtain ⟨_, _, _, h4, h5, h6, h7, _, _, _⟩ := h
    rcases hf with rfl | rfl | rfl | rfl | rfl | rfl | rfl | rfl <;>
      (first | trivial | (simp only [Fld.WF, Nat.reducePow]; assumption))

/-- **boot16_roundtrip**: the FAT12/16 boot sector decodes to the record it was encoded from -/
theorem boot16_roundtrip (s : Boot16) (h : s.WF) : Boot16.parse s.bytes = some s := by
  have hd : decF boot16Shape s.bytes = s.fields := by
    have := decF_encF s.fields [] (s.fields_wf h)
    rwa [List.append_nil, s.fields_shape h] at this
  unfold Boot16.parse
  rw [hd]
  simp only [Boot16.fields, Bpb.fields, List.cons_append, List.nil_append, if_true]
  rfl

theorem boot16_length (s : Boot16) (h : s.WF) : s.bytes.length = 512 := by
  unfold Boot16.bytes
  rw [encF_length]
  simp [Boot16.fields, Bpb.fields, Fld.shape, h.jump, h.oem, h.label, h.fstype, h.code]

structure Boot32.WF (s : Boot32) : Prop where
  jump : s.jump.length = 3
  oem : s.oem.length = 8
  bpb : s.bpb.WF
  spf32 : s.spf32 < 4294967296
  mirror : s.mirror < 65536
  version : s.version < 65536
  rootCluster : s.rootCluster < 4294967296
  fsinfo : s.fsinfo < 65536
  backup : s.backup < 65536
  bootFile : s.bootFile.length = 12
  drive : s.drive < 256
  flags : s.flags < 256
  extSig : s.extSig < 256
  serial : s.serial < 4294967296
  label : s.label.length = 11
  fstype : s.fstype.length = 8
  code : s.code.length = 420

theorem Boot32.fields_shape (s : Boot32) (h : s.WF) : s.fields.map Fld.shape = boot32Shape := by
  simp only [Boot32.fields, List.map_append, List.map_cons, List.map_nil, Bpb.fields_shape, Fld.shape,
    h.jump, h.oem, h.label, h.fstype, h.code, h.bootFile, boot32Shape, List.length_cons, List.length_nil,
    beEnc_length]

theorem Boot32.fields_wf (s : Boot32) (h : s.WF) : ∀ f ∈ s.fields, f.WF := by
  intro f hf
  simp only [Boot32.fields, List.mem_append, List.mem_cons, List.not_mem_nil, or_false] at hf
  rcases hf with (hf | hf) | hf
  · rcases hf with rfl | rfl <;> trivial
  · exact s.bpb.fields_wf h.bpb f hf
  · obtain ⟨_, _, _, h4, h5, h6, h7, h8, h9, _, h11, h12, h13, _, _, _, _⟩ := h
    rcases hf with rfl | rfl | rfl | rfl | rfl | rfl | rfl | rfl | rfl | rfl | rfl | rfl | rfl | rfl | rfl <;>
      (first | trivial | (simp only [Fld.WF, Nat.reducePow]; assumption))

/-- **boot32_roundtrip**: the FAT32 boot sector (and therefore its backup copy, which is the same
    bytes) decodes to the record it was encoded from, for every sector size; the serial number goes
    through the big-endian field the Go code uses -/
theorem boot32_roundtrip (s : Boot32) (sectorSize : Nat) (h : s.WF) :
    Boot32.parse (s.bytes sectorSize) = some s := by
  have hd : decF boot32Shape (s.bytes sectorSize) = s.fields := by
    have := decF_encF s.fields (zeros (sectorSize - 512)) (s.fields_wf h)
    rwa [s.fields_shape h] at this
  unfold Boot32.parse
  rw [hd]
  simp only [Boot32.fields, Bpb.fields, List.cons_append, List.nil_append, if_true]
  simp only [Bpb.ofFields, Option.map_some, beDec_beEnc_of_lt 4 s.serial h.serial]

theorem boot32_length (s : Boot32) (sectorSize : Nat) (h : s.WF) (hs : 512 ≤ sectorSize) :
    (s.bytes sectorSize).length = sectorSize := by
  unfold Boot32.bytes
  rw [List.length_append, encF_length, zeros_length]
  simp [Boot32.fields, Bpb.fields, Fld.shape, h.jump, h.oem, h.label, h.fstype, h.code, h.bootFile]
  omega

/-- **fsinfo_roundtrip** -/
theorem fsinfo_roundtrip (s : FsInfo) (sectorSize : Nat) (h1 : s.free < 4294967296) (h2 : s.last < 4294967296) :
    FsInfo.parse (s.bytes sectorSize) = some s := by
  have hwf : ∀ f ∈ s.fields, f.WF := by
    intro f hf
    simp only [FsInfo.fields, List.mem_cons, List.not_mem_nil, or_false] at hf
    rcases hf with rfl | rfl | rfl | rfl | rfl | rfl | rfl <;>
      (first | trivial | (simp only [Fld.WF, Nat.reducePow]; assumption))
  have hshape : s.fields.map Fld.shape = fsinfoShape := by
    simp only [FsInfo.fields, List.map_cons, List.map_nil, Fld.shape, beEnc_length, zeros_length, fsinfoShape]
  have hd : decF fsinfoShape (s.bytes sectorSize) = s.fields := by
    have := decF_encF s.fields (zeros (sectorSize - 512)) hwf
    rwa [hshape] at this
  unfold FsInfo.parse
  rw [hd]
  simp only [FsInfo.fields, and_self, if_true]

/-- the record fat32.Create builds from a geometry is well formed, so `boot32_roundtrip` applies to it -/
theorem create_boot32_wf (g : Geom) (serial : Nat) (label : Bytes) (hs : serial < 4294967296)
    (hl : label.length = 11) (hk : g.kind = .f32) (hbps : g.bps < 65536) (hspc : g.spc < 256)
    (hres : g.reserved < 65536) (hts : g.totalSectors < 4294967296) (hfs : g.fatSectors < 4294967296) :
    (boot32OfGeom g serial label).WF := by
  have hb : (bpbOfGeom g 0xF8 1 1).WF := by
    unfold bpbOfGeom
    rw [hk]
    simp only
    exact ⟨hbps, hspc, hres, by simp, by simp, by simp, by simp, by simp, by simp, by simp, by simp, hts⟩
  exact ⟨rfl, rfl, hb, hfs, by show 0 < 65536; omega, by show 0 < 65536; omega, by show 2 < 4294967296; omega,
    by show 1 < 65536; omega, by show 6 < 65536; omega, by show (zeros 12).length = 12; simp,
    by show 128 < 256; omega, by show 0 < 256; omega, by show 0x29 < 256; omega, hs, hl, rfl,
    by show (zeros 420).length = 420; simp⟩

end Diskfs.Fat
