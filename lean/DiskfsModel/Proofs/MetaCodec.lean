/-
  Helper lemmas for Props/C19.lean (attribute codecs).
-/
import DiskfsModel.Model.MetaCodec
import DiskfsModel.Model.Ext4.InodeCodec
namespace Diskfs.Ext4.InodeCodec

theorem ts_roundtrip_aux (t : Ts) (h : TsWF t) : tsDec (tsLo t) (tsExtra t) = t := by
  obtain ⟨s, n⟩ := t
  obtain ⟨h1, h2, h3⟩ := h
  simp only at h1 h2 h3
  simp only [tsDec, tsLo, tsExtra, lowSigned, Ts.mk.injEq]
  constructor <;> omega

theorem inode_roundtrip_aux (a : Attrs) (h : AttrsWF a) : dec (enc a) = a := by
  obtain ⟨h1, h2, h3, h4, h5, h6, h7, h8, h9, h10, h11⟩ := h
  obtain ⟨ft, pm, uid, gid, sz, ln, fl, at', ct, mt, cr⟩ := a
  simp only at h1 h2 h3 h4 h5 h6 h7 h8 h9 h10 h11
  simp only [dec, enc, Attrs.mk.injEq, ts_roundtrip_aux _ h8, ts_roundtrip_aux _ h9,
    ts_roundtrip_aux _ h10, ts_roundtrip_aux _ h11, and_true]
  refine ⟨?_, ?_, ?_, ?_, ?_, ?_, ?_⟩ <;> omega

end Diskfs.Ext4.InodeCodec
namespace Diskfs.Meta

theorem unix_lt (m : GoMode) (h : m.perm < 512) : m.unix < 4096 := by
  obtain ⟨p, a, b, c⟩ := m
  simp only at h
  cases a <;> cases b <;> cases c <;> simp [GoMode.unix, b2n] <;> omega

theorem goModeOfUnix_unix (m : GoMode) (h : m.perm < 512) : goModeOfUnix m.unix = m := by
  obtain ⟨p, a, b, c⟩ := m
  simp only at h
  cases a <;> cases b <;> cases c <;>
    simp [GoMode.unix, goModeOfUnix, b2n, bit] <;> omega

theorem pxKind_code (k : PxKind) : pxKindOfCode (pxKindCode k) = some k := by cases k <;> rfl
theorem pxKindCode_lt (k : PxKind) : pxKindCode k < 16 := by cases k <;> decide

theorem findId_get : ∀ (tbl : List Nat) (id i : Nat), findId tbl id = some i → tbl[i]? = some id := by
  intro tbl
  induction tbl with
  | nil => intro id i h; simp [findId] at h
  | cons x xs ih =>
    intro id i h
    simp only [findId] at h
    split at h
    · rename_i hx; simp at h; subst h; simp [hx]
    · cases hf : findId xs id with
      | none => rw [hf] at h; simp at h
      | some j => rw [hf] at h; simp at h; subst h; simpa using ih id j hf

/-! ### NM records -/

theorem nmChunks_concat : ∀ (f : Nat) (name : Bytes), name.length < f →
    ((nmChunks f name).map Prod.snd).flatten = name := by
  intro f
  induction f with
  | zero => intro name h; omega
  | succ f ih =>
    intro name h
    simp only [nmChunks]
    split
    · rename_i he; simp [List.isEmpty_iff.1 he]
    · split
      · rename_i hl
        simp only [List.map_cons, List.flatten_cons]
        rw [ih (name.drop nmMax) (by simp [nmMax] at *; omega)]
        exact List.take_append_drop _ _
      · simp

theorem nmChunks_len : ∀ (f : Nat) (name : Bytes), ∀ c ∈ nmChunks f name, c.2.length ≤ nmMax := by
  intro f
  induction f with
  | zero => intro name c hc; simp [nmChunks] at hc
  | succ f ih =>
    intro name c hc
    simp only [nmChunks] at hc
    split at hc
    · simp at hc
    · split at hc
      · rcases List.mem_cons.1 hc with h | h
        · subst h; simp [nmMax]; omega
        · exact ih _ c h
      · rename_i hl
        simp at hc; subst hc; simp; omega

theorem nmDec_record (f : Nat) (c : Bool × Bytes) (rest : Bytes) (h : c.2.length ≤ nmMax) :
    nmDec (f + 1) (nmRecord c ++ rest) = c.2 ++ nmDec f rest := by
  obtain ⟨fl, nm⟩ := c
  have h : nm.length ≤ 249 := h
  have hn : (UInt8.ofNat (5 + nm.length)).toNat = 5 + nm.length := by
    simp [UInt8.toNat_ofNat']; omega
  have hb : nmRecord (fl, nm) ++ rest = [78, 77, UInt8.ofNat (5 + nm.length), 1, if fl then 1 else 0] ++ nm ++ rest := by
    simp [nmRecord]
  have hlen : (nmRecord (fl, nm) ++ rest).length = 5 + nm.length + rest.length := by
    simp [nmRecord]; omega
  have hg : (nmRecord (fl, nm) ++ rest).getD 2 0 = UInt8.ofNat (5 + nm.length) := by
    simp [nmRecord]
  simp only [nmDec]
  rw [if_neg (by omega), hg, hn, if_neg (by omega)]
  congr 1
  · rw [hb]
    simp [slice]
  · rw [hb, List.drop_left' (by simp; omega)]

theorem nmDec_records : ∀ (cs : List (Bool × Bytes)) (f : Nat), cs.length < f →
    (∀ c ∈ cs, c.2.length ≤ nmMax) →
    nmDec f ((cs.map nmRecord).flatten) = (cs.map Prod.snd).flatten := by
  intro cs
  induction cs with
  | nil =>
    intro f hf _
    cases f with
    | zero => omega
    | succ f => simp [nmDec]
  | cons c rest ih =>
    intro f hf hc
    cases f with
    | zero => omega
    | succ f =>
      simp only [List.map_cons, List.flatten_cons]
      rw [nmDec_record f c _ (hc c (List.mem_cons_self ..))]
      rw [ih f (by simp at hf; omega) (fun x hx => hc x (List.mem_cons_of_mem _ hx))]

theorem nmEnc_records_le (cs : List (Bool × Bytes)) : cs.length ≤ ((cs.map nmRecord).flatten).length := by
  induction cs with
  | nil => simp
  | cons c rest ih => simp [nmRecord] at *; omega


end Diskfs.Meta
