/-
  Helper lemmas for C14 (Props/C14.lean).
-/
import DiskfsModel.Model.Repro
set_option linter.unusedSimpArgs false
namespace Diskfs.Repro

/-- writing back what was read changes nothing -/
theorem applyWr_self (d : Dev) (off n : Nat) (i : Nat) : applyWr d ⟨off, readAt d off n⟩ i = d i := by
  unfold applyWr
  split
  · rename_i h
    simp only [readAt_length] at h
    have h2 : i - off < n := by omega
    simp only [readAt, List.getD_eq_getElem?_getD, List.getElem?_map, List.getElem?_range h2, Option.map_some,
      Option.getD_some]
    congr 1
    omega
  · rfl

theorem readAt16 (d : Dev) (o : Nat) : readAt d o 16 =
    [d o, d (o+1), d (o+2), d (o+3), d (o+4), d (o+5), d (o+6), d (o+7), d (o+8), d (o+9), d (o+10), d (o+11),
     d (o+12), d (o+13), d (o+14), d (o+15)] := by
  simp [readAt, List.range, List.range.loop]

theorem le4_roundtrip (a b c e : UInt8) : leEnc 4 (leDec [a, b, c, e]) = [a, b, c, e] :=
  leEnc_leDec [a, b, c, e]

/-- partitionFromBytes then toBytes gives the 16 bytes back -/
theorem MbrPart.roundtrip (b : Bytes) (p : MbrPart) (h : MbrPart.fromBytes b = some p) : p.toBytes = b := by
  match b, h with
  | [b0, b1, b2, b3, b4, b5, b6, b7, s0, s1, s2, s3, z0, z1, z2, z3], h =>
    simp only [MbrPart.fromBytes] at h
    split at h
    · rename_i h0
      cases h
      simp [MbrPart.toBytes, le4_roundtrip, h0]
    · split at h
      · rename_i h0
        cases h
        simp [MbrPart.toBytes, le4_roundtrip, h0]
      · cases h

theorem readAt_split (d : Dev) (o a b : Nat) : readAt d o (a + b) = readAt d o a ++ readAt d (o + a) b := by
  apply List.ext_getElem
  · simp
  · intro i h1 h2
    simp only [readAt, List.getElem_map, List.getElem_range, List.getElem_append, List.length_map, List.length_range]
    split
    · rfl
    · congr 1; omega

/-- volume content after a shifted write list = content after the unshifted list on the shifted prior device -/
theorem applyWrs_shift (d : Dev) (s : Nat) (ws : List Wr) (i : Nat) :
    applyWrs d (Detect.shift s ws) (s + i) = applyWrs (fun j => d (s + j)) ws i := by
  induction ws generalizing d with
  | nil => rfl
  | cons w ws ih =>
    simp only [Detect.shift, List.map_cons, applyWrs, List.foldl_cons]
    have := ih (applyWr d ⟨s + w.off, w.data⟩)
    simp only [Detect.shift, applyWrs] at this
    rw [this]
    have hfun : (fun j => applyWr d ⟨s + w.off, w.data⟩ (s + j)) = applyWr (fun j => d (s + j)) w := by
      funext j
      unfold applyWr
      simp only
      by_cases h : w.off ≤ j ∧ j < w.off + w.data.length
      · have h' : s + w.off ≤ s + j ∧ s + j < s + w.off + w.data.length := by omega
        simp only [h, h', and_self, if_true]
        congr 1
        omega
      · have h' : ¬ (s + w.off ≤ s + j ∧ s + j < s + w.off + w.data.length) := by omega
        simp only [h, h', if_false]
    rw [hfun]

/-! ### the whole Create image -/

def Covered (ws : List Wr) (i : Nat) : Prop := ∃ w ∈ ws, w.off ≤ i ∧ i < w.off + w.data.length

/-- a byte some write of the list covers does not depend on what the device held before -/
theorem applyWrs_covered (ws : List Wr) (i : Nat) : ∀ (d1 d2 : Dev), (d1 i = d2 i ∨ Covered ws i) →
    applyWrs d1 ws i = applyWrs d2 ws i := by
  induction ws with
  | nil =>
    intro d1 d2 h
    rcases h with h | ⟨w, hw, _⟩
    · exact h
    · cases hw
  | cons w ws ih =>
    intro d1 d2 h
    simp only [applyWrs, List.foldl_cons]
    apply ih
    by_cases hc : w.off ≤ i ∧ i < w.off + w.data.length
    · left; unfold applyWr; simp only [hc, and_self, if_true]
    · rcases h with h | ⟨w', hw', hcov⟩
      · left; unfold applyWr; simp only [hc, if_false]; exact h
      · rcases List.mem_cons.1 hw' with rfl | hm
        · exact absurd hcov hc
        · right; exact ⟨w', hm, hcov⟩

/-- ANY write list applied twice leaves the device as after the first time: each covered byte is fixed by the last
    write that covers it, each other byte is untouched -/
theorem applyWrs_twice (d : Dev) (ws : List Wr) : applyWrs (applyWrs d ws) ws = applyWrs d ws := by
  funext i
  by_cases hc : Covered ws i
  · exact applyWrs_covered ws i _ _ (Or.inr hc)
  · apply applyWrs_frame
    intro w hw
    have : ¬ (w.off ≤ i ∧ i < w.off + w.data.length) := fun h => hc ⟨w, hw, h.1, h.2⟩
    omega

/-- two devices with whatever prior contents agree, after the same write list, on every byte the list covers -/
theorem applyWrs_two_devices (ws : List Wr) (d1 d2 : Dev) (i : Nat) (hc : Covered ws i) :
    applyWrs d1 ws i = applyWrs d2 ws i :=
  applyWrs_covered ws i d1 d2 (Or.inr hc)

/-- two Create runs — different start offsets, different prior device contents — leave the same byte at every
    volume offset Create writes -/
theorem image_two_runs (img : List Wr) (d1 d2 : Dev) (s1 s2 i : Nat) (hc : Covered img i) :
    applyWrs d1 (Detect.shift s1 img) (s1 + i) = applyWrs d2 (Detect.shift s2 img) (s2 + i) := by
  rw [applyWrs_shift, applyWrs_shift]
  exact applyWrs_covered img i _ _ (Or.inr hc)

/-- the label entry of an odd epoch is the one of the even second before it -/
theorem labelEntry_odd (label : List Nat) (e : Nat) (h : timeToDateTime (e + 1) = timeToDateTime e) :
    labelEntry label (e + 1) = labelEntry label e := by
  unfold labelEntry
  rw [h]

theorem createImage_epoch_congr (P : Detect.Params) (k : FatKind) (size : Nat) (label : List Nat) (e1 e2 : Nat)
    (h : labelEntry label e1 = labelEntry label e2) : createImage P k size label e1 = createImage P k size label e2 := by
  unfold createImage
  rw [h]

theorem covered_of (ws : List Wr) (w : Wr) (i : Nat) (hm : w ∈ ws) (h1 : w.off ≤ i) (h2 : i < w.off + w.data.length) :
    Covered ws i := ⟨w, hm, h1, h2⟩

theorem take_pad_length (b : Bytes) (n : Nat) : (b.take n ++ zeros (n - b.length)).length = n := by
  simp only [List.length_append, List.length_take, zeros_length]
  omega

theorem sectorBytes_length (f : Nat → UInt8) (n : Nat) : (Detect.sectorBytes f n).length = n := by
  simp [Detect.sectorBytes]

/-- what the FAT32 image covers: sectors 0, 1, 6, 7 of the reserved area, both FATs, the root cluster -/
theorem createImage32_covers (P : Detect.Params) (size : Nat) (label : List Nat) (epoch : Nat) (img : List Wr)
    (h : createImage P .f32 size label epoch = some img) :
    ∃ L, Detect.layout32 P size 512 = some L ∧
      ∀ i, (i < 2 * L.bps ∨ (6 * L.bps ≤ i ∧ i < 8 * L.bps) ∨
            (32 * L.bps ≤ i ∧ i < 32 * L.bps + 2 * (L.spf * L.bps) + L.spc * L.bps)) → Covered img i := by
  unfold createImage at h
  cases hl : Detect.layout32 P size 512 with
  | none => simp [hl] at h
  | some L =>
    simp only [hl, Option.map_some, Option.some.injEq] at h
    subst h
    refine ⟨L, rfl, ?_⟩
    intro i hi
    have lb := sectorBytes_length
    have lt := take_pad_length
    by_cases c1 : i < L.bps
    · exact covered_of _ ⟨0, Detect.sectorBytes (Detect.bootFat32 L 0 label) L.bps⟩ i (by simp [Detect.createWrs32])
        (Nat.zero_le _) (by simp only [lb]; omega)
    by_cases c2 : i < 2 * L.bps
    · exact covered_of _ ⟨L.bps, Detect.sectorBytes Detect.fsisFat32 L.bps⟩ i (by simp [Detect.createWrs32])
        (by simp only; omega) (by simp only [lb]; omega)
    by_cases c3 : 6 * L.bps ≤ i ∧ i < 7 * L.bps
    · exact covered_of _ ⟨6 * L.bps, Detect.sectorBytes (Detect.bootFat32 L 0 label) L.bps⟩ i (by simp [Detect.createWrs32])
        (by simp only; omega) (by simp only [lb]; omega)
    by_cases c4 : 7 * L.bps ≤ i ∧ i < 8 * L.bps
    · exact covered_of _ ⟨7 * L.bps, Detect.sectorBytes Detect.fsisFat32 L.bps⟩ i (by simp [Detect.createWrs32])
        (by simp only; omega) (by simp only [lb]; omega)
    by_cases c5 : 32 * L.bps ≤ i ∧ i < 32 * L.bps + L.spf * L.bps
    · exact covered_of _ ⟨32 * L.bps, fatInit32.take (L.spf * L.bps) ++ zeros (L.spf * L.bps - fatInit32.length)⟩ i
        (by simp [Detect.createWrs32]) (by simp only; omega) (by simp only [lt]; omega)
    by_cases c6 : 32 * L.bps + L.spf * L.bps ≤ i ∧ i < 32 * L.bps + 2 * (L.spf * L.bps)
    · exact covered_of _ ⟨32 * L.bps + L.spf * L.bps, fatInit32.take (L.spf * L.bps) ++ zeros (L.spf * L.bps - fatInit32.length)⟩ i
        (by simp [Detect.createWrs32]) (by simp only; omega) (by simp only [lt]; omega)
    · exact covered_of _ ⟨32 * L.bps + 2 * (L.spf * L.bps), zeros (L.spc * L.bps)⟩ i
        (by simp [Detect.createWrs32]) (by simp only; omega) (by simp only [zeros_length]; omega)

/-- what the FAT12 / FAT16 image covers: the boot sector, both FATs and the whole fixed root directory -/
theorem createImage1x_covers (P : Detect.Params) (is16 : Bool) (size : Nat) (label : List Nat) (epoch : Nat) (img : List Wr)
    (h : createImage P (if is16 then .f16 else .f12) size label epoch = some img) :
    ∃ L, (if is16 then Detect.layout16 P size else Detect.layout12 P size) = some L ∧
      ∀ i, (i < 512 ∨ (L.reserved * 512 ≤ i ∧ i < L.reserved * 512 + 2 * (L.spf * 512) + L.rootEnts * 32)) → Covered img i := by
  have key : ∀ (L : Detect.Layout) (fat rootDir : Bytes) (i : Nat),
      (i < 512 ∨ (L.reserved * 512 ≤ i ∧ i < L.reserved * 512 + 2 * (L.spf * 512) + L.rootEnts * 32)) →
      Covered (Detect.createWrs1x is16 L 0 label fat rootDir) i := by
    intro L fat rootDir i hi
    have lb := sectorBytes_length
    have lt := take_pad_length
    by_cases c1 : i < 512
    · exact covered_of _ ⟨0, Detect.sectorBytes (Detect.bootFat1x is16 L 0 label) 512⟩ i (by simp [Detect.createWrs1x])
        (Nat.zero_le _) (by simp only [lb]; omega)
    by_cases c2 : L.reserved * 512 ≤ i ∧ i < L.reserved * 512 + L.spf * 512
    · exact covered_of _ ⟨L.reserved * 512, fat.take (L.spf * 512) ++ zeros (L.spf * 512 - fat.length)⟩ i
        (by simp [Detect.createWrs1x]) (by simp only; omega) (by simp only [lt]; omega)
    by_cases c3 : L.reserved * 512 + L.spf * 512 ≤ i ∧ i < L.reserved * 512 + 2 * (L.spf * 512)
    · exact covered_of _ ⟨L.reserved * 512 + L.spf * 512, fat.take (L.spf * 512) ++ zeros (L.spf * 512 - fat.length)⟩ i
        (by simp [Detect.createWrs1x]) (by simp only; omega) (by simp only [lt]; omega)
    · exact covered_of _ ⟨L.reserved * 512 + 2 * (L.spf * 512), zeros (L.rootEnts * 32)⟩ i
        (by simp [Detect.createWrs1x]) (by simp only; omega) (by simp only [zeros_length]; omega)
  unfold createImage at h
  cases is16 with
  | true =>
    simp only [if_true] at h ⊢
    cases hl : Detect.layout16 P size with
    | none => simp [hl] at h
    | some L =>
      simp only [hl, Option.map_some, Option.some.injEq] at h
      subst h
      exact ⟨L, rfl, key L _ _⟩
  | false =>
    simp only [Bool.false_eq_true, if_false] at h ⊢
    cases hl : Detect.layout12 P size with
    | none => simp [hl] at h
    | some L =>
      simp only [hl, Option.map_some, Option.some.injEq] at h
      subst h
      exact ⟨L, rfl, key L _ _⟩

end Diskfs.Repro
