/-
  Helper lemmas for C14 (Props/C14.lean).
-/
import DiskfsModel.Model.Repro
set_option linter.unusedSimpArgs false
namespace Diskfs.Repro

/-- writing back what was read changes nothing -/
theorem applyWr_self (d : Dev) (off n : Nat) (i : Nat) : applyWr d ⟨off, readAt d off n⟩ i = d i := by
  unfold applyWr
  split
  · rename_i h
    simp only [readAt_length] at h
    have h2 : i - off < n := by omega
    simp only [readAt, List.getD_eq_getElem?_getD, List.getElem?_map, List.getElem?_range h2, Option.map_some,
      Option.getD_some]
    congr 1
    omega
  · rfl

theorem readAt16 (d : Dev) (o : Nat) : readAt d o 16 =
    [d o, d (o+1), d (o+2), d (o+3), d (o+4), d (o+5), d (o+6), d (o+7), d (o+8), d (o+9), d (o+10), d (o+11),
     d (o+12), d (o+13), d (o+14), d (o+15)] := by
  simp [readAt, List.range, List.range.loop]

theorem le4_roundtrip (a b c e : UInt8) : leEnc 4 (leDec [a, b, c, e]) = [a, b, c, e] :=
  leEnc_leDec [a, b, c, e]

/-- partitionFromBytes then toBytes gives the 16 bytes back -/
theorem MbrPart.roundtrip (b : Bytes) (p : MbrPart) (h : MbrPart.fromBytes b = some p) : p.toBytes = b := by
  match b, h with
  | [b0, b1, b2, b3, b4, b5, b6, b7, s0, s1, s2, s3, z0, z1, z2, z3], h =>
    simp only [MbrPart.fromBytes] at h
    split at h
    · rename_i h0
      cases h
      simp [MbrPart.toBytes, le4_roundtrip, h0]
    · split at h
      · rename_i h0
        cases h
        simp [MbrPart.toBytes, le4_roundtrip, h0]
      · cases h

theorem readAt_split (d : Dev) (o a b : Nat) : readAt d o (a + b) = readAt d o a ++ readAt d (o + a) b := by
  apply List.ext_getElem
  · simp
  · intro i h1 h2
    simp only [readAt, List.getElem_map, List.getElem_range, List.getElem_append, List.length_map, List.length_range]
    split
    · rfl
    · congr 1; omega

/-- volume content after a shifted write list = content after the unshifted list on the shifted prior device -/
theorem applyWrs_shift (d : Dev) (s : Nat) (ws : List Wr) (i : Nat) :
    applyWrs d (Detect.shift s ws) (s + i) = applyWrs (fun j => d (s + j)) ws i := by
  induction ws generalizing d with
  | nil => rfl
  | cons w ws ih =>
    simp only [Detect.shift, List.map_cons, applyWrs, List.foldl_cons]
    have := ih (applyWr d ⟨s + w.off, w.data⟩)
    simp only [Detect.shift, applyWrs] at this
    rw [this]
    have hfun : (fun j => applyWr d ⟨s + w.off, w.data⟩ (s + j)) = applyWr (fun j => d (s + j)) w := by
      funext j
      unfold applyWr
      simp only
      by_cases h : w.off ≤ j ∧ j < w.off + w.data.length
      · have h' : s + w.off ≤ s + j ∧ s + j < s + w.off + w.data.length := by omega
        simp only [h, h', and_self, if_true]
        congr 1
        omega
      · have h' : ¬ (s + w.off ≤ s + j ∧ s + j < s + w.off + w.data.length) := by omega
        simp only [h, h', if_false]
    rw [hfun]

end Diskfs.Repro
