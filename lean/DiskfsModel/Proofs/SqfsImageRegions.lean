/-
  The byte-level writer model (Model/Sqfs/ImageWr.lean) against the region model of Finalize
  (Model/Sqfs/Regions.lean): same table starts, same bytes_used, and bytes_used = length of the image.
-/
import DiskfsModel.Proofs.SqfsRoundTrip
import DiskfsModel.Proofs.SqfsRegions
namespace Diskfs.Sqfs

theorem metaTable_length (c : Codec) (o : WOpt) (bl : List Bytes) :
    (metaTable c o.noCompData bl).length = (metaLens (storedLens c o bl)).sum := by
  induction bl with
  | nil => rfl
  | cons b r ih =>
    rw [metaTable_cons, List.length_append, ih, encodeMetaBlock_eq, encStored_length]
    simp [metaLens, storedLens]

theorem storedBytes_length (l : List Stored) : (storedBytes l).length = (l.map (·.payload.length)).sum := by
  induction l with
  | nil => rfl
  | cons s r ih => rw [storedBytes_cons, List.length_append, ih]; simp

theorem storedLens_length (c : Codec) (o : WOpt) (bl : List Bytes) : (storedLens c o bl).length = bl.length := by
  simp [storedLens]

theorem bData_length (c : Codec) (o : WOpt) (fl : List FEnt) :
    (bData c o fl).length = ((fl.map fun e => (fileStored c o e).map (·.payload.length)).flatten).sum := by
  unfold bData
  induction fl with
  | nil => rfl
  | cons e r ih =>
    simp only [List.map_cons, List.flatten_cons, List.length_append, List.sum_append, ih, storedBytes_length]

/-- **the writer model's image is the region model's image**: the region mirror of Finalize
    (`finalize`, Regions.lean), run on the sizes of the pieces the byte-level writer model produces,
    computes exactly the table starts and bytes_used that the writer model puts into the superblock,
    and bytes_used is the length of the image -/
theorem image_regions (c : Codec) (o : WOpt) (fl : List FEnt) (fuel : Nat) :
    (finalize (bPieces c o fl fuel)).inodeStart = (bSB c o fl fuel).inodeStart ∧
    (finalize (bPieces c o fl fuel)).dirStart = (bSB c o fl fuel).dirStart ∧
    (finalize (bPieces c o fl fuel)).fragStart = (bSB c o fl fuel).fragStart ∧
    (finalize (bPieces c o fl fuel)).exportStart = (bSB c o fl fuel).exportStart ∧
    (finalize (bPieces c o fl fuel)).idStart = (bSB c o fl fuel).idStart ∧
    (finalize (bPieces c o fl fuel)).bytesUsed = (bSB c o fl fuel).bytesUsed ∧
    (bSB c o fl fuel).bytesUsed = (bImage c o fl fuel).length := by
  by_cases hx : o.exportable = true
  · simp only [finalize, bPieces, bSB, lookupTable, hx, if_true, bImage, bTables, List.length_append, encodeSB_length,
      bIdStart, bIdLoc, bELoc, bFragIdx, bFLoc, bDirStart, bInodeStart, bFragStart0, bDataStart, bItab, bDtab, bFtab, bEtab, bIdtab,
      bFidx, bEidx, bIdidx, metaTable_length, bData_length, storedBytes_length, lookupIndex_length, storedLens_length, sbSize]
    refine ⟨?_, ?_, ?_, ?_, ?_, ?_, ?_⟩ <;> first | rfl | omega | (simp <;> omega)
  · have hEb : bEblocks c o fl fuel = [] := by unfold bEblocks; rw [if_neg hx]
    have hE0 : (bEtab c o fl fuel).length = 0 := by unfold bEtab; rw [hEb]; rfl
    have hEi0 : (bEidx c o fl fuel).length = 0 := by unfold bEidx; rw [hEb]; rfl
    simp only [finalize, bPieces, bSB, lookupTable, hx, bImage, bTables, List.length_append, encodeSB_length,
      bIdStart, bIdLoc, bELoc, bFragIdx, bFLoc, bDirStart, bInodeStart, bFragStart0, bDataStart, bItab, bDtab, bFtab, bIdtab,
      bFidx, bIdidx, metaTable_length, bData_length, storedBytes_length, lookupIndex_length, storedLens_length, sbSize, hE0, hEi0]
    refine ⟨?_, ?_, ?_, ?_, ?_, ?_, ?_⟩ <;> simp <;> omega

end Diskfs.Sqfs
