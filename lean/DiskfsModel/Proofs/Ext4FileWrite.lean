/-
  Helper lemmas for the ext4 flat-extent write mapping (Model/Ext4/FileIO.lean):
  the repaired write loop puts the caller's bytes exactly where the extent list maps
  them, for every contiguous, disk-disjoint extent list, offset and buffer, and touches
  nothing outside the file's extents.
-/
import DiskfsModel.Proofs.Ext4FileIO
namespace Diskfs.Ext4

/-! ### splice algebra -/

theorem splice_length (F : Bytes) (p : Nat) (d : Bytes) (h : p + d.length ≤ F.length) :
    (splice F p d).length = F.length := by
  simp [splice]; omega

theorem splice_append_right (A B : Bytes) (p : Nat) (d : Bytes) (h : A.length ≤ p) :
    splice (A ++ B) p d = A ++ splice B (p - A.length) d := by
  simp only [splice, List.take_append, List.drop_append]
  rw [List.take_of_length_le h, List.drop_of_length_le (by omega : A.length ≤ p + d.length)]
  simp only [List.nil_append, List.append_assoc]
  have : p + d.length - A.length = p - A.length + d.length := by omega
  rw [this]

theorem splice_append_left (A B : Bytes) (p : Nat) (d : Bytes) (h : p + d.length ≤ A.length) :
    splice (A ++ B) p d = splice A p d ++ B := by
  simp only [splice, List.take_append, List.drop_append]
  have h1 : p - A.length = 0 := by omega
  have h2 : p + d.length - A.length = 0 := by omega
  simp [h1, h2]

theorem splice_append_span (A B : Bytes) (p : Nat) (d1 d2 : Bytes) (h : p + d1.length = A.length) :
    splice (A ++ B) p (d1 ++ d2) = splice A p d1 ++ splice B 0 d2 := by
  simp only [splice, List.take_append, List.drop_append, List.length_append]
  have h1 : p - A.length = 0 := by omega
  have h2 : p + (d1.length + d2.length) - A.length = d2.length := by omega
  have h3 : A.drop (p + (d1.length + d2.length)) = [] := List.drop_of_length_le (by omega)
  have h4 : A.drop (p + d1.length) = [] := List.drop_of_length_le (by omega)
  simp [h1, h2, h3, h4]

theorem splice_nil (F : Bytes) (p : Nat) : splice F p [] = F := by
  simp [splice]

/-! ### one write into one extent -/

/-- a write of `d` at `a + sp` seen through the window `[a, a+n)` -/
theorem readAt_applyWr_inside (dev : Dev) (a n sp : Nat) (d : Bytes) (h : sp + d.length ≤ n) :
    readAt (applyWr dev ⟨a + sp, d⟩) a n = splice (readAt dev a n) sp d := by
  have hs1 := readAt_split (applyWr dev ⟨a + sp, d⟩) a n sp (by omega)
  have hs2 := readAt_split (applyWr dev ⟨a + sp, d⟩) (a + sp) (n - sp) d.length (by omega)
  rw [hs1, hs2]
  have e1 : readAt (applyWr dev ⟨a + sp, d⟩) a sp = readAt dev a sp :=
    readAt_applyWr_disjoint dev ⟨a + sp, d⟩ a sp (Or.inl (Nat.le_refl _))
  have e2 : readAt (applyWr dev ⟨a + sp, d⟩) (a + sp) d.length = d :=
    readAt_applyWr_same dev ⟨a + sp, d⟩
  have e3 : readAt (applyWr dev ⟨a + sp, d⟩) (a + sp + d.length) (n - sp - d.length) =
      readAt dev (a + sp + d.length) (n - sp - d.length) :=
    readAt_applyWr_disjoint dev ⟨a + sp, d⟩ _ _ (Or.inr (Nat.le_refl _))
  rw [e1, e2, e3]
  simp only [splice]
  rw [readAt_take dev a n sp (by omega), readAt_drop dev a n (sp + d.length) h]
  simp only [List.append_assoc]
  congr 3
  · omega
  · omega

/-! ### the write loop -/


/-- one pass through the body of the write loop, in natural numbers -/
theorem writeLoop_step (cum : Bool) (bs sb : Nat) (b : Bytes) (e : Extent) (es : List Extent)
    (off written : Nat) (ws : List (Int × Bytes))
    (hns : ¬ e.fileBlock + e.count ≤ sb)
    (h1 : e.fileBlock * bs ≤ off) (h2 : off - e.fileBlock * bs ≤ e.count * bs) (h3 : written ≤ b.length) :
    writeLoop false cum bs sb b (e :: es) off written ws =
      (let sp := off - e.fileBlock * bs
       let k := min (b.length - written) (e.count * bs - sp)
       let ws' := ws ++ [(((e.start * bs + sp : Nat) : Int), (b.drop written).take k)]
       if (if cum then written + k ≥ b.length else k ≥ b.length) then .ok ⟨ws', written + k, off + k⟩
       else writeLoop false cum bs sb b es (off + k) (written + k) ws') := by
  simp only [writeLoop, skips, Bool.false_eq_true, if_false, hns, decide_false]
  simp only [← Int.natCast_mul]
  generalize e.fileBlock * bs = FB at *
  generalize e.count * bs = C at *
  generalize e.start * bs = S at *
  have e1 : (off : Int) - (FB : Int) = ((off - FB : Nat) : Int) := by omega
  rw [e1]
  generalize off - FB = sp at *
  have e2 : (C : Int) - (sp : Int) = ((C - sp : Nat) : Int) := by omega
  rw [e2]
  have e3 : (b.length : Int) - (written : Int) = ((b.length - written : Nat) : Int) := by omega
  rw [e3]
  generalize b.length - written = rem at *
  have e4 : (if (rem : Int) > ((C - sp : Nat) : Int) then ((C - sp : Nat) : Int) else (rem : Int)) =
      ((min rem (C - sp) : Nat) : Int) := by
    split <;> omega
  rw [e4]
  have e5 : ¬ (((min rem (C - sp) : Nat) : Int) < 0) := by omega
  have e6 : ¬ ((S : Int) + (sp : Int) < 0) := by omega
  simp only [e5, e6, if_false, Int.toNat_natCast]
  rfl



/-- device byte `i` lies in no extent of the list -/
def Outside (bs : Nat) (es : List Extent) (i : Nat) : Prop :=
  ∀ e ∈ es, i < e.start * bs ∨ e.start * bs + e.count * bs ≤ i

theorem readAt_congr (d1 d2 : Dev) (a n : Nat) (h : ∀ i, a ≤ i → i < a + n → d1 i = d2 i) :
    readAt d1 a n = readAt d2 a n := by
  simp only [readAt]
  apply List.map_congr_left
  intro i hi
  simp only [List.mem_range] at hi
  exact h (a + i) (by omega) (by omega)

theorem fileBytes_congr (d1 d2 : Dev) (bs : Nat) (es : List Extent)
    (h : ∀ e ∈ es, ∀ i, e.start * bs ≤ i → i < e.start * bs + e.count * bs → d1 i = d2 i) :
    fileBytes d1 bs es = fileBytes d2 bs es := by
  induction es with
  | nil => rfl
  | cons e es ih =>
    simp only [fileBytes]
    rw [readAt_congr d1 d2 _ _ (h e (List.mem_cons_self ..)),
      ih (fun e' he' => h e' (List.mem_cons_of_mem _ he'))]

theorem inside_outside (bs : Nat) (e : Extent) (es : List Extent)
    (h : ∀ e' ∈ es, e.start + e.count ≤ e'.start ∨ e'.start + e'.count ≤ e.start)
    (i : Nat) (h1 : e.start * bs ≤ i) (h2 : i < e.start * bs + e.count * bs) : Outside bs es i := by
  intro e' he'
  rcases h e' he' with hd | hd
  · left
    have := Nat.mul_le_mul_right bs hd
    rw [Nat.add_mul] at this
    omega
  · right
    have := Nat.mul_le_mul_right bs hd
    rw [Nat.add_mul] at this
    omega

theorem outside_of_cons {bs : Nat} {e : Extent} {es : List Extent} {i : Nat} (h : Outside bs (e :: es) i) :
    (i < e.start * bs ∨ e.start * bs + e.count * bs ≤ i) ∧ Outside bs es i :=
  ⟨h e (List.mem_cons_self ..), fun e' he' => h e' (List.mem_cons_of_mem _ he')⟩

theorem toWrs_cons (o : Int) (d : Bytes) (ws : List (Int × Bytes)) :
    toWrs ((o, d) :: ws) = ⟨o.toNat, d⟩ :: toWrs ws := by simp [toWrs]

theorem applyWrs_cons (dev : Dev) (w : Wr) (ws : List Wr) : applyWrs dev (w :: ws) = applyWrs (applyWr dev w) ws := by
  simp [applyWrs]

theorem applyWrs_toWrs_cons (dev : Dev) (n : Nat) (d : Bytes) (ws : List (Int × Bytes)) :
    applyWrs dev (toWrs ((((n : Nat) : Int), d) :: ws)) = applyWrs (applyWr dev ⟨n, d⟩) (toWrs ws) := by
  simp [toWrs, applyWrs]

theorem applyWrs_toWrs_nil (dev : Dev) : applyWrs dev (toWrs []) = dev := by
  simp [toWrs, applyWrs]

/-- loop invariant of the repaired write loop (`lt = false`, `cum = true`) -/
theorem writeLoop_spec (bs off0 : Nat) (b : Bytes) (hbs : 0 < bs) :
    ∀ (es : List Extent) (first off written : Nat) (ws : List (Int × Bytes)),
      Contig first es → DiskDisjoint es →
      first * bs ≤ off → off0 ≤ off →
      ((off = off0 ∧ written = 0) ∨ (off = first * bs ∧ written < b.length)) →
      written ≤ b.length →
      off + (b.length - written) ≤ first * bs + blockCount es * bs →
      ∃ ws', writeLoop false true bs (off0 / bs) b es off written ws =
          .ok ⟨ws ++ ws', b.length, off + (b.length - written)⟩ ∧
        (∀ w ∈ ws', 0 ≤ w.1) ∧
        ∀ dev : Dev,
          fileBytes (applyWrs dev (toWrs ws')) bs es =
            splice (fileBytes dev bs es) (off - first * bs) (b.drop written) ∧
          ∀ i, Outside bs es i → applyWrs dev (toWrs ws') i = dev i := by
  intro es
  induction es with
  | nil =>
    intro first off written ws _ _ hbase _ _ hwl henough
    simp only [blockCount, List.map_nil, List.sum_nil, Nat.zero_mul, Nat.add_zero] at henough
    have hz : b.length - written = 0 := by omega
    have hw : written = b.length := by omega
    refine ⟨[], ?_, by simp, ?_⟩
    · simp [writeLoop, hw]
    · intro dev
      rw [applyWrs_toWrs_nil]
      exact ⟨by simp [fileBytes, splice, hw], fun i _ => rfl⟩
  | cons e es ih =>
    intro first off written ws hc hdd hbase hoff0 hdisj hwl henough
    obtain ⟨hfb, hcnt, hrest⟩ := hc
    have hdd' : DiskDisjoint es := (List.pairwise_cons.1 hdd).2
    have hde := (List.pairwise_cons.1 hdd).1
    rw [blockCount_cons] at henough
    have hdm : off0 / bs * bs ≤ off0 := Nat.div_mul_le_self off0 bs
    have hlt : off0 < (off0 / bs + 1) * bs := by
      have := Nat.lt_div_mul_add (a := off0) (b := bs) hbs
      rw [Nat.add_mul]; omega
    have hCpos : 0 < e.count * bs := Nat.mul_pos hcnt hbs
    have hFC : (first + e.count) * bs = first * bs + e.count * bs := Nat.add_mul ..
    by_cases hskip : e.fileBlock + e.count ≤ off0 / bs
    · -- skipped: still in front of the start block
      have hle : (first + e.count) * bs ≤ off0 / bs * bs := Nat.mul_le_mul_right bs (by omega)
      have hoff : off = off0 ∧ written = 0 := by
        rcases hdisj with h | h
        · exact h
        · exfalso; omega
      have hbase' : (first + e.count) * bs ≤ off := by omega
      obtain ⟨ws', hr, hnn, hdev⟩ := ih (first + e.count) off written ws hrest hdd' hbase' hoff0 (Or.inl hoff) hwl
        (by rw [hFC]; rw [Nat.add_mul] at henough; omega)
      refine ⟨ws', ?_, hnn, ?_⟩
      · simp only [writeLoop, skips, hskip, decide_true]
        simpa using hr
      · intro dev
        obtain ⟨hF, hfr⟩ := hdev dev
        refine ⟨?_, fun i hi => hfr i (outside_of_cons hi).2⟩
        simp only [fileBytes]
        rw [hF]
        have hA : readAt (applyWrs dev (toWrs ws')) (e.start * bs) (e.count * bs) =
            readAt dev (e.start * bs) (e.count * bs) :=
          readAt_congr _ _ _ _ fun i h1 h2 => hfr i (inside_outside bs e es hde i h1 h2)
        rw [hA, splice_append_right _ _ _ _ (by simp only [readAt_length]; omega)]
        simp only [readAt_length]
        congr 2
        omega
    · -- not skipped
      have hns : off0 / bs < e.fileBlock + e.count := by omega
      have hend : off0 < (first + e.count) * bs := by
        have : (off0 / bs + 1) * bs ≤ (first + e.count) * bs := Nat.mul_le_mul_right bs (by omega)
        omega
      have hsp : off - first * bs < e.count * bs := by
        rcases hdisj with h | h
        · omega
        · omega
      have h1 : e.fileBlock * bs ≤ off := by rw [hfb]; exact hbase
      have h2 : off - e.fileBlock * bs ≤ e.count * bs := by rw [hfb]; omega
      rw [writeLoop_step true bs (off0 / bs) b e es off written ws hskip h1 h2 hwl]
      simp only [hfb, if_true]
      generalize hsP : off - first * bs = sp at *
      generalize hC : e.count * bs = C at *
      generalize hS : e.start * bs = S at *
      have hdl : (b.drop written).length = b.length - written := by simp
      by_cases hfit : b.length - written ≤ C - sp
      · -- the rest of the buffer goes into this extent
        have hmin : min (b.length - written) (C - sp) = b.length - written := Nat.min_eq_left hfit
        rw [hmin]
        have hge : written + (b.length - written) ≥ b.length := by omega
        simp only [hge, if_true]
        have hpiece : (b.drop written).take (b.length - written) = b.drop written :=
          List.take_of_length_le (by omega)
        rw [hpiece]
        refine ⟨[(((S + sp : Nat) : Int), b.drop written)], ?_, ?_, ?_⟩
        · have : written + (b.length - written) = b.length := by omega
          rw [this]
        · intro w hw; simp only [List.mem_singleton] at hw; subst hw; simp only; omega
        · intro dev
          rw [applyWrs_toWrs_cons, applyWrs_toWrs_nil]
          refine ⟨?_, fun i hi => applyWr_frame _ _ _ (by
            have := (outside_of_cons hi).1
            rw [hS, hC] at this
            simp only; omega)⟩
          simp only [fileBytes, hS, hC]
          rw [readAt_applyWr_inside dev S C sp (b.drop written) (by omega)]
          have hB : fileBytes (applyWr dev ⟨S + sp, b.drop written⟩) bs es = fileBytes dev bs es :=
            fileBytes_congr _ _ _ _ fun e' he' i hi1 hi2 => applyWr_frame _ _ _ (by
              rcases hde e' he' with hd | hd
              · have := Nat.mul_le_mul_right bs hd
                rw [Nat.add_mul, hS, hC] at this
                simp only; omega
              · have := Nat.mul_le_mul_right bs hd
                rw [Nat.add_mul, hS] at this
                simp only; omega)
          rw [hB, splice_append_left _ _ _ _ (by simp only [readAt_length]; omega)]
      · -- the extent is filled to its end, continue with the next one
        have hfit' : C - sp < b.length - written := by omega
        have hmin : min (b.length - written) (C - sp) = C - sp := Nat.min_eq_right (by omega)
        rw [hmin]
        have hlt' : ¬ (written + (C - sp) ≥ b.length) := by omega
        simp only [hlt', if_false]
        have hoff' : off + (C - sp) = (first + e.count) * bs := by rw [hFC]; omega
        obtain ⟨ws'', hr, hnn, hdev⟩ := ih (first + e.count) (off + (C - sp)) (written + (C - sp))
          (ws ++ [(((S + sp : Nat) : Int), (b.drop written).take (C - sp))])
          hrest hdd' (by omega) (by omega) (Or.inr ⟨hoff', by omega⟩) (by omega)
          (by rw [hoff']; rw [Nat.add_mul, hC] at henough; omega)
        refine ⟨(((S + sp : Nat) : Int), (b.drop written).take (C - sp)) :: ws'', ?_, ?_, ?_⟩
        · rw [hr]
          simp only [List.append_assoc, List.singleton_append]
          congr 2
          omega
        · intro w hw
          simp only [List.mem_cons] at hw
          rcases hw with hw | hw
          · subst hw; simp only; omega
          · exact hnn w hw
        · intro dev
          rw [applyWrs_toWrs_cons]
          generalize hd1 : applyWr dev ⟨S + sp, (b.drop written).take (C - sp)⟩ = dev1
          obtain ⟨hF, hfr⟩ := hdev dev1
          have hpl : ((b.drop written).take (C - sp)).length = C - sp := by
            rw [List.length_take, hdl]; omega
          have hfr1 : ∀ i, (i < S ∨ S + C ≤ i) → dev1 i = dev i := by
            intro i hi
            rw [← hd1]
            exact applyWr_frame _ _ _ (by simp only [hpl]; omega)
          refine ⟨?_, fun i hi => by
            rw [hfr i (outside_of_cons hi).2]
            have := (outside_of_cons hi).1
            rw [hS, hC] at this
            exact hfr1 i this⟩
          simp only [fileBytes, hS, hC]
          have hA : readAt (applyWrs dev1 (toWrs ws'')) S C = readAt dev1 S C :=
            readAt_congr _ _ _ _ fun i h1 h2 => hfr i (inside_outside bs e es hde i (by rw [hS]; exact h1) (by rw [hS, hC]; exact h2))
          have hA1 : readAt dev1 S C = splice (readAt dev S C) sp ((b.drop written).take (C - sp)) := by
            rw [← hd1]
            exact readAt_applyWr_inside dev S C sp _ (by rw [hpl]; omega)
          have hB : fileBytes dev1 bs es = fileBytes dev bs es :=
            fileBytes_congr _ _ _ _ fun e' he' i hi1 hi2 => hfr1 i (by
              rcases hde e' he' with hd | hd
              · have := Nat.mul_le_mul_right bs hd
                rw [Nat.add_mul, hS, hC] at this
                omega
              · have := Nat.mul_le_mul_right bs hd
                rw [Nat.add_mul, hS] at this
                omega)
          rw [hA, hA1, hF, hB, hoff']
          simp only [Nat.sub_self]
          have hsplit : b.drop written = (b.drop written).take (C - sp) ++ b.drop (written + (C - sp)) := by
            rw [← List.drop_drop]
            exact (List.take_append_drop _ _).symm
          conv => rhs; rw [hsplit]
          rw [splice_append_span _ _ sp _ _ (by rw [hpl]; simp only [readAt_length]; omega)]


/-- the block-count test in front of the write loop: more blocks are needed exactly when the new size does not
    fit into the blocks the extent list has -/
theorem ceil_le_iff (s bs n : Nat) (hbs : 0 < bs) :
    s / bs + (if s % bs > 0 then 1 else 0) ≤ n ↔ s ≤ n * bs := by
  have hdm := Nat.div_add_mod s bs
  have hml := Nat.mod_lt s hbs
  constructor
  · intro h
    split at h
    · have : (s / bs + 1) * bs ≤ n * bs := Nat.mul_le_mul_right bs h
      rw [Nat.add_mul, Nat.mul_comm (s / bs) bs] at this
      omega
    · have : (s / bs) * bs ≤ n * bs := Nat.mul_le_mul_right bs (by omega)
      rw [Nat.mul_comm (s / bs) bs] at this
      omega
  · intro h
    split
    · rename_i hpos
      have : s / bs < n := by
        rw [Nat.div_lt_iff_lt_mul hbs]
        rcases Nat.lt_or_ge s (n * bs) with h1 | h1
        · exact h1
        · exfalso
          have : s = n * bs := by omega
          rw [this, Nat.mul_mod_left] at hpos
          omega
      omega
    · have : s / bs ≤ n := by
        rw [Nat.div_le_iff_le_mul_add_pred hbs, Nat.mul_comm bs n]
        omega
      omega

/-- what a reader sees at the written range afterwards -/
theorem splice_window (F : Bytes) (off : Nat) (b : Bytes) (s : Nat)
    (h : off + b.length ≤ F.length) (hs : off + b.length ≤ s) :
    (((splice F off b).take s).drop off).take b.length = b := by
  have h1 : (F.take off).length = off := by simp; omega
  simp only [splice, List.append_assoc]
  rw [List.take_append, List.drop_append, h1]
  have h2 : (F.take off).take s = F.take off := List.take_of_length_le (by omega)
  rw [h2, List.drop_of_length_le (by omega : (F.take off).length ≤ off)]
  simp only [List.nil_append, h1, Nat.sub_self, List.drop_zero]
  rw [List.take_append, List.take_append]
  have h3 : b.take (s - off) = b := List.take_of_length_le (by omega)
  rw [h3, List.take_of_length_le (Nat.le_refl _)]
  simp

/-! ### File.Write in normal form -/

theorem writeE_size2 (size off len : Nat) :
    (if off + len > (if off ≥ size then off else size) then off + len else (if off ≥ size then off else size)) =
      max size (off + len) := by
  split <;> split <;> omega

theorem writeE_eq (lt cum : Bool) (bs : Nat) (es : List Extent) (size off : Nat) (b : Bytes) :
    writeE lt cum bs es size off b =
      if max size (off + b.length) / bs + (if max size (off + b.length) % bs > 0 then 1 else 0) > blockCount es
      then .needAlloc
      else match writeLoop lt cum bs (off / bs) b es off 0 [] with
        | .ok r => .ok ⟨r.ws, r.written, r.off, max size (off + b.length)⟩
        | .panic => .panic
        | .err r => .err ⟨r.ws, r.written, r.off, max size (off + b.length)⟩ := by
  simp only [writeE, writeE_size2]
  rfl

/-! ### File.Write (one pass of the loop), and the zero fill of the repaired File.Write -/

theorem writeE_ok (dev : Dev) (bs : Nat) (es : List Extent) (size off : Nat) (b : Bytes)
    (hbs : 0 < bs) (hc : Contig 0 es) (hd : DiskDisjoint es)
    (hsz : size ≤ blockCount es * bs) (hfit : off + b.length ≤ blockCount es * bs) :
    ∃ r, writeE false true bs es size off b = .ok r ∧
      r.written = b.length ∧ r.off = off + b.length ∧ r.size = max size (off + b.length) ∧
      (∀ w ∈ r.ws, 0 ≤ w.1) ∧
      fileBytes (applyWrs dev (toWrs r.ws)) bs es = splice (fileBytes dev bs es) off b ∧
      ∀ i, Outside bs es i → applyWrs dev (toWrs r.ws) i = dev i := by
  have hceil := (ceil_le_iff (max size (off + b.length)) bs (blockCount es) hbs).2 (by omega)
  rw [writeE_eq, if_neg (by omega)]
  obtain ⟨ws', hr, hnn, hdev⟩ := writeLoop_spec bs off b hbs es 0 off 0 [] hc hd (by simp) (Nat.le_refl _)
    (Or.inl ⟨rfl, rfl⟩) (Nat.zero_le _) (by simp; omega)
  rw [hr]
  obtain ⟨hF, hfr⟩ := hdev dev
  simp only [Nat.zero_mul, Nat.sub_zero, List.drop_zero] at hF
  exact ⟨_, rfl, rfl, by simp, rfl, hnn, hF, hfr⟩

theorem applyWrs_toWrs_append (dev : Dev) (a c : List (Int × Bytes)) :
    applyWrs dev (toWrs (a ++ c)) = applyWrs (applyWrs dev (toWrs a)) (toWrs c) := by
  simp [toWrs, applyWrs, List.foldl_append]

/-- two adjacent splices are one -/
theorem splice_splice_adj (F : Bytes) (p : Nat) (d1 d2 : Bytes) (h : p ≤ F.length) :
    splice (splice F p d1) (p + d1.length) d2 = splice F p (d1 ++ d2) := by
  have h1 : (F.take p).length = p := by simp; omega
  have ht : (F.take p ++ d1 ++ F.drop (p + d1.length)).take (p + d1.length) = F.take p ++ d1 := by
    rw [List.take_append_of_le_length (by simp; omega)]
    exact List.take_of_length_le (by simp; omega)
  have hl : (F.take p ++ d1).length = p + d1.length := by rw [List.length_append, h1]
  have hdr : (F.take p ++ d1 ++ F.drop (p + d1.length)).drop (p + d1.length + d2.length) =
      F.drop (p + (d1.length + d2.length)) := by
    rw [List.drop_append, List.drop_of_length_le (by rw [hl]; omega), hl, List.nil_append, List.drop_drop]
    congr 1
    omega
  simp only [splice, List.length_append]
  rw [ht, hdr]
  simp

/-- a window that ends in front of a splice does not see it -/
theorem splice_window_before (G : Bytes) (off : Nat) (b : Bytes) (s a n : Nat)
    (h : off ≤ G.length) (hs : off ≤ s) (han : a + n ≤ off) :
    (((splice G off b).take s).drop a).take n = (((G.take off).drop a).take n) := by
  have h1 : (G.take off).length = off := by simp; omega
  simp only [splice, List.append_assoc]
  rw [List.take_append, List.take_of_length_le (by omega : (G.take off).length ≤ s)]
  rw [List.drop_append_of_le_length (by omega), List.take_append_of_le_length (by simp; omega)]

theorem zeros_append (a c : Nat) : zeros a ++ zeros c = zeros (a + c) := by
  simp [zeros, List.replicate_append_replicate]

/-- the zero fill: `fuel ≥ target - size` appends later, the bytes from `size` to `target` are zero, everything
    else (in the file and outside it) is as before -/
theorem zeroFill_spec (bs : Nat) (es : List Extent) (target : Nat)
    (hbs : 0 < bs) (hc : Contig 0 es) (hd : DiskDisjoint es) (ht : target ≤ blockCount es * bs) :
    ∀ (fuel size : Nat) (ws : List (Int × Bytes)), size ≤ target → target - size ≤ fuel →
      ∃ ws', zeroFill false true bs es target fuel size ws = .ok ⟨ws ++ ws', 0, target, target⟩ ∧
        (∀ w ∈ ws', 0 ≤ w.1) ∧
        ∀ dev : Dev,
          fileBytes (applyWrs dev (toWrs ws')) bs es = splice (fileBytes dev bs es) size (zeros (target - size)) ∧
          ∀ i, Outside bs es i → applyWrs dev (toWrs ws') i = dev i := by
  intro fuel
  induction fuel with
  | zero =>
    intro size ws h1 h2
    have : size = target := by omega
    subst this
    refine ⟨[], by simp [zeroFill], by simp, fun dev => ?_⟩
    rw [applyWrs_toWrs_nil]
    exact ⟨by simp [zeros, splice_nil], fun i _ => rfl⟩
  | succ fuel ih =>
    intro size ws h1 h2
    by_cases hge : size ≥ target
    · have : size = target := by omega
      subst this
      refine ⟨[], by simp [zeroFill], by simp, fun dev => ?_⟩
      rw [applyWrs_toWrs_nil]
      exact ⟨by simp [zeros, splice_nil], fun i _ => rfl⟩
    · generalize hcdef : min (target - size) zeroChunk = c
      have hcpos : 0 < c := by rw [← hcdef]; simp only [zeroChunk]; omega
      have hcle : c ≤ target - size := by rw [← hcdef]; exact Nat.min_le_left _ _
      have hzl : (zeros c).length = c := zeros_length c
      have hW := fun dev => writeE_ok dev bs es size size (zeros c) hbs hc hd (by omega) (by rw [hzl]; omega)
      obtain ⟨r, hr, hwr, _, hsize, hnn, _, _⟩ := hW (fun _ => 0)
      rw [hzl] at hwr hsize
      have hrs : r.size = size + c := by rw [hsize]; omega
      obtain ⟨ws2, hz2, hnn2, hdev2⟩ := ih (size + c) (ws ++ r.ws) (by omega) (by omega)
      refine ⟨r.ws ++ ws2, ?_, ?_, ?_⟩
      · simp only [zeroFill, hge, if_false, hcdef, hr]
        rw [if_neg (by omega), hrs, hz2, List.append_assoc]
      · intro w hw
        rcases List.mem_append.1 hw with h | h
        · exact hnn w h
        · exact hnn2 w h
      · intro dev
        obtain ⟨r', hr', _, _, _, _, hF1, hfr1⟩ := hW dev
        have : r' = r := by rw [hr] at hr'; cases hr'; rfl
        subst this
        obtain ⟨hF2, hfr2⟩ := hdev2 (applyWrs dev (toWrs r'.ws))
        rw [applyWrs_toWrs_append]
        refine ⟨?_, fun i hi => by rw [hfr2 i hi, hfr1 i hi]⟩
        rw [hF2, hF1]
        have hFl := fileBytes_length dev bs es
        have := splice_splice_adj (fileBytes dev bs es) size (zeros c) (zeros (target - (size + c))) (by rw [hFl]; omega)
        rw [hzl] at this
        rw [this, zeros_append]
        congr 2
        omega

end Diskfs.Ext4
