/-
  Proofs about the FAT cluster-chain model (Model/Fat/Chain.lean):
  walk / allocateSpace / freeChain against the cluster-map invariant `Inv`.
  Core Lean only.
-/
import DiskfsModel.Model.Fat.Chain
namespace Diskfs.Fat

/-! ### table updates -/

theorem CMap.set_eq (m : CMap) (c v : Nat) : (m.set c v) c = v := by
  simp [CMap.set]

theorem CMap.set_ne (m : CMap) {c i : Nat} (v : Nat) (h : i ≠ c) : (m.set c v) i = m i := by
  simp [CMap.set, h]

theorem isEOC_zero (k : Kind) : k.isEOC 0 = false := by
  cases k <;> simp [Kind.isEOC]

theorem isEOC_eoc (k : Kind) : k.isEOC k.eoc = true := by
  cases k <;> simp [Kind.isEOC, Kind.eoc]

theorem eoc_ne_zero (k : Kind) : k.eoc ≠ 0 := by
  cases k <;> simp [Kind.eoc]

/-! ### basic facts about `ChainOk` -/

theorem chainOk_ne_nil {k lim m} : ∀ {l : List Nat}, ChainOk k lim m l → l ≠ []
  | [], h => h.elim
  | _ :: _, _ => by simp

theorem chainOk_mem {k lim m} : ∀ {l : List Nat}, ChainOk k lim m l → ∀ c ∈ l, 2 ≤ c ∧ c < lim
  | [], h, _, _ => h.elim
  | [a], h, c, hc => by
    simp only [List.mem_singleton] at hc
    subst hc
    exact ⟨h.1, h.2.1⟩
  | a :: b :: rest, h, c, hc => by
    rcases List.mem_cons.1 hc with hc | hc
    · subst hc
      exact ⟨h.1, h.2.1⟩
    · exact chainOk_mem h.2.2.2 c hc

theorem chainOk_ne_zero {k lim m} : ∀ {l : List Nat}, ChainOk k lim m l → ∀ c ∈ l, m c ≠ 0
  | [], h, _, _ => h.elim
  | [a], h, c, hc => by
    simp only [List.mem_singleton] at hc
    subst hc
    intro h0
    have := h.2.2
    rw [h0, isEOC_zero] at this
    exact Bool.noConfusion this
  | a :: b :: rest, h, c, hc => by
    rcases List.mem_cons.1 hc with hc | hc
    · subst hc
      have hb := (chainOk_mem h.2.2.2 b (List.mem_cons_self)).1
      have := h.2.2.1
      omega
    · exact chainOk_ne_zero h.2.2.2 c hc

/-- congruence: a chain only looks at the entries of its own clusters -/
theorem chainOk_congr {k lim m m'} : ∀ {l : List Nat}, ChainOk k lim m l →
    (∀ c ∈ l, m' c = m c) → ChainOk k lim m' l
  | [], h, _ => h.elim
  | [a], h, hag => by
    refine ⟨h.1, h.2.1, ?_⟩
    rw [hag a (List.mem_singleton.2 rfl)]
    exact h.2.2
  | a :: b :: rest, h, hag => by
    refine ⟨h.1, h.2.1, ?_, ?_⟩
    · rw [hag a List.mem_cons_self]
      exact h.2.2.1
    · exact chainOk_congr h.2.2.2 (fun c hc => hag c (List.mem_cons_of_mem _ hc))

/-! ### 1. walk_complete -/

theorem walkAux_complete {k lim max m} (hlim : LimOk k lim) (hmax : lim ≤ max) :
    ∀ (rest : List Nat) (a fuel : Nat) (acc : List Nat), ChainOk k lim m (a :: rest) →
      (a :: rest).length ≤ fuel → walkAux k max m fuel a acc = .ok (acc ++ a :: rest)
  | [], a, fuel, acc, h, hf => by
    cases fuel with
    | zero => simp at hf
    | succ f =>
      simp only [walkAux]
      rw [if_pos h.2.2]
  | b :: rest, a, fuel, acc, h, hf => by
    cases fuel with
    | zero => simp at hf
    | succ f =>
      have hb := chainOk_mem h.2.2.2 b List.mem_cons_self
      have hab : m a = b := h.2.2.1
      have h1 : k.isEOC (m a) = false := by rw [hab]; exact hlim b hb.2
      have h2 : ¬ m a > max := by rw [hab]; omega
      have h3 : ¬ a < 2 := by have := h.1; omega
      simp only [walkAux]
      rw [h1]
      simp only [Bool.false_eq_true, if_false, if_neg h2, if_neg h3]
      rw [hab, walkAux_complete hlim hmax rest b f (acc ++ [a]) h.2.2.2
        (by simp only [List.length_cons] at hf ⊢; omega)]
      simp

theorem walk_complete {k lim max m fuel} {l : List Nat} (hlim : LimOk k lim) (hmax : lim ≤ max)
    (h : ChainOk k lim m l) (hf : l.length ≤ fuel) :
    walk k max m fuel (l.headD 0) = .ok l := by
  cases l with
  | nil => exact h.elim
  | cons a rest =>
    have ha := chainOk_mem h a List.mem_cons_self
    have h0 := chainOk_ne_zero h a List.mem_cons_self
    have hn : ¬ (a > max ∨ m a = 0) := by intro hh; rcases hh with hh | hh <;> omega
    unfold walk
    split
    · rename_i hh; exact absurd hh hn
    · simpa using walkAux_complete hlim hmax rest a fuel [] h hf

/-! ### 2. firstFit_spec -/

theorem mem_range2 {lim c : Nat} : c ∈ List.range' 2 (lim - 2) ↔ 2 ≤ c ∧ c < lim := by
  rw [List.mem_range'_1]; omega

theorem firstFit_spec (lim : Nat) : PickSpec lim (firstFit lim) where
  free := by
    intro m n c hc
    have hc' := List.mem_of_mem_take hc
    rw [List.mem_filter] at hc'
    have := mem_range2.1 hc'.1
    exact ⟨this.1, this.2, by simpa using hc'.2⟩
  nodup := by
    intro m n
    exact ((List.nodup_range' (step := 1)).sublist List.filter_sublist).sublist (List.take_sublist _ _)
  len_le := by
    intro m n
    exact List.length_take_le _ _
  complete := by
    intro m n h
    unfold firstFit at h
    unfold freeCount
    rw [List.length_take] at h
    omega

/-! ### 3. alloc_refused_unchanged -/

theorem alloc_refused_unchanged {k max bpc pick fuel m size previous}
    (h : (allocateSpace k max bpc pick fuel m size previous).res = none) :
    (allocateSpace k max bpc pick fuel m size previous).m = m := by
  revert h
  unfold allocateSpace
  generalize size / bpc + (if size % bpc > 0 then 1 else 0) = count
  split
  · intro _; rfl
  · dsimp only
    split
    · intro _; rfl
    · intro _; rfl
    · split
      · intro h; rfl
      · split
        · split
          · intro _; rfl
          · intro h; cases h
        · split
          · intro _; rfl
          · intro h; cases h

/-! ### linkChain / freeAll pointwise -/

theorem linkChain_notin {k} : ∀ (l : List Nat) (m : CMap) (c : Nat), c ∉ l → linkChain k m l c = m c
  | [], _, _, _ => rfl
  | [a], m, c, h => by
    simp only [linkChain]
    exact CMap.set_ne m _ (fun hc => h (by simp [hc]))
  | a :: b :: rest, m, c, h => by
    simp only [linkChain]
    rw [linkChain_notin (b :: rest) _ c (fun hc => h (List.mem_cons_of_mem _ hc))]
    exact CMap.set_ne m _ (fun hc => h (by simp [hc]))

theorem linkChain_chainOk {k lim} : ∀ (l : List Nat) (m : CMap), l ≠ [] → l.Nodup →
    (∀ c ∈ l, 2 ≤ c ∧ c < lim) → ChainOk k lim (linkChain k m l) l
  | [], _, h, _, _ => (h rfl).elim
  | [a], m, _, _, hr => by
    have := hr a (List.mem_singleton.2 rfl)
    refine ⟨this.1, this.2, ?_⟩
    simp only [linkChain, CMap.set_eq, isEOC_eoc]
  | a :: b :: rest, m, _, hnd, hr => by
    have ha := hr a List.mem_cons_self
    have hnd' := List.nodup_cons.1 hnd
    refine ⟨ha.1, ha.2, ?_, ?_⟩
    · simp only [linkChain]
      rw [linkChain_notin (b :: rest) _ a hnd'.1, CMap.set_eq]
    · simp only [linkChain]
      exact linkChain_chainOk (b :: rest) _ (by simp) hnd'.2
        (fun c hc => hr c (List.mem_cons_of_mem _ hc))

theorem freeAll_cons (m : CMap) (a : Nat) (l : List Nat) :
    freeAll m (a :: l) = freeAll (m.set a 0) l := rfl

theorem freeAll_notin : ∀ (l : List Nat) (m : CMap) (c : Nat), c ∉ l → freeAll m l c = m c
  | [], _, _, _ => rfl
  | a :: l, m, c, h => by
    rw [freeAll_cons, freeAll_notin l _ c (fun hc => h (List.mem_cons_of_mem _ hc))]
    exact CMap.set_ne m _ (fun hc => h (by simp [hc]))

theorem freeAll_mem : ∀ (l : List Nat) (m : CMap) (c : Nat), c ∈ l → freeAll m l c = 0
  | [], _, _, h => by simp at h
  | a :: l, m, c, h => by
    rw [freeAll_cons]
    by_cases hc : c ∈ l
    · exact freeAll_mem l _ c hc
    · rw [freeAll_notin l _ c hc]
      rcases List.mem_cons.1 h with h | h
      · subst h; exact CMap.set_eq m _ 0
      · exact absurd h hc

/-! ### list helpers -/

theorem getLastD_mem {l : List Nat} (h : l ≠ []) : l.getLastD 0 ∈ l := by
  cases l with
  | nil => exact (h rfl).elim
  | cons a rest => rw [List.getLastD_cons]; exact List.getLastD_mem_cons

theorem getD_mem : ∀ (l : List Nat) (i : Nat), i < l.length → l.getD i 0 ∈ l
  | [], i, h => by simp at h
  | a :: l, 0, _ => by simp
  | a :: l, i + 1, h => by
    rw [List.getD_cons_succ]
    exact List.mem_cons_of_mem _ (getD_mem l i (by simpa using h))

/-! ### counting -/

theorem filter_len_shift (p q : Nat → Bool) : ∀ (R S : List Nat), R.Nodup → S.Nodup →
    (∀ x ∈ S, x ∈ R) → (∀ x ∈ S, p x = true ∧ q x = false) → (∀ x ∈ R, x ∉ S → p x = q x) →
    (R.filter p).length = (R.filter q).length + S.length
  | [], S, _, _, hsub, _, _ => by
    have : S = [] := List.eq_nil_iff_forall_not_mem.2 (fun a ha => by simpa using hsub a ha)
    subst this; rfl
  | x :: R, S, hR, hS, hsub, hpq, hsame => by
    have hR' := List.nodup_cons.1 hR
    by_cases hx : x ∈ S
    · have hlen := List.length_erase_of_mem hx
      have hpos : 0 < S.length := List.length_pos_of_mem hx
      have ih := filter_len_shift p q R (S.erase x) hR'.2 (hS.erase x)
        (fun y hy => by
          have := (hS.mem_erase_iff).1 hy
          rcases List.mem_cons.1 (hsub y this.2) with h | h
          · exact absurd h this.1
          · exact h)
        (fun y hy => hpq y ((hS.mem_erase_iff).1 hy).2)
        (fun y hy hyS => hsame y (List.mem_cons_of_mem _ hy) (fun hyS' =>
          hyS ((hS.mem_erase_iff).2 ⟨fun h => hR'.1 (h ▸ hy), hyS'⟩)))
      have := hpq x hx
      simp only [List.filter_cons, this.1, this.2, if_true, Bool.false_eq_true, if_false,
        List.length_cons]
      omega
    · have ih := filter_len_shift p q R S hR'.2 hS
        (fun y hy => by
          rcases List.mem_cons.1 (hsub y hy) with h | h
          · exact absurd (h ▸ hy) hx
          · exact h)
        hpq
        (fun y hy hyS => hsame y (List.mem_cons_of_mem _ hy) hyS)
      have hpx := hsame x List.mem_cons_self hx
      simp only [List.filter_cons, hpx]
      split
      · simp only [List.length_cons]; omega
      · exact ih

/-- pigeonhole -/
theorem nodup_length_le {S R : List Nat} (hS : S.Nodup) (hR : R.Nodup) (hsub : ∀ x ∈ S, x ∈ R) :
    S.length ≤ R.length := by
  have := filter_len_shift (fun _ => true) (fun x => decide (x ∉ S)) R S hR hS hsub
    (fun x hx => by simp [hx]) (fun x _ hx => by simp [hx])
  have hall : R.filter (fun _ => true) = R := List.filter_eq_self.2 (fun _ _ => rfl)
  rw [hall] at this
  omega

/-- `S` = clusters that were free in `m` and are used in `m'`; all else keeps its status -/
theorem freeCount_shift {lim : Nat} {m m' : CMap} {S : List Nat} (hS : S.Nodup)
    (hr : ∀ c ∈ S, 2 ≤ c ∧ c < lim) (h1 : ∀ c ∈ S, m c = 0 ∧ m' c ≠ 0)
    (h2 : ∀ c, c ∉ S → (m' c = 0 ↔ m c = 0)) :
    freeCount lim m = freeCount lim m' + S.length := by
  unfold freeCount
  apply filter_len_shift _ _ _ S List.nodup_range' hS
  · exact fun x hx => mem_range2.2 (hr x hx)
  · intro x hx
    have := h1 x hx
    simp [this.1, this.2]
  · intro x _ hx
    have := h2 x hx
    by_cases h : m x = 0 <;> simp [h, this]

/-! ### the invariant: consequences -/

theorem inv_flat {k lim m owners} (h : Inv k lim m owners) {c : Nat} (hc : c ∈ owners.flatten) :
    2 ≤ c ∧ c < lim ∧ m c ≠ 0 := by
  obtain ⟨o, ho, hco⟩ := List.mem_flatten.1 hc
  have := chainOk_mem (h.chains o ho) c hco
  exact ⟨this.1, this.2, chainOk_ne_zero (h.chains o ho) c hco⟩

theorem chains_frame {k lim m m'} {others : List (List Nat)}
    (h : ∀ o ∈ others, ChainOk k lim m o) (hag : ∀ c ∈ others.flatten, m' c = m c) :
    ∀ o ∈ others, ChainOk k lim m' o :=
  fun o ho => chainOk_congr (h o ho) (fun c hc => hag c (List.mem_flatten.2 ⟨o, ho, hc⟩))

/-! ### core of "new chain" -/

theorem new_core {k lim m owners} {alloc : List Nat} (h : Inv k lim m owners) (hne : alloc ≠ [])
    (hnd : alloc.Nodup) (hfree : ∀ c ∈ alloc, 2 ≤ c ∧ c < lim ∧ m c = 0) :
    Inv k lim (linkChain k m alloc) (alloc :: owners) ∧
      freeCount lim (linkChain k m alloc) + alloc.length = freeCount lim m := by
  have hck : ChainOk k lim (linkChain k m alloc) alloc :=
    linkChain_chainOk alloc m hne hnd (fun c hc => ⟨(hfree c hc).1, (hfree c hc).2.1⟩)
  have hdisj : ∀ c ∈ owners.flatten, c ∉ alloc :=
    fun c hc hca => (inv_flat h hc).2.2 (hfree c hca).2.2
  refine ⟨⟨?_, ?_, ?_⟩, ?_⟩
  · intro o ho
    rcases List.mem_cons.1 ho with rfl | ho
    · exact hck
    · exact chains_frame h.chains (fun c hc => linkChain_notin alloc m c (hdisj c hc)) o ho
  · rw [List.flatten_cons, List.nodup_append]
    exact ⟨hnd, h.nodup, fun a ha b hb hab => hdisj b hb (hab ▸ ha)⟩
  · intro c h2 hl
    rw [List.flatten_cons, List.mem_append]
    by_cases hca : c ∈ alloc
    · exact ⟨fun _ => Or.inl hca, fun _ => chainOk_ne_zero hck c hca⟩
    · rw [linkChain_notin alloc m c hca, h.used_iff c h2 hl]
      exact ⟨Or.inr, fun h => h.resolve_left hca⟩
  · exact (freeCount_shift hnd (fun c hc => ⟨(hfree c hc).1, (hfree c hc).2.1⟩)
      (fun c hc => ⟨(hfree c hc).2.2, chainOk_ne_zero hck c hc⟩)
      (fun c hc => by rw [linkChain_notin alloc m c hc])).symm

/-! ### unfolding `allocateSpace` -/

/-- the cluster count `allocateSpace` computes from `size` -/
def cnt (size bpc : Nat) : Nat := size / bpc + (if size % bpc > 0 then 1 else 0)

theorem cnt_pos {size bpc : Nat} (hb : 0 < bpc) (hs : 0 < size) : 0 < cnt size bpc := by
  unfold cnt
  by_cases hlt : size < bpc
  · rw [Nat.mod_eq_of_lt hlt, if_pos hs]; exact Nat.succ_pos _
  · have := Nat.div_pos (Nat.le_of_not_lt hlt) hb
    exact Nat.lt_of_lt_of_le this (Nat.le_add_right _ _)

theorem alloc_eq {k max bpc pick fuel m size previous} {clusters : List Nat}
    (h1 : ¬ previous > max)
    (hw : (if previous ≥ 2 then walk k max m fuel previous else WalkRes.ok []) = .ok clusters) :
    allocateSpace k max bpc pick fuel m size previous =
      if cnt size bpc = clusters.length then ⟨m, some clusters, false⟩
      else if cnt size bpc > clusters.length then
        if (pick m (cnt size bpc - clusters.length)).length < cnt size bpc - clusters.length then
          ⟨m, none, false⟩
        else
          ⟨linkChain k
            (if (if previous ≥ 2 then clusters.getLastD previous else previous) > 0 then
              m.set (if previous ≥ 2 then clusters.getLastD previous else previous)
                ((pick m (cnt size bpc - clusters.length)).headD 0)
             else m)
            (pick m (cnt size bpc - clusters.length)),
           some (clusters ++ pick m (cnt size bpc - clusters.length)), true⟩
      else if cnt size bpc - 1 > max ∨ clusters.getD (cnt size bpc - 1) 0 > max then
        ⟨m, none, false⟩
      else
        ⟨freeAll (m.set (clusters.getD (cnt size bpc - 1) 0) k.eoc)
          (clusters.drop (cnt size bpc - 1 + 1)), some clusters, true⟩ := by
  unfold allocateSpace cnt
  rw [if_neg h1]
  simp only [hw]

/-- `allocateSpace … 0` (new chain) in closed form -/
theorem alloc_new_eq {k max bpc pick fuel m size} (hb : 0 < bpc) (hs : 0 < size) :
    allocateSpace k max bpc pick fuel m size 0 =
      if (pick m (cnt size bpc)).length < cnt size bpc then ⟨m, none, false⟩
      else ⟨linkChain k m (pick m (cnt size bpc)), some (pick m (cnt size bpc)), true⟩ := by
  have hpos := cnt_pos hb hs
  rw [alloc_eq (clusters := []) (by omega) (by simp)]
  have h1 : ¬ cnt size bpc = ([] : List Nat).length := by simp; omega
  have h2 : cnt size bpc > ([] : List Nat).length := by simpa using hpos
  rw [if_neg h1, if_pos h2]
  simp

/-! ### 4. new chain -/

theorem alloc_new_core {k lim max bpc pick fuel m size owners} {l' : List Nat}
    (h : Inv k lim m owners) (hp : PickSpec lim pick) (hb : 0 < bpc) (hs : 0 < size)
    (hres : (allocateSpace k max bpc pick fuel m size 0).res = some l') :
    Inv k lim (allocateSpace k max bpc pick fuel m size 0).m (l' :: owners) ∧
      l'.length = cnt size bpc ∧
      freeCount lim (allocateSpace k max bpc pick fuel m size 0).m + l'.length = freeCount lim m := by
  have hpos := cnt_pos hb hs
  rw [alloc_new_eq hb hs] at hres ⊢
  split at hres
  · cases hres
  · rename_i hlen
    rw [if_neg hlen]
    simp only [Option.some.injEq] at hres
    subst hres
    have hle := hp.len_le m (cnt size bpc)
    have hlen' : (pick m (cnt size bpc)).length = cnt size bpc := by omega
    have hne : pick m (cnt size bpc) ≠ [] := by
      intro h0; rw [h0] at hlen'; simp at hlen'; omega
    have := new_core (k := k) h hne (hp.nodup m _) (hp.free m _)
    exact ⟨this.1, hlen', this.2⟩

theorem alloc_new_inv {k lim max bpc pick fuel m size owners} {l' : List Nat}
    (h : Inv k lim m owners) (hp : PickSpec lim pick) (_hlim : LimOk k lim) (_hmax : lim ≤ max)
    (hb : 0 < bpc) (hs : 0 < size)
    (hres : (allocateSpace k max bpc pick fuel m size 0).res = some l') :
    Inv k lim (allocateSpace k max bpc pick fuel m size 0).m (l' :: owners) ∧
      l'.length = size / bpc + (if size % bpc > 0 then 1 else 0) :=
  have := alloc_new_core h hp hb hs hres
  ⟨this.1, this.2.1⟩

/-- 8a. free-space accounting for a new chain -/
theorem free_after_new {k lim max bpc pick fuel m size owners} {l' : List Nat}
    (h : Inv k lim m owners) (hp : PickSpec lim pick) (_hlim : LimOk k lim) (_hmax : lim ≤ max)
    (hb : 0 < bpc) (hs : 0 < size)
    (hres : (allocateSpace k max bpc pick fuel m size 0).res = some l') :
    freeCount lim (allocateSpace k max bpc pick fuel m size 0).m + l'.length = freeCount lim m :=
  (alloc_new_core h hp hb hs hres).2.2

/-! ### 9. a new chain is refused exactly when the volume is short of free clusters -/

theorem pick_le_free {lim pick} (hp : PickSpec lim pick) (m : CMap) (n : Nat) :
    (pick m n).length ≤ freeCount lim m := by
  unfold freeCount
  apply nodup_length_le (hp.nodup m n) ((List.nodup_range' (step := 1)).sublist List.filter_sublist)
  intro x hx
  have := hp.free m n x hx
  rw [List.mem_filter]
  exact ⟨mem_range2.2 ⟨this.1, this.2.1⟩, by simp [this.2.2]⟩

theorem alloc_fails_iff {k lim max bpc pick fuel m size owners}
    (_h : Inv k lim m owners) (hp : PickSpec lim pick) (_hlim : LimOk k lim) (_hmax : lim ≤ max)
    (hb : 0 < bpc) (hs : 0 < size) :
    (allocateSpace k max bpc pick fuel m size 0).res = none ↔
      freeCount lim m < size / bpc + (if size % bpc > 0 then 1 else 0) := by
  rw [alloc_new_eq hb hs]
  show _ ↔ freeCount lim m < cnt size bpc
  constructor
  · intro hres
    split at hres
    · rename_i hlen; exact hp.complete m _ hlen
    · cases hres
  · intro hlt
    have := pick_le_free hp m (cnt size bpc)
    rw [if_pos (by omega)]

/-! ### 5. growing a chain -/

theorem chainOk_append {k lim m m'} {b : Nat} {r : List Nat} (h2 : ChainOk k lim m' (b :: r)) :
    ∀ {l : List Nat}, ChainOk k lim m l → l.Nodup →
      (∀ c ∈ l, c ≠ l.getLastD 0 → m' c = m c) → m' (l.getLastD 0) = b →
      ChainOk k lim m' (l ++ b :: r)
  | [], h, _, _, _ => h.elim
  | [a], h, _, _, hlast => by
    exact ⟨h.1, h.2.1, by simpa using hlast, h2⟩
  | a :: a2 :: rest, h, hnd, hag, hlast => by
    have hnd' := List.nodup_cons.1 hnd
    have hlm : (a2 :: rest).getLastD 0 ∈ a2 :: rest := getLastD_mem (by simp)
    have heq : (a :: a2 :: rest).getLastD 0 = (a2 :: rest).getLastD 0 := by
      simp only [List.getLastD_cons]
    have hne : a ≠ (a :: a2 :: rest).getLastD 0 := by
      rw [heq]; intro hh; exact hnd'.1 (hh ▸ hlm)
    refine ⟨h.1, h.2.1, ?_, ?_⟩
    · rw [hag a List.mem_cons_self hne]; exact h.2.2.1
    · exact chainOk_append h2 h.2.2.2 hnd'.2
        (fun c hc hcl => hag c (List.mem_cons_of_mem _ hc) (by rw [heq]; exact hcl))
        (by rw [← heq]; exact hlast)

theorem grow_core {k lim m l others} {b : Nat} {r : List Nat} (h : Inv k lim m (l :: others))
    (hnd : (b :: r).Nodup) (hfree : ∀ c ∈ b :: r, 2 ≤ c ∧ c < lim ∧ m c = 0) :
    Inv k lim (linkChain k (m.set (l.getLastD 0) b) (b :: r)) ((l ++ b :: r) :: others) ∧
      freeCount lim (linkChain k (m.set (l.getLastD 0) b) (b :: r)) + (b :: r).length
        = freeCount lim m := by
  have hl : ChainOk k lim m l := h.chains l List.mem_cons_self
  have hnodup : (l ++ others.flatten).Nodup := by have := h.nodup; rwa [List.flatten_cons] at this
  obtain ⟨hlnd, hond, hdisj⟩ := List.nodup_append.1 hnodup
  have hused : ∀ c, c ∈ l ∨ c ∈ others.flatten → 2 ≤ c ∧ c < lim ∧ m c ≠ 0 := by
    intro c hc
    apply inv_flat h
    rw [List.flatten_cons, List.mem_append]; exact hc
  have hnotalloc : ∀ c, c ∈ l ∨ c ∈ others.flatten → c ∉ b :: r :=
    fun c hc hca => (hused c hc).2.2 (hfree c hca).2.2
  have hlast : l.getLastD 0 ∈ l := getLastD_mem (chainOk_ne_nil hl)
  have hb2 := hfree b List.mem_cons_self
  -- pointwise description of the new table
  have hm'_other : ∀ c, c ∉ b :: r → c ≠ l.getLastD 0 →
      linkChain k (m.set (l.getLastD 0) b) (b :: r) c = m c := by
    intro c hc hne
    rw [linkChain_notin _ _ c hc, CMap.set_ne m _ hne]
  have hm'_last : linkChain k (m.set (l.getLastD 0) b) (b :: r) (l.getLastD 0) = b := by
    rw [linkChain_notin _ _ _ (hnotalloc _ (Or.inl hlast)), CMap.set_eq]
  have hck : ChainOk k lim (linkChain k (m.set (l.getLastD 0) b) (b :: r)) (b :: r) :=
    linkChain_chainOk (b :: r) _ (by simp) hnd (fun c hc => ⟨(hfree c hc).1, (hfree c hc).2.1⟩)
  refine ⟨⟨?_, ?_, ?_⟩, ?_⟩
  · intro o ho
    rcases List.mem_cons.1 ho with rfl | ho
    · exact chainOk_append hck hl hlnd
        (fun c hc hne => hm'_other c (hnotalloc c (Or.inl hc)) hne) hm'_last
    · exact chains_frame (fun o ho => h.chains o (List.mem_cons_of_mem _ ho))
        (fun c hc => hm'_other c (hnotalloc c (Or.inr hc))
          (fun hh => hdisj _ hlast c hc hh.symm)) o ho
  · rw [List.flatten_cons, List.nodup_append]
    refine ⟨?_, hond, ?_⟩
    · rw [List.nodup_append]
      exact ⟨hlnd, hnd, fun a ha c hc hac => hnotalloc a (Or.inl ha) (hac ▸ hc)⟩
    · intro a ha c hc hac
      rcases List.mem_append.1 ha with ha | ha
      · exact hdisj a ha c hc hac
      · exact hnotalloc c (Or.inr hc) (hac ▸ ha)
  · intro c h2 hlt
    rw [List.flatten_cons, List.mem_append, List.mem_append]
    by_cases hca : c ∈ b :: r
    · exact ⟨fun _ => Or.inl (Or.inr hca), fun _ => chainOk_ne_zero hck c hca⟩
    · by_cases hcl : c = l.getLastD 0
      · subst hcl
        rw [hm'_last]
        exact ⟨fun _ => Or.inl (Or.inl hlast), fun _ => by omega⟩
      · rw [hm'_other c hca hcl, h.used_iff c h2 hlt, List.flatten_cons, List.mem_append]
        constructor
        · rintro (h | h)
          · exact Or.inl (Or.inl h)
          · exact Or.inr h
        · rintro ((h | h) | h)
          · exact Or.inl h
          · exact absurd h hca
          · exact Or.inr h
  · refine (freeCount_shift hnd (fun c hc => ⟨(hfree c hc).1, (hfree c hc).2.1⟩)
      (fun c hc => ⟨(hfree c hc).2.2, chainOk_ne_zero hck c hc⟩) ?_).symm
    intro c hc
    by_cases hcl : c = l.getLastD 0
    · subst hcl
      rw [hm'_last]
      have := (hused _ (Or.inl hlast)).2.2
      constructor
      · intro; omega
      · intro h0; exact absurd h0 this
    · rw [hm'_other c hc hcl]

/-- what `allocateSpace` sees when handed the first cluster of an owned chain -/
theorem prev_walk {k lim max m fuel} {l : List Nat} (hlim : LimOk k lim) (hmax : lim ≤ max)
    (hl : ChainOk k lim m l) (hf : l.length ≤ fuel) :
    ¬ l.headD 0 > max ∧ 2 ≤ l.headD 0 ∧
      (if l.headD 0 ≥ 2 then walk k max m fuel (l.headD 0) else WalkRes.ok []) = .ok l ∧
      l.getLastD (l.headD 0) = l.getLastD 0 := by
  have hw := walk_complete hlim hmax hl hf
  cases l with
  | nil => exact hl.elim
  | cons a rest =>
    have ha := chainOk_mem hl a List.mem_cons_self
    have hh : (a :: rest).headD 0 = a := rfl
    refine ⟨by rw [hh]; omega, by rw [hh]; exact ha.1, ?_, by simp only [hh, List.getLastD_cons]⟩
    rw [if_pos (show (a :: rest).headD 0 ≥ 2 from ha.1)]; exact hw

theorem alloc_grow_core {k lim max bpc pick fuel m size l others} {l' : List Nat}
    (h : Inv k lim m (l :: others)) (hp : PickSpec lim pick) (hlim : LimOk k lim)
    (hmax : lim ≤ max) (hf : l.length ≤ fuel) (hcount : l.length ≤ cnt size bpc)
    (hres : (allocateSpace k max bpc pick fuel m size (l.headD 0)).res = some l') :
    Inv k lim (allocateSpace k max bpc pick fuel m size (l.headD 0)).m (l' :: others) ∧
      l'.length = cnt size bpc ∧ l'.take l.length = l ∧
      freeCount lim (allocateSpace k max bpc pick fuel m size (l.headD 0)).m
        + (l'.length - l.length) = freeCount lim m := by
  have hl : ChainOk k lim m l := h.chains l List.mem_cons_self
  obtain ⟨hp1, hp2, hwk, hlastd⟩ := prev_walk (fuel := fuel) hlim hmax hl hf
  rw [alloc_eq hp1 hwk] at hres ⊢
  by_cases he : cnt size bpc = l.length
  · rw [if_pos he] at hres ⊢
    simp only [Option.some.injEq] at hres
    subst hres
    exact ⟨h, he.symm, List.take_length, by simp⟩
  · have hgt : cnt size bpc > l.length := by omega
    rw [if_neg he, if_pos hgt] at hres ⊢
    split at hres
    · cases hres
    · rename_i hlen
      rw [if_neg hlen]
      simp only [Option.some.injEq] at hres
      subst hres
      have hle := hp.len_le m (cnt size bpc - l.length)
      have hlen' : (pick m (cnt size bpc - l.length)).length = cnt size bpc - l.length := by omega
      generalize hA : pick m (cnt size bpc - l.length) = alloc at hlen'
      have hnd : alloc.Nodup := hA ▸ hp.nodup m _
      have hfree : ∀ c ∈ alloc, 2 ≤ c ∧ c < lim ∧ m c = 0 := hA ▸ hp.free m _
      cases alloc with
      | nil => simp at hlen'; omega
      | cons b r =>
        have hlast_in := getLastD_mem (chainOk_ne_nil hl)
        have hlast2 := (chainOk_mem hl _ hlast_in).1
        simp only [if_pos hp2, hlastd, List.headD_cons]
        rw [if_pos (by omega)]
        have := grow_core h hnd hfree
        refine ⟨this.1, ?_, ?_, ?_⟩
        · rw [List.length_append, hlen']; omega
        · exact List.take_left
        · rw [List.length_append, Nat.add_sub_cancel_left]; exact this.2

theorem alloc_grow_inv {k lim max bpc pick fuel m size l others} {l' : List Nat}
    (h : Inv k lim m (l :: others)) (hp : PickSpec lim pick) (hlim : LimOk k lim)
    (hmax : lim ≤ max) (_hb : 0 < bpc) (hf : l.length ≤ fuel) :
    let count := size / bpc + (if size % bpc > 0 then 1 else 0)
    l.length ≤ count →
    (allocateSpace k max bpc pick fuel m size (l.headD 0)).res = some l' →
    Inv k lim (allocateSpace k max bpc pick fuel m size (l.headD 0)).m (l' :: others) ∧
      l'.length = count ∧ l'.take l.length = l := by
  intro count hcount hres
  have := alloc_grow_core h hp hlim hmax hf hcount hres
  exact ⟨this.1, this.2.1, this.2.2.1⟩

/-- 8b. free-space accounting for growing a chain -/
theorem free_after_grow {k lim max bpc pick fuel m size l others} {l' : List Nat}
    (h : Inv k lim m (l :: others)) (hp : PickSpec lim pick) (hlim : LimOk k lim)
    (hmax : lim ≤ max) (_hb : 0 < bpc) (hf : l.length ≤ fuel)
    (hcount : l.length ≤ size / bpc + (if size % bpc > 0 then 1 else 0))
    (hres : (allocateSpace k max bpc pick fuel m size (l.headD 0)).res = some l') :
    freeCount lim (allocateSpace k max bpc pick fuel m size (l.headD 0)).m
      + (l'.length - l.length) = freeCount lim m :=
  (alloc_grow_core h hp hlim hmax hf hcount hres).2.2.2

/-! ### 6. shrinking a chain -/

theorem getD_mem_take : ∀ (l : List Nat) (n : Nat), 1 ≤ n → n ≤ l.length →
    l.getD (n - 1) 0 ∈ l.take n
  | [], n, h1, hn => by simp at hn; omega
  | a :: l, 1, _, _ => by simp
  | a :: l, n + 2, _, hn => by
    have e : n + 2 - 1 = (n + 1 - 1) + 1 := by omega
    rw [e, List.getD_cons_succ, List.take_succ_cons]
    exact List.mem_cons_of_mem _ (getD_mem_take l (n + 1) (by omega) (by simpa using hn))

theorem chainOk_take {k lim m m'} : ∀ {l : List Nat} (n : Nat), ChainOk k lim m l → l.Nodup →
    1 ≤ n → n ≤ l.length → (∀ c ∈ l.take n, c ≠ l.getD (n - 1) 0 → m' c = m c) →
    k.isEOC (m' (l.getD (n - 1) 0)) = true → ChainOk k lim m' (l.take n)
  | [], _, h, _, _, _, _, _ => h.elim
  | [a], n, h, _, h1, hn, _, he => by
    have : n = 1 := by simp at hn; omega
    subst this
    exact ⟨h.1, h.2.1, by simpa using he⟩
  | a :: b :: rest, 0, _, _, h1, _, _, _ => by omega
  | a :: b :: rest, 1, h, _, _, _, _, he => by
    exact ⟨h.1, h.2.1, by simpa using he⟩
  | a :: b :: rest, n + 2, h, hnd, _, hn, hag, he => by
    have hnd' := List.nodup_cons.1 hnd
    have e1 : n + 2 - 1 = (n + 1 - 1) + 1 := by omega
    have hget : (a :: b :: rest).getD (n + 2 - 1) 0 = (b :: rest).getD (n + 1 - 1) 0 := by
      rw [e1, List.getD_cons_succ]
    have hlen : n + 1 ≤ (b :: rest).length := by
      simp only [List.length_cons] at hn ⊢; omega
    have hin : (b :: rest).getD (n + 1 - 1) 0 ∈ b :: rest :=
      getD_mem _ _ (by omega)
    have hne : a ≠ (a :: b :: rest).getD (n + 2 - 1) 0 := by
      rw [hget]; intro hh; exact hnd'.1 (hh ▸ hin)
    have ih := chainOk_take (m' := m') (n + 1) h.2.2.2 hnd'.2 (by omega) hlen
      (fun c hc hcl => hag c (by rw [List.take_succ_cons]; exact List.mem_cons_of_mem _ hc)
        (by rw [hget]; exact hcl))
      (by rw [← hget]; exact he)
    rw [List.take_succ_cons] at ih ⊢
    rw [List.take_succ_cons]
    refine ⟨h.1, h.2.1, ?_, ih⟩
    rw [hag a (by simp) hne]; exact h.2.2.1

theorem shrink_core {k lim m l others} (n : Nat) (h : Inv k lim m (l :: others))
    (h1 : 1 ≤ n) (hn : n ≤ l.length) :
    Inv k lim (freeAll (m.set (l.getD (n - 1) 0) k.eoc) (l.drop n)) (l.take n :: others) ∧
      freeCount lim (freeAll (m.set (l.getD (n - 1) 0) k.eoc) (l.drop n))
        = freeCount lim m + (l.length - n) := by
  have hl : ChainOk k lim m l := h.chains l List.mem_cons_self
  have hnodup : (l ++ others.flatten).Nodup := by have := h.nodup; rwa [List.flatten_cons] at this
  obtain ⟨hlnd, hond, hdisj⟩ := List.nodup_append.1 hnodup
  have hsplit : l.take n ++ l.drop n = l := List.take_append_drop n l
  obtain ⟨_, hDnd, hTD⟩ := List.nodup_append.1 (hsplit.symm ▸ hlnd)
  have hused : ∀ c, c ∈ l ∨ c ∈ others.flatten → 2 ≤ c ∧ c < lim ∧ m c ≠ 0 := by
    intro c hc
    apply inv_flat h
    rw [List.flatten_cons, List.mem_append]; exact hc
  have hTl : ∀ c, c ∈ l.take n → c ∈ l := fun c hc => List.mem_of_mem_take hc
  have hDl : ∀ c, c ∈ l.drop n → c ∈ l := fun c hc => List.mem_of_mem_drop hc
  have hlTD : ∀ c, c ∈ l → c ∈ l.take n ∨ c ∈ l.drop n := by
    intro c hc; rw [← hsplit] at hc; exact List.mem_append.1 hc
  have hc0T : l.getD (n - 1) 0 ∈ l.take n := getD_mem_take l n h1 hn
  have hc0D : l.getD (n - 1) 0 ∉ l.drop n := fun hd => hTD _ hc0T _ hd rfl
  -- pointwise description of the new table
  have hm'_D : ∀ c, c ∈ l.drop n →
      freeAll (m.set (l.getD (n - 1) 0) k.eoc) (l.drop n) c = 0 := fun c hc => freeAll_mem _ _ c hc
  have hm'_other : ∀ c, c ∉ l.drop n → c ≠ l.getD (n - 1) 0 →
      freeAll (m.set (l.getD (n - 1) 0) k.eoc) (l.drop n) c = m c := by
    intro c hc hne
    rw [freeAll_notin _ _ c hc, CMap.set_ne m _ hne]
  have hm'_c0 : freeAll (m.set (l.getD (n - 1) 0) k.eoc) (l.drop n) (l.getD (n - 1) 0) = k.eoc := by
    rw [freeAll_notin _ _ _ hc0D, CMap.set_eq]
  refine ⟨⟨?_, ?_, ?_⟩, ?_⟩
  · intro o ho
    rcases List.mem_cons.1 ho with rfl | ho
    · exact chainOk_take n hl hlnd h1 hn
        (fun c hc hne => hm'_other c (fun hd => hTD c hc c hd rfl) hne)
        (by rw [hm'_c0]; exact isEOC_eoc k)
    · exact chains_frame (fun o ho => h.chains o (List.mem_cons_of_mem _ ho))
        (fun c hc => hm'_other c (fun hd => hdisj c (hDl c hd) c hc rfl)
          (fun hh => hdisj _ (hTl _ hc0T) c hc hh.symm)) o ho
  · rw [List.flatten_cons]
    exact hnodup.sublist ((List.take_sublist n l).append (List.Sublist.refl _))
  · intro c h2 hlt
    rw [List.flatten_cons, List.mem_append]
    by_cases hcd : c ∈ l.drop n
    · rw [hm'_D c hcd]
      constructor
      · intro h0; exact absurd rfl h0
      · rintro (hh | hh)
        · exact absurd rfl (hTD c hh c hcd)
        · exact absurd rfl (hdisj c (hDl c hcd) c hh)
    · by_cases hc0 : c = l.getD (n - 1) 0
      · subst hc0
        rw [hm'_c0]
        exact ⟨fun _ => Or.inl hc0T, fun _ => eoc_ne_zero k⟩
      · rw [hm'_other c hcd hc0, h.used_iff c h2 hlt, List.flatten_cons, List.mem_append]
        constructor
        · rintro (hh | hh)
          · exact Or.inl ((hlTD c hh).resolve_right hcd)
          · exact Or.inr hh
        · rintro (hh | hh)
          · exact Or.inl (hTl c hh)
          · exact Or.inr hh
  · have := freeCount_shift (lim := lim)
      (m := freeAll (m.set (l.getD (n - 1) 0) k.eoc) (l.drop n)) (m' := m) hDnd
      (fun c hc => ⟨(hused c (Or.inl (hDl c hc))).1, (hused c (Or.inl (hDl c hc))).2.1⟩)
      (fun c hc => ⟨hm'_D c hc, (hused c (Or.inl (hDl c hc))).2.2⟩)
      (by
        intro c hc
        by_cases hc0 : c = l.getD (n - 1) 0
        · subst hc0
          rw [hm'_c0]
          have := (hused _ (Or.inl (hTl _ hc0T))).2.2
          exact ⟨fun h0 => absurd h0 this, fun h0 => absurd h0 (eoc_ne_zero k)⟩
        · rw [hm'_other c hc hc0])
    rw [this, List.length_drop]

theorem chain_length_le {k lim m l others} (h : Inv k lim m (l :: others)) : l.length ≤ lim - 2 := by
  have hl : ChainOk k lim m l := h.chains l List.mem_cons_self
  have hnodup : (l ++ others.flatten).Nodup := by have := h.nodup; rwa [List.flatten_cons] at this
  have := nodup_length_le (List.nodup_append.1 hnodup).1 (List.nodup_range' (s := 2) (n := lim - 2) (step := 1))
    (fun x hx => mem_range2.2 (chainOk_mem hl x hx))
  rwa [List.length_range'] at this

theorem alloc_shrink_core {k lim max bpc pick fuel m size l others}
    (h : Inv k lim m (l :: others)) (hlim : LimOk k lim)
    (hmax : lim ≤ max) (hf : l.length ≤ fuel) (hcount : cnt size bpc < l.length) :
    (allocateSpace k max bpc pick fuel m size (l.headD 0)).res = some l ∧
    Inv k lim (allocateSpace k max bpc pick fuel m size (l.headD 0)).m
      (l.take (Nat.max (cnt size bpc) 1) :: others) ∧
    freeCount lim (allocateSpace k max bpc pick fuel m size (l.headD 0)).m
      = freeCount lim m + (l.length - Nat.max (cnt size bpc) 1) := by
  have hl : ChainOk k lim m l := h.chains l List.mem_cons_self
  obtain ⟨hp1, _, hwk, _⟩ := prev_walk (fuel := fuel) hlim hmax hl hf
  have hmx : Nat.max (cnt size bpc) 1 = cnt size bpc - 1 + 1 := by
    show Max.max (cnt size bpc) 1 = _; omega
  have hlen := chain_length_le h
  have hin := getD_mem l (cnt size bpc - 1) (by omega)
  have hcr := chainOk_mem hl _ hin
  rw [alloc_eq hp1 hwk, if_neg (by omega), if_neg (by omega),
    if_neg (by intro hh; rcases hh with hh | hh <;> omega), hmx]
  have := shrink_core (cnt size bpc - 1 + 1) h (by omega) (by omega)
  rw [Nat.add_sub_cancel] at this
  exact ⟨rfl, this.1, this.2⟩

theorem alloc_shrink_inv {k lim max bpc pick fuel m size l others}
    (h : Inv k lim m (l :: others)) (hlim : LimOk k lim)
    (hmax : lim ≤ max) (_hb : 0 < bpc) (hf : l.length ≤ fuel) :
    let count := size / bpc + (if size % bpc > 0 then 1 else 0)
    count < l.length →
    let r := allocateSpace k max bpc pick fuel m size (l.headD 0)
    r.res = some l ∧ Inv k lim r.m (l.take (Nat.max count 1) :: others) := by
  intro count hcount r
  have := alloc_shrink_core (pick := pick) h hlim hmax hf hcount
  exact ⟨this.1, this.2.1⟩

/-- 8c. free-space accounting for shrinking a chain -/
theorem free_after_shrink {k lim max bpc pick fuel m size l others}
    (h : Inv k lim m (l :: others)) (hlim : LimOk k lim)
    (hmax : lim ≤ max) (_hb : 0 < bpc) (hf : l.length ≤ fuel) :
    let count := size / bpc + (if size % bpc > 0 then 1 else 0)
    count < l.length →
    freeCount lim (allocateSpace k max bpc pick fuel m size (l.headD 0)).m
      = freeCount lim m + (l.length - Nat.max count 1) := by
  intro count hcount
  exact (alloc_shrink_core (pick := pick) h hlim hmax hf hcount).2.2

/-! ### 7. releasing a chain -/

theorem free_core {k lim m l others} (h : Inv k lim m (l :: others)) :
    Inv k lim (freeAll m l) others ∧ freeCount lim (freeAll m l) = freeCount lim m + l.length := by
  have hnodup : (l ++ others.flatten).Nodup := by have := h.nodup; rwa [List.flatten_cons] at this
  obtain ⟨hlnd, hond, hdisj⟩ := List.nodup_append.1 hnodup
  have hused : ∀ c, c ∈ l ∨ c ∈ others.flatten → 2 ≤ c ∧ c < lim ∧ m c ≠ 0 := by
    intro c hc
    apply inv_flat h
    rw [List.flatten_cons, List.mem_append]; exact hc
  refine ⟨⟨?_, hond, ?_⟩, ?_⟩
  · exact chains_frame (fun o ho => h.chains o (List.mem_cons_of_mem _ ho))
      (fun c hc => freeAll_notin l m c (fun hcl => hdisj c hcl c hc rfl))
  · intro c h2 hlt
    by_cases hcl : c ∈ l
    · rw [freeAll_mem l m c hcl]
      exact ⟨fun h0 => absurd rfl h0, fun hh => absurd rfl (hdisj c hcl c hh)⟩
    · rw [freeAll_notin l m c hcl, h.used_iff c h2 hlt, List.flatten_cons, List.mem_append]
      exact ⟨fun hh => hh.resolve_left hcl, Or.inr⟩
  · exact freeCount_shift (lim := lim) (m := freeAll m l) (m' := m) hlnd
      (fun c hc => ⟨(hused c (Or.inl hc)).1, (hused c (Or.inl hc)).2.1⟩)
      (fun c hc => ⟨freeAll_mem l m c hc, (hused c (Or.inl hc)).2.2⟩)
      (fun c hc => by rw [freeAll_notin l m c hc])

theorem freeChain_eq {k lim max m fuel l others} (h : Inv k lim m (l :: others))
    (hlim : LimOk k lim) (hmax : lim ≤ max) (hf : l.length ≤ fuel) :
    freeChain k max fuel m (l.headD 0) = (freeAll m l, true) := by
  have hl : ChainOk k lim m l := h.chains l List.mem_cons_self
  obtain ⟨_, hp2, _, _⟩ := prev_walk (fuel := fuel) hlim hmax hl hf
  unfold freeChain
  rw [if_neg (by omega), walk_complete hlim hmax hl hf]

theorem freeChain_inv {k lim max m fuel l others} (h : Inv k lim m (l :: others))
    (hlim : LimOk k lim) (hmax : lim ≤ max) (hf : l.length ≤ fuel) :
    (freeChain k max fuel m (l.headD 0)).2 = true ∧
      Inv k lim (freeChain k max fuel m (l.headD 0)).1 others := by
  rw [freeChain_eq h hlim hmax hf]
  exact ⟨rfl, (free_core h).1⟩

/-- 8d. `remove_returns_all`: releasing a chain gives back every one of its clusters -/
theorem free_after_freeChain {k lim max m fuel l others} (h : Inv k lim m (l :: others))
    (hlim : LimOk k lim) (hmax : lim ≤ max) (hf : l.length ≤ fuel) :
    freeCount lim (freeChain k max fuel m (l.headD 0)).1 = freeCount lim m + l.length := by
  rw [freeChain_eq h hlim hmax hf]
  exact (free_core h).2

/-! ### 10. space released by remove can be used again without limit -/

/-- create a file of `size` bytes, then remove it (repaired remove: the chain is released) -/
def cycle (k : Kind) (max bpc : Nat) (pick : CMap → Nat → List Nat) (fuel : Nat) (m : CMap)
    (size : Nat) : CMap :=
  match (allocateSpace k max bpc pick fuel m size 0).res with
  | some l' => (freeChain k max fuel (allocateSpace k max bpc pick fuel m size 0).m (l'.headD 0)).1
  | none => m

/-- `n` create/remove cycles -/
def cycles (k : Kind) (max bpc : Nat) (pick : CMap → Nat → List Nat) (fuel size : Nat) :
    Nat → CMap → CMap
  | 0, m => m
  | n + 1, m => cycles k max bpc pick fuel size n (cycle k max bpc pick fuel m size)

theorem cycle_step {k lim max bpc pick fuel m size owners}
    (h : Inv k lim m owners) (hp : PickSpec lim pick) (hlim : LimOk k lim) (hmax : lim ≤ max)
    (hb : 0 < bpc) (hs : 0 < size)
    (hfuel : size / bpc + (if size % bpc > 0 then 1 else 0) ≤ fuel)
    (hfree : size / bpc + (if size % bpc > 0 then 1 else 0) ≤ freeCount lim m) :
    (allocateSpace k max bpc pick fuel m size 0).res ≠ none ∧
      Inv k lim (cycle k max bpc pick fuel m size) owners ∧
      freeCount lim (cycle k max bpc pick fuel m size) = freeCount lim m := by
  have hok : (allocateSpace k max bpc pick fuel m size 0).res ≠ none := by
    intro hn
    have := (alloc_fails_iff (fuel := fuel) h hp hlim hmax hb hs).1 hn
    omega
  refine ⟨hok, ?_⟩
  cases hres : (allocateSpace k max bpc pick fuel m size 0).res with
  | none => exact absurd hres hok
  | some l' =>
    obtain ⟨hinv, hlen, hcnt⟩ := alloc_new_core h hp hb hs hres
    have hf : l'.length ≤ fuel := by rw [hlen]; exact hfuel
    have h1 := freeChain_inv hinv hlim hmax hf
    have h2 := free_after_freeChain hinv hlim hmax hf
    simp only [cycle, hres]
    exact ⟨h1.2, by omega⟩

theorem refill_unbounded {k lim max bpc pick fuel size owners}
    (hp : PickSpec lim pick) (hlim : LimOk k lim) (hmax : lim ≤ max)
    (hb : 0 < bpc) (hs : 0 < size)
    (hfuel : size / bpc + (if size % bpc > 0 then 1 else 0) ≤ fuel) :
    ∀ (n : Nat) (m : CMap), Inv k lim m owners →
      size / bpc + (if size % bpc > 0 then 1 else 0) ≤ freeCount lim m →
      Inv k lim (cycles k max bpc pick fuel size n m) owners ∧
      freeCount lim (cycles k max bpc pick fuel size n m) = freeCount lim m ∧
      (allocateSpace k max bpc pick fuel (cycles k max bpc pick fuel size n m) size 0).res ≠ none
  | 0, m, h, hfree => ⟨h, rfl, (cycle_step h hp hlim hmax hb hs hfuel hfree).1⟩
  | n + 1, m, h, hfree => by
    obtain ⟨_, hinv, hcnt⟩ := cycle_step h hp hlim hmax hb hs hfuel hfree
    have := refill_unbounded hp hlim hmax hb hs hfuel n _ hinv (by rw [hcnt]; exact hfree)
    simp only [cycles]
    exact ⟨this.1, by rw [this.2.1, hcnt], this.2.2⟩

/-! ### 11. the executable checker decides the invariant -/

theorem chainOkB_iff {k lim m} : ∀ (l : List Nat), chainOkB k lim m l = true ↔ ChainOk k lim m l
  | [] => by simp [chainOkB, ChainOk]
  | [a] => by simp [chainOkB, ChainOk, and_assoc]
  | a :: b :: rest => by
    have ih := chainOkB_iff (k := k) (lim := lim) (m := m) (b :: rest)
    simp only [chainOkB, ChainOk, Bool.and_eq_true, decide_eq_true_eq, ih, and_assoc]

theorem nodupB_iff : ∀ (l : List Nat), nodupB l = true ↔ l.Nodup
  | [] => by simp [nodupB]
  | a :: l => by
    have ih := nodupB_iff l
    simp only [nodupB, Bool.and_eq_true, Bool.not_eq_true', ih, List.nodup_cons]
    rw [← Bool.not_eq_true, List.contains_iff_mem]

theorem invB_iff {k lim m owners} : invB k lim m owners = true ↔ Inv k lim m owners := by
  unfold invB
  rw [Bool.and_eq_true, Bool.and_eq_true, List.all_eq_true, List.all_eq_true, nodupB_iff]
  have key : ∀ c, ((decide (m c ≠ 0) == owners.flatten.contains c) = true) ↔
      (m c ≠ 0 ↔ c ∈ owners.flatten) := by
    intro c
    rw [beq_iff_eq, Bool.eq_iff_iff, decide_eq_true_eq, List.contains_iff_mem]
  constructor
  · rintro ⟨⟨h1, h2⟩, h3⟩
    exact ⟨fun l hl => (chainOkB_iff l).1 (h1 l hl), h2,
      fun c hc2 hcl => (key c).1 (h3 c (mem_range2.2 ⟨hc2, hcl⟩))⟩
  · intro h
    exact ⟨⟨fun l hl => (chainOkB_iff l).2 (h.chains l hl), h.nodup⟩,
      fun c hc => (key c).2 (h.used_iff c (mem_range2.1 hc).1 (mem_range2.1 hc).2)⟩

/-! ### 12. as found: removing an owner without releasing its chain breaks the invariant -/

/-- table: cluster 2 is a one-cluster file, 3 → 4 → EOC a two-cluster file -/
def exTable : CMap := CMap.ofList [0, 0, 0xFFF, 4, 0xFFF]

/-- both files owned: accepted -/
theorem ex_inv_ok : invB .f12 10 exTable [[2], [3, 4]] = true := by decide

/-- the as-found `Remove` drops the directory entry (owner `[3,4]`) but leaves the table alone:
    clusters 3 and 4 stay marked used with no owner — rejected (lost clusters) -/
theorem cex_remove_leak : ¬ invB .f12 10 exTable [[2]] = true := by decide

/-- the repaired remove releases the chain and the invariant holds again -/
theorem ex_remove_repaired :
    invB .f12 10 (freeChain .f12 10 10 exTable 3).1 [[2]] = true := by decide

/-! ### non-vacuity: the hypotheses of 4–7 hold together on a small FAT12 table -/

theorem ex_limOk : LimOk .f12 10 := by
  intro c hc
  simp only [Kind.isEOC, decide_eq_false_iff_not]
  omega

theorem ex_inv : Inv .f12 10 exTable [[2], [3, 4]] := invB_iff.1 ex_inv_ok

theorem ex_inv' : Inv .f12 10 exTable [[3, 4], [2]] := invB_iff.1 (by decide)

/-- 4: a new two-cluster file gets clusters 5, 6 -/
example : (allocateSpace .f12 10 512 (firstFit 10) 10 exTable 1024 0).res = some [5, 6] := by decide

example : Inv .f12 10 (allocateSpace .f12 10 512 (firstFit 10) 10 exTable 1024 0).m
    ([5, 6] :: [[2], [3, 4]]) :=
  (alloc_new_inv ex_inv (firstFit_spec 10) ex_limOk (by decide) (by decide) (by decide)
    (by decide)).1

/-- 5: the file 3 → 4 grows to three clusters and keeps 3, 4 as its prefix -/
example : (allocateSpace .f12 10 512 (firstFit 10) 10 exTable 1536 ([3, 4].headD 0)).res
    = some [3, 4, 5] := by decide

example : Inv .f12 10 (allocateSpace .f12 10 512 (firstFit 10) 10 exTable 1536 ([3, 4].headD 0)).m
    ([3, 4, 5] :: [[2]]) :=
  (alloc_grow_inv ex_inv' (firstFit_spec 10) ex_limOk (by decide) (by decide) (by decide)
    (by decide) (by decide)).1

/-- 6: the file 3 → 4 shrinks to one cluster -/
example : Inv .f12 10 (allocateSpace .f12 10 512 (firstFit 10) 10 exTable 512 ([3, 4].headD 0)).m
    ([3] :: [[2]]) :=
  (alloc_shrink_inv (pick := firstFit 10) (size := 512) (bpc := 512) ex_inv' ex_limOk
    (by decide) (by decide) (by decide) (by decide)).2

example : freeCount 10 (allocateSpace .f12 10 512 (firstFit 10) 10 exTable 512 3).m = 6 ∧
    freeCount 10 exTable = 5 := by decide

/-- 7: the file 3 → 4 is removed -/
example : Inv .f12 10 (freeChain .f12 10 10 exTable ([3, 4].headD 0)).1 [[2]] :=
  (freeChain_inv ex_inv' ex_limOk (by decide) (by decide)).2

/-- 9: a ten-cluster file does not fit (5 clusters free) -/
example : (allocateSpace .f12 10 512 (firstFit 10) 10 exTable 5120 0).res = none := by decide

end Diskfs.Fat
