import DiskfsModel.Model.Iso.Svd
import DiskfsModel.Proofs.IsoImage
namespace Diskfs.Iso

theorem encodeSVD_length (s : SVD) (h : s.WF) : (encodeSVD s).length = 2048 := by
  obtain ⟨he, h1, h2, _, _, _, _, _, _, _, _, _, _, _, hd, hn, ht⟩ := h
  have := encodeRec_length s.d.root hd
  simp [encodeSVD, svdMagic, h1, h2, ht, he, this, recLen, recPad, hn]

theorem decode_encodeSVD (s : SVD) (h : s.WF) : decodeSVD (encodeSVD s) = some s := by
  have hlen := encodeSVD_length s h
  obtain ⟨he, h1, h2, h3, h4, h5, h6, h7, h8, h9, h10, h11, h12, h13, hd, hn, ht⟩ := h
  have hroot : (encodeRec s.d.root).length = 34 := by
    rw [encodeRec_length s.d.root hd]; simp [recLen, recPad, hn]
  have e4 : ∀ n, n < 2 ^ 32 → leDec (leEnc 4 n) = n := fun n hn => leDec_leEnc_of_lt 4 n (by simpa using hn)
  have b4 : ∀ n, n < 2 ^ 32 → beDec (beEnc 4 n) = n := fun n hn => beDec_beEnc_of_lt 4 n (by simpa using hn)
  unfold decodeSVD
  rw [hlen]
  unfold encodeSVD
  rw [split_append _ _ 8 (by simp [svdMagic])]; simp only []
  rw [split_append _ _ 32 h1]; simp only []
  rw [split_append _ _ 32 h2]; simp only []
  rw [split_append _ _ 8 (by simp)]; simp only []
  rw [split_append _ _ 8 (by simp)]; simp only []
  rw [split_append _ _ 32 he]; simp only []
  rw [split_append _ _ 4 (by simp)]; simp only []
  rw [split_append _ _ 4 (by simp)]; simp only []
  rw [split_append _ _ 4 (by simp)]; simp only []
  rw [split_append _ _ 8 (by simp)]; simp only []
  rw [split_append _ _ 4 (by simp)]; simp only []
  rw [split_append _ _ 4 (by simp)]; simp only []
  rw [split_append _ _ 4 (by simp)]; simp only []
  rw [split_append _ _ 4 (by simp)]; simp only []
  rw [split_append _ _ 34 hroot]; simp only []
  rw [unboth_both32 _ h3, unboth_both16 _ h4, unboth_both16 _ h5, unboth_both16 _ h6, unboth_both32 _ h7,
    decode_encodeRec s.d.root h12 h13 hd (by omega), e4 _ h8, e4 _ h9, b4 _ h10, b4 _ h11]
  simp [svdMagic]

end Diskfs.Iso
