/-
  What `Table.Write` (Model/GptGeom.lean `writeUp`) leaves on ANY prior device for an initialised table of
  ANY well-formed geometry, region by region, and the header sectors it emits (accepted by readGPTHeader,
  valid for the independent specification).  Helper for Props/C02 and Props/C09.
-/
import DiskfsModel.Proofs.GptGeom
set_option linter.unusedSimpArgs false
set_option linter.unusedVariables false
namespace Diskfs.Gpt
open Diskfs.GptSpec

/-- `five_regions` for an array of `ab` bytes at `oPA` -/
theorem five_regionsG (d : Dev) (lss ab oPA oBA oBH : Nat) (arr ph bh pm : Bytes) (pmOpt pmLast : Bool)
    (h512 : 512 ≤ lss) (harr : arr.length = ab) (hph : ph.length = lss) (hbh : bh.length = lss)
    (hpm : pm.length = 66) (h0 : 2 * lss ≤ oPA) (h1 : oPA + ab ≤ oBA) (h2 : oBA + ab ≤ oBH) :
    ∀ ws, ws = (if pmLast then [Wr.mk oBA arr, ⟨oBH, bh⟩, ⟨oPA, arr⟩, ⟨lss, ph⟩] ++ (if pmOpt then [Wr.mk 446 pm] else [])
                else (if pmOpt then [Wr.mk 446 pm] else []) ++ [Wr.mk oBA arr, ⟨oBH, bh⟩, ⟨oPA, arr⟩, ⟨lss, ph⟩]) →
      readAt (applyWrs d ws) lss lss = ph ∧ readAt (applyWrs d ws) oPA ab = arr ∧
      readAt (applyWrs d ws) oBH lss = bh ∧ readAt (applyWrs d ws) oBA ab = arr ∧
      (pmOpt = true → readAt (applyWrs d ws) 446 66 = pm) := by
  intro ws hws
  have hp : ws.Pairwise Disj := by
    subst hws
    cases pmOpt <;> cases pmLast <;>
      simp only [if_true, Bool.false_eq_true, if_false, List.append_nil, List.nil_append, List.cons_append,
        List.pairwise_cons, List.mem_cons, List.mem_singleton, List.not_mem_nil, Disj, forall_eq_or_imp, forall_eq,
        List.Pairwise.nil, and_true, or_false, harr, hph, hbh, hpm, false_imp_iff, implies_true] <;>
      omega
  have m1 : (⟨lss, ph⟩ : Wr) ∈ ws := by subst hws; cases pmOpt <;> cases pmLast <;> simp
  have m2 : (⟨oPA, arr⟩ : Wr) ∈ ws := by subst hws; cases pmOpt <;> cases pmLast <;> simp
  have m3 : (⟨oBH, bh⟩ : Wr) ∈ ws := by subst hws; cases pmOpt <;> cases pmLast <;> simp
  have m4 : (⟨oBA, arr⟩ : Wr) ∈ ws := by subst hws; cases pmOpt <;> cases pmLast <;> simp
  have r1 := readAt_applyWrs_mem d ws hp _ m1
  have r2 := readAt_applyWrs_mem d ws hp _ m2
  have r3 := readAt_applyWrs_mem d ws hp _ m3
  have r4 := readAt_applyWrs_mem d ws hp _ m4
  simp only [hph, harr, hbh] at r1 r2 r3 r4
  refine ⟨r1, r2, r3, r4, ?_⟩
  intro ho
  have m5 : (⟨446, pm⟩ : Wr) ∈ ws := by subst hws; subst ho; cases pmLast <;> simp
  have r5 := readAt_applyWrs_mem d ws hp _ m5
  simpa only [hpm] using r5

theorem hdrEncUp_shape (crc : Bytes → Nat) (t : Table) (primary : Bool) (arr : Bytes) :
    hdrEncUp crc t primary arr =
      hdrBody (leEnc 4 (crc (hdrBody (zeros 4) (if primary then t.primaryHeader else t.secondaryHeader)
          (if primary then t.secondaryHeader else t.primaryHeader) t.firstData t.lastData t.guid
          (arraySectorUp t primary) t.arrCount 0x80 (crc arr))))
        (if primary then t.primaryHeader else t.secondaryHeader)
        (if primary then t.secondaryHeader else t.primaryHeader) t.firstData t.lastData t.guid
        (arraySectorUp t primary) t.arrCount 0x80 (crc arr) ++ zeros (t.lss - 92) := rfl

theorem hdrEncUp_length (crc : Bytes → Nat) (t : Table) (primary : Bool) (arr : Bytes) (hg : t.guid.length = 16)
    (hl : 92 ≤ t.lss) : (hdrEncUp crc t primary arr).length = t.lss := by
  unfold hdrEncUp
  simp only [List.length_append, zeros_length]
  rw [hdrBody_length _ (by simp) _ _ _ _ _ hg]
  omega

/-- readGPTHeader accepts the sector `toGPTBytes` emits for a table and returns its fields -/
theorem readHeader_hdrEncUp (crc : Bytes → Nat) (hcrc : ∀ b, crc b < two32) (t : Table) (primary : Bool) (arr : Bytes)
    (hg : t.guid.length = 16) (hph : t.primaryHeader < two64) (hsh : t.secondaryHeader < two64)
    (hfd : t.firstData < two64) (hld : t.lastData < two64) (has : arraySectorUp t primary < two64)
    (hac : t.arrCount < two32) :
    readHeader crc (hdrEncUp crc t primary arr) = .ok
      { myLBA := if primary then t.primaryHeader else t.secondaryHeader,
        altLBA := if primary then t.secondaryHeader else t.primaryHeader,
        firstData := t.firstData, lastData := t.lastData, guid := t.guid, arrLBA := arraySectorUp t primary,
        count := t.arrCount, entSize := 128, arrCrc := crc arr } := by
  have hmy : (if primary then t.primaryHeader else t.secondaryHeader) < two64 := by cases primary <;> simp [hph, hsh]
  have halt : (if primary then t.secondaryHeader else t.primaryHeader) < two64 := by cases primary <;> simp [hph, hsh]
  have hrd := readHeader_hdrBody crc hcrc (if primary then t.primaryHeader else t.secondaryHeader)
    (if primary then t.secondaryHeader else t.primaryHeader) t.firstData t.lastData t.guid hg
    (arraySectorUp t primary) t.arrCount 0x80 (crc arr) (zeros (t.lss - 92)) hmy halt hfd hld has hac (by decide) (hcrc arr)
  rw [← hdrEncUp_shape] at hrd
  exact hrd

/-- the numbers of a well-formed table fit their header fields -/
theorem geom_bounds (t : Table) (size : Nat) (hg : GeomWF t size) :
    92 ≤ t.lss ∧ t.primaryHeader < two64 ∧ t.secondaryHeader < two64 ∧ arraySectorUp t true = 2 ∧
    arraySectorUp t false = t.secondaryHeader - partSectorsUp t ∧ arraySectorUp t true < two64 ∧
    arraySectorUp t false < two64 ∧ t.arrCount < two32 := by
  obtain ⟨g1, g2, g3, g4, g5, g6, g7, g8, g9⟩ := geom_layout t size hg
  have h1 := hg.lss; have h2 := hg.cntMax
  have hsh64 : t.secondaryHeader < two64 := by simp only [two63, two64] at *; omega
  have a1 : arraySectorUp t true = 2 := by simp [arraySectorUp, hg.ph, u64, two64]
  have a2 : arraySectorUp t false = t.secondaryHeader - partSectorsUp t := by
    simp only [arraySectorUp, Bool.false_eq_true, if_false]
    exact u64sub_le _ _ g8 hsh64
  refine ⟨by omega, by rw [hg.ph]; decide, hsh64, a1, a2, by rw [a1]; decide, by rw [a2]; omega, by simp only [two32]; omega⟩

/-- the device after `Write`, region by region (any prior content `d`, any well-formed geometry) -/
theorem write_regionsG (c : Cfg) (crc : Bytes → Nat) (d : Dev) (t : Table) (size : Nat) (ws : List Wr) (t' : Table)
    (hg : GeomWF t size) (hw : writeUp c crc t size = .ok (ws, t')) :
    ∃ arr ps, arrEnc c t = .ok (arr, ps) ∧ arr.length = arrBytes t ∧ t' = { t with parts := ps } ∧
      ws = (if c.pmbrLast then coreUp crc t arr ++ pmWrs c t else pmWrs c t ++ coreUp crc t arr) ∧
      readAt (applyWrs d ws) t.lss t.lss = hdrEncUp crc t true arr ∧
      readAt (applyWrs d ws) (2 * t.lss) (arrBytes t) = arr ∧
      readAt (applyWrs d ws) (offBH t) t.lss = hdrEncUp crc t false arr ∧
      readAt (applyWrs d ws) (offBA t) (arrBytes t) = arr ∧
      (t.pmbr = true → readAt (applyWrs d ws) 446 66 = pmbrEnc c t) := by
  obtain ⟨arr, ps, harr, hlen, ht, hws⟩ := writeUp_geom_exact c crc t size ws t' hg hw
  obtain ⟨g1, g2, g3, g4, g5, g6, g7, g8, g9⟩ := geom_layout t size hg
  obtain ⟨k1, _⟩ := geom_bounds t size hg
  have h512 := hg.lss
  have := five_regionsG d t.lss (arrBytes t) (2 * t.lss) (offBA t) (offBH t) arr (hdrEncUp crc t true arr)
    (hdrEncUp crc t false arr) (pmbrEnc c t) t.pmbr c.pmbrLast h512 hlen
    (hdrEncUp_length crc t true arr hg.guid k1) (hdrEncUp_length crc t false arr hg.guid k1)
    (by simp [pmbrEnc]) (Nat.le_refl _) (by omega) (by omega) ws (by rw [hws]; simp only [coreUp, pmWrs])
  obtain ⟨r1, r2, r3, r4, r5⟩ := this
  exact ⟨arr, ps, harr, hlen, ht, hws, r1, r2, r3, r4, r5⟩

end Diskfs.Gpt
