/-
  C16 helper lemmas, part 4: every verdict of CompareFS is truthful (not only `ok`), and
  stripping excluded names respects "same paths, kinds, sizes, contents".
-/
import DiskfsModel.Proofs.SyncCopy
namespace Diskfs.Sync
open Forest

/-- what each verdict claims about the two trees (minus excluded names) -/
def VerdictTrue (ex : List String) (a b : Forest) : CmpResult → Prop
  | .ok => stripExcluded ex a ≈ stripExcluded ex b
  | .missing p => p ≠ [] ∧ (∃ it, (stripExcluded ex a).lookup p = some it) ∧ (stripExcluded ex b).lookup p = none
  | .typeMismatch p =>
    ((stripExcluded ex a).lookup p = some .dir ∧ ∃ d, (stripExcluded ex b).lookup p = some (.file d)) ∨
    ((∃ d, (stripExcluded ex a).lookup p = some (.file d)) ∧ (stripExcluded ex b).lookup p = some .dir)
  | .sizeMismatch p => ∃ da db, (stripExcluded ex a).lookup p = some (.file da) ∧
      (stripExcluded ex b).lookup p = some (.file db) ∧ da.length ≠ db.length
  | .contentMismatch p => ∃ da db, (stripExcluded ex a).lookup p = some (.file da) ∧
      (stripExcluded ex b).lookup p = some (.file db) ∧ da.length = db.length ∧ da ≠ db
  | .extra p => p ≠ [] ∧ (∃ it, (stripExcluded ex b).lookup p = some it) ∧ (stripExcluded ex a).lookup p = none
  | .unsupported _ => False

theorem firstErr_mem (l : List CmpResult) (h : firstErr l ≠ .ok) : firstErr l ∈ l := by
  induction l with
  | nil => simp [firstErr] at h
  | cons x xs ih =>
    cases x <;> simp only [firstErr] at h ⊢ <;> first
      | exact List.mem_cons_self ..
      | exact List.mem_cons_of_mem _ (ih h)

/-- the first-pass callback tells the truth about one entry -/
def EntryTrue (target : Forest) (p : Path) (it : Item) : CmpResult → Prop
  | .ok => target.lookup p = some it
  | .missing q => q = p ∧ target.lookup p = none
  | .typeMismatch q => q = p ∧ ((it = .dir ∧ ∃ d, target.lookup p = some (.file d)) ∨
      ((∃ d, it = .file d) ∧ target.lookup p = some .dir))
  | .sizeMismatch q => q = p ∧ ∃ da db, it = .file da ∧ target.lookup p = some (.file db) ∧ da.length ≠ db.length
  | .contentMismatch q => q = p ∧ ∃ da db, it = .file da ∧ target.lookup p = some (.file db) ∧
      da.length = db.length ∧ da ≠ db
  | .extra _ => False
  | .unsupported _ => False

theorem checkEntry_truthful (c : Cfg) (ra rb : ReaderBehaviour) (hfa : FullReads ra c.cmpBuf)
    (hfb : FullReads rb c.cmpBuf) (hbuf : 0 < c.cmpBuf) (target : Forest) (p : Path) (it : Item)
    (hit : it = .dir ∨ ∃ d, it = .file d)
    (htb : ∀ tb, target.lookup p = some tb → tb = .dir ∨ ∃ d, tb = .file d) :
    EntryTrue target p it (checkEntry c ra rb target p it) := by
  unfold checkEntry
  cases hl : target.lookup p with
  | none => simp [EntryTrue, hl]
  | some tb =>
    rcases htb tb hl with rfl | ⟨db, rfl⟩
    · rcases hit with rfl | ⟨da, rfl⟩
      · simp [EntryTrue, hl]
      · simp [EntryTrue, hl]
    · rcases hit with rfl | ⟨da, rfl⟩
      · simp [EntryTrue, hl]
      · simp only
        by_cases hlen : da.length = db.length
        · simp only [hlen, ne_eq, not_true_eq_false, if_false]
          have := cmpContents_full c.cmpBuf ra rb hfa hfb hbuf da db
          by_cases hcm : cmpContents c.cmpBuf ra rb da db = true
          · simp only [hcm, if_true, EntryTrue, hl]; rw [this.1 hcm]
          · simp only [hcm, Bool.false_eq_true, if_false, EntryTrue, hl, true_and]
            exact ⟨da, db, rfl, rfl, hlen, fun e => hcm (this.2 e)⟩
        · simp only [ne_eq, hlen, not_false_eq_true, if_true, EntryTrue, hl, true_and]
          exact ⟨da, db, rfl, rfl, hlen⟩

/-- an unclean path (one with an excluded component) denotes nothing in a stripped tree -/
theorem lookup_strip_unclean (ex : List String) (k : Bool) (f : Forest) (p : Path) (hne : p ≠ [])
    (h : ¬ ∀ c ∈ p, ex.contains c = false) : (f.strip ex k).lookup p = none := by
  cases hl : (f.strip ex k).lookup p with
  | none => rfl
  | some it => exact absurd (clean_of_lookup_strip ex k f p it hne hl) h

/-- stripping excluded names respects tree equality -/
theorem strip_congr (ex : List String) (a b : Forest) (h : a ≈ b) : stripExcluded ex a ≈ stripExcluded ex b := by
  intro p
  unfold stripExcluded
  by_cases hp : p = []
  · subst hp; simp [lookup_nil_path]
  · by_cases hc : ∀ c ∈ p, ex.contains c = false
    · rw [lookup_strip_of_clean ex a p hc, lookup_strip_of_clean ex b p hc]; exact h p
    · rw [lookup_strip_unclean ex true a p hp hc, lookup_strip_unclean ex true b p hp hc]

theorem compareFS_truthful (c : Cfg) (hc : c.wf = true) (ra rb : ReaderBehaviour)
    (hfa : FullReads ra c.cmpBuf) (hfb : FullReads rb c.cmpBuf) (a b : Forest)
    (hwa : a.wf = true) (hwb : b.wf = true) (hpa : a.plain = true) (hpb : b.plain = true) :
    VerdictTrue c.excluded a b (compareFS c ra rb a b) := by
  obtain ⟨hdot, hbuf, _⟩ := wf_excl_dot c hc
  have hwA := wf_strip c.excluded true a hwa
  have hwB := wf_strip c.excluded true b hwb
  by_cases hok : compareFS c ra rb a b = .ok
  · rw [hok]; exact (compareFS_ok_iff c hc ra rb hfa hfb a b hwa hwb hpa).1 hok
  · -- an error: it comes from one entry of one of the two walks
    have hdef : compareFS c ra rb a b =
        (firstErr ((([], Item.dir) :: (a.strip c.excluded true).flatAt []).map fun e => checkEntry c ra rb b e.1 e.2)).andThen
          fun _ => firstErr ((([], Item.dir) :: (b.strip c.excluded true).flatAt []).map fun e =>
            if ((([], Item.dir) :: (a.strip c.excluded true).flatAt []).map (·.1)).contains e.1 then .ok else .extra e.1) := by
      unfold compareFS
      simp only [walkRoot, hdot, Bool.false_eq_true, if_false, walkX_eq]
    rw [hdef] at hok ⊢
    generalize hx : firstErr ((([], Item.dir) :: (a.strip c.excluded true).flatAt []).map
      fun e => checkEntry c ra rb b e.1 e.2) = x at hok ⊢
    by_cases hxo : x = .ok
    · -- second pass
      subst hxo
      simp only [CmpResult.andThen] at hok ⊢
      have hm := firstErr_mem _ hok
      generalize firstErr ((([], Item.dir) :: (b.strip c.excluded true).flatAt []).map fun e =>
            if ((([], Item.dir) :: (a.strip c.excluded true).flatAt []).map (·.1)).contains e.1 then CmpResult.ok
            else .extra e.1) = y at hm hok ⊢
      obtain ⟨e, he, hm⟩ := List.mem_map.1 hm
      rcases List.mem_cons.1 he with rfl | he
      · -- the root
        rw [if_pos (by simp)] at hm; exact absurd hm.symm hok
      · obtain ⟨p, it⟩ := e
        simp only at hm
        split at hm
        · exact absurd hm.symm hok
        · rename_i hcont
          rw [← hm]
          obtain ⟨hp, hB⟩ := (mem_flatAt_root _ hwB p it).1 he
          refine ⟨hp, ⟨it, hB⟩, ?_⟩
          cases hA : (stripExcluded c.excluded a).lookup p with
          | none => rfl
          | some it' =>
            exfalso
            apply hcont
            rw [List.contains_iff_mem]
            simp only [List.map_cons, List.mem_cons, List.mem_map]
            right
            exact ⟨(p, it'), (mem_flatAt_root _ hwA p it').2 ⟨hp, hA⟩, rfl⟩
    · -- first pass
      have hx' : x.andThen (fun _ => firstErr ((([], Item.dir) :: (b.strip c.excluded true).flatAt []).map fun e =>
            if ((([], Item.dir) :: (a.strip c.excluded true).flatAt []).map (·.1)).contains e.1 then .ok else .extra e.1)) = x := by
        cases x <;> first | rfl | exact absurd rfl hxo
      rw [hx']
      have hm := firstErr_mem _ (by rw [hx]; exact hxo)
      rw [hx] at hm
      obtain ⟨e, he, hm⟩ := List.mem_map.1 hm
      rcases List.mem_cons.1 he with rfl | he
      · simp [checkEntry, lookup_nil_path] at hm; exact absurd hm.symm hxo
      · obtain ⟨p, it⟩ := e
        simp only at hm
        obtain ⟨hp, hA⟩ := (mem_flatAt_root _ hwA p it).1 he
        have hcl := clean_of_lookup_strip c.excluded true a p it hp hA
        have hA' := hA
        rw [lookup_strip_of_clean c.excluded a p hcl] at hA'
        have hit := plain_lookup a hpa p it hA'
        have hBl : (stripExcluded c.excluded b).lookup p = b.lookup p := lookup_strip_of_clean c.excluded b p hcl
        have ht := checkEntry_truthful c ra rb hfa hfb hbuf b p it hit (fun tb h => plain_lookup b hpb p tb h)
        rw [hm] at ht
        cases x with
        | ok => exact absurd rfl hxo
        | missing q => obtain ⟨rfl, h2⟩ := ht; exact ⟨hp, ⟨it, hA⟩, by rw [hBl]; exact h2⟩
        | typeMismatch q =>
          obtain ⟨rfl, h2⟩ := ht
          simp only [VerdictTrue, hBl]
          rcases h2 with ⟨rfl, h3⟩ | ⟨⟨d, rfl⟩, h3⟩
          · exact Or.inl ⟨hA, h3⟩
          · exact Or.inr ⟨⟨d, hA⟩, h3⟩
        | sizeMismatch q =>
          obtain ⟨rfl, da, db, rfl, h3, h4⟩ := ht
          exact ⟨da, db, hA, by rw [hBl]; exact h3, h4⟩
        | contentMismatch q =>
          obtain ⟨rfl, da, db, rfl, h3, h4, h5⟩ := ht
          exact ⟨da, db, hA, by rw [hBl]; exact h3, h4, h5⟩
        | extra q => exact ht.elim
        | unsupported q => exact ht.elim

end Diskfs.Sync
