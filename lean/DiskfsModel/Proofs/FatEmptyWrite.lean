/-
  Helper lemmas for the zero-length `File.Write` (Model/Fat/EmptyWrite.lean `fileWriteRaw`):
  what allocateSpace does when the requested size needs exactly the clusters the chain has, or
  none at all (size 0: the first cluster is kept), and that the WriteAt calls of an empty buffer
  carry no bytes.
-/
import DiskfsModel.Model.Fat.EmptyWrite
import DiskfsModel.Proofs.FatChain
import DiskfsModel.Proofs.FatFileIO
namespace Diskfs.Fat

/-- WriteAt calls without bytes leave the device alone -/
theorem applyWrs_empty (d : Dev) : ∀ (ws : List Wr), (∀ w ∈ ws, w.data.length = 0) → applyWrs d ws = d
  | [], _ => rfl
  | w :: ws, h => by
    have hw : applyWr d w = d := by
      funext i
      have := h w List.mem_cons_self
      simp only [applyWr]
      rw [if_neg (by omega)]
    rw [applyWrs_cons, hw]
    exact applyWrs_empty d ws (fun x hx => h x (List.mem_cons_of_mem _ hx))

/-- the whole-cluster loop of `Write` with an empty buffer issues zero-length writes only -/
theorem writeLoop_nil_empty (g : IOGeom) : ∀ (cs : List Nat) (total : Nat) (ws : List Wr),
    (∀ w ∈ ws, w.data.length = 0) → ∀ w ∈ writeLoop g [] cs total ws, w.data.length = 0
  | [], _, ws, h => by simpa [writeLoop] using h
  | c :: cs, total, ws, h => by
    simp only [writeLoop]
    apply writeLoop_nil_empty g cs
    intro w hw
    rcases List.mem_append.1 hw with hw | hw
    · exact h w hw
    · simp at hw; subst hw; simp

/-- `Write([]byte{})`: every WriteAt call that is issued carries no bytes -/
theorem writeCore_nil_empty (g : IOGeom) (chain : List Nat) (off : Nat) (ws : List Wr)
    (h : writeCore g chain off [] = some ws) : ∀ w ∈ ws, w.data.length = 0 := by
  unfold writeCore at h
  by_cases h0 : off = 0
  · rw [if_pos h0] at h
    injection h with h; subst h
    exact writeLoop_nil_empty g chain 0 [] (by simp)
  · rw [if_neg h0] at h
    simp only at h
    by_cases hci : off / g.bpc ≥ chain.length
    · rw [if_pos hci] at h; exact absurd h (by simp)
    · rw [if_neg hci] at h
      by_cases hr : off % g.bpc = 0
      · rw [if_pos hr] at h
        injection h with h; subst h
        exact writeLoop_nil_empty g _ 0 [] (by simp)
      · rw [if_neg hr] at h
        injection h with h; subst h
        apply writeLoop_nil_empty g
        intro w hw
        simp at hw; subst hw; simp

/-- … and it panics exactly when the offset's cluster index is not in the list -/
theorem writeCore_nil_none_iff (g : IOGeom) (chain : List Nat) (off : Nat) :
    writeCore g chain off [] = none ↔ off ≠ 0 ∧ chain.length ≤ off / g.bpc := by
  unfold writeCore
  by_cases h0 : off = 0
  · rw [if_pos h0]; simp [h0]
  · rw [if_neg h0]
    simp only
    by_cases hci : off / g.bpc ≥ chain.length
    · rw [if_pos hci]; simp [h0]; exact hci
    · rw [if_neg hci]
      have : ¬ chain.length ≤ off / g.bpc := hci
      by_cases hr : off % g.bpc = 0
      · rw [if_pos hr]; simp [this]
      · rw [if_neg hr]; simp [this]

/-- an offset inside the file (or at its end, unless that is a cluster boundary) has its cluster
    in a chain that covers the size -/
theorem off_cluster_in_chain {bpc size off len : Nat} (hb : 0 < bpc)
    (hlen : len = Nat.max (cnt size bpc) 1) (hoff : off ≤ size)
    (hnb : ¬ (0 < off ∧ off = size ∧ off % bpc = 0)) : off = 0 ∨ off / bpc < len := by
  by_cases h0 : off = 0
  · exact Or.inl h0
  · right
    have hmx : cnt size bpc ≤ len := by rw [hlen]; exact Nat.le_max_left _ _
    suffices off / bpc < cnt size bpc by omega
    unfold cnt
    have hdm := Nat.div_add_mod size bpc
    have hdm' := Nat.div_add_mod off bpc
    have hle : off / bpc ≤ size / bpc := Nat.div_le_div_right hoff
    by_cases hs : size % bpc > 0
    · rw [if_pos hs]; omega
    · rw [if_neg hs]
      have hs0 : size % bpc = 0 := by omega
      -- size is a whole number of clusters: off < size (off = size is excluded), so off/bpc < size/bpc
      have hlt : off < size := by
        rcases Nat.lt_or_ge off size with h | h
        · exact h
        · exfalso
          have he : off = size := by omega
          exact hnb ⟨by omega, he, by rw [he]; exact hs0⟩
      have : off / bpc < size / bpc := by
        apply (Nat.div_lt_iff_lt_mul hb).2
        have : size / bpc * bpc = size := by
          have := Nat.div_add_mod size bpc
          rw [hs0, Nat.add_zero, Nat.mul_comm] at this; exact this
        omega
      omega

/-- allocateSpace asked for exactly what a well-formed file already has: a non-empty file keeps
    table and chain without a FAT write; an EMPTY file (size 0, count 0, one cluster) goes through
    the shrink branch, which keeps the first cluster and re-marks it end-of-chain. -/
theorem alloc_same_size {k lim max bpc pick fuel m size l others}
    (h : Inv k lim m (l :: others)) (hlim : LimOk k lim) (hmax : lim ≤ max) (hf : l.length ≤ fuel)
    (hlen : l.length = Nat.max (cnt size bpc) 1) :
    allocateSpace k max bpc pick fuel m size (l.headD 0) =
      if cnt size bpc = 0 then ⟨m.set (l.headD 0) k.eoc, some l, true⟩ else ⟨m, some l, false⟩ := by
  have hl : ChainOk k lim m l := h.chains l List.mem_cons_self
  obtain ⟨hp1, _, hwk, _⟩ := prev_walk (fuel := fuel) hlim hmax hl hf
  rw [alloc_eq hp1 hwk]
  by_cases hc : cnt size bpc = 0
  · have hl1 : l.length = 1 := by rw [hlen, hc]; rfl
    rw [if_pos hc, hc, if_neg (by omega), if_neg (by omega)]
    match l, hl1, hl with
    | [c], _, hl =>
      have hcm := chainOk_mem hl c List.mem_cons_self
      rw [if_neg (by intro hh; rcases hh with hh | hh <;> simp at hh <;> omega)]
      simp [freeAll]
  · have : l.length = cnt size bpc := by
      rw [hlen]; show Max.max (cnt size bpc) 1 = _; omega
    rw [if_neg hc, if_pos this.symm]

/-- re-marking a cluster that already carries the library's end-of-chain value changes nothing -/
theorem set_same (m : CMap) (c v : Nat) (h : m c = v) : m.set c v = m := by
  funext i
  by_cases hi : i = c
  · subst hi; rw [CMap.set_eq, h]
  · rw [CMap.set_ne m v hi]

/-- the table after allocateSpace(0, c) on an empty file still satisfies the invariant with the
    same owners: the first cluster is kept -/
theorem alloc_zero_keeps_inv {k lim m c others} (h : Inv k lim m ([c] :: others)) :
    Inv k lim (m.set c k.eoc) ([c] :: others) := by
  have hl : ChainOk k lim m [c] := h.chains [c] List.mem_cons_self
  have hnodup : ([c] ++ others.flatten).Nodup := by have := h.nodup; rwa [List.flatten_cons] at this
  have hnotin : c ∉ others.flatten := by
    intro hc
    have := (List.nodup_append.1 hnodup).2.2 c List.mem_cons_self c hc
    exact this rfl
  refine ⟨?_, h.nodup, ?_⟩
  · intro l' hl'
    rcases List.mem_cons.1 hl' with he | hm
    · subst he
      exact ⟨hl.1, hl.2.1, by rw [CMap.set_eq]; exact isEOC_eoc k⟩
    · have hch := h.chains l' (List.mem_cons_of_mem _ hm)
      apply chainOk_congr hch
      intro x hx
      have hxne : x ≠ c := by
        intro he; subst he
        exact hnotin (List.mem_flatten.2 ⟨l', hm, hx⟩)
      exact CMap.set_ne m k.eoc hxne
  · intro x h2 hx
    by_cases he : x = c
    · subst he
      rw [CMap.set_eq]
      constructor
      · intro _; simp [List.flatten_cons]
      · intro _; exact eoc_ne_zero k
    · rw [CMap.set_ne m k.eoc he]; exact h.used_iff x h2 hx

end Diskfs.Fat
