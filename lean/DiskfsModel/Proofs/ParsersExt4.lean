/-
  C18 parsers — ext4 `directoryEntryFromBytes`, `parseDirEntriesLinear`, `parseExtents`.
-/
import DiskfsModel.Proofs.ParsersBase
namespace Diskfs.Parsers.Ext4
open Diskfs.Parsers

/-- `directoryEntryFromBytes` cannot panic when the name announced in byte 6 fits the entry
    (what the caller has checked: `0x8+int(b[i+0x6]) <= int(length)`) -/
theorem dirEntryFromBytes_no_panic (b : GS) (hwf : b.wf)
    (hname : 8 + (b.buf.getD 6 0).toNat ≤ b.len) : dirEntryFromBytes b ≠ .panic := by
  unfold GS.wf at hwf
  unfold dirEntryFromBytes
  simp only [minDirEntryLength, maxDirEntryLength]
  by_cases h12 : b.len < 12
  · simp [h12]
  · simp only [h12, if_false]
    have hb := UInt8.toNat_lt (b.buf.getD 6 0)
    by_cases h263 : b.len > 263
    · -- truncated to 263 bytes
      simp only [h263, if_true]
      have h6 : (6 : Nat) < (GS.mk b.buf 263).len := by simp
      rw [idx_ok _ 6 h6]
      simp only [bind_ok]
      rw [slc_ok _ 8 _ (by omega) (by simp only []; omega)]
      simp only [bind_ok]
      rw [le_ok _ 0 4 (by simp only []; omega)]
      simp only [bind_ok]
      rw [idx_ok _ 7 (by simp)]
      simp
    · simp only [h263, if_false]
      rw [idx_ok _ 6 (by omega)]
      simp only [bind_ok]
      rw [slc_ok _ 8 _ (by omega) (by omega)]
      simp only [bind_ok]
      rw [le_ok _ 0 4 (by omega)]
      simp only [bind_ok]
      rw [idx_ok _ 7 (by omega)]
      simp

theorem dirEntryFromBytes_ne_fuel (b : GS) : dirEntryFromBytes b ≠ .fuel := by
  unfold dirEntryFromBytes
  by_cases h12 : b.len < minDirEntryLength
  · simp [h12]
  · simp only [h12, if_false]
    refine bind_ne_fuel (idx_ne_fuel _ _) fun nl _ => ?_
    refine bind_ne_fuel (slc_ne_fuel _ _ _) fun nm _ => ?_
    refine bind_ne_fuel (le_ne_fuel _ _ _) fun ino _ => ?_
    refine bind_ne_fuel (idx_ne_fuel _ _) fun ft _ => ?_
    simp

/-- one step of the checked loop, spelled out: what has to hold for an iteration to continue -/
theorem dirLoop_step (b : GS) (hwf : b.wf) (fuel i : Nat) (acc : List DirEnt)
    (hi : i < b.len) (h12 : i + 12 ≤ b.len) :
    dirLoop true b (fuel + 1) i acc =
      (let length := leDec (GS.bytes ⟨b.buf.drop (i + 4), 2⟩)
       if length < 12 then .err
       else if i + length > b.len then .err
       else if 8 + (b.buf.getD (i + 6) 0).toNat > length then .err
       else dirEntryFromBytes ⟨b.buf.drop i, length⟩ >>= fun de =>
         dirLoop true b fuel (i + length) (acc ++ [de])) := by
  unfold GS.wf at hwf
  rw [dirLoop]
  simp only [hi, not_true_eq_false, if_false, minDirEntryLength, Bool.true_and, Bool.not_true]
  have hn : ¬ (i + 12 > b.len) := by omega
  simp only [hn, decide_false, Bool.false_eq_true, if_false]
  rw [le_ok b (i + 4) 2 (by omega)]
  simp only [bind_ok]
  by_cases hl : leDec (GS.bytes ⟨b.buf.drop (i + 4), 2⟩) < 12
  · simp [hl]
  · simp only [hl, if_false]
    by_cases hp : i + leDec (GS.bytes ⟨b.buf.drop (i + 4), 2⟩) > b.len
    · simp [hp]
    · simp only [hp, if_false]
      rw [idx_ok b (i + 6) (by omega)]
      simp only [bind_ok, pure_eq]
      by_cases hnm : 8 + (b.buf.getD (i + 6) 0).toNat > leDec (GS.bytes ⟨b.buf.drop (i + 4), 2⟩)
      · simp only [hnm, decide_true, if_true]
      · simp only [hnm, decide_false, Bool.false_eq_true, if_false]
        rw [slc_ok b i _ (by omega) (by omega)]
        simp only [bind_ok, Nat.add_sub_cancel_left]

/-- the checked loop never panics: every slice and index it evaluates is inside the buffer -/
theorem dirLoop_no_panic (b : GS) (hwf : b.wf) :
    ∀ fuel i acc, dirLoop true b fuel i acc ≠ .panic := by
  intro fuel
  induction fuel with
  | zero => intro i acc; simp [dirLoop]
  | succ n ih =>
    intro i acc
    by_cases hi : i < b.len
    · by_cases h12 : i + 12 ≤ b.len
      · rw [dirLoop_step b hwf n i acc hi h12]
        simp only
        split
        · simp
        · split
          · simp
          · split
            · simp
            · rename_i h1 h2 h3
              refine bind_ne_panic ?_ (fun de _ => ih _ _)
              apply dirEntryFromBytes_no_panic
              · unfold GS.wf at hwf ⊢
                simp only [List.length_drop]
                omega
              · simp only [getD_drop]
                omega
      · rw [dirLoop]
        simp only [hi, not_true_eq_false, if_false, minDirEntryLength, Bool.true_and]
        have : i + 12 > b.len := by omega
        simp [this]
    · rw [dirLoop]
      simp [hi]

/-- the checked loop advances by at least 12 bytes per iteration: `(len - i) / 12 + 1` iterations
    suffice from position `i` -/
theorem dirLoop_terminates (b : GS) (hwf : b.wf) :
    ∀ fuel i acc, i ≤ b.len → b.len + 12 ≤ i + 12 * fuel → dirLoop true b fuel i acc ≠ .fuel := by
  intro fuel
  induction fuel with
  | zero => intro i acc hle h; omega
  | succ n ih =>
    intro i acc hle h
    by_cases hi : i < b.len
    · by_cases h12 : i + 12 ≤ b.len
      · rw [dirLoop_step b hwf n i acc hi h12]
        simp only
        split
        · simp
        · split
          · simp
          · split
            · simp
            · rename_i h1 h2 h3
              refine bind_ne_fuel (dirEntryFromBytes_ne_fuel _) (fun de _ => ih _ _ ?_ ?_)
              · omega
              · omega
      · rw [dirLoop]
        simp only [hi, not_true_eq_false, if_false, minDirEntryLength, Bool.true_and]
        have : i + 12 > b.len := by omega
        simp [this]
    · rw [dirLoop]
      simp [hi]

/-- entries returned by the checked loop: each consumed at least 12 bytes of the buffer
    (so the result slice holds at most len/12 entries) -/
theorem dirLoop_count (b : GS) (hwf : b.wf) :
    ∀ fuel i acc l, i ≤ b.len → dirLoop true b fuel i acc = .ok l →
      12 * l.length + b.len ≤ 12 * acc.length + b.len + (b.len - i) ∧ 12 * (l.length - acc.length) ≤ b.len - i := by
  intro fuel
  induction fuel with
  | zero => intro i acc l _ h; simp [dirLoop] at h
  | succ n ih =>
    intro i acc l hle h
    by_cases hi : i < b.len
    · by_cases h12 : i + 12 ≤ b.len
      · rw [dirLoop_step b hwf n i acc hi h12] at h
        simp only at h
        split at h
        · simp at h
        · split at h
          · simp at h
          · split at h
            · simp at h
            · rename_i h1 h2 h3
              cases hde : dirEntryFromBytes ⟨b.buf.drop i, leDec (GS.bytes ⟨b.buf.drop (i + 4), 2⟩)⟩ with
              | ok de =>
                rw [hde] at h
                simp only [bind_ok] at h
                have := ih _ _ _ (by omega) h
                simp only [List.length_append, List.length_cons, List.length_nil] at this
                omega
              | err => rw [hde] at h; simp at h
              | panic => rw [hde] at h; simp at h
              | fuel => rw [hde] at h; simp at h
      · rw [dirLoop] at h
        simp only [hi, not_true_eq_false, if_false, minDirEntryLength, Bool.true_and] at h
        have : i + 12 > b.len := by omega
        simp [this] at h
    · rw [dirLoop] at h
      simp only [hi, not_false_eq_true, if_true] at h
      injection h with h
      subst h
      omega

/-! ### parseExtents -/

theorem leafLoop_no_panic (b : GS) (hwf : b.wf) :
    ∀ n i acc, 12 + (i + n) * 12 ≤ b.len → leafLoop b n i acc ≠ .panic := by
  unfold GS.wf at hwf
  intro n
  induction n with
  | zero => intro i acc _; simp [leafLoop]
  | succ n ih =>
    intro i acc h
    rw [leafLoop]
    rw [slc_ok b _ _ (by omega) (by omega)]
    simp only [bind_ok]
    rw [slc_ok b _ _ (by omega) (by omega)]
    simp only [bind_ok]
    rw [le_ok b _ 4 (by omega)]
    simp only [bind_ok]
    rw [le_ok b _ 2 (by omega)]
    simp only [bind_ok]
    apply ih
    omega

theorem intLoop_no_panic (b : GS) (hwf : b.wf) :
    ∀ n i acc, 12 + (i + n) * 12 ≤ b.len → intLoop b n i acc ≠ .panic := by
  unfold GS.wf at hwf
  intro n
  induction n with
  | zero => intro i acc _; simp [intLoop]
  | succ n ih =>
    intro i acc h
    rw [intLoop]
    rw [slc_ok b _ _ (by omega) (by omega)]
    simp only [bind_ok]
    rw [slc_ok b _ _ (by omega) (by omega)]
    simp only [bind_ok]
    rw [le_ok b _ 4 (by omega)]
    simp only [bind_ok]
    apply ih
    omega

theorem leafLoop_length (b : GS) :
    ∀ n i acc l, leafLoop b n i acc = .ok l → l.length = acc.length + n := by
  intro n
  induction n with
  | zero => intro i acc l h; simp [leafLoop] at h; subst h; simp
  | succ n ih =>
    intro i acc l h
    rw [leafLoop] at h
    cases h1 : slc b (i * 12 + 12 + 8) (i * 12 + 12 + 12) with
    | ok lo =>
      rw [h1] at h; simp only [bind_ok] at h
      cases h2 : slc b (i * 12 + 12 + 6) (i * 12 + 12 + 8) with
      | ok hi' =>
        rw [h2] at h; simp only [bind_ok] at h
        cases h3 : le b (i * 12 + 12) 4 with
        | ok fb =>
          rw [h3] at h; simp only [bind_ok] at h
          cases h4 : le b (i * 12 + 12 + 4) 2 with
          | ok cnt =>
            rw [h4] at h; simp only [bind_ok] at h
            have := ih _ _ _ h
            simp only [List.length_append, List.length_cons, List.length_nil] at this
            omega
          | err => rw [h4] at h; simp at h
          | panic => rw [h4] at h; simp at h
          | fuel => rw [h4] at h; simp at h
        | err => rw [h3] at h; simp at h
        | panic => rw [h3] at h; simp at h
        | fuel => rw [h3] at h; simp at h
      | err => rw [h2] at h; simp at h
      | panic => rw [h2] at h; simp at h
      | fuel => rw [h2] at h; simp at h
    | err => rw [h1] at h; simp at h
    | panic => rw [h1] at h; simp at h
    | fuel => rw [h1] at h; simp at h

theorem intLoop_length (b : GS) :
    ∀ n i acc l, intLoop b n i acc = .ok l → l.length = acc.length + n := by
  intro n
  induction n with
  | zero => intro i acc l h; simp [intLoop] at h; subst h; simp
  | succ n ih =>
    intro i acc l h
    rw [intLoop] at h
    cases h1 : slc b (i * 12 + 12 + 4) (i * 12 + 12 + 8) with
    | ok lo =>
      rw [h1] at h; simp only [bind_ok] at h
      cases h2 : slc b (i * 12 + 12 + 8) (i * 12 + 12 + 10) with
      | ok hi' =>
        rw [h2] at h; simp only [bind_ok] at h
        cases h3 : le b (i * 12 + 12) 4 with
        | ok fb =>
          rw [h3] at h; simp only [bind_ok] at h
          have := ih _ _ _ h
          simp only [List.length_append, List.length_cons, List.length_nil] at this
          omega
        | err => rw [h3] at h; simp at h
        | panic => rw [h3] at h; simp at h
        | fuel => rw [h3] at h; simp at h
      | err => rw [h2] at h; simp at h
      | panic => rw [h2] at h; simp at h
      | fuel => rw [h2] at h; simp at h
    | err => rw [h1] at h; simp at h
    | panic => rw [h1] at h; simp at h
    | fuel => rw [h1] at h; simp at h

theorem fixCountsAux_length (last : Nat) (l : List ExtRow) : (fixCountsAux last l).length = l.length := by
  induction l with
  | nil => rfl
  | cons r rest ih => simp only [fixCountsAux, List.length_cons, ih]

theorem fixCounts_length (start count : Nat) (l : List ExtRow) :
    (fixCounts start count l).length = l.length := fixCountsAux_length _ l

/-- a node that parses has exactly the announced number of rows, and they all lie inside the bytes given:
    the slices `parseExtents` appends to hold at most (len - 12) / 12 entries -/
theorem parseExtents_count (b : GS) (hwf : b.wf) (start count : Nat) (n : ExtNode)
    (h : parseExtents true b start count = .ok n) :
    n.rows.length = n.entries ∧ 12 + 12 * n.entries ≤ b.len := by
  unfold GS.wf at hwf
  unfold parseExtents at h
  split at h
  · simp at h
  · rename_i h24
    rw [le_ok b 0 2 (by omega)] at h
    simp only [bind_ok] at h
    split at h
    · simp at h
    · rw [le_ok b 2 2 (by omega), le_ok b 4 2 (by omega), le_ok b 6 2 (by omega)] at h
      simp only [bind_ok, Bool.true_and] at h
      split at h
      · simp at h
      · rename_i hfit
        simp only [decide_eq_true_eq] at hfit
        split at h
        · cases hl : leafLoop b (leDec (GS.bytes ⟨b.buf.drop 2, 2⟩)) 0 [] with
          | ok rows =>
            rw [hl] at h; simp only [bind_ok, pure_eq] at h
            injection h with h; subst h
            have := leafLoop_length b _ _ _ _ hl
            simp only [List.length_nil] at this
            refine ⟨?_, ?_⟩ <;> dsimp only <;> omega
          | err => rw [hl] at h; simp at h
          | panic => rw [hl] at h; simp at h
          | fuel => rw [hl] at h; simp at h
        · cases hl : intLoop b (leDec (GS.bytes ⟨b.buf.drop 2, 2⟩)) 0 [] with
          | ok rows =>
            rw [hl] at h; simp only [bind_ok, pure_eq] at h
            injection h with h; subst h
            have := intLoop_length b _ _ _ _ hl
            simp only [List.length_nil] at this
            refine ⟨?_, ?_⟩
            · dsimp only; rw [fixCounts_length]; omega
            · dsimp only; omega
          | err => rw [hl] at h; simp at h
          | panic => rw [hl] at h; simp at h
          | fuel => rw [hl] at h; simp at h

/-- the checked `parseExtents` never panics, whatever the node bytes and the capacity of the slice -/
theorem parseExtents_no_panic (b : GS) (hwf : b.wf) (start count : Nat) :
    parseExtents true b start count ≠ .panic := by
  have hwf' := hwf
  unfold GS.wf at hwf'
  unfold parseExtents
  split
  · simp
  · rename_i h24
    rw [le_ok b 0 2 (by omega)]
    simp only [bind_ok]
    split
    · simp
    · rw [le_ok b 2 2 (by omega), le_ok b 4 2 (by omega), le_ok b 6 2 (by omega)]
      simp only [bind_ok, Bool.true_and]
      split
      · simp
      · rename_i hfit
        simp only [decide_eq_true_eq] at hfit
        split
        · refine bind_ne_panic (leafLoop_no_panic b hwf _ _ _ ?_) (fun rows _ => by simp)
          omega
        · refine bind_ne_panic (intLoop_no_panic b hwf _ _ _ ?_) (fun rows _ => by simp)
          omega

end Diskfs.Parsers.Ext4
