/-
  Helper lemmas for the ext4 flat-extent read mapping (Model/Ext4/FileIO.lean):
  the repaired read loop returns exactly the mapped byte string, for every
  contiguous extent list, offset and length; it never panics.
-/
import DiskfsModel.Model.Ext4.FileIO
namespace Diskfs.Ext4

theorem readAt_add (d : Dev) (a m n : Nat) :
    readAt d a (m + n) = readAt d a m ++ readAt d (a + m) n := by
  simp only [readAt, List.range_add, List.map_append, List.map_map]
  congr 1
  apply List.map_congr_left
  intro i _
  simp [Nat.add_assoc]

theorem readAt_zero (d : Dev) (a : Nat) : readAt d a 0 = [] := by simp [readAt]

theorem readAt_split (d : Dev) (a n k : Nat) (h : k ≤ n) :
    readAt d a n = readAt d a k ++ readAt d (a + k) (n - k) := by
  have : n = k + (n - k) := by omega
  rw [this, readAt_add]
  congr 2
  omega

theorem readAt_drop (d : Dev) (a n k : Nat) (h : k ≤ n) :
    (readAt d a n).drop k = readAt d (a + k) (n - k) := by
  rw [readAt_split d a n k h]
  exact List.drop_left' (by simp)

theorem readAt_take (d : Dev) (a n k : Nat) (h : k ≤ n) :
    (readAt d a n).take k = readAt d a k := by
  rw [readAt_split d a n k h]
  exact List.take_left' (by simp)

theorem blockCount_cons (e : Extent) (es : List Extent) : blockCount (e :: es) = e.count + blockCount es := by
  simp [blockCount]

theorem fileBytes_length (dev : Dev) (bs : Nat) (es : List Extent) :
    (fileBytes dev bs es).length = blockCount es * bs := by
  induction es with
  | nil => simp [fileBytes, blockCount]
  | cons e es ih =>
    simp only [fileBytes, List.length_append, readAt_length, ih, blockCount_cons]
    rw [Nat.add_mul]

/-- loop invariant of the repaired read loop (`lt = false`) -/
theorem readLoop_spec (dev : Dev) (bs off0 want : Nat) (hbs : 0 < bs) :
    ∀ (es : List Extent) (first off : Nat) (got : Bytes) (ios : List (Nat × Nat)),
      Contig first es →
      first * bs ≤ off → off0 ≤ off →
      ((off = off0 ∧ got = []) ∨ off = first * bs) →
      got.length ≤ want →
      off + (want - got.length) ≤ first * bs + blockCount es * bs →
      ∃ r, readLoop false dev bs (off0 / bs) want es off got ios = .ok r ∧
        r.data = got ++ ((fileBytes dev bs es).drop (off - first * bs)).take (want - got.length) ∧
        r.off = off + (want - got.length) := by
  intro es
  induction es with
  | nil =>
    intro first off got ios _ hbase _ _ hgw henough
    simp only [blockCount, List.map_nil, List.sum_nil, Nat.zero_mul, Nat.add_zero] at henough
    have : want - got.length = 0 := by omega
    exact ⟨⟨got, ios, off⟩, by simp [readLoop, this, zeros], by simp [this, fileBytes], by simp [this]⟩
  | cons e es ih =>
    intro first off got ios hc hbase hoff0 hdisj hgw henough
    obtain ⟨hfb, hcnt, hrest⟩ := hc
    rw [blockCount_cons] at henough
    have hdm : off0 / bs * bs ≤ off0 := Nat.div_mul_le_self off0 bs
    have hlt : off0 < (off0 / bs + 1) * bs := by
      have := Nat.lt_div_mul_add (a := off0) (b := bs) hbs
      rw [Nat.add_mul]; omega
    by_cases hskip : e.fileBlock + e.count ≤ off0 / bs
    · -- skipped: we are still in front of the start block
      have hle : (first + e.count) * bs ≤ off0 / bs * bs := Nat.mul_le_mul_right bs (by omega)
      have hoff : off = off0 ∧ got = [] := by
        rcases hdisj with h | h
        · exact h
        · exfalso
          have : first * bs < (first + e.count) * bs := by
            rw [Nat.add_mul]; have := Nat.mul_pos hcnt hbs; omega
          omega
      have hbase' : (first + e.count) * bs ≤ off := by omega
      have hen' : off + (want - got.length) ≤ (first + e.count) * bs + blockCount es * bs := by
        rw [Nat.add_mul]; rw [Nat.add_mul] at henough; omega
      obtain ⟨r, hr, hdata, hroff⟩ := ih (first + e.count) off got ios hrest hbase' hoff0 (Or.inl hoff) hgw hen'
      refine ⟨r, ?_, ?_, hroff⟩
      · simp only [readLoop, skips, hskip, decide_true]
        simpa using hr
      · rw [hdata]
        congr 2
        simp only [fileBytes]
        have hlen : (readAt dev (e.start * bs) (e.count * bs)).length ≤ off - first * bs := by
          simp only [readAt_length]; rw [Nat.add_mul] at hbase'; omega
        rw [List.drop_append, List.drop_of_length_le hlen]
        simp only [readAt_length, List.nil_append]
        congr 1
        rw [Nat.add_mul]; omega
    · -- not skipped
      have hns : off0 / bs < e.fileBlock + e.count := by omega
      have hend : off0 < (first + e.count) * bs := by
        have : (off0 / bs + 1) * bs ≤ (first + e.count) * bs := Nat.mul_le_mul_right bs (by omega)
        omega
      have hsp : off - first * bs < e.count * bs ∨ off - first * bs = 0 := by
        rcases hdisj with h | h
        · left; rw [Nat.add_mul] at hend; omega
        · right; omega
      have hsp' : ¬ (off - e.fileBlock * bs > e.count * bs) := by
        rw [hfb]; rcases hsp with h | h <;> omega
      have hnw : ¬ (off < e.fileBlock * bs) := by rw [hfb]; omega
      simp only [readLoop, skips, hskip, decide_false, if_false, Bool.false_eq_true, hnw, false_and,
        zeros, List.replicate_zero, List.append_nil, Nat.add_zero, hsp']
      -- abbreviations
      generalize hsP : off - e.fileBlock * bs = sp at *
      have hspP : sp = off - first * bs := by rw [← hsP, hfb]
      have hsple : sp ≤ e.count * bs := by omega
      -- the part of the file from `off` on
      have hF : (fileBytes dev bs (e :: es)).drop (off - first * bs) =
          readAt dev (e.start * bs + sp) (e.count * bs - sp) ++ fileBytes dev bs es := by
        simp only [fileBytes]
        rw [← hspP]
        rw [List.drop_append_of_le_length (by simp; omega)]
        rw [readAt_drop dev _ _ sp hsple]
      by_cases hfit : want - got.length ≤ e.count * bs - sp
      · -- the rest of the request lies inside this extent
        have hmin : min (want - got.length) (e.count * bs - sp) = want - got.length := Nat.min_eq_left hfit
        rw [hmin]
        have hge : (got ++ readAt dev (e.start * bs + sp) (want - got.length)).length ≥ want := by
          simp; omega
        simp only [hge, if_true]
        refine ⟨_, rfl, ?_, rfl⟩
        simp only
        rw [hF, List.take_append_of_le_length (by simp; omega), readAt_take _ _ _ _ hfit]
      · -- the extent is exhausted, continue with the next one
        have hfit' : e.count * bs - sp < want - got.length := by omega
        have hmin : min (want - got.length) (e.count * bs - sp) = e.count * bs - sp := Nat.min_eq_right (by omega)
        rw [hmin]
        have hlt' : ¬ ((got ++ readAt dev (e.start * bs + sp) (e.count * bs - sp)).length ≥ want) := by
          simp; omega
        simp only [hlt', if_false]
        have hoff' : off + (e.count * bs - sp) = (first + e.count) * bs := by
          rw [Nat.add_mul]; omega
        have hgl : (got ++ readAt dev (e.start * bs + sp) (e.count * bs - sp)).length = got.length + (e.count * bs - sp) := by
          simp
        obtain ⟨r, hr, hdata, hroff⟩ := ih (first + e.count) (off + (e.count * bs - sp))
          (got ++ readAt dev (e.start * bs + sp) (e.count * bs - sp)) (ios ++ [(e.start * bs + sp, e.count * bs - sp)])
          hrest (by omega) (by omega) (Or.inr hoff') (by rw [hgl]; omega)
          (by rw [hgl, hoff']; rw [Nat.add_mul] at henough ⊢; omega)
        refine ⟨r, hr, ?_, ?_⟩
        · rw [hdata, hF, hgl, hoff']
          simp only [Nat.sub_self, List.drop_zero, List.append_assoc]
          congr 1
          rw [List.take_append]
          have h1 : (readAt dev (e.start * bs + sp) (e.count * bs - sp)).take (want - got.length) =
              readAt dev (e.start * bs + sp) (e.count * bs - sp) :=
            List.take_of_length_le (by rw [readAt_length]; omega)
          rw [h1, readAt_length]
          congr 2
          omega
        · rw [hroff, hgl]; omega

end Diskfs.Ext4
