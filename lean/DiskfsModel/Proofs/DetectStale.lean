/-
  Helper lemmas for C12 (Props/C12.lean), the stale-bytes clause: which signature of a PREVIOUS filesystem
  survives a Create of another type.  fat16.Create (4 reserved sectors) and fat32.Create at 512-byte sectors
  (32 reserved sectors, of which 0, 1, 6 and 7 are written) never touch bytes 1080..1081, where ext4 keeps its
  magic number: a stale ext4 superblock survives them, and only the probe order (FAT before ext4) keeps
  GetFilesystem from answering ext4.
-/
import DiskfsModel.Model.Detect
import DiskfsModel.Proofs.Detect
set_option linter.unusedSimpArgs false
namespace Diskfs.Detect

/-- fat16.Create writes nothing into bytes 512..2047 (reserved sectors 1-3) -/
theorem create16_frame (stale : Dev) (L : Layout) (hres : L.reserved = 4) (serial : Nat) (label : List Nat)
    (fat rootDir : Bytes) (j : Nat) (h1 : 512 ≤ j) (h2 : j < 2048) :
    applyWrs stale (createWrs1x true L serial label fat rootDir) j = stale j := by
  apply applyWrs_frame
  intro w hw
  simp only [createWrs1x, hres, List.mem_cons, List.not_mem_nil, or_false] at hw
  rcases hw with rfl | rfl | rfl | rfl | rfl | rfl <;> simp only [sectorBytes_length] <;> omega

/-- fat32.Create at 512-byte sectors writes nothing into bytes 1024..3071 (reserved sectors 2-5) -/
theorem create32_frame (stale : Dev) (L : Layout32) (hb : L.bps = 512) (serial : Nat) (label : List Nat)
    (fat rootDir : Bytes) (j : Nat) (h1 : 1024 ≤ j) (h2 : j < 3072) :
    applyWrs stale (createWrs32 L serial label fat rootDir) j = stale j := by
  apply applyWrs_frame
  intro w hw
  simp only [createWrs32, hb, List.mem_cons, List.not_mem_nil, or_false] at hw
  rcases hw with rfl | rfl | rfl | rfl | rfl | rfl | rfl | rfl | rfl | rfl <;> simp only [sectorBytes_length] <;> omega

/-- ext4.Read's header tests on a volume of at least 2560 bytes whose bytes 1080..1081 hold the magic number -/
theorem ext4_hdr_of_magic (rd : Dev) (size avail bs : Nat) (deep : Verdict) (hm : u16 rd 1080 = 0xEF53)
    (hsz : 2560 ≤ size) (hav : size ≤ avail) (hbs : bs = 0 ∨ bs = 512) :
    verdictExt4 rd size avail bs deep = deep := by
  have r1 : readOk avail 0 1024 = true := by simp [readOk]; omega
  have r2 : readOk avail 1024 1024 = true := by simp [readOk]; omega
  have hs : ¬ size < 2560 := by omega
  unfold verdictExt4
  rcases hbs with rfl | rfl <;> simp [r1, r2, hm, hs]

theorem u16_congr (d d' : Dev) (i : Nat) (h0 : d i = d' i) (h1 : d (i + 1) = d' (i + 1)) : u16 d i = u16 d' i := by
  simp [u16, u8, h0, h1]

end Diskfs.Detect
