/-
  C03 for squashfs: every WriteAt of the region mirror of `Finalize` (Model/Sqfs/Regions.lean) ends
  at or below bytes_used, and bytes_used is reached — so through SubStorage every write lies inside
  [start, start + bytes_used), and inside [start, start + size) iff bytes_used ≤ size.
-/
import DiskfsModel.Proofs.SqfsRegions
import DiskfsModel.Model.Ranges
namespace Diskfs.Sqfs

theorem finalize_write_le (p : Pieces) : ∀ w ∈ (finalize p).writes, w.1 + w.2 ≤ (finalize p).bytesUsed := by
  obtain ⟨hw, hu⟩ := finalize_writes_seq p
  rw [hw, hu]
  intro w hm
  simp only [List.mem_append, List.mem_singleton] at hm
  rcases hm with hm | rfl
  · exact (seqWrites_bounds sbSize (allLens p) w hm).2
  · simp

theorem bytesUsed_ge (p : Pieces) : sbSize ≤ (finalize p).bytesUsed := by
  rw [(finalize_writes_seq p).2]; omega

/-- some write ends exactly at bytes_used -/
theorem finalize_write_reaches (p : Pieces) : ∃ w ∈ (finalize p).writes, w.1 + w.2 = (finalize p).bytesUsed := by
  have hge := bytesUsed_ge p
  have hpos : (finalize p).bytesUsed - 1 < (finalize p).bytesUsed := by simp only [sbSize] at hge; omega
  obtain ⟨w, hw, h1, h2⟩ := (finalize_cover p _).1 hpos
  have := finalize_write_le p w hw
  exact ⟨w, hw, by omega⟩

/-- the device writes of Finalize behind SubStorage: any write list whose (offset, length) pairs
    are the mirror's, shifted by `start` -/
theorem finalize_sub_inside (p : Pieces) (start : Nat) (ws : List Wr)
    (hws : ws.map (fun w => (w.off, w.data.length)) = (finalize p).writes) :
    ∀ w ∈ ws.map (Ranges.subWrite start), start ≤ w.off ∧ w.off + w.data.length ≤ start + (finalize p).bytesUsed := by
  intro w hw
  obtain ⟨v, hv, rfl⟩ := List.mem_map.1 hw
  have hm : (v.off, v.data.length) ∈ (finalize p).writes := by
    rw [← hws]; exact List.mem_map.2 ⟨v, hv, rfl⟩
  have := finalize_write_le p _ hm
  simp only [Ranges.subWrite]
  simp only at this
  omega

end Diskfs.Sqfs
